(* C05, converse direction for full-block decoding: whenever the decoder model does not
   fail, the input parses as a block and the image is what the specification's sequence
   semantics define - unless a parsed sequence has match offset 0 (finding F5: the decoder
   accepts it, the specification does not).

   Method: for every decision of the decoder the complement of the forward lemma's
   hypotheses leads to [Err]; so "not Err" yields those hypotheses and the forward
   (memory) lemmas of DecRefineSafe apply.  List-side facts (the specification's parser
   succeeds) are derived from the decoder's own bound tests. *)
From Coq Require Import ZArith List Lia Bool ZifyBool.
From LZ4V Require Import Gen.Consts Spec.BlockSpec Model.Mem Model.Dec.
From LZ4V Require Import Proofs.DecRefineBase Proofs.DecRefineSafe Proofs.DecConverseErr.
Import ListNotations.
Local Open Scope Z_scope.

(* some parsed sequence has offset 0 (walks the block like [parse_seqs]) *)
Fixpoint zero_off (fuel : nat) (bs : list Z) : bool :=
  match fuel with
  | O => false
  | S f =>
    match bs with
    | [] => false
    | tok :: r =>
      match read_len (tok / 16) r with
      | None => false
      | Some (ll, r1) =>
        match take (Z.to_nat ll) r1 with
        | None => false
        | Some (lits, r2) =>
          match r2 with
          | o1 :: o2 :: r3 =>
            match read_len (tok mod 16) r3 with
            | None => false
            | Some (ml, r4) => (o1 + 256 * o2 =? 0) || zero_off f r4
            end
          | _ => false
          end
        end
      end
    end
  end.

Section Rev.
  Variables (dict : ddict) (srcm : mem).
  Variables (iend oend lowPrefix rlow : Z) (dictm : mem) (dictSize : Z).
  Hypothesis HlowP : lowPrefix <= 0.
  Hypothesis Hds : 0 <= dictSize.
  Hypothesis Hext : is_extdict dict = false -> dictSize = 0.
  Hypothesis Hp64 : is_prefix64k dict = true -> lowPrefix <= -65535.
  Hypothesis Hsrc : forall a, 0 <= get srcm a < 256.

  Notation vget := (vget lowPrefix dictm dictSize).
  Notation hroom := (hroom dict dictSize).

  Ltac unf :=
    unfold wr, rd_src, rd_dst, rd_dict, checkOffset, shortiend, shortoend,
      MINMATCH, LASTLITERALS, MFLIMIT, MATCH_SAFEGUARD_DISTANCE,
      FASTLOOP_SAFE_DISTANCE, WILDCOPYLENGTH, ML_MASK, RUN_MASK in *;
    cbn [ip op dm ok] in *.
  Ltac fin := unfold byte in *; unf; lia.

  (* ---------- read_variable_length succeeded => the specification's read_ext does ---------- *)
  Lemma rvl_loop_rev : forall fuel (bs : list Z) p len kf ilimit acc,
    src_at srcm p bs -> p + Z.of_nat (length bs) = iend -> ilimit < iend ->
    match rvl_loop srcm iend fuel p len kf ilimit with
    | (Some l, p', _) =>
        exists v (r : list Z), read_ext bs acc = Some (v, r) /\ l = len + (v - acc) /\
                               p' = p + (Z.of_nat (length bs) - Z.of_nat (length r)) /\ p' <= ilimit /\
                               (length r < length bs)%nat
    | (None, _, _) => True
    end.
  Proof.
    induction fuel as [|f IH]; intros bs p len kf ilimit acc Hs Hie Hil; cbn [rvl_loop]; [exact I|].
    cbv zeta.
    destruct (p + 1 >? ilimit) eqn:E1; [exact I|].
    destruct bs as [|b r0]; [cbn [length] in Hie; lia|].
    destruct (src_at_cons _ _ _ _ Hs) as [Hb Hs'].
    rewrite Hb. cbn [read_ext].
    destruct (b =? 255) eqn:E255.
    - specialize (IH r0 (p + 1) (len + b) (kf && rd_src iend p 1) ilimit (acc + 255) Hs').
      cbn [length] in Hie.
      destruct (rvl_loop srcm iend f (p + 1) (len + b) (kf && rd_src iend p 1) ilimit) as [[[l|] p'] k']; [|exact I].
      destruct IH as (v & r & H1 & H2 & H3 & H4 & H5); [lia | lia |].
      exists v, r. cbn [length]. repeat split; try assumption; lia.
    - exists (acc + b), r0. cbn [length]. repeat split; lia.
  Qed.

  Lemma rvl_rev (bs : list Z) p ilimit ic kf :
    src_at srcm p bs -> p + Z.of_nat (length bs) = iend -> ilimit < iend ->
    match rvl srcm iend p ilimit ic kf with
    | (Some l, p', _) =>
        exists v (r : list Z), read_ext bs 15 = Some (v, r) /\ l = v - 15 /\
                               p' = p + (Z.of_nat (length bs) - Z.of_nat (length r)) /\ p' <= ilimit /\
                               (length r < length bs)%nat
    | (None, _, _) => True
    end.
  Proof.
    intros Hs Hie Hil. unfold rvl.
    destruct (ic && (p >=? ilimit)); [exact I|].
    pose proof (rvl_loop_rev (Z.to_nat iend + 1) bs p 0 kf ilimit 15 Hs Hie Hil) as H.
    destruct (rvl_loop srcm iend (Z.to_nat iend + 1) p 0 kf ilimit) as [[[l|] p'] k']; [|exact I].
    destruct H as (v & r & H1 & H2 & H3 & H4 & H5). exists v, r. repeat split; try assumption; lia.
  Qed.

  (* ---------- safe_match: either Err, or the forward lemma's hypotheses held ---------- *)
  Lemma safe_match_cases s offset length :
    1 <= offset <= 65535 -> 4 <= length -> 0 <= op s ->
    match safe_match false dict oend lowPrefix rlow dictm dictSize s offset length with
    | Err _ => True
    | Done _ => False
    | Cont f s' => f = false /\ vmatch_post lowPrefix dictm dictSize s offset length s' /\
                   lowPrefix - hroom <= op s - offset /\ op s + length <= oend - 5
    end.
  Proof.
    intros Ho Hlen Hop.
    destruct (checkOffset dictSize && (op s - offset + dictSize <? lowPrefix)) eqn:Echk.
    { unfold safe_match. cbv zeta. rewrite Echk. exact I. }
    assert (Hacc : lowPrefix - hroom <= op s - offset).
    { unfold DecRefineSafe.hroom. destruct (is_extdict dict) eqn:Ee.
      - unfold checkOffset in Echk. lia.
      - rewrite (Hext eq_refl) in Echk. unfold checkOffset in Echk. lia. }
    destruct (Z_le_gt_dec (op s + length) (oend - 5)) as [Hroom|Hover].
    - pose proof (safe_match_v false dict oend lowPrefix rlow dictm dictSize HlowP Hds s offset length) as H.
      destruct (safe_match false dict oend lowPrefix rlow dictm dictSize s offset length) as [[|] s'|s'|s'];
        cbn [is_cont] in H; try (exfalso; apply H; lia); try exact I.
      split; [reflexivity|]. split; [apply H; lia|]. split; lia.
    - (* not enough room: the decoder refuses *)
      unfold safe_match. cbv zeta. rewrite Echk. cbv beta iota.
      destruct (is_extdict dict && (op s - offset <? lowPrefix)) eqn:Eext; cbv beta iota.
      + unfold ext_match. cbv zeta.
        assert (E : (op s + length >? oend - LASTLITERALS) && negb false = true) by fin. rewrite E. exact I.
      + cbn [andb].
        destruct (first8 (dm s) (op s) (op s - offset) offset) as [m1 mat2].
        assert (E1 : (op s + length >? oend - MATCH_SAFEGUARD_DISTANCE) = true) by fin. rewrite E1.
        assert (E2 : (op s + length >? oend - LASTLITERALS) = true) by fin. rewrite E2. exact I.
  Qed.

  Lemma safe_match_not_done s offset length :
    match safe_match false dict oend lowPrefix rlow dictm dictSize s offset length with
    | Done _ => False | Cont f _ => f = false | Err _ => True end.
  Proof.
    unfold safe_match, ext_match. cbv zeta. cbn [andb negb].
    repeat match goal with
    | |- match (if ?c then _ else _) with _ => _ end => destruct c
    | |- match (let '(_, _) := ?p in _) with _ => _ end => destruct p
    end; try exact I; try reflexivity.
  Qed.

  Lemma copy_match_total : forall n (rout : list Z) off,
    (1 <= off <= length rout)%nat -> exists r', copy_match rout off n = Some r'.
  Proof.
    induction n as [|n IH]; intros rout off Ho; cbn [copy_match]; [eexists; reflexivity|].
    unfold byte in *.
    destruct (nth_error rout (off - 1)) as [b|] eqn:E.
    - apply IH. cbn [length]. lia.
    - apply nth_error_None in E. lia.
  Qed.

  (* ---------- _copy_match ---------- *)
  Definition match_facts (s : dstate) (offset mlen : Z) (s' : dstate) : Prop :=
    op s' = op s + mlen /\ same_below (dm s) (dm s') (op s) /\
    frec (vget (dm s')) offset (op s) (op s + mlen) /\
    lowPrefix - hroom <= op s - offset /\ op s + mlen <= oend - 5.

  Lemma safe_match_any s offset length :
    0 <= offset <= 65535 -> 4 <= length -> 0 <= op s ->
    match safe_match false dict oend lowPrefix rlow dictm dictSize s offset length with
    | Err _ => True
    | Done _ => False
    | Cont f s' => f = false /\ ip s' = ip s /\ (1 <= offset -> match_facts s offset length s')
    end.
  Proof.
    intros Ho Hlen Hop.
    destruct (Z_le_gt_dec 1 offset) as [H1|H0].
    - pose proof (safe_match_cases s offset length ltac:(lia) Hlen Hop) as H.
      destruct (safe_match false dict oend lowPrefix rlow dictm dictSize s offset length) as [f s'|s'|s']; try exact H.
      destruct H as (Hf & (Hi & Ho' & Hs & Hr) & Ha & Hro). split; [exact Hf|]. split; [exact Hi|].
      intros _. unfold match_facts. repeat split; assumption.
    - pose proof (safe_match_not_done s offset length) as H.
      assert (Hip : match safe_match false dict oend lowPrefix rlow dictm dictSize s offset length with
                    | Cont _ s' => ip s' = ip s | _ => True end).
      { unfold safe_match, ext_match. cbv zeta. cbn [andb negb].
        repeat match goal with
        | |- match (if ?c then _ else _) with _ => _ end => destruct c
        | |- match (let '(_, _) := ?p in _) with _ => _ end => destruct p
        end; try exact I; reflexivity. }
      destruct (safe_match false dict oend lowPrefix rlow dictm dictSize s offset length) as [f s'|s'|s']; try exact H; try exact I.
      split; [exact H|]. split; [exact Hip|]. intros; lia.
  Qed.

  Lemma copy_match_lbl_cases s offset nib (r3 : list Z) :
    src_at srcm (ip s) r3 -> bytes r3 -> ip s + Z.of_nat (length r3) = iend ->
    0 <= nib <= 15 -> 0 <= offset <= 65535 -> 0 <= op s ->
    match copy_match_lbl false dict srcm iend oend lowPrefix rlow dictm dictSize s offset nib with
    | Err _ => True
    | Done _ => False
    | Cont f s' =>
        f = false /\
        exists ml (r4 : list Z), read_len nib r3 = Some (ml, r4) /\ (length r4 <= length r3)%nat /\ nib <= ml /\
          ip s' = ip s + (Z.of_nat (length r3) - Z.of_nat (length r4)) /\
          (1 <= offset -> match_facts s offset (ml + 4) s')
    end.
  Proof.
    intros Hs Hb Hie Hnib Ho Hop.
    unfold copy_match_lbl, read_len.
    destruct (nib =? ML_MASK) eqn:E15.
    - assert (E15' : (nib =? 15) = true) by fin. rewrite E15'.
      pose proof (rvl_rev r3 (ip s) (iend - LASTLITERALS + 1) false (ok s) Hs Hie ltac:(fin)) as HR.
      destruct (rvl srcm iend (ip s) (iend - LASTLITERALS + 1) false (ok s)) as [[[addl|] p'] k']; [|exact I].
      destruct HR as (v & r4 & H1 & H2 & H3 & H4 & H5).
      pose proof (read_ext_ge _ _ _ _ Hb H1) as Hv.
      pose proof (safe_match_any (mkD p' (op s) (dm s) k') offset (nib + addl + MINMATCH) Ho ltac:(fin) Hop) as HM.
      destruct (safe_match false dict oend lowPrefix rlow dictm dictSize (mkD p' (op s) (dm s) k') offset (nib + addl + MINMATCH)) as [f s'|s'|s']; try exact HM.
      destruct HM as (Hf & Hi & Hm). cbn [ip] in Hi.
      split; [exact Hf|]. exists v, r4. split; [exact H1|]. split; [lia|]. split; [fin|]. split; [lia|].
      intros H1o. specialize (Hm H1o). unfold match_facts in *. cbn [op dm] in Hm.
      replace (nib + addl + MINMATCH) with (v + 4) in Hm by fin. exact Hm.
    - assert (E15' : (nib =? 15) = false) by fin. rewrite E15'.
      pose proof (safe_match_any s offset (nib + MINMATCH) Ho ltac:(fin) Hop) as HM.
      destruct (safe_match false dict oend lowPrefix rlow dictm dictSize s offset (nib + MINMATCH)) as [f s'|s'|s']; try exact HM.
      destruct HM as (Hf & Hi & Hm).
      split; [exact Hf|]. exists nib, r3. split; [reflexivity|]. split; [lia|]. split; [lia|]. split; [lia|].
      intros H1o. specialize (Hm H1o). replace (nib + MINMATCH) with (nib + 4) in Hm by fin. exact Hm.
  Qed.

  Lemma take_total : forall n (l : list Z), (n <= length l)%nat ->
    exists a t, take n l = Some (a, t) /\ l = a ++ t /\ length a = n.
  Proof.
    induction n as [|n IH]; intros l Hn; cbn [take].
    - exists [], l. repeat split.
    - destruct l as [|b r]; [cbn [length] in Hn; lia|].
      destruct (IH r) as (a & t & H1 & H2 & H3); [cbn [length] in Hn; lia|].
      unfold byte in *. rewrite H1. exists (b :: a), t. subst r. cbn [length]. repeat split. lia.
  Qed.

  (* history available to the specification covers every offset the decoder accepts *)
  Definition avail (o : Z) (rout : list Z) : Prop :=
    o - lowPrefix + hroom <= Z.of_nat (length rout) \/ 65535 <= Z.of_nat (length rout).

  (* what a completed sequence amounts to on the specification side *)
  Definition seq_ok (o : Z) (rout : list Z) (lits : list Z) (off ml : Z) (s' : dstate) : Prop :=
    off = 0 \/
    (op s' = o + Z.of_nat (length lits) + (ml + 4) /\ op s' <= oend /\
     exists rout1, apply_seq rout (mkSeq lits off (ml + 4)) = Some rout1 /\ out_at (vget (dm s')) (op s') rout1).

  Lemma seq_ok_intro (o : Z) (m1 : mem) rout lits off ml s' :
    out_at (vget m1) (o + Z.of_nat (length lits)) (rev lits ++ rout) -> avail o rout -> 0 <= o ->
    0 <= off <= 65535 -> 0 <= ml ->
    (1 <= off -> op s' = o + Z.of_nat (length lits) + (ml + 4) /\ same_below m1 (dm s') (o + Z.of_nat (length lits)) /\
                 frec (vget (dm s')) off (o + Z.of_nat (length lits)) (o + Z.of_nat (length lits) + (ml + 4)) /\
                 lowPrefix - hroom <= o + Z.of_nat (length lits) - off /\ op s' <= oend) ->
    seq_ok o rout lits off ml s'.
  Proof.
    intros O Hav Ho Hoff Hml H.
    destruct (Z.eq_dec off 0) as [E0|Hne]; [left; exact E0|]. right.
    destruct H as (H1 & H2 & H3 & H4 & H5); [lia|].
    split; [exact H1|]. split; [exact H5|].
    assert (Hle : off <= Z.of_nat (length (rev lits ++ rout))).
    { rewrite app_length, rev_length. unfold avail in Hav. lia. }
    destruct (copy_match_total (Z.to_nat (ml + 4)) (rev lits ++ rout) (Z.to_nat off)) as [rout1 Hcm]; [lia|].
    exists rout1. split.
    - unfold apply_seq. cbn [s_lits s_off s_mlen].
      assert (E : off_ok off && (4 <=? ml + 4) = true) by (unfold off_ok; lia). rewrite E. exact Hcm.
    - rewrite H1. replace (ml + 4) with (Z.of_nat (Z.to_nat (ml + 4))) by lia.
      apply copy_match_out with (rout := rev lits ++ rout) (off := Z.to_nat off).
      + lia.
      + exact Hcm.
      + eapply out_at_ext; [exact O|]. intros a Ha. eapply vget_same_below; eauto.
      + replace (Z.of_nat (Z.to_nat off)) with off by lia.
        replace (Z.of_nat (Z.to_nat (ml + 4))) with (ml + 4) by lia. exact H3.
  Qed.

  (* ---------- from the offset field on ---------- *)
  Lemma after_cases (i o : Z) (m1 : mem) kf nib o1 o2 (r3 : list Z) rout lits :
    src_at srcm i (o1 :: o2 :: r3) -> bytes (o1 :: o2 :: r3) -> i + Z.of_nat (length (o1 :: o2 :: r3)) = iend ->
    0 <= nib <= 15 -> 0 <= o ->
    out_at (vget m1) (o + Z.of_nat (length lits)) (rev lits ++ rout) -> avail o rout ->
    match copy_match_lbl false dict srcm iend oend lowPrefix rlow dictm dictSize
            (mkD (i + 2) (o + Z.of_nat (length lits)) m1 kf) (o1 + 256 * o2) nib with
    | Err _ => True
    | Done _ => False
    | Cont f s' =>
        f = false /\
        exists ml (r4 : list Z), read_len nib r3 = Some (ml, r4) /\ (length r4 <= length r3)%nat /\
          ip s' = i + 2 + (Z.of_nat (length r3) - Z.of_nat (length r4)) /\
          seq_ok o rout lits (o1 + 256 * o2) ml s'
    end.
  Proof.
    intros Hs Hb Hie Hnib Ho O Hav.
    destruct (src_at_cons _ _ _ _ Hs) as [_ Hs1]. destruct (src_at_cons _ _ _ _ Hs1) as [_ Hs2].
    destruct (bytes_cons _ _ Hb) as [Hb1 Hb']. destruct (bytes_cons _ _ Hb') as [Hb2 Hb3].
    replace (i + 1 + 1) with (i + 2) in Hs2 by lia. cbn [length] in Hie.
    pose proof (copy_match_lbl_cases (mkD (i + 2) (o + Z.of_nat (length lits)) m1 kf) (o1 + 256 * o2) nib r3) as HC.
    cbn [ip op dm] in HC.
    destruct (copy_match_lbl false dict srcm iend oend lowPrefix rlow dictm dictSize
                (mkD (i + 2) (o + Z.of_nat (length lits)) m1 kf) (o1 + 256 * o2) nib) as [f s'|s'|s'];
      try (apply HC; try assumption; lia).
    destruct HC as (Hf & ml & r4 & H1 & H2 & H3 & H4 & H5); try assumption; try lia.
    split; [exact Hf|]. exists ml, r4. split; [exact H1|]. split; [exact H2|]. split; [exact H4|].
    apply (seq_ok_intro o m1); try assumption; try lia.
    intros H1o. destruct (H5 H1o) as (Ha & Hb4 & Hc & Hd & He). repeat split; try assumption; lia.
  Qed.

  (* what one iteration amounts to, from the literals on: [r1] is the input from the literal run on *)
  Definition lit_post (p1 o : Z) (tok : Z) (r1 rout : list Z) (ll : Z) (out : dout) : Prop :=
    match out with
    | Err _ => True
    | Done s' =>
        exists lits, take (Z.to_nat ll) r1 = Some (lits, []) /\ op s' = o + ll /\ op s' <= oend /\
                     out_at (vget (dm s')) (op s') (rev lits ++ rout)
    | Cont f s' =>
        f = false /\
        exists lits o1 o2 (r3 : list Z) ml (r4 : list Z),
          take (Z.to_nat ll) r1 = Some (lits, o1 :: o2 :: r3) /\ read_len (tok mod 16) r3 = Some (ml, r4) /\
          (length r4 <= length r3)%nat /\
          ip s' = p1 + ll + 2 + (Z.of_nat (length r3) - Z.of_nat (length r4)) /\
          seq_ok o rout lits (o1 + 256 * o2) ml s'
    end.

  Lemma safe_lit_cases p1 o m kf tok (r1 rout : list Z) ll :
    src_at srcm p1 r1 -> bytes r1 -> p1 + Z.of_nat (length r1) = iend -> 0 <= p1 ->
    0 <= tok < 256 -> 0 <= ll -> 0 <= o ->
    out_at (vget m) o rout -> avail o rout ->
    lit_post p1 o tok r1 rout ll
      (safe_lit false dict srcm iend oend lowPrefix rlow dictm dictSize (mkD p1 o m kf) tok ll).
  Proof.
    intros Hs Hb Hie Hp1 Htok Hll Ho O Hav.
    destruct (nibbles tok Htok) as [_ Hn2].
    unfold safe_lit. cbv zeta. cbn [ip op dm negb andb orb].
    destruct ((o + ll >? oend - MFLIMIT) || (p1 + ll >? iend - (2 + 1 + LASTLITERALS))) eqn:Enear; cbv beta iota.
    - destruct (negb (p1 + ll =? iend) || (o + ll >? oend)) eqn:Eerr; [exact I|].
      (* last literals *)
      cbn [lit_post op dm].
      destruct (take_total (Z.to_nat ll) r1) as (lits & t & Ht & Hr1 & Hlen); [lia|].
      assert (t = []) by (destruct t; [reflexivity | subst r1; rewrite app_length in Hie; cbn [length] in Hie; lia]). subst t.
      rewrite app_nil_r in Hr1. subst r1.
      exists lits. split; [exact Ht|]. split; [reflexivity|]. split; [lia|].
      replace ll with (Z.of_nat (length lits)) by lia. rewrite Nat2Z.id.
      apply lits_out_v with (m := m); try assumption.
      + apply blit_same_below.
      + apply (blit_lits srcm); [exact Hs | lia].
    - (* literals followed by a match *)
      assert (Hfar : o + ll <= oend - 12 /\ p1 + ll <= iend - 8) by fin.
      destruct (take_total (Z.to_nat ll) r1) as (lits & r2 & Ht & Hr1 & Hlen); [lia|].
      assert (Hr2 : (8 <= length r2)%nat) by (subst r1; rewrite app_length in Hie; lia).
      destruct r2 as [|o1 [|o2 r3]]; try (cbn [length] in Hr2; lia).
      subst r1. destruct (src_at_app _ _ _ _ Hs) as [Hsl Hs2]. destruct (bytes_app _ _ Hb) as [_ Hb2].
      rewrite app_length in Hie. cbn [length] in Hie.
      assert (Ell : ll = Z.of_nat (length lits)) by lia. subst ll.
      unfold byte in *. cbn [ok]. rewrite (readLE16_src _ _ _ _ _ Hs2).
      pose proof (after_cases (p1 + Z.of_nat (length lits)) o
                    (wild8_in srcm p1 m o (o + Z.of_nat (length lits)))
                    (kf && rd_src iend p1 (wild8_len o (o + Z.of_nat (length lits))) && wr oend o (wild8_len o (o + Z.of_nat (length lits)))
                        && rd_src iend (p1 + Z.of_nat (length lits)) 2)
                    (tok mod 16) o1 o2 r3 rout lits Hs2 Hb2) as HA.
      cbn [lit_post].
      destruct (copy_match_lbl false dict srcm iend oend lowPrefix rlow dictm dictSize
                  (mkD (p1 + Z.of_nat (length lits) + 2) (o + Z.of_nat (length lits))
                       (wild8_in srcm p1 m o (o + Z.of_nat (length lits))) _) (o1 + 256 * o2) (tok mod 16)) as [f s'|s'|s'];
        [ | exfalso; apply HA; try assumption; try (cbn [length]; lia);
            apply lits_out_v with (m := m); try assumption; [apply wild8_in_same_below | apply wild8_in_lits; exact Hsl]
          | exact I ].
      destruct HA as (Hf & ml & r4 & H1 & H2 & H3 & H4); try assumption; try (cbn [length]; lia).
      { apply lits_out_v with (m := m); try assumption; [apply wild8_in_same_below | apply wild8_in_lits; exact Hsl]. }
      split; [exact Hf|]. exists lits, o1, o2, r3, ml, r4.
      split; [exact Ht|]. split; [exact H1|]. split; [exact H2|]. split; [lia | exact H4].
  Qed.

  (* ---------- one iteration of the safe loop, arbitrary input ---------- *)
  Definition top_post (s : dstate) (bs rout : list Z) (out : dout) : Prop :=
    match out with
    | Err _ => True
    | Done s' =>
        exists tok (r : list Z) ll (r1 lits : list Z),
          bs = tok :: r /\ read_len (tok / 16) r = Some (ll, r1) /\ take (Z.to_nat ll) r1 = Some (lits, []) /\
          op s' = op s + ll /\ op s' <= oend /\ out_at (vget (dm s')) (op s') (rev lits ++ rout)
    | Cont f s' =>
        f = false /\
        exists tok (r : list Z) ll (r1 lits : list Z) o1 o2 (r3 : list Z) ml (r4 : list Z),
          bs = tok :: r /\ read_len (tok / 16) r = Some (ll, r1) /\
          take (Z.to_nat ll) r1 = Some (lits, o1 :: o2 :: r3) /\ read_len (tok mod 16) r3 = Some (ml, r4) /\
          ip s' + Z.of_nat (length r4) = iend /\ (length r4 < length bs)%nat /\
          seq_ok (op s) rout lits (o1 + 256 * o2) ml s'
    end.

  Lemma safe_top_cases s (bs rout : list Z) :
    src_at srcm (ip s) bs -> bytes bs -> ip s + Z.of_nat (length bs) = iend -> 0 <= ip s < iend ->
    0 <= op s -> out_at (vget (dm s)) (op s) rout -> avail (op s) rout ->
    top_post s bs rout (safe_top false dict srcm iend oend lowPrefix rlow dictm dictSize s).
  Proof.
    intros Hs Hb Hie Hip Hop O Hav.
    destruct bs as [|tok r]; [cbn [length] in Hie; lia|].
    destruct (bytes_cons _ _ Hb) as [Htok Hbr].
    destruct (src_at_cons _ _ _ _ Hs) as [Htokm Hsr].
    destruct (nibbles tok Htok) as [Hn1 Hn2].
    cbn [length] in Hie.
    unfold safe_top. cbv zeta. rewrite Htokm.
    (* the exits through safe_lit *)
    assert (HL : forall p1 kf ll (r1 : list Z), read_len (tok / 16) r = Some (ll, r1) ->
               src_at srcm p1 r1 -> bytes r1 -> p1 + Z.of_nat (length r1) = iend -> 0 <= p1 -> 0 <= ll ->
               top_post s (tok :: r) rout
                 (safe_lit false dict srcm iend oend lowPrefix rlow dictm dictSize (mkD p1 (op s) (dm s) kf) tok ll)).
    { intros p1 kf ll r1 Hrl Hs1 Hb1 Hie1 Hp1 Hll.
      pose proof (safe_lit_cases p1 (op s) (dm s) kf tok r1 rout ll Hs1 Hb1 Hie1 Hp1 Htok Hll Hop O Hav) as HC.
      destruct (safe_lit false dict srcm iend oend lowPrefix rlow dictm dictSize (mkD p1 (op s) (dm s) kf) tok ll) as [f s'|s'|s'];
        cbn [lit_post top_post] in *; [| | exact I].
      - destruct HC as (Hf & lits & o1 & o2 & r3 & ml & r4 & H1 & H2 & H3 & H4 & H5).
        split; [exact Hf|]. exists tok, r, ll, r1, lits, o1, o2, r3, ml, r4.
        split; [reflexivity|]. split; [exact Hrl|]. split; [exact H1|]. split; [exact H2|].
        destruct (take_spec _ _ _ _ H1) as [Er1 Hl]. unfold byte in *.
        assert (length r1 = (length lits + S (S (length r3)))%nat) by (rewrite Er1, app_length; reflexivity).
        apply read_len_shorter in Hrl. cbn [length].
        split; [lia|]. split; [lia | exact H5].
      - destruct HC as (lits & H1 & H2 & H3 & H4).
        exists tok, r, ll, r1, lits. repeat split; assumption. }
    destruct (negb (tok / 16 =? RUN_MASK) && ((ip s + 1 <? shortiend iend) && (op s <=? shortoend oend))) eqn:Esc; cbv beta iota.
    - (* two-stage shortcut *)
      assert (Hlt15 : tok / 16 < 15) by fin.
      assert (Hrl : read_len (tok / 16) r = Some (tok / 16, r)).
      { unfold read_len. assert (E : (tok / 16 =? 15) = false) by lia. rewrite E. reflexivity. }
      destruct (take_total (Z.to_nat (tok / 16)) r) as (lits & r2 & Ht & Hr & Hlen); [fin|].
      assert (Hr2 : (3 <= length r2)%nat) by (subst r; rewrite app_length in Hie; fin).
      destruct r2 as [|o1 [|o2 r3]]; try (cbn [length] in Hr2; lia).
      assert (Ell : tok / 16 = Z.of_nat (length lits)) by lia.
      rewrite Hr in Hsr, Hbr. destruct (src_at_app _ _ _ _ Hsr) as [Hsl Hs2]. destruct (bytes_app _ _ Hbr) as [_ Hb2].
      destruct (bytes_cons _ _ Hb2) as [Ho1 Hb3]. destruct (bytes_cons _ _ Hb3) as [Ho2 Hb4].
      rewrite Ell. unfold byte in *. rewrite (readLE16_src _ _ _ _ _ Hs2).
      set (m1 := blit srcm (ip s + 1) (dm s) (op s) 16).
      assert (O1 : out_at (vget m1) (op s + Z.of_nat (length lits)) (rev lits ++ rout)).
      { apply lits_out_v with (m := dm s); try assumption.
        - apply blit_same_below.
        - apply (blit_lits srcm); [exact Hsl | lia]. }
      assert (Hlenr : length r = (length lits + S (S (length r3)))%nat) by (rewrite Hr, app_length; reflexivity).
      destruct (negb (tok mod 16 =? ML_MASK) && (o1 + 256 * o2 >=? 8) &&
                (is_prefix64k dict || (op s + Z.of_nat (length lits) - (o1 + 256 * o2) >=? lowPrefix))) eqn:E18; cbv beta iota.
      + (* 18-byte copy *)
        assert (Hlt15' : tok mod 16 < 15) by fin.
        assert (Hrl2 : read_len (tok mod 16) r3 = Some (tok mod 16, r3)).
        { unfold read_len. assert (E : (tok mod 16 =? 15) = false) by lia. rewrite E. reflexivity. }
        cbn [top_post ip op dm]. split; [reflexivity|].
        exists tok, r, (tok / 16), r, lits, o1, o2, r3, (tok mod 16), r3.
        split; [reflexivity|]. split; [exact Hrl|]. split; [exact Ht|]. split; [exact Hrl2|].
        cbn [length]. split; [lia|]. split; [lia|].
        assert (Hmatge : lowPrefix <= op s + Z.of_nat (length lits) - (o1 + 256 * o2)).
        { destruct (is_prefix64k dict) eqn:E64; [specialize (Hp64 eq_refl); lia | fin]. }
        pose proof (hroom_range dict dictSize) as Hhr.
        destruct (copy18_lz m1 (op s + Z.of_nat (length lits)) (o1 + 256 * o2)) as [S R]; [fin|].
        apply (seq_ok_intro (op s) m1); try assumption; try lia.
        intros H1o. cbn [op dm]. split; [fin|]. split; [exact S|]. split.
        * apply lzrec_v; [|lia|lia]. eapply lzrec_weaken; [exact R | lia | fin].
        * split; [lia | fin].
      + (* general match path *)
        pose proof (after_cases (ip s + 1 + Z.of_nat (length lits)) (op s) m1
                      (ok s && rd_src iend (ip s) 1 && rd_src iend (ip s + 1) 16 && wr oend (op s) 16 &&
                       rd_src iend (ip s + 1 + Z.of_nat (length lits)) 2)
                      (tok mod 16) o1 o2 r3 rout lits Hs2 Hb2) as HA.
        destruct (copy_match_lbl false dict srcm iend oend lowPrefix rlow dictm dictSize
                    (mkD (ip s + 1 + Z.of_nat (length lits) + 2) (op s + Z.of_nat (length lits)) m1 _) (o1 + 256 * o2) (tok mod 16)) as [f s'|s'|s'];
          [ | exfalso; apply HA; try assumption; cbn [length]; lia | exact I ].
        destruct HA as (Hf & ml & r4 & H1 & H2 & H3 & H4); try assumption; try (cbn [length]; lia).
        cbn [top_post]. split; [exact Hf|].
        exists tok, r, (tok / 16), r, lits, o1, o2, r3, ml, r4.
        split; [reflexivity|]. split; [exact Hrl|]. split; [exact Ht|]. split; [exact H1|].
        cbn [length]. split; [lia|]. split; [lia | exact H4].
    - destruct (tok / 16 =? RUN_MASK) eqn:E15; cbv beta iota.
      + (* long literal run *)
        pose proof (rvl_rev r (ip s + 1) (iend - RUN_MASK) true (ok s && rd_src iend (ip s) 1) Hsr ltac:(lia) ltac:(fin)) as HR.
        destruct (rvl srcm iend (ip s + 1) (iend - RUN_MASK) true (ok s && rd_src iend (ip s) 1)) as [[[addl|] p'] k']; [|exact I].
        destruct HR as (v & r1 & H1 & H2 & H3 & H4 & H5).
        assert (Hrl : read_len (tok / 16) r = Some (v, r1)).
        { unfold read_len. assert (E : (tok / 16 =? 15) = true) by fin. rewrite E. exact H1. }
        destruct (read_len_suffix srcm iend _ _ _ _ (ip s + 1) Hn1 Hrl Hbr Hsr) as (_ & Hv & _ & Hs1 & Hb1).
        replace (tok / 16 + addl) with v by fin.
        apply (HL p' k' v r1 Hrl); try assumption; try lia.
        * rewrite H3. exact Hs1.
      + assert (Hrl : read_len (tok / 16) r = Some (tok / 16, r)).
        { unfold read_len. assert (E : (tok / 16 =? 15) = false) by fin. rewrite E. reflexivity. }
        apply (HL (ip s + 1) _ (tok / 16) r Hrl); try assumption; lia.
  Qed.

  (* ====================== the fast loop ====================== *)
  Lemma fast_match_any s offset length :
    0 <= offset <= 65535 -> 4 <= length -> 0 <= op s -> op s + length < oend - 64 ->
    match fast_match false dict oend lowPrefix rlow dictm dictSize s offset length with
    | Err _ => True
    | Done _ => False
    | Cont f s' => ip s' = ip s /\
                   (1 <= offset -> op s' = op s + length /\ same_below (dm s) (dm s') (op s) /\
                                   frec (vget (dm s')) offset (op s) (op s + length) /\
                                   lowPrefix - hroom <= op s - offset)
    end.
  Proof.
    intros Ho Hlen Hop Hroom.
    assert (Hip : match fast_match false dict oend lowPrefix rlow dictm dictSize s offset length with
                  | Cont _ s' => ip s' = ip s | Done _ => False | Err _ => True end).
    { unfold fast_match, ext_match. cbv zeta. cbn [andb negb].
      repeat match goal with
      | |- match (if ?c then _ else _) with _ => _ end => destruct c
      end; try exact I; reflexivity. }
    destruct (checkOffset dictSize && (op s - offset + dictSize <? lowPrefix)) eqn:Echk.
    { unfold fast_match. cbv zeta. rewrite Echk. exact I. }
    assert (Hacc : lowPrefix - hroom <= op s - offset).
    { unfold DecRefineSafe.hroom. destruct (is_extdict dict) eqn:Ee.
      - unfold checkOffset in Echk. lia.
      - rewrite (Hext eq_refl) in Echk. unfold checkOffset in Echk. lia. }
    destruct (Z_le_gt_dec 1 offset) as [H1|H0].
    - pose proof (fast_match_sim false dict oend lowPrefix rlow dictm dictSize HlowP Hds s offset length H1 Hacc Hlen Hop Hroom) as H.
      destruct (fast_match false dict oend lowPrefix rlow dictm dictSize s offset length) as [f s'|s'|s'];
        cbn [is_cont_any] in H; try contradiction; try exact I.
      destruct H as (Ha & Hb & Hc & Hd). split; [exact Ha|]. intros _. repeat split; assumption.
    - destruct (fast_match false dict oend lowPrefix rlow dictm dictSize s offset length) as [f s'|s'|s']; try exact Hip; try exact I.
      split; [exact Hip|]. intros; lia.
  Qed.

  (* from the offset field on, fast loop *)
  Lemma fast_offset_cases (i o : Z) (m1 : mem) kf tok o1 o2 (r3 : list Z) rout lits :
    src_at srcm i (o1 :: o2 :: r3) -> bytes (o1 :: o2 :: r3) -> i + Z.of_nat (length (o1 :: o2 :: r3)) = iend ->
    0 <= tok < 256 -> 0 <= o -> 0 <= i ->
    out_at (vget m1) (o + Z.of_nat (length lits)) (rev lits ++ rout) -> avail o rout ->
    match fast_offset false dict srcm iend oend lowPrefix rlow dictm dictSize
            (mkD i (o + Z.of_nat (length lits)) m1 kf) tok with
    | Err _ => True
    | Done _ => False
    | Cont f s' =>
        exists ml (r4 : list Z), read_len (tok mod 16) r3 = Some (ml, r4) /\ (length r4 <= length r3)%nat /\
          ip s' = i + 2 + (Z.of_nat (length r3) - Z.of_nat (length r4)) /\
          seq_ok o rout lits (o1 + 256 * o2) ml s'
    end.
  Proof.
    intros Hs Hb Hie Htok Ho Hi O Hav.
    destruct (nibbles tok Htok) as [_ Hnib].
    pose proof (readLE16_src _ _ _ _ _ Hs) as Hle.
    destruct (src_at_cons _ _ _ _ Hs) as [_ Hs1]. destruct (src_at_cons _ _ _ _ Hs1) as [_ Hs2].
    destruct (bytes_cons _ _ Hb) as [Hb1 Hb']. destruct (bytes_cons _ _ Hb') as [Hb2 Hb3].
    replace (i + 1 + 1) with (i + 2) in Hs2 by lia. cbn [length] in Hie.
    set (off := o1 + 256 * o2) in *.
    assert (Hoff : 0 <= off <= 65535) by (unfold off; lia).
    (* the two ways a match can complete *)
    assert (Hvia_safe : forall p kf' ml (r4 : list Z),
              read_len (tok mod 16) r3 = Some (ml, r4) -> (length r4 <= length r3)%nat -> tok mod 16 <= ml ->
              p = i + 2 + (Z.of_nat (length r3) - Z.of_nat (length r4)) ->
              match safe_match false dict oend lowPrefix rlow dictm dictSize (mkD p (o + Z.of_nat (length lits)) m1 kf') off (ml + 4) with
              | Err _ => True | Done _ => False
              | Cont f s' => exists ml (r4 : list Z), read_len (tok mod 16) r3 = Some (ml, r4) /\ (length r4 <= length r3)%nat /\
                               ip s' = i + 2 + (Z.of_nat (length r3) - Z.of_nat (length r4)) /\ seq_ok o rout lits off ml s'
              end).
    { intros p kf' ml r4 Hrl Hl Hml Hp.
      pose proof (safe_match_any (mkD p (o + Z.of_nat (length lits)) m1 kf') off (ml + 4) Hoff ltac:(lia) ltac:(cbn [op]; lia)) as HM.
      destruct (safe_match false dict oend lowPrefix rlow dictm dictSize (mkD p (o + Z.of_nat (length lits)) m1 kf') off (ml + 4)) as [f s'|s'|s']; try exact HM.
      destruct HM as (_ & Hip' & Hm). cbn [ip op dm] in *.
      exists ml, r4. split; [exact Hrl|]. split; [exact Hl|]. split; [lia|].
      apply (seq_ok_intro o m1); try assumption; try lia.
      intros H1o. destruct (Hm H1o) as (Ha & Hb4 & Hc & Hd & He). repeat split; try assumption; lia. }
    assert (Hvia_fast : forall p kf' ml (r4 : list Z),
              read_len (tok mod 16) r3 = Some (ml, r4) -> (length r4 <= length r3)%nat -> tok mod 16 <= ml ->
              p = i + 2 + (Z.of_nat (length r3) - Z.of_nat (length r4)) ->
              o + Z.of_nat (length lits) + (ml + 4) < oend - 64 ->
              match fast_match false dict oend lowPrefix rlow dictm dictSize (mkD p (o + Z.of_nat (length lits)) m1 kf') off (ml + 4) with
              | Err _ => True | Done _ => False
              | Cont f s' => exists ml (r4 : list Z), read_len (tok mod 16) r3 = Some (ml, r4) /\ (length r4 <= length r3)%nat /\
                               ip s' = i + 2 + (Z.of_nat (length r3) - Z.of_nat (length r4)) /\ seq_ok o rout lits off ml s'
              end).
    { intros p kf' ml r4 Hrl Hl Hml Hp Hroom.
      pose proof (fast_match_any (mkD p (o + Z.of_nat (length lits)) m1 kf') off (ml + 4) Hoff ltac:(lia) ltac:(cbn [op]; lia) ltac:(cbn [op]; lia)) as HM.
      destruct (fast_match false dict oend lowPrefix rlow dictm dictSize (mkD p (o + Z.of_nat (length lits)) m1 kf') off (ml + 4)) as [f s'|s'|s']; try exact HM.
      destruct HM as (Hip' & Hm). cbn [ip op dm] in *.
      exists ml, r4. split; [exact Hrl|]. split; [exact Hl|]. split; [lia|].
      apply (seq_ok_intro o m1); try assumption; try lia.
      intros H1o. destruct (Hm H1o) as (Ha & Hb4 & Hc & Hd). repeat split; try assumption; lia. }
    unfold fast_offset. cbv zeta. cbn [ip op dm ok]. rewrite Hle. fold off.
    destruct (tok mod 16 =? ML_MASK) eqn:E15; cbv beta iota.
    - pose proof (rvl_rev r3 (i + 2) (iend - LASTLITERALS + 1) false (kf && rd_src iend i 2) Hs2 ltac:(lia) ltac:(fin)) as HR.
      destruct (rvl srcm iend (i + 2) (iend - LASTLITERALS + 1) false (kf && rd_src iend i 2)) as [[[addl|] p'] k']; [|exact I].
      destruct HR as (v & r4 & H1 & H2 & H3 & H4 & H5).
      pose proof (read_ext_ge _ _ _ _ Hb3 H1) as Hv.
      assert (Hrl : read_len (tok mod 16) r3 = Some (v, r4)).
      { unfold read_len. assert (E : (tok mod 16 =? 15) = true) by fin. rewrite E. exact H1. }
      replace (tok mod 16 + addl + MINMATCH) with (v + 4) by fin.
      destruct (o + Z.of_nat (length lits) + (v + 4) >=? oend - FASTLOOP_SAFE_DISTANCE) eqn:Efar; cbv beta iota.
      + apply (Hvia_safe p' k' v r4 Hrl); lia.
      + apply (Hvia_fast p' k' v r4 Hrl); try lia. fin.
    - assert (Hrl : read_len (tok mod 16) r3 = Some (tok mod 16, r3)).
      { unfold read_len. assert (E : (tok mod 16 =? 15) = false) by fin. rewrite E. reflexivity. }
      replace (tok mod 16 + MINMATCH) with (tok mod 16 + 4) by fin.
      destruct (o + Z.of_nat (length lits) + (tok mod 16 + 4) >=? oend - FASTLOOP_SAFE_DISTANCE) eqn:Efar; cbv beta iota.
      + apply (Hvia_safe (i + 2) _ (tok mod 16) r3 Hrl); lia.
      + destruct ((is_prefix64k dict || (o + Z.of_nat (length lits) - off >=? lowPrefix)) && (off >=? 8)) eqn:E18; cbv beta iota.
        * (* 18-byte copy *)
          exists (tok mod 16), r3. split; [exact Hrl|]. split; [lia|]. cbn [ip]. split; [lia|].
          assert (Hmatge : lowPrefix <= o + Z.of_nat (length lits) - off).
          { destruct (is_prefix64k dict) eqn:E64; [specialize (Hp64 eq_refl); lia | fin]. }
          pose proof (hroom_range dict dictSize) as Hhr.
          destruct (copy18_lz m1 (o + Z.of_nat (length lits)) off) as [S R]; [fin|].
          apply (seq_ok_intro o m1); try assumption; try lia.
          intros H1o. cbn [op dm]. split; [lia|]. split; [exact S|]. split.
          -- apply lzrec_v; [|lia|lia]. eapply lzrec_weaken; [exact R | lia | fin].
          -- split; [lia | fin].
        * apply (Hvia_fast (i + 2) _ (tok mod 16) r3 Hrl); try lia. fin.
  Qed.

  Definition top_post_any (s : dstate) (bs rout : list Z) (out : dout) : Prop :=
    match out with
    | Err _ => True
    | Done s' =>
        exists tok (r : list Z) ll (r1 lits : list Z),
          bs = tok :: r /\ read_len (tok / 16) r = Some (ll, r1) /\ take (Z.to_nat ll) r1 = Some (lits, []) /\
          op s' = op s + ll /\ op s' <= oend /\ out_at (vget (dm s')) (op s') (rev lits ++ rout)
    | Cont f s' =>
        exists tok (r : list Z) ll (r1 lits : list Z) o1 o2 (r3 : list Z) ml (r4 : list Z),
          bs = tok :: r /\ read_len (tok / 16) r = Some (ll, r1) /\
          take (Z.to_nat ll) r1 = Some (lits, o1 :: o2 :: r3) /\ read_len (tok mod 16) r3 = Some (ml, r4) /\
          ip s' + Z.of_nat (length r4) = iend /\ (length r4 < length bs)%nat /\
          seq_ok (op s) rout lits (o1 + 256 * o2) ml s'
    end.

  Lemma top_post_weaken s bs rout out : top_post s bs rout out -> top_post_any s bs rout out.
  Proof. destruct out as [f s'|s'|s']; cbn [top_post top_post_any]; auto. intros [_ H]. exact H. Qed.

  Lemma fast_top_cases s (bs rout : list Z) :
    src_at srcm (ip s) bs -> bytes bs -> ip s + Z.of_nat (length bs) = iend -> 0 <= ip s < iend ->
    0 <= op s -> out_at (vget (dm s)) (op s) rout -> avail (op s) rout ->
    top_post_any s bs rout (fast_top false dict srcm iend oend lowPrefix rlow dictm dictSize s).
  Proof.
    intros Hs Hb Hie Hip Hop O Hav.
    destruct bs as [|tok r]; [cbn [length] in Hie; lia|].
    destruct (bytes_cons _ _ Hb) as [Htok Hbr].
    destruct (src_at_cons _ _ _ _ Hs) as [Htokm Hsr].
    destruct (nibbles tok Htok) as [Hn1 Hn2].
    cbn [length] in Hie.
    unfold fast_top. cbv zeta. rewrite Htokm.
    (* exits through safe_lit *)
    assert (HL : forall p1 kf ll (r1 : list Z), read_len (tok / 16) r = Some (ll, r1) ->
               src_at srcm p1 r1 -> bytes r1 -> p1 + Z.of_nat (length r1) = iend -> 0 <= p1 -> 0 <= ll ->
               top_post_any s (tok :: r) rout
                 (safe_lit false dict srcm iend oend lowPrefix rlow dictm dictSize (mkD p1 (op s) (dm s) kf) tok ll)).
    { intros p1 kf ll r1 Hrl Hs1 Hb1 Hie1 Hp1 Hll.
      pose proof (safe_lit_cases p1 (op s) (dm s) kf tok r1 rout ll Hs1 Hb1 Hie1 Hp1 Htok Hll Hop O Hav) as HC.
      destruct (safe_lit false dict srcm iend oend lowPrefix rlow dictm dictSize (mkD p1 (op s) (dm s) kf) tok ll) as [f s'|s'|s'];
        cbn [lit_post top_post_any] in *; [| | exact I].
      - destruct HC as (Hf & lits & o1 & o2 & r3 & ml & r4 & H1 & H2 & H3 & H4 & H5).
        exists tok, r, ll, r1, lits, o1, o2, r3, ml, r4.
        split; [reflexivity|]. split; [exact Hrl|]. split; [exact H1|]. split; [exact H2|].
        destruct (take_spec _ _ _ _ H1) as [Er1 Hl]. unfold byte in *.
        assert (length r1 = (length lits + S (S (length r3)))%nat) by (rewrite Er1, app_length; reflexivity).
        apply read_len_shorter in Hrl. cbn [length].
        split; [lia|]. split; [lia | exact H5].
      - destruct HC as (lits & H1 & H2 & H3 & H4).
        exists tok, r, ll, r1, lits. repeat split; assumption. }
    (* exits through fast_offset: the literals [lits] of the run were copied (with slack) into m1 *)
    assert (HF : forall p1 kf ll (r1 lits r2 : list Z) m1, read_len (tok / 16) r = Some (ll, r1) ->
               src_at srcm p1 r1 -> bytes r1 -> p1 + Z.of_nat (length r1) = iend -> 0 <= p1 ->
               take (Z.to_nat ll) r1 = Some (lits, r2) -> ll = Z.of_nat (length lits) -> (2 <= length r2)%nat ->
               same_below (dm s) m1 (op s) ->
               (forall j, (j < length lits)%nat -> get m1 (op s + Z.of_nat j) = nth j lits 0) ->
               top_post_any s (tok :: r) rout
                 (fast_offset false dict srcm iend oend lowPrefix rlow dictm dictSize (mkD (p1 + ll) (op s + ll) m1 kf) tok)).
    { intros p1 kf ll r1 lits r2 m1 Hrl Hs1 Hb1 Hie1 Hp1 Ht Ell Hr2 S1 L1.
      destruct r2 as [|o1 [|o2 r3]]; try (cbn [length] in Hr2; lia).
      destruct (take_spec _ _ _ _ Ht) as [Er1 _]. unfold byte in *. subst r1.
      destruct (src_at_app _ _ _ _ Hs1) as [Hsl Hs2]. destruct (bytes_app _ _ Hb1) as [_ Hb2].
      rewrite app_length in Hie1. cbn [length] in Hie1. subst ll.
      pose proof (fast_offset_cases (p1 + Z.of_nat (length lits)) (op s) m1 kf tok o1 o2 r3 rout lits Hs2 Hb2) as HA.
      destruct (fast_offset false dict srcm iend oend lowPrefix rlow dictm dictSize
                  (mkD (p1 + Z.of_nat (length lits)) (op s + Z.of_nat (length lits)) m1 kf) tok) as [f s'|s'|s'];
        [ | exfalso; apply HA; try assumption; try (cbn [length]; lia); apply lits_out_v with (m := dm s); assumption | exact I ].
      destruct HA as (ml & r4 & H1 & H2 & H3 & H4); try assumption; try (cbn [length]; lia).
      { apply lits_out_v with (m := dm s); assumption. }
      cbn [top_post_any].
      exists tok, r, (Z.of_nat (length lits)), (lits ++ o1 :: o2 :: r3), lits, o1, o2, r3, ml, r4.
      split; [reflexivity|]. split; [exact Hrl|]. split; [exact Ht|]. split; [exact H1|].
      apply read_len_shorter in Hrl. rewrite app_length in Hrl. cbn [length] in *.
      split; [lia|]. split; [lia | exact H4]. }
    destruct (tok / 16 =? RUN_MASK) eqn:E15; cbv beta iota.
    - pose proof (rvl_rev r (ip s + 1) (iend - RUN_MASK) true (ok s && rd_src iend (ip s) 1) Hsr ltac:(lia) ltac:(fin)) as HR.
      destruct (rvl srcm iend (ip s + 1) (iend - RUN_MASK) true (ok s && rd_src iend (ip s) 1)) as [[[addl|] p'] k']; [|exact I].
      destruct HR as (v & r1 & H1 & H2 & H3 & H4 & H5).
      assert (Hrl : read_len (tok / 16) r = Some (v, r1)).
      { unfold read_len. assert (E : (tok / 16 =? 15) = true) by fin. rewrite E. exact H1. }
      destruct (read_len_suffix srcm iend _ _ _ _ (ip s + 1) Hn1 Hrl Hbr Hsr) as (_ & Hv & _ & Hs1 & Hb1).
      replace (tok / 16 + addl) with v by fin.
      unfold byte in *. rewrite <- H3 in Hs1.
      destruct ((op s + v >? oend - 32) || (p' + v >? iend - 32)) eqn:Enear; cbv beta iota.
      + apply (HL p' k' v r1 Hrl); try assumption; lia.
      + destruct (take_total (Z.to_nat v) r1) as (lits & r2 & Ht & Hr1 & Hlen); [lia|].
        unfold byte in *.
        apply (HF p' _ v r1 lits r2 _ Hrl); try assumption; try lia.
        * subst r1. rewrite app_length in *. lia.
        * apply wild32_in_same_below.
        * replace v with (Z.of_nat (length lits)) by lia. apply wild32_in_lits.
          subst r1. apply (src_at_app _ _ _ _ Hs1).
    - assert (Hrl : read_len (tok / 16) r = Some (tok / 16, r)).
      { unfold read_len. assert (E : (tok / 16 =? 15) = false) by fin. rewrite E. reflexivity. }
      destruct (ip s + 1 <=? iend - (16 + 1)) eqn:E17; cbv beta iota.
      + destruct (take_total (Z.to_nat (tok / 16)) r) as (lits & r2 & Ht & Hr1 & Hlen); [fin|].
        unfold byte in *.
        apply (HF (ip s + 1) _ (tok / 16) r lits r2 _ Hrl); try assumption; try lia.
        * subst r. rewrite app_length in *. fin.
        * apply blit_same_below.
        * apply (blit_lits srcm); [|fin]. subst r. apply (src_at_app _ _ _ _ Hsr).
      + apply (HL (ip s + 1) _ (tok / 16) r Hrl); try assumption; lia.
  Qed.

  Lemma step_at_iend (fast : bool) s :
    ip s = iend -> 0 <= ip s ->
    match (if fast then fast_top false dict srcm iend oend lowPrefix rlow dictm dictSize s
           else safe_top false dict srcm iend oend lowPrefix rlow dictm dictSize s) with
    | Err s' => True | _ => False end.
  Proof.
    intros Hi Hip.
    pose proof (Hsrc (ip s)) as Htok.
    destruct (nibbles _ Htok) as [Hn _].
    assert (Hlit : forall kf,
      match safe_lit false dict srcm iend oend lowPrefix rlow dictm dictSize (mkD (ip s + 1) (op s) (dm s) kf) (get srcm (ip s)) (get srcm (ip s) / 16) with
      | Err _ => True | _ => False end).
    { intros kf. unfold safe_lit. cbv zeta. cbn [ip op dm negb andb orb].
      assert (E1 : (op s + get srcm (ip s) / 16 >? oend - MFLIMIT) || (ip s + 1 + get srcm (ip s) / 16 >? iend - (2 + 1 + LASTLITERALS)) = true) by fin.
      rewrite E1. cbv beta iota.
      assert (E2 : negb (ip s + 1 + get srcm (ip s) / 16 =? iend) || (op s + get srcm (ip s) / 16 >? oend) = true) by lia.
      rewrite E2. exact I. }
    destruct fast.
    - unfold fast_top. cbv zeta.
      destruct (get srcm (ip s) / 16 =? RUN_MASK) eqn:E15; cbv beta iota.
      + unfold rvl. assert (E : true && (ip s + 1 >=? iend - RUN_MASK) = true) by fin. rewrite E. exact I.
      + assert (E17 : (ip s + 1 <=? iend - (16 + 1)) = false) by lia. rewrite E17. apply Hlit.
    - unfold safe_top. cbv zeta.
      assert (Esc : negb (get srcm (ip s) / 16 =? RUN_MASK) && ((ip s + 1 <? shortiend iend) && (op s <=? shortoend oend)) = false) by fin.
      rewrite Esc. cbv beta iota.
      destruct (get srcm (ip s) / 16 =? RUN_MASK) eqn:E15; cbv beta iota.
      + unfold rvl. assert (E : true && (ip s + 1 >=? iend - RUN_MASK) = true) by fin. rewrite E. exact I.
      + apply Hlit.
  Qed.

  (* ---------- the decoding loop on arbitrary input, fast or safe loop ---------- *)
  Lemma run_rev : forall fuel (fast : bool) s (bs rout : list Z) f,
    src_at srcm (ip s) bs -> bytes bs -> ip s + Z.of_nat (length bs) = iend -> 0 <= ip s ->
    0 <= op s -> out_at (vget (dm s)) (op s) rout -> avail (op s) rout -> (length bs < f)%nat ->
    let '(r, s') := run false dict srcm iend oend lowPrefix rlow dictm dictSize fuel fast s in
    0 <= r ->
    zero_off f bs = true \/
    exists ss (last rout' : list Z),
      parse_seqs f bs = Some (ss, last) /\ apply_seqs rout ss = Some rout' /\
      r = op s + total_len ss last /\ r <= oend /\ out_at (vget (dm s')) r (rev last ++ rout').
  Proof.
    induction fuel as [|fuel IH]; intros fast s bs rout f Hs Hb Hie Hip Hop O Hav Hf.
    { cbn [run]. intros H. lia. }
    cbn [run].
    assert (HI : err_ge (ip s) (if fast then fast_top false dict srcm iend oend lowPrefix rlow dictm dictSize s
                                else safe_top false dict srcm iend oend lowPrefix rlow dictm dictSize s)).
    { destruct fast; [apply fast_top_err_ip | apply safe_top_err_ip]; exact Hsrc. }
    destruct (Z_lt_ge_dec (ip s) iend) as [Hlt|Hge].
    2:{ pose proof (step_at_iend fast s ltac:(lia) Hip) as HE.
        destruct (if fast then fast_top false dict srcm iend oend lowPrefix rlow dictm dictSize s
                  else safe_top false dict srcm iend oend lowPrefix rlow dictm dictSize s) as [f' s'|s'|s']; try contradiction.
        cbn [err_ge] in HI. intros H. lia. }
    assert (HC : top_post_any s bs rout (if fast then fast_top false dict srcm iend oend lowPrefix rlow dictm dictSize s
                                         else safe_top false dict srcm iend oend lowPrefix rlow dictm dictSize s)).
    { destruct fast; [apply fast_top_cases | apply top_post_weaken; apply safe_top_cases]; try assumption; lia. }
    destruct f as [|f]; [lia|].
    destruct (if fast then fast_top false dict srcm iend oend lowPrefix rlow dictm dictSize s
              else safe_top false dict srcm iend oend lowPrefix rlow dictm dictSize s) as [f' s'|s'|s']; cbn [top_post_any] in HC.
    - (* a complete sequence *)
      destruct HC as (tok & r & ll & r1 & lits & o1 & o2 & r3 & ml & r4 & Hbs & Hrl1 & Htk & Hrl2 & Hi' & Hlen4 & Hseq).
      subst bs.
      destruct (bytes_cons _ _ Hb) as [Htok Hbr].
      destruct (src_at_cons _ _ _ _ Hs) as [_ Hsr].
      destruct (nibbles tok Htok) as [Hn1 Hn2].
      destruct (read_len_suffix srcm iend _ _ _ _ _ Hn1 Hrl1 Hbr Hsr) as (Hl1 & Hll & _ & Hs1 & Hb1).
      destruct (take_spec _ _ _ _ Htk) as [Er1 Hlits]. unfold byte in *.
      set (p1 := ip s + 1 + (Z.of_nat (length r) - Z.of_nat (length r1))) in *.
      rewrite Er1 in Hs1, Hb1.
      destruct (src_at_app _ _ _ _ Hs1) as [_ Hs2]. destruct (bytes_app _ _ Hb1) as [_ Hb2].
      destruct (src_at_cons _ _ _ _ Hs2) as [_ Hs3]. destruct (src_at_cons _ _ _ _ Hs3) as [_ Hs4].
      destruct (bytes_cons _ _ Hb2) as [Ho1 Hb3]. destruct (bytes_cons _ _ Hb3) as [Ho2 Hb4].
      destruct (read_len_suffix srcm iend _ _ _ _ _ Hn2 Hrl2 Hb4 Hs4) as (Hl2 & Hml & _ & Hs5 & Hb5). unfold byte in *.
      assert (Hlr1 : length r1 = (length lits + S (S (length r3)))%nat) by (rewrite Er1, app_length; reflexivity).
      cbn [length] in Hie, Hlen4, Hf.
      assert (Ell : ll = Z.of_nat (length lits)) by lia.
      assert (Hz : zero_off (S f) (tok :: r) = (o1 + 256 * o2 =? 0) || zero_off f r4).
      { cbn [zero_off]. unfold byte in *. rewrite Hrl1, Htk, Hrl2. reflexivity. }
      assert (Hp : parse_seqs (S f) (tok :: r) =
                   match parse_seqs f r4 with
                   | Some (ss, last) => Some (mkSeq lits (o1 + 256 * o2) (ml + 4) :: ss, last)
                   | None => None end).
      { rewrite parse_seqs_S. unfold byte in *. rewrite Hrl1, Htk, Hrl2. reflexivity. }
      destruct Hseq as [Hz0|(Ho' & Hoe' & rout1 & Happ & O')].
      { destruct (run false dict srcm iend oend lowPrefix rlow dictm dictSize fuel f' s') as [rr s'']. intros _. left. rewrite Hz. rewrite Hz0. reflexivity. }
      assert (Hlen1 : length rout1 = (length rout + length lits + Z.to_nat (ml + 4))%nat).
      { unfold apply_seq in Happ. cbn [s_lits s_off s_mlen] in Happ.
        destruct (off_ok (o1 + 256 * o2) && (4 <=? ml + 4)); [|discriminate].
        apply copy_match_length in Happ. rewrite app_length, rev_length in Happ. unfold byte in *. lia. }
      assert (Hs' : src_at srcm (ip s') r4).
      { replace (ip s') with (p1 + Z.of_nat (length lits) + 1 + 1 + (Z.of_nat (length r3) - Z.of_nat (length r4))) by (unfold p1; lia).
        exact Hs5. }
      assert (Hav' : avail (op s') rout1) by (unfold avail in *; unfold byte in *; lia).
      specialize (IH f' s' r4 rout1 f Hs' Hb5 ltac:(lia) ltac:(lia) ltac:(lia) O' Hav' ltac:(lia)).
      destruct (run false dict srcm iend oend lowPrefix rlow dictm dictSize fuel f' s') as [rr s''].
      intros Hr.
      destruct (IH Hr) as [Hzr|(ss & last & rout' & Hps & Hap & Hrr & Hro & Hout)].
      + left. rewrite Hz, Hzr. apply orb_true_r.
      + right. exists (mkSeq lits (o1 + 256 * o2) (ml + 4) :: ss), last, rout'.
        split; [rewrite Hp, Hps; reflexivity|]. split.
        * cbn [apply_seqs]. rewrite Happ. exact Hap.
        * cbn [total_len fold_right s_lits s_mlen]. fold (total_len ss last). unfold byte in *.
          split; [lia|]. split; [exact Hro | exact Hout].
    - (* the final literal run *)
      destruct HC as (tok & r & ll & r1 & lits & Hbs & Hrl1 & Htk & Ho' & Hoe' & O').
      subst bs. intros _. right. exists [], lits, rout.
      destruct (bytes_cons _ _ Hb) as [Htok Hbr].
      destruct (src_at_cons _ _ _ _ Hs) as [_ Hsr].
      destruct (nibbles tok Htok) as [Hn1 _].
      destruct (read_len_suffix srcm iend _ _ _ _ _ Hn1 Hrl1 Hbr Hsr) as (_ & Hll & _).
      destruct (take_spec _ _ _ _ Htk) as [_ Hlits]. unfold byte in *.
      split; [rewrite parse_seqs_S; unfold byte in *; rewrite Hrl1, Htk; reflexivity|].
      split; [reflexivity|]. cbn [total_len fold_right]. unfold byte in *.
      split; [lia|]. split; [lia|]. replace (op s + Z.of_nat (length lits)) with (op s') by lia. exact O'.
    - cbn [err_ge] in HI. intros H. lia.
  Qed.

End Rev.
