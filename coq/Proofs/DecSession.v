(* C05, across calls: a SESSION of LZ4_decompress_safe_continue calls over one arena memory
   (Model.DecStream).

   The decoder remembers at most TWO segments of the decoded history: the current prefix
   [prefixEnd - prefixSize, prefixEnd) and the external dictionary (the previous prefix, taken over
   at the last jump).  Everything older is forgotten.  The caller's geometry contract [call_geom]
   is a predicate on (bookkeeping state, total decoded so far, destination, capacity, decoded size):
     (G1) the segments the selected mode designates hold the last min(64 KB, total) decoded bytes:
          - destination = prefixEnd (contiguous continuation): the prefix alone is long enough, or
            the prefix is shorter than 64 KB - 1 and prefix + external dictionary are long enough
            (and the external dictionary is the genuine previous segment: flag [pok], lost only by
            an EMPTY block decoded at a jump address, after which both designate the same bytes);
          - any other destination (jump: ring wrap, other buffer): the prefix alone is long enough
            - the previous external dictionary is dropped by the C code at this point;
     (G2) the capacity [dest, dest+cap) handed to the decoder does not overlap the part of those
          segments that is still needed (the last 64 KB of the prefix at a jump; the last
          64 KB - prefixSize bytes of the external dictionary at a continuation).
   The bookkeeping state evolves as a function of the geometry alone ([sess_next]); the contract of
   a whole session is [session_geom].  Under it, if block k is strictly valid w.r.t. the last 64 KB
   of the concatenated earlier contents, every call returns |D_k| and leaves D_k at its destination
   (empty blocks included).

   (G2) is ALSO the condition under which Model.DecStream (dictionary = snapshot at call time) is
   faithful to the C code, which reads the live memory.  The documented ring buffer of exactly
   LZ4_DECODER_RING_BUFFER_SIZE(maxBlock) = 65536 + 14 + maxBlock bytes does NOT satisfy (G2): at the
   wrap the new block's destination overlaps bytes of the previous lap that offsets <= 65535 can
   still reach, relying on the write cursor staying behind the read cursor - which the 31-byte
   over-copy of LZ4_wildCopy32 breaks (finding reported with this round: ring of 65536+14+1024
   bytes, lap ending at 65551, wrap block = 33 literals + match offset 65535: wrong bytes, no
   error).  A ring of >= 65536 + 2*maxBlock bytes satisfies the contract ([ring_geom]). *)
From Coq Require Import ZArith List Lia Bool ZifyBool.
From LZ4V Require Import Gen.Consts Spec.BlockSpec Model.Mem Model.Dec Model.DecApi Model.DecStream.
From LZ4V Require Import Proofs.DecRefineBase Proofs.DecRefineSafe Proofs.DecRefineTop Proofs.DecRefineApi Proofs.DecStreamRefine.
Import ListNotations.
Local Open Scope Z_scope.

(* bookkeeping after a call that produced 0 bytes (or failed) *)
Definition fail_state (st : sdstate) (dest : Z) : sdstate :=
  if sd_prefixSize st =? 0 then st
  else if sd_prefixEnd st =? dest then st
  else mkSD (sd_prefixEnd st - sd_prefixSize st) (sd_prefixEnd st) (sd_prefixSize st) (sd_prefixSize st).
Definition sess_next (st : sdstate) (dest n : Z) : sdstate :=
  if n <=? 0 then fail_state st dest else next_state st dest n.
(* is the external dictionary still the genuine previous segment after the call *)
Definition pok_next (st : sdstate) (pok : bool) (dest n : Z) : bool :=
  if sd_prefixSize st =? 0 then pok
  else if sd_prefixEnd st =? dest then pok
  else negb (n <=? 0).

Definition disjoint (a n b k : Z) : Prop := k <= 0 \/ n <= 0 \/ a + n <= b \/ b + k <= a.

(* part of the external dictionary that may still be needed *)
Definition ext_need (st : sdstate) : Z := Z.max 0 (Z.min (sd_extDictSize st) (65536 - sd_prefixSize st)).

Definition call_geom (st : sdstate) (pok : bool) (total dest cap n : Z) : Prop :=
  0 <= n <= cap /\
  let a := Z.min 65536 total in
  let ps := sd_prefixSize st in
  if ps =? 0 then total = 0
  else if sd_prefixEnd st =? dest then
    (a <= ps \/ 65535 <= ps \/ (pok = true /\ ps < 65535 /\ a <= ps + sd_extDictSize st)) /\
    disjoint dest cap (sd_externalDict st + sd_extDictSize st - ext_need st) (ext_need st)
  else
    a <= ps /\ disjoint dest cap (sd_prefixEnd st - Z.min ps 65536) (Z.min ps 65536).

(* calls: (dest, cap, block, decoded content) *)
Definition scall := (Z * Z * list Z * list Z)%type.

Fixpoint session_geom (st : sdstate) (pok : bool) (total : Z) (calls : list scall) : Prop :=
  match calls with
  | [] => True
  | (dest, cap, B, D) :: rest =>
    let n := Z.of_nat (length D) in
    call_geom st pok total dest cap n /\
    session_geom (sess_next st dest n) (pok_next st pok dest n) (total + n) rest
  end.

Fixpoint session_valid (H : list Z) (calls : list scall) : Prop :=
  match calls with
  | [] => True
  | (dest, cap, B, D) :: rest =>
    strict_valid (lastn (Z.to_nat 65536) H) B = Some D /\ bytes B /\ session_valid (H ++ D) rest
  end.

(* the model run: per call (return value, bytes found at the destination right after the call) *)
Fixpoint session_run (fastloop : bool) (am : mem) (st : sdstate) (calls : list scall) : list (Z * list Z) :=
  match calls with
  | [] => []
  | (dest, cap, B, D) :: rest =>
    let '(r, am', st', k) := decompress_safe_continue fastloop am st (mem_of_list 0 B) (Z.of_nat (length B)) dest cap in
    (r, load_list am' dest (Z.to_nat r)) :: session_run fastloop am' st' rest
  end.

(* ---- invariant: what the bookkeeping designates holds the end of the history ---- *)
Definition sess_inv (am : mem) (st : sdstate) (H : list Z) (pok : bool) : Prop :=
  let ps := sd_prefixSize st in let eds := sd_extDictSize st in
  0 <= ps /\ 0 <= eds /\ ps <= Z.of_nat (length H) /\ (ps = 0 -> eds = 0 /\ H = []) /\
  (forall j, 0 <= j < Z.min ps 65536 -> get am (sd_prefixEnd st - 1 - j) = nth (Z.to_nat j) (rev H) 0) /\
  (pok = true -> ps + eds <= Z.of_nat (length H) /\
     forall j, 0 <= j < ext_need st ->
       get am (sd_externalDict st + eds - 1 - j) = nth (Z.to_nat (ps + j)) (rev H) 0).

Lemma src_at_mem_of_list0 l : src_at (mem_of_list 0 l) 0 l.
Proof.
  unfold mem_of_list. intros j Hj. rewrite get_store_list.
  assert (E : (0 <=? 0 + Z.of_nat j) && (0 + Z.of_nat j <? 0 + Z.of_nat (length l)) = true) by lia.
  rewrite E. f_equal. lia.
Qed.

Lemma lastn_all {A} k (l : list A) : (length l <= k)%nat -> lastn k l = l.
Proof. intros H. unfold lastn. replace (length l - k)%nat with 0%nat by lia. reflexivity. Qed.

Lemma nth_rev_lastn (l : list Z) k j : (j < k)%nat -> (j < length l)%nat ->
  nth j (rev (lastn k l)) 0 = nth j (rev l) 0.
Proof.
  intros Hk Hl. rewrite !rev_nth by (rewrite ?lastn_length; lia).
  unfold lastn. rewrite nth_skipn_Z, skipn_length. f_equal. lia.
Qed.

(* offsets are at most 65535: the 65536th byte of the history is never referenced *)
Lemma copy_match_drop : forall n (rout : list Z) x off res, (1 <= off <= length rout)%nat ->
  copy_match (rout ++ [x]) off n = Some res -> exists res', copy_match rout off n = Some res' /\ res = res' ++ [x].
Proof.
  induction n as [|n IH]; intros rout x off res Ho H; cbn [copy_match] in *.
  - inversion H; subst. exists rout. split; reflexivity.
  - unfold byte in *. rewrite nth_error_app1 in H by lia.
    destruct (nth_error rout (off - 1)) as [b|]; [|discriminate].
    apply (IH (b :: rout) x off res); [cbn [length]; lia | exact H].
Qed.

Lemma apply_seqs_drop : forall ss (rout : list Z) x res, 65535 <= Z.of_nat (length rout) ->
  apply_seqs (rout ++ [x]) ss = Some res -> exists res', apply_seqs rout ss = Some res' /\ res = res' ++ [x].
Proof.
  induction ss as [|s ss IH]; intros rout x res Hl H; cbn [apply_seqs] in *.
  - inversion H; subst. exists rout. split; reflexivity.
  - destruct (apply_seq (rout ++ [x]) s) as [r1|] eqn:E; [|discriminate].
    unfold apply_seq in E |- *. destruct (off_ok (s_off s) && (4 <=? s_mlen s)) eqn:Eo; [|discriminate].
    unfold off_ok in Eo. unfold byte in *.
    rewrite app_assoc in E.
    assert (Ho : (1 <= Z.to_nat (s_off s) <= length (rev (s_lits s) ++ rout))%nat).
    { unfold byte in *. rewrite app_length. apply andb_prop in Eo. destruct Eo as [Eo _]. apply andb_prop in Eo. destruct Eo as [Eo1 Eo2].
      apply Z.leb_le in Eo1, Eo2. lia. }
    destruct (copy_match_drop _ _ _ _ _ Ho E) as (r1' & E1 & E2). unfold byte in *.
    rewrite E1. subst r1. apply IH; [|exact H].
    apply copy_match_length in E1. unfold byte in *. rewrite app_length in E1. lia.
Qed.

Lemma strict_valid_drop (x : Z) (hist B D : list Z) : 65535 <= Z.of_nat (length hist) ->
  strict_valid (x :: hist) B = Some D -> strict_valid hist B = Some D.
Proof.
  intros Hl H. unfold strict_valid in *. destruct (parse_block B) as [[ss last]|]; [|discriminate].
  destruct (end_ok ss last); [|discriminate].
  unfold run_seqs in *. cbn [rev] in H. unfold byte in *.
  destruct (apply_seqs (rev hist ++ [x]) ss) as [rout|] eqn:E; [|discriminate].
  assert (Hl' : 65535 <= Z.of_nat (length (rev hist))) by (rewrite rev_length; exact Hl).
  destruct (apply_seqs_drop _ _ _ _ Hl' E) as (rout' & E1 & E2).
  rewrite E1. subst rout.
  unfold byte in *. rewrite app_assoc in H. rewrite (rev_app_distr (rev last ++ rout') [x]) in H. cbn [rev app length skipn] in H. exact H.
Qed.

Lemma skipn_head : forall (l : list Z) m, (m < length l)%nat -> exists x, skipn m l = x :: skipn (S m) l.
Proof.
  induction l as [|a l IH]; intros m Hm; cbn [length] in Hm; [lia|].
  destruct m as [|m]; [exists a; reflexivity|]. cbn [skipn]. apply IH. lia.
Qed.

Lemma strict_valid_65535 (H B D : list Z) : 65535 <= Z.of_nat (length H) ->
  strict_valid (lastn (Z.to_nat 65536) H) B = Some D -> strict_valid (lastn (Z.to_nat 65535) H) B = Some D.
Proof.
  intros Hl Hv. destruct (Nat.eq_dec (length H) (Z.to_nat 65535)) as [E|E].
  - rewrite lastn_all in Hv by lia. rewrite lastn_all by lia. exact Hv.
  - unfold lastn in *.
    destruct (skipn_head H (length H - Z.to_nat 65536)%nat ltac:(lia)) as [x Hx]. rewrite Hx in Hv.
    replace (S (length H - Z.to_nat 65536)) with (length H - Z.to_nat 65535)%nat in Hv by lia.
    apply (strict_valid_drop x); [rewrite skipn_length; lia | exact Hv].
Qed.

(* shape of one call: the arena changes only inside [dest, dest+cap); the bookkeeping moves as [sess_next] *)
Lemma continue_shape fastloop am st srcm srcSize dest cap :
  let '(r, am', st', k) := decompress_safe_continue fastloop am st srcm srcSize dest cap in
  (forall x, x < dest \/ dest + cap <= x -> get am' x = get am x) /\ st' = sess_next st dest r.
Proof.
  unfold decompress_safe_continue, sess_next, fail_state, next_state.
  assert (W : forall m x, x < dest \/ dest + cap <= x -> get (writeback am dest cap m) x = get am x).
  { intros m x Hx. unfold writeback. rewrite get_blit.
    destruct ((dest <=? x) && (x <? dest + Z.of_nat (Z.to_nat cap))) eqn:E; [lia | reflexivity]. }
  destruct (sd_prefixSize st =? 0) eqn:E0.
  - destruct (decompress_safe fastloop srcm srcSize cap (work am dest cap 0)) as [[r m] k].
    destruct (r <=? 0) eqn:Er; cbv iota beta; (split; [apply W | rewrite ?E0, ?Epe, ?Er; reflexivity]).
  - destruct (sd_prefixEnd st =? dest) eqn:Epe.
    + destruct (sd_prefixSize st >=? 65536 - 1); [|destruct (sd_extDictSize st =? 0)];
        (destruct (dec_generic _ _ _ _ _ _ _ _ _ _ _) as [[r m] k];
         destruct (r <=? 0) eqn:Er; cbv iota beta; (split; [apply W | rewrite ?E0, ?Epe, ?Er; reflexivity])).
    + destruct (dec_generic _ _ _ _ _ _ _ _ _ _ _) as [[r m] k].
      destruct (r <=? 0) eqn:Er; cbv iota beta; (split; [apply W | rewrite ?E0, ?Epe, ?Er; reflexivity]).
Qed.

Lemma load_list_src_at : forall (l : list Z) m p, src_at m p l -> load_list m p (length l) = l.
Proof.
  induction l as [|b r IH]; intros m p Hs; cbn [length load_list]; [reflexivity|].
  destruct (src_at_cons _ _ _ _ Hs) as [H1 H2]. rewrite H1, (IH m (p + 1) H2). reflexivity.
Qed.

Lemma nth_rev_app (H D : list Z) j : 0 <= j ->
  nth (Z.to_nat j) (rev (H ++ D)) 0 =
  if j <? Z.of_nat (length D) then nth (Z.to_nat j) (rev D) 0 else nth (Z.to_nat (j - Z.of_nat (length D))) (rev H) 0.
Proof.
  intros Hj. rewrite rev_app_distr. destruct (j <? Z.of_nat (length D)) eqn:E.
  - apply app_nth1. rewrite rev_length. lia.
  - rewrite app_nth2 by (rewrite rev_length; lia). rewrite rev_length. f_equal. lia.
Qed.

Lemma src_at_rev m dest (D : list Z) j : src_at m dest D -> 0 <= j < Z.of_nat (length D) ->
  get m (dest + Z.of_nat (length D) - 1 - j) = nth (Z.to_nat j) (rev D) 0.
Proof.
  intros Hs Hj. rewrite rev_nth by lia.
  rewrite <- (Hs (length D - S (Z.to_nat j))%nat) by lia. f_equal. lia.
Qed.

(* (i) the segments the selected mode designates hold the [kk] most recent history bytes *)
Lemma designated_view (kk : Z) am st H pok dest cap n :
  kk = 65535 \/ kk = 65536 ->
  (kk = 65535 -> sd_prefixSize st <> 0 /\ sd_prefixEnd st = dest /\ 65535 <= sd_prefixSize st) ->
  (kk = 65536 -> sd_prefixSize st <> 0 -> sd_prefixEnd st = dest -> 65535 <= sd_prefixSize st ->
   Z.min 65536 (Z.of_nat (length H)) <= sd_prefixSize st \/ sd_prefixSize st < 65535) ->
  sess_inv am st H pok -> call_geom st pok (Z.of_nat (length H)) dest cap n ->
  out_at (stream_view am st dest) 0 (rev (lastn (Z.to_nat kk) H)) /\
  Z.of_nat (length (lastn (Z.to_nat kk) H)) <= stream_avail st dest.
Proof.
  intros Hkk Hk1 Hk2 (Hps & Heds & HpsH & Hz & Pw & Ew) (Hn & G).
  set (hist := lastn (Z.to_nat kk) H).
  assert (Hhl : Z.of_nat (length hist) = Z.min kk (Z.of_nat (length H))).
  { unfold hist. rewrite lastn_length. lia. }
  assert (Hnth : forall j : nat, Z.of_nat j < Z.of_nat (length hist) -> nth j (rev hist) 0 = nth (Z.to_nat (Z.of_nat j)) (rev H) 0).
  { intros j Hj. rewrite Nat2Z.id. unfold hist. apply nth_rev_lastn; lia. }
  unfold stream_view, stream_avail. cbv zeta in G.
    destruct (sd_prefixSize st =? 0) eqn:E0.
    - split; [|lia]. intros j Hj. rewrite rev_length in Hj. lia.
    - destruct (sd_prefixEnd st =? dest) eqn:Epe.
      + destruct G as [G1 G2]. split.
        * intros j Hj. rewrite rev_length in Hj.
          rewrite Hnth by lia.
          destruct (- sd_prefixSize st <=? 0 - 1 - Z.of_nat j) eqn:Ein.
          -- replace (dest + (0 - 1 - Z.of_nat j)) with (sd_prefixEnd st - 1 - Z.of_nat j) by lia. apply Pw. lia.
          -- destruct G1 as [G1|[G1|(Gp & G64 & G1)]]; [lia|lia|].
             destruct (Ew Gp) as [_ Ew2].
             replace (sd_externalDict st + sd_extDictSize st - (- sd_prefixSize st - (0 - 1 - Z.of_nat j)))
               with (sd_externalDict st + sd_extDictSize st - 1 - (Z.of_nat j - sd_prefixSize st)) by lia.
             rewrite Ew2 by (unfold ext_need; lia). f_equal. lia.
        * destruct (sd_prefixSize st >=? 65536 - 1) eqn:E64; destruct G1 as [G1|[G1|(Gp & G64 & G1)]]; lia.
      + destruct G as [G1 G2]. split; [|lia].
        intros j Hj. rewrite rev_length in Hj.
        rewrite Hnth by lia.
        replace (sd_prefixEnd st + (0 - 1 - Z.of_nat j)) with (sd_prefixEnd st - 1 - Z.of_nat j) by lia. apply Pw. lia.
Qed.

(* (ii) a call that changes the arena only inside [dest, dest+cap) and leaves D at dest re-establishes the invariant *)
Lemma inv_after am am' st H pok dest cap (D : list Z) :
  sess_inv am st H pok -> call_geom st pok (Z.of_nat (length H)) dest cap (Z.of_nat (length D)) ->
  (forall x, x < dest \/ dest + cap <= x -> get am' x = get am x) -> src_at am' dest D ->
  sess_inv am' (sess_next st dest (Z.of_nat (length D))) (H ++ D) (pok_next st pok dest (Z.of_nat (length D))).
Proof.
  intros (Hps & Heds & HpsH & Hz & Pw & Ew) (Hn & G) Hout Hsrc.
  set (n := Z.of_nat (length D)) in *.
  assert (Hnew : forall j, 0 <= j < n -> get am' (dest + n - 1 - j) = nth (Z.to_nat j) (rev D) 0).
  { intros j Hj. apply src_at_rev; [exact Hsrc | exact Hj]. }
  assert (HlenH' : Z.of_nat (length (H ++ D)) = Z.of_nat (length H) + n) by (rewrite app_length; lia).
  assert (HD0 : n = 0 -> H ++ D = H).
  { intros Hn0. destruct D; [apply app_nil_r | cbn [length] in n; lia]. }
  unfold sess_next, fail_state, next_state, pok_next, sess_inv. cbv zeta in G |- *.
  destruct (sd_prefixSize st =? 0) eqn:E0.
  - (* first call *)
    destruct (Hz ltac:(lia)) as [Hed0 HH0]. subst H. cbn [length] in *.
    destruct (n <=? 0) eqn:En.
    + rewrite (HD0 ltac:(lia)). refine (conj _ (conj _ (conj _ (conj _ (conj _ _))))); [lia | lia | lia | | | ].
      * intros _. split; [lia | reflexivity].
      * intros j Hj. lia.
      * intros _. split; [cbn [length]; lia|]. intros j Hj. unfold ext_need in Hj. lia.
    + cbn [sd_prefixSize sd_extDictSize sd_prefixEnd sd_externalDict app].
      refine (conj _ (conj _ (conj _ (conj _ (conj _ _))))); [lia | lia | lia | | | ].
      * intros Hn0. lia.
      * intros j Hj. rewrite Hnew by lia. reflexivity.
      * intros _. split; [lia|]. intros j Hj. unfold ext_need in Hj. cbn [sd_prefixSize sd_extDictSize] in Hj. lia.
  - destruct (sd_prefixEnd st =? dest) eqn:Epe.
    + (* contiguous continuation *)
      destruct G as [G1 G2].
      assert (Hext : forall j, 0 <= j < ext_need st -> get am' (sd_externalDict st + sd_extDictSize st - 1 - j) = get am (sd_externalDict st + sd_extDictSize st - 1 - j)).
      { intros j Hj. apply Hout. unfold disjoint in G2. lia. }
      destruct (n <=? 0) eqn:En.
      * rewrite (HD0 ltac:(lia)). refine (conj _ (conj _ (conj _ (conj _ (conj _ _))))); [lia | lia | lia | | | ].
        -- exact Hz.
        -- intros j Hj. rewrite Hout by lia. apply Pw. exact Hj.
        -- intros Hp. destruct (Ew Hp) as [Ew1 Ew2]. split; [exact Ew1|].
           intros j Hj. rewrite Hext by exact Hj. apply Ew2. exact Hj.
      * cbn [sd_prefixSize sd_extDictSize sd_prefixEnd sd_externalDict].
        refine (conj _ (conj _ (conj _ (conj _ (conj _ _))))); [lia | lia | lia | | | ].
        -- intros Hc. lia.
        -- intros j Hj. rewrite nth_rev_app by lia. fold n. destruct (j <? n) eqn:Ej.
           ++ replace (sd_prefixEnd st + n - 1 - j) with (dest + n - 1 - j) by lia. apply Hnew. lia.
           ++ rewrite Hout by lia. replace (sd_prefixEnd st + n - 1 - j) with (sd_prefixEnd st - 1 - (j - n)) by lia. apply Pw. lia.
        -- intros Hp. destruct (Ew Hp) as [Ew1 Ew2]. split; [lia|].
           intros j Hj. unfold ext_need in Hj. cbn [sd_prefixSize sd_extDictSize] in Hj.
           rewrite Hext by (unfold ext_need; lia). rewrite Ew2 by (unfold ext_need; lia).
           rewrite nth_rev_app by lia. fold n. assert (E : (sd_prefixSize st + n + j <? n) = false) by lia. rewrite E. f_equal. lia.
    + (* jump: the prefix becomes the external dictionary *)
      destruct G as [G1 G2].
      assert (Hpre : forall j, 0 <= j < Z.min (sd_prefixSize st) 65536 -> get am' (sd_prefixEnd st - 1 - j) = get am (sd_prefixEnd st - 1 - j)).
      { intros j Hj. apply Hout. unfold disjoint in G2. lia. }
      destruct (n <=? 0) eqn:En.
      * rewrite (HD0 ltac:(lia)). cbn [sd_prefixSize sd_extDictSize sd_prefixEnd sd_externalDict negb].
        refine (conj _ (conj _ (conj _ (conj _ (conj _ _))))); [lia | lia | lia | | | ].
        -- intros Hc. lia.
        -- intros j Hj. rewrite Hpre by exact Hj. apply Pw. exact Hj.
        -- discriminate.
      * cbn [sd_prefixSize sd_extDictSize sd_prefixEnd sd_externalDict negb].
        refine (conj _ (conj _ (conj _ (conj _ (conj _ _))))); [lia | lia | lia | | | ].
        -- intros Hc. lia.
        -- intros j Hj. rewrite nth_rev_app by lia. fold n. assert (E : (j <? n) = true) by lia. rewrite E. apply Hnew. lia.
        -- intros _. split; [lia|]. intros j Hj. unfold ext_need in Hj. cbn [sd_prefixSize sd_extDictSize] in Hj.
           replace (sd_prefixEnd st - sd_prefixSize st + sd_prefixSize st - 1 - j) with (sd_prefixEnd st - 1 - j) by lia.
           rewrite Hpre by lia. rewrite Pw by lia.
           rewrite nth_rev_app by lia. fold n. assert (E : (n + j <? n) = false) by lia. rewrite E. f_equal. lia.
Qed.

(* [kk] = number of history bytes handed to the one-call theorem: 65536, or 65535 when the decoder
   runs in withPrefix64k mode on a prefix of exactly 65535 bytes *)
Lemma session_step_k (kk : Z) fastloop am st H pok dest cap (B D : list Z) :
  kk = 65535 \/ kk = 65536 ->
  (kk = 65535 -> sd_prefixSize st <> 0 /\ sd_prefixEnd st = dest /\ 65535 <= sd_prefixSize st) ->
  (kk = 65536 -> sd_prefixSize st <> 0 -> sd_prefixEnd st = dest -> 65535 <= sd_prefixSize st ->
   Z.min 65536 (Z.of_nat (length H)) <= sd_prefixSize st \/ sd_prefixSize st < 65535) ->
  sess_inv am st H pok -> call_geom st pok (Z.of_nat (length H)) dest cap (Z.of_nat (length D)) ->
  strict_valid (lastn (Z.to_nat kk) H) B = Some D -> bytes B ->
  let '(r, am', st', k) := decompress_safe_continue fastloop am st (mem_of_list 0 B) (Z.of_nat (length B)) dest cap in
  r = Z.of_nat (length D) /\ load_list am' dest (Z.to_nat r) = D /\
  st' = sess_next st dest (Z.of_nat (length D)) /\
  sess_inv am' st' (H ++ D) (pok_next st pok dest (Z.of_nat (length D))).
Proof.
  intros Hkk Hk1 Hk2 Hinv Hg Hv Hb.
  destruct (designated_view kk am st H pok dest cap _ Hkk Hk1 Hk2 Hinv Hg) as [Hv1 Hv2].
  assert (Hl : Z.of_nat (length (lastn (Z.to_nat kk) H)) <= 65536) by (rewrite lastn_length; lia).
  pose proof (continue_step fastloop am st (mem_of_list 0 B) B (lastn (Z.to_nat kk) H) D dest cap
                ltac:(apply Hinv) ltac:(apply Hinv) Hv1 Hv2) as CS.
  rewrite (lastn_all (Z.to_nat 65536) (lastn (Z.to_nat kk) H)) in CS by lia.
  specialize (CS Hv Hb (src_at_mem_of_list0 B) ltac:(destruct Hg; lia)).
  pose proof (continue_shape fastloop am st (mem_of_list 0 B) (Z.of_nat (length B)) dest cap) as SH.
  destruct (decompress_safe_continue fastloop am st (mem_of_list 0 B) (Z.of_nat (length B)) dest cap) as [[[r am'] st'] k].
  destruct CS as (Hr & Hsrc & _). destruct SH as [Hout Hst]. subst r.
  split; [reflexivity|]. split; [rewrite Nat2Z.id; apply load_list_src_at; exact Hsrc|]. split; [exact Hst|].
  subst st'. apply (inv_after am am' st H pok dest cap D Hinv Hg Hout Hsrc).
Qed.

Theorem session_step fastloop am st H pok dest cap (B D : list Z) :
  sess_inv am st H pok -> call_geom st pok (Z.of_nat (length H)) dest cap (Z.of_nat (length D)) ->
  strict_valid (lastn (Z.to_nat 65536) H) B = Some D -> bytes B ->
  let '(r, am', st', k) := decompress_safe_continue fastloop am st (mem_of_list 0 B) (Z.of_nat (length B)) dest cap in
  r = Z.of_nat (length D) /\ load_list am' dest (Z.to_nat r) = D /\
  st' = sess_next st dest (Z.of_nat (length D)) /\
  sess_inv am' st' (H ++ D) (pok_next st pok dest (Z.of_nat (length D))).
Proof.
  intros Hinv Hg Hv Hb.
  destruct (Z.eq_dec (sd_prefixSize st) 65535) as [E1|E1];
    [destruct (Z.eq_dec (sd_prefixEnd st) dest) as [E2|E2];
       [destruct (Z_le_gt_dec 65536 (Z.of_nat (length H))) as [E3|E3]|]|].
  - (* withPrefix64k on a prefix of exactly 65535 bytes, longer history: 65535 bytes are designated and suffice *)
    apply (session_step_k 65535); try assumption; try lia.
    apply strict_valid_65535; [lia | exact Hv].
  - apply (session_step_k 65536); try assumption; try lia.
  - apply (session_step_k 65536); try assumption; try lia.
  - apply (session_step_k 65536); try assumption; try lia.
Qed.


(* ---- the session theorem ---- *)
Definition expected (calls : list scall) : list (Z * list Z) :=
  map (fun c : scall => let '(dest, cap, B, D) := c in (Z.of_nat (length D), D)) calls.

Theorem continue_session :
  forall (calls : list scall) (fastloop : bool) (am : mem) (st : sdstate) (H : list Z) (pok : bool),
    sess_inv am st H pok -> session_geom st pok (Z.of_nat (length H)) calls -> session_valid H calls ->
    session_run fastloop am st calls = expected calls.
Proof.
  induction calls as [|[[[dest cap] B] D] rest IH]; intros fastloop am st H pok Hinv Hg Hv; [reflexivity|].
  cbn [session_geom session_valid session_run expected map] in *.
  destruct Hg as [Hg1 Hg2]. destruct Hv as (Hv1 & Hv2 & Hv3).
  pose proof (session_step fastloop am st H pok dest cap B D Hinv Hg1 Hv1 Hv2) as HS.
  destruct (decompress_safe_continue fastloop am st (mem_of_list 0 B) (Z.of_nat (length B)) dest cap) as [[[r am'] st'] k].
  destruct HS as (Hr & Hl & Hst & Hinv').
  rewrite Hl, Hr. f_equal. subst st'.
  apply (IH fastloop am' _ (H ++ D) _ Hinv'); [|exact Hv3].
  rewrite app_length, Nat2Z.inj_add. exact Hg2.
Qed.

(* sessions start from LZ4_setStreamDecode: without a dictionary ... *)
Lemma init_inv am dictionary : sess_inv am (setStreamDecode dictionary 0) [] true.
Proof.
  unfold sess_inv, setStreamDecode, ext_need. cbn [Z.eqb sd_prefixSize sd_extDictSize sd_prefixEnd sd_externalDict length].
  refine (conj _ (conj _ (conj _ (conj _ (conj _ _))))); try lia.
  - intros _. split; reflexivity.
  - intros _. split; [lia|]. intros j Hj. lia.
Qed.
(* ... or with the last bytes of earlier data saved at [dictionary] *)
Lemma init_inv_dict am dictionary (Hd : list Z) :
  src_at am dictionary Hd -> 0 < Z.of_nat (length Hd) ->
  sess_inv am (setStreamDecode dictionary (Z.of_nat (length Hd))) Hd true.
Proof.
  intros Hs Hl. unfold sess_inv, setStreamDecode, ext_need.
  assert (E : (Z.of_nat (length Hd) =? 0) = false) by lia. rewrite E.
  cbn [sd_prefixSize sd_extDictSize sd_prefixEnd sd_externalDict].
  refine (conj _ (conj _ (conj _ (conj _ (conj _ _))))); try lia.
  - intros j Hj. replace (dictionary + Z.of_nat (length Hd) - 1 - j) with (dictionary + Z.of_nat (length Hd) - 1 - j) by lia.
    apply src_at_rev; [exact Hs | lia].
  - intros _. split; [lia|]. intros j Hj. lia.
Qed.

(* ---- scheme (a): all blocks decoded contiguously ---- *)
Fixpoint contig_calls (dest : Z) (calls : list scall) : Prop :=
  match calls with
  | [] => True
  | (d, cap, B, D) :: rest => d = dest /\ Z.of_nat (length D) <= cap /\ contig_calls (dest + Z.of_nat (length D)) rest
  end.

Lemma contig_geom : forall calls st pok total dest,
  sd_extDictSize st = 0 -> sd_prefixSize st = total -> 0 <= total -> (0 < total -> sd_prefixEnd st = dest) ->
  contig_calls dest calls -> session_geom st pok total calls.
Proof.
  induction calls as [|[[[d cap] B] D] rest IH]; intros st pok total dest He Hp Ht Hpe Hc; [exact I|].
  cbn [contig_calls session_geom] in *. destruct Hc as (Hd & Hcap & Hrest). subst d.
  set (n := Z.of_nat (length D)) in *. assert (Hn : 0 <= n) by (subst n; lia).
  split.
  - unfold call_geom. split; [lia|]. cbv zeta.
    destruct (sd_prefixSize st =? 0) eqn:E0; [lia|].
    rewrite (Hpe ltac:(lia)), Z.eqb_refl. split; [left; lia|].
    unfold disjoint, ext_need. rewrite He. lia.
  - unfold sess_next, fail_state, next_state, pok_next.
    destruct (n <=? 0) eqn:En.
    + assert (n = 0) by lia.
      destruct (sd_prefixSize st =? 0) eqn:E0.
      * apply (IH st pok (total + n) (dest + n)); try assumption; try lia.
      * rewrite (Hpe ltac:(lia)), Z.eqb_refl.
        apply (IH st pok (total + n) (dest + n)); try assumption; try lia.
    + destruct (sd_prefixSize st =? 0) eqn:E0.
      * apply (IH _ pok (total + n) (dest + n)); cbn [sd_extDictSize sd_prefixSize sd_prefixEnd]; try assumption; try lia.
      * rewrite (Hpe ltac:(lia)), Z.eqb_refl.
        apply (IH _ pok (total + n) (dest + n)); cbn [sd_extDictSize sd_prefixSize sd_prefixEnd]; try assumption; try lia.
Qed.

Theorem continue_session_contiguous :
  forall (calls : list scall) (fastloop : bool) (am : mem) (dest : Z),
    contig_calls dest calls -> session_valid [] calls ->
    session_run fastloop am (setStreamDecode 0 0) calls = expected calls.
Proof.
  intros calls fastloop am dest Hc Hv.
  apply (continue_session calls fastloop am _ [] true (init_inv am 0)); [|exact Hv].
  apply (contig_geom calls _ true 0 dest); cbn; try lia; try reflexivity. exact Hc.
Qed.

(* ---- scheme (b): ring buffer of at least 65536 + 2*maxBlock bytes ----
   The caller decodes at the current position q of the ring [rb, rb+R) and restarts at rb when fewer
   than maxBlock bytes remain (examples/blockStreaming_ringBuffer.c).  With R >= 65536 + 2*maxBlock the
   wrapped block never overlaps the 64 KB that offsets can still reach.  (lz4.h asks for
   LZ4_DECODER_RING_BUFFER_SIZE(maxBlock) = 65536 + 14 + maxBlock only: see the header of this file.) *)
Section Ring.
  Variables (rb R M : Z).
  Hypothesis HM : 0 <= M.
  Hypothesis HR : 65536 + 2 * M <= R.

  Definition ring_pos (q : Z) : Z := if R - q <? M then 0 else q.
  Fixpoint ring_calls (q : Z) (calls : list scall) : Prop :=
    match calls with
    | [] => True
    | (d, cap, B, D) :: rest =>
      d = rb + ring_pos q /\ cap = M /\ Z.of_nat (length D) <= M /\
      ring_calls (ring_pos q + Z.of_nat (length D)) rest
    end.

  Definition ring_inv (st : sdstate) (pok : bool) (total q : Z) : Prop :=
    (sd_prefixSize st = 0 /\ sd_extDictSize st = 0 /\ total = 0 /\ q = 0) \/
    (0 < sd_prefixSize st /\ sd_prefixEnd st = rb + sd_prefixSize st /\ sd_prefixSize st <= R /\
     sd_prefixSize st <= total /\ 0 <= sd_extDictSize st /\
     ((q = sd_prefixSize st /\
       ((sd_extDictSize st = 0 /\ total = sd_prefixSize st) \/
        (pok = true /\ sd_externalDict st = rb /\ 65536 + M <= sd_extDictSize st /\
         sd_prefixSize st + sd_extDictSize st <= total)))
      \/ (q = 0 /\ R - sd_prefixSize st < M))).

  Ltac fin := first [ lia | reflexivity | assumption | split; fin | left; fin | right; fin ].

  Lemma ring_step st pok total q n :
    ring_inv st pok total q -> 0 <= n <= M ->
    call_geom st pok total (rb + ring_pos q) M n /\
    ring_inv (sess_next st (rb + ring_pos q) n) (pok_next st pok (rb + ring_pos q) n) (total + n) (ring_pos q + n).
  Proof.
    intros Hi Hn. unfold ring_pos.
    destruct Hi as [(Hp & He & Ht & Hq) | (Hp & Hpe & HpR & Hpt & He & Hcase)].
    - (* fresh stream *)
      subst q. assert (E : (R - 0 <? M) = false) by lia. rewrite E.
      unfold call_geom, sess_next, fail_state, next_state, pok_next, ring_inv. cbv zeta.
      assert (E0 : (sd_prefixSize st =? 0) = true) by lia. rewrite E0.
      split; [split; [lia | exact Ht]|].
      destruct (n <=? 0) eqn:En; cbn [sd_prefixSize sd_extDictSize sd_prefixEnd sd_externalDict]; fin.
    - assert (E0 : (sd_prefixSize st =? 0) = false) by lia.
      assert (Jump : forall d, d = rb -> R - sd_prefixSize st < M ->
                call_geom st pok total d M n /\
                ring_inv (sess_next st d n) (pok_next st pok d n) (total + n) (0 + n)).
      { intros d Hd Hw. subst d.
        assert (Epe : (sd_prefixEnd st =? rb) = false) by lia.
        unfold call_geom, sess_next, fail_state, next_state, pok_next, ring_inv, disjoint. cbv zeta.
        rewrite E0, Epe. split.
        - split; [lia|]. split; [lia|]. right. right. left. lia.
        - destruct (n <=? 0) eqn:En; cbn [sd_prefixSize sd_extDictSize sd_prefixEnd sd_externalDict negb]; right; fin. }
      destruct Hcase as [(Hq & Hext) | (Hq & Hw)].
      + subst q. destruct (R - sd_prefixSize st <? M) eqn:Ew.
        * replace (rb + 0) with rb by lia. apply Jump; [reflexivity | lia].
        * (* contiguous continuation inside the lap *)
          assert (Epe : (sd_prefixEnd st =? rb + sd_prefixSize st) = true) by lia.
          unfold call_geom, sess_next, fail_state, next_state, pok_next, ring_inv, disjoint, ext_need. cbv zeta.
          rewrite E0, Epe.
          destruct Hext as [(He0 & Htot) | (Hpk & Hed & He64 & Hsum)].
          -- split; [split; [lia|]; split; [left; lia | lia]|].
             destruct (n <=? 0) eqn:En; cbn [sd_prefixSize sd_extDictSize sd_prefixEnd sd_externalDict]; right; fin.
          -- split.
             ++ split; [lia|]. split; [|lia].
                destruct (Z_le_gt_dec 65535 (sd_prefixSize st)); [right; left; lia | right; right; repeat split; lia].
             ++ destruct (n <=? 0) eqn:En; cbn [sd_prefixSize sd_extDictSize sd_prefixEnd sd_externalDict]; right;
                  (split; [lia|]; split; [lia|]; split; [lia|]; split; [lia|]; split; [lia|]; left; split; [lia|]; right; repeat split; try assumption; lia).
      + subst q. assert (E : (R - 0 <? M) = false) by lia. rewrite E.
        replace (rb + 0) with rb by lia. apply Jump; [reflexivity | lia].
  Qed.

  Lemma ring_geom : forall calls st pok total q,
    ring_inv st pok total q -> ring_calls q calls -> session_geom st pok total calls.
  Proof.
    induction calls as [|[[[d cap] B] D] rest IH]; intros st pok total q Hi Hc; [exact I|].
    cbn [ring_calls session_geom] in *. destruct Hc as (Hd & Hcap & Hn & Hrest). subst d cap.
    destruct (ring_step st pok total q (Z.of_nat (length D)) Hi ltac:(lia)) as [G1 G2].
    split; [exact G1|]. apply (IH _ _ _ _ G2 Hrest).
  Qed.

  Theorem continue_session_ring :
    forall (calls : list scall) (fastloop : bool) (am : mem),
      ring_calls 0 calls -> session_valid [] calls ->
      session_run fastloop am (setStreamDecode 0 0) calls = expected calls.
  Proof.
    intros calls fastloop am Hc Hv.
    apply (continue_session calls fastloop am _ [] true (init_inv am 0)); [|exact Hv].
    apply (ring_geom calls _ true 0 0); [|exact Hc].
    left. cbn. repeat split; reflexivity.
  Qed.
End Ring.

(* ---- what the contract excludes: more than two live segments ----
   lz4.h: "The last 64KB of previously decoded data *must* remain available and unmodified at the
   memory position where they were decoded."  That is necessary, NOT sufficient: the decoder remembers
   two segments.  Three blocks decoded into three separate buffers, nothing overwritten; the third,
   strictly valid w.r.t. the 40 bytes decoded before it, references the first: the call fails (-5, as the
   real decoder does), while the same three blocks decoded contiguously succeed. *)
Definition seg3_b1 : list Z := [240; 5] ++ map (fun i => 100 + Z.of_nat i) (List.seq 0%nat 20%nat).
Definition seg3_b2 : list Z := [240; 5] ++ map (fun i => 200 + Z.of_nat i) (List.seq 0%nat 20%nat).
Definition seg3_b3 : list Z := [20; 77; 30; 0; 192; 1; 2; 3; 4; 5; 6; 7; 8; 9; 10; 11; 12].
Definition seg3_d1 : list Z := map (fun i => 100 + Z.of_nat i) (List.seq 0%nat 20%nat).
Definition seg3_d2 : list Z := map (fun i => 200 + Z.of_nat i) (List.seq 0%nat 20%nat).
Definition seg3_d3 : list Z := [77; 111; 112; 113; 114; 115; 116; 117; 118; 1; 2; 3; 4; 5; 6; 7; 8; 9; 10; 11; 12].
Definition seg3_calls (a1 a2 a3 : Z) : list scall :=
  [(a1, 4096, seg3_b1, seg3_d1); (a2, 4096, seg3_b2, seg3_d2); (a3, 4096, seg3_b3, seg3_d3)].

Lemma bytes_of_ok (l : list Z) : forallb (fun b => (0 <=? b) && (b <? 256)) l = true -> bytes l.
Proof.
  induction l as [|b r IH]; intros H; [constructor|]. cbn [forallb] in H.
  apply andb_prop in H. destruct H as [H1 H2]. constructor; [lia | apply IH; exact H2].
Qed.

Lemma three_segments_refuted :
  session_valid [] (seg3_calls 1000 10000 20000)
  /\ (forall fastloop, map fst (session_run fastloop empty (setStreamDecode 0 0) (seg3_calls 1000 10000 20000)) = [20; 20; -5])
  /\ (forall fastloop, session_run fastloop empty (setStreamDecode 0 0) (seg3_calls 1000 1020 1040) = expected (seg3_calls 1000 1020 1040)).
Proof.
  split; [|split].
  - cbn [session_valid seg3_calls]. repeat split; try (vm_compute; reflexivity);
      (apply bytes_of_ok; vm_compute; reflexivity).
  - intros [|]; vm_compute; reflexivity.
  - intros [|]; vm_compute; reflexivity.
Qed.
