(* LZ4HC_encodeSequence (Model.HcEmit): what it writes is the specification's encoding of the
   sequence, and in the limited modes it never writes beyond [oend] (wild-copy slack included),
   whatever the parser asks it to encode. *)
From Coq Require Import ZArith List Lia Bool ZifyBool.
From LZ4V Require Import Gen.Consts Spec.BlockSpec Model.Mem Model.HcEmit Proofs.FastCap.
Import ListNotations.
Local Open Scope Z_scope.

Lemma lit_ext_spec : forall fuel len, 0 <= len -> len / 255 < Z.of_nat fuel \/ (fuel = O /\ len < 255) ->
  lit_ext fuel len = ext_len len.
Proof.
  induction fuel as [|f IH]; intros len Hl Hf; cbn [lit_ext].
  - destruct Hf as [Hf|[_ Hf]]; [assert (0 <= len / 255) by (Z.div_mod_to_equations; lia); lia|].
    unfold ext_len. rewrite Z.div_small, Z.mod_small by lia. reflexivity.
  - destruct (len >=? 255) eqn:E.
    + rewrite IH; [|lia|].
      * unfold ext_len.
        replace (len / 255) with ((len - 255) / 255 + 1) by (Z.div_mod_to_equations; lia).
        replace (len mod 255) with ((len - 255) mod 255) by (Z.div_mod_to_equations; lia).
        rewrite Z2Nat.inj_add by (try lia; Z.div_mod_to_equations; lia).
        rewrite Nat.add_comm. cbn [Z.to_nat Pos.to_nat Pos.iter_op Nat.add repeat app]. reflexivity.
      * destruct f as [|f'].
        -- right. split; [reflexivity|]. destruct Hf as [Hf|[Hf _]]; [|discriminate].
           Z.div_mod_to_equations. lia.
        -- left. destruct Hf as [Hf|[Hf _]]; [|discriminate]. Z.div_mod_to_equations. lia.
    + unfold ext_len. rewrite Z.div_small, Z.mod_small by lia. reflexivity.
Qed.

Lemma ml_ext_spec : forall fuel len, 0 <= len -> len / 510 < Z.of_nat fuel \/ (fuel = O /\ len < 255) ->
  ml_ext fuel len = ext_len len.
Proof.
  induction fuel as [|f IH]; intros len Hl Hf; cbn [ml_ext].
  - destruct Hf as [Hf|[_ Hf]]; [assert (0 <= len / 510) by (Z.div_mod_to_equations; lia); lia|].
    unfold ext_len. rewrite Z.div_small, Z.mod_small by lia. reflexivity.
  - destruct (len >=? 510) eqn:E.
    + rewrite IH; [|lia|].
      * unfold ext_len.
        replace (len / 255) with ((len - 510) / 255 + 2) by (Z.div_mod_to_equations; lia).
        replace (len mod 255) with ((len - 510) mod 255) by (Z.div_mod_to_equations; lia).
        rewrite Z2Nat.inj_add by (try lia; Z.div_mod_to_equations; lia).
        rewrite Nat.add_comm. cbn [Z.to_nat Pos.to_nat Pos.iter_op Nat.add repeat app]. reflexivity.
      * destruct f as [|f'].
        -- right. split; [reflexivity|]. destruct Hf as [Hf|[Hf _]]; [|discriminate].
           Z.div_mod_to_equations. lia.
        -- left. destruct Hf as [Hf|[Hf _]]; [|discriminate]. Z.div_mod_to_equations. lia.
    + destruct (len >=? 255) eqn:E2.
      * unfold ext_len. replace (len / 255) with 1 by (Z.div_mod_to_equations; lia).
        replace (len mod 255) with (len - 255) by (Z.div_mod_to_equations; lia). reflexivity.
      * unfold ext_len. rewrite Z.div_small, Z.mod_small by lia. reflexivity.
Qed.

Lemma src_bytes_length src n a : length (src_bytes src n a) = n.
Proof. revert a; induction n as [|n IH]; intros a; cbn [src_bytes length]; [reflexivity | rewrite IH; reflexivity]. Qed.

Section Emit.
  Variable src : Z -> Z.

  (* success: the bytes written are the specification's encoding of the sequence *)
  Theorem encodeSequence_encoding ip anchor op matchLength offset limit oend :
    anchor <= ip -> MINMATCH <= matchLength -> 0 <= offset < 65536 ->
    let e := encodeSequence src ip anchor op matchLength offset limit oend in
    e_ret e = 0 ->
    e_bytes e = encode_seq (mkSeq (src_bytes src (Z.to_nat (ip - anchor)) anchor) offset matchLength) /\
    e_op e = op + Z.of_nat (length (e_bytes e)).
  Proof.
    intros Hl Hm Hoff. unfold encodeSequence. cbv zeta.
    set (L := ip - anchor) in *.
    destruct (limit && (op + 1 + L / 255 + L + (2 + 1 + LASTLITERALS) >? oend)); cbn [e_ret]; [discriminate|].
    set (lits := src_bytes src (Z.to_nat L) anchor).
    assert (Hll : Z.of_nat (length lits) = L) by (unfold lits; rewrite src_bytes_length; lia).
    assert (Hlit : (if L >=? RUN_MASK then (RUN_MASK, lit_ext (Z.to_nat L) (L - RUN_MASK)) else (L, []))
                   = (enc_nib L, enc_ext L)).
    { unfold enc_nib, enc_ext, RUN_MASK. destruct (L >=? 15) eqn:A; destruct (L <? 15) eqn:B; try lia; [|reflexivity].
      rewrite lit_ext_spec; [reflexivity | lia|].
      left. Z.div_mod_to_equations. lia. }
    rewrite Hlit.
    set (ml := matchLength - MINMATCH).
    match goal with |- context [if ?c then mkEmit 1 _ _ _ else _] => destruct c end;
      cbn [e_ret]; [discriminate|].
    assert (Hml : (if ml >=? ML_MASK then (ML_MASK, ml_ext (Z.to_nat ml) (ml - ML_MASK)) else (ml, []))
                  = (enc_nib ml, enc_ext ml)).
    { unfold enc_nib, enc_ext, ML_MASK. unfold ml, MINMATCH in *.
      destruct (matchLength - 4 >=? 15) eqn:A; destruct (matchLength - 4 <? 15) eqn:B; try lia; [|reflexivity].
      rewrite ml_ext_spec; [reflexivity | lia|].
      left. Z.div_mod_to_equations. lia. }
    rewrite Hml. cbn [e_ret e_bytes e_op]. intros _.
    unfold encode_seq. cbv zeta. cbn [s_lits s_off s_mlen]. fold lits. unfold byte in *. rewrite Hll. fold ml.
    unfold ml, MINMATCH.
    replace ((offset / 256) mod 256) with (offset / 256) by (Z.div_mod_to_equations; lia).
    split; [reflexivity|].
    cbn [length]. rewrite ?app_length. cbn [length]. rewrite ?app_length. cbn [length].
    rewrite ?Nat2Z.inj_succ, ?Nat2Z.inj_add, ?Hll. cbn [length]. rewrite ?Nat2Z.inj_succ. lia.
  Qed.

  (* capacity: in the limited modes nothing is written beyond oend, whatever the outcome *)
  Theorem encodeSequence_cap ip anchor op matchLength offset oend :
    anchor <= ip -> MINMATCH <= matchLength -> op <= oend ->
    let e := encodeSequence src ip anchor op matchLength offset true oend in
    e_hw e <= oend /\ op <= e_op e <= e_hw e.
  Proof.
    intros Hl Hm Hop. unfold encodeSequence. cbv zeta. cbn [andb].
    set (L := ip - anchor) in *.
    destruct (op + 1 + L / 255 + L + (2 + 1 + LASTLITERALS) >? oend) eqn:E1; cbn [e_hw e_op]; [lia|].
    assert (Hext : Z.of_nat (length (snd (if L >=? RUN_MASK then (RUN_MASK, lit_ext (Z.to_nat L) (L - RUN_MASK)) else (L, []))))
                   = extlen L).
    { unfold RUN_MASK, extlen. destruct (L >=? 15) eqn:A; destruct (L <? 15) eqn:B; try lia; [|reflexivity].
      cbn [snd]. rewrite lit_ext_spec; [|lia | left; Z.div_mod_to_equations; lia].
      unfold ext_len. rewrite app_length, repeat_length. cbn [length].
      assert (0 <= (L - 15) / 255) by (Z.div_mod_to_equations; lia). lia. }
    destruct (if L >=? RUN_MASK then (RUN_MASK, lit_ext (Z.to_nat L) (L - RUN_MASK)) else (L, [])) as [tokhi ext].
    cbn [snd] in Hext. rewrite Hext.
    pose proof (extlen_nonneg L) as He0.
    assert (He1 : extlen L <= L / 255 + 1).
    { unfold extlen. destruct (L <? 15) eqn:B; Z.div_mod_to_equations; lia. }
    assert (He2 : L < 15 -> extlen L = 0) by (intros; unfold extlen; destruct (L <? 15) eqn:B; lia).
    assert (HL0 : 0 <= L) by (unfold L; lia).
    pose proof (wild8_len_bounds_cap (op + 1 + extlen L) L HL0) as Hw.
    unfold LASTLITERALS in *.
    set (ml := matchLength - MINMATCH).
    destruct (op + 1 + extlen L + L + 2 + ml / 255 + (1 + 5) >? oend) eqn:E2; cbn [e_hw e_op].
    - destruct (Z_lt_le_dec L 15); [rewrite He2 in * by lia|]; Z.div_mod_to_equations; lia.
    - assert (Hmx : Z.of_nat (length (snd (if ml >=? ML_MASK then (ML_MASK, ml_ext (Z.to_nat ml) (ml - ML_MASK)) else (ml, []))))
                    <= ml / 255 + 1 /\ 0 <= Z.of_nat (length (snd (if ml >=? ML_MASK then (ML_MASK, ml_ext (Z.to_nat ml) (ml - ML_MASK)) else (ml, []))))).
      { unfold ML_MASK. unfold ml, MINMATCH in *.
        destruct (matchLength - 4 >=? 15) eqn:A; cbn [snd length]; [|split; [Z.div_mod_to_equations; lia | lia]].
        rewrite ml_ext_spec; [|lia | left; Z.div_mod_to_equations; lia].
        unfold ext_len. rewrite app_length, repeat_length. cbn [length].
        assert (0 <= (matchLength - 4 - 15) / 255) by (Z.div_mod_to_equations; lia).
        split; [|lia]. Z.div_mod_to_equations. lia. }
      destruct (if ml >=? ML_MASK then (ML_MASK, ml_ext (Z.to_nat ml) (ml - ML_MASK)) else (ml, [])) as [toklo mext].
      cbn [snd] in Hmx. cbn [e_hw e_op].
      destruct (Z_lt_le_dec L 15); [rewrite He2 in * by lia|]; Z.div_mod_to_equations; lia.
  Qed.
End Emit.

Print Assumptions encodeSequence_encoding.
Print Assumptions encodeSequence_cap.
