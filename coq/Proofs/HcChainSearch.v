(* Soundness of the match search of the HC hash-chain parser (Model.HcChain.insertAndGetWiderMatch,
   dict == noDictCtx, chainSwap == 0, favorCompressionRatio: the configuration used by
   LZ4HC_compress_hashChain), for ANY content of hashTable / chainTable subject to
     - every hashTable entry is an index below the position searched (LZ4HC_init_internal and
       LZ4HC_Insert establish and keep this),
     - chainTable entries are 16-bit values,
     - lowLimit >= 64 KB (LZ4HC_init_internal), so that walking a chain cannot wrap below 0.
   A match that improves on [longest] is never trusted from the tables: its bytes are verified by
   LZ4_count / LZ4HC_countBack, or, in the pattern-analysis shortcut, follow from
   LZ4HC_countPattern / LZ4HC_reverseCountPattern on a source that repeats ONE byte (the test
   `(pattern & 0xFFFF) == (pattern >> 16)  &  (pattern & 0xFF) == (pattern >> 24)` forces the four bytes equal). *)
From Coq Require Import ZArith List Lia Bool ZifyBool FMapPositive.
From LZ4V Require Import Gen.Consts Spec.BlockSpec Model.Mem Model.Fast Model.HcEmit Model.HcMid Model.HcChain.
From LZ4V Require Import Proofs.BlockSpecProofs Proofs.FactorSpec Proofs.FastBasics Proofs.HcMidSound.
Import ListNotations.
Local Open Scope Z_scope.

Definition ct_ok (c : ctab) : Prop := forall k, 0 <= ctget c k <= 65535.

Lemma ctget_ctset c k v j : ctget (ctset c k v) j = if k =? j then v else ctget c j.
Proof.
  unfold ctget, ctset, set. cbn [ct_m ct_def].
  destruct (Z.eqb_spec k j) as [->|H].
  - rewrite PositiveMap.gss. reflexivity.
  - rewrite PositiveMap.gso; [reflexivity|]. intros E. apply H. symmetry. apply enc_inj. exact E.
Qed.

Lemma ct_ok_set c k v : ct_ok c -> 0 <= v <= 65535 -> ct_ok (ctset c k v).
Proof. intros H Hv j. rewrite ctget_ctset. destruct (k =? j); [exact Hv | apply H]. Qed.

Lemma delta_next_range c p : ct_ok c -> 0 <= delta_next c p <= 65535.
Proof. intros H. apply H. Qed.

Lemma s32_id x : 0 <= x < 2147483648 -> s32 x = x.
Proof.
  intros H. unfold s32, M32. cbv zeta. rewrite Z.mod_small by lia.
  destruct (x >=? 2147483648) eqn:E; lia.
Qed.

(* a sub-range of a valid match is a valid match *)
Lemma match_ok_sub vrd lo pos off len c :
  match_ok vrd lo pos off len -> 0 <= c -> 4 <= len - c -> match_ok vrd lo (pos + c) off (len - c).
Proof.
  intros (H1 & H2 & H3 & H4) Hc Hl. split; [exact H1|]. split; [exact Hl|]. split; [lia|].
  intros i Hi. replace (pos + c + i) with (pos + (c + i)) by lia. apply H4. lia.
Qed.

(* ---- patterns made of one byte ---- *)
Definition allb (pattern b : Z) : Prop := pattern = b * 16843009 /\ 0 <= b < 256.

Lemma pat_byte_allb pattern b i : allb pattern b -> pat_byte pattern i = b.
Proof.
  intros [-> Hb]. unfold pat_byte.
  assert (H : i mod 4 = 0 \/ i mod 4 = 1 \/ i mod 4 = 2 \/ i mod 4 = 3) by (pose proof (Z.mod_pos_bound i 4); lia).
  destruct H as [H | [H | [H | H]]]; rewrite H.
  - change (2 ^ (8 * 0)) with 1. Z.div_mod_to_equations. lia.
  - change (2 ^ (8 * 1)) with 256. Z.div_mod_to_equations. lia.
  - change (2 ^ (8 * 2)) with 65536. Z.div_mod_to_equations. lia.
  - change (2 ^ (8 * 3)) with 16777216. Z.div_mod_to_equations. lia.
Qed.

Lemma rotatePattern_allb r pattern b : allb pattern b -> rotatePattern r pattern = pattern.
Proof.
  intros [-> Hb]. unfold rotatePattern. cbv zeta.
  assert (H : r mod 4 = 0 \/ r mod 4 = 1 \/ r mod 4 = 2 \/ r mod 4 = 3) by (pose proof (Z.mod_pos_bound r 4); lia).
  unfold M32.
  destruct H as [H | [H | [H | H]]]; rewrite H.
  - reflexivity.
  - change (1 * 8 =? 0) with false. cbv iota. change (2 ^ (1 * 8)) with 256. change (2 ^ (32 - 1 * 8)) with 16777216.
    Z.div_mod_to_equations. lia.
  - change (2 * 8 =? 0) with false. cbv iota. change (2 ^ (2 * 8)) with 65536. change (2 ^ (32 - 2 * 8)) with 65536.
    Z.div_mod_to_equations. lia.
  - change (3 * 8 =? 0) with false. cbv iota. change (2 ^ (3 * 8)) with 16777216. change (2 ^ (32 - 3 * 8)) with 256.
    Z.div_mod_to_equations. lia.
Qed.

Section Prims.
  Variable vrd : Z -> Z.
  Hypothesis Hb : forall a, 0 <= vrd a < 256.

  Lemma rd32_range p : 0 <= rd32 vrd p < M32.
  Proof.
    unfold rd32, M32. pose proof (Hb p). pose proof (Hb (p + 1)). pose proof (Hb (p + 2)). pose proof (Hb (p + 3)). lia.
  Qed.

  Lemma rd32_eq p q : rd32 vrd p = rd32 vrd q -> forall k, 0 <= k < 4 -> vrd (p + k) = vrd (q + k).
  Proof. intros H. apply (read32_eq vrd Hb p q). exact H. Qed.

  (* the repeat test of the pattern analysis: the four bytes at p are equal *)
  Lemma repeat_test_allb p :
    ((rd32 vrd p mod 65536) =? (rd32 vrd p / 65536)) && ((rd32 vrd p mod 256) =? (rd32 vrd p / 16777216)) = true ->
    allb (rd32 vrd p) (vrd p).
  Proof.
    intros H. apply andb_true_iff in H. destruct H as [H1 H2].
    apply Z.eqb_eq in H1. apply Z.eqb_eq in H2. unfold rd32 in *.
    pose proof (Hb p). pose proof (Hb (p + 1)). pose proof (Hb (p + 2)). pose proof (Hb (p + 3)).
    split; [|lia].
    set (b0 := vrd p) in *. set (b1 := vrd (p + 1)) in *. set (b2 := vrd (p + 2)) in *. set (b3 := vrd (p + 3)) in *.
    clearbody b0 b1 b2 b3. Z.div_mod_to_equations. lia.
  Qed.

  Lemma rd32_allb q pattern b : allb pattern b -> rd32 vrd q = pattern -> forall k, 0 <= k < 4 -> vrd (q + k) = b.
  Proof.
    intros [-> Hbb] H k Hk. unfold rd32 in H.
    pose proof (Hb q). pose proof (Hb (q + 1)). pose proof (Hb (q + 2)). pose proof (Hb (q + 3)).
    assert (k = 0 \/ k = 1 \/ k = 2 \/ k = 3) as [-> | [-> | [-> | ->]]] by lia; rewrite ?Z.add_0_r; lia.
  Qed.

  (* LZ4HC_countBack *)
  Lemma countBack_loop_spec : forall fuel ip m back mn,
    let r := countBack_loop vrd fuel ip m back mn in
    r <= back /\ (mn <= back -> mn <= r) /\ (forall j, r <= j < back -> vrd (ip + j) = vrd (m + j)).
  Proof.
    induction fuel as [|f IH]; intros ip m back mn; cbn [countBack_loop]; cbv zeta.
    - split; [lia|]. split; [lia|]. intros; lia.
    - destruct ((back >? mn) && (vrd (ip + back - 1) =? vrd (m + back - 1))) eqn:E.
      + specialize (IH ip m (back - 1) mn). cbv zeta in IH.
        set (r := countBack_loop vrd f ip m (back - 1) mn) in *. destruct IH as (H1 & H2 & H3).
        split; [lia|]. split; [lia|].
        intros j Hj. destruct (Z.eq_dec j (back - 1)) as [->|Hn]; [|apply H3; lia].
        replace (ip + (back - 1)) with (ip + back - 1) by lia. replace (m + (back - 1)) with (m + back - 1) by lia. lia.
      + split; [lia|]. split; [lia|]. intros; lia.
  Qed.

  Lemma countBack_spec ip m iMin mMin :
    iMin <= ip -> mMin <= m ->
    let r := countBack vrd ip m iMin mMin in
    r <= 0 /\ iMin <= ip + r /\ mMin <= m + r /\ (forall j, r <= j < 0 -> vrd (ip + j) = vrd (m + j)).
  Proof.
    intros H1 H2. unfold countBack. cbv zeta.
    pose proof (countBack_loop_spec (Z.to_nat (- Z.max (iMin - ip) (mMin - m))) ip m 0 (Z.max (iMin - ip) (mMin - m))) as H.
    cbv zeta in H. destruct H as (A & B & C). specialize (B ltac:(lia)).
    split; [lia|]. split; [lia|]. split; [lia|]. exact C.
  Qed.

  (* LZ4HC_countPattern on a one-byte pattern *)
  Lemma countPattern_loop_spec pattern b : allb pattern b -> forall fuel ip iEnd k,
    let r := countPattern_loop vrd fuel ip iEnd pattern k in
    k <= r /\ (k < r -> ip + r <= iEnd) /\ (forall j, k <= j < r -> vrd (ip + j) = b).
  Proof.
    intros Hp. induction fuel as [|f IH]; intros ip iEnd k; cbn [countPattern_loop]; cbv zeta.
    - split; [lia|]. split; intros; lia.
    - rewrite (pat_byte_allb pattern b k Hp).
      destruct ((ip + k <? iEnd) && (vrd (ip + k) =? b)) eqn:E.
      + specialize (IH ip iEnd (k + 1)). cbv zeta in IH.
        set (r := countPattern_loop vrd f ip iEnd pattern (k + 1)) in *. destruct IH as (H1 & H2 & H3).
        split; [lia|]. split.
        * intros _. destruct (Z.eq_dec r (k + 1)) as [->|Hn]; [lia | apply H2; lia].
        * intros j Hj. destruct (Z.eq_dec j k) as [->|Hn]; [lia | apply H3; lia].
      + split; [lia|]. split; intros; lia.
  Qed.

  Lemma countPattern_spec pattern b ip iEnd : allb pattern b ->
    let r := countPattern vrd ip iEnd pattern in
    0 <= r /\ (ip <= iEnd -> ip + r <= iEnd) /\ (forall j, 0 <= j < r -> vrd (ip + j) = b).
  Proof.
    intros Hp. unfold countPattern. cbv zeta.
    pose proof (countPattern_loop_spec pattern b Hp (Z.to_nat (iEnd - ip)) ip iEnd 0) as H. cbv zeta in H.
    destruct H as (A & B & C). split; [lia|]. split; [|exact C].
    intros Hle. destruct (Z_lt_le_dec 0 (countPattern_loop vrd (Z.to_nat (iEnd - ip)) ip iEnd pattern 0)); [apply B; lia | lia].
  Qed.

  (* LZ4HC_reverseCountPattern on a one-byte pattern *)
  Lemma rcp4_loop_spec pattern b : allb pattern b -> forall fuel ip iLow,
    let r := rcp4_loop vrd fuel ip iLow pattern in
    r <= ip /\ (iLow <= ip -> iLow <= r) /\ (forall a, r <= a < ip -> vrd a = b).
  Proof.
    intros Hp. induction fuel as [|f IH]; intros ip iLow; cbn [rcp4_loop]; cbv zeta.
    - split; [lia|]. split; intros; lia.
    - destruct ((ip >=? iLow + 4) && (rd32 vrd (ip - 4) =? pattern)) eqn:E.
      + specialize (IH (ip - 4) iLow). cbv zeta in IH.
        set (r := rcp4_loop vrd f (ip - 4) iLow pattern) in *. destruct IH as (H1 & H2 & H3).
        split; [lia|]. split; [intros; apply H2; lia|].
        intros a Ha. destruct (Z_lt_le_dec a (ip - 4)) as [Hlt|Hge]; [apply H3; lia|].
        apply andb_true_iff in E. destruct E as [_ E]. apply Z.eqb_eq in E.
        replace a with (ip - 4 + (a - (ip - 4))) by lia. apply (rd32_allb (ip - 4) pattern b Hp E). lia.
      + split; [lia|]. split; intros; lia.
  Qed.

  Lemma rcp1_loop_spec pattern b : allb pattern b -> forall fuel ip iLow k,
    let r := rcp1_loop vrd fuel ip iLow pattern k in
    r <= ip /\ (iLow <= ip -> iLow <= r) /\ (forall a, r <= a < ip -> vrd a = b).
  Proof.
    intros Hp. induction fuel as [|f IH]; intros ip iLow k; cbn [rcp1_loop]; cbv zeta.
    - split; [lia|]. split; intros; lia.
    - rewrite (pat_byte_allb pattern b (3 - k) Hp).
      destruct ((ip >? iLow) && (vrd (ip - 1) =? b)) eqn:E.
      + specialize (IH (ip - 1) iLow (k + 1)). cbv zeta in IH.
        set (r := rcp1_loop vrd f (ip - 1) iLow pattern (k + 1)) in *. destruct IH as (H1 & H2 & H3).
        split; [lia|]. split; [intros; apply H2; lia|].
        intros a Ha. destruct (Z.eq_dec a (ip - 1)) as [->|Hn]; [lia | apply H3; lia].
      + split; [lia|]. split; intros; lia.
  Qed.

  Lemma reverseCountPattern_spec pattern b ip iLow : allb pattern b ->
    let r := reverseCountPattern vrd ip iLow pattern in
    0 <= r /\ (iLow <= ip -> r <= ip - iLow) /\ (forall j, 1 <= j <= r -> vrd (ip - j) = b).
  Proof.
    intros Hp. unfold reverseCountPattern. cbv zeta.
    pose proof (rcp4_loop_spec pattern b Hp (Z.to_nat (ip - iLow)) ip iLow) as H4. cbv zeta in H4.
    set (ip4 := rcp4_loop vrd (Z.to_nat (ip - iLow)) ip iLow pattern) in *. destruct H4 as (A1 & A2 & A3).
    pose proof (rcp1_loop_spec pattern b Hp (Z.to_nat (ip4 - iLow)) ip4 iLow 0) as H1. cbv zeta in H1.
    set (ip1 := rcp1_loop vrd (Z.to_nat (ip4 - iLow)) ip4 iLow pattern 0) in *. destruct H1 as (B1 & B2 & B3).
    split; [lia|]. split; [intros Hle; specialize (A2 Hle); specialize (B2 A2); lia|].
    intros j Hj. destruct (Z_lt_le_dec (ip - j) ip4) as [Hlt|Hge]; [apply B3; lia | apply A3; lia].
  Qed.
End Prims.

Section Search.
  Variable vrd : Z -> Z.
  Hypothesis Hb : forall a, 0 <= vrd a < 256.
  Variables prefixIdx dictIdx : Z.
  Hypothesis Hidx : 65536 <= dictIdx /\ dictIdx <= prefixIdx.

  Notation lo := dictIdx.

  Lemma idx_of_id p : prefixIdx <= p < M32 -> idx_of prefixIdx p = p.
  Proof. intros H. unfold idx_of. rewrite (u32_id (p - prefixIdx)) by (unfold M32 in *; lia). rewrite u32_id by (unfold M32 in *; lia). lia. Qed.

  (* what is required of the tables: hash entries are indices below [b]; chain entries are 16-bit *)
  Definition TB (t : htabs) (b : Z) : Prop := tab_lt (t_hash t) b /\ ct_ok (t_chain t) /\ 0 <= t_ntu t.

  Lemma TB_mono t a b : TB t a -> a <= b -> TB t b.
  Proof. intros (H1 & H2 & H3) Hab. split; [eapply tab_lt_mono; eauto | split; assumption]. Qed.

  Lemma insert_loop_inv : forall fuel idx target ht ct C,
    tab_lt ht C -> ct_ok ct -> 0 <= idx -> target < M32 -> target <= C ->
    tab_lt (fst (insert_loop vrd fuel idx target ht ct)) C /\ ct_ok (snd (insert_loop vrd fuel idx target ht ct)).
  Proof.
    induction fuel as [|f IH]; intros idx target ht ct C Ht Hc Hi Htm HtC; cbn [insert_loop]; cbv zeta.
    - cbn [fst snd]. split; assumption.
    - destruct (idx <? target) eqn:E; [|cbn [fst snd]; split; assumption].
      rewrite (u32_id (idx + 1)) by lia.
      apply IH; try lia.
      + apply tab_lt_set; [exact Ht | lia].
      + apply ct_ok_set; [exact Hc|].
        match goal with |- 0 <= ?x mod 65536 <= 65535 => pose proof (Z.mod_pos_bound x 65536 ltac:(lia)); lia end.
  Qed.

  (* LZ4HC_Insert up to q (excluded) *)
  Lemma insert_inv t q B : TB t B -> prefixIdx <= q < M32 -> B <= q ->
    TB (insert vrd prefixIdx t q) q /\ t_ntu (insert vrd prefixIdx t q) = q.
  Proof.
    intros (H1 & H2 & H3) Hq HB. unfold insert. rewrite (idx_of_id q Hq).
    pose proof (insert_loop_inv (Z.to_nat (q - t_ntu t)) (t_ntu t) q (t_hash t) (t_chain t) q
                  ltac:(eapply tab_lt_mono; eauto) H2 H3 ltac:(lia) ltac:(lia)) as HI.
    destruct (insert_loop vrd (Z.to_nat (q - t_ntu t)) (t_ntu t) q (t_hash t) (t_chain t)) as [ht ct].
    cbn [fst snd] in HI. destruct HI as (A & B'). cbn [t_ntu]. split; [|reflexivity].
    split; [exact A | split; [exact B' | cbn [t_ntu]; lia]].
  Qed.

  Lemma protect_false x : 0 <= x < M32 -> 1 <= prefixIdx < M32 ->
    protectDictEnd prefixIdx x = false -> prefixIdx - 3 <= x <= prefixIdx - 1.
  Proof.
    intros Hx Hp. unfold protectDictEnd. rewrite (u32_id (prefixIdx - 1)) by lia.
    intros H. destruct (Z_le_gt_dec x (prefixIdx - 1)) as [Hle|Hgt].
    - rewrite u32_id in H by lia. lia.
    - exfalso. unfold u32, M32 in *.
      replace ((prefixIdx - 1 - x) mod 4294967296) with (prefixIdx - 1 - x + 4294967296) in H
        by (apply Z.mod_unique with (q := -1); lia). lia.
  Qed.

  Lemma protect_true_lt x : 0 <= x < prefixIdx -> prefixIdx < M32 ->
    protectDictEnd prefixIdx x = true -> x <= prefixIdx - 4.
  Proof.
    intros Hx Hp. unfold protectDictEnd. rewrite (u32_id (prefixIdx - 1)) by lia.
    rewrite u32_id by lia. lia.
  Qed.

  Section WiderProof.
    Variable ct : ctab.
    Variables ip iLow iHigh longest0 : Z.
    Variable pa swap fav : bool.
    Hypothesis Hct : ct_ok ct.
    Hypothesis Hpos : prefixIdx <= iLow /\ iLow <= ip /\ ip + 4 <= iHigh /\ iHigh < M32 - 65536.

    Notation ipIndex := (w_ipIndex prefixIdx ip).
    Notation lowest := (w_lowest prefixIdx dictIdx ip).
    Notation pattern := (w_pattern vrd ip).

    Lemma ipIndex_id : ipIndex = ip.
    Proof. unfold w_ipIndex. apply idx_of_id. unfold M32 in *. lia. Qed.

    Lemma lowest_spec : 65536 <= lowest /\ dictIdx <= lowest /\ ip - lowest <= 65535 /\ lowest <= ip.
    Proof.
      unfold w_lowest, w_within. rewrite ipIndex_id. unfold LZ4_DISTANCE_MAX.
      rewrite (u32_id (dictIdx + (65535 + 1))) by (unfold M32 in *; lia).
      destruct (dictIdx + (65535 + 1) >? ip) eqn:E; [lia|].
      rewrite u32_id by (unfold M32 in *; lia). lia.
    Qed.

    (* the best match so far, when it improves on the initial [longest] *)
    Definition wvalid (s : wst) : Prop :=
      match_ok vrd lo (ip + w_sback s) (w_off s) (w_longest s) /\
      iLow <= ip + w_sback s /\ w_sback s <= 0 /\
      ip + w_sback s + w_longest s <= iHigh /\ ip + 4 <= ip + w_sback s + w_longest s.

    Definition RepI (rep : repst) (spl : Z) : Prop :=
      rep = rep_confirmed ->
      allb pattern (vrd ip) /\ (forall i, 0 <= i < spl -> vrd (ip + i) = vrd ip) /\ 4 <= spl /\ ip + spl <= iHigh.

    Definition WInv (s : wst) : Prop :=
      0 <= w_mi s < ip /\ True /\ longest0 <= w_longest s /\
      (longest0 < w_longest s -> wvalid s) /\ (iLow = ip -> w_sback s = 0) /\ RepI (w_rep s) (w_spl s).

    (* a candidate whose bytes were compared with the source *)
    Lemma verified_candidate s mi back fwd :
      WInv s -> lowest <= mi < ip -> w_longest s < fwd - back ->
      back <= 0 -> iLow <= ip + back -> lo <= mi + back ->
      (forall j, back <= j < fwd -> vrd (ip + j) = vrd (mi + j)) -> 4 <= fwd -> ip + fwd <= iHigh ->
      WInv (mkW mi (fwd - back) (s32 (ipIndex - mi)) back (w_mcp s) (w_rep s) (w_spl s)).
    Proof.
      intros (I1 & I2 & I3 & I4 & I5 & I6) Hmi Hlen Hb0 Hlow Hlo Heq Hf4 Hfe.
      pose proof lowest_spec as (L1 & L2 & L3 & L4).
      rewrite ipIndex_id. rewrite s32_id by lia.
      unfold WInv. cbn [w_mi w_mcp w_longest w_off w_sback w_rep w_spl].
      split; [lia|]. split; [exact I2|]. split; [lia|]. split; [|split; [intros; lia | exact I6]].
      intros _. unfold wvalid. cbn [w_longest w_off w_sback].
      split; [|lia].
      split; [lia|]. split; [lia|]. split; [lia|].
      intros i Hi. replace (ip + back + i) with (ip + (back + i)) by lia.
      rewrite Heq by lia. f_equal. lia.
    Qed.

    Lemma cand_prefix_inv s : WInv s -> lowest <= w_mi s -> prefixIdx <= w_mi s ->
      let s' := snd (cand_prefix vrd prefixIdx ip iLow iHigh s) in
      WInv s' /\ w_mi s' = w_mi s /\ w_mcp s' = w_mcp s.
    Proof.
      intros HI Hlow Hpre. pose proof HI as (I1 & I2 & I3 & I4 & I5 & I6).
      unfold cand_prefix. cbv zeta.
      destruct (rd16 vrd (iLow + w_longest s - 1) =? rd16 vrd (w_mi s - w_lookBack ip iLow + w_longest s - 1));
        [|cbn [snd]; split; [exact HI | split; reflexivity]].
      destruct (rd32 vrd (w_mi s) =? pattern) eqn:E32; [|cbn [snd]; split; [exact HI | split; reflexivity]].
      apply Z.eqb_eq in E32.
      set (back := if w_lookBack ip iLow =? 0 then 0 else countBack vrd ip (w_mi s) iLow prefixIdx).
      assert (Hback : back <= 0 /\ iLow <= ip + back /\ prefixIdx <= w_mi s + back /\
                      (forall j, back <= j < 0 -> vrd (ip + j) = vrd (w_mi s + j))).
      { subst back. destruct (w_lookBack ip iLow =? 0).
        - split; [lia|]. split; [lia|]. split; [lia|]. intros; lia.
        - apply countBack_spec; lia. }
      destruct Hback as (B1 & B2 & B3 & B4).
      pose proof (count_spec vrd (ip + MINMATCH) (w_mi s + MINMATCH) iHigh ltac:(unfold MINMATCH; lia)) as Hc. cbv zeta in Hc.
      set (cnt := count vrd (ip + MINMATCH) (w_mi s + MINMATCH) iHigh) in *. destruct Hc as (C1 & C2 & _).
      unfold MINMATCH in *.
      destruct (4 + cnt - back >? w_longest s) eqn:Eg; [|cbn [snd]; split; [exact HI | split; reflexivity]].
      cbn [snd]. split; [|split; reflexivity].
      clearbody back cnt.
      apply (verified_candidate s (w_mi s) back (4 + cnt)); try lia; try assumption.
      intros j Hj. destruct (Z_lt_le_dec j 0) as [Hn|Hn]; [apply B4; lia|].
      destruct (Z_lt_le_dec j 4) as [H4|H4].
      - symmetry. apply (rd32_eq vrd Hb (w_mi s) ip E32). lia.
      - replace (ip + j) with (ip + 4 + (j - 4)) by lia. replace (w_mi s + j) with (w_mi s + 4 + (j - 4)) by lia.
        apply C2. lia.
    Qed.

    Lemma cand_ext_inv s : WInv s -> lowest <= w_mi s -> w_mi s < prefixIdx ->
      let s' := snd (cand_ext vrd prefixIdx dictIdx ip iLow iHigh s) in
      WInv s' /\ w_mi s' = w_mi s /\ w_mcp s' = w_mcp s.
    Proof.
      intros HI Hlow Hpre. pose proof HI as (I1 & I2 & I3 & I4 & I5 & I6).
      pose proof lowest_spec as (L1 & L2 & L3 & L4).
      unfold cand_ext. cbv zeta.
      rewrite (u32_id (prefixIdx - 4)) by (unfold M32 in *; lia).
      destruct ((w_mi s <=? prefixIdx - 4) && (rd32 vrd (w_mi s) =? pattern)) eqn:E;
        [|cbn [snd]; split; [exact HI | split; reflexivity]].
      apply andb_true_iff in E. destruct E as [E4 E32]. apply Z.eqb_eq in E32.
      rewrite (u32_id (prefixIdx - w_mi s)) by (unfold M32 in *; lia).
      set (vLimit := if ip + (prefixIdx - w_mi s) >? iHigh then iHigh else ip + (prefixIdx - w_mi s)).
      assert (HvL : ip + 4 <= vLimit <= iHigh /\ vLimit <= ip + (prefixIdx - w_mi s)).
      { subst vLimit. destruct (ip + (prefixIdx - w_mi s) >? iHigh) eqn:Ev; lia. }
      unfold MINMATCH.
      pose proof (count_spec vrd (ip + 4) (w_mi s + 4) vLimit ltac:(lia)) as Hc. cbv zeta in Hc.
      set (cnt := count vrd (ip + 4) (w_mi s + 4) vLimit) in *. destruct Hc as (C1 & C2 & _).
      set (ml2 := if (ip + (cnt + 4) =? vLimit) && (vLimit <? iHigh)
                  then cnt + 4 + count vrd (ip + (cnt + 4)) prefixIdx iHigh else cnt + 4).
      assert (Hml2 : cnt + 4 <= ml2 /\ ip + ml2 <= iHigh /\ (forall j, cnt + 4 <= j < ml2 -> vrd (ip + j) = vrd (w_mi s + j))).
      { subst ml2. destruct ((ip + (cnt + 4) =? vLimit) && (vLimit <? iHigh)) eqn:E2.
        - apply andb_true_iff in E2. destruct E2 as [Ea Eb].
          assert (Evl : vLimit = ip + (prefixIdx - w_mi s)).
          { subst vLimit. destruct (ip + (prefixIdx - w_mi s) >? iHigh) eqn:Ev; lia. }
          pose proof (count_spec vrd (ip + (cnt + 4)) prefixIdx iHigh ltac:(lia)) as Hd. cbv zeta in Hd.
          set (c2 := count vrd (ip + (cnt + 4)) prefixIdx iHigh) in *. destruct Hd as (D1 & D2 & _).
          split; [lia|]. split; [lia|].
          intros j Hj. replace (ip + j) with (ip + (cnt + 4) + (j - (cnt + 4))) by lia.
          rewrite D2 by lia. f_equal. lia.
        - split; [lia|]. split; [lia|]. intros; lia. }
      destruct Hml2 as (M1 & M2 & M3).
      set (back := if w_lookBack ip iLow =? 0 then 0 else countBack vrd ip (w_mi s) iLow dictIdx).
      assert (Hback : back <= 0 /\ iLow <= ip + back /\ dictIdx <= w_mi s + back /\
                      (forall j, back <= j < 0 -> vrd (ip + j) = vrd (w_mi s + j))).
      { subst back. destruct (w_lookBack ip iLow =? 0).
        - split; [lia|]. split; [lia|]. split; [lia|]. intros; lia.
        - apply countBack_spec; lia. }
      destruct Hback as (B1 & B2 & B3 & B4).
      destruct (ml2 - back >? w_longest s) eqn:Eg; [|cbn [snd]; split; [exact HI | split; reflexivity]].
      cbn [snd]. split; [|split; reflexivity].
      clearbody back ml2 cnt vLimit.
      apply (verified_candidate s (w_mi s) back ml2); try lia; try assumption.
      intros j Hj. destruct (Z_lt_le_dec j 0) as [Hn|Hn]; [apply B4; lia|].
      destruct (Z_lt_le_dec j 4) as [H4|H4].
      - symmetry. apply (rd32_eq vrd Hb (w_mi s) ip E32). lia.
      - destruct (Z_lt_le_dec j (cnt + 4)) as [H5|H5]; [|apply M3; lia].
        replace (ip + j) with (ip + 4 + (j - 4)) by lia. replace (w_mi s + j) with (w_mi s + 4 + (j - 4)) by lia.
        apply C2. lia.
    Qed.

    Definition step_ok (r : wstep) : Prop :=
      match r with WCont s' | WBreak s' => WInv s' | WUndef => False end.

    Lemma WInv_set_mi s x : WInv s -> 0 <= x < ip ->
      WInv (mkW x (w_longest s) (w_off s) (w_sback s) (w_mcp s) (w_rep s) (w_spl s)).
    Proof.
      intros (I1 & I2 & I3 & I4 & I5 & I6) Hx. unfold WInv, wvalid in *.
      cbn [w_mi w_mcp w_longest w_off w_sback w_rep w_spl].
      split; [exact Hx|]. split; [exact I2|]. split; [exact I3|]. split; [exact I4|]. split; [exact I5 | exact I6].
    Qed.

    Lemma WInv_set_mi_mcp s x m : WInv s -> 0 <= x < ip ->
      WInv (mkW x (w_longest s) (w_off s) (w_sback s) m (w_rep s) (w_spl s)).
    Proof.
      intros (I1 & I2 & I3 & I4 & I5 & I6) Hx. unfold WInv, wvalid in *.
      cbn [w_mi w_mcp w_longest w_off w_sback w_rep w_spl].
      split; [exact Hx|]. split; [exact I|]. split; [exact I3|]. split; [exact I4|]. split; [exact I5 | exact I6].
    Qed.

    (* `if (repeat == rep_untested) {...}` *)
    Lemma pa_repeat_spec s : RepI (w_rep s) (w_spl s) ->
      RepI (fst (pa_repeat vrd ip iHigh s)) (snd (pa_repeat vrd ip iHigh s)).
    Proof.
      intros HR. unfold pa_repeat. cbv zeta. destruct (w_rep s) eqn:Er.
      - destruct (((pattern mod 65536) =? (pattern / 65536)) && ((pattern mod 256) =? (pattern / 16777216))) eqn:Et.
        + cbn [fst snd]. intros _.
          pose proof (repeat_test_allb vrd Hb ip Et) as Ha.
          pose proof (countPattern_spec vrd pattern (vrd ip) (ip + 4) iHigh Ha) as Hc. cbv zeta in Hc.
          set (c := countPattern vrd (ip + 4) iHigh pattern) in *. destruct Hc as (C1 & C2 & C3).
          split; [exact Ha|]. split; [|split; [lia | specialize (C2 ltac:(lia)); lia]].
          intros i Hi. destruct (Z_lt_le_dec i 4) as [H4|H4].
          * apply (rd32_allb vrd Hb ip pattern (vrd ip) Ha eq_refl). lia.
          * replace (ip + i) with (ip + 4 + (i - 4)) by lia. apply C3. lia.
        + cbn [fst snd]. intros H; discriminate H.
      - cbn [fst snd]. intros H; discriminate H.
      - cbn [fst snd]. exact HR.
    Qed.

    (* forwardPatternLength: the candidate starts a run of the source's byte *)
    Lemma pa_forward_spec mci : allb pattern (vrd ip) -> dictIdx <= mci < ip ->
      (mci < prefixIdx -> mci <= prefixIdx - 4) -> rd32 vrd mci = pattern ->
      let fwd := pa_forward vrd prefixIdx ip iHigh mci in
      4 <= fwd /\ mci + fwd <= iHigh /\ (forall j, 0 <= j < fwd -> vrd (mci + j) = vrd ip).
    Proof.
      intros Ha Hm Hpe E32. unfold pa_forward. cbv zeta.
      assert (H4 : forall j, 0 <= j < 4 -> vrd (mci + j) = vrd ip) by (apply (rd32_allb vrd Hb mci pattern (vrd ip) Ha E32)).
      destruct (mci <? prefixIdx) eqn:Ex.
      - specialize (Hpe ltac:(lia)).
        pose proof (countPattern_spec vrd pattern (vrd ip) (mci + 4) prefixIdx Ha) as Hc. cbv zeta in Hc.
        set (c := countPattern vrd (mci + 4) prefixIdx pattern) in *. destruct Hc as (C1 & C2 & C3). specialize (C2 ltac:(lia)).
        cbn [andb].
        destruct (mci + (c + 4) =? prefixIdx) eqn:Ee.
        + rewrite (rotatePattern_allb (c + 4) pattern (vrd ip) Ha).
          pose proof (countPattern_spec vrd pattern (vrd ip) prefixIdx iHigh Ha) as Hd. cbv zeta in Hd.
          set (d := countPattern vrd prefixIdx iHigh pattern) in *. destruct Hd as (D1 & D2 & D3). specialize (D2 ltac:(lia)).
          split; [lia|]. split; [lia|].
          intros j Hj. destruct (Z_lt_le_dec j 4) as [Hj4|Hj4]; [apply H4; lia|].
          destruct (Z_lt_le_dec j (c + 4)) as [Hjc|Hjc].
          * replace (mci + j) with (mci + 4 + (j - 4)) by lia. apply C3. lia.
          * replace (mci + j) with (prefixIdx + (j - (c + 4))) by lia. apply D3. lia.
        + split; [lia|]. split; [lia|].
          intros j Hj. destruct (Z_lt_le_dec j 4) as [Hj4|Hj4]; [apply H4; lia|].
          replace (mci + j) with (mci + 4 + (j - 4)) by lia. apply C3. lia.
      - cbn [andb].
        pose proof (countPattern_spec vrd pattern (vrd ip) (mci + 4) iHigh Ha) as Hc. cbv zeta in Hc.
        set (c := countPattern vrd (mci + 4) iHigh pattern) in *. destruct Hc as (C1 & C2 & C3). specialize (C2 ltac:(lia)).
        split; [lia|]. split; [lia|].
        intros j Hj. destruct (Z_lt_le_dec j 4) as [Hj4|Hj4]; [apply H4; lia|].
        replace (mci + j) with (mci + 4 + (j - 4)) by lia. apply C3. lia.
    Qed.

    (* backLength: the run extends that far below the candidate, not below lowestMatchIndex *)
    Lemma pa_backward_spec mci : allb pattern (vrd ip) -> lowest <= mci < ip ->
      let bl := pa_backward vrd prefixIdx dictIdx ip mci in
      0 <= bl /\ lowest <= mci - bl /\ (forall j, 1 <= j <= bl -> vrd (mci - j) = vrd ip).
    Proof.
      intros Ha Hm. pose proof lowest_spec as (L1 & L2 & L3 & L4).
      unfold pa_backward. cbv zeta.
      match goal with |- context [Z.max (u32 (mci - u32 ?x)) _] => set (bl1 := x) end.
      assert (HB : 0 <= bl1 /\ bl1 <= mci - dictIdx /\ (forall j, 1 <= j <= bl1 -> vrd (mci - j) = vrd ip)).
      { subst bl1. destruct (mci <? prefixIdx) eqn:Ex.
        - cbn [negb andb].
          pose proof (reverseCountPattern_spec vrd Hb pattern (vrd ip) mci dictIdx Ha) as Hr. cbv zeta in Hr.
          destruct Hr as (R1 & R2 & R3). specialize (R2 ltac:(lia)). split; [lia|]. split; [lia | exact R3].
        - cbn [negb andb].
          pose proof (reverseCountPattern_spec vrd Hb pattern (vrd ip) mci prefixIdx Ha) as Hr. cbv zeta in Hr.
          set (r := reverseCountPattern vrd mci prefixIdx pattern) in *.
          destruct Hr as (R1 & R2 & R3). specialize (R2 ltac:(lia)).
          destruct ((mci - r =? prefixIdx) && (dictIdx <? prefixIdx)) eqn:E2.
          + rewrite (rotatePattern_allb (u32 (- r)) pattern (vrd ip) Ha).
            pose proof (reverseCountPattern_spec vrd Hb pattern (vrd ip) prefixIdx dictIdx Ha) as Hq. cbv zeta in Hq.
            set (q := reverseCountPattern vrd prefixIdx dictIdx pattern) in *.
            destruct Hq as (Q1 & Q2 & Q3). specialize (Q2 ltac:(lia)).
            split; [lia|]. split; [lia|].
            intros j Hj. destruct (Z_le_gt_dec j r) as [Hle|Hgt]; [apply R3; lia|].
            replace (mci - j) with (prefixIdx - (j - r)) by lia. apply Q3. lia.
          + split; [lia|]. split; [lia | exact R3]. }
      clearbody bl1. destruct HB as (B1 & B2 & B3).
      rewrite (u32_id bl1) by (unfold M32 in *; lia).
      rewrite (u32_id (mci - bl1)) by (unfold M32 in *; lia).
      rewrite u32_id by (unfold M32 in *; lia).
      split; [lia|]. split; [lia|]. intros j Hj. apply B3. lia.
    Qed.

    (* the pattern-analysis block: every index it jumps to is below ip, and the match it announces without
       counting (a run of the source's byte, as long as both runs) is a real match *)
    Lemma pa_block_inv s : WInv s -> lowest <= w_mi s ->
      match pa_block vrd prefixIdx dictIdx ct ip iLow iHigh s with
      | inl r => step_ok r
      | inr s' => WInv s' /\ w_mi s' = w_mi s /\ w_mcp s' = w_mcp s
      end.
    Proof.
      intros HI Hlow. pose proof HI as (I1 & I2 & I3 & I4 & I5 & I6).
      pose proof lowest_spec as (L1 & L2 & L3 & L4).
      unfold pa_block. cbv zeta.
      rewrite (u32_id (w_mi s - 1)) by (unfold M32 in *; lia).
      pose proof (pa_repeat_spec s I6) as HR.
      destruct (pa_repeat vrd ip iHigh s) as [rep spl]. cbn [fst snd] in HR.
      cbn [w_mi w_longest w_off w_sback w_mcp].
      set (s1 := mkW (w_mi s) (w_longest s) (w_off s) (w_sback s) (w_mcp s) rep spl).
      assert (HI1 : WInv s1).
      { unfold WInv, wvalid in *. subst s1. cbn [w_mi w_mcp w_longest w_off w_sback w_rep w_spl].
        split; [exact I1|]. split; [exact I2|]. split; [exact I3|]. split; [exact I4|]. split; [exact I5 | exact HR]. }
      assert (Hs1 : w_mi s1 = w_mi s /\ w_mcp s1 = w_mcp s) by (split; reflexivity).
      assert (Hset : forall x, 0 <= x < ip -> WInv (mkW x (w_longest s) (w_off s) (w_sback s) (w_mcp s) rep spl)).
      { intros x Hx. exact (WInv_set_mi s1 x HI1 Hx). }
      set (mci := w_mi s - 1) in *.
      destruct ((match rep with rep_confirmed => true | _ => false end) && (mci >=? lowest) && protectDictEnd prefixIdx mci) eqn:Ec;
        [|split; [exact HI1 | exact Hs1]].
      apply andb_true_iff in Ec. destruct Ec as [Ec Ep]. apply andb_true_iff in Ec. destruct Ec as [Er El].
      assert (Erep : rep = rep_confirmed) by (destruct rep; [discriminate Er | discriminate Er | reflexivity]).
      destruct (HR Erep) as (Ha & Hsp & Hs4 & Hse).
      destruct (rd32 vrd mci =? pattern) eqn:E32; [|split; [exact HI1 | exact Hs1]].
      apply Z.eqb_eq in E32.
      assert (Hmci : lowest <= mci < ip) by lia.
      assert (Hpe : mci < prefixIdx -> mci <= prefixIdx - 4).
      { intros Hlt. apply protect_true_lt; [lia | unfold M32 in *; lia | exact Ep]. }
      pose proof (pa_forward_spec mci Ha ltac:(lia) Hpe E32) as HF. cbv zeta in HF.
      set (fwd := pa_forward vrd prefixIdx ip iHigh mci) in *. destruct HF as (F1 & F2 & F3).
      pose proof (pa_backward_spec mci Ha Hmci) as HBk. cbv zeta in HBk.
      set (bl := pa_backward vrd prefixIdx dictIdx ip mci) in *. destruct HBk as (K1 & K2 & K3).
      clearbody fwd bl.
      rewrite (u32_id fwd), (u32_id spl), (u32_id bl) by (unfold M32 in *; lia).
      assert (Hpf : forall x, x <= mci -> 0 <= x -> protectDictEnd prefixIdx x = false -> 0 <= prefixIdx < ip).
      { intros x Hx Hx0 Hp. pose proof (protect_false x ltac:(unfold M32 in *; lia) ltac:(unfold M32 in *; lia) Hp) as Hr.
        destruct (Z_lt_le_dec mci prefixIdx) as [Hlt|Hge]; [specialize (Hpe Hlt); lia | lia]. }
      destruct ((bl + fwd >=? spl) && (fwd <=? spl)) eqn:EA.
      - (* the source pattern fits in the segment: jump to its best position *)
        apply andb_true_iff in EA. destruct EA as [EA1 EA2].
        rewrite (u32_id (mci + fwd)) by (unfold M32 in *; lia).
        rewrite (u32_id (mci + fwd - spl)) by (unfold M32 in *; lia).
        destruct (protectDictEnd prefixIdx (mci + fwd - spl)) eqn:Ep2; cbn [step_ok].
        + apply Hset. lia.
        + apply Hset. apply (Hpf (mci + fwd - spl)); [lia | lia | exact Ep2].
      - rewrite (u32_id (mci - bl)) by (unfold M32 in *; lia).
        destruct (protectDictEnd prefixIdx (mci - bl)) eqn:Ep2; cbn [negb].
        2:{ cbn [step_ok]. apply Hset. apply (Hpf (mci - bl)); [lia | lia | exact Ep2]. }
        destruct (w_lookBack ip iLow =? 0) eqn:Elb.
        2:{ cbn [step_ok]. apply Hset. lia. }
        assert (Hil : iLow = ip) by (unfold w_lookBack in Elb; lia).
        assert (Hsb : w_sback s = 0) by (apply I5; exact Hil).
        assert (Hnext : forall s2, WInv s2 -> w_mi s2 = mci - bl ->
                  match (if delta_next ct (mci - bl) >? mci - bl then @inl wstep wst (WBreak s2)
                         else inl (WCont (mkW (u32 (mci - bl - delta_next ct (mci - bl))) (w_longest s2) (w_off s2) (w_sback s2) (w_mcp s2) rep spl)))
                  with inl r => step_ok r | inr s' => WInv s' /\ w_mi s' = w_mi s /\ w_mcp s' = w_mcp s end).
        { intros s2 H2 Hm2. pose proof (delta_next_range ct (mci - bl) Hct) as Hd.
          destruct (delta_next ct (mci - bl) >? mci - bl) eqn:Ed; cbv beta iota; cbn [step_ok]; [exact H2|].
          rewrite u32_id by (unfold M32 in *; lia).
          destruct H2 as (J1 & J2 & J3 & J4 & J5 & J6). unfold WInv, wvalid in *.
          cbn [w_mi w_mcp w_longest w_off w_sback w_rep w_spl].
          split; [lia|]. split; [exact J2|]. split; [exact J3|]. split; [exact J4|]. split; [exact J5 | exact HR]. }
        destruct (w_longest s <? Z.min (bl + fwd) spl) eqn:Elt.
        2:{ cbv beta iota zeta. apply (Hnext (mkW (mci - bl) (w_longest s) (w_off s) (w_sback s) (w_mcp s) rep spl)); [apply Hset; lia | reflexivity]. }
        destruct ((ip - prefixIdx + prefixIdx - (mci - bl)) mod M64 >? LZ4_DISTANCE_MAX) eqn:Ed.
        { cbn [step_ok]. apply Hset. lia. }
        rewrite Z.mod_small in Ed by (unfold M64, M32 in *; lia). unfold LZ4_DISTANCE_MAX in Ed.
        cbv beta iota zeta.
        apply (Hnext (mkW (mci - bl) (Z.min (bl + fwd) spl) (s32 (ipIndex - (mci - bl))) (w_sback s) (w_mcp s) rep spl)); [|reflexivity].
        rewrite ipIndex_id. rewrite s32_id by lia.
        unfold WInv. cbn [w_mi w_mcp w_longest w_off w_sback w_rep w_spl].
        split; [lia|]. split; [exact I2|]. split; [lia|]. split; [|split; [exact I5 | exact HR]].
        intros _. unfold wvalid. cbn [w_longest w_off w_sback]. rewrite Hsb.
        split; [|lia].
        split; [lia|]. split; [lia|]. split; [lia|].
        intros i Hi. replace (ip + 0 + i) with (ip + i) by lia. rewrite Hsp by lia.
        replace (ip + i - (ip - (mci - bl))) with (mci - bl + i) by lia.
        destruct (Z_lt_le_dec i bl) as [Hlt|Hge].
        + replace (mci - bl + i) with (mci - (bl - i)) by lia. symmetry. apply K3. lia.
        + replace (mci - bl + i) with (mci + (i - bl)) by lia. symmetry. apply F3. lia.
    Qed.

    Lemma follow_chain_inv s : WInv s -> lowest <= w_mi s ->
      step_ok (follow_chain vrd prefixIdx dictIdx ct ip iLow iHigh pa s).
    Proof.
      intros HI Hlow. pose proof lowest_spec as (L1 & L2 & L3 & L4).
      unfold follow_chain. cbv zeta.
      assert (Hstep : forall s', WInv s' -> w_mi s' = w_mi s ->
                step_ok (WCont (mkW (u32 (w_mi s' - delta_next ct (u32 (w_mi s' + w_mcp s'))))
                                    (w_longest s') (w_off s') (w_sback s') (w_mcp s') (w_rep s') (w_spl s')))).
      { intros s' H' Hm. cbn [step_ok]. pose proof H' as (J1 & J2 & _).
        pose proof (delta_next_range ct (u32 (w_mi s' + w_mcp s')) Hct) as Hd.
        rewrite u32_id by (unfold M32 in *; lia).
        apply WInv_set_mi; [exact H' | lia]. }
      destruct (pa && (delta_next ct (w_mi s) =? 1) && (w_mcp s =? 0)).
      - pose proof (pa_block_inv s HI Hlow) as HP.
        destruct (pa_block vrd prefixIdx dictIdx ct ip iLow iHigh s) as [r|s']; [exact HP|].
        destruct HP as (A & B & C). apply Hstep; assumption.
      - apply Hstep; [exact HI | reflexivity].
    Qed.

    (* the chainSwap block: the `for` loop ends within its fuel, and only moves to a lower index *)
    Lemma swap_loop_some : forall fuel mi pos endp accel dist mcp,
      16 <= accel -> endp - pos < Z.of_nat fuel -> (0 < Z.of_nat fuel) ->
      exists d m, swap_loop ct fuel mi pos endp accel dist mcp = Some (d, m).
    Proof.
      induction fuel as [|f IH]; intros mi pos endp accel dist mcp Ha Hf Hf0; [lia|].
      cbn [swap_loop]. cbv zeta. destruct (pos <? endp) eqn:E; [|exists dist, mcp; reflexivity].
      assert (Hstep : 1 <= accel / 2 ^ 4) by (change (2 ^ 4) with 16; Z.div_mod_to_equations; lia).
      destruct (delta_next ct (u32 (mi + u32 pos)) >? dist).
      - apply IH; [change (2 ^ 4) with 16; lia | lia | lia].
      - apply IH; [lia | lia | lia].
    Qed.

    Lemma swap_block_inv s : WInv s -> lowest <= w_mi s ->
      match swap_block prefixIdx ct ip s with
      | None => False
      | Some (inl r) => step_ok r
      | Some (inr s') => WInv s' /\ w_mi s' = w_mi s
      end.
    Proof.
      intros HI Hlow. pose proof HI as (I1 & _). unfold swap_block. cbv zeta.
      destruct (u32 (w_mi s + u32 (w_longest s)) <=? ipIndex); [|split; [exact HI | reflexivity]].
      destruct (swap_loop_some (S (Z.to_nat (w_longest s - MINMATCH + 1))) (w_mi s) 0 (w_longest s - MINMATCH + 1) (2 ^ 4) 1 (w_mcp s)
                  ltac:(change (2 ^ 4) with 16; lia) ltac:(lia) ltac:(lia)) as (d & m & Hs).
      rewrite Hs.
      destruct (d >? 1) eqn:E1.
      - destruct (d >? w_mi s) eqn:E2; cbn [step_ok].
        + apply WInv_set_mi_mcp; [exact HI | exact I1].
        + rewrite u32_id by (unfold M32 in *; lia). apply WInv_set_mi_mcp; [exact HI | lia].
      - split; [apply WInv_set_mi_mcp; [exact HI | exact I1] | reflexivity].
    Qed.

    Lemma wider_body_inv s : WInv s -> lowest <= w_mi s ->
      step_ok (wider_body vrd prefixIdx dictIdx ct ip iLow iHigh pa swap fav s).
    Proof.
      intros HI Hlow. unfold wider_body. cbv zeta.
      assert (Hafter : forall ml s', WInv s' -> w_mi s' = w_mi s ->
                step_ok match (if swap && (ml =? w_longest s') then swap_block prefixIdx ct ip s' else Some (inr s')) with
                        | None => WUndef
                        | Some (inl r) => r
                        | Some (inr s'') => follow_chain vrd prefixIdx dictIdx ct ip iLow iHigh pa s''
                        end).
      { intros ml s' A B.
        destruct (swap && (ml =? w_longest s')).
        - pose proof (swap_block_inv s' A ltac:(lia)) as HS.
          destruct (swap_block prefixIdx ct ip s') as [[r|s'']|]; [exact HS | | contradiction].
          destruct HS as (S1 & S2). apply follow_chain_inv; [exact S1 | lia].
        - apply follow_chain_inv; [exact A | lia]. }
      destruct (fav && (u32 (ipIndex - w_mi s) <? 8)); [apply Hafter; [exact HI | reflexivity]|].
      destruct (w_mi s >=? prefixIdx) eqn:E.
      - pose proof (cand_prefix_inv s HI Hlow ltac:(lia)) as H. cbv zeta in H.
        destruct (cand_prefix vrd prefixIdx ip iLow iHigh s) as [ml s']. cbn [snd] in H. destruct H as (A & B & C).
        apply Hafter; assumption.
      - pose proof (cand_ext_inv s HI Hlow ltac:(lia)) as H. cbv zeta in H.
        destruct (cand_ext vrd prefixIdx dictIdx ip iLow iHigh s) as [ml s']. cbn [snd] in H. destruct H as (A & B & C).
        apply Hafter; assumption.
    Qed.

    Lemma wider_loop_inv : forall nb s, WInv s ->
      exists s', wider_loop vrd prefixIdx dictIdx ct ip iLow iHigh pa swap fav nb s = Some s' /\ WInv s'.
    Proof.
      induction nb as [|n IH]; intros s HI; cbn [wider_loop].
      - exists s. split; [reflexivity | exact HI].
      - destruct (w_mi s >=? lowest) eqn:E; [|exists s; split; [reflexivity | exact HI]].
        pose proof (wider_body_inv s HI ltac:(lia)) as Hw.
        destruct (wider_body vrd prefixIdx dictIdx ct ip iLow iHigh pa swap fav s) as [s'|s'|]; cbn [step_ok] in Hw.
        + apply IH. exact Hw.
        + exists s'. split; [reflexivity | exact Hw].
        + contradiction.
    Qed.
  End WiderProof.

  (* a match returned for position q with look-back limit iLow *)
  Definition mvalid (iLow iHigh q : Z) (m : hmatch) : Prop :=
    match_ok vrd lo (q + hm_back m) (hm_off m) (hm_len m) /\
    iLow <= q + hm_back m /\ hm_back m <= 0 /\
    q + hm_back m + hm_len m <= iHigh /\ q + 4 <= q + hm_back m + hm_len m.

  (* LZ4HC_InsertAndGetWiderMatch (noDictCtx; patternAnalysis, chainSwap, favorDecSpeed on or off): never out of
     fuel; the tables keep their invariant; a result longer than [longest] is a valid match ending at least 4
     bytes beyond q *)
  Theorem wider_sound_gen t B q iLow iHigh longest0 nb pa swap fav :
    TB t B -> B <= q -> prefixIdx <= iLow -> iLow <= q -> q + 4 <= iHigh -> iHigh < M32 - 65536 ->
    exists m t', insertAndGetWiderMatch vrd prefixIdx dictIdx t q iLow iHigh longest0 nb pa swap fav = Some (m, t') /\
      TB t' q /\ t_ntu t' = q /\ longest0 <= hm_len m /\ (longest0 < hm_len m -> mvalid iLow iHigh q m).
  Proof.
    intros HT HB H1 H2 H3 H4. unfold insertAndGetWiderMatch. cbv zeta.
    pose proof (insert_inv t q B HT ltac:(unfold M32 in *; lia) HB) as (HT1 & Hn).
    set (t1 := insert vrd prefixIdx t q) in *.
    pose proof HT1 as (T1 & T2 & T3).
    set (s0 := mkW (get (t_hash t1) (hashPtr vrd q)) longest0 0 0 0 rep_untested 0).
    assert (HI0 : WInv q iLow iHigh longest0 s0).
    { unfold WInv. subst s0. cbn [w_mi w_mcp w_longest w_off w_sback w_rep w_spl].
      split; [apply T1|]. split; [exact I|]. split; [lia|]. split; [intros; lia|]. split; [reflexivity|].
      intros H; discriminate H. }
    destruct (wider_loop_inv (t_chain t1) q iLow iHigh longest0 pa swap fav T2 ltac:(lia) (Z.to_nat nb) s0 HI0) as (s' & Hs' & HI').
    rewrite Hs'. exists (mkHM (w_off s') (w_longest s') (w_sback s')), t1.
    split; [reflexivity|]. split; [exact HT1|]. split; [exact Hn|].
    destruct HI' as (J1 & J2 & J3 & J4 & J5 & J6). cbn [hm_len hm_off hm_back].
    split; [exact J3|]. intros Hl. exact (J4 Hl).
  Qed.

  (* the configuration of LZ4HC_compress_hashChain *)
  Theorem wider_sound t B q iLow iHigh longest0 nb pa :
    TB t B -> B <= q -> prefixIdx <= iLow -> iLow <= q -> q + 4 <= iHigh -> iHigh < M32 - 65536 -> 3 <= longest0 ->
    exists m t', insertAndGetWiderMatch vrd prefixIdx dictIdx t q iLow iHigh longest0 nb pa false false = Some (m, t') /\
      TB t' q /\ t_ntu t' = q /\ longest0 <= hm_len m /\ (longest0 < hm_len m -> mvalid iLow iHigh q m).
  Proof. intros. apply (wider_sound_gen t B); assumption. Qed.
End Search.

Print Assumptions wider_sound_gen.
Print Assumptions wider_sound.
