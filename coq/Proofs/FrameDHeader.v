(* C08, header part: LZ4F_decodeHeader (model) accepts exactly the frame descriptors that
   Spec.FrameSpec.parse_desc accepts, with the same decoded fields; LZ4F_headerSize is the
   size parse_desc consumes.  The FLG/BD logic is compared exhaustively (65536 pairs,
   vm_compute) and lifted; sizes, optional fields and the checksum byte are generic. *)
From Coq Require Import ZArith List Lia Bool.
From LZ4V Require Import Spec.BlockSpec Spec.XXH32 Spec.FrameSpec Gen.Consts Model.FrameD.
Import ListNotations.
Local Open Scope Z_scope.

Local Opaque xxh32.

(* ---- the flag logic of the specification, factored out of parse_desc ---- *)
Definition spec_flags (flg bd : Z) : option (Z * Z * Z * Z * Z * Z) :=
  let version := (flg / 64) mod 4 in
  let indep := (flg / 32) mod 2 in
  let bcrc := (flg / 16) mod 2 in
  let csz := (flg / 8) mod 2 in
  let ccrc := (flg / 4) mod 2 in
  let resv := (flg / 2) mod 2 in
  let did := flg mod 2 in
  let bsid := (bd / 16) mod 8 in
  if negb (version =? 1) then None
  else if negb (resv =? 0) then None
  else if negb ((bd / 128) =? 0) then None
  else if negb ((bd mod 16) =? 0) then None
  else match bsid_size bsid with
       | None => None
       | Some _ => Some (indep, bcrc, csz, ccrc, did, bsid)
       end.

Lemma parse_desc_factor flg bd r :
  parse_desc (flg :: bd :: r) =
  match spec_flags flg bd with
  | None => None
  | Some (indep, bcrc, csz, ccrc, did, bsid) =>
    match take (if csz =? 1 then 8%nat else 0%nat) r with
    | None => None
    | Some (cs, r1) =>
      match take (if did =? 1 then 4%nat else 0%nat) r1 with
      | None => None
      | Some (di, r2) =>
        match r2 with
        | [] => None
        | hc :: r3 =>
          if hc =? header_checksum (flg :: bd :: cs ++ di) then
            Some (mkDesc (indep =? 1) (bcrc =? 1) (if csz =? 1 then Some (le_val cs) else None) (ccrc =? 1)
                         (if did =? 1 then Some (le_val di) else None) bsid, r3)
          else None
        end
      end
    end
  end.
Proof.
  unfold parse_desc, spec_flags.
  destruct (negb ((flg / 64) mod 4 =? 1)); [reflexivity|].
  destruct (negb ((flg / 2) mod 2 =? 0)); [reflexivity|].
  destruct (negb (bd / 128 =? 0)); [reflexivity|].
  destruct (negb (bd mod 16 =? 0)); [reflexivity|].
  destruct (bsid_size ((bd / 16) mod 8)); reflexivity.
Qed.

(* ---- the flag logic of the model ---- *)
Definition model_flags (flg bd : Z) : option (Z * Z * Z * Z * Z * Z) :=
  match flg_decode flg, bd_decode bd with
  | inr (bm, bc, cs, cc, di), inr id => Some (bm, bc, cs, cc, di, id)
  | _, _ => None
  end.

Definition tup_eqb (a b : option (Z * Z * Z * Z * Z * Z)) : bool :=
  match a, b with
  | None, None => true
  | Some (a1, a2, a3, a4, a5, a6), Some (b1, b2, b3, b4, b5, b6) =>
    (a1 =? b1) && (a2 =? b2) && (a3 =? b3) && (a4 =? b4) && (a5 =? b5) && (a6 =? b6)
  | _, _ => false
  end.
Lemma tup_eqb_eq a b : tup_eqb a b = true -> a = b.
Proof.
  destruct a as [[[[[[a1 a2] a3] a4] a5] a6]|], b as [[[[[[b1 b2] b3] b4] b5] b6]|]; simpl; try discriminate; auto.
  intro H. repeat (apply andb_prop in H; destruct H as [H ?]).
  repeat match goal with E : (_ =? _) = true |- _ => apply Z.eqb_eq in E end. subst. reflexivity.
Qed.

Definition zrange (n : nat) : list Z := map Z.of_nat (List.seq 0%nat n).
Lemma zrange_in n x : 0 <= x < Z.of_nat n -> In x (zrange n).
Proof.
  intro H. unfold zrange. apply in_map_iff. exists (Z.to_nat x). split; [lia|].
  apply in_seq. lia.
Qed.

(* all 65536 (FLG, BD) pairs *)
Lemma flags_all :
  forallb (fun f => forallb (fun b => tup_eqb (model_flags f b) (spec_flags f b)) (zrange 256)) (zrange 256) = true.
Proof. vm_compute. reflexivity. Qed.

Lemma flags_equiv f b : 0 <= f < 256 -> 0 <= b < 256 -> model_flags f b = spec_flags f b.
Proof.
  intros Hf Hb. pose proof flags_all as H.
  rewrite forallb_forall in H. specialize (H f (zrange_in 256 f Hf)).
  rewrite forallb_forall in H. specialize (H b (zrange_in 256 b Hb)).
  apply tup_eqb_eq. exact H.
Qed.

Lemma flg_decode_err f e : flg_decode f = inl e -> e < 0.
Proof.
  unfold flg_decode.
  destruct (negb _); [intro H; inversion H; vm_compute; reflexivity|].
  destruct (negb _); [intro H; inversion H; vm_compute; reflexivity|]. discriminate.
Qed.
Lemma bd_decode_err b e : bd_decode b = inl e -> e < 0.
Proof.
  unfold bd_decode.
  destruct (negb _); [intro H; inversion H; vm_compute; reflexivity|].
  destruct (_ <? _); [intro H; inversion H; vm_compute; reflexivity|].
  destruct (negb _); [intro H; inversion H; vm_compute; reflexivity|]. discriminate.
Qed.

Lemma hc_eq bs : headerChecksum bs = header_checksum bs.
Proof.
  unfold headerChecksum, header_checksum.
  rewrite Z.shiftr_div_pow2 by lia. change 255 with (Z.ones 8). rewrite Z.land_ones by lia. reflexivity.
Qed.

Lemma spec_flags_range f b i bc cs cc di id :
  spec_flags f b = Some (i, bc, cs, cc, di, id) ->
  (i = 0 \/ i = 1) /\ (bc = 0 \/ bc = 1) /\ (cs = 0 \/ cs = 1) /\ (cc = 0 \/ cc = 1) /\ (di = 0 \/ di = 1) /\ 4 <= id <= 7.
Proof.
  unfold spec_flags.
  destruct (negb _); [discriminate|]. destruct (negb _); [discriminate|].
  destruct (negb _); [discriminate|]. destruct (negb _); [discriminate|].
  destruct (bsid_size _) eqn:E; [|discriminate]. intro H; inversion H; subst; clear H.
  assert (A : forall x, x mod 2 = 0 \/ x mod 2 = 1) by (intro x; pose proof (Z.mod_pos_bound x 2); lia).
  assert (B : 4 <= (b / 16) mod 8 <= 7).
  { unfold bsid_size in E.
    destruct (_ =? 4) eqn:E4; [lia|]. destruct (_ =? 5) eqn:E5; [lia|].
    destruct (_ =? 6) eqn:E6; [lia|]. destruct (_ =? 7) eqn:E7; [lia|discriminate]. }
  repeat split; auto; lia.
Qed.

(* ---- what an accepted descriptor leaves in the context ---- *)
Definition fi_of_desc (d : fdesc) : finfo :=
  mkFI (f_bsid d) (b2z (f_indep d)) (b2z (f_ccrc d)) FD_frame
       (match f_csize d with Some n => n | None => 0 end)
       (match f_dictid d with Some n => n | None => 0 end) (b2z (f_bcrc d)).
Definition accept_state (s : dstate) (d : fdesc) : dstate :=
  let s1 := set_maxBlock (set_fi s (fi_of_desc d)) (blockSize_of_id (f_bsid d)) in
  let s2 := match f_csize d with Some n => set_remaining s1 n | None => s1 end in
  set_stage s2 Init.

Lemma b2z_eqb x : x = 0 \/ x = 1 -> b2z (x =? 1) = x.
Proof. intros [->| ->]; reflexivity. Qed.


Lemma byte_range b : byte_ok b = true -> 0 <= b < 256.
Proof. unfold byte_ok. intro H. apply andb_prop in H. lia. Qed.

Lemma le_val4_small (a b c d : byte) :
  (0 <= a < 256) /\ (0 <= b < 256) /\ (0 <= c < 256) /\ (0 <= d < 256) -> u32 (le_val [a; b; c; d]) = le_val [a; b; c; d].
Proof. intros H. unfold u32, M32. apply Z.mod_small. cbn [le_val]. lia. Qed.
Lemma le_val8_small (a b c d e f g h : byte) :
  (0 <= a < 256) /\ (0 <= b < 256) /\ (0 <= c < 256) /\ (0 <= d < 256) /\
  (0 <= e < 256) /\ (0 <= f < 256) /\ (0 <= g < 256) /\ (0 <= h < 256) ->
  u64 (le_val [a; b; c; d; e; f; g; h]) = le_val [a; b; c; d; e; f; g; h].
Proof. intros H. unfold u64. apply Z.mod_small. cbn [le_val]. lia. Qed.
(* split a [byte_ok a && (byte_ok b && ...)] hypothesis into ranges *)
Ltac bytes_tac H :=
  unfold bytes_ok in H; cbn [forallb] in H;
  repeat (apply andb_prop in H; let H1 := fresh in destruct H as [H1 H]; apply byte_range in H1);
  lia.

Ltac kill_take r :=
  destruct r as [|? r]; [ try (simpl; intros; (left; vm_compute; reflexivity) || (right; split; [reflexivity|cbn; lia]));
                          try discriminate | ].

(* The header theorem.  [src] starts with the LZ4 frame magic number; [rest] is what follows
   the magic.  At least minFHSize bytes are present (the C code never calls decodeHeader
   with fewer without returning frameHeader_incomplete). *)
Theorem decodeHeader_iff : forall s fromH m0 m1 m2 m3 rest,
  bytes_ok rest = true ->
  le_val [m0; m1; m2; m3] = FD_MAGICNUMBER ->
  FD_minFHSize <= zlen (m0 :: m1 :: m2 :: m3 :: rest) ->
  match parse_desc rest with
  | Some (d, tl) =>
      decodeHeader s fromH (m0 :: m1 :: m2 :: m3 :: rest)
      = (accept_state s d, zlen (m0 :: m1 :: m2 :: m3 :: rest) - zlen tl)
      /\ bsid_size (f_bsid d) = Some (blockSize_of_id (f_bsid d))
  | None =>
      let '(s', r) := decodeHeader s fromH (m0 :: m1 :: m2 :: m3 :: rest) in
      r < 0 \/ (d_stage s' = StoreFrameHeader /\ zlen (m0 :: m1 :: m2 :: m3 :: rest) < d_tmpInTarget s')
  end.
Proof.
  intros s fromH m0 m1 m2 m3 rest Hb Hm Hlen.
  destruct rest as [|flg [|bd r]];
    try (unfold zlen, FD_minFHSize in Hlen; simpl length in Hlen; lia).
  simpl in Hb. apply andb_prop in Hb. destruct Hb as [Hf Hb]. apply andb_prop in Hb. destruct Hb as [Hbd Hr].
  change (forallb byte_ok r = true) with (bytes_ok r = true) in Hr.
  apply byte_range in Hf. apply byte_range in Hbd.
  rewrite parse_desc_factor.
  pose proof (flags_equiv flg bd Hf Hbd) as FE.
  unfold decodeHeader.
  replace (zlen (m0 :: m1 :: m2 :: m3 :: flg :: bd :: r) <? FD_minFHSize) with false
    by (symmetry; apply Z.ltb_ge; exact Hlen).
  replace (rd32 (m0 :: m1 :: m2 :: m3 :: flg :: bd :: r)) with FD_MAGICNUMBER
    by (change (rd32 (m0 :: m1 :: m2 :: m3 :: flg :: bd :: r)) with (u32 (le_val [m0; m1; m2; m3])); rewrite Hm; reflexivity).
  replace (Z.land FD_MAGICNUMBER SKIP_MASK =? FD_MAGIC_SKIPPABLE_START) with false by (vm_compute; reflexivity).
  replace (negb (FD_MAGICNUMBER =? FD_MAGICNUMBER)) with false by (vm_compute; reflexivity).
  change (nth_error (m0 :: m1 :: m2 :: m3 :: flg :: bd :: r) 4) with (Some flg).
  change (nth_error (m0 :: m1 :: m2 :: m3 :: flg :: bd :: r) 5) with (Some bd).
  unfold model_flags in FE. cbv iota beta.
  destruct (flg_decode flg) as [e|[[[[bm bc] cs] cc] di]] eqn:EF.
  { rewrite <- FE. cbv iota beta. left. eapply flg_decode_err; eauto. }
  destruct (bd_decode bd) as [e|id] eqn:EB.
  { rewrite <- FE. cbv iota beta.
    destruct (_ <? _) eqn:EL; [right; split; [reflexivity|cbn; apply Z.ltb_lt in EL; exact EL]|]. left. eapply bd_decode_err; eauto. }
  rewrite <- FE. cbv iota beta.
  pose proof (spec_flags_range flg bd bm bc cs cc di id (eq_sym FE)) as (Hbm & Hbc & Hcs & Hcc & Hdi & Hid).
  assert (Hbs : bsid_size id = Some (blockSize_of_id id)).
  { assert (Hc : id = 4 \/ id = 5 \/ id = 6 \/ id = 7) by lia.
    destruct Hc as [->|[->|[->| ->]]]; reflexivity. }
  unfold fh_size, FD_minFHSize, zlen.
  destruct Hcs as [-> | ->]; destruct Hdi as [-> | ->];
    change (0 =? 0) with true; change (1 =? 0) with false; change (1 =? 1) with true; change (0 =? 1) with false;
    cbv iota.
  - (* no content size, no dictID: 7 bytes *)
    change (take 0 r) with (Some (@nil byte, r)). cbv iota. change (take 0 r) with (Some (@nil byte, r)). cbv iota.
    destruct r as [|hc r3].
    { simpl length. right. split; [reflexivity|cbn; lia]. }
    replace (Z.of_nat (length (m0 :: m1 :: m2 :: m3 :: flg :: bd :: hc :: r3)) <? 7 + 0 + 0) with false
      by (symmetry; apply Z.ltb_ge; simpl length; lia).
    change (nth_error (m0 :: m1 :: m2 :: m3 :: flg :: bd :: hc :: r3) (Z.to_nat (7 + 0 + 0 - 1))) with (Some hc).
    change (ztake (7 + 0 + 0 - 5) (zdrop 4 (m0 :: m1 :: m2 :: m3 :: flg :: bd :: hc :: r3))) with [flg; bd].
    rewrite hc_eq. change ([flg; bd] ++ []) with [flg; bd] in *.
    change (flg :: bd :: [] ++ []) with [flg; bd].
    rewrite (Z.eqb_sym hc).
    destruct (header_checksum [flg; bd] =? hc) eqn:EH; cbv iota; simpl negb; cbv iota.
    2:{ left. vm_compute. reflexivity. }
    split; [|exact Hbs].
    unfold accept_state, fi_of_desc. simpl f_bsid. simpl f_indep. simpl f_ccrc. simpl f_bcrc. simpl f_csize. simpl f_dictid.
    rewrite !b2z_eqb by assumption. cbv iota.
    f_equal. simpl length. lia.
  - (* dictID only: 11 bytes *)
    change (take 0 r) with (Some (@nil byte, r)). cbv iota.
    do 4 (destruct r as [|? r]; [simpl length; right; split; [reflexivity|cbn; lia]|]).
    destruct r as [|hc r3]; [simpl length; right; split; [reflexivity|cbn; lia]|].
    simpl take. cbv iota.
    match goal with |- context [Z.of_nat (length ?l) <? 7 + 0 + 4] =>
      replace (Z.of_nat (length l) <? 7 + 0 + 4) with false by (symmetry; apply Z.ltb_ge; simpl length; lia) end.
    match goal with |- context [nth_error ?l (Z.to_nat (7 + 0 + 4 - 1))] =>
      change (nth_error l (Z.to_nat (7 + 0 + 4 - 1))) with (Some hc) end.
    match goal with |- context [ztake (7 + 0 + 4 - 5) (zdrop 4 ?l)] =>
      change (ztake (7 + 0 + 4 - 5) (zdrop 4 l)) with [flg; bd; b; b0; b1; b2] end.
    rewrite hc_eq. change (flg :: bd :: [] ++ [b; b0; b1; b2]) with [flg; bd; b; b0; b1; b2].
    rewrite (Z.eqb_sym hc).
    destruct (header_checksum [flg; bd; b; b0; b1; b2] =? hc) eqn:EH; cbv iota; simpl negb; cbv iota.
    2:{ left. vm_compute. reflexivity. }
    split; [|exact Hbs].
    unfold accept_state, fi_of_desc. simpl f_bsid. simpl f_indep. simpl f_ccrc. simpl f_bcrc. simpl f_csize. simpl f_dictid.
    rewrite !b2z_eqb by assumption. cbv iota.
    match goal with |- context [rd32 (zdrop (7 + 0 + 4 - 5) ?l)] =>
      change (rd32 (zdrop (7 + 0 + 4 - 5) l)) with (u32 (le_val [b; b0; b1; b2])) end.
    rewrite (le_val4_small b b0 b1 b2) by (bytes_tac Hr).
    f_equal. simpl length. lia.
  - (* content size only: 15 bytes *)
    do 8 (destruct r as [|? r]; [simpl length; right; split; [reflexivity|cbn; lia]|]).
    destruct r as [|hc r3]; [simpl length; right; split; [reflexivity|cbn; lia]|].
    simpl take. cbv iota.
    match goal with |- context [Z.of_nat (length ?l) <? 7 + 8 + 0] =>
      replace (Z.of_nat (length l) <? 7 + 8 + 0) with false by (symmetry; apply Z.ltb_ge; simpl length; lia) end.
    match goal with |- context [nth_error ?l (Z.to_nat (7 + 8 + 0 - 1))] =>
      change (nth_error l (Z.to_nat (7 + 8 + 0 - 1))) with (Some hc) end.
    match goal with |- context [ztake (7 + 8 + 0 - 5) (zdrop 4 ?l)] =>
      change (ztake (7 + 8 + 0 - 5) (zdrop 4 l)) with [flg; bd; b; b0; b1; b2; b3; b4; b5; b6] end.
    rewrite hc_eq. change (flg :: bd :: [b; b0; b1; b2; b3; b4; b5; b6] ++ []) with [flg; bd; b; b0; b1; b2; b3; b4; b5; b6].
    rewrite (Z.eqb_sym hc).
    destruct (header_checksum [flg; bd; b; b0; b1; b2; b3; b4; b5; b6] =? hc) eqn:EH; cbv iota; simpl negb; cbv iota.
    2:{ left. vm_compute. reflexivity. }
    split; [|exact Hbs].
    unfold accept_state, fi_of_desc. simpl f_bsid. simpl f_indep. simpl f_ccrc. simpl f_bcrc. simpl f_csize. simpl f_dictid.
    rewrite !b2z_eqb by assumption. cbv iota.
    match goal with |- context [rd64 (zdrop 6 ?l)] =>
      change (rd64 (zdrop 6 l)) with (u64 (le_val [b; b0; b1; b2; b3; b4; b5; b6])) end.
    rewrite (le_val8_small b b0 b1 b2 b3 b4 b5 b6) by (bytes_tac Hr).
    f_equal. simpl length. lia.
  - (* both: 19 bytes *)
    do 12 (destruct r as [|? r]; [simpl length; right; split; [reflexivity|cbn; lia]|]).
    destruct r as [|hc r3]; [simpl length; right; split; [reflexivity|cbn; lia]|].
    simpl take. cbv iota.
    match goal with |- context [Z.of_nat (length ?l) <? 7 + 8 + 4] =>
      replace (Z.of_nat (length l) <? 7 + 8 + 4) with false by (symmetry; apply Z.ltb_ge; simpl length; lia) end.
    match goal with |- context [nth_error ?l (Z.to_nat (7 + 8 + 4 - 1))] =>
      change (nth_error l (Z.to_nat (7 + 8 + 4 - 1))) with (Some hc) end.
    match goal with |- context [ztake (7 + 8 + 4 - 5) (zdrop 4 ?l)] =>
      change (ztake (7 + 8 + 4 - 5) (zdrop 4 l)) with [flg; bd; b; b0; b1; b2; b3; b4; b5; b6; b7; b8; b9; b10] end.
    rewrite hc_eq.
    change (flg :: bd :: [b; b0; b1; b2; b3; b4; b5; b6] ++ [b7; b8; b9; b10]) with [flg; bd; b; b0; b1; b2; b3; b4; b5; b6; b7; b8; b9; b10].
    rewrite (Z.eqb_sym hc).
    destruct (header_checksum [flg; bd; b; b0; b1; b2; b3; b4; b5; b6; b7; b8; b9; b10] =? hc) eqn:EH; cbv iota; simpl negb; cbv iota.
    2:{ left. vm_compute. reflexivity. }
    split; [|exact Hbs].
    unfold accept_state, fi_of_desc. simpl f_bsid. simpl f_indep. simpl f_ccrc. simpl f_bcrc. simpl f_csize. simpl f_dictid.
    rewrite !b2z_eqb by assumption. cbv iota.
    match goal with |- context [rd64 (zdrop 6 ?l)] =>
      change (rd64 (zdrop 6 l)) with (u64 (le_val [b; b0; b1; b2; b3; b4; b5; b6])) end.
    match goal with |- context [rd32 (zdrop (7 + 8 + 4 - 5) ?l)] =>
      change (rd32 (zdrop (7 + 8 + 4 - 5) l)) with (u32 (le_val [b7; b8; b9; b10])) end.
    rewrite (le_val8_small b b0 b1 b2 b3 b4 b5 b6) by (bytes_tac Hr).
    rewrite (le_val4_small b7 b8 b9 b10) by (bytes_tac Hr).
    f_equal. simpl length. lia.
Qed.

(* ---- LZ4F_headerSize ---- *)
Lemma decodeHeader_ret_size s b src s' r :
  decodeHeader s b src = (s', r) -> d_stage s' = Init ->
  r = headerSize false src \/ d_stage s = Init.
Proof.
  unfold decodeHeader, headerSize. intros H Hst.
  destruct (zlen src <? FD_minFHSize) eqn:E7.
  { inversion H; subst. right. exact Hst. }
  replace (zlen src <? FD_MIN_SIZE_TO_KNOW_HEADER_LENGTH) with false
    by (symmetry; apply Z.ltb_ge; apply Z.ltb_ge in E7; unfold FD_minFHSize, FD_MIN_SIZE_TO_KNOW_HEADER_LENGTH in *; lia).
  cbv iota.
  destruct (Z.land (rd32 src) SKIP_MASK =? FD_MAGIC_SKIPPABLE_START).
  { destruct b; inversion H; subst; (cbn in Hst; discriminate Hst). }
  destruct (negb (rd32 src =? FD_MAGICNUMBER)).
  { inversion H; subst. right. exact Hst. }
  destruct (nth_error src 4) as [FLG|]; [|inversion H; subst; right; exact Hst].
  destruct (nth_error src 5) as [BD|]; [|inversion H; subst; right; exact Hst].
  unfold flg_decode in H.
  destruct (negb (Z.land (Z.shiftr FLG 1) 1 =? 0)); [inversion H; subst; right; exact Hst|].
  destruct (negb (Z.land (Z.shiftr FLG 6) 3 =? 1)); [inversion H; subst; right; exact Hst|].
  destruct (zlen src <? fh_size _ _).
  { inversion H; subst. (cbn in Hst; discriminate Hst). }
  destruct (bd_decode BD); [inversion H; subst; right; exact Hst|].
  destruct (nth_error src _); [|inversion H; subst; right; exact Hst].
  destruct (negb _); [inversion H; subst; right; exact Hst|].
  inversion H; subst. left. reflexivity.
Qed.

Theorem headerSize_spec : forall m0 m1 m2 m3 rest d tl,
  bytes_ok rest = true ->
  le_val [m0; m1; m2; m3] = FD_MAGICNUMBER ->
  parse_desc rest = Some (d, tl) ->
  headerSize false (m0 :: m1 :: m2 :: m3 :: rest) = zlen (m0 :: m1 :: m2 :: m3 :: rest) - zlen tl.
Proof.
  intros m0 m1 m2 m3 rest d tl Hb Hm Hp.
  assert (Hlen : FD_minFHSize <= zlen (m0 :: m1 :: m2 :: m3 :: rest)).
  { destruct rest as [|f [|b [|c r]]]; try discriminate Hp.
    - unfold parse_desc in Hp. simpl in Hp.
      repeat (match type of Hp with (if ?c then _ else _) = _ => destruct c; try discriminate Hp end).
      destruct ((f / 8) mod 2 =? 1); simpl in Hp; try discriminate Hp.
      destruct (f mod 2 =? 1); simpl in Hp; discriminate Hp.
    - unfold zlen, FD_minFHSize. simpl length. lia. }
  pose proof (decodeHeader_iff dctx_init false m0 m1 m2 m3 rest Hb Hm Hlen) as H.
  rewrite Hp in H. destruct H as [H _].
  destruct (decodeHeader_ret_size _ _ _ _ _ H eq_refl) as [E|E]; [symmetry; exact E|discriminate E].
Qed.
