(* C02 for the streaming decoder (Model.DecStream): through ANY sequence of LZ4_setStreamDecode and
   LZ4_decompress_safe_continue calls, on any (also malformed) input, any destination address and capacity,
   every memory access of the decoder stays inside the regions granted to the selected mode - the source
   block, [dest, dest+capacity), the real prefix (at most the bytes the bookkeeping says are there) and the
   external dictionary - and the result is negative or at most the capacity.  The bookkeeping never produces
   a negative size, so the hypotheses of the per-mode theorem (Proofs.DecSafe.dec_generic_safe) are always met;
   in particular the withPrefix64k mode is only selected with at least 65535 bytes of real prefix. *)
From Coq Require Import ZArith List Lia Bool.
From LZ4V Require Import Gen.Consts Model.Mem Model.Dec Model.DecApi Model.DecStream Proofs.DecSafe Proofs.DecApiSafe.
Import ListNotations.
Local Open Scope Z_scope.

Definition sd_ok (st : sdstate) : Prop := 0 <= sd_prefixSize st /\ 0 <= sd_extDictSize st.

Lemma setStreamDecode_ok dictionary dictSize : 0 <= dictSize -> sd_ok (setStreamDecode dictionary dictSize).
Proof. intros H. unfold sd_ok, setStreamDecode. cbn. lia. Qed.

Theorem decompress_safe_continue_safe fastloop am st srcm srcSize dest cap :
  src_bytes srcm -> 0 <= srcSize -> sd_ok st ->
  let '(r, am', st', ok) := decompress_safe_continue fastloop am st srcm srcSize dest cap in
  ok = true /\ (r < 0 \/ 0 <= r <= cap) /\ sd_ok st'.
Proof.
  intros Hs Hn (Hp & He). unfold decompress_safe_continue.
  assert (G : forall dict lowPrefix rlow dm ds m0,
             lowPrefix <= 0 -> (rlow <= lowPrefix \/ (dict = WithPrefix64k /\ rlow <= -65535)) -> 0 <= ds ->
             (dict = WithPrefix64k -> lowPrefix = -65536) -> (dict <> UsingExtDict -> ds = 0) ->
             let '(r, m, ok) := dec_generic fastloop false dict srcm srcSize cap lowPrefix rlow dm ds m0 in
             ok = true /\ (r < 0 \/ 0 <= r <= cap)).
  { intros. apply dec_generic_safe; assumption. }
  destruct (sd_prefixSize st =? 0) eqn:E0.
  - pose proof (decompress_safe_ok fastloop srcm srcSize cap (work am dest cap 0) Hs Hn) as H.
    destruct (decompress_safe fastloop srcm srcSize cap (work am dest cap 0)) as [[r m] k].
    destruct H as (H1 & H2).
    destruct (r <=? 0) eqn:Er; (split; [exact H1|]; split; [exact H2|]); unfold sd_ok; cbn; lia.
  - destruct (sd_prefixEnd st =? dest) eqn:E1.
    + set (ps := sd_prefixSize st) in *.
      assert (H : let '(r, m, k) :=
                (if ps >=? 65536 - 1
                 then dec_generic fastloop false WithPrefix64k srcm srcSize cap (-65536) (- ps) empty 0 (work am dest cap ps)
                 else if sd_extDictSize st =? 0
                 then dec_generic fastloop false NoDict srcm srcSize cap (- ps) (- ps) empty 0 (work am dest cap ps)
                 else dec_generic fastloop false UsingExtDict srcm srcSize cap (- ps) (- ps)
                        (dictview am (sd_externalDict st) (sd_extDictSize st)) (sd_extDictSize st) (work am dest cap ps)) in
                k = true /\ (r < 0 \/ 0 <= r <= cap)).
      { destruct (ps >=? 65536 - 1) eqn:E2.
        - apply G; try lia; try discriminate; auto. right. split; [reflexivity | lia].
        - destruct (sd_extDictSize st =? 0) eqn:E3.
          + apply G; try lia; try discriminate; auto.
          + apply G; try lia; try discriminate; auto. intros Hx; exfalso; apply Hx; reflexivity. }
      destruct (if ps >=? 65536 - 1 then _ else _) as [[r m] k].
      destruct H as (H1 & H2).
      destruct (r <=? 0) eqn:Er; (split; [exact H1|]; split; [exact H2|]); unfold sd_ok; cbn; fold ps; lia.
    + cbv zeta.
      pose proof (G UsingExtDict 0 0 (dictview am (sd_prefixEnd st - sd_prefixSize st) (sd_prefixSize st)) (sd_prefixSize st)
                    (work am dest cap 0) ltac:(lia) ltac:(left; lia) Hp ltac:(discriminate)
                    ltac:(intros Hx; exfalso; apply Hx; reflexivity)) as H.
      destruct (dec_generic fastloop false UsingExtDict srcm srcSize cap 0 0 _ (sd_prefixSize st) (work am dest cap 0)) as [[r m] k].
      destruct H as (H1 & H2).
      destruct (r <=? 0) eqn:Er; (split; [exact H1|]; split; [exact H2|]); unfold sd_ok; cbn; lia.
Qed.

(* ---- any session ---- *)
Inductive sdcall :=
| SetSD (dictionary dictSize : Z)
| Cont (srcm : mem) (srcSize dest cap : Z).

Definition sdcall_ok (c : sdcall) : Prop :=
  match c with SetSD _ ds => 0 <= ds | Cont srcm n _ _ => src_bytes srcm /\ 0 <= n end.

(* runs the session; the flag is the conjunction of the access flags of all calls *)
Fixpoint run_sd (fastloop : bool) (am : mem) (st : sdstate) (calls : list sdcall) : mem * sdstate * bool :=
  match calls with
  | [] => (am, st, true)
  | SetSD d ds :: r => run_sd fastloop am (setStreamDecode d ds) r
  | Cont srcm n dest cap :: r =>
    let '(_, am', st', ok) := decompress_safe_continue fastloop am st srcm n dest cap in
    let '(am'', st'', ok') := run_sd fastloop am' st' r in (am'', st'', ok && ok')
  end.

Theorem stream_session_safe fastloop : forall calls am st,
  sd_ok st -> Forall sdcall_ok calls ->
  let '(_, st', ok) := run_sd fastloop am st calls in ok = true /\ sd_ok st'.
Proof.
  induction calls as [|c r IH]; intros am st Hst Hc; cbn [run_sd]; [split; [reflexivity | exact Hst]|].
  inversion Hc as [|c' r' Hc1 Hr]; subst.
  destruct c as [d ds | srcm n dest cap].
  - apply IH; [apply setStreamDecode_ok; exact Hc1 | exact Hr].
  - destruct Hc1 as (Hs & Hn).
    pose proof (decompress_safe_continue_safe fastloop am st srcm n dest cap Hs Hn Hst) as H.
    destruct (decompress_safe_continue fastloop am st srcm n dest cap) as [[[r0 am'] st'] ok].
    destruct H as (H1 & _ & H3).
    specialize (IH am' st' H3 Hr).
    destruct (run_sd fastloop am' st' r) as [[am'' st''] ok'].
    destruct IH as (I1 & I2). subst ok ok'. split; [reflexivity | exact I2].
Qed.

Print Assumptions decompress_safe_continue_safe.
Print Assumptions stream_session_safe.
