(* Capacity contract of the LZ4MID parser model (Model.HcMid.mid_compress):
   - limitedOutput / fillOutput: nothing is ever written beyond maxOutputSize (the high-water mark [hw]
     includes the slack of LZ4_wildCopy8 and the bytes of an attempt that was then abandoned), and the
     returned size is at most maxOutputSize;
   - notLimited: nothing is written beyond LZ4_COMPRESSBOUND(srcSize) = srcSize + srcSize/255 + 16
     (worst-case size argument: 255 * output <= 256 * input consumed, per sequence), and the parser
     cannot fail. *)
From Coq Require Import ZArith List Lia Bool ZifyBool.
From LZ4V Require Import Gen.Consts Spec.BlockSpec Model.Mem Model.Fast Model.HcEmit Model.HcMid.
From LZ4V Require Import Proofs.BlockSpecProofs Proofs.FactorSpec Proofs.FastBasics Proofs.FastCap Proofs.HcEmitProofs Proofs.HcMidSound.
Import ListNotations.
Local Open Scope Z_scope.

Section EmitShape.
  Variable src : Z -> Z.

  Lemma lit_hdr_len L : 0 <= L ->
    Z.of_nat (length (snd (if L >=? RUN_MASK then (RUN_MASK, lit_ext (Z.to_nat L) (L - RUN_MASK)) else (L, [])))) = extlen L.
  Proof.
    intros HL. unfold RUN_MASK, extlen. destruct (L >=? 15) eqn:A; destruct (L <? 15) eqn:B; try lia; [|reflexivity].
    cbn [snd]. rewrite lit_ext_spec; [|lia | left; Z.div_mod_to_equations; lia].
    unfold ext_len. rewrite app_length, repeat_length. cbn [length].
    assert (0 <= (L - 15) / 255) by (Z.div_mod_to_equations; lia). lia.
  Qed.

  Lemma ml_hdr_len ml : 0 <= ml ->
    Z.of_nat (length (snd (if ml >=? ML_MASK then (ML_MASK, ml_ext (Z.to_nat ml) (ml - ML_MASK)) else (ml, [])))) = extlen ml.
  Proof.
    intros HL. unfold ML_MASK, extlen. destruct (ml >=? 15) eqn:A; destruct (ml <? 15) eqn:B; try lia; [|reflexivity].
    cbn [snd]. rewrite ml_ext_spec; [|lia | left; Z.div_mod_to_equations; lia].
    unfold ext_len. rewrite app_length, repeat_length. cbn [length].
    assert (0 <= (ml - 15) / 255) by (Z.div_mod_to_equations; lia). lia.
  Qed.

  (* a sequence that was written: where the output cursor lands and how far the writes reached *)
  Lemma encodeSequence_shape ip anchor op matchLength offset limit oend :
    anchor <= ip -> MINMATCH <= matchLength ->
    let e := encodeSequence src ip anchor op matchLength offset limit oend in
    let L := ip - anchor in
    e_ret e = 0 ->
    e_op e = op + 1 + extlen L + L + 2 + extlen (matchLength - MINMATCH) /\
    e_hw e <= Z.max (op + 1 + extlen L + Z.max 8 (L + 7)) (e_op e).
  Proof.
    intros Hl Hm. unfold encodeSequence. cbv zeta.
    set (L := ip - anchor) in *. assert (HL0 : 0 <= L) by (unfold L; lia).
    destruct (limit && (op + 1 + L / 255 + L + (2 + 1 + LASTLITERALS) >? oend)); cbn [e_ret]; [discriminate|].
    pose proof (lit_hdr_len L HL0) as Hext.
    destruct (if L >=? RUN_MASK then (RUN_MASK, lit_ext (Z.to_nat L) (L - RUN_MASK)) else (L, [])) as [tokhi ext].
    cbn [snd] in Hext. rewrite Hext.
    pose proof (wild8_len_bounds_cap (op + 1 + extlen L) L HL0) as Hw.
    set (ml := matchLength - MINMATCH). assert (Hml0 : 0 <= ml) by (unfold ml; lia).
    match goal with |- context [if ?c then mkEmit 1 _ _ _ else _] => destruct c end; cbn [e_ret]; [discriminate|].
    pose proof (ml_hdr_len ml Hml0) as Hmx.
    destruct (if ml >=? ML_MASK then (ML_MASK, ml_ext (Z.to_nat ml) (ml - ML_MASK)) else (ml, [])) as [toklo mext].
    cbn [snd] in Hmx. cbn [e_ret e_op e_hw]. intros _. rewrite Hmx. lia.
  Qed.

  (* limited modes, any starting point: the writes stay below max(op, oend) *)
  Lemma encodeSequence_hw_lim ip anchor op matchLength offset oend :
    anchor <= ip -> MINMATCH <= matchLength ->
    let e := encodeSequence src ip anchor op matchLength offset true oend in
    e_hw e <= Z.max op oend /\ (e_ret e = 0 -> e_op e <= oend).
  Proof.
    intros Hl Hm. destruct (Z_le_gt_dec op oend) as [Hle|Hgt].
    - pose proof (encodeSequence_cap src ip anchor op matchLength offset oend Hl Hm Hle) as H. cbv zeta in *. lia.
    - cbv zeta. unfold encodeSequence. cbv zeta. cbn [andb].
      assert (0 <= (ip - anchor) / 255) by (Z.div_mod_to_equations; lia). unfold LASTLITERALS.
      destruct (op + 1 + (ip - anchor) / 255 + (ip - anchor) + (2 + 1 + 5) >? oend) eqn:E; [|lia].
      cbn [e_hw e_ret]. split; [lia | discriminate].
  Qed.
End EmitShape.

Lemma seq_potential_255 L ml : 0 <= L -> 4 <= ml ->
  255 * (1 + extlen L + L + 2 + extlen (ml - 4)) <= 256 * (L + ml).
Proof.
  intros HL Hm. pose proof (extlen_bound L HL). pose proof (extlen_bound (ml - 4) ltac:(lia)).
  destruct (L <? 15) eqn:A; destruct (ml - 4 <? 15) eqn:B; lia.
Qed.

Lemma outdir_case (l : outdir) : l = NotLimited \/ l <> NotLimited.
Proof. destruct l; [left; reflexivity | right; discriminate | right; discriminate]. Qed.

Section MidCap.
  Variable vrd : Z -> Z.
  Variable lim : outdir.
  Variables prefixIdx dictIdx s0 srcSize maxOut : Z.
  Hypothesis Hb : forall a, 0 <= vrd a < 256.
  Hypothesis Hidx : 0 <= dictIdx /\ dictIdx <= prefixIdx /\ prefixIdx <= s0 /\ s0 + srcSize < M32.
  Hypothesis Hsz : 0 <= srcSize.
  Hypothesis Hmo : 0 <= maxOut.
  Variable lo : Z.
  Hypothesis Hlo : 0 <= lo <= dictIdx.

  Notation iend := (mi_iend s0 srcSize).
  Notation mflimit := (mi_mflimit s0 srcSize).
  Notation matchlimit := (mi_matchlimit s0 srcSize).
  Notation MInv := (MInv vrd s0 srcSize lo).
  Notation found_ok := (found_ok vrd s0 srcSize lo).
  Variable dsrch : Z -> option found.
  Hypothesis Hdsrch : forall ip f, s0 <= ip <= mflimit -> dsrch ip = Some f -> found_ok ip f.

  Definition hwlim : Z := match lim with NotLimited => srcSize + srcSize / 255 + 16 | _ => maxOut end.
  (* the end of the output buffer as the sequence encoder sees it *)
  Definition oend_seq : Z := match lim with FillOutput => maxOut - LASTLITERALS | _ => maxOut end.

  Definition CInv (s : mst) : Prop :=
    m_hw s <= hwlim /\ 0 <= m_op s <= hwlim /\
    (lim = NotLimited -> 255 * m_op s <= 256 * (m_anchor s - s0)) /\
    (lim = FillOutput -> m_op s <= Z.max 0 oend_seq).

  Definition RCap (r : mres) : Prop :=
    match r with
    | MOk ret consumed out h4 h8 hw => hw <= hwlim /\ 1 <= ret <= hw
    | MFail h4 h8 hw => hw <= hwlim /\ lim <> NotLimited
    | MUndef => lim = FillOutput
    end.

  Lemma bound_255 : 256 * srcSize + 3826 <= 255 * (srcSize + srcSize / 255 + 16).
  Proof. Z.div_mod_to_equations. lia. Qed.

  Lemma last_literals_cap s oend :
    CInv s -> s0 <= m_anchor s <= iend -> oend = maxOut ->
    RCap (last_literals vrd lim s0 srcSize s oend).
  Proof.
    intros (Hhw & Hop & Hpot & _) Ha ->. pose proof (limits s0 srcSize) as (L1 & L2 & L3).
    unfold last_literals. cbv zeta.
    set (lastRun := iend - m_anchor s). assert (HlR : 0 <= lastRun) by (subst lastRun; lia).
    assert (Emit : forall lr, 0 <= lr ->
      m_op s + 1 + extlen lr + lr <= hwlim ->
      RCap (let hdr := if lr >=? RUN_MASK then RUN_MASK * 16 :: lit_ext (Z.to_nat lr) (lr - RUN_MASK) else [lr * 16] in
            let bytes := hdr ++ src_bytes vrd (Z.to_nat lr) (m_anchor s) in
            let op' := m_op s + Z.of_nat (length bytes) in
            MOk op' (m_anchor s + lr - s0) (rev_append (m_rout s) bytes) (m_h4 s) (m_h8 s) (Z.max (m_hw s) op'))).
    { intros lr Hlr Hfit. cbv zeta. cbn [RCap].
      assert (Hlen : Z.of_nat (length ((if lr >=? RUN_MASK then RUN_MASK * 16 :: lit_ext (Z.to_nat lr) (lr - RUN_MASK) else [lr * 16])
                                        ++ src_bytes vrd (Z.to_nat lr) (m_anchor s))) = 1 + extlen lr + lr).
      { rewrite app_length, src_bytes_length, Nat2Z.inj_add, Z2Nat.id by lia.
        unfold RUN_MASK, extlen. destruct (lr >=? 15) eqn:A; destruct (lr <? 15) eqn:B; try lia; [|cbn [length]; lia].
        cbn [length]. rewrite lit_ext_spec; [|lia | left; Z.div_mod_to_equations; lia].
        unfold ext_len. rewrite app_length, repeat_length. cbn [length].
        assert (0 <= (lr - 15) / 255) by (Z.div_mod_to_equations; lia). lia. }
      rewrite Hlen. pose proof (extlen_nonneg lr). lia. }
    assert (Hex : forall v, 0 <= v -> extlen v <= (v + 255 - RUN_MASK) / 255).
    { intros v Hv. unfold extlen, RUN_MASK. destruct (v <? 15) eqn:B; Z.div_mod_to_equations; lia. }
    destruct (limited lim && (m_op s + (1 + (lastRun + 255 - RUN_MASK) / 255 + lastRun) >? maxOut)) eqn:E.
    - remember lim as l eqn:El. destruct l.
      + cbn [limited andb] in E. discriminate.
      + cbn [RCap]. split; [exact Hhw | congruence].
      + destruct (maxOut - m_op s <? 1) eqn:E1; [cbn [RCap]; congruence|].
        apply Emit.
        * assert (0 <= maxOut - m_op s - 1) by lia. set (x := maxOut - m_op s - 1) in *. clearbody x.
          unfold RUN_MASK. Z.div_mod_to_equations. lia.
        * unfold hwlim. rewrite <- El.
          assert (Hx : 0 <= maxOut - m_op s - 1) by lia.
          set (x := maxOut - m_op s - 1) in *.
          replace maxOut with (x + m_op s + 1) by (subst x; lia). clearbody x.
          unfold extlen, RUN_MASK. destruct (x - (x + 256 - 15) / 256 <? 15) eqn:B; Z.div_mod_to_equations; lia.
    - apply Emit; [exact HlR|].
      pose proof (Hex lastRun HlR) as Hx.
      unfold hwlim. remember lim as l eqn:El. destruct l.
      + specialize (Hpot eq_refl). pose proof bound_255. pose proof (extlen_bound lastRun HlR).
        subst lastRun. destruct (iend - m_anchor s <? 15) eqn:B; Z.div_mod_to_equations; lia.
      + cbn [limited andb] in E. lia.
      + cbn [limited andb] in E. lia.
  Qed.

  Lemma extlen_le_add v : 0 <= v -> extlen v <= (v + 240) / 255.
  Proof. intros Hv. unfold extlen. destruct (v <? 15) eqn:B; Z.div_mod_to_equations; lia. Qed.

  Lemma dest_overflow_cap s ml dist :
    lim <> NotLimited -> CInv s -> s0 <= m_anchor s <= m_ip s -> m_ip s + ml <= matchlimit -> 4 <= ml ->
    RCap (dest_overflow vrd lim s0 srcSize s ml dist oend_seq).
  Proof.
    intros Hnl (Hhw & Hop & Hpot & Hfo) Ha Hml H4. pose proof (limits s0 srcSize) as (L1 & L2 & L3).
    unfold dest_overflow. remember lim as l eqn:El. destruct l; [congruence | cbn [RCap]; split; [exact Hhw | congruence] |].
    rewrite El. cbv zeta.
    assert (Eo : oend_seq = maxOut - 5) by (unfold oend_seq, LASTLITERALS; rewrite <- El; reflexivity).
    assert (Eh : hwlim = maxOut) by (unfold hwlim; rewrite <- El; reflexivity).
    rewrite Eo. unfold LASTLITERALS. replace (maxOut - 5 + 5) with maxOut by lia.
    set (L := m_ip s - m_anchor s) in *. assert (HL : 0 <= L) by (subst L; lia).
    assert (EL : L = m_ip s - m_anchor s) by reflexivity. clearbody L.
    pose proof (extlen_le_add L HL) as HeL. pose proof (extlen_nonneg L) as HeL0.
    apply last_literals_cap; [| | reflexivity].
    - assert (Same : CInv s).
      { unfold CInv. split; [assumption|]. split; [assumption|]. split; [intros; congruence | intros _; apply Hfo; reflexivity]. }
      destruct (m_op s + (1 + (L + 240) / 255 + L) <=? maxOut - 5 - 3) eqn:E1; [|exact Same].
      set (left := maxOut - 5 - 3 - (m_op s + (1 + (L + 240) / 255 + L))) in *.
      assert (Hleft : 0 <= left) by (subst left; lia).
      assert (Eleft : left = maxOut - 5 - 3 - (m_op s + (1 + (L + 240) / 255 + L))) by reflexivity.
      clearbody left.
      set (mx := MINMATCH + (ML_MASK - 1) + left * 255).
      set (ml' := if ml >? mx then mx else ml).
      destruct (maxOut - (m_op s + (1 + (L + 240) / 255 + L) + 2) - 1 + ml' >=? MFLIMIT) eqn:E2; [|exact Same].
      assert (Hml' : 4 <= ml' <= mx) by (subst ml' mx; unfold MINMATCH, ML_MASK, MFLIMIT in *; destruct (ml >? _) eqn:E3; lia).
      assert (Emx : mx = 18 + left * 255) by (subst mx; unfold MINMATCH, ML_MASK; lia).
      clearbody ml'. clearbody mx.
      pose proof (encodeSequence_shape vrd (m_ip s) (m_anchor s) (m_op s) ml' dist false (maxOut - 5) ltac:(lia) ltac:(unfold MINMATCH; lia)) as Hsh.
      cbv zeta in Hsh. specialize (Hsh (encodeSequence_notlimited vrd (m_ip s) (m_anchor s) (m_op s) ml' dist (maxOut - 5))).
      rewrite <- EL in Hsh. destruct Hsh as (Hso & Hsw).
      assert (Hem : extlen (ml' - MINMATCH) <= left).
      { unfold extlen, MINMATCH, ML_MASK in *. destruct (ml' - 4 <? 15) eqn:B; [lia|]. Z.div_mod_to_equations. lia. }
      pose proof (extlen_nonneg (ml' - MINMATCH)).
      unfold CInv. cbn [m_hw m_op m_anchor]. rewrite Eh.
      split; [|split; [|split; [intros; congruence | intros _; rewrite Eo; lia]]].
      + lia.
      + lia.
    - destruct (m_op s + (1 + (L + 240) / 255 + L) <=? maxOut - 5 - 3) eqn:E1; [|lia].
      set (mx := MINMATCH + (ML_MASK - 1) + (maxOut - 5 - 3 - (m_op s + (1 + (L + 240) / 255 + L))) * 255).
      assert (Hml' : 0 <= (if ml >? mx then mx else ml) <= ml).
      { assert (18 <= mx) by (subst mx; unfold MINMATCH, ML_MASK; lia). clearbody mx. destruct (ml >? mx) eqn:E3; lia. }
      clearbody mx. set (ml' := if ml >? mx then mx else ml) in *. clearbody ml'.
      destruct (_ >=? MFLIMIT); cbn [m_anchor]; lia.
  Qed.

  Lemma encode_step_cap s f h4 h8 :
    MInv s -> CInv s -> m_ip s <= mflimit -> found_ok (m_ip s) f ->
    match encode_step vrd lim prefixIdx s0 srcSize s (u32 (m_ip s)) f h4 h8 oend_seq with
    | inl s' => CInv s'
    | inr r => RCap r
    end.
  Proof.
    intros (Ha & Hae & _) (Hhw & Hop & Hpot & Hfo) Hip (Hfi & Hfm & Hfl).
    pose proof (limits s0 srcSize) as (L1 & L2 & L3).
    unfold encode_step.
    assert (Hfa : m_anchor s <= f_ip f) by lia.
    pose proof (catchback_match vrd prefixIdx dictIdx s0 srcSize Hidx lo Hlo (Z.to_nat (f_ip f - m_anchor s)) (f_ip f) (f_ml f) (m_anchor s) (f_dist f)
                  ltac:(lia) Hfa ltac:(unfold M32 in *; lia) Hfm) as Hcb. cbv zeta in Hcb.
    destruct (catchback vrd prefixIdx (Z.to_nat (f_ip f - m_anchor s)) (f_ip f) (f_ml f) (m_anchor s) (f_dist f)) as [ip ml].
    cbn [fst snd] in Hcb. destruct Hcb as (C1 & C2 & C3). cbv zeta.
    assert (Hml4 : 4 <= ml) by (destruct C3 as (_ & ? & _); assumption).
    set (L := ip - m_anchor s) in *. assert (HL : 0 <= L) by (subst L; lia).
    pose proof (extlen_nonneg L) as HeL0. pose proof (extlen_nonneg (ml - MINMATCH)) as HeM0.
    match goal with |- context [encodeSequence vrd ip (m_anchor s) (m_op s) ml (f_dist f) (limited lim) oend_seq] =>
      set (e := encodeSequence vrd ip (m_anchor s) (m_op s) ml (f_dist f) (limited lim) oend_seq) end.
    pose proof (encodeSequence_shape vrd ip (m_anchor s) (m_op s) ml (f_dist f) (limited lim) oend_seq ltac:(lia) ltac:(unfold MINMATCH; lia)) as Hsh.
    cbv zeta in Hsh. fold e in Hsh. fold L in Hsh.
    assert (Hoe : lim <> NotLimited -> oend_seq <= hwlim).
    { intros Hn. unfold oend_seq, hwlim, LASTLITERALS. destruct lim; [congruence | lia | lia]. }
    assert (Hlimcase : lim <> NotLimited -> e_hw e <= Z.max (m_op s) oend_seq /\ (e_ret e = 0 -> e_op e <= oend_seq)).
    { intros Hn. subst e. replace (limited lim) with true by (destruct lim; [congruence | reflexivity | reflexivity]).
      apply encodeSequence_hw_lim; [lia | unfold MINMATCH; lia]. }
    destruct (e_ret e =? 0) eqn:Er.
    - assert (Hret : e_ret e = 0) by lia. specialize (Hsh Hret). destruct Hsh as (Hso & Hsw).
      match goal with |- context [if ?c then _ else _] => destruct c end; unfold CInv; cbn [m_hw m_op m_anchor].
      all: destruct (outdir_case lim) as [Hn|Hn].
      all: try (specialize (Hpot Hn); pose proof bound_255 as B255;
                pose proof (seq_potential_255 L ml HL Hml4) as P255; pose proof (extlen_bound L HL) as EB;
                assert (Ehw : hwlim = srcSize + srcSize / 255 + 16) by (unfold hwlim; rewrite Hn; reflexivity);
                unfold MINMATCH in *;
                split; [|split; [|split; [intros _|intros; congruence]]];
                [destruct (L <? 15); lia | destruct (L <? 15); lia | subst L; lia]).
      all: specialize (Hlimcase Hn); specialize (Hoe Hn); destruct Hlimcase as (Hw1 & Hw2); specialize (Hw2 Hret);
           (split; [lia | split; [lia | split; [intros; congruence | intros _; lia]]]).
    - destruct (outdir_case lim) as [Hn|Hn].
      + exfalso. subst e. rewrite Hn in Er. cbn [limited] in Er. rewrite encodeSequence_notlimited in Er. discriminate.
      + specialize (Hlimcase Hn); specialize (Hoe Hn). destruct Hlimcase as (Hw1 & _).
        apply dest_overflow_cap; cbn [m_ip m_anchor m_op m_hw]; try lia; try assumption.
        unfold CInv. cbn [m_hw m_op m_anchor]. split; [lia|]. split; [lia|]. split; [intros; congruence | exact Hfo].
  Qed.

  Lemma encode_step_progress s f h4 h8 oend :
    MInv s -> m_ip s <= mflimit -> found_ok (m_ip s) f ->
    match encode_step vrd lim prefixIdx s0 srcSize s (u32 (m_ip s)) f h4 h8 oend with
    | inl s' => m_ip s + 4 <= m_ip s'
    | inr r => True
    end.
  Proof.
    intros (Ha & Hae & _) Hip (Hfi & Hfm & Hfl). unfold encode_step.
    assert (Hfa : m_anchor s <= f_ip f) by lia.
    pose proof (limits s0 srcSize) as (L1 & L2 & L3).
    pose proof (catchback_match vrd prefixIdx dictIdx s0 srcSize Hidx lo Hlo (Z.to_nat (f_ip f - m_anchor s)) (f_ip f) (f_ml f) (m_anchor s) (f_dist f)
                  ltac:(lia) Hfa ltac:(unfold M32 in *; lia) Hfm) as Hcb. cbv zeta in Hcb.
    destruct (catchback vrd prefixIdx (Z.to_nat (f_ip f - m_anchor s)) (f_ip f) (f_ml f) (m_anchor s) (f_dist f)) as [ip ml].
    cbn [fst snd] in Hcb. destruct Hcb as (C1 & C2 & C3). cbv zeta.
    assert (4 <= f_ml f) by (destruct Hfm as (_ & ? & _); assumption).
    destruct (e_ret _ =? 0); [|exact I].
    match goal with |- context [if ?c then _ else _] => destruct c end; cbn [m_ip]; lia.
  Qed.

  Lemma main_loop_cap : forall fuel s, MInv s -> CInv s ->
    Z.max 1 (mflimit + 2 - m_ip s) <= Z.of_nat fuel ->
    RCap (main_loop vrd lim prefixIdx dictIdx s0 srcSize dsrch fuel s oend_seq).
  Proof.
    induction fuel as [|fuel IH]; intros s HI HC Hf; [lia|]. cbn [main_loop]. cbv zeta.
    pose proof (limits s0 srcSize) as (L1 & L2 & L3).
    pose proof HI as (Ha & Hae & Ho & Hop & T4 & T8 & T4e & T8e).
    destruct (m_ip s <=? mflimit) eqn:Eip.
    - pose proof (search_sound vrd prefixIdx dictIdx s0 srcSize Hidx lo Hlo (m_ip s) (m_h4 s) (m_h8 s) ltac:(lia) T4 T8) as Hs.
      destruct (search vrd prefixIdx dictIdx s0 srcSize (m_ip s) (m_h4 s) (m_h8 s)) as [[[fd|] h4'] h8'].
      + destruct Hs as (Hfd & A4 & A8).
        pose proof (encode_step_sound vrd lim prefixIdx dictIdx s0 srcSize Hb Hidx lo Hlo dsrch Hdsrch s fd h4' h8' oend_seq HI ltac:(lia) Hfd A4 A8) as He1.
        pose proof (encode_step_cap s fd h4' h8' HI HC ltac:(lia) Hfd) as He2.
        pose proof (encode_step_progress s fd h4' h8' oend_seq HI ltac:(lia) Hfd) as He3.
        destruct (encode_step vrd lim prefixIdx s0 srcSize s (u32 (m_ip s)) fd h4' h8' oend_seq) as [s'|r]; [|exact He2].
        apply IH; [exact He1 | exact He2 | lia].
      + destruct Hs as (A4 & A8).
        destruct (dsrch (m_ip s)) as [fd|] eqn:Ed.
        { pose proof (Hdsrch (m_ip s) fd ltac:(lia) Ed) as Hfd.
          pose proof (encode_step_sound vrd lim prefixIdx dictIdx s0 srcSize Hb Hidx lo Hlo dsrch Hdsrch s fd h4' h8' oend_seq HI ltac:(lia) Hfd A4
                        ltac:(eapply tab_lt_mono; eauto; lia)) as He1.
          pose proof (encode_step_cap s fd h4' h8' HI HC ltac:(lia) Hfd) as He2.
          pose proof (encode_step_progress s fd h4' h8' oend_seq HI ltac:(lia) Hfd) as He3.
          destruct (encode_step vrd lim prefixIdx s0 srcSize s (u32 (m_ip s)) fd h4' h8' oend_seq) as [s'|r]; [|exact He2].
          apply IH; [exact He1 | exact He2 | lia]. }
        assert (Hq : 0 <= (m_ip s - m_anchor s) / 512) by (Z.div_mod_to_equations; lia).
        apply IH.
        * unfold HcMidSound.MInv. cbn [m_ip m_anchor m_op m_rout m_h4 m_h8].
          split; [lia|]. split; [lia|]. split; [exact Ho|]. split; [exact Hop|].
          split; [eapply tab_lt_mono; eauto; lia|]. split; [eapply tab_lt_mono; eauto; lia|].
          split; eapply tab_lt_mono; eauto; lia.
        * destruct HC as (C1 & C2 & C3 & C4). unfold CInv. cbn [m_hw m_op m_anchor]. repeat split; try assumption; lia.
        * cbn [m_ip]. lia.
    - apply last_literals_cap; [exact HC | lia |].
      unfold oend_seq, LASTLITERALS. destruct lim; lia.
  Qed.

  Theorem mid_compress_cap h4 h8 :
    srcSize <= LZ4_MAX_INPUT_SIZE -> tab_lt h4 s0 -> tab_lt h8 s0 ->
    RCap (mid_compress vrd lim prefixIdx dictIdx s0 srcSize maxOut dsrch h4 h8).
  Proof.
    intros Hmax T4 T8. pose proof (limits s0 srcSize) as (L1 & L2 & L3). unfold mid_compress.
    replace ((srcSize <? 0) || (maxOut <? 0) || (srcSize >? LZ4_MAX_INPUT_SIZE)) with false by lia. cbv zeta.
    assert (Hh : 0 <= hwlim).
    { unfold hwlim. destruct lim; try lia. assert (0 <= srcSize / 255) by (Z.div_mod_to_equations; lia). lia. }
    assert (HC : CInv (mkM s0 s0 0 [] h4 h8 0)).
    { unfold CInv. cbn [m_hw m_op m_anchor]. repeat split; try lia. }
    destruct (srcSize <? LZ4_minLength) eqn:E.
    - apply last_literals_cap; [exact HC | cbn [m_anchor]; lia | reflexivity].
    - assert (Eo : (match lim with FillOutput => maxOut - LASTLITERALS | _ => maxOut end) = oend_seq) by reflexivity.
      rewrite Eo. apply main_loop_cap; [| exact HC | cbn [m_ip]; unfold LZ4_minLength in *; lia].
      unfold HcMidSound.MInv. cbn [m_ip m_anchor m_op m_rout m_h4 m_h8 length].
      split; [lia|]. split; [lia|]. split; [exists []; cbn; repeat split; reflexivity|]. split; [reflexivity|].
      split; [exact T4|]. split; [exact T8|]. split; eapply tab_lt_mono; eauto; lia.
  Qed.
End MidCap.
