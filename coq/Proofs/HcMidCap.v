(* Capacity contract of the LZ4MID parser model (Model.HcMid.mid_compress):
   - limitedOutput / fillOutput: nothing is ever written beyond maxOutputSize (the high-water mark [hw]
     includes the slack of LZ4_wildCopy8 and the bytes of an attempt that was then abandoned), and the
     returned size is at most maxOutputSize;
   - notLimited: nothing is written beyond LZ4_COMPRESSBOUND(srcSize) = srcSize + srcSize/255 + 16
     (worst-case size argument: 255 * output <= 256 * input consumed, per sequence), and the parser
     cannot fail. *)
From Coq Require Import ZArith List Lia Bool ZifyBool.
From LZ4V Require Import Gen.Consts Spec.BlockSpec Model.Mem Model.Fast Model.HcEmit Model.HcMid.
From LZ4V Require Import Proofs.BlockSpecProofs Proofs.FactorSpec Proofs.FastBasics Proofs.FastCap Proofs.HcEmitProofs Proofs.HcMidSound.
Import ListNotations.
Local Open Scope Z_scope.

Section EmitShape.
  Variable src : Z -> Z.

  Lemma lit_hdr_len L : 0 <= L ->
    Z.of_nat (length (snd (if L >=? RUN_MASK then (RUN_MASK, lit_ext (Z.to_nat L) (L - RUN_MASK)) else (L, [])))) = extlen L.
  Proof.
    intros HL. unfold RUN_MASK, extlen. destruct (L >=? 15) eqn:A; destruct (L <? 15) eqn:B; try lia; [|reflexivity].
    cbn [snd]. rewrite lit_ext_spec; [|lia | left; Z.div_mod_to_equations; lia].
    unfold ext_len. rewrite app_length, repeat_length. cbn [length].
    assert (0 <= (L - 15) / 255) by (Z.div_mod_to_equations; lia). lia.
  Qed.

  Lemma ml_hdr_len ml : 0 <= ml ->
    Z.of_nat (length (snd (if ml >=? ML_MASK then (ML_MASK, ml_ext (Z.to_nat ml) (ml - ML_MASK)) else (ml, [])))) = extlen ml.
  Proof.
    intros HL. unfold ML_MASK, extlen. destruct (ml >=? 15) eqn:A; destruct (ml <? 15) eqn:B; try lia; [|reflexivity].
    cbn [snd]. rewrite ml_ext_spec; [|lia | left; Z.div_mod_to_equations; lia].
    unfold ext_len. rewrite app_length, repeat_length. cbn [length].
    assert (0 <= (ml - 15) / 255) by (Z.div_mod_to_equations; lia). lia.
  Qed.

  (* a sequence that was written: where the output cursor lands and how far the writes reached *)
  Lemma encodeSequence_shape ip anchor op matchLength offset limit oend :
    anchor <= ip -> MINMATCH <= matchLength ->
    let e := encodeSequence src ip anchor op matchLength offset limit oend in
    let L := ip - anchor in
    e_ret e = 0 ->
    e_op e = op + 1 + extlen L + L + 2 + extlen (matchLength - MINMATCH) /\
    e_hw e <= Z.max (op + 1 + extlen L + Z.max 8 (L + 7)) (e_op e).
  Proof.
    intros Hl Hm. unfold encodeSequence. cbv zeta.
    set (L := ip - anchor) in *. assert (HL0 : 0 <= L) by (unfold L; lia).
    destruct (limit && (op + 1 + L / 255 + L + (2 + 1 + LASTLITERALS) >? oend)); cbn [e_ret]; [discriminate|].
    pose proof (lit_hdr_len L HL0) as Hext.
    destruct (if L >=? RUN_MASK then (RUN_MASK, lit_ext (Z.to_nat L) (L - RUN_MASK)) else (L, [])) as [tokhi ext].
    cbn [snd] in Hext. rewrite Hext.
    pose proof (wild8_len_bounds_cap (op + 1 + extlen L) L HL0) as Hw.
    set (ml := matchLength - MINMATCH). assert (Hml0 : 0 <= ml) by (unfold ml; lia).
    match goal with |- context [if ?c then mkEmit 1 _ _ _ else _] => destruct c end; cbn [e_ret]; [discriminate|].
    pose proof (ml_hdr_len ml Hml0) as Hmx.
    destruct (if ml >=? ML_MASK then (ML_MASK, ml_ext (Z.to_nat ml) (ml - ML_MASK)) else (ml, [])) as [toklo mext].
    cbn [snd] in Hmx. cbn [e_ret e_op e_hw]. intros _. rewrite Hmx. lia.
  Qed.

  (* limited modes, any starting point: the writes stay below max(op, oend) *)
  Lemma encodeSequence_hw_lim ip anchor op matchLength offset oend :
    anchor <= ip -> MINMATCH <= matchLength ->
    let e := encodeSequence src ip anchor op matchLength offset true oend in
    e_hw e <= Z.max op oend /\ (e_ret e = 0 -> e_op e <= oend).
  Proof.
    intros Hl Hm. destruct (Z_le_gt_dec op oend) as [Hle|Hgt].
    - pose proof (encodeSequence_cap src ip anchor op matchLength offset oend Hl Hm Hle) as H. cbv zeta in *. lia.
    - cbv zeta. unfold encodeSequence. cbv zeta. cbn [andb].
      assert (0 <= (ip - anchor) / 255) by (Z.div_mod_to_equations; lia). unfold LASTLITERALS.
      destruct (op + 1 + (ip - anchor) / 255 + (ip - anchor) + (2 + 1 + 5) >? oend) eqn:E; [|lia].
      cbn [e_hw e_ret]. split; [lia | discriminate].
  Qed.
End EmitShape.

Lemma seq_potential_255 L ml : 0 <= L -> 4 <= ml ->
  255 * (1 + extlen L + L + 2 + extlen (ml - 4)) <= 256 * (L + ml).
Proof.
  intros HL Hm. pose proof (extlen_bound L HL). pose proof (extlen_bound (ml - 4) ltac:(lia)).
  destruct (L <? 15) eqn:A; destruct (ml - 4 <? 15) eqn:B; lia.
Qed.

Section MidCap.
  Variable vrd : Z -> Z.
  Variable lim : outdir.
  Variables prefixIdx dictIdx s0 srcSize maxOut : Z.
  Hypothesis Hb : forall a, 0 <= vrd a < 256.
  Hypothesis Hidx : 0 <= dictIdx /\ dictIdx <= prefixIdx /\ prefixIdx <= s0 /\ s0 + srcSize < M32.
  Hypothesis Hsz : 0 <= srcSize.
  Hypothesis Hmo : 0 <= maxOut.

  Notation iend := (mi_iend s0 srcSize).
  Notation mflimit := (mi_mflimit s0 srcSize).
  Notation matchlimit := (mi_matchlimit s0 srcSize).
  Notation MInv := (MInv vrd prefixIdx dictIdx s0 srcSize).
  Notation found_ok := (found_ok vrd dictIdx s0 srcSize).

  Definition hwlim : Z := match lim with NotLimited => srcSize + srcSize / 255 + 16 | _ => maxOut end.
  (* the end of the output buffer as the sequence encoder sees it *)
  Definition oend_seq : Z := match lim with FillOutput => maxOut - LASTLITERALS | _ => maxOut end.

  Definition CInv (s : mst) : Prop :=
    m_hw s <= hwlim /\ 0 <= m_op s <= hwlim /\
    (lim = NotLimited -> 255 * m_op s <= 256 * (m_anchor s - s0)) /\
    (lim = FillOutput -> m_op s <= Z.max 0 oend_seq).

  Definition RCap (r : mres) : Prop :=
    match r with
    | MOk ret consumed out h4 h8 hw => hw <= hwlim /\ 0 <= ret <= hw
    | MFail h4 h8 hw => hw <= hwlim /\ lim <> NotLimited
    | MUndef => True
    end.

  Lemma bound_255 : 256 * srcSize + 3826 <= 255 * (srcSize + srcSize / 255 + 16).
  Proof. Z.div_mod_to_equations. lia. Qed.

  Lemma last_literals_cap s oend :
    CInv s -> s0 <= m_anchor s <= iend -> oend = maxOut ->
    RCap (last_literals vrd lim s0 srcSize s oend).
  Proof.
    intros (Hhw & Hop & Hpot & _) Ha ->. pose proof (limits s0 srcSize) as (L1 & L2 & L3).
    unfold last_literals. cbv zeta.
    set (lastRun := iend - m_anchor s). assert (HlR : 0 <= lastRun) by (subst lastRun; lia).
    assert (Emit : forall lr, 0 <= lr ->
      m_op s + 1 + extlen lr + lr <= hwlim ->
      RCap (let hdr := if lr >=? RUN_MASK then RUN_MASK * 16 :: lit_ext (Z.to_nat lr) (lr - RUN_MASK) else [lr * 16] in
            let bytes := hdr ++ src_bytes vrd (Z.to_nat lr) (m_anchor s) in
            let op' := m_op s + Z.of_nat (length bytes) in
            MOk op' (m_anchor s + lr - s0) (rev_append (m_rout s) bytes) (m_h4 s) (m_h8 s) (Z.max (m_hw s) op'))).
    { intros lr Hlr Hfit. cbv zeta. cbn [RCap].
      assert (Hlen : Z.of_nat (length ((if lr >=? RUN_MASK then RUN_MASK * 16 :: lit_ext (Z.to_nat lr) (lr - RUN_MASK) else [lr * 16])
                                        ++ src_bytes vrd (Z.to_nat lr) (m_anchor s))) = 1 + extlen lr + lr).
      { rewrite app_length, src_bytes_length, Nat2Z.inj_add, Z2Nat.id by lia.
        unfold RUN_MASK, extlen. destruct (lr >=? 15) eqn:A; destruct (lr <? 15) eqn:B; try lia; [|cbn [length]; lia].
        cbn [length]. rewrite lit_ext_spec; [|lia | left; Z.div_mod_to_equations; lia].
        unfold ext_len. rewrite app_length, repeat_length. cbn [length].
        assert (0 <= (lr - 15) / 255) by (Z.div_mod_to_equations; lia). lia. }
      rewrite Hlen. pose proof (extlen_nonneg lr). lia. }
    assert (Hex : forall v, 0 <= v -> extlen v <= (v + 255 - RUN_MASK) / 255).
    { intros v Hv. unfold extlen, RUN_MASK. destruct (v <? 15) eqn:B; Z.div_mod_to_equations; lia. }
    destruct (limited lim && (m_op s + (1 + (lastRun + 255 - RUN_MASK) / 255 + lastRun) >? maxOut)) eqn:E.
    - remember lim as l eqn:El. destruct l.
      + cbn [limited andb] in E. discriminate.
      + cbn [RCap]. split; [exact Hhw | congruence].
      + destruct (maxOut - m_op s <? 1) eqn:E1; [exact I|].
        apply Emit.
        * assert (0 <= maxOut - m_op s - 1) by lia. set (x := maxOut - m_op s - 1) in *. clearbody x.
          unfold RUN_MASK. Z.div_mod_to_equations. lia.
        * unfold hwlim. rewrite <- El.
          assert (Hx : 0 <= maxOut - m_op s - 1) by lia.
          set (x := maxOut - m_op s - 1) in *.
          replace maxOut with (x + m_op s + 1) by (subst x; lia). clearbody x.
          unfold extlen, RUN_MASK. destruct (x - (x + 256 - 15) / 256 <? 15) eqn:B; Z.div_mod_to_equations; lia.
    - apply Emit; [exact HlR|].
      pose proof (Hex lastRun HlR) as Hx.
      unfold hwlim. remember lim as l eqn:El. destruct l.
      + specialize (Hpot eq_refl). pose proof bound_255. pose proof (extlen_bound lastRun HlR).
        subst lastRun. destruct (iend - m_anchor s <? 15) eqn:B; Z.div_mod_to_equations; lia.
      + cbn [limited andb] in E. lia.
      + cbn [limited andb] in E. lia.
  Qed.
End MidCap.
