(* The one-shot entry points of Model.FastApi are lossless:
   LZ4_compress_default / _fast / _fast_extState (full reset) and
   LZ4_compress_fast_extState_fastReset on any context satisfying [ctx_ok]
   (an invariant established by initStream and preserved by every call). *)
From Coq Require Import ZArith List Lia Bool ZifyBool FMapPositive.
From LZ4V Require Import Gen.Consts Spec.BlockSpec Proofs.BlockSpecProofs Model.Mem Model.Fast Model.FastApi
     Proofs.FactorSpec Proofs.FastBasics Proofs.FastSound.
Import ListNotations.
Local Open Scope Z_scope.

Definition src_ok (src : mem) : Prop := forall a, 0 <= get src a < 256.

Lemma seg_load src start n :
  0 <= n -> seg (fun i => get src (i - start)) start (start + n) = load_list src 0 (Z.to_nat n).
Proof.
  intros Hn. unfold seg. replace (start + n - start) with n by lia.
  assert (G : forall k a, bytes (fun i => get src (i - start)) k (start + a) = load_list src a k).
  { induction k as [|k IH]; intros a; cbn [bytes load_list]; [reflexivity|].
    f_equal; [f_equal; lia|]. replace (start + a + 1) with (start + (a + 1)) by lia. apply IH. }
  replace start with (start + 0) at 1 by lia. apply G.
Qed.

Lemma strict_valid_spec hist blk d : strict_valid hist blk = Some d -> spec_decode hist blk = Some d.
Proof.
  unfold strict_valid, spec_decode. destruct (parse_block blk) as [[ss last]|]; [|discriminate].
  destruct (end_ok ss last); [auto | discriminate].
Qed.

Lemma get_empty h : get empty h = 0.
Proof. unfold get, empty. rewrite PositiveMap.gempty. reflexivity. Qed.

Lemma clamp_accel_ge a : 1 <= clamp_accel a.
Proof.
  unfold clamp_accel, LZ4_ACCELERATION_DEFAULT, LZ4_ACCELERATION_MAX.
  destruct (a <? 1) eqn:E1; [lia|]. destruct (a >? 65537) eqn:E2; lia.
Qed.

(* the table state a one-shot call may start from: every entry is below the starting index
   (or the context is pristine), so that with the directives chosen by the entry points
   (dictSmall when the offset is not 0) no stale entry can be used *)
Definition ctx_ok (c : fctx) : Prop :=
  0 <= f_cur c /\ 0 <= f_dictSize c /\
  (forall h, 0 <= get (f_tab c) h <= f_cur c) /\
  (f_cur c <> 0 -> forall h, get (f_tab c) h < f_cur c) /\
  (* a table that was never used (clearedTable) belongs to a context at offset 0; and a 16-bit
     table is only kept below offset 64K *)
  (f_tt c = 0 -> f_cur c = 0) /\ (f_tt c = 0 \/ f_tt c = 2 \/ f_tt c = 3).

Lemma ctx_init_ok : ctx_ok ctx_init.
Proof.
  unfold ctx_ok, ctx_init. cbn [f_cur f_dictSize f_tab].
  repeat split; try lia; try (rewrite get_empty; lia). left; reflexivity.
Qed.

(* LZ4_compress_generic (noDict) on a context whose table is harmless for the chosen directives *)
Lemma compress_generic_nodict_sound c src srcSize cap od t small accel :
  src_ok src -> od <> FillOutput -> 1 <= accel -> 0 <= f_dictSize c -> 0 <= f_cur c ->
  tab_ok t CNoDict small (f_cur c) (f_dictSize c) 0 (f_cur c + 1) (f_tab c) ->
  (t = ByU16 -> srcSize < LZ4_64Klimit) ->
  (t = ByU16 -> 0 <= srcSize ->
   f_cur c + srcSize - MFLIMIT + 1 <= 65536 \/ (small = true /\ 65536 <= f_cur c - f_dictSize c)) ->
  let a := compress_generic_nodict c src srcSize cap od t small accel in
  (* the context after the call, successful or not *)
  ((srcSize <= 0 \/ srcSize > LZ4_MAX_INPUT_SIZE) -> a_ctx a = c) /\
  (0 < srcSize <= LZ4_MAX_INPUT_SIZE ->
   f_cur (a_ctx a) = f_cur c + srcSize /\ f_dictSize (a_ctx a) = f_dictSize c + srcSize /\
   f_tt (a_ctx a) = tt_code t /\
   forall h, 0 <= get (f_tab (a_ctx a)) h < f_cur c + srcSize) /\
  (* a positive result decodes to the input *)
  (0 < a_ret a ->
   a_ret a = Z.of_nat (length (a_out a)) /\
   strict_valid [] (a_out a) = Some (load_list src 0 (Z.to_nat srcSize)) /\
   (srcSize <> 0 -> a_consumed a = srcSize) /\
   bytes_ok (a_out a) = true).
Proof.
  intros Hsrc Hod Hacc Hds Hcur Htab Hu16 Hix. unfold compress_generic_nodict.
  destruct ((srcSize <? 0) || (srcSize >? LZ4_MAX_INPUT_SIZE)) eqn:E0; cbv zeta; cbn [a_ret a_ctx].
  { split; [reflexivity|]. split; [lia | lia]. }
  destruct (srcSize =? 0) eqn:E1.
  { assert (srcSize = 0) as -> by lia.
    destruct ((match od with NotLimited => false | _ => true end) && (cap <=? 0)); cbn [a_ret a_out a_consumed a_ctx];
      (split; [reflexivity|]; split; [lia|]); [lia|].
    intros _. split; [reflexivity | split; [reflexivity | split; [lia | reflexivity]]]. }
  assert (Ef : (match od with FillOutput => true | _ => false end) = false).
  { destruct od; try reflexivity. exfalso; apply Hod; reflexivity. }
  rewrite Ef. cbn [andb].
  set (vrd := fun i => get src (i - f_cur c)).
  assert (Hn : 0 <= srcSize) by lia.
  pose proof (compress_validated_factor vrd t od CNoDict small (f_cur c) (f_dictSize c) empty 0 srcSize cap accel
                (fun a => Hsrc (a - f_cur c)) Hds Hod) as F.
  assert (Hdt : CNoDict = CUsingDictCtx -> forall h, get empty h + 0 < f_cur c /\
                  good3 t CNoDict small (f_cur c) (f_dictSize c) (get empty h + 0)) by discriminate.
  assert (Hu : dist_active t = false -> f_cur c + srcSize - MFLIMIT - hist_lo CNoDict (f_cur c) (f_dictSize c) <= 65535).
  { unfold dist_active, hist_lo. destruct t; [discriminate|]. intros _.
    specialize (Hu16 eq_refl). unfold LZ4_64Klimit, MFLIMIT in *. lia. }
  assert (Hidx : t = ByU16 -> mflimitPlusOne (f_cur c) srcSize <= 65536
                              \/ (small = true /\ 65536 <= f_cur c - f_dictSize c /\ 0 <= 0)).
  { intros Et. unfold mflimitPlusOne, iend. destruct (Hix Et Hn) as [A|[A B]]; [left; lia | right; repeat split; try assumption; lia]. }
  specialize (F 0 Hcur Hdt Hu Hcur Hidx Hacc (f_tab c) Hn Htab).
  assert (HB : endB (f_cur c) srcSize = f_cur c + srcSize) by (unfold endB; lia).
  destruct (compress_validated vrd t od CNoDict small (f_cur c) (f_dictSize c) empty 0 srcSize cap accel (f_tab c))
    as [tab|ss last consumed tab hw] eqn:E; cbn [a_ret a_out a_consumed a_ctx f_cur f_dictSize f_tab]; cbn [RPost] in F.
  - split; [intros; lia|]. split; [|lia]. intros _. split; [reflexivity|]. split; [reflexivity|]. split; [reflexivity|].
    intros h. rewrite HB in F. destruct (F h) as [? _]. lia.
  - destruct F as (Ft & Fe & F1 & F2 & F3 & F4).
    split; [intros; lia|]. split.
    + intros _. split; [reflexivity|]. split; [reflexivity|]. split; [reflexivity|].
      intros h. rewrite HB in Ft. destruct (Ft h) as [? _]. lia.
    + intros _. split; [reflexivity|].
      assert (Hby : bytes_ok (encode_block ss last) = true).
      { apply encode_block_bytes; [eapply seqs_valid_wf; [|exact F2]; intros x; apply Hsrc|].
        subst last. apply seg_bytes_ok. intros x. apply Hsrc. }
      split; [|split; [intros _; exact F1 | exact Hby]].
      assert (R2 : strict_valid (seg vrd (hist_lo CNoDict (f_cur c) (f_dictSize c)) (f_cur c)) (encode_block ss last)
                   = Some (seg vrd (f_cur c) (f_cur c + srcSize))).
      { rewrite strict_valid_encode.
        - rewrite Fe. apply (factor_decodes vrd (hist_lo CNoDict (f_cur c) (f_dictSize c)) (f_cur c) (f_cur c + srcSize) ss last ltac:(unfold hist_lo; lia) F2 F3 F4).
        - eapply seqs_valid_wf; [|exact F2]. intros x. apply Hsrc.
        - subst last. apply seg_bytes_ok. intros x. apply Hsrc. }
      unfold hist_lo in R2. rewrite (seg_nil vrd (f_cur c) (f_cur c)) in R2 by lia.
      unfold vrd in R2. rewrite seg_load in R2 by lia. exact R2.
Qed.

(* ---- LZ4_compress_fast_extState / LZ4_compress_fast / LZ4_compress_default ---- *)
Lemma tab_ok_init t small : tab_ok t CNoDict small 0 0 0 (0 + 1) empty.
Proof. intros h. rewrite get_empty. split; [lia|]. left. left. unfold hist_lo. lia. Qed.

Lemma ttype_for_u16 n : ttype_for n = ByU16 -> n < LZ4_64Klimit.
Proof. unfold ttype_for. destruct (n <? LZ4_64Klimit) eqn:E; [lia | discriminate]. Qed.

Theorem compress_fast_extState_roundtrip src srcSize cap accel :
  src_ok src ->
  let a := compress_fast_extState src srcSize cap accel in
  0 < a_ret a ->
  a_ret a = Z.of_nat (length (a_out a)) /\
  strict_valid [] (a_out a) = Some (load_list src 0 (Z.to_nat srcSize)).
Proof.
  intros Hsrc. unfold compress_fast_extState. cbv zeta.
  pose proof (clamp_accel_ge accel) as Hacc.
  destruct (cap >=? compressBound srcSize);
    (match goal with |- 0 < a_ret (compress_generic_nodict ?c ?s ?n ?cp ?od ?t ?sm ?ac) -> _ =>
       pose proof (compress_generic_nodict_sound c s n cp od t sm ac Hsrc ltac:(discriminate) Hacc
                     ltac:(cbn; lia) ltac:(cbn; lia) (tab_ok_init t sm) (ttype_for_u16 n)
                     ltac:(intros Et _; left; pose proof (ttype_for_u16 _ Et); cbn; unfold LZ4_64Klimit, MFLIMIT in *; lia)) as H
     end; cbv zeta in H; intros Hr; destruct H as (_ & _ & H); destruct (H Hr) as (A & B & _); split; assumption).
Qed.

(* ---- LZ4_compress_fast_extState_fastReset on a reused context ---- *)
Lemma prepareTable_cases c n t :
  ctx_ok c ->
  let c1 := prepareTable c n t in
  ctx_ok c1 /\ f_dictSize c1 = 0 /\
  tab_ok t CNoDict (match t with ByU16 => negb (f_cur c1 =? 0) | ByU32 => false end)
         (f_cur c1) 0 0 (f_cur c1 + 1) (f_tab c1) /\
  (t = ByU16 -> 0 <= n -> f_cur c1 + n - MFLIMIT + 1 <= 65536 \/ f_cur c1 = 0).
Proof.
  intros (H1 & H2 & H3 & H4 & H5 & H6). unfold prepareTable. cbv zeta.
  set (reset := negb (f_tt c =? tt_code t)
                || match t with ByU16 => f_cur c + n >=? 65535 | ByU32 => false end
                || match t with ByU32 => f_cur c >? 1073741824 | ByU16 => false end
                || (n >=? 4096)).
  assert (Kempty : ctx_ok (mkF empty 0 0 0)).
  { unfold ctx_ok. cbn [f_cur f_dictSize f_tab f_tt]. split; [lia|]. split; [lia|].
    split; [intros h; rewrite get_empty; lia|]. split; [intros; lia|]. split; [reflexivity | left; reflexivity]. }
  assert (Kgap : f_cur c <> 0 -> ctx_ok (mkF (f_tab c) (f_cur c + 65536) (f_tt c) 0)).
  { intros Hc0. unfold ctx_ok. cbn [f_cur f_dictSize f_tab f_tt]. split; [lia|]. split; [lia|].
    split; [intros h; specialize (H3 h); lia|]. split; [intros _ h; specialize (H3 h); lia|].
    split; [intros E; specialize (H5 E); lia | exact H6]. }
  assert (Ksame : ctx_ok (mkF (f_tab c) (f_cur c) (f_tt c) 0)).
  { unfold ctx_ok. cbn [f_cur f_dictSize f_tab f_tt]. split; [lia|]. split; [lia|].
    split; [assumption|]. split; [assumption|]. split; assumption. }
  assert (Tgap : f_cur c <> 0 ->
                 tab_ok ByU32 CNoDict false (f_cur c + 65536) 0 0 (f_cur c + 65536 + 1) (f_tab c)).
  { intros Hc0 h. specialize (H3 h). split; [lia|].
    left. right. right. split; [reflexivity|]. unfold LZ4_DISTANCE_MAX. lia. }
  assert (Tzero : forall tt' sm, f_cur c = 0 -> tab_ok tt' CNoDict sm (f_cur c) 0 0 (f_cur c + 1) (f_tab c)).
  { intros tt' sm Hc0 h. specialize (H3 h). split; [lia|]. left. left. unfold hist_lo. lia. }
  assert (Tsmall : f_cur c <> 0 -> tab_ok ByU16 CNoDict true (f_cur c) 0 0 (f_cur c + 1) (f_tab c)).
  { intros Hc0 h. specialize (H3 h). specialize (H4 Hc0 h). split; [lia|].
    left. right. left. split; [reflexivity | lia]. }
  assert (Tempty : forall tt' sm, tab_ok tt' CNoDict sm 0 0 0 (0 + 1) empty).
  { intros tt' sm h. rewrite get_empty. split; [lia|]. left. left. unfold hist_lo. lia. }
  destruct (negb (f_tt c =? 0) && reset) eqn:Er0.
  - (* table cleared *)
    replace (if negb (f_tt c =? 0) then if reset then mkF empty 0 0 (f_dictSize c) else c else c)
      with (mkF empty 0 0 (f_dictSize c))
      by (destruct (negb (f_tt c =? 0)); [destruct reset; [reflexivity | discriminate] | discriminate]).
    cbn [f_cur f_tab f_tt f_dictSize]. cbn [Z.eqb negb andb].
    split; [apply Kempty|]. split; [reflexivity|]. split; [destruct t; apply Tempty | intros; right; reflexivity].
  - (* table kept *)
    replace (if negb (f_tt c =? 0) then if reset then mkF empty 0 0 (f_dictSize c) else c else c) with c
      by (destruct (negb (f_tt c =? 0)); [destruct reset; [discriminate | reflexivity] | reflexivity]).
    destruct t.
    + (* ByU32: 64 KB gap *)
      destruct (f_cur c =? 0) eqn:E0; cbn [negb andb f_cur f_tab f_tt f_dictSize].
      * assert (Hz : f_cur c = 0) by lia.
        split; [apply Ksame|]. split; [reflexivity|]. split; [apply Tzero; assumption | discriminate].
      * split; [apply Kgap; lia|]. split; [reflexivity|]. split; [apply Tgap; lia | discriminate].
    + (* ByU16: dictSmall when the offset is not 0 *)
      rewrite andb_false_r. cbn [f_cur f_tab f_tt f_dictSize].
      split; [apply Ksame|]. split; [reflexivity|]. split.
      * destruct (f_cur c =? 0) eqn:E0; cbn [negb].
        -- assert (Hz : f_cur c = 0) by lia. apply Tzero; assumption.
        -- apply Tsmall. lia.
      * intros _ Hn0.
        destruct (f_tt c =? 0) eqn:Et; [right; apply H5; lia|]. cbn [negb andb] in Er0.
        left. unfold reset in Er0. unfold MFLIMIT. lia.
Qed.

Theorem compress_fast_extState_fastReset_sound c src srcSize cap accel :
  src_ok src -> ctx_ok c ->
  let a := compress_fast_extState_fastReset c src srcSize cap accel in
  ctx_ok (a_ctx a) /\
  (0 < a_ret a ->
   a_ret a = Z.of_nat (length (a_out a)) /\
   strict_valid [] (a_out a) = Some (load_list src 0 (Z.to_nat srcSize))).
Proof.
  intros Hsrc Hc. unfold compress_fast_extState_fastReset. cbv zeta.
  pose proof (clamp_accel_ge accel) as Hacc.
  pose proof (prepareTable_cases c srcSize (ttype_for srcSize) Hc) as P. cbv zeta in P.
  destruct P as (P0 & P1 & P3 & P4).
  set (c1 := prepareTable c srcSize (ttype_for srcSize)) in *.
  assert (P3' : tab_ok (ttype_for srcSize) CNoDict
                  (match ttype_for srcSize with ByU16 => negb (f_cur c1 =? 0) | ByU32 => false end)
                  (f_cur c1) (f_dictSize c1) 0 (f_cur c1 + 1) (f_tab c1)) by (rewrite P1; exact P3).
  destruct P0 as (Q1 & Q2 & Q3 & Q4 & Q5 & Q6).
  assert (K : forall (a : ares) (t : ttype),
           ((srcSize <= 0 \/ srcSize > LZ4_MAX_INPUT_SIZE) -> a_ctx a = c1) ->
           (0 < srcSize <= LZ4_MAX_INPUT_SIZE ->
            f_cur (a_ctx a) = f_cur c1 + srcSize /\ f_dictSize (a_ctx a) = f_dictSize c1 + srcSize /\
            f_tt (a_ctx a) = tt_code t /\
            forall h, 0 <= get (f_tab (a_ctx a)) h < f_cur c1 + srcSize) ->
           ctx_ok (a_ctx a)).
  { intros a t A1 A2.
    destruct (Z_le_gt_dec srcSize 0) as [Hle|Hgt]; [rewrite A1 by lia; exact (conj Q1 (conj Q2 (conj Q3 (conj Q4 (conj Q5 Q6)))))|].
    destruct (Z_gt_le_dec srcSize LZ4_MAX_INPUT_SIZE) as [Hg|Hl]; [rewrite A1 by lia; exact (conj Q1 (conj Q2 (conj Q3 (conj Q4 (conj Q5 Q6)))))|].
    destruct (A2 ltac:(lia)) as (B1 & B2 & B4 & B3).
    unfold ctx_ok. rewrite B1, B2, B4. split; [lia|]. split; [lia|].
    split; [intros; specialize (B3 h); lia|]. split; [intros; specialize (B3 h); lia|].
    split; [destruct t; cbn; lia | destruct t; cbn; auto]. }
  assert (Hix : ttype_for srcSize = ByU16 -> 0 <= srcSize ->
                f_cur c1 + srcSize - MFLIMIT + 1 <= 65536
                \/ (match ttype_for srcSize with ByU16 => negb (f_cur c1 =? 0) | ByU32 => false end = true
                    /\ 65536 <= f_cur c1 - f_dictSize c1)).
  { intros Et Hn0. left. pose proof (ttype_for_u16 _ Et) as Hlt.
    destruct (P4 Et Hn0) as [A|A]; [exact A|]. unfold LZ4_64Klimit, MFLIMIT in *. lia. }
  destruct (cap >=? compressBound srcSize);
    (match goal with |- ctx_ok (a_ctx (compress_generic_nodict ?c ?s ?n ?cp ?od ?t ?sm ?ac)) /\ _ =>
       pose proof (compress_generic_nodict_sound c s n cp od t sm ac Hsrc ltac:(discriminate) Hacc
                     ltac:(lia) Q1 P3' (ttype_for_u16 n) Hix) as H
     end; cbv zeta in H; destruct H as (A1 & A2 & A3);
     split; [eapply K; eassumption | intros Hr; destruct (A3 Hr) as (A & B & _); split; assumption]).
Qed.

(* ---- any history of fast-reset one-shot compressions on one context ---- *)
Record call := mkCall { k_src : mem; k_size : Z; k_cap : Z; k_accel : Z }.
Fixpoint run_history (c : fctx) (calls : list call) : list (call * ares) :=
  match calls with
  | [] => []
  | k :: r => let a := compress_fast_extState_fastReset c (k_src k) (k_size k) (k_cap k) (k_accel k) in
              (k, a) :: run_history (a_ctx a) r
  end.

Theorem fastReset_history_sound : forall calls c,
  ctx_ok c -> Forall (fun k => src_ok (k_src k)) calls ->
  Forall (fun ka => let '(k, a) := ka in
            0 < a_ret a ->
            a_ret a = Z.of_nat (length (a_out a)) /\
            strict_valid [] (a_out a) = Some (load_list (k_src k) 0 (Z.to_nat (k_size k))))
         (run_history c calls).
Proof.
  induction calls as [|k r IH]; intros c Hc Hs; cbn [run_history]; [constructor|].
  inversion Hs as [|k' r' Hk Hr]; subst.
  pose proof (compress_fast_extState_fastReset_sound c (k_src k) (k_size k) (k_cap k) (k_accel k) Hk Hc) as H.
  cbv zeta in H. destruct H as [H1 H2].
  constructor; [exact H2 | apply IH; assumption].
Qed.

Print Assumptions compress_fast_extState_roundtrip.
Print Assumptions fastReset_history_sound.
