(* C05 converse at the level of dec_generic and of the public entry points (safe loop). *)
From Coq Require Import ZArith List Lia Bool ZifyBool.
From LZ4V Require Import Gen.Consts Spec.BlockSpec Model.Mem Model.Dec Model.DecApi.
From LZ4V Require Import Proofs.DecRefineBase Proofs.DecRefineSafe Proofs.DecRefineTop Proofs.DecRefineApi.
From LZ4V Require Import Proofs.DecConverseErr Proofs.DecConverse.
Import ListNotations.
Local Open Scope Z_scope.

(* success: the block parses, its sequences execute on the history, and the image is that content *)
Definition sound_result (res : Z * mem * bool) (hist B : list Z) : Prop :=
  let '(r, m, k) := res in
  0 <= r ->
  zero_off (S (length B)) B = true \/
  exists D, spec_decode hist B = Some D /\ r = Z.of_nat (length D) /\
            forall i, 0 <= i < r -> get m i = nth (Z.to_nat i) D 0.

Section Top.
  Variables (dict : ddict) (srcm : mem) (dictm : mem) (dictSize : Z).
  Variables (lowPrefix rlow : Z).
  Hypothesis HlowP : lowPrefix <= 0.
  Hypothesis Hds : 0 <= dictSize.
  Hypothesis Hext : is_extdict dict = false -> dictSize = 0.
  Hypothesis Hp64 : is_prefix64k dict = true -> lowPrefix <= -65535.
  Hypothesis Hsrc : forall a, 0 <= get srcm a < 256.

  Theorem dec_generic_sound (fastloop : bool) (B hist : list Z) cap m0 :
    bytes B -> src_at srcm 0 B ->
    out_at (vget lowPrefix dictm dictSize m0) 0 (rev hist) ->
    avail dict lowPrefix dictSize 0 (rev hist) ->
    sound_result (dec_generic fastloop false dict srcm (Z.of_nat (length B)) cap lowPrefix rlow dictm dictSize m0) hist B.
  Proof.
    intros Hb Hs Hh Hav. unfold sound_result, dec_generic.
    destruct (cap <? 0) eqn:E1; [intros; lia|].
    destruct (cap =? 0) eqn:E0.
    - cbn [negb].
      destruct (Z.of_nat (length B) =? 1) eqn:EB; [|intros; lia].
      destruct (get srcm 0 / 2 ^ ML_BITS =? 0) eqn:Et; [|intros; lia].
      intros _. right. exists [].
      destruct B as [|tok [|x r]]; cbn [length] in EB; try lia.
      destruct (src_at_cons _ _ _ _ Hs) as [Htok _]. rewrite Htok in Et. change (2 ^ ML_BITS) with 16 in Et.
      split; [|split; [reflexivity | intros; lia]].
      unfold spec_decode, parse_block. cbn [length]. rewrite parse_seqs_S.
      unfold read_len. assert (E : (tok / 16 =? 15) = false) by lia. rewrite E.
      replace (tok / 16) with 0 by lia. cbn [Z.to_nat take].
      unfold run_seqs. cbn [apply_seqs rev app]. f_equal.
      rewrite skipn_all2; [reflexivity | rewrite rev_length, rev_length; lia].
    - destruct (Z.of_nat (length B) =? 0) eqn:EB; [intros; lia|].
      pose proof (run_rev dict srcm (Z.of_nat (length B)) cap lowPrefix rlow dictm dictSize HlowP Hds Hext Hp64 Hsrc
                    (Z.to_nat (Z.of_nat (length B)) + 2) (fastloop && negb (cap <? FASTLOOP_SAFE_DISTANCE)) (mkD 0 0 m0 true) B (rev hist) (S (length B))) as HR.
      cbn [ip op dm] in HR.
      specialize (HR Hs Hb ltac:(lia) ltac:(lia) ltac:(lia) Hh Hav ltac:(lia)).
      destruct (run false dict srcm (Z.of_nat (length B)) cap lowPrefix rlow dictm dictSize
                  (Z.to_nat (Z.of_nat (length B)) + 2) (fastloop && negb (cap <? FASTLOOP_SAFE_DISTANCE)) (mkD 0 0 m0 true)) as [r s'].
      intros Hr. destruct (HR Hr) as [Hz|(ss & last & rout' & Hp & Ha & Hrr & Hro & Hout)]; [left; exact Hz|].
      right. exists (skipn (length hist) (rev (rev last ++ rout'))).
      assert (Hsd : spec_decode hist B = Some (skipn (length hist) (rev (rev last ++ rout')))).
      { unfold spec_decode, parse_block. unfold byte in *. rewrite Hp. unfold run_seqs. unfold byte in *. rewrite Ha. reflexivity. }
      split; [exact Hsd|].
      pose proof (run_seqs_length hist ss last _ ltac:(unfold run_seqs; unfold byte in *; rewrite Ha; reflexivity)) as HlenD.
      split; [lia|].
      intros i Hi.
      rewrite <- (vget_hi lowPrefix dictm dictSize (dm s') i) by lia.
      apply content_of_image with (n := r).
      + exact Hout.
      + apply apply_seqs_length in Ha. rewrite rev_length in Ha. rewrite app_length, rev_length.
        pose proof (total_len_last ss last). unfold byte in *. lia.
      + exact Hi.
  Qed.
End Top.

(* ---- the public entry points ---- *)
Definition C05_success_sound_full_statement : Prop :=
  forall (fastloop : bool) (pl : placement) (B hist : list Z) (srcm dictm : mem) (cap : Z) (m0 : mem),
    (forall a, 0 <= get srcm a < 256) -> bytes B -> src_at srcm 0 B -> hist_placed pl hist dictm m0 ->
    sound_result (decompress_usingDict fastloop false srcm (Z.of_nat (length B)) 0 cap pl dictm (Z.of_nat (length hist)) m0)
                 (lastn (Z.to_nat 65536) hist) B.

Theorem success_sound :
  forall (fastloop : bool) (pl : placement) (B hist : list Z) (srcm dictm : mem) (cap : Z) (m0 : mem),
    (forall a, 0 <= get srcm a < 256) -> bytes B -> src_at srcm 0 B -> hist_placed pl hist dictm m0 ->
    sound_result (decompress_usingDict fastloop false srcm (Z.of_nat (length B)) 0 cap pl dictm (Z.of_nat (length hist)) m0)
                 (lastn (Z.to_nat 65536) hist) B.
Proof.
  intros fastloop pl B hist srcm dictm cap m0 Hsrc Hb Hs Hh.
  unfold decompress_usingDict.
  pose proof (lastn_length (Z.to_nat 65536) hist) as Hl.
  destruct (Z.of_nat (length hist) =? 0) eqn:E0.
  - apply (dec_generic_sound NoDict srcm empty 0 0 0 ltac:(lia) ltac:(lia) ltac:(reflexivity) ltac:(discriminate) Hsrc fastloop); try assumption.
    + intros j Hj. rewrite rev_length in Hj. lia.
    + unfold avail, hroom. cbn [is_extdict]. rewrite rev_length. lia.
  - destruct pl.
    + unfold hist_placed in Hh. pose proof (out_at_lastn _ _ (Z.to_nat 65536) _ Hh) as Hh'.
      destruct (Z.of_nat (length hist) >=? 65536 - 1) eqn:E1.
      * apply (dec_generic_sound WithPrefix64k srcm empty 0 (-65536) (- Z.of_nat (length hist)) ltac:(lia) ltac:(lia) ltac:(reflexivity) ltac:(intros; lia) Hsrc fastloop); try assumption.
        -- apply view_prefix; [exact Hh' | rewrite rev_length; lia].
        -- unfold avail, hroom. cbn [is_extdict]. rewrite rev_length. lia.
      * apply (dec_generic_sound NoDict srcm empty 0 (- Z.of_nat (length hist)) (- Z.of_nat (length hist)) ltac:(lia) ltac:(lia) ltac:(reflexivity) ltac:(discriminate) Hsrc fastloop); try assumption.
        -- apply view_prefix; [exact Hh' | rewrite rev_length; lia].
        -- unfold avail, hroom. cbn [is_extdict]. rewrite rev_length. lia.
    + unfold hist_placed in Hh.
      apply (dec_generic_sound UsingExtDict srcm dictm (Z.of_nat (length hist)) 0 0 ltac:(lia) ltac:(lia) ltac:(discriminate) ltac:(discriminate) Hsrc fastloop); try assumption.
      * apply view_ext. exact Hh.
      * unfold avail, hroom. cbn [is_extdict]. rewrite rev_length. lia.
Qed.

Theorem success_sound_full : C05_success_sound_full_statement.
Proof. exact success_sound. Qed.
