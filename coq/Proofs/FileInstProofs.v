(* Concrete runs of the lz4file model with the idealised decompressor (Model/FileInst.v):
   the defect F7 (LZ4F_readOpen carried over sizeof(buf) - consumed bytes instead of the bytes
   actually read) and its repair. *)
From Coq Require Import ZArith List Bool.
From LZ4V Require Import Gen.Consts Spec.BlockSpec Spec.XXH32 Spec.FrameSpec Model.FrameCSizes Model.File Model.FileInst.
From LZ4V Require Import Proofs.FileProofs.
Import ListNotations.
Local Open Scope Z_scope.

Lemma empty_frame_file_ok : frame_ok empty_frame_file [] /\ length empty_frame_file = 11%nat.
Proof. vm_compute. split; reflexivity. Qed.

(* Old LZ4F_readOpen: for the 11-byte file of an empty content there are uninitialised
   bytes for which the first LZ4F_read fails with frameType_unknown instead of returning 0 *)
Lemma old_readOpen_refuted :
  exists junk,
    read_session_ideal strict_valid false junk empty_frame_file [1%nat] = FOk [FErr C10_ERR_frameType_unknown] /\
    FOk [FErr C10_ERR_frameType_unknown] <> FOk (chop [] [1%nat]).
Proof.
  exists [1; 2; 3; 4; 5; 6; 7; 8]. split; [vm_compute; reflexivity|discriminate].
Qed.

(* ... and contents of 1 and 3 bytes only work when the stack bytes happen to be harmless *)
Definition tiny_frame_file (content : list byte) : list byte :=
  header_bytes (mkDesc false false None false None 4)
  ++ le_bytes 4 (2147483648 + Z.of_nat (length content)) ++ content ++ [0; 0; 0; 0].

Lemma old_readOpen_short_contents :
  frame_ok (tiny_frame_file [65]) [65] /\
  read_session_ideal strict_valid false [9; 9; 9; 9; 9; 9; 9; 9] (tiny_frame_file [65]) [4%nat; 4%nat]
    = FOk [FOk [65]; FOk []] /\          (* 16-byte file: 3 junk bytes, swallowed silently *)
  read_session_ideal strict_valid false [9; 9; 9; 9; 9; 9; 9; 9] empty_frame_file [4%nat; 4%nat]
    <> FOk (chop [] [4%nat; 4%nat]).
Proof. vm_compute. repeat split; try reflexivity. discriminate. Qed.

(* Current LZ4F_readOpen on the same files, whatever the stack holds *)
Lemma fixed_readOpen_examples :
  read_session_ideal strict_valid true [1; 2; 3; 4; 5; 6; 7; 8] empty_frame_file [1%nat; 0%nat; 5%nat]
    = FOk (chop [] [1%nat; 0%nat; 5%nat]) /\
  read_session_ideal strict_valid true [1; 2; 3; 4; 5; 6; 7; 8] (tiny_frame_file [65; 66; 67]) [2%nat; 0%nat; 5%nat; 1%nat]
    = FOk (chop [65; 66; 67] [2%nat; 0%nat; 5%nat; 1%nat]).
Proof. vm_compute. split; reflexivity. Qed.
