(* C16, converse direction for PARTIAL decoding (partial = true in Model.Dec): whenever
   LZ4_decompress_safe_partial(_usingDict) reports success with result r on ARBITRARY input,
   the first r bytes of the destination are the first r bytes of what the specification's
   sequence semantics define for that input - unless a parsed sequence has match offset 0
   (finding F5).

   "What the sequence semantics define" for an arbitrary byte string is [sem]: the parsed
   sequences are executed in order (Spec.read_len, Spec.copy_match) for as long as the
   input provides them; a literal run that the input cuts short contributes the literals
   that are present.  For a complete valid block [sem] is the decoded content.

   Method as in DecConverse.v: each decision of the decoder either leads to [Err] or puts
   the forward (memory) lemmas of DecRefineSafe.v in a position to apply. *)
From Coq Require Import ZArith List Lia Bool ZifyBool.
From LZ4V Require Import Gen.Consts Spec.BlockSpec Model.Mem Model.Dec.
From LZ4V Require Import Model.DecSem.
From LZ4V Require Import Proofs.DecSafe Proofs.DecRefineBase Proofs.DecRefineSafe Proofs.DecConverse.
Import ListNotations.
Local Open Scope Z_scope.

Lemma sem_S f rout (bs : list Z) :
  sem (S f) rout bs =
  match bs with
  | [] => rout
  | tok :: r =>
    match read_len (tok / 16) r with
    | None => rout
    | Some (ll, r1) =>
      let rout1 := rev (firstn (Z.to_nat ll) r1) ++ rout in
      match skipn (Z.to_nat ll) r1 with
      | o1 :: o2 :: r3 =>
        match read_len (tok mod 16) r3 with
        | None => rout1
        | Some (ml, r4) =>
          match apply_seq rout (mkSeq (firstn (Z.to_nat ll) r1) (o1 + 256 * o2) (ml + 4)) with
          | Some rout2 => sem f rout2 r4
          | None => rout1
          end
        end
      | _ => rout1
      end
    end
  end.
Proof. reflexivity. Qed.

Lemma apply_seq_suffix rout s rout2 :
  apply_seq rout s = Some rout2 -> exists Z0, rout2 = Z0 ++ rev (s_lits s) ++ rout.
Proof.
  unfold apply_seq. destruct (off_ok (s_off s) && (4 <=? s_mlen s)); [|discriminate].
  intros H. pose proof (copy_match_skipn _ _ _ _ H) as Hs.
  exists (firstn (Z.to_nat (s_mlen s)) rout2).
  rewrite <- Hs. symmetry. apply firstn_skipn.
Qed.

(* the semantics only ever append (in front of) the output so far *)
Lemma sem_suffix : forall f rout bs, exists Z0, sem f rout bs = Z0 ++ rout.
Proof.
  induction f as [|f IH]; intros rout bs; [exists []; reflexivity|].
  rewrite sem_S. destruct bs as [|tok r]; [exists []; reflexivity|].
  destruct (read_len (tok / 16) r) as [[ll r1]|]; [|exists []; reflexivity].
  cbv zeta.
  set (lits := firstn (Z.to_nat ll) r1).
  assert (H1 : exists Z0, rev lits ++ rout = Z0 ++ rout) by (exists (rev lits); reflexivity).
  destruct (skipn (Z.to_nat ll) r1) as [|o1 [|o2 r3]]; try exact H1.
  destruct (read_len (tok mod 16) r3) as [[ml r4]|]; [|exact H1].
  destruct (apply_seq rout (mkSeq lits (o1 + 256 * o2) (ml + 4))) as [rout2|] eqn:E; [|exact H1].
  destruct (apply_seq_suffix _ _ _ E) as [Z1 HZ1]. cbn [s_lits] in HZ1.
  destruct (IH rout2 r4) as [Z2 HZ2]. exists (Z2 ++ Z1 ++ rev lits). rewrite HZ2, HZ1, <- !app_assoc. reflexivity.
Qed.

(* the image [m] below [o] is the semantics [T] cut [c] bytes before its end; [base] = |history| *)
Definition img_ok (f : Z -> Z) (o : Z) (T : list Z) (base : Z) : Prop :=
  exists c : nat, out_at f o (skipn c T) /\ Z.of_nat (length T) - Z.of_nat c = base + o /\ (c <= length T)%nat.

Lemma img_ok_of_suffix (f : Z -> Z) o (T X Y : list Z) base (c : nat) :
  T = Y ++ X -> out_at f o (skipn c X) -> Z.of_nat (length X) - Z.of_nat c = base + o -> (c <= length X)%nat ->
  img_ok f o T base.
Proof.
  intros -> O Hl Hc. exists (length Y + c)%nat.
  rewrite skipn_app. rewrite skipn_all2 by lia. replace (length Y + c - length Y)%nat with c by lia.
  cbn [app]. split; [exact O|]. rewrite app_length. split; lia.
Qed.

Section PRev.
  Variables (dict : ddict) (srcm : mem).
  Variables (iend oend lowPrefix rlow : Z) (dictm : mem) (dictSize : Z).
  Hypothesis HlowP : lowPrefix <= 0.
  Hypothesis Hds : 0 <= dictSize.
  Hypothesis Hext : is_extdict dict = false -> dictSize = 0.
  Hypothesis Hp64 : is_prefix64k dict = true -> lowPrefix <= -65535.
  Hypothesis Hsrc : forall a, 0 <= get srcm a < 256.

  Notation vget := (vget lowPrefix dictm dictSize).
  Notation hroom := (hroom dict dictSize).

  Ltac unf :=
    unfold wr, rd_src, rd_dst, rd_dict, checkOffset, shortiend, shortoend,
      MINMATCH, LASTLITERALS, MFLIMIT, MATCH_SAFEGUARD_DISTANCE,
      FASTLOOP_SAFE_DISTANCE, WILDCOPYLENGTH, ML_MASK, RUN_MASK in *;
    cbn [ip op dm ok] in *.
  Ltac fin := unfold byte in *; unf; lia.

  (* ---------- read_variable_length succeeded => read_ext does ---------- *)
  Lemma prvl_loop_rev : forall fuel (bs : list Z) p len kf ilimit acc,
    src_at srcm p bs -> p + Z.of_nat (length bs) = iend -> ilimit < iend ->
    match rvl_loop srcm iend fuel p len kf ilimit with
    | (Some l, p', _) =>
        exists v (r : list Z), read_ext bs acc = Some (v, r) /\ l = len + (v - acc) /\
                               p' = p + (Z.of_nat (length bs) - Z.of_nat (length r)) /\ p' <= ilimit /\
                               (length r < length bs)%nat
    | (None, _, _) => True
    end.
  Proof.
    induction fuel as [|f IH]; intros bs p len kf ilimit acc Hs Hie Hil; cbn [rvl_loop]; [exact I|].
    cbv zeta.
    destruct (p + 1 >? ilimit) eqn:E1; [exact I|].
    destruct bs as [|b r0]; [cbn [length] in Hie; lia|].
    destruct (src_at_cons _ _ _ _ Hs) as [Hb Hs'].
    rewrite Hb. cbn [read_ext].
    destruct (b =? 255) eqn:E255.
    - specialize (IH r0 (p + 1) (len + b) (kf && rd_src iend p 1) ilimit (acc + 255) Hs').
      cbn [length] in Hie.
      destruct (rvl_loop srcm iend f (p + 1) (len + b) (kf && rd_src iend p 1) ilimit) as [[[l|] p'] k']; [|exact I].
      destruct IH as (v & r & H1 & H2 & H3 & H4 & H5); [lia | lia |].
      exists v, r. cbn [length]. repeat split; try assumption; lia.
    - exists (acc + b), r0. cbn [length]. repeat split; lia.
  Qed.

  Lemma prvl_rev (bs : list Z) p ilimit ic kf :
    src_at srcm p bs -> p + Z.of_nat (length bs) = iend -> ilimit < iend ->
    match rvl srcm iend p ilimit ic kf with
    | (Some l, p', _) =>
        exists v (r : list Z), read_ext bs 15 = Some (v, r) /\ l = v - 15 /\
                               p' = p + (Z.of_nat (length bs) - Z.of_nat (length r)) /\ p' <= ilimit /\
                               (length r < length bs)%nat
    | (None, _, _) => True
    end.
  Proof.
    intros Hs Hie Hil. unfold rvl.
    destruct (ic && (p >=? ilimit)); [exact I|].
    pose proof (prvl_loop_rev (Z.to_nat iend + 1) bs p 0 kf ilimit 15 Hs Hie Hil) as H.
    destruct (rvl_loop srcm iend (Z.to_nat iend + 1) p 0 kf ilimit) as [[[l|] p'] k']; [|exact I].
    destruct H as (v & r & H1 & H2 & H3 & H4 & H5). exists v, r. repeat split; try assumption; lia.
  Qed.

  Lemma pcopy_match_total : forall n (rout : list Z) off,
    (1 <= off <= length rout)%nat -> exists r', copy_match rout off n = Some r'.
  Proof.
    induction n as [|n IH]; intros rout off Ho; cbn [copy_match]; [eexists; reflexivity|].
    unfold byte in *.
    destruct (nth_error rout (off - 1)) as [b|] eqn:E.
    - apply IH. cbn [length]. lia.
    - apply nth_error_None in E. lia.
  Qed.

  (* history available to the specification covers every offset the decoder accepts, and
     lies entirely in the region the memory view describes *)
  Definition pavail (o : Z) (rout : list Z) : Prop :=
    (o - lowPrefix + hroom <= Z.of_nat (length rout) \/ 65535 <= Z.of_nat (length rout)).

  (* ---------- safe_match in partial mode ---------- *)
  Definition pmatch_facts (s : dstate) (offset mlen : Z) (s' : dstate) : Prop :=
    op s' = op s + Z.min mlen (oend - op s) /\ same_below (dm s) (dm s') (op s) /\
    frec (vget (dm s')) offset (op s) (op s + Z.min mlen (oend - op s)) /\
    lowPrefix - hroom <= op s - offset.

  Lemma safe_match_pany s offset length :
    0 <= offset <= 65535 -> 4 <= length -> 0 <= op s -> op s <= oend ->
    match safe_match true dict oend lowPrefix rlow dictm dictSize s offset length with
    | Err _ => True
    | Cont f s' => f = false /\ ip s' = ip s /\
                   (1 <= offset -> pmatch_facts s offset length s' /\
                                   (Z.min length (oend - op s) = length \/ op s' = oend))
    | Done s' => ip s' = ip s /\ (1 <= offset -> pmatch_facts s offset length s' /\ op s' = oend)
    end.
  Proof.
    intros Ho Hlen Hop Hoe.
    assert (Hgen : match safe_match true dict oend lowPrefix rlow dictm dictSize s offset length with
                   | Cont f s' => f = false /\ ip s' = ip s | Done s' => ip s' = ip s | Err _ => True end).
    { unfold safe_match, ext_match. cbv zeta. cbn [andb negb].
      repeat match goal with
      | |- match (if ?c then _ else _) with _ => _ end => destruct c
      | |- match (let '(_, _) := ?p in _) with _ => _ end => destruct p
      end; try exact I; try (split; reflexivity); reflexivity. }
    destruct (checkOffset dictSize && (op s - offset + dictSize <? lowPrefix)) eqn:Echk.
    { unfold safe_match. cbv zeta. rewrite Echk. exact I. }
    assert (Hacc : lowPrefix - hroom <= op s - offset).
    { unfold DecRefineSafe.hroom. destruct (is_extdict dict) eqn:Ee.
      - unfold checkOffset in Echk. lia.
      - rewrite (Hext eq_refl) in Echk. unfold checkOffset in Echk. lia. }
    destruct (Z_le_gt_dec 1 offset) as [H1|H0].
    - pose proof (safe_match_part true dict oend lowPrefix rlow dictm dictSize HlowP Hds s offset length eq_refl H1 Hacc Hlen Hop Hoe) as H.
      destruct (safe_match true dict oend lowPrefix rlow dictm dictSize s offset length) as [[|] s'|s'|s'];
        cbn [is_cont_or_done] in H; try contradiction; try exact I.
      + destruct H as (Ha & Hb & Hc & Hd & He). split; [reflexivity|]. split; [exact Ha|]. intros _.
        split; [repeat split; assumption | exact He].
      + destruct H as (Ha & Hb & Hc & Hd & He). split; [exact Ha|]. intros _.
        split; [repeat split; assumption | exact He].
    - destruct (safe_match true dict oend lowPrefix rlow dictm dictSize s offset length) as [f s'|s'|s']; try exact I.
      + destruct Hgen as [Hf Hi]. split; [exact Hf|]. split; [exact Hi|]. intros; lia.
      + split; [exact Hgen|]. intros; lia.
  Qed.

  (* ---------- _copy_match in partial mode ---------- *)
  Lemma copy_match_lbl_pcases s offset nib (r3 : list Z) :
    src_at srcm (ip s) r3 -> bytes r3 -> ip s + Z.of_nat (length r3) = iend -> (1 <= length r3)%nat ->
    0 <= nib <= 15 -> 0 <= offset <= 65535 -> 0 <= op s -> op s <= oend ->
    match copy_match_lbl true dict srcm iend oend lowPrefix rlow dictm dictSize s offset nib with
    | Err _ => True
    | Cont f s' =>
        f = false /\
        exists ml (r4 : list Z), read_len nib r3 = Some (ml, r4) /\ (length r4 <= length r3)%nat /\ (1 <= length r4)%nat /\
          nib <= ml /\ ip s' = ip s + (Z.of_nat (length r3) - Z.of_nat (length r4)) /\
          (1 <= offset -> pmatch_facts s offset (ml + 4) s' /\
                          (Z.min (ml + 4) (oend - op s) = ml + 4 \/ op s' = oend))
    | Done s' =>
        exists ml (r4 : list Z), read_len nib r3 = Some (ml, r4) /\ nib <= ml /\
          (1 <= offset -> pmatch_facts s offset (ml + 4) s' /\ op s' = oend)
    end.
  Proof.
    intros Hs Hb Hie Hne Hnib Ho Hop Hoe.
    unfold copy_match_lbl, read_len.
    destruct (nib =? ML_MASK) eqn:E15.
    - assert (E15' : (nib =? 15) = true) by fin. rewrite E15'.
      pose proof (prvl_rev r3 (ip s) (iend - LASTLITERALS + 1) false (ok s) Hs Hie ltac:(fin)) as HR.
      destruct (rvl srcm iend (ip s) (iend - LASTLITERALS + 1) false (ok s)) as [[[addl|] p'] k']; [|exact I].
      destruct HR as (v & r4 & H1 & H2 & H3 & H4 & H5).
      pose proof (read_ext_ge _ _ _ _ Hb H1) as Hv.
      pose proof (safe_match_pany (mkD p' (op s) (dm s) k') offset (nib + addl + MINMATCH) Ho ltac:(fin) Hop Hoe) as HM.
      replace (nib + addl + MINMATCH) with (v + 4) in * by fin.
      destruct (safe_match true dict oend lowPrefix rlow dictm dictSize (mkD p' (op s) (dm s) k') offset (v + 4)) as [f s'|s'|s']; try exact I.
      + destruct HM as (Hf & Hi & Hm). cbn [ip op dm] in *.
        split; [exact Hf|]. exists v, r4. split; [exact H1|]. split; [lia|]. split; [fin|]. split; [fin|]. split; [lia|].
        intros H1o. destruct (Hm H1o) as [Hpm Hor]. split; [exact Hpm | exact Hor].
      + destruct HM as (Hi & Hm). cbn [ip op dm] in *.
        exists v, r4. split; [exact H1|]. split; [fin|].
        intros H1o. exact (Hm H1o).
    - assert (E15' : (nib =? 15) = false) by fin. rewrite E15'.
      pose proof (safe_match_pany s offset (nib + MINMATCH) Ho ltac:(fin) Hop Hoe) as HM.
      replace (nib + MINMATCH) with (nib + 4) in * by fin.
      destruct (safe_match true dict oend lowPrefix rlow dictm dictSize s offset (nib + 4)) as [f s'|s'|s']; try exact I.
      + destruct HM as (Hf & Hi & Hm).
        split; [exact Hf|]. exists nib, r3. split; [reflexivity|]. split; [lia|]. split; [lia|]. split; [lia|]. split; [lia|].
        exact Hm.
      + destruct HM as (Hi & Hm). exists nib, r3. split; [reflexivity|]. split; [lia|]. exact Hm.
  Qed.

  (* ---------- what a (possibly cut) sequence amounts to on the specification side ---------- *)
  Definition pseq_ok (o : Z) (rout lits : list Z) (off ml : Z) (done : bool) (s' : dstate) : Prop :=
    off = 0 \/
    (op s' = o + Z.of_nat (length lits) + Z.min (ml + 4) (oend - (o + Z.of_nat (length lits))) /\
     exists rout2, apply_seq rout (mkSeq lits off (ml + 4)) = Some rout2 /\
       out_at (vget (dm s')) (op s')
              (skipn (Z.to_nat (ml + 4 - Z.min (ml + 4) (oend - (o + Z.of_nat (length lits))))) rout2) /\
       (if done then op s' = oend
        else Z.min (ml + 4) (oend - (o + Z.of_nat (length lits))) = ml + 4 \/ op s' = oend)).

  Lemma pseq_ok_intro (o : Z) (m1 : mem) rout lits off ml (done : bool) s' :
    out_at (vget m1) (o + Z.of_nat (length lits)) (rev lits ++ rout) -> pavail o rout -> 0 <= o ->
    o + Z.of_nat (length lits) <= oend -> 0 <= off <= 65535 -> 0 <= ml ->
    (1 <= off ->
       (op s' = o + Z.of_nat (length lits) + Z.min (ml + 4) (oend - (o + Z.of_nat (length lits))) /\
        same_below m1 (dm s') (o + Z.of_nat (length lits)) /\
        frec (vget (dm s')) off (o + Z.of_nat (length lits))
             (o + Z.of_nat (length lits) + Z.min (ml + 4) (oend - (o + Z.of_nat (length lits)))) /\
        lowPrefix - hroom <= o + Z.of_nat (length lits) - off) /\
       (if done then op s' = oend
        else Z.min (ml + 4) (oend - (o + Z.of_nat (length lits))) = ml + 4 \/ op s' = oend)) ->
    pseq_ok o rout lits off ml done s'.
  Proof.
    intros O Hav Ho Hoe Hoff Hml H.
    destruct (Z.eq_dec off 0) as [E0|Hne]; [left; exact E0|]. right.
    destruct H as ((H1 & H2 & H3 & H4) & H5); [lia|].
    split; [exact H1|].
    assert (Hle : off <= Z.of_nat (length (rev lits ++ rout))).
    { rewrite app_length, rev_length. unfold pavail in Hav. lia. }
    destruct (pcopy_match_total (Z.to_nat (ml + 4)) (rev lits ++ rout) (Z.to_nat off)) as [rout2 Hcm]; [lia|].
    exists rout2. split.
    - unfold apply_seq. cbn [s_lits s_off s_mlen].
      assert (E : off_ok off && (4 <=? ml + 4) = true) by (unfold off_ok; lia). rewrite E. exact Hcm.
    - split; [|exact H5]. rewrite H1.
      apply (cut_match_out lowPrefix dictm dictSize m1 (dm s') (o + Z.of_nat (length lits)) off (ml + 4) _ (rev lits ++ rout) rout2); try assumption; lia.
  Qed.

  (* ---------- from the offset field on (partial) ---------- *)
  Lemma after_pcases (i o : Z) (m1 : mem) kf nib o1 o2 (r3 : list Z) rout lits :
    src_at srcm i (o1 :: o2 :: r3) -> bytes (o1 :: o2 :: r3) -> i + Z.of_nat (length (o1 :: o2 :: r3)) = iend ->
    (1 <= length r3)%nat -> 0 <= nib <= 15 -> 0 <= o -> o + Z.of_nat (length lits) <= oend ->
    out_at (vget m1) (o + Z.of_nat (length lits)) (rev lits ++ rout) -> pavail o rout ->
    match copy_match_lbl true dict srcm iend oend lowPrefix rlow dictm dictSize
            (mkD (i + 2) (o + Z.of_nat (length lits)) m1 kf) (o1 + 256 * o2) nib with
    | Err _ => True
    | Cont f s' =>
        f = false /\
        exists ml (r4 : list Z), read_len nib r3 = Some (ml, r4) /\ (length r4 <= length r3)%nat /\ (1 <= length r4)%nat /\
          ip s' = i + 2 + (Z.of_nat (length r3) - Z.of_nat (length r4)) /\
          pseq_ok o rout lits (o1 + 256 * o2) ml false s'
    | Done s' =>
        exists ml (r4 : list Z), read_len nib r3 = Some (ml, r4) /\ pseq_ok o rout lits (o1 + 256 * o2) ml true s'
    end.
  Proof.
    intros Hs Hb Hie Hne Hnib Ho Hoe O Hav.
    destruct (src_at_cons _ _ _ _ Hs) as [_ Hs1]. destruct (src_at_cons _ _ _ _ Hs1) as [_ Hs2].
    destruct (bytes_cons _ _ Hb) as [Hb1 Hb']. destruct (bytes_cons _ _ Hb') as [Hb2 Hb3].
    replace (i + 1 + 1) with (i + 2) in Hs2 by lia. cbn [length] in Hie.
    pose proof (copy_match_lbl_pcases (mkD (i + 2) (o + Z.of_nat (length lits)) m1 kf) (o1 + 256 * o2) nib r3) as HC.
    cbn [ip op dm] in HC.
    specialize (HC Hs2 Hb3 ltac:(lia) Hne Hnib ltac:(lia) ltac:(lia) Hoe).
    destruct (copy_match_lbl true dict srcm iend oend lowPrefix rlow dictm dictSize
                (mkD (i + 2) (o + Z.of_nat (length lits)) m1 kf) (o1 + 256 * o2) nib) as [f s'|s'|s']; [| | exact I].
    - destruct HC as (Hf & ml & r4 & H1 & H2 & H2' & H3 & H4 & H5).
      split; [exact Hf|]. exists ml, r4. split; [exact H1|]. split; [exact H2|]. split; [exact H2'|]. split; [exact H4|].
      apply (pseq_ok_intro o m1); try assumption; try lia;
        try (intros H1o; destruct (H5 H1o) as [(Ha & Hb4 & Hc & Hd) He]; cbn [op dm] in *; repeat split; assumption).
    - destruct HC as (ml & r4 & H1 & H3 & H5).
      exists ml, r4. split; [exact H1|].
      apply (pseq_ok_intro o m1); try assumption; try lia;
        try (intros H1o; destruct (H5 H1o) as [(Ha & Hb4 & Hc & Hd) He]; cbn [op dm] in *; repeat split; assumption).
  Qed.

  Lemma ptake_total : forall n (l : list Z), (n <= length l)%nat ->
    exists a t, take n l = Some (a, t) /\ l = a ++ t /\ length a = n.
  Proof.
    induction n as [|n IH]; intros l Hn; cbn [take].
    - exists [], l. repeat split.
    - destruct l as [|b r]; [cbn [length] in Hn; lia|].
      destruct (IH r) as (a & t & H1 & H2 & H3); [cbn [length] in Hn; lia|].
      unfold byte in *. rewrite H1. exists (b :: a), t. subst r. cbn [length]. repeat split. lia.
  Qed.

  Lemma src_at_firstn p (l : list Z) n : src_at srcm p l -> src_at srcm p (firstn n l).
  Proof.
    intros H j Hj. rewrite firstn_length in Hj. rewrite H by lia. symmetry. apply nth_firstn_lt. lia.
  Qed.

  (* ---------- safe_lit in partial mode ---------- *)
  Definition plit_post (p1 o : Z) (tok : Z) (r1 rout : list Z) (ll : Z) (out : dout) : Prop :=
    match out with
    | Err _ => True
    | Done s' =>
        (exists n : nat, Z.of_nat n <= ll /\ (n <= length r1)%nat /\ op s' = o + Z.of_nat n /\ op s' <= oend /\
                         out_at (vget (dm s')) (op s') (rev (firstn n r1) ++ rout))
        \/ (exists lits o1 o2 (r3 : list Z) ml (r4 : list Z),
              take (Z.to_nat ll) r1 = Some (lits, o1 :: o2 :: r3) /\ read_len (tok mod 16) r3 = Some (ml, r4) /\
              pseq_ok o rout lits (o1 + 256 * o2) ml true s')
    | Cont f s' =>
        f = false /\
        exists lits o1 o2 (r3 : list Z) ml (r4 : list Z),
          take (Z.to_nat ll) r1 = Some (lits, o1 :: o2 :: r3) /\ read_len (tok mod 16) r3 = Some (ml, r4) /\
          (length r4 <= length r3)%nat /\ (1 <= length r4)%nat /\
          ip s' = p1 + ll + 2 + (Z.of_nat (length r3) - Z.of_nat (length r4)) /\
          pseq_ok o rout lits (o1 + 256 * o2) ml false s'
    end.

  Lemma safe_lit_pcases p1 o m kf tok (r1 rout : list Z) ll :
    src_at srcm p1 r1 -> bytes r1 -> p1 + Z.of_nat (length r1) = iend -> 0 <= p1 ->
    0 <= tok < 256 -> 0 <= ll -> 0 <= o -> o <= oend ->
    out_at (vget m) o rout -> pavail o rout ->
    plit_post p1 o tok r1 rout ll
      (safe_lit true dict srcm iend oend lowPrefix rlow dictm dictSize (mkD p1 o m kf) tok ll).
  Proof.
    intros Hs Hb Hie Hp1 Htok Hll Ho Hoe O Hav.
    destruct (nibbles tok Htok) as [_ Hn2].
    (* the continuation into the match, after [lits] = the ll literals were copied exactly or with slack *)
    assert (HA : forall m1 kf' lits (r2 : list Z), take (Z.to_nat ll) r1 = Some (lits, r2) -> (3 <= length r2)%nat ->
               same_below m m1 o -> o + ll <= oend ->
               (forall j, (j < length lits)%nat -> get m1 (o + Z.of_nat j) = nth j lits 0) ->
               plit_post p1 o tok r1 rout ll
                 (copy_match_lbl true dict srcm iend oend lowPrefix rlow dictm dictSize
                    (mkD (p1 + ll + 2) (o + ll) m1 kf') (readLE16 srcm (p1 + ll)) (tok mod 16))).
    { intros m1 kf' lits r2 Ht Hr2 S1 Hfit L1.
      destruct r2 as [|o1 [|o2 r3]]; try (cbn [length] in Hr2; lia).
      destruct (take_spec _ _ _ _ Ht) as [Er1 Hlen]. unfold byte in *. subst r1.
      destruct (src_at_app _ _ _ _ Hs) as [Hsl Hs2]. destruct (bytes_app _ _ Hb) as [_ Hb2].
      rewrite app_length in Hie. cbn [length] in Hie, Hr2.
      assert (Ell : ll = Z.of_nat (length lits)) by lia. subst ll.
      rewrite (readLE16_src _ _ _ _ _ Hs2).
      pose proof (after_pcases (p1 + Z.of_nat (length lits)) o m1 kf' (tok mod 16) o1 o2 r3 rout lits Hs2 Hb2) as HP.
      specialize (HP ltac:(cbn [length]; lia) ltac:(lia) Hn2 Ho Hfit).
      specialize (HP ltac:(apply lits_out_v with (m := m); assumption) Hav).
      destruct (copy_match_lbl true dict srcm iend oend lowPrefix rlow dictm dictSize
                  (mkD (p1 + Z.of_nat (length lits) + 2) (o + Z.of_nat (length lits)) m1 kf') (o1 + 256 * o2) (tok mod 16)) as [f s'|s'|s'];
        cbn [plit_post]; [| | exact I].
      - destruct HP as (Hf & ml & r4 & H1 & H2 & H2' & H3 & H4).
        split; [exact Hf|]. exists lits, o1, o2, r3, ml, r4. repeat split; try assumption; lia.
      - destruct HP as (ml & r4 & H1 & H4). right.
        exists lits, o1, o2, r3, ml, r4. repeat split; assumption. }
    unfold safe_lit. cbv zeta. cbn [ip op dm negb andb orb].
    destruct ((o + ll >? oend - MFLIMIT) || (p1 + ll >? iend - (2 + 1 + LASTLITERALS))) eqn:Enear; cbv beta iota.
    - destruct (p1 + ll >? iend) eqn:Ec1; cbv beta iota.
      + (* the input ends inside the literal run *)
        destruct (o + (iend - p1) >? oend) eqn:Ec2; cbv beta iota.
        * assert (Ed : (oend =? oend) || (p1 + (oend - o) >=? iend - 2) = true) by lia. rewrite Ed.
          cbn [plit_post op dm]. left. exists (Z.to_nat (oend - o)).
          split; [lia|]. split; [lia|]. split; [lia|]. split; [lia|].
          replace (o + (oend - o)) with (o + Z.of_nat (length (firstn (Z.to_nat (oend - o)) r1))) by (rewrite firstn_length; lia).
          apply lits_out_v with (m := m); try assumption.
          -- apply blit_same_below.
          -- apply (blit_lits srcm); [apply src_at_firstn; exact Hs | rewrite firstn_length; lia].
        * assert (Ed : (o + (iend - p1) =? oend) || (p1 + (iend - p1) >=? iend - 2) = true) by lia. rewrite Ed.
          cbn [plit_post op dm]. left. exists (length r1).
          split; [lia|]. split; [lia|]. split; [lia|]. split; [lia|].
          rewrite firstn_all.
          replace (o + (iend - p1)) with (o + Z.of_nat (length r1)) by lia.
          apply lits_out_v with (m := m); try assumption.
          -- apply blit_same_below.
          -- apply (blit_lits srcm); [exact Hs | lia].
      + destruct (o + ll >? oend) eqn:Ec2; cbv beta iota.
        * (* the output window ends inside the literal run *)
          assert (Ed : (oend =? oend) || (p1 + (oend - o) >=? iend - 2) = true) by lia. rewrite Ed.
          cbn [plit_post op dm]. left. exists (Z.to_nat (oend - o)).
          split; [lia|]. split; [lia|]. split; [lia|]. split; [lia|].
          replace (o + (oend - o)) with (o + Z.of_nat (length (firstn (Z.to_nat (oend - o)) r1))) by (rewrite firstn_length; lia).
          apply lits_out_v with (m := m); try assumption.
          -- apply blit_same_below.
          -- apply (blit_lits srcm); [apply src_at_firstn; exact Hs | rewrite firstn_length; lia].
        * destruct ((o + ll =? oend) || (p1 + ll >=? iend - 2)) eqn:Ed; cbv beta iota.
          -- (* all the literals, then stop *)
             cbn [plit_post op dm]. left. exists (Z.to_nat ll).
             split; [lia|]. split; [lia|]. split; [lia|]. split; [lia|].
             replace (o + ll) with (o + Z.of_nat (length (firstn (Z.to_nat ll) r1))) by (rewrite firstn_length; lia).
             apply lits_out_v with (m := m); try assumption.
             ++ apply blit_same_below.
             ++ apply (blit_lits srcm); [apply src_at_firstn; exact Hs | rewrite firstn_length; lia].
          -- (* all the literals, then the match *)
             cbn [ip op dm].
             destruct (ptake_total (Z.to_nat ll) r1) as (lits & r2 & Ht & Hr1 & Hlen); [lia|].
             apply (HA _ _ lits r2 Ht).
             ++ subst r1. rewrite app_length in Hie. unfold byte in *. lia.
             ++ apply blit_same_below.
             ++ lia.
             ++ apply (blit_lits srcm); [subst r1; apply (src_at_app _ _ _ _ Hs) | unfold byte in *; lia].
    - (* far from both ends: wild copy of the literals, then the match *)
      assert (Hfar : o + ll <= oend - 12 /\ p1 + ll <= iend - 8) by fin.
      cbn [ip op dm].
      destruct (ptake_total (Z.to_nat ll) r1) as (lits & r2 & Ht & Hr1 & Hlen); [lia|].
      apply (HA _ _ lits r2 Ht).
      + subst r1. rewrite app_length in Hie. unfold byte in *. lia.
      + apply wild8_in_same_below.
      + lia.
      + replace ll with (Z.of_nat (length lits)) by (unfold byte in *; lia). apply wild8_in_lits. subst r1. apply (src_at_app _ _ _ _ Hs).
  Qed.

  (* ---------- one iteration, arbitrary input, partial mode ---------- *)
  Definition ptop_post (s : dstate) (bs rout : list Z) (out : dout) : Prop :=
    match out with
    | Err _ => True
    | Done s' =>
        exists tok (r : list Z) ll (r1 : list Z),
          bs = tok :: r /\ read_len (tok / 16) r = Some (ll, r1) /\ 0 <= ll /\
          ((exists n : nat, Z.of_nat n <= ll /\ (n <= length r1)%nat /\ op s' = op s + Z.of_nat n /\ op s' <= oend /\
                            out_at (vget (dm s')) (op s') (rev (firstn n r1) ++ rout))
           \/ (exists lits o1 o2 (r3 : list Z) ml (r4 : list Z),
                 take (Z.to_nat ll) r1 = Some (lits, o1 :: o2 :: r3) /\ read_len (tok mod 16) r3 = Some (ml, r4) /\
                 pseq_ok (op s) rout lits (o1 + 256 * o2) ml true s'))
    | Cont f s' =>
        (f = true -> op s' <= oend - 64) /\
        exists tok (r : list Z) ll (r1 lits : list Z) o1 o2 (r3 : list Z) ml (r4 : list Z),
          bs = tok :: r /\ read_len (tok / 16) r = Some (ll, r1) /\
          take (Z.to_nat ll) r1 = Some (lits, o1 :: o2 :: r3) /\ read_len (tok mod 16) r3 = Some (ml, r4) /\
          ip s' + Z.of_nat (length r4) = iend /\ (length r4 < length bs)%nat /\ (1 <= length r4)%nat /\
          pseq_ok (op s) rout lits (o1 + 256 * o2) ml false s'
    end.

  (* a sequence completed by an 18-byte copy *)
  Lemma pseq_ok_copy18 (o : Z) (m1 : mem) rout lits off ml kf i :
    out_at (vget m1) (o + Z.of_nat (length lits)) (rev lits ++ rout) -> pavail o rout -> 0 <= o ->
    8 <= off <= 65535 -> 0 <= ml -> ml + 4 <= 18 -> o + Z.of_nat (length lits) + (ml + 4) <= oend ->
    lowPrefix <= o + Z.of_nat (length lits) - off ->
    pseq_ok o rout lits off ml false
      (mkD i (o + Z.of_nat (length lits) + (ml + 4)) (copy18 m1 (o + Z.of_nat (length lits)) (o + Z.of_nat (length lits) - off)) kf).
  Proof.
    intros O Hav Ho Hoff Hml H18 Hfit Hmat.
    pose proof (hroom_range dict dictSize) as Hhr.
    destruct (copy18_lz m1 (o + Z.of_nat (length lits)) off) as [S R]; [lia|].
    apply (pseq_ok_intro o m1); try assumption; try lia.
    intros _. cbn [op dm].
    replace (Z.min (ml + 4) (oend - (o + Z.of_nat (length lits)))) with (ml + 4) by lia.
    split; [|left; reflexivity]. split; [reflexivity|]. split; [exact S|]. split; [|lia].
    apply lzrec_v; [|lia|lia]. eapply lzrec_weaken; [exact R | lia | lia].
  Qed.

  Lemma safe_top_pcases s (bs rout : list Z) :
    src_at srcm (ip s) bs -> bytes bs -> ip s + Z.of_nat (length bs) = iend -> 0 <= ip s < iend ->
    0 <= op s -> op s <= oend -> out_at (vget (dm s)) (op s) rout -> pavail (op s) rout ->
    ptop_post s bs rout (safe_top true dict srcm iend oend lowPrefix rlow dictm dictSize s) /\
    match safe_top true dict srcm iend oend lowPrefix rlow dictm dictSize s with Cont f _ => f = false | _ => True end.
  Proof.
    intros Hs Hb Hie Hip Hop Hoe O Hav.
    destruct bs as [|tok r]; [cbn [length] in Hie; lia|].
    destruct (bytes_cons _ _ Hb) as [Htok Hbr].
    destruct (src_at_cons _ _ _ _ Hs) as [Htokm Hsr].
    destruct (nibbles tok Htok) as [Hn1 Hn2].
    cbn [length] in Hie.
    unfold safe_top. cbv zeta. rewrite Htokm.
    assert (HL : forall p1 kf ll (r1 : list Z), read_len (tok / 16) r = Some (ll, r1) ->
               src_at srcm p1 r1 -> bytes r1 -> p1 + Z.of_nat (length r1) = iend -> 0 <= p1 -> 0 <= ll ->
               let out := safe_lit true dict srcm iend oend lowPrefix rlow dictm dictSize (mkD p1 (op s) (dm s) kf) tok ll in
               ptop_post s (tok :: r) rout out /\ match out with Cont f _ => f = false | _ => True end).
    { intros p1 kf ll r1 Hrl Hs1 Hb1 Hie1 Hp1 Hll. cbv zeta.
      pose proof (safe_lit_pcases p1 (op s) (dm s) kf tok r1 rout ll Hs1 Hb1 Hie1 Hp1 Htok Hll Hop Hoe O Hav) as HC.
      destruct (safe_lit true dict srcm iend oend lowPrefix rlow dictm dictSize (mkD p1 (op s) (dm s) kf) tok ll) as [f s'|s'|s'];
        cbn [plit_post ptop_post] in *; [| | split; exact I].
      - destruct HC as (Hf & lits & o1 & o2 & r3 & ml & r4 & H1 & H2 & H3 & H3' & H4 & H5).
        split; [|exact Hf]. split; [intros; subst f; discriminate|].
        exists tok, r, ll, r1, lits, o1, o2, r3, ml, r4.
        split; [reflexivity|]. split; [exact Hrl|]. split; [exact H1|]. split; [exact H2|].
        destruct (take_spec _ _ _ _ H1) as [Er1 Hl]. unfold byte in *.
        assert (length r1 = (length lits + S (S (length r3)))%nat) by (rewrite Er1, app_length; reflexivity).
        apply read_len_shorter in Hrl. cbn [length].
        split; [lia|]. split; [lia|]. split; [exact H3' | exact H5].
      - split; [|exact I]. exists tok, r, ll, r1. split; [reflexivity|]. split; [exact Hrl|]. split; [exact Hll | exact HC]. }
    destruct (negb (tok / 16 =? RUN_MASK) && ((ip s + 1 <? shortiend iend) && (op s <=? shortoend oend))) eqn:Esc; cbv beta iota.
    - (* two-stage shortcut *)
      assert (Hlt15 : tok / 16 < 15) by fin.
      assert (Hrl : read_len (tok / 16) r = Some (tok / 16, r)).
      { unfold read_len. assert (E : (tok / 16 =? 15) = false) by lia. rewrite E. reflexivity. }
      destruct (ptake_total (Z.to_nat (tok / 16)) r) as (lits & r2 & Ht & Hr & Hlen); [fin|].
      assert (Hr2 : (3 <= length r2)%nat) by (subst r; rewrite app_length in Hie; fin).
      destruct r2 as [|o1 [|o2 r3]]; try (cbn [length] in Hr2; lia).
      assert (Ell : tok / 16 = Z.of_nat (length lits)) by lia.
      rewrite Hr in Hsr, Hbr. destruct (src_at_app _ _ _ _ Hsr) as [Hsl Hs2]. destruct (bytes_app _ _ Hbr) as [_ Hb2].
      destruct (bytes_cons _ _ Hb2) as [Ho1 Hb3]. destruct (bytes_cons _ _ Hb3) as [Ho2 Hb4].
      rewrite Ell. unfold byte in *. rewrite (readLE16_src _ _ _ _ _ Hs2).
      set (m1 := blit srcm (ip s + 1) (dm s) (op s) 16).
      assert (O1 : out_at (vget m1) (op s + Z.of_nat (length lits)) (rev lits ++ rout)).
      { apply lits_out_v with (m := dm s); try assumption.
        - apply blit_same_below.
        - apply (blit_lits srcm); [exact Hsl | lia]. }
      assert (Hlenr : length r = (length lits + S (S (length r3)))%nat) by (rewrite Hr, app_length; reflexivity).
      cbn [length] in Hr2.
      destruct (negb (tok mod 16 =? ML_MASK) && (o1 + 256 * o2 >=? 8) &&
                (is_prefix64k dict || (op s + Z.of_nat (length lits) - (o1 + 256 * o2) >=? lowPrefix))) eqn:E18; cbv beta iota.
      + assert (Hlt15' : tok mod 16 < 15) by fin.
        assert (Hrl2 : read_len (tok mod 16) r3 = Some (tok mod 16, r3)).
        { unfold read_len. assert (E : (tok mod 16 =? 15) = false) by lia. rewrite E. reflexivity. }
        split; [|reflexivity]. cbn [ptop_post ip op dm]. split; [intros; discriminate|].
        exists tok, r, (tok / 16), r, lits, o1, o2, r3, (tok mod 16), r3.
        split; [reflexivity|]. split; [exact Hrl|]. split; [exact Ht|]. split; [exact Hrl2|].
        cbn [length]. split; [lia|]. split; [lia|]. split; [lia|].
        assert (Hmatge : lowPrefix <= op s + Z.of_nat (length lits) - (o1 + 256 * o2)).
        { destruct (is_prefix64k dict) eqn:E64; [specialize (Hp64 eq_refl); lia | fin]. }
        replace (op s + Z.of_nat (length lits) + tok mod 16 + MINMATCH) with (op s + Z.of_nat (length lits) + (tok mod 16 + 4)) by fin.
        apply pseq_ok_copy18; try assumption; try lia; fin.
      + pose proof (after_pcases (ip s + 1 + Z.of_nat (length lits)) (op s) m1
                      (ok s && rd_src iend (ip s) 1 && rd_src iend (ip s + 1) 16 && wr oend (op s) 16 &&
                       rd_src iend (ip s + 1 + Z.of_nat (length lits)) 2)
                      (tok mod 16) o1 o2 r3 rout lits Hs2 Hb2) as HA.
        specialize (HA ltac:(cbn [length]; lia) ltac:(lia) Hn2 Hop ltac:(fin) O1 Hav).
        destruct (copy_match_lbl true dict srcm iend oend lowPrefix rlow dictm dictSize
                    (mkD (ip s + 1 + Z.of_nat (length lits) + 2) (op s + Z.of_nat (length lits)) m1 _) (o1 + 256 * o2) (tok mod 16)) as [f s'|s'|s'];
          [ | | split; exact I ].
        * destruct HA as (Hf & ml & r4 & H1 & H2 & H2' & H3 & H4).
          split; [|exact Hf]. cbn [ptop_post]. split; [intros; subst f; discriminate|].
          exists tok, r, (tok / 16), r, lits, o1, o2, r3, ml, r4.
          split; [reflexivity|]. split; [exact Hrl|]. split; [exact Ht|]. split; [exact H1|].
          cbn [length]. split; [lia|]. split; [lia|]. split; [exact H2' | exact H4].
        * destruct HA as (ml & r4 & H1 & H4). split; [|exact I]. cbn [ptop_post].
          exists tok, r, (tok / 16), r. split; [reflexivity|]. split; [exact Hrl|]. split; [lia|]. right.
          exists lits, o1, o2, r3, ml, r4. repeat split; assumption.
    - destruct (tok / 16 =? RUN_MASK) eqn:E15; cbv beta iota.
      + pose proof (prvl_rev r (ip s + 1) (iend - RUN_MASK) true (ok s && rd_src iend (ip s) 1) Hsr ltac:(lia) ltac:(fin)) as HR.
        destruct (rvl srcm iend (ip s + 1) (iend - RUN_MASK) true (ok s && rd_src iend (ip s) 1)) as [[[addl|] p'] k']; [|split; exact I].
        destruct HR as (v & r1 & H1 & H2 & H3 & H4 & H5).
        assert (Hrl : read_len (tok / 16) r = Some (v, r1)).
        { unfold read_len. assert (E : (tok / 16 =? 15) = true) by fin. rewrite E. exact H1. }
        destruct (read_len_suffix srcm iend _ _ _ _ (ip s + 1) Hn1 Hrl Hbr Hsr) as (_ & Hv & _ & Hs1 & Hb1).
        replace (tok / 16 + addl) with v by fin.
        unfold byte in *. rewrite <- H3 in Hs1.
        apply (HL p' k' v r1 Hrl); try assumption; lia.
      + assert (Hrl : read_len (tok / 16) r = Some (tok / 16, r)).
        { unfold read_len. assert (E : (tok / 16 =? 15) = false) by fin. rewrite E. reflexivity. }
        apply (HL (ip s + 1) _ (tok / 16) r Hrl); try assumption; lia.
  Qed.

  (* ====================== the fast loop in partial mode ====================== *)
  Lemma fast_match_pany s offset length :
    0 <= offset <= 65535 -> 4 <= length -> 0 <= op s -> op s + length < oend - 64 ->
    match fast_match true dict oend lowPrefix rlow dictm dictSize s offset length with
    | Err _ => True
    | Done _ => False
    | Cont f s' => ip s' = ip s /\ op s' = op s + length /\
                   (1 <= offset -> same_below (dm s) (dm s') (op s) /\
                                   frec (vget (dm s')) offset (op s) (op s + length) /\
                                   lowPrefix - hroom <= op s - offset)
    end.
  Proof.
    intros Ho Hlen Hop Hroom.
    assert (Hip : match fast_match true dict oend lowPrefix rlow dictm dictSize s offset length with
                  | Cont _ s' => ip s' = ip s /\ op s' = op s + length | Done _ => False | Err _ => True end).
    { unfold fast_match, ext_match. cbv zeta. cbn [andb negb].
      assert (Eov : (op s + length >? oend - LASTLITERALS) = false) by fin. rewrite Eov. cbn [andb].
      repeat match goal with
      | |- match (if ?c then _ else _) with _ => _ end => destruct c
      end; cbn [ip op]; try exact I; split; try reflexivity; lia. }
    destruct (checkOffset dictSize && (op s - offset + dictSize <? lowPrefix)) eqn:Echk.
    { unfold fast_match. cbv zeta. rewrite Echk. exact I. }
    assert (Hacc : lowPrefix - hroom <= op s - offset).
    { unfold DecRefineSafe.hroom. destruct (is_extdict dict) eqn:Ee.
      - unfold checkOffset in Echk. lia.
      - rewrite (Hext eq_refl) in Echk. unfold checkOffset in Echk. lia. }
    destruct (Z_le_gt_dec 1 offset) as [H1|H0].
    - pose proof (fast_match_sim true dict oend lowPrefix rlow dictm dictSize HlowP Hds s offset length H1 Hacc Hlen Hop Hroom) as H.
      destruct (fast_match true dict oend lowPrefix rlow dictm dictSize s offset length) as [f s'|s'|s'];
        cbn [is_cont_any] in H; try contradiction; try exact I.
      destruct H as (Ha & Hb & Hc & Hd). split; [exact Ha|]. split; [exact Hb|]. intros _. repeat split; assumption.
    - destruct (fast_match true dict oend lowPrefix rlow dictm dictSize s offset length) as [f s'|s'|s']; try exact Hip; try exact I.
      destruct Hip as [Ha Hb]. split; [exact Ha|]. split; [exact Hb|]. intros; lia.
  Qed.

  (* from the offset field on, fast loop, partial mode *)
  Lemma fast_offset_pcases (i o : Z) (m1 : mem) kf tok o1 o2 (r3 : list Z) rout lits :
    src_at srcm i (o1 :: o2 :: r3) -> bytes (o1 :: o2 :: r3) -> i + Z.of_nat (length (o1 :: o2 :: r3)) = iend ->
    (1 <= length r3)%nat -> 0 <= tok < 256 -> 0 <= o -> 0 <= i -> o + Z.of_nat (length lits) <= oend ->
    out_at (vget m1) (o + Z.of_nat (length lits)) (rev lits ++ rout) -> pavail o rout ->
    match fast_offset true dict srcm iend oend lowPrefix rlow dictm dictSize
            (mkD i (o + Z.of_nat (length lits)) m1 kf) tok with
    | Err _ => True
    | Cont f s' =>
        (f = true -> op s' <= oend - 64) /\
        exists ml (r4 : list Z), read_len (tok mod 16) r3 = Some (ml, r4) /\ (length r4 <= length r3)%nat /\ (1 <= length r4)%nat /\
          ip s' = i + 2 + (Z.of_nat (length r3) - Z.of_nat (length r4)) /\
          pseq_ok o rout lits (o1 + 256 * o2) ml false s'
    | Done s' =>
        exists ml (r4 : list Z), read_len (tok mod 16) r3 = Some (ml, r4) /\ pseq_ok o rout lits (o1 + 256 * o2) ml true s'
    end.
  Proof.
    intros Hs Hb Hie Hne Htok Ho Hi Hoe O Hav.
    destruct (nibbles tok Htok) as [_ Hnib].
    pose proof (readLE16_src _ _ _ _ _ Hs) as Hle.
    destruct (src_at_cons _ _ _ _ Hs) as [_ Hs1]. destruct (src_at_cons _ _ _ _ Hs1) as [_ Hs2].
    destruct (bytes_cons _ _ Hb) as [Hb1 Hb']. destruct (bytes_cons _ _ Hb') as [Hb2 Hb3].
    replace (i + 1 + 1) with (i + 2) in Hs2 by lia. cbn [length] in Hie.
    remember (o1 + 256 * o2) as off eqn:Eoff.
    assert (Hoff : 0 <= off <= 65535) by lia.
    assert (Hvia_safe : forall p kf' ml (r4 : list Z),
              read_len (tok mod 16) r3 = Some (ml, r4) -> (length r4 <= length r3)%nat -> (1 <= length r4)%nat -> tok mod 16 <= ml ->
              p = i + 2 + (Z.of_nat (length r3) - Z.of_nat (length r4)) ->
              match safe_match true dict oend lowPrefix rlow dictm dictSize (mkD p (o + Z.of_nat (length lits)) m1 kf') off (ml + 4) with
              | Err _ => True
              | Cont f s' => (f = true -> op s' <= oend - 64) /\
                             exists ml (r4 : list Z), read_len (tok mod 16) r3 = Some (ml, r4) /\ (length r4 <= length r3)%nat /\ (1 <= length r4)%nat /\
                               ip s' = i + 2 + (Z.of_nat (length r3) - Z.of_nat (length r4)) /\ pseq_ok o rout lits off ml false s'
              | Done s' => exists ml (r4 : list Z), read_len (tok mod 16) r3 = Some (ml, r4) /\ pseq_ok o rout lits off ml true s'
              end).
    { intros p kf' ml r4 Hrl Hl Hl1 Hml Hp.
      pose proof (safe_match_pany (mkD p (o + Z.of_nat (length lits)) m1 kf') off (ml + 4) Hoff ltac:(lia) ltac:(cbn [op]; lia) ltac:(cbn [op]; lia)) as HM.
      destruct (safe_match true dict oend lowPrefix rlow dictm dictSize (mkD p (o + Z.of_nat (length lits)) m1 kf') off (ml + 4)) as [f s'|s'|s']; [| | exact I].
      - destruct HM as (Hf & Hip' & Hm). cbn [ip op dm] in *.
        split; [intros; subst f; discriminate|].
        exists ml, r4. split; [exact Hrl|]. split; [exact Hl|]. split; [exact Hl1|]. split; [lia|].
        apply (pseq_ok_intro o m1); try assumption; try lia;
          try (intros H1o; destruct (Hm H1o) as [(Ha & Hb4 & Hc & Hd) He]; repeat split; assumption).
      - destruct HM as (Hip' & Hm). cbn [ip op dm] in *.
        exists ml, r4. split; [exact Hrl|].
        apply (pseq_ok_intro o m1); try assumption; try lia;
          try (intros H1o; destruct (Hm H1o) as [(Ha & Hb4 & Hc & Hd) He]; repeat split; assumption). }
    assert (Hvia_fast : forall p kf' ml (r4 : list Z),
              read_len (tok mod 16) r3 = Some (ml, r4) -> (length r4 <= length r3)%nat -> (1 <= length r4)%nat -> tok mod 16 <= ml ->
              p = i + 2 + (Z.of_nat (length r3) - Z.of_nat (length r4)) ->
              o + Z.of_nat (length lits) + (ml + 4) < oend - 64 ->
              match fast_match true dict oend lowPrefix rlow dictm dictSize (mkD p (o + Z.of_nat (length lits)) m1 kf') off (ml + 4) with
              | Err _ => True
              | Cont f s' => (f = true -> op s' <= oend - 64) /\
                             exists ml (r4 : list Z), read_len (tok mod 16) r3 = Some (ml, r4) /\ (length r4 <= length r3)%nat /\ (1 <= length r4)%nat /\
                               ip s' = i + 2 + (Z.of_nat (length r3) - Z.of_nat (length r4)) /\ pseq_ok o rout lits off ml false s'
              | Done s' => exists ml (r4 : list Z), read_len (tok mod 16) r3 = Some (ml, r4) /\ pseq_ok o rout lits off ml true s'
              end).
    { intros p kf' ml r4 Hrl Hl Hl1 Hml Hp Hroom.
      pose proof (fast_match_pany (mkD p (o + Z.of_nat (length lits)) m1 kf') off (ml + 4) Hoff ltac:(lia) ltac:(cbn [op]; lia) ltac:(cbn [op]; lia)) as HM.
      destruct (fast_match true dict oend lowPrefix rlow dictm dictSize (mkD p (o + Z.of_nat (length lits)) m1 kf') off (ml + 4)) as [f s'|s'|s']; [| contradiction | exact I].
      destruct HM as (Hip' & Hop' & Hm). cbn [ip op dm] in *.
      split; [intros _; lia|].
      exists ml, r4. split; [exact Hrl|]. split; [exact Hl|]. split; [exact Hl1|]. split; [lia|].
      apply (pseq_ok_intro o m1); try assumption; try lia.
      intros H1o. destruct (Hm H1o) as (Hb4 & Hc & Hd).
      replace (Z.min (ml + 4) (oend - (o + Z.of_nat (length lits)))) with (ml + 4) by lia.
      split; [repeat split; assumption | left; reflexivity]. }
    unfold fast_offset. cbv zeta. cbn [ip op dm ok]. rewrite Hle.
    destruct (tok mod 16 =? ML_MASK) eqn:E15; cbv beta iota.
    - pose proof (prvl_rev r3 (i + 2) (iend - LASTLITERALS + 1) false (kf && rd_src iend i 2) Hs2 ltac:(lia) ltac:(fin)) as HR.
      destruct (rvl srcm iend (i + 2) (iend - LASTLITERALS + 1) false (kf && rd_src iend i 2)) as [[[addl|] p'] k']; [|exact I].
      destruct HR as (v & r4 & H1 & H2 & H3 & H4 & H5).
      pose proof (read_ext_ge _ _ _ _ Hb3 H1) as Hv.
      assert (Hrl : read_len (tok mod 16) r3 = Some (v, r4)).
      { unfold read_len. assert (E : (tok mod 16 =? 15) = true) by fin. rewrite E. exact H1. }
      replace (tok mod 16 + addl + MINMATCH) with (v + 4) by fin.
      destruct (o + Z.of_nat (length lits) + (v + 4) >=? oend - FASTLOOP_SAFE_DISTANCE) eqn:Efar; cbv beta iota.
      + apply (Hvia_safe p' k' v r4 Hrl); try lia. fin.
      + apply (Hvia_fast p' k' v r4 Hrl); try lia; fin.
    - assert (Hrl : read_len (tok mod 16) r3 = Some (tok mod 16, r3)).
      { unfold read_len. assert (E : (tok mod 16 =? 15) = false) by fin. rewrite E. reflexivity. }
      replace (tok mod 16 + MINMATCH) with (tok mod 16 + 4) by fin.
      destruct (o + Z.of_nat (length lits) + (tok mod 16 + 4) >=? oend - FASTLOOP_SAFE_DISTANCE) eqn:Efar; cbv beta iota.
      + apply (Hvia_safe (i + 2) _ (tok mod 16) r3 Hrl); lia.
      + destruct ((is_prefix64k dict || (o + Z.of_nat (length lits) - off >=? lowPrefix)) && (off >=? 8)) eqn:E18; cbv beta iota.
        * split; [intros _; fin|].
          exists (tok mod 16), r3. split; [exact Hrl|]. split; [lia|]. split; [lia|]. cbn [ip]. split; [lia|].
          assert (Hmatge : lowPrefix <= o + Z.of_nat (length lits) - off).
          { destruct (is_prefix64k dict) eqn:E64; [specialize (Hp64 eq_refl); lia | fin]. }
          apply pseq_ok_copy18; try assumption; try lia; fin.
        * apply (Hvia_fast (i + 2) _ (tok mod 16) r3 Hrl); try lia. fin.
  Qed.

  Lemma fast_top_pcases s (bs rout : list Z) :
    src_at srcm (ip s) bs -> bytes bs -> ip s + Z.of_nat (length bs) = iend -> 0 <= ip s < iend ->
    0 <= op s -> op s <= oend - 64 -> out_at (vget (dm s)) (op s) rout -> pavail (op s) rout ->
    ptop_post s bs rout (fast_top true dict srcm iend oend lowPrefix rlow dictm dictSize s).
  Proof.
    intros Hs Hb Hie Hip Hop Hoe O Hav.
    destruct bs as [|tok r]; [cbn [length] in Hie; lia|].
    destruct (bytes_cons _ _ Hb) as [Htok Hbr].
    destruct (src_at_cons _ _ _ _ Hs) as [Htokm Hsr].
    destruct (nibbles tok Htok) as [Hn1 Hn2].
    cbn [length] in Hie.
    unfold fast_top. cbv zeta. rewrite Htokm.
    assert (HL : forall p1 kf ll (r1 : list Z), read_len (tok / 16) r = Some (ll, r1) ->
               src_at srcm p1 r1 -> bytes r1 -> p1 + Z.of_nat (length r1) = iend -> 0 <= p1 -> 0 <= ll ->
               ptop_post s (tok :: r) rout
                 (safe_lit true dict srcm iend oend lowPrefix rlow dictm dictSize (mkD p1 (op s) (dm s) kf) tok ll)).
    { intros p1 kf ll r1 Hrl Hs1 Hb1 Hie1 Hp1 Hll.
      pose proof (safe_lit_pcases p1 (op s) (dm s) kf tok r1 rout ll Hs1 Hb1 Hie1 Hp1 Htok Hll Hop ltac:(lia) O Hav) as HC.
      destruct (safe_lit true dict srcm iend oend lowPrefix rlow dictm dictSize (mkD p1 (op s) (dm s) kf) tok ll) as [f s'|s'|s'];
        cbn [plit_post ptop_post] in *; [| | exact I].
      - destruct HC as (Hf & lits & o1 & o2 & r3 & ml & r4 & H1 & H2 & H3 & H3' & H4 & H5).
        split; [intros; subst f; discriminate|].
        exists tok, r, ll, r1, lits, o1, o2, r3, ml, r4.
        split; [reflexivity|]. split; [exact Hrl|]. split; [exact H1|]. split; [exact H2|].
        destruct (take_spec _ _ _ _ H1) as [Er1 Hl]. unfold byte in *.
        assert (length r1 = (length lits + S (S (length r3)))%nat) by (rewrite Er1, app_length; reflexivity).
        apply read_len_shorter in Hrl. cbn [length].
        split; [lia|]. split; [lia|]. split; [exact H3' | exact H5].
      - exists tok, r, ll, r1. split; [reflexivity|]. split; [exact Hrl|]. split; [exact Hll | exact HC]. }
    assert (HF : forall p1 kf ll (r1 lits r2 : list Z) m1, read_len (tok / 16) r = Some (ll, r1) ->
               src_at srcm p1 r1 -> bytes r1 -> p1 + Z.of_nat (length r1) = iend -> 0 <= p1 ->
               take (Z.to_nat ll) r1 = Some (lits, r2) -> ll = Z.of_nat (length lits) -> (3 <= length r2)%nat ->
               op s + ll <= oend ->
               same_below (dm s) m1 (op s) ->
               (forall j, (j < length lits)%nat -> get m1 (op s + Z.of_nat j) = nth j lits 0) ->
               ptop_post s (tok :: r) rout
                 (fast_offset true dict srcm iend oend lowPrefix rlow dictm dictSize (mkD (p1 + ll) (op s + ll) m1 kf) tok)).
    { intros p1 kf ll r1 lits r2 m1 Hrl Hs1 Hb1 Hie1 Hp1 Ht Ell Hr2 Hfit S1 L1.
      destruct r2 as [|o1 [|o2 r3]]; try (cbn [length] in Hr2; lia).
      destruct (take_spec _ _ _ _ Ht) as [Er1 _]. unfold byte in *. subst r1.
      destruct (src_at_app _ _ _ _ Hs1) as [Hsl Hs2]. destruct (bytes_app _ _ Hb1) as [_ Hb2].
      rewrite app_length in Hie1. cbn [length] in Hie1, Hr2. subst ll.
      pose proof (fast_offset_pcases (p1 + Z.of_nat (length lits)) (op s) m1 kf tok o1 o2 r3 rout lits Hs2 Hb2) as HA.
      specialize (HA ltac:(cbn [length]; lia) ltac:(lia) Htok Hop ltac:(lia) Hfit).
      specialize (HA ltac:(apply lits_out_v with (m := dm s); assumption) Hav).
      destruct (fast_offset true dict srcm iend oend lowPrefix rlow dictm dictSize
                  (mkD (p1 + Z.of_nat (length lits)) (op s + Z.of_nat (length lits)) m1 kf) tok) as [f s'|s'|s'];
        cbn [ptop_post]; [| | exact I].
      - destruct HA as (Hf & ml & r4 & H1 & H2 & H2' & H3 & H4).
        split; [exact Hf|].
        exists tok, r, (Z.of_nat (length lits)), (lits ++ o1 :: o2 :: r3), lits, o1, o2, r3, ml, r4.
        split; [reflexivity|]. split; [exact Hrl|]. split; [exact Ht|]. split; [exact H1|].
        apply read_len_shorter in Hrl. rewrite app_length in Hrl. cbn [length] in *.
        split; [lia|]. split; [lia|]. split; [exact H2' | exact H4].
      - destruct HA as (ml & r4 & H1 & H4).
        exists tok, r, (Z.of_nat (length lits)), (lits ++ o1 :: o2 :: r3). split; [reflexivity|]. split; [exact Hrl|]. split; [lia|]. right.
        exists lits, o1, o2, r3, ml, r4. repeat split; assumption. }
    destruct (tok / 16 =? RUN_MASK) eqn:E15; cbv beta iota.
    - pose proof (prvl_rev r (ip s + 1) (iend - RUN_MASK) true (ok s && rd_src iend (ip s) 1) Hsr ltac:(lia) ltac:(fin)) as HR.
      destruct (rvl srcm iend (ip s + 1) (iend - RUN_MASK) true (ok s && rd_src iend (ip s) 1)) as [[[addl|] p'] k']; [|exact I].
      destruct HR as (v & r1 & H1 & H2 & H3 & H4 & H5).
      assert (Hrl : read_len (tok / 16) r = Some (v, r1)).
      { unfold read_len. assert (E : (tok / 16 =? 15) = true) by fin. rewrite E. exact H1. }
      destruct (read_len_suffix srcm iend _ _ _ _ (ip s + 1) Hn1 Hrl Hbr Hsr) as (_ & Hv & _ & Hs1 & Hb1).
      replace (tok / 16 + addl) with v by fin.
      unfold byte in *. rewrite <- H3 in Hs1.
      destruct ((op s + v >? oend - 32) || (p' + v >? iend - 32)) eqn:Enear; cbv beta iota.
      + apply (HL p' k' v r1 Hrl); try assumption; lia.
      + destruct (ptake_total (Z.to_nat v) r1) as (lits & r2 & Ht & Hr1 & Hlen); [lia|].
        unfold byte in *.
        apply (HF p' _ v r1 lits r2 _ Hrl); try assumption; try lia.
        * subst r1. rewrite app_length in *. lia.
        * apply wild32_in_same_below.
        * replace v with (Z.of_nat (length lits)) by lia. apply wild32_in_lits.
          subst r1. apply (src_at_app _ _ _ _ Hs1).
    - assert (Hrl : read_len (tok / 16) r = Some (tok / 16, r)).
      { unfold read_len. assert (E : (tok / 16 =? 15) = false) by fin. rewrite E. reflexivity. }
      destruct (ip s + 1 <=? iend - (16 + 1)) eqn:E17; cbv beta iota.
      + destruct (ptake_total (Z.to_nat (tok / 16)) r) as (lits & r2 & Ht & Hr1 & Hlen); [fin|].
        unfold byte in *.
        apply (HF (ip s + 1) _ (tok / 16) r lits r2 _ Hrl); try assumption; try lia.
        * subst r. rewrite app_length in *. fin.
        * apply blit_same_below.
        * apply (blit_lits srcm); [|fin]. subst r. apply (src_at_app _ _ _ _ Hsr).
      + apply (HL (ip s + 1) _ (tok / 16) r Hrl); try assumption; lia.
  Qed.

  (* ---------- a step that starts with op = oend (after an external-dictionary copy that was
     cut exactly at oend) ---------- *)
  Lemma safe_top_at_oend s (bs : list Z) :
    src_at srcm (ip s) bs -> ip s + Z.of_nat (length bs) = iend -> 0 <= ip s < iend -> op s = oend ->
    match safe_top true dict srcm iend oend lowPrefix rlow dictm dictSize s with
    | Cont _ _ => False
    | Done s' => op s' = oend /\ same_below (dm s) (dm s') oend
    | Err _ => True
    end.
  Proof.
    intros Hs Hie Hip Hoe.
    destruct bs as [|tok r]; [cbn [length] in Hie; lia|].
    destruct (src_at_cons _ _ _ _ Hs) as [Htokm Hsr]. cbn [length] in Hie.
    pose proof (Hsrc (ip s)) as Htok. rewrite Htokm in Htok.
    destruct (nibbles tok Htok) as [Hn1 _].
    assert (Hlit : forall p1 kf len, 0 <= len -> p1 <= iend ->
              match safe_lit true dict srcm iend oend lowPrefix rlow dictm dictSize (mkD p1 (op s) (dm s) kf) tok len with
              | Cont _ _ => False
              | Done s' => op s' = oend /\ same_below (dm s) (dm s') oend
              | Err _ => True end).
    { intros p1 kf len Hlen Hp1. unfold safe_lit. cbv zeta. cbn [ip op dm negb andb orb]. rewrite Hoe.
      assert (E : (oend + len >? oend - MFLIMIT) || (p1 + len >? iend - (2 + 1 + LASTLITERALS)) = true) by fin.
      rewrite E. cbv beta iota.
      destruct (p1 + len >? iend) eqn:Ec1; cbv beta iota.
      - destruct (oend + (iend - p1) >? oend) eqn:Ec2; cbv beta iota.
        + assert (Ed : (oend =? oend) || (p1 + (oend - oend) >=? iend - 2) = true) by lia. rewrite Ed.
          cbn [op dm]. split; [lia | apply blit_same_below].
        + assert (Ed : (oend + (iend - p1) =? oend) || (p1 + (iend - p1) >=? iend - 2) = true) by lia. rewrite Ed.
          cbn [op dm]. split; [lia | apply blit_same_below].
      - destruct (oend + len >? oend) eqn:Ec2; cbv beta iota.
        + assert (Ed : (oend =? oend) || (p1 + (oend - oend) >=? iend - 2) = true) by lia. rewrite Ed.
          cbn [op dm]. split; [lia | apply blit_same_below].
        + assert (Ed : (oend + len =? oend) || (p1 + len >=? iend - 2) = true) by lia. rewrite Ed.
          cbn [op dm]. split; [lia | apply blit_same_below]. }
    unfold safe_top. cbv zeta. rewrite Htokm.
    assert (Esc : negb (tok / 16 =? RUN_MASK) && ((ip s + 1 <? shortiend iend) && (op s <=? shortoend oend)) = false) by fin.
    rewrite Esc. cbv beta iota.
    destruct (tok / 16 =? RUN_MASK) eqn:E15; cbv beta iota.
    - pose proof (prvl_rev r (ip s + 1) (iend - RUN_MASK) true (ok s && rd_src iend (ip s) 1) Hsr ltac:(lia) ltac:(fin)) as HR.
      destruct (rvl srcm iend (ip s + 1) (iend - RUN_MASK) true (ok s && rd_src iend (ip s) 1)) as [[[addl|] p'] k']; [|exact I].
      destruct HR as (v & r1 & H1 & H2 & H3 & H4 & H5).
      assert (Hv : 15 <= v).
      { assert (Hbr : bytes r).
        { unfold bytes. apply Forall_forall. intros x Hx. apply In_nth with (d := 0) in Hx. destruct Hx as (j & Hj & <-).
          rewrite <- (Hsr j Hj). apply Hsrc. }
        apply (read_ext_ge _ _ _ _ Hbr H1). }
      apply Hlit; fin.
    - apply Hlit; lia.
  Qed.

  Lemma take_firstn_skipn : forall n (l a t : list Z), take n l = Some (a, t) -> firstn n l = a /\ skipn n l = t.
  Proof.
    intros n l a t H. destruct (take_spec _ _ _ _ H) as [-> <-]. unfold byte in *.
    split; [rewrite firstn_app, firstn_all, Nat.sub_diag; cbn [firstn]; apply app_nil_r
           | rewrite skipn_app, skipn_all, Nat.sub_diag; reflexivity].
  Qed.

  Lemma sem_lits f rout tok (r : list Z) ll (r1 : list Z) :
    read_len (tok / 16) r = Some (ll, r1) ->
    exists Z0, sem (S f) rout (tok :: r) = Z0 ++ rev (firstn (Z.to_nat ll) r1) ++ rout.
  Proof.
    intros H. rewrite sem_S. unfold byte in *. rewrite H. cbv zeta.
    set (lits := firstn (Z.to_nat ll) r1).
    assert (H1 : exists Z0, rev lits ++ rout = Z0 ++ rev lits ++ rout) by (exists []; reflexivity).
    destruct (skipn (Z.to_nat ll) r1) as [|o1 [|o2 r3]]; try exact H1.
    destruct (read_len (tok mod 16) r3) as [[ml r4]|]; [|exact H1].
    destruct (apply_seq rout (mkSeq lits (o1 + 256 * o2) (ml + 4))) as [rout2|] eqn:E; [|exact H1].
    destruct (apply_seq_suffix _ _ _ E) as [Z1 HZ1]. cbn [s_lits] in HZ1.
    destruct (sem_suffix f rout2 r4) as [Z2 HZ2]. exists (Z2 ++ Z1). rewrite HZ2, HZ1, <- !app_assoc. reflexivity.
  Qed.

  Lemma sem_seq f rout tok (r : list Z) ll (r1 lits : list Z) o1 o2 (r3 : list Z) ml (r4 rout2 : list Z) :
    read_len (tok / 16) r = Some (ll, r1) -> take (Z.to_nat ll) r1 = Some (lits, o1 :: o2 :: r3) ->
    read_len (tok mod 16) r3 = Some (ml, r4) ->
    apply_seq rout (mkSeq lits (o1 + 256 * o2) (ml + 4)) = Some rout2 ->
    sem (S f) rout (tok :: r) = sem f rout2 r4.
  Proof.
    intros H1 H2 H3 H4. rewrite sem_S. unfold byte in *. rewrite H1. cbv zeta.
    destruct (take_firstn_skipn _ _ _ _ H2) as [Hf Hs]. rewrite Hf, Hs, H3, H4. reflexivity.
  Qed.

  (* hypotheses of the C02 theorem (Proofs/DecSafe.v), used for the bookkeeping facts of a step *)
  Hypothesis Hrlow : rlow <= lowPrefix \/ (dict = WithPrefix64k /\ rlow <= -65535).
  Hypothesis Hp64e : dict = WithPrefix64k -> lowPrefix = -65536.
  Hypothesis Hexte : dict <> UsingExtDict -> dictSize = 0.

  Lemma step_post (fast : bool) s :
    ok s = true -> 0 <= ip s < iend -> 0 <= op s <= oend -> (fast = true -> op s <= oend - 64) ->
    post iend oend (ip s + 1)
      (if fast then fast_top true dict srcm iend oend lowPrefix rlow dictm dictSize s
       else safe_top true dict srcm iend oend lowPrefix rlow dictm dictSize s).
  Proof.
    intros Hok Hip Hop Hf. destruct fast.
    - apply fast_top_ok; auto. specialize (Hf eq_refl). lia.
    - apply safe_top_ok; auto.
  Qed.

  (* ---------- the decoding loop on arbitrary input, partial mode ---------- *)
  Lemma run_rev_part : forall fuel (fast : bool) s (bs rout : list Z) f (T : list Z) base,
    sem f rout bs = T -> ok s = true ->
    src_at srcm (ip s) bs -> bytes bs -> ip s + Z.of_nat (length bs) = iend -> 0 <= ip s < iend ->
    0 <= op s <= oend -> (fast = true -> op s <= oend - 64) ->
    out_at (vget (dm s)) (op s) rout -> Z.of_nat (length rout) = base + op s ->
    (- lowPrefix + hroom <= base \/ 65535 <= base) -> (length bs < f)%nat ->
    let '(r, s') := run true dict srcm iend oend lowPrefix rlow dictm dictSize fuel fast s in
    0 <= r -> zero_off f bs = true \/ (r <= oend /\ img_ok (vget (dm s')) r T base).
  Proof.
    induction fuel as [|fuel IH]; intros fast s bs rout f T base HT Hok Hs Hb Hie Hip Hop Hfast O Hlen Hbase Hf.
    { cbn [run]. intros H. lia. }
    cbn [run].
    pose proof (step_post fast s Hok Hip Hop Hfast) as HP.
    assert (Hav : pavail (op s) rout) by (unfold pavail; lia).
    assert (HC : ptop_post s bs rout (if fast then fast_top true dict srcm iend oend lowPrefix rlow dictm dictSize s
                                      else safe_top true dict srcm iend oend lowPrefix rlow dictm dictSize s)).
    { destruct fast; [apply fast_top_pcases | apply safe_top_pcases]; try assumption; try lia; try (apply Hfast; reflexivity). }
    destruct f as [|f]; [lia|].
    destruct (if fast then fast_top true dict srcm iend oend lowPrefix rlow dictm dictSize s
              else safe_top true dict srcm iend oend lowPrefix rlow dictm dictSize s) as [f' s'|s'|s'];
      cbn [ptop_post post] in HC, HP.
    - (* Cont *)
      destruct HP as (Hok' & Hip' & Hop' & Hf').
      destruct HC as (_ & tok & r & ll & r1 & lits & o1 & o2 & r3 & ml & r4 & Hbs & Hrl1 & Htk & Hrl2 & Hi' & Hlen4 & _ & Hseq).
      subst bs.
      destruct (bytes_cons _ _ Hb) as [Htok Hbr].
      destruct (src_at_cons _ _ _ _ Hs) as [_ Hsr].
      destruct (nibbles tok Htok) as [Hn1 Hn2].
      destruct (read_len_suffix srcm iend _ _ _ _ _ Hn1 Hrl1 Hbr Hsr) as (Hl1 & Hll & _ & Hs1 & Hb1).
      destruct (take_spec _ _ _ _ Htk) as [Er1 Hlits]. unfold byte in *.
      remember (ip s + 1 + (Z.of_nat (length r) - Z.of_nat (length r1))) as p1 eqn:Ep1.
      rewrite Er1 in Hs1, Hb1.
      destruct (src_at_app _ _ _ _ Hs1) as [_ Hs2]. destruct (bytes_app _ _ Hb1) as [_ Hb2].
      destruct (src_at_cons _ _ _ _ Hs2) as [_ Hs3]. destruct (src_at_cons _ _ _ _ Hs3) as [_ Hs4].
      destruct (bytes_cons _ _ Hb2) as [Ho1 Hb3]. destruct (bytes_cons _ _ Hb3) as [Ho2 Hb4].
      destruct (read_len_suffix srcm iend _ _ _ _ _ Hn2 Hrl2 Hb4 Hs4) as (Hl2 & Hml & _ & Hs5 & Hb5). unfold byte in *.
      assert (Hlr1 : length r1 = (length lits + S (S (length r3)))%nat) by (rewrite Er1, app_length; reflexivity).
      cbn [length] in Hie, Hlen4, Hf.
      assert (Ell : ll = Z.of_nat (length lits)) by lia.
      assert (Hz : zero_off (S f) (tok :: r) = (o1 + 256 * o2 =? 0) || zero_off f r4).
      { cbn [zero_off]. unfold byte in *. rewrite Hrl1, Htk, Hrl2. reflexivity. }
      destruct Hseq as [Hz0|(Ho' & rout2 & Happ & O' & Hor)].
      { destruct (run true dict srcm iend oend lowPrefix rlow dictm dictSize fuel f' s') as [rr s'']. intros _. left. rewrite Hz, Hz0. reflexivity. }
      pose proof (sem_seq f rout tok r ll r1 lits o1 o2 r3 ml r4 rout2 Hrl1 Htk Hrl2 Happ) as Hsem.
      assert (Hlen2 : length rout2 = (length rout + length lits + Z.to_nat (ml + 4))%nat).
      { unfold apply_seq in Happ. cbn [s_lits s_off s_mlen] in Happ.
        destruct (off_ok (o1 + 256 * o2) && (4 <=? ml + 4)); [|discriminate].
        apply copy_match_length in Happ. rewrite app_length, rev_length in Happ. unfold byte in *. lia. }
      assert (Hs' : src_at srcm (ip s') r4).
      { replace (ip s') with (p1 + Z.of_nat (length lits) + 1 + 1 + (Z.of_nat (length r3) - Z.of_nat (length r4))) by lia.
        exact Hs5. }
      remember (Z.min (ml + 4) (oend - (op s + Z.of_nat (length lits)))) as n eqn:En.
      clear Hs Hb Hsr Hbr Hs1 Hb1 Hs2 Hb2 Hs3 Hs4 Hb3 Hb4 Hs5 O Hav Hrl1 Hrl2 Htk Happ.
      unfold byte in *.
      destruct (Z.eq_dec n (ml + 4)) as [Hcomplete|Hcut].
      + (* the sequence was completed *)
        rewrite Hcomplete in O'. replace (Z.to_nat (ml + 4 - (ml + 4))) with 0%nat in O' by lia. cbn [skipn] in O'.
        specialize (IH f' s' r4 rout2 f T base).
        rewrite Hsem in HT.
        assert (Hl2' : Z.of_nat (length rout2) = base + op s') by (unfold byte in *; lia).
        specialize (IH HT Hok' Hs' Hb5 ltac:(unfold byte in *; lia) ltac:(lia) Hop' Hf' O' Hl2' Hbase ltac:(unfold byte in *; lia)).
        destruct (run true dict srcm iend oend lowPrefix rlow dictm dictSize fuel f' s') as [rr s''].
        intros Hr. destruct (IH Hr) as [Hzr|Himg]; [left; rewrite Hz, Hzr; apply orb_true_r | right; exact Himg].
      + (* cut exactly at oend by a copy that continues: the next iteration must stop *)
        assert (Hoe' : op s' = oend) by (destruct Hor as [Hc|Hc]; [congruence | exact Hc]).
        assert (Hf'' : f' = false) by (destruct f'; [specialize (Hf' eq_refl); lia | reflexivity]). subst f'.
        destruct (sem_suffix f rout2 r4) as [Z0 HZ0].
        assert (Himg : forall m'', same_below (dm s') m'' oend -> img_ok (vget m'') oend T base).
        { intros m'' Hsb. apply (img_ok_of_suffix (vget m'') oend T rout2 Z0 base (Z.to_nat (ml + 4 - n))).
          - rewrite <- HT, Hsem. exact HZ0.
          - rewrite Hoe' in O'. eapply out_at_v_same_below; eauto.
          - unfold byte in *; lia.
          - unfold byte in *; lia. }
        destruct fuel as [|fuel]; [cbn [run]; intros H; lia|].
        cbn [run].
        pose proof (step_post false s' Hok' ltac:(lia) Hop' ltac:(discriminate)) as HP2. cbn beta iota in HP2.
        pose proof (safe_top_at_oend s' r4 Hs' ltac:(lia) ltac:(lia) Hoe') as HE.
        destruct (safe_top true dict srcm iend oend lowPrefix rlow dictm dictSize s') as [f2 s2|s2|s2]; cbn [post] in HP2.
        * contradiction.
        * destruct HE as [He1 He2]. intros _. right. split; [lia|]. rewrite He1. apply Himg. exact He2.
        * intros H. lia.
    - (* Done *)
      destruct HP as (Hok' & Hop').
      destruct HC as (tok & r & ll & r1 & Hbs & Hrl1 & Hll0 & HD). subst bs.
      intros _.
      destruct HD as [(n & Hn1 & Hn2 & Ho' & Hoe' & O')|(lits & o1 & o2 & r3 & ml & r4 & Htk & Hrl2 & Hseq)].
      + right. split; [lia|].
        destruct (sem_lits f rout tok r ll r1 Hrl1) as [Z0 HZ0].
        set (L := firstn (Z.to_nat ll) r1) in *.
        assert (HL : length L = Nat.min (Z.to_nat ll) (length r1)) by (unfold L; apply firstn_length).
        apply (img_ok_of_suffix (vget (dm s')) (op s') T (rev L ++ rout) Z0 base (length L - n)).
        * rewrite <- HT. exact HZ0.
        * rewrite <- rev_firstn_skipn by lia.
          unfold L. rewrite firstn_firstn. replace (Nat.min n (Z.to_nat ll)) with n by lia. exact O'.
        * rewrite app_length, rev_length. unfold byte in *. lia.
        * rewrite app_length, rev_length. unfold byte in *. lia.
      + assert (Hz : zero_off (S f) (tok :: r) = (o1 + 256 * o2 =? 0) || zero_off f r4).
        { cbn [zero_off]. unfold byte in *. rewrite Hrl1, Htk, Hrl2. reflexivity. }
        destruct Hseq as [Hz0|(Ho' & rout2 & Happ & O' & Hoe')].
        { left. rewrite Hz, Hz0. reflexivity. }
        right. split; [lia|].
        pose proof (sem_seq f rout tok r ll r1 lits o1 o2 r3 ml r4 rout2 Hrl1 Htk Hrl2 Happ) as Hsem.
        destruct (sem_suffix f rout2 r4) as [Z0 HZ0].
        destruct (take_spec _ _ _ _ Htk) as [_ Hlits]. unfold byte in *.
        assert (Hml : 0 <= ml + 4).
        { unfold apply_seq in Happ. cbn [s_off s_mlen] in Happ. destruct (off_ok (o1 + 256 * o2) && (4 <=? ml + 4)) eqn:E; [lia|discriminate]. }
        assert (Hlen2 : length rout2 = (length rout + length lits + Z.to_nat (ml + 4))%nat).
        { unfold apply_seq in Happ. cbn [s_lits s_off s_mlen] in Happ.
          destruct (off_ok (o1 + 256 * o2) && (4 <=? ml + 4)); [|discriminate].
          apply copy_match_length in Happ. rewrite app_length, rev_length in Happ. unfold byte in *. lia. }
        remember (Z.min (ml + 4) (oend - (op s + Z.of_nat (length lits)))) as n eqn:En.
        apply (img_ok_of_suffix (vget (dm s')) (op s') T rout2 Z0 base (Z.to_nat (ml + 4 - n))).
        * rewrite <- HT, Hsem. exact HZ0.
        * exact O'.
        * unfold byte in *; lia.
        * unfold byte in *; lia.
    - destruct HP as (_ & Hipe). intros H. lia.
  Qed.

End PRev.
