(* C05, in-place decoding (partial result): the write footprint of one iteration of the
   decoder model, for ALL inputs.  Every store of an iteration of the full-block decoder
   (fast or safe loop) that continues lies below  op' + 31  where op' is the output cursor
   after the iteration (below op' + 14 in the safe loop); the final literal run is copied
   exactly.  Together with Proofs/InplaceMargin.v (input cursor - output cursor >= 31 at
   every sequence boundary of a non-expanding block placed at the end of a buffer of
   n + LZ4_DECOMPRESS_INPLACE_MARGIN(n) bytes) no store of an iteration reaches the input
   cursor of the next sequence boundary. *)
From Coq Require Import ZArith List Lia Bool ZifyBool.
From LZ4V Require Import Gen.Consts Model.Mem Model.Dec.
From LZ4V Require Import Spec.BlockSpec Proofs.DecSafe Proofs.DecRefineBase Proofs.DecConverseErr Proofs.InplaceMargin.
Import ListNotations.
Local Open Scope Z_scope.

(* nothing at or above [hi] changes *)
Definition same_above (m m' : mem) (hi : Z) : Prop := forall a, hi <= a -> get m' a = get m a.

Lemma same_above_refl m hi : same_above m m hi.
Proof. intros a _. reflexivity. Qed.
Lemma same_above_trans m1 m2 m3 h1 h2 h :
  same_above m1 m2 h1 -> same_above m2 m3 h2 -> h1 <= h -> h2 <= h -> same_above m1 m3 h.
Proof. intros H1 H2 Ha Hb a Hx. rewrite H2 by lia. apply H1. lia. Qed.
Lemma same_above_weaken m m' h h' : same_above m m' h -> h <= h' -> same_above m m' h'.
Proof. intros H Hh a Ha. apply H. lia. Qed.

Lemma blit_above sm s m d n : same_above m (blit sm s m d n) (d + Z.of_nat n).
Proof. intros a Ha. rewrite get_blit. destruct ((d <=? a) && (a <? d + Z.of_nat n)) eqn:E; [lia | reflexivity]. Qed.

Lemma memcpy_above m d s k : same_above m (memcpy_k m d s k) (d + Z.of_nat k).
Proof. unfold memcpy_k. apply blit_above. Qed.

Lemma store_list_above l m d : same_above m (store_list m d l) (d + Z.of_nat (length l)).
Proof. intros a Ha. rewrite get_store_list. destruct ((d <=? a) && (a <? d + Z.of_nat (length l))) eqn:E; [lia | reflexivity]. Qed.

Lemma copy_fwd_above : forall n m d s, same_above m (copy_fwd m d s n) (d + Z.of_nat n).
Proof.
  induction n as [|n IH]; intros m d s; cbn [copy_fwd]; [apply same_above_refl|].
  intros a Ha. rewrite IH by lia. rewrite get_set_other by lia. reflexivity.
Qed.

Lemma wild8_it_above : forall k m d s, same_above m (wild8_it k m d s) (d + 8 * Z.of_nat k).
Proof.
  induction k as [|k IH]; intros m d s; cbn [wild8_it]; [apply same_above_refl|].
  intros a Ha. rewrite IH by lia. apply memcpy_above. lia.
Qed.
Lemma wild8_above m d s e : same_above m (wild8 m d s e) (d + wild8_len d e).
Proof. unfold wild8, wild8_len. apply wild8_it_above. Qed.

Lemma wild32_it_above : forall k m d s, same_above m (wild32_it k m d s) (d + 32 * Z.of_nat k).
Proof.
  induction k as [|k IH]; intros m d s; cbn [wild32_it]; [apply same_above_refl|].
  intros a Ha. rewrite IH by lia. rewrite memcpy_above by lia. apply memcpy_above. lia.
Qed.
Lemma wild32_above m d s e : same_above m (wild32 m d s e) (d + wild32_len d e).
Proof. unfold wild32, wild32_len. apply wild32_it_above. Qed.

Lemma wild8_in_above sm s m d e : same_above m (wild8_in sm s m d e) (d + wild8_len d e).
Proof. unfold wild8_in, wild8_len. intros a Ha. apply blit_above. lia. Qed.
Lemma wild32_in_above sm s m d e : same_above m (wild32_in sm s m d e) (d + wild32_len d e).
Proof. unfold wild32_in, wild32_len. intros a Ha. apply blit_above. lia. Qed.

Lemma copy18_above m d s : same_above m (copy18 m d s) (d + 18).
Proof.
  unfold copy18. intros a Ha. rewrite memcpy_above by lia. rewrite memcpy_above by lia. apply memcpy_above. lia.
Qed.

Lemma first8_above m d s off : same_above m (fst (first8 m d s off)) (d + 8).
Proof.
  unfold first8. destruct (off <? 8); cbn [fst].
  - intros a Ha. rewrite memcpy_above by lia. rewrite copy_fwd_above by lia. apply store_list_above. cbn [length]. lia.
  - intros a Ha. apply memcpy_above. lia.
Qed.

Lemma store_rep_above : forall k m d v, length v = 8%nat -> same_above m (store_rep k m d v) (d + 8 * Z.of_nat k).
Proof.
  induction k as [|k IH]; intros m d v Hv; cbn [store_rep]; [apply same_above_refl|].
  intros a Ha. rewrite IH by (try exact Hv; lia). apply store_list_above. rewrite Hv. lia.
Qed.

Lemma using_offset_above m d s e off : same_above m (using_offset m d s e off) (d + using_offset_len d e off).
Proof.
  unfold using_offset, using_offset_len.
  destruct (off =? 1) eqn:E1; [cbn [orb]; unfold wild8_len; apply store_rep_above; reflexivity|].
  destruct (off =? 2) eqn:E2; [cbn [orb]; unfold wild8_len; apply store_rep_above; reflexivity|].
  destruct (off =? 4) eqn:E4; [cbn [orb]; unfold wild8_len; apply store_rep_above; reflexivity|].
  cbn [orb]. unfold using_offset_base.
  pose proof (first8_above m d s off) as F. destruct (first8 m d s off) as [m1 s2]. cbn [fst] in F.
  intros a Ha. pose proof (wild8_len_bounds (d + 8) e). rewrite wild8_above by lia. apply F. lia.
Qed.

Lemma blit_aboveZ sm s m d n : same_above m (blit sm s m d (Z.to_nat n)) (d + n).
Proof. intros a Ha. rewrite get_blit. destruct ((d <=? a) && (a <? d + Z.of_nat (Z.to_nat n))) eqn:E; [lia | reflexivity]. Qed.
Lemma copy_fwd_aboveZ m d s n : same_above m (copy_fwd m d s (Z.to_nat n)) (Z.max d (d + n)).
Proof. eapply same_above_weaken; [apply copy_fwd_above | lia]. Qed.

Lemma same_above_seq m1 m2 m3 h1 h2 :
  same_above m1 m2 h1 -> same_above m2 m3 h2 -> same_above m1 m3 (Z.max h1 h2).
Proof. intros A B. eapply same_above_trans; [exact A | exact B | lia | lia]. Qed.

Section Footprint.
  Variables (dict : ddict) (srcm : mem).
  Variables (iend oend lowPrefix rlow : Z) (dictm : mem) (dictSize : Z).
  Hypothesis Hsrc : forall a, 0 <= get srcm a < 256.

  (* footprint of a match region of the full (non-partial) decoder: never `break`s; when it
     continues, the image is unchanged at and above op' + slack and op advanced by >= adv *)
  Definition fpc (m : mem) (o adv slack : Z) (out : dout) : Prop :=
    match out with
    | Cont _ s' => same_above m (dm s') (op s' + slack) /\ o + adv <= op s'
    | Done _ => False
    | Err _ => True
    end.
  (* footprint of a whole iteration: as above; at the end of the block (Done) the image is
     unchanged at and above the final op: the last literals are copied exactly *)
  Definition fp (m : mem) (o adv slack : Z) (out : dout) : Prop :=
    match out with
    | Cont _ s' => same_above m (dm s') (op s' + slack) /\ o + adv <= op s'
    | Done s' => same_above m (dm s') (op s')
    | Err _ => True
    end.

  Lemma fpc_mono m o adv adv' slack slack' out :
    fpc m o adv slack out -> adv' <= adv -> slack <= slack' -> fpc m o adv' slack' out.
  Proof.
    destruct out as [f s'|s'|s']; cbn [fpc]; auto. intros [H1 H2] Ha Hs.
    split; [eapply same_above_weaken; [exact H1 | lia] | lia].
  Qed.
  Lemma fp_mono m o adv adv' slack slack' out :
    fp m o adv slack out -> adv' <= adv -> slack <= slack' -> fp m o adv' slack' out.
  Proof.
    destruct out as [f s'|s'|s']; cbn [fp]; auto. intros [H1 H2] Ha Hs.
    split; [eapply same_above_weaken; [exact H1 | lia] | lia].
  Qed.
  (* a match region run after stores that stayed below h0 *)
  Lemma fpc_after m0 m1 h0 o0 o1 adv adv' slack slack' out :
    same_above m0 m1 h0 -> fpc m1 o1 adv slack out ->
    h0 <= o1 + adv + slack' -> slack <= slack' -> o0 + adv' <= o1 + adv ->
    fp m0 o0 adv' slack' out.
  Proof.
    intros S H Hh Hs Ho. destruct out as [f s'|s'|s']; cbn [fp fpc] in *; [|contradiction|exact I].
    destruct H as [H1 H2]. split; [|lia].
    eapply same_above_trans; [exact S | exact H1 | lia | lia].
  Qed.

  Ltac unf :=
    unfold MINMATCH, LASTLITERALS, MFLIMIT, MATCH_SAFEGUARD_DISTANCE, WILDCOPYLENGTH, ML_MASK, RUN_MASK,
           FASTLOOP_SAFE_DISTANCE in *; cbn [ip op dm ok] in *.

  Lemma ext_match_fp infast s mat len0 :
    0 <= len0 ->
    fpc (dm s) (op s) len0 0 (ext_match false oend lowPrefix rlow dictm dictSize infast s mat len0).
  Proof.
    intros Hl. unfold ext_match. cbv zeta. cbn [negb]. rewrite andb_true_r.
    destruct (op s + len0 >? oend - LASTLITERALS) eqn:Eo; [exact I|].
    destruct (len0 <=? lowPrefix - mat) eqn:E1; cbn [fpc op dm].
    - split; [|lia]. eapply same_above_weaken; [apply blit_aboveZ | lia].
    - split; [|lia].
      set (cs := lowPrefix - mat) in *.
      set (m1 := blit dictm (dictSize - cs) (dm s) (op s) (Z.to_nat cs)).
      assert (S1 : same_above (dm s) m1 (op s + cs)) by apply blit_aboveZ.
      clearbody m1 cs.
      destruct (len0 - cs >? op s + cs - lowPrefix).
      + eapply same_above_trans; [exact S1 | apply copy_fwd_aboveZ | lia | lia].
      + eapply same_above_trans; [exact S1 | apply blit_aboveZ | lia | lia].
  Qed.

  Lemma safe_match_fp s offset length :
    4 <= length ->
    fpc (dm s) (op s) length 12 (safe_match false dict oend lowPrefix rlow dictm dictSize s offset length).
  Proof.
    intros Hl. unfold safe_match. cbv zeta. cbn [andb].
    destruct (checkOffset dictSize && (op s - offset + dictSize <? lowPrefix)); [exact I|].
    destruct (is_extdict dict && (op s - offset <? lowPrefix)).
    { eapply fpc_mono; [apply ext_match_fp; lia | lia | lia]. }
    pose proof (first8_above (dm s) (op s) (op s - offset) offset) as F.
    destruct (first8 (dm s) (op s) (op s - offset) offset) as [m1 mat2]. cbn [fst] in F.
    destruct (op s + length >? oend - MATCH_SAFEGUARD_DISTANCE) eqn:Enear.
    - destruct (op s + length >? oend - LASTLITERALS); [exact I|].
      destruct (op s + 8 <? oend - (WILDCOPYLENGTH - 1)) eqn:Ew; cbn [fpc op dm].
      + split; [|lia].
        pose proof (wild8_len_bounds (op s + 8) (oend - (WILDCOPYLENGTH - 1))) as Hw.
        eapply same_above_weaken;
          [eapply same_above_seq; [eapply same_above_seq; [exact F | apply wild8_above] | apply copy_fwd_aboveZ] | unf; lia].
      + split; [|lia].
        eapply same_above_trans; [exact F | apply copy_fwd_aboveZ | unf; lia | unf; lia].
    - destruct (length >? 16) eqn:E16; cbn [fpc op dm].
      + split; [|lia].
        pose proof (wild8_len_bounds (op s + 8 + 8) (op s + length)) as Hw.
        eapply same_above_weaken;
          [eapply same_above_seq; [eapply same_above_seq; [exact F | apply memcpy_above] | apply wild8_above] | lia].
      + split; [|lia].
        eapply same_above_trans; [exact F | apply memcpy_above | lia | lia].
  Qed.

  Lemma copy_match_lbl_fp s offset ml :
    0 <= ml ->
    fpc (dm s) (op s) 4 12 (copy_match_lbl false dict srcm iend oend lowPrefix rlow dictm dictSize s offset ml).
  Proof.
    intros Hml. unfold copy_match_lbl.
    destruct (ml =? ML_MASK).
    - pose proof (rvl_ip srcm iend Hsrc (ip s) (iend - LASTLITERALS + 1) false (ok s)) as Hr.
      destruct (rvl srcm iend (ip s) (iend - LASTLITERALS + 1) false (ok s)) as [[[l|] p'] k']; destruct Hr as [_ Hl0]; [|exact I].
      eapply fpc_mono; [apply (safe_match_fp (mkD p' (op s) (dm s) k')); unf; lia | unf; lia | lia].
    - eapply fpc_mono; [apply safe_match_fp; unf; lia | unf; lia | lia].
  Qed.

  Ltac after_cml S :=
    match goal with |- fp _ _ _ _ (copy_match_lbl _ _ _ _ _ _ _ _ _ ?st _ _) =>
      eapply fpc_after with (m1 := dm st) (o1 := op st);
      [cbn [dm]; exact S | apply (copy_match_lbl_fp st); lia | cbn [op]; lia | lia | cbn [op]; lia] end.

  Lemma safe_lit_fp s token length :
    0 <= length ->
    fp (dm s) (op s) (length + 4) 12 (safe_lit false dict srcm iend oend lowPrefix rlow dictm dictSize s token length).
  Proof.
    intros Hl. unfold safe_lit. cbv zeta. cbn [negb andb orb].
    destruct ((op s + length >? oend - MFLIMIT) || (ip s + length >? iend - (2 + 1 + LASTLITERALS))).
    - destruct (negb (ip s + length =? iend) || (op s + length >? oend)); [exact I|].
      cbn [fp op dm]. apply blit_aboveZ.
    - pose proof (wild8_len_bounds (op s) (op s + length)) as Hw.
      pose proof (Z.mod_pos_bound token 16 ltac:(lia)) as Hm.
      after_cml (wild8_in_above srcm (ip s) (dm s) (op s) (op s + length)).
  Qed.

  (* one iteration of the safe loop *)
  Lemma safe_top_fp s :
    fp (dm s) (op s) 4 14 (safe_top false dict srcm iend oend lowPrefix rlow dictm dictSize s).
  Proof.
    unfold safe_top. cbv zeta.
    pose proof (Hsrc (ip s)) as Hb.
    assert (Hll : 0 <= get srcm (ip s) / 16 < 16) by (split; [apply Z.div_pos; lia | apply Z.div_lt_upper_bound; lia]).
    pose proof (Z.mod_pos_bound (get srcm (ip s)) 16 ltac:(lia)) as Hm.
    destruct (negb (get srcm (ip s) / 16 =? RUN_MASK) && ((ip s + 1 <? shortiend iend) && (op s <=? shortoend oend))).
    - set (m1 := blit srcm (ip s + 1) (dm s) (op s) 16).
      assert (S1 : same_above (dm s) m1 (op s + 16)) by apply (blit_above srcm (ip s + 1) (dm s) (op s) 16).
      clearbody m1.
      match goal with |- context [if ?c then _ else _] => destruct c end.
      + cbn [fp op dm]. split; [|unf; lia].
        eapply same_above_trans; [exact S1 | apply copy18_above | unf; lia | unf; lia].
      + after_cml S1.
    - destruct (get srcm (ip s) / 16 =? RUN_MASK) eqn:E15.
      + pose proof (rvl_ip srcm iend Hsrc (ip s + 1) (iend - RUN_MASK) true (ok s && rd_src iend (ip s) 1)) as Hr.
        destruct (rvl srcm iend (ip s + 1) (iend - RUN_MASK) true (ok s && rd_src iend (ip s) 1)) as [[[l|] p'] k']; destruct Hr as [_ Hl0]; [|exact I].
        eapply fp_mono; [apply (safe_lit_fp (mkD p' (op s) (dm s) k')); lia | lia | lia].
      + eapply fp_mono; [apply (safe_lit_fp (mkD (ip s + 1) (op s) (dm s) (ok s && rd_src iend (ip s) 1))); lia | lia | lia].
  Qed.

  (* ---- the fast loop ---- *)
  Lemma fast_match_fp s offset length :
    4 <= length ->
    fpc (dm s) (op s) length 31 (fast_match false dict oend lowPrefix rlow dictm dictSize s offset length).
  Proof.
    intros Hl. unfold fast_match. cbv zeta.
    destruct (checkOffset dictSize && (op s - offset + dictSize <? lowPrefix)); [exact I|].
    destruct (is_extdict dict && (op s - offset <? lowPrefix)).
    { eapply fpc_mono; [apply ext_match_fp; lia | lia | lia]. }
    destruct (offset <? 16); cbn [fpc op dm].
    - pose proof (using_offset_len_bounds (op s) (op s + length) offset) as Hu.
      split; [|lia]. eapply same_above_weaken; [apply using_offset_above | lia].
    - pose proof (wild32_len_bounds (op s) (op s + length)) as Hu.
      split; [|lia]. eapply same_above_weaken; [apply wild32_above | lia].
  Qed.

  Lemma fast_offset_fp s token :
    fpc (dm s) (op s) 4 31 (fast_offset false dict srcm iend oend lowPrefix rlow dictm dictSize s token).
  Proof.
    unfold fast_offset. cbv zeta.
    pose proof (Z.mod_pos_bound token 16 ltac:(lia)) as Hm.
    destruct (token mod 16 =? ML_MASK).
    - pose proof (rvl_ip srcm iend Hsrc (ip s + 2) (iend - LASTLITERALS + 1) false (ok s && rd_src iend (ip s) 2)) as Hr.
      destruct (rvl srcm iend (ip s + 2) (iend - LASTLITERALS + 1) false (ok s && rd_src iend (ip s) 2)) as [[[l|] p'] k']; destruct Hr as [_ Hl0]; [|exact I].
      match goal with |- context [if ?c then _ else _] => destruct c end.
      + eapply fpc_mono; [apply (safe_match_fp (mkD p' (op s) (dm s) k')); unf; lia | unf; lia | lia].
      + eapply fpc_mono; [apply (fast_match_fp (mkD p' (op s) (dm s) k')); unf; lia | unf; lia | lia].
    - match goal with |- context [if ?c then _ else _] => destruct c end.
      + eapply fpc_mono; [apply (safe_match_fp (mkD (ip s + 2) (op s) (dm s) (ok s && rd_src iend (ip s) 2))); unf; lia | unf; lia | lia].
      + match goal with |- context [if ?c then _ else _] => destruct c end.
        * cbn [fpc op dm]. split; [|unf; lia].
          eapply same_above_weaken; [apply copy18_above | unf; lia].
        * eapply fpc_mono; [apply (fast_match_fp (mkD (ip s + 2) (op s) (dm s) (ok s && rd_src iend (ip s) 2))); unf; lia | unf; lia | lia].
  Qed.

  Ltac after_fo S :=
    match goal with |- fp _ _ _ _ (fast_offset _ _ _ _ _ _ _ _ _ ?st _) =>
      eapply fpc_after with (m1 := dm st) (o1 := op st);
      [cbn [dm]; exact S | apply (fast_offset_fp st) | cbn [op]; lia | lia | cbn [op]; lia] end.

  Lemma fast_top_fp s :
    fp (dm s) (op s) 4 31 (fast_top false dict srcm iend oend lowPrefix rlow dictm dictSize s).
  Proof.
    unfold fast_top. cbv zeta.
    pose proof (Hsrc (ip s)) as Hb.
    assert (Hll : 0 <= get srcm (ip s) / 16 < 16) by (split; [apply Z.div_pos; lia | apply Z.div_lt_upper_bound; lia]).
    destruct (get srcm (ip s) / 16 =? RUN_MASK) eqn:E15.
    - pose proof (rvl_ip srcm iend Hsrc (ip s + 1) (iend - RUN_MASK) true (ok s && rd_src iend (ip s) 1)) as Hr.
      destruct (rvl srcm iend (ip s + 1) (iend - RUN_MASK) true (ok s && rd_src iend (ip s) 1)) as [[[l|] p'] k']; destruct Hr as [_ Hl0]; [|exact I].
      match goal with |- context [if ?c then _ else _] => destruct c end.
      + eapply fp_mono; [apply (safe_lit_fp (mkD p' (op s) (dm s) k')); lia | lia | lia].
      + pose proof (wild32_len_bounds (op s) (op s + (get srcm (ip s) / 16 + l))) as Hw.
        after_fo (wild32_in_above srcm p' (dm s) (op s) (op s + (get srcm (ip s) / 16 + l))).
    - destruct (ip s + 1 <=? iend - (16 + 1)).
      + after_fo (blit_above srcm (ip s + 1) (dm s) (op s) 16).
      + eapply fp_mono; [apply (safe_lit_fp (mkD (ip s + 1) (op s) (dm s) (ok s && rd_src iend (ip s) 1))); lia | lia | lia].
  Qed.
End Footprint.

(* ---- in-place decoding: write footprint of one iteration against the input cursor ----

   FULL STATEMENT (not proved here): run LZ4_decompress_safe with the compressed block of the
   sequences done ++ rest, last stored at the END of a single buffer of
   d + inplace_margin d bytes (d = decoded size, enc_len <= d) and the destination at the START of
   the same buffer (lz4.h, "In-place decompression").  Then every load from the input region reads
   the byte the block had there initially, i.e. no store of the decoder reaches an address at or
   above the current input cursor before that input byte has been consumed; hence the result is the
   same as with separate buffers (C05_valid_decodes).

   PROVED (this file + Proofs.InplaceMargin):
   (a) [step_footprint], for EVERY input, valid or not, both loops, every history placement: the
       stores of one whole iteration of the decoder model that continues with output cursor op' lie
       strictly below op' + 31 (below op' + 14 in the safe loop); the stores of the iteration that
       ends the block lie strictly below the final op' (the last literals are copied exactly).
   (b) InplaceMargin.inplace_gap: with the layout above, at the boundary after [done] the input
       cursor is at op' + cursor_gap done rest last and 31 <= cursor_gap done rest last.
   Together: the iteration that decodes the last sequence of [done] leaves every byte at or above
   the input cursor of the boundary that follows it untouched, so all the input that is still to be
   consumed after a loop boundary is intact at that boundary.

   NOT PROVED (what separates this from the full statement):
   (c) the order of loads and stores INSIDE one iteration: the literal copy of a sequence may store
       up to 31 bytes past the end of its literals before the offset / match-length bytes of the same
       sequence are loaded (the cursor gap at that moment is that of the previous boundary plus 1 +
       extra length bytes, >= 32, by the same potential argument, but the model has no input cursor
       in its memory effects to state it);
   (d) the identification of the model's (ip, op) at a boundary with
       (size - enc_len rest last, total_len done []) is the forward simulation of C05_valid_decodes;
       it is not restated for the aliased layout. *)
Definition step_footprint_stmt (fast : bool) (slack : Z) : Prop :=
  forall dict srcm iend oend lowPrefix rlow dictm dictSize s,
    (forall a, 0 <= get srcm a < 256) ->
    match (if fast then fast_top false dict srcm iend oend lowPrefix rlow dictm dictSize s
           else safe_top false dict srcm iend oend lowPrefix rlow dictm dictSize s) with
    | Cont _ s' => (forall a, op s' + slack <= a -> get (dm s') a = get (dm s) a) /\ op s + 4 <= op s'
    | Done s' => forall a, op s' <= a -> get (dm s') a = get (dm s) a
    | Err _ => True
    end.

Theorem step_footprint : step_footprint_stmt false 14 /\ step_footprint_stmt true 31.
Proof.
  split; intros dict srcm iend oend lowPrefix rlow dictm dictSize s Hsrc; cbv iota.
  - exact (safe_top_fp dict srcm iend oend lowPrefix rlow dictm dictSize Hsrc s).
  - exact (fast_top_fp dict srcm iend oend lowPrefix rlow dictm dictSize Hsrc s).
Qed.

(* (a) + (b): nothing at or above the input cursor of the next boundary is modified *)
Theorem inplace_footprint_partial :
  forall (fast : bool) dict srcm iend oend lowPrefix rlow dictm dictSize s
         (done rest : list seq) (last : list byte),
    (forall a, 0 <= get srcm a < 256) ->
    mlens_ok rest -> enc_len (done ++ rest) last <= total_len (done ++ rest) last ->
    match (if fast then fast_top false dict srcm iend oend lowPrefix rlow dictm dictSize s
           else safe_top false dict srcm iend oend lowPrefix rlow dictm dictSize s) with
    | Cont _ s' => forall a, op s' + cursor_gap done rest last <= a -> get (dm s') a = get (dm s) a
    | Done s' => forall a, op s' <= a -> get (dm s') a = get (dm s) a
    | Err _ => True
    end.
Proof.
  intros fast dict srcm iend oend lowPrefix rlow dictm dictSize s done rest last Hsrc Hm He.
  pose proof (inplace_gap done rest last Hm He) as Hg. unfold INPLACE_MARGIN_BASE in Hg.
  destruct step_footprint as [Hs Hf].
  destruct fast.
  - specialize (Hf dict srcm iend oend lowPrefix rlow dictm dictSize s Hsrc). cbv iota in Hf.
    destruct (fast_top false dict srcm iend oend lowPrefix rlow dictm dictSize s) as [f s'|s'|s']; [|exact Hf|exact I].
    destruct Hf as [Hf _]. intros a Ha. apply Hf. lia.
  - specialize (Hs dict srcm iend oend lowPrefix rlow dictm dictSize s Hsrc). cbv iota in Hs.
    destruct (safe_top false dict srcm iend oend lowPrefix rlow dictm dictSize s) as [f s'|s'|s']; [|exact Hs|exact I].
    destruct Hs as [Hs _]. intros a Ha. apply Hs. lia.
Qed.
