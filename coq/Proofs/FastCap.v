(* Capacity contract of the fast compressor model (Model.Fast.compress_validated),
   notLimited and limitedOutput directives:
   - the model's output position [c_op] is exactly the length of the bytes the
     specification's encoder writes for the emitted sequences;
   - the write high-water mark [c_hw] (which includes the slack of wildCopy8 and of
     the 4-byte 0xFF stores) never exceeds the capacity in limitedOutput mode, and
     never exceeds LZ4_COMPRESSBOUND(inputSize) in notLimited mode (worst-case size
     argument: 255 * output <= 256 * input consumed, per sequence);
   - in notLimited mode the compressor cannot fail (the fuel of every loop suffices). *)
From Coq Require Import ZArith List Lia Bool ZifyBool.
From LZ4V Require Import Gen.Consts Spec.BlockSpec Model.Mem Model.Fast Proofs.FactorSpec Proofs.FastBasics.
Import ListNotations.
Local Open Scope Z_scope.

(* ---- lengths of the encoder's output ---- *)
Definition extlen (v : Z) : Z := if v <? 15 then 0 else (v - 15) / 255 + 1.
Definition seqlen (q : seq) : Z :=
  1 + extlen (Z.of_nat (length (s_lits q))) + Z.of_nat (length (s_lits q)) + 2 + extlen (s_mlen q - 4).
Fixpoint sumlen (l : list seq) : Z := match l with [] => 0 | q :: r => seqlen q + sumlen r end.

Lemma extlen_nonneg v : 0 <= extlen v.
Proof. unfold extlen. destruct (v <? 15) eqn:E; [lia|]. Z.div_mod_to_equations. lia. Qed.

Lemma enc_ext_length v : Z.of_nat (length (enc_ext v)) = extlen v.
Proof.
  unfold enc_ext, extlen, ext_len. destruct (v <? 15) eqn:E; [reflexivity|].
  rewrite app_length, repeat_length. cbn [length].
  assert (0 <= (v - 15) / 255) by (Z.div_mod_to_equations; lia). lia.
Qed.

Lemma encode_seq_length q : Z.of_nat (length (encode_seq q)) = seqlen q.
Proof.
  unfold encode_seq, seqlen. cbv zeta. cbn [length].
  rewrite !app_length. cbn [length]. rewrite !Nat2Z.inj_succ, !Nat2Z.inj_add.
  rewrite !enc_ext_length. cbn [length]. lia.
Qed.

Lemma seqlen_pos q : 3 <= seqlen q.
Proof. unfold seqlen. pose proof (extlen_nonneg (Z.of_nat (length (s_lits q)))). pose proof (extlen_nonneg (s_mlen q - 4)). lia. Qed.

Lemma sumlen_nonneg l : 0 <= sumlen l.
Proof. induction l as [|q r IH]; cbn [sumlen]; [lia | pose proof (seqlen_pos q); lia]. Qed.

Lemma sumlen_app a b : sumlen (a ++ b) = sumlen a + sumlen b.
Proof. induction a as [|q r IH]; cbn [app sumlen]; lia. Qed.

Lemma sumlen_rev l : sumlen (rev l) = sumlen l.
Proof. induction l as [|q r IH]; cbn [rev sumlen]; [reflexivity | rewrite sumlen_app, IH; cbn [sumlen]; lia]. Qed.

Lemma concat_encode_length l : Z.of_nat (length (concat (map encode_seq l))) = sumlen l.
Proof.
  induction l as [|q r IH]; cbn [map concat sumlen length]; [reflexivity|].
  rewrite app_length, Nat2Z.inj_add, encode_seq_length, IH. reflexivity.
Qed.

Lemma encode_last_length last :
  Z.of_nat (length (encode_last last)) = 1 + extlen (Z.of_nat (length last)) + Z.of_nat (length last).
Proof.
  unfold encode_last. cbv zeta. cbn [length]. rewrite app_length, Nat2Z.inj_succ, Nat2Z.inj_add, enc_ext_length. lia.
Qed.

Lemma encode_block_length_Z ss last :
  Z.of_nat (length (encode_block ss last))
  = sumlen ss + 1 + extlen (Z.of_nat (length last)) + Z.of_nat (length last).
Proof.
  unfold encode_block. rewrite app_length, Nat2Z.inj_add, concat_encode_length, encode_last_length. lia.
Qed.

(* worst case of one length field: 255 * extra bytes <= value + 240 *)
Lemma extlen_bound v : 0 <= v -> 255 * extlen v <= (if v <? 15 then 0 else v + 240).
Proof. intros H. unfold extlen. destruct (v <? 15) eqn:E; [lia|]. Z.div_mod_to_equations. lia. Qed.

Lemma wild8_len_bounds_cap o l : 0 <= l -> Z.max 8 l <= wild8_len o (o + l) <= Z.max 8 (l + 7).
Proof. intros H. unfold wild8_len, wild_iters. Z.div_mod_to_equations. lia. Qed.

Section Cap.
  Variable vrd : Z -> Z.
  Variables (tt : ttype) (od : outdir) (dd : cdict) (dictSmall : bool).
  Variables (startIndex dictSize : Z) (dtable : mem) (dictDelta inputSize maxOutputSize acceleration : Z).
  Hypothesis Hod : od <> FillOutput.
  Hypothesis Hn : 0 <= inputSize.

  Let iend_ := iend startIndex inputSize.
  Let mfl := mflimitPlusOne startIndex inputSize.
  Let mlim := matchlimit startIndex inputSize.
  Let olim := olimit maxOutputSize.

  (* the limit the high-water mark must respect *)
  Definition hwlim : Z :=
    match od with NotLimited => inputSize + inputSize / 255 + 16 | _ => maxOutputSize end.

  (* states between sequences *)
  Definition CInv (s : cstate) : Prop :=
    startIndex <= c_anchor s /\
    c_op s = sumlen (c_seqs s) /\
    255 * c_op s <= 256 * (c_anchor s - startIndex) /\
    c_op s <= c_hw s <= hwlim.

  (* a state in the middle of a sequence: token, literal length and literals are written *)
  Definition CPre (s : cstate) (l : Z) : Prop :=
    startIndex <= c_anchor s /\ c_anchor s <= c_ip s /\ l = c_ip s - c_anchor s /\ c_ip s < mfl /\
    c_op s = sumlen (c_seqs s) + 1 + extlen l + l /\
    255 * sumlen (c_seqs s) <= 256 * (c_anchor s - startIndex) /\
    c_op s <= c_hw s <= hwlim.

  Definition NCap (n : next) : Prop :=
    match n with
    | NLast s => CInv s /\ c_anchor s <= iend_
    | NFail _ => od = LimitedOutput
    | NLoop s _ => CInv s /\ c_anchor s <= c_ip s /\ c_ip s <= mfl
    | NMatch s _ l _ _ _ => CPre s l
    end.

  Definition RCap (r : cres) : Prop :=
    match r with
    | RFail _ => od = LimitedOutput
    | ROk ss last _ _ hw => Z.of_nat (length (encode_block ss last)) <= hw <= hwlim
    end.

  Lemma hwlim_nl : od = NotLimited -> hwlim = inputSize + inputSize / 255 + 16.
  Proof. intros H. unfold hwlim. rewrite H. reflexivity. Qed.
  Lemma hwlim_lim : od = LimitedOutput -> hwlim = maxOutputSize.
  Proof. intros H. unfold hwlim. rewrite H. reflexivity. Qed.

  (* the high-water mark after token, literal length and the wild copy of [l] literals *)
  Definition hwlim_ok_lits (s : cstate) (l : Z) : Prop :=
    c_op s + 1 + extlen l + Z.max 8 (l + 7) <= hwlim.

  (* ---- search: fuel and capacity ---- *)
  Lemma search_cap : forall fuel s forwardIp step smn fh tab,
    CInv s -> c_anchor s <= forwardIp -> startIndex + 1 <= forwardIp <= mfl ->
    1 <= step -> 2 ^ LZ4_skipTrigger <= smn ->
    mfl - forwardIp < Z.of_nat fuel ->
    NCap (search vrd tt od dd dictSmall startIndex dictSize dtable dictDelta inputSize maxOutputSize
                 fuel s forwardIp step smn fh tab).
  Proof.
    induction fuel as [|f IH]; intros s forwardIp step smn fh tab HC Ha Hf Hstep Hsmn Hfuel;
      cbn [search]; [lia|].
    destruct (candidate dd startIndex dictSize dtable dictDelta tab fh) as [mi low].
    cbv zeta. fold mfl.
    destruct (forwardIp + step >? mfl) eqn:E1.
    { cbn [NCap c_anchor c_op c_seqs c_hw]. split; [exact HC|].
      unfold mfl, mflimitPlusOne, iend_, iend, MFLIMIT in *. lia. }
    assert (Hrec : NCap (search vrd tt od dd dictSmall startIndex dictSize dtable dictDelta inputSize maxOutputSize
                            f s (forwardIp + step) (smn / 2 ^ LZ4_skipTrigger) (smn + 1)
                            (hashPosition vrd tt (forwardIp + step)) (set tab fh (idx tt forwardIp)))).
    { apply IH; try assumption; try lia.
      assert (0 < 2 ^ LZ4_skipTrigger) by (unfold LZ4_skipTrigger; lia).
      apply Z.div_le_lower_bound; lia. }
    destruct (dictSmall && (mi <? prefixIdxLimit startIndex dictSize)) eqn:E2; [exact Hrec|].
    destruct ((match tt with ByU16 => LZ4_DISTANCE_MAX <? LZ4_DISTANCE_ABSOLUTE_MAX | ByU32 => true end)
              && (mi + LZ4_DISTANCE_MAX <? forwardIp)) eqn:E3; [exact Hrec|].
    destruct (read32 vrd mi =? read32 vrd forwardIp) eqn:E4; [|exact Hrec].
    pose proof (catchup_spec vrd (Z.to_nat (forwardIp - c_anchor s)) forwardIp mi (c_anchor s) low 0) as Hcu.
    cbv zeta in Hcu.
    set (back := catchup vrd (Z.to_nat (forwardIp - c_anchor s)) forwardIp mi (c_anchor s) low 0) in *.
    destruct Hcu as (Hb1 & Hb2 & _ & _).
    destruct HC as (C1 & C2 & C3 & C4).
    set (l := forwardIp - back - c_anchor s) in *.
    assert (Hl : 0 <= l) by (unfold l; lia).
    pose proof (extlen_bound l Hl) as Hel. pose proof (extlen_nonneg l) as Hel0.
    assert (Hext : (if l >=? RUN_MASK then c_op s + 1 + (l - RUN_MASK) / 255 + 1 else c_op s + 1)
                   = c_op s + 1 + extlen l).
    { unfold extlen, RUN_MASK. destruct (l >=? 15) eqn:A; destruct (l <? 15) eqn:B; lia. }
    pose proof (wild8_len_bounds_cap (c_op s + 1 + extlen l) l Hl) as Hw.
    (* the state handed to _next_match *)
    assert (Hpre : hwlim_ok_lits s l ->
                   CPre (mkC (forwardIp - back) (c_anchor s) (c_op s + 1 + extlen l + l) (c_seqs s)
                             (set tab fh (idx tt forwardIp))
                             (Z.max (c_hw s) (c_op s + 1 + extlen l + wild8_len (c_op s + 1 + extlen l) (c_op s + 1 + extlen l + l)))) l).
    { intros Hlim. unfold CPre. cbn [c_ip c_anchor c_op c_seqs c_hw].
      split; [lia|]. split; [lia|]. split; [unfold l; lia|]. split; [lia|].
      split; [lia|]. split; [lia|]. unfold hwlim_ok_lits in Hlim. lia. }
    unfold RUN_MASK in *.
    destruct od eqn:Eod; try (exfalso; apply Hod; reflexivity); cbn [andb].
    - (* notLimited: worst-case size argument *)
      rewrite Hext. apply Hpre. unfold hwlim_ok_lits. rewrite (hwlim_nl Eod).
      unfold mfl, mflimitPlusOne, iend, MFLIMIT in *.
      destruct (l <? 15) eqn:El; Z.div_mod_to_equations; lia.
    - (* limitedOutput: the explicit test *)
      match goal with |- NCap (if ?c then _ else _) => destruct c eqn:Eg end; [exact Eod|].
      rewrite Hext. apply Hpre. unfold hwlim_ok_lits. rewrite (hwlim_lim Eod).
      unfold olimit, LASTLITERALS in *.
      destruct (l <? 15) eqn:El; Z.div_mod_to_equations; lia.
  Qed.

  (* ---- _next_match ---- *)
  Lemma next_match_cap s t l mi low fi :
    CPre s l ->
    let n := next_match vrd tt od dd dictSmall startIndex dictSize dtable dictDelta inputSize maxOutputSize
                        s t l mi low fi in
    NCap n /\ match n with
              | NMatch s' _ _ _ _ _ => c_ip s + 4 <= c_ip s' /\ c_anchor s + 4 <= c_anchor s'
              | NLoop s' _ => c_anchor s + 4 <= c_anchor s'
              | _ => True
              end.
  Proof.
    intros (P1 & P2 & P3 & P4 & P5 & P6 & P7).
    unfold next_match. cbv zeta.
    set (i := c_ip s) in *.
    assert (Hi4 : i + MINMATCH <= mlim) by (unfold mlim, matchlimit, mfl, mflimitPlusOne, iend, MFLIMIT, LASTLITERALS, MINMATCH in *; lia).
    pose proof (count_spec vrd (i + MINMATCH) (mi + MINMATCH) mlim Hi4) as Hc. cbv zeta in Hc.
    fold mlim.
    set (mc := count vrd (i + MINMATCH) (mi + MINMATCH) mlim) in *.
    destruct Hc as (Hc1 & _ & _).
    assert (Hl : 0 <= l) by lia.
    pose proof (extlen_bound l Hl) as Hel. pose proof (extlen_nonneg l) as Hel0.
    pose proof (extlen_bound mc ltac:(lia)) as Hem. pose proof (extlen_nonneg mc) as Hem0.
    set (i1 := i + mc + MINMATCH) in *.
    set (sq := mkSeq (lits vrd (Z.to_nat l) (c_anchor s)) (i - mi) (mc + MINMATCH)).
    assert (Hsq : seqlen sq = 1 + extlen l + l + 2 + extlen mc).
    { unfold seqlen, sq. cbn [s_lits s_mlen]. rewrite lits_length. unfold MINMATCH.
      replace (Z.of_nat (Z.to_nat l)) with l by lia. replace (mc + 4 - 4) with mc by lia. reflexivity. }
    assert (Ho3 : (if mc >=? ML_MASK then c_op s + 2 + (mc - ML_MASK) / 255 + 1 else c_op s + 2) = c_op s + 2 + extlen mc).
    { unfold extlen, ML_MASK. destruct (mc >=? 15) eqn:A; destruct (mc <? 15) eqn:B; lia. }
    set (o3 := c_op s + 2 + extlen mc) in *.
    assert (Hsum : o3 = sumlen (sq :: c_seqs s)) by (cbn [sumlen]; rewrite Hsq; unfold o3; lia).
    assert (Hpot : 255 * o3 <= 256 * (i1 - startIndex)).
    { unfold o3, i1, MINMATCH. destruct (l <? 15) eqn:El; destruct (mc <? 15) eqn:Em; lia. }
    assert (Hw32 : (if mc >=? ML_MASK then c_op s + 2 + 4 * ((mc - ML_MASK) / (4 * 255)) + 4 else c_op s + 2) <= o3 + 3).
    { unfold o3, extlen, ML_MASK. destruct (mc >=? 15) eqn:A; destruct (mc <? 15) eqn:B; try lia.
      Z.div_mod_to_equations. lia. }
    (* the bound of the high-water mark after this sequence *)
    assert (Rest : o3 + 6 <= hwlim ->
      let hw1 := Z.max (c_hw s) (if mc >=? ML_MASK then c_op s + 2 + 4 * ((mc - ML_MASK) / (4 * 255)) + 4 else c_op s + 2) in
      forall n,
      n = (if i1 >=? mfl then NLast (mkC i1 i1 o3 (sq :: c_seqs s) (c_tab s) (Z.max hw1 o3))
           else
             let tab := set (c_tab s) (hashPosition vrd tt (i1 - 2)) (idx tt (i1 - 2)) in
             let h := hashPosition vrd tt i1 in
             let '(mi2, low2) := candidate dd startIndex dictSize dtable dictDelta tab h in
             let tab0 := set tab h (idx tt i1) in
             if (if dictSmall then mi2 >=? prefixIdxLimit startIndex dictSize else true)
                && match tt with
                   | ByU16 => if LZ4_DISTANCE_MAX =? LZ4_DISTANCE_ABSOLUTE_MAX then true else mi2 + LZ4_DISTANCE_MAX >=? i1
                   | ByU32 => mi2 + LZ4_DISTANCE_MAX >=? i1
                   end
                && (read32 vrd mi2 =? read32 vrd i1)
             then NMatch (mkC i1 i1 (o3 + 1) (sq :: c_seqs s) tab0 (Z.max hw1 (o3 + 1))) o3 0 mi2 low2 fi
             else NLoop (mkC (i1 + 1) i1 o3 (sq :: c_seqs s) tab0 (Z.max hw1 o3)) (hashPosition vrd tt (i1 + 1))) ->
      NCap n /\ match n with
                | NMatch s' _ _ _ _ _ => i + 4 <= c_ip s' /\ c_anchor s + 4 <= c_anchor s'
                | NLoop s' _ => c_anchor s + 4 <= c_anchor s'
                | _ => True
                end).
    { intros Hlim hw1 n ->.
      assert (Hhw1 : hw1 <= hwlim) by (unfold hw1; lia).
      assert (HC1 : forall ip tab, CInv (mkC ip i1 o3 (sq :: c_seqs s) tab (Z.max hw1 o3))).
      { intros ip tab. unfold CInv. cbn [c_anchor c_op c_seqs c_hw].
        split; [unfold i1, MINMATCH; lia|]. split; [exact Hsum|]. split; [exact Hpot|]. lia. }
      destruct (i1 >=? mfl) eqn:E1.
      { split; [|exact I]. cbn [NCap c_anchor]. split; [apply HC1|].
        unfold mlim, matchlimit, iend_, LASTLITERALS in *. unfold i1. lia. }
      cbv zeta.
      destruct (candidate dd startIndex dictSize dtable dictDelta
                  (set (c_tab s) (hashPosition vrd tt (i1 - 2)) (idx tt (i1 - 2))) (hashPosition vrd tt i1)) as [mi2 low2].
      match goal with |- NCap (if ?c then _ else _) /\ _ => destruct c end.
      - split; [|cbn [c_ip c_anchor]; unfold i1, MINMATCH; lia].
        cbn [NCap]. unfold CPre. cbn [c_ip c_anchor c_op c_seqs c_hw].
        split; [unfold i1, MINMATCH; lia|]. split; [lia|]. split; [lia|]. split; [lia|].
        split; [rewrite <- Hsum; unfold extlen; cbn; lia|].
        split; [rewrite <- Hsum; exact Hpot|]. lia.
      - split; [|cbn [c_anchor]; unfold i1, MINMATCH; lia]. cbn [NCap c_anchor c_ip]. split; [apply HC1|]. lia. }
    fold mfl. unfold MINMATCH in Hi4.
    destruct od eqn:Eod; try (exfalso; apply Hod; reflexivity); cbn [andb].
    - (* notLimited *)
      rewrite !Ho3. apply Rest; [|reflexivity].
      rewrite (hwlim_nl Eod).
      assert (o3 <= (i1 - startIndex) + (i1 - startIndex) / 255) by (Z.div_mod_to_equations; lia).
      unfold mlim, matchlimit, iend, LASTLITERALS in *. unfold i1, MINMATCH in *.
      Z.div_mod_to_equations. lia.
    - (* limitedOutput *)
      match goal with |- context [?a >? olimit maxOutputSize] => destruct (a >? olimit maxOutputSize) eqn:Eover end;
        cbn [andb]; [split; [exact Eod | exact I]|].
      rewrite !Ho3. apply Rest; [|reflexivity].
      rewrite (hwlim_lim Eod). unfold olimit, LASTLITERALS in *.
      assert (extlen mc <= (mc + 240) / 255).
      { unfold extlen. destruct (mc <? 15) eqn:B; Z.div_mod_to_equations; lia. }
      unfold o3. lia.
  Qed.

  (* search never returns NLoop, and the match it finds belongs to the same anchor *)
  Lemma search_shape : forall fuel s forwardIp step smn fh tab,
    match search vrd tt od dd dictSmall startIndex dictSize dtable dictDelta inputSize maxOutputSize
                 fuel s forwardIp step smn fh tab with
    | NMatch s1 _ _ _ _ _ => c_anchor s1 = c_anchor s
    | NLoop _ _ => False
    | _ => True
    end.
  Proof.
    induction fuel as [|f IH]; intros s forwardIp step smn fh tab; cbn [search]; [exact I|].
    destruct (candidate dd startIndex dictSize dtable dictDelta tab fh) as [mi low]. cbv zeta.
    repeat match goal with
           | |- match (if ?c then _ else _) with _ => _ end => destruct c
           end; try apply IH; cbn [c_anchor]; auto.
  Qed.

  Definition final (n : next) : Prop := match n with NMatch _ _ _ _ _ _ => False | _ => True end.

  Lemma chain_id fuel n : final n ->
    chain vrd tt od dd dictSmall startIndex dictSize dtable dictDelta inputSize maxOutputSize fuel n = n.
  Proof. destruct fuel; destruct n; cbn [chain final]; intros H; try reflexivity; contradiction. Qed.

  Lemma chain_cap : forall fuel n,
    NCap n ->
    match n with NMatch s _ _ _ _ _ => mfl - c_ip s < Z.of_nat fuel | _ => True end ->
    let r := chain vrd tt od dd dictSmall startIndex dictSize dtable dictDelta inputSize maxOutputSize fuel n in
    NCap r /\ final r /\
    match r with
    | NLoop s' _ => match n with
                    | NMatch s _ _ _ _ _ => c_anchor s + 4 <= c_anchor s'
                    | NLoop _ _ => True
                    | _ => False
                    end
    | _ => True
    end.
  Proof.
    induction fuel as [|f IH]; intros n Hnc Hm; cbv zeta.
    - destruct n as [s|tab|s fh|s t l mi low fi].
      + rewrite chain_id by exact I. split; [exact Hnc | split; exact I].
      + rewrite chain_id by exact I. split; [exact Hnc | split; exact I].
      + rewrite chain_id by exact I. split; [exact Hnc | split; exact I].
      + cbn [NCap] in Hnc. destruct Hnc as (_ & _ & _ & A & _). lia.
    - destruct n as [s|tab|s fh|s t l mi low fi].
      + rewrite chain_id by exact I. split; [exact Hnc | split; exact I].
      + rewrite chain_id by exact I. split; [exact Hnc | split; exact I].
      + rewrite chain_id by exact I. split; [exact Hnc | split; exact I].
      + cbn [chain]. cbn [NCap] in Hnc.
        pose proof (next_match_cap s t l mi low fi Hnc) as H. cbv zeta in H. destruct H as [H1 H2].
        set (n' := next_match vrd tt od dd dictSmall startIndex dictSize dtable dictDelta inputSize maxOutputSize
                              s t l mi low fi) in *.
        destruct n' as [s0|tab0|s0 fh0|s0 t0 l0 mi0 low0 fi0].
        * rewrite chain_id by exact I. split; [exact H1 | split; exact I].
        * rewrite chain_id by exact I. split; [exact H1 | split; exact I].
        * rewrite chain_id by exact I. split; [exact H1 | split; [exact I | exact H2]].
        * assert (Hm' : mfl - c_ip s0 < Z.of_nat f) by lia.
          specialize (IH (NMatch s0 t0 l0 mi0 low0 fi0) H1 Hm'). cbv zeta in IH.
          destruct IH as (I1 & I2 & I3).
          split; [exact I1|]. split; [exact I2|].
          destruct (chain vrd tt od dd dictSmall startIndex dictSize dtable dictDelta inputSize maxOutputSize f
                          (NMatch s0 t0 l0 mi0 low0 fi0)); try exact I. lia.
  Qed.

  Lemma last_literals_cap s :
    CInv s -> c_anchor s <= iend_ ->
    RCap (last_literals vrd od startIndex inputSize maxOutputSize s).
  Proof.
    intros (C1 & C2 & C3 & C4) Ha. unfold last_literals. cbv zeta. fold iend_.
    set (R := iend_ - c_anchor s) in *.
    assert (HR : 0 <= R) by (unfold R; lia).
    pose proof (extlen_bound R HR) as HeR. pose proof (extlen_nonneg R) as HeR0.
    assert (Hext : (if R >=? RUN_MASK then (R - RUN_MASK) / 255 + 1 else 0) = extlen R).
    { unfold extlen, RUN_MASK. destruct (R >=? 15) eqn:A; destruct (R <? 15) eqn:B; lia. }
    assert (Hlen : Z.of_nat (length (encode_block (rev (c_seqs s)) (lits vrd (Z.to_nat R) (c_anchor s))))
                   = c_op s + 1 + extlen R + R).
    { rewrite encode_block_length_Z, sumlen_rev, lits_length, C2. rewrite !Z2Nat.id by lia. lia. }
    assert (G : c_op s + 1 + extlen R + R <= hwlim ->
                forall c tab, RCap (ROk (rev (c_seqs s)) (lits vrd (Z.to_nat R) (c_anchor s)) c tab
                                        (Z.max (c_hw s) (c_op s + 1 + (if R >=? RUN_MASK then (R - RUN_MASK) / 255 + 1 else 0) + R)))).
    { intros Hlim c tab. cbn [RCap]. rewrite Hlen, Hext. lia. }
    destruct od eqn:Eod; try (exfalso; apply Hod; reflexivity).
    - apply G. rewrite (hwlim_nl Eod).
      assert (HRe : R = startIndex + inputSize - c_anchor s) by (unfold R, iend_, iend; lia).
      clearbody R. destruct (R <? 15) eqn:B; Z.div_mod_to_equations; lia.
    - match goal with |- RCap (if ?c then _ else _) => destruct c eqn:Eover end; [exact Eod|].
      apply G. rewrite (hwlim_lim Eod). unfold olimit, RUN_MASK in *.
      assert (extlen R <= (R + 255 - 15) / 255).
      { unfold extlen. destruct (R <? 15) eqn:B; Z.div_mod_to_equations; lia. }
      lia.
  Qed.

  Hypothesis Hacc : 1 <= acceleration.

  Lemma main_loop_cap : forall fuel s fh,
    CInv s -> c_anchor s <= c_ip s -> startIndex + 1 <= c_ip s <= mfl ->
    iend_ - c_anchor s < Z.of_nat fuel ->
    RCap (main_loop vrd tt od dd dictSmall startIndex dictSize dtable dictDelta inputSize maxOutputSize acceleration
                    fuel s fh).
  Proof.
    induction fuel as [|f IH]; intros s fh HC Ha Hip Hfuel; cbn [main_loop].
    { destruct HC as (C1 & _). unfold mfl, mflimitPlusOne, iend_, iend, MFLIMIT in *. lia. }
    cbv zeta.
    set (n1 := search vrd tt od dd dictSmall startIndex dictSize dtable dictDelta inputSize maxOutputSize
                      (Z.to_nat inputSize + 1) s (c_ip s) 1 (acceleration * 2 ^ LZ4_skipTrigger) fh (c_tab s)).
    assert (Hn1 : NCap n1).
    { apply search_cap; try assumption; try lia.
      - assert (0 < 2 ^ LZ4_skipTrigger) by (unfold LZ4_skipTrigger; lia). nia.
      - unfold mfl, mflimitPlusOne, iend, MFLIMIT in *. lia. }
    pose proof (search_shape (Z.to_nat inputSize + 1) s (c_ip s) 1 (acceleration * 2 ^ LZ4_skipTrigger) fh (c_tab s)) as Hsh.
    fold n1 in Hsh.
    assert (Hm : match n1 with NMatch s0 _ _ _ _ _ => mfl - c_ip s0 < Z.of_nat (Z.to_nat inputSize + 1) | _ => True end).
    { destruct n1; try exact I. cbn [NCap] in Hn1. destruct Hn1 as (A & B & _).
      unfold mfl, mflimitPlusOne, iend, MFLIMIT in *. lia. }
    pose proof (chain_cap (Z.to_nat inputSize + 1) n1 Hn1 Hm) as H. cbv zeta in H.
    destruct H as (H1 & H2 & H3).
    destruct (chain vrd tt od dd dictSmall startIndex dictSize dtable dictDelta inputSize maxOutputSize
                    (Z.to_nat inputSize + 1) n1) as [s'|tab|s' fh'|s' t l mi low fi]; cbn [NCap final] in *.
    - destruct H1. apply last_literals_cap; assumption.
    - exact H1.
    - destruct H1 as (A & B & C).
      assert (Hprog : c_anchor s + 4 <= c_anchor s').
      { destruct n1 as [s0|tab0|s0 fh0|s0 t0 l0 mi0 low0 fi0]; try contradiction. rewrite <- Hsh. exact H3. }
      apply IH; try assumption; [|lia].
      destruct HC as (C1 & _). split; [lia | exact C].
    - contradiction.
  Qed.

  Hypothesis Hcap0 : od = LimitedOutput -> 0 <= maxOutputSize.

  Lemma hwlim_nonneg : 0 <= hwlim.
  Proof.
    unfold hwlim. destruct od eqn:E; try (apply Hcap0; reflexivity).
    - Z.div_mod_to_equations. lia.
    - exfalso. apply Hod. reflexivity.
  Qed.

  Theorem compress_validated_cap tab :
    RCap (compress_validated vrd tt od dd dictSmall startIndex dictSize dtable dictDelta inputSize maxOutputSize
                             acceleration tab).
  Proof.
    unfold compress_validated.
    assert (Ef : (match od with FillOutput => true | _ => false end) = false).
    { destruct od; try reflexivity. exfalso; apply Hod; reflexivity. }
    rewrite Ef. cbn [andb]. cbv zeta.
    pose proof hwlim_nonneg as H0.
    assert (HC0 : forall ip t, CInv (mkC ip startIndex 0 [] t 0)).
    { intros. unfold CInv. cbn [c_anchor c_op c_seqs c_hw sumlen]. repeat split; lia. }
    destruct (inputSize <? LZ4_minLength) eqn:E.
    - apply last_literals_cap; [apply HC0 | cbn [c_anchor]; unfold iend_, iend; lia].
    - apply main_loop_cap; cbn [c_anchor c_ip]; [apply HC0 | lia | | ].
      + unfold mfl, mflimitPlusOne, iend, MFLIMIT, LZ4_minLength in *. lia.
      + unfold iend_, iend. lia.
  Qed.
End Cap.

Print Assumptions compress_validated_cap.
