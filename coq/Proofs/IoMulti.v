(* Proofs about Model/Io.v, part 4: multi-file mode (lz4 -d -m).  The exit status is the number
   of failed inputs, saturated at 255 (fix c651f2d): it is 0 only if every input was decoded with
   result 0 - whatever the number of inputs. *)
From Coq Require Import ZArith List Lia Bool.
From LZ4V Require Import Spec.BlockSpec Spec.FrameSpec Gen.Consts Model.Io Proofs.IoProofs.
Import ListNotations.
Local Open Scope Z_scope.

Section Multi.
  Variable fdec : list byte -> option (list byte * list byte).
  Variable bdec : list byte -> option (list byte).

  Lemma frames_loop_ret01 : forall fuel mt test sk fl s r s',
    frames_loop fdec bdec fuel mt test false sk fl s = Ret r s' -> r = 0 \/ r = 1.
  Proof.
    induction fuel; intros mt test sk fl s r s' H; cbn [frames_loop] in H; [discriminate|].
    destruct (select_decoder fdec bdec mt test false sk fl s) as [d sd|c sd]; [|discriminate].
    destruct d; [eapply IHfuel; exact H|inversion H; auto|inversion H; auto].
  Qed.

  Lemma decompress_dst_cases : forall mt test sk rm fl s,
    match decompress_dst fdec bdec mt test false sk rm fl s with
    | Ret r _ => r = 0 \/ r = 1
    | Die c _ => c <> 0
    end.
  Proof.
    intros mt test sk rm fl s. unfold decompress_dst, decompress_src, close_and_remove.
    destruct (f_open_dst fl); [right; reflexivity|].
    destruct (f_open_src fl).
    { destruct (f_close_dst fl); [lia|]. cbn. right; reflexivity. }
    match goal with |- context [frames_loop ?a ?b ?f ?m ?t ?p ?k ?l ?x] =>
      destruct (frames_loop a b f m t p k l x) as [r s2|c s2] eqn:FL end.
    - apply frames_loop_ret01 in FL.
      destruct (f_close_dst fl); [lia|].
      destruct ((r =? 0) && rm); [destruct (f_remove fl); [lia|exact FL]|exact FL].
    - eapply frames_loop_die; exact FL.
  Qed.

  Lemma multi_loop_exit0 : forall mt test sk rm files nb missing done,
    0 <= missing -> (missing = 0 -> Forall (fun o => o_exit o = 0) done) ->
    fst (multi_loop fdec bdec mt test sk rm files nb missing done) = 0 ->
    Forall (fun o => o_exit o = 0) (snd (multi_loop fdec bdec mt test sk rm files nb missing done)) /\
    length (snd (multi_loop fdec bdec mt test sk rm files nb missing done)) = (length done + length files)%nat.
  Proof.
    intros mt test sk rm files. induction files as [|[fl input] files IH]; intros nb missing done M0 FD H; cbn [multi_loop] in *.
    - cbn [fst snd] in *. destruct (255 <? missing) eqn:E; [discriminate|].
      split; [|rewrite rev_length; cbn; lia]. apply Forall_rev. apply FD. exact H.
    - assert (C := decompress_dst_cases mt test sk rm fl (st_init input nb)).
      destruct (decompress_dst fdec bdec mt test false sk rm fl (st_init input nb)) as [r s|c s].
      + destruct (IH (s_nbFrames s) (missing + r) (outcome_of (Ret r s) :: done)) as [F L].
        * lia.
        * intros Z. assert (missing = 0 /\ r = 0) by lia. destruct H0 as [-> ->]. constructor; [reflexivity|apply FD; reflexivity].
        * exact H.
        * split; [exact F|]. rewrite L. cbn [length]. lia.
      + cbn [fst] in H. contradiction.
  Qed.

  (* C14_multi_exit0 *)
  Theorem multi_exit0 : forall mt test sk rm files,
    fst (decompress_multi fdec bdec mt test sk rm files) = 0 ->
    Forall (fun o => o_exit o = 0) (snd (decompress_multi fdec bdec mt test sk rm files)) /\
    length (snd (decompress_multi fdec bdec mt test sk rm files)) = length files.
  Proof.
    intros mt test sk rm files H. unfold decompress_multi in *.
    destruct (multi_loop_exit0 mt test sk rm files 0 0 [] ltac:(lia) ltac:(intros _; constructor) H) as [F L].
    split; [exact F|exact L].
  Qed.
End Multi.
