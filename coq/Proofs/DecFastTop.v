(* C05 for the deprecated LZ4_decompress_fast* entry points (Model.DecFast): lifting of the loop
   simulation of Proofs/DecFastRefine.v to LZ4_decompress_unsafe_generic and its callers. *)
From Coq Require Import ZArith List Lia Bool ZifyBool FMapPositive.
From LZ4V Require Import Gen.Consts Spec.BlockSpec Model.Mem Model.Dec Model.DecApi Model.DecStream Model.DecFast.
From LZ4V Require Import Proofs.DecRefineBase Proofs.DecRefineSafe Proofs.DecRefineTop Proofs.DecRefineApi Proofs.DecStreamRefine Proofs.DecFastRefine.
Import ListNotations.
Local Open Scope Z_scope.

(* ---------- LZ4_decompress_unsafe_generic on a strictly valid block ---------- *)
Definition fast_decodes_to (res : Z * mem * bool) (B D : list Z) : Prop :=
  let '(r, m, k) := res in
  r = Z.of_nat (length B) /\ k = true /\
  forall i, 0 <= i < Z.of_nat (length D) -> get m i = nth (Z.to_nat i) D 0.

Theorem unsafe_generic_valid (srcm : mem) (srcSize prefixSize : Z) (dictm : mem) (dictSize : Z)
        (B hist D : list Z) (m0 : mem) :
  0 <= prefixSize -> 0 <= dictSize ->
  strict_valid hist B = Some D -> bytes B -> src_at srcm 0 B -> Z.of_nat (length B) <= srcSize ->
  out_at (vget (- prefixSize) dictm dictSize m0) 0 (rev hist) ->
  Z.of_nat (length hist) <= prefixSize + dictSize ->
  fast_decodes_to (unsafe_generic srcm srcSize (Z.of_nat (length D)) prefixSize dictm dictSize m0) B D.
Proof.
  intros Hps Hds Hv Hb Hs Hsz Hh Hhl.
  unfold strict_valid in Hv.
  destruct (parse_block B) as [[ss last]|] eqn:Ep; [|discriminate].
  destruct (end_ok ss last) eqn:Eend; [|discriminate].
  pose proof (run_seqs_length _ _ _ _ Hv) as HlenD.
  unfold run_seqs in Hv. unfold byte in *. destruct (apply_seqs (rev hist) ss) as [rout'|] eqn:Eapp; [|discriminate].
  injection Hv as HD.
  unfold parse_block in Ep.
  unfold unsafe_generic, fast_decodes_to.
  destruct (urun_sim srcm srcSize (Z.of_nat (length D)) prefixSize dictm dictSize Hps
              _ _ _ _ Ep (rev hist) rout' (mkD 0 0 m0 true) (Z.to_nat srcSize + 2) eq_refl Eapp Eend Hb)
    as (s' & Hrun & Hok & Hout); cbn [ip op dm]; try lia.
  - exact Hs.
  - exact Hh.
  - rewrite rev_length. lia.
  - rewrite Hrun. cbn [ip]. split; [lia|]. split; [exact Hok|].
    intros i Hi. rewrite <- HD.
    rewrite <- (vget_hi (- prefixSize) dictm dictSize (dm s') i) by lia.
    apply content_of_image with (n := Z.of_nat (length (skipn (length hist) (rev (rev last ++ rout'))))).
    + rewrite HD. exact Hout.
    + apply apply_seqs_length in Eapp. rewrite rev_length in Eapp. rewrite app_length, rev_length.
      pose proof (total_len_last ss last). rewrite HD. unfold byte in *. lia.
    + rewrite HD. exact Hi.
Qed.

(* ---------- the entry points ---------- *)
Theorem fast_valid :
  forall (B D : list Z) (srcm : mem) (srcSize : Z) (m0 : mem),
    strict_valid [] B = Some D -> bytes B -> src_at srcm 0 B -> Z.of_nat (length B) <= srcSize ->
    fast_decodes_to (decompress_fast srcm srcSize (Z.of_nat (length D)) m0) B D.
Proof.
  intros B D srcm srcSize m0 Hv Hb Hs Hsz. unfold decompress_fast.
  apply (unsafe_generic_valid srcm srcSize 0 empty 0 B [] D m0); try assumption; try lia.
  - intros j Hj. cbn in Hj. lia.
  - cbn. lia.
Qed.

Theorem fast_usingDict_valid :
  forall (pl : placement) (B hist D : list Z) (srcm dictm : mem) (srcSize : Z) (m0 : mem),
    strict_valid (lastn (Z.to_nat 65536) hist) B = Some D -> bytes B -> src_at srcm 0 B ->
    Z.of_nat (length B) <= srcSize -> hist_placed pl hist dictm m0 ->
    fast_decodes_to (decompress_fast_usingDict srcm srcSize (Z.of_nat (length D)) pl dictm (Z.of_nat (length hist)) m0) B D.
Proof.
  intros pl B hist D srcm dictm srcSize m0 Hv Hb Hs Hsz Hh.
  unfold decompress_fast_usingDict.
  pose proof (lastn_length (Z.to_nat 65536) hist) as Hl.
  assert (Hpre : hist_placed PPrefix hist dictm m0 ->
           fast_decodes_to (unsafe_generic srcm srcSize (Z.of_nat (length D)) (Z.of_nat (length hist)) empty 0 m0) B D).
  { intros Hp. unfold hist_placed in Hp. pose proof (out_at_lastn _ _ (Z.to_nat 65536) _ Hp) as Hh'.
    apply (unsafe_generic_valid srcm srcSize (Z.of_nat (length hist)) empty 0 B (lastn (Z.to_nat 65536) hist) D m0); try assumption; try lia.
    apply view_prefix; [exact Hh' | rewrite rev_length; lia]. }
  destruct (Z.of_nat (length hist) =? 0) eqn:E0.
  - apply (unsafe_generic_valid srcm srcSize (Z.of_nat (length hist)) empty 0 B (lastn (Z.to_nat 65536) hist) D m0); try assumption; try lia.
    intros j Hj. rewrite rev_length in Hj. lia.
  - destruct pl.
    + apply Hpre. exact Hh.
    + unfold hist_placed in Hh.
      apply (unsafe_generic_valid srcm srcSize 0 dictm (Z.of_nat (length hist)) B (lastn (Z.to_nat 65536) hist) D m0); try assumption; try lia.
      apply (view_ext dictm hist m0). exact Hh.
Qed.

(* history available to LZ4_decompress_fast_continue: prefix and external dictionary are both
   passed on whenever the destination continues the prefix (no 64 KB special case) *)
Definition fstream_avail (st : sdstate) (dest : Z) : Z :=
  if sd_prefixSize st =? 0 then 0
  else if sd_prefixEnd st =? dest then sd_prefixSize st + sd_extDictSize st
  else sd_prefixSize st.

Theorem fast_continue_step :
  forall (am : mem) (st : sdstate) (srcm : mem) (srcSize : Z) (B hist D : list Z) (dest : Z),
    0 <= sd_prefixSize st -> 0 <= sd_extDictSize st ->
    out_at (stream_view am st dest) 0 (rev hist) -> Z.of_nat (length hist) <= fstream_avail st dest ->
    strict_valid (lastn (Z.to_nat 65536) hist) B = Some D -> bytes B -> src_at srcm 0 B ->
    Z.of_nat (length B) <= srcSize ->
    let '(r, am', st', k) := decompress_fast_continue am st srcm srcSize dest (Z.of_nat (length D)) in
    r = Z.of_nat (length B) /\ k = true /\ src_at am' dest D /\
    (0 < Z.of_nat (length B) -> 0 < Z.of_nat (length D) -> st' = next_state st dest (Z.of_nat (length D))).
Proof.
  intros am st srcm srcSize B hist D dest Hps Heds Hview Havail Hv Hb Hs Hsz.
  pose proof (lastn_length (Z.to_nat 65536) hist) as Hl.
  pose proof (out_at_lastn _ _ (Z.to_nat 65536) _ Hview) as Hview'.
  set (n := Z.of_nat (length D)) in *.
  unfold decompress_fast_continue, stream_view, fstream_avail, next_state in *.
  assert (Hfin : forall (res : Z * mem * bool) (stA stB : sdstate),
             fast_decodes_to res B D ->
             let '(r, am', st', k) :=
               (let '(r, m, k) := res in
                let am' := writeback am dest n m in
                if r <=? 0 then (r, am', stA, k) else (r, am', stB, k)) in
             r = Z.of_nat (length B) /\ k = true /\ src_at am' dest D /\ (0 < Z.of_nat (length B) -> 0 < n -> st' = stB)).
  { intros [[r m] k] stA stB (Hr & Hk & Hm).
    assert (Hsrc : src_at (writeback am dest n m) dest D).
    { intros j Hj. rewrite writeback_get by (unfold n; lia). rewrite Hm by lia. f_equal. lia. }
    destruct (r <=? 0) eqn:E; (split; [exact Hr|]; split; [exact Hk|]; split; [exact Hsrc|]); intros Hpos Hn; [lia | reflexivity]. }
  (* the "prefix becomes extDict" branch keeps its history on an empty block (fix F19) *)
  assert (Hfin3 : forall (res : Z * mem * bool) (stA stB : sdstate),
             fast_decodes_to res B D ->
             let '(r, am', st', k) :=
               (let '(r, m, k) := res in
                let am' := writeback am dest n m in
                if (r <=? 0) || (n =? 0) then (r, am', stA, k) else (r, am', stB, k)) in
             r = Z.of_nat (length B) /\ k = true /\ src_at am' dest D /\ (0 < Z.of_nat (length B) -> 0 < n -> st' = stB)).
  { intros [[r m] k] stA stB (Hr & Hk & Hm).
    assert (Hsrc : src_at (writeback am dest n m) dest D).
    { intros j Hj. rewrite writeback_get by (unfold n; lia). rewrite Hm by lia. f_equal. lia. }
    destruct ((r <=? 0) || (n =? 0)) eqn:E; (split; [exact Hr|]; split; [exact Hk|]; split; [exact Hsrc|]); intros Hpos Hn; [lia | reflexivity]. }
  destruct (sd_prefixSize st =? 0) eqn:E0.
  - apply Hfin. unfold decompress_fast.
    apply (unsafe_generic_valid srcm srcSize 0 empty 0 B (lastn (Z.to_nat 65536) hist) D _); try assumption; try lia.
    intros j Hj. rewrite rev_length in Hj. lia.
  - destruct (sd_prefixEnd st =? dest) eqn:Epe.
    + set (ps := sd_prefixSize st) in *. set (eds := sd_extDictSize st) in *. set (ed := sd_externalDict st) in *.
      assert (Hwork : forall a, - Z.min ps 65536 <= a < 0 -> get (work am dest n ps) a = get am (dest + a)).
      { intros a Ha. unfold work, hist_window. rewrite get_view.
        assert (E : (- Z.min ps 65536 <=? a) && (a <? - Z.min ps 65536 + Z.max (Z.min ps 65536 + Z.max n 0) 0) = true) by lia.
        rewrite E. f_equal. lia. }
      apply Hfin.
      apply (unsafe_generic_valid srcm srcSize ps (dictview am ed eds) eds B (lastn (Z.to_nat 65536) hist) D _); try assumption; try lia.
      intros j Hj. rewrite rev_length in Hj.
      rewrite <- (Hview' j) by (rewrite rev_length; lia).
      unfold vget.
      destruct (- ps <=? 0 - 1 - Z.of_nat j) eqn:Ein.
      * assert (E : (0 - 1 - Z.of_nat j <? - ps) = false) by lia. rewrite E. rewrite Hwork by lia. f_equal; lia.
      * assert (E : (0 - 1 - Z.of_nat j <? - ps) = true) by lia. rewrite E.
        unfold dictview, hist_window. rewrite get_view.
        assert (E2 : (eds - Z.min eds 65536 <=? eds - (- ps - (0 - 1 - Z.of_nat j))) &&
                     (eds - (- ps - (0 - 1 - Z.of_nat j)) <? eds - Z.min eds 65536 + Z.max (Z.min eds 65536) 0) = true) by lia.
        rewrite E2. f_equal; lia.
    + set (ps := sd_prefixSize st) in *. set (pe := sd_prefixEnd st) in *.
      apply Hfin3.
      apply (unsafe_generic_valid srcm srcSize 0 (dictview am (pe - ps) ps) ps B (lastn (Z.to_nat 65536) hist) D _); try assumption; try lia.
      intros j Hj. rewrite rev_length in Hj.
      rewrite <- (Hview' j) by (rewrite rev_length; lia).
      unfold vget. assert (E : (0 - 1 - Z.of_nat j <? - 0) = true) by lia. rewrite E.
      unfold dictview, hist_window. rewrite get_view.
      assert (E2 : (ps - Z.min ps 65536 <=? ps - (- 0 - (0 - 1 - Z.of_nat j))) &&
                   (ps - (- 0 - (0 - 1 - Z.of_nat j)) <? ps - Z.min ps 65536 + Z.max (Z.min ps 65536) 0) = true) by lia.
      rewrite E2. f_equal; lia.
Qed.
