(* C05/C16, layers 2 and 3 for the SAFE loop of the decoder model (fast = false in
   [Model.Dec.run]): one iteration of [safe_top] on a state that sits at a sequence
   boundary of a specification-valid block performs exactly the specification's
   [apply_seq] on the image below [op]; the final literal run ends the decode with
   the specified content.  Generic in the dictionary mode; matches that start in an
   external dictionary are handled through the memory view [vget] (dictionary glued
   below lowPrefix). *)
From Coq Require Import ZArith List Lia Bool ZifyBool.
From LZ4V Require Import Gen.Consts Spec.BlockSpec Model.Mem Model.Dec Proofs.DecRefineBase.
Import ListNotations.
Local Open Scope Z_scope.

(* ---------- the source block in memory ---------- *)
Definition src_at (srcm : mem) (p : Z) (bs : list Z) : Prop :=
  forall j, (j < length bs)%nat -> get srcm (p + Z.of_nat j) = nth j bs 0.
Definition bytes (bs : list Z) : Prop := Forall (fun b => 0 <= b < 256) bs.

Lemma src_at_cons srcm p b r : src_at srcm p (b :: r) -> get srcm p = b /\ src_at srcm (p + 1) r.
Proof.
  intros H. split.
  - specialize (H 0%nat). cbn [length nth] in H. replace (p + Z.of_nat 0) with p in H by lia. apply H. lia.
  - intros j Hj. specialize (H (S j)). cbn [length nth] in H.
    replace (p + 1 + Z.of_nat j) with (p + Z.of_nat (S j)) by lia. apply H. lia.
Qed.

Lemma src_at_app srcm p a t :
  src_at srcm p (a ++ t) -> src_at srcm p a /\ src_at srcm (p + Z.of_nat (length a)) t.
Proof.
  intros H. split.
  - intros j Hj. rewrite (H j) by (rewrite app_length; lia). apply app_nth1. exact Hj.
  - intros j Hj. replace (p + Z.of_nat (length a) + Z.of_nat j) with (p + Z.of_nat (length a + j)) by lia.
    rewrite (H (length a + j)%nat) by (rewrite app_length; lia).
    rewrite app_nth2 by lia. f_equal. lia.
Qed.

Lemma take_spec : forall n bs a t, take n bs = Some (a, t) -> bs = a ++ t /\ length a = n.
Proof.
  induction n as [|n IH]; intros bs a t H; cbn [take] in H.
  - inversion H; subst. split; reflexivity.
  - destruct bs as [|b r]; [discriminate|].
    destruct (take n r) as [[a' t']|] eqn:E; [|discriminate].
    inversion H; subst. destruct (IH _ _ _ E) as [-> <-]. split; reflexivity.
Qed.

Lemma bytes_app a t : bytes (a ++ t) -> bytes a /\ bytes t.
Proof. unfold bytes. rewrite Forall_app. auto. Qed.
Lemma bytes_cons b r : bytes (b :: r) -> 0 <= b < 256 /\ bytes r.
Proof. intros H. inversion H; subst. split; assumption. Qed.

(* outcome predicates of one step *)
Definition is_cont (out : dout) (P : dstate -> Prop) : Prop :=
  match out with Cont false s' => P s' | _ => False end.
Definition is_done (out : dout) (P : dstate -> Prop) : Prop :=
  match out with Done s' => P s' | _ => False end.
(* partial decoding: a step may either go on in the safe loop or finish *)
Definition is_cont_or_done (out : dout) (P : bool -> dstate -> Prop) : Prop :=
  match out with Cont false s' => P false s' | Done s' => P true s' | _ => False end.

Section Sim.
  Variables (partial : bool) (dict : ddict) (srcm : mem).
  Variables (iend oend lowPrefix rlow : Z) (dictm : mem) (dictSize : Z).
  Hypothesis HlowP : lowPrefix <= 0.
  Hypothesis Hds : 0 <= dictSize.

  (* the destination image with the external dictionary glued below lowPrefix *)
  Definition vget (m : mem) (a : Z) : Z :=
    if a <? lowPrefix then get dictm (dictSize - (lowPrefix - a)) else get m a.

  Lemma vget_hi m a : lowPrefix <= a -> vget m a = get m a.
  Proof. intros H. unfold vget. destruct (a <? lowPrefix) eqn:E; [lia | reflexivity]. Qed.

  Lemma vget_same_below m m' d a : same_below m m' d -> a < d -> vget m' a = vget m a.
  Proof. intros S Ha. unfold vget. destruct (a <? lowPrefix); [reflexivity | apply S; exact Ha]. Qed.

  Lemma out_at_v_same_below m m' o rout :
    out_at (vget m) o rout -> same_below m m' o -> out_at (vget m') o rout.
  Proof. intros H S. eapply out_at_ext; [exact H|]. intros a Ha. eapply vget_same_below; eauto. Qed.

  Lemma lzrec_v m off lo hi :
    lzrec m off lo hi -> lowPrefix <= lo - off -> 0 <= off -> frec (vget m) off lo hi.
  Proof. intros R H Ho a Ha. rewrite !vget_hi by lia. apply R. exact Ha. Qed.

  Ltac unf :=
    unfold wr, rd_src, rd_dst, rd_dict, checkOffset, shortiend, shortoend,
      MINMATCH, LASTLITERALS, MFLIMIT, MATCH_SAFEGUARD_DISTANCE,
      FASTLOOP_SAFE_DISTANCE, WILDCOPYLENGTH, ML_MASK, RUN_MASK in *;
    cbn [ip op dm ok] in *.
  Ltac fin := unfold byte in *; unf; lia.
  (* decide the [if] at the head of the step under analysis *)
  Ltac dec_true c := let E := fresh "E" in assert (E : c = true) by fin; rewrite E; clear E; cbv beta iota.
  Ltac dec_false c := let E := fresh "E" in assert (E : c = false) by fin; rewrite E; clear E; cbv beta iota.
  Ltac hd :=
    lazymatch goal with
    | |- is_cont (if ?c then _ else _) _ => first [dec_true c | dec_false c]
    | |- is_done (if ?c then _ else _) _ => first [dec_true c | dec_false c]
    | |- is_cont_or_done (if ?c then _ else _) _ => first [dec_true c | dec_false c]
    end.

  Lemma read_ext_shorter : forall (bs : list Z) acc v (r : list Z), read_ext bs acc = Some (v, r) -> (length r < length bs)%nat.
  Proof.
    induction bs as [|c r1 IH1]; intros acc v r H; cbn [read_ext] in H; [discriminate|]. unfold byte in *.
    destruct (c =? 255); [apply IH1 in H; cbn [length]; lia | inversion H; subst; cbn [length]; lia].
  Qed.

  (* ---------- read_variable_length against the specification's read_ext ---------- *)
  Lemma rvl_loop_sim : forall bs acc v r, read_ext bs acc = Some (v, r) ->
    forall fuel p len kf ilimit,
    src_at srcm p bs ->
    p + (Z.of_nat (length bs) - Z.of_nat (length r)) <= ilimit ->
    Z.of_nat (length bs) - Z.of_nat (length r) <= Z.of_nat fuel ->
    (length r < length bs)%nat /\
    src_at srcm (p + (Z.of_nat (length bs) - Z.of_nat (length r))) r /\
    exists kf', rvl_loop srcm iend fuel p len kf ilimit =
                (Some (len + (v - acc)), p + (Z.of_nat (length bs) - Z.of_nat (length r)), kf').
  Proof.
    induction bs as [|b r0 IH]; intros acc v r H fuel p len kf ilimit Hs Hil Hf; cbn [read_ext] in H; [discriminate|].
    destruct (src_at_cons _ _ _ _ Hs) as [Hb Hs'].
    destruct (b =? 255) eqn:E255.
    - destruct (IH _ _ _ H (Nat.pred fuel) (p + 1) (len + b) (kf && rd_src iend p 1) ilimit Hs') as (Hl & Hsr & kf' & Hr).
      + cbn [length] in Hil. lia.
      + cbn [length] in Hf.
        assert (length r < length r0)%nat.
        { clear - H. revert acc H. induction r0 as [|c r1 IH1]; intros acc H; cbn [read_ext] in H; [discriminate|].
          destruct (c =? 255); [apply IH1 in H; cbn [length]; lia | inversion H; subst; cbn [length]; lia]. }
        lia.
      + cbn [length] in *. split; [lia|]. split.
        * replace (p + (Z.of_nat (S (length r0)) - Z.of_nat (length r))) with (p + 1 + (Z.of_nat (length r0) - Z.of_nat (length r))) by lia.
          exact Hsr.
        * exists kf'. destruct fuel as [|f]; [lia|]. cbn [rvl_loop]. cbv zeta. rewrite Hb.
          assert (Eil : (p + 1 >? ilimit) = false) by lia. rewrite Eil. rewrite E255.
          cbn [Nat.pred] in Hr. rewrite Hr. f_equal. f_equal; [f_equal; lia | lia].
    - injection H as Hv Hr0. subst v r. cbn [length] in *. split; [lia|]. split.
      + replace (p + (Z.of_nat (S (length r0)) - Z.of_nat (length r0))) with (p + 1) by lia. exact Hs'.
      + destruct fuel as [|f]; [lia|]. cbn [rvl_loop]. cbv zeta. rewrite Hb.
        assert (Eil : (p + 1 >? ilimit) = false) by lia. rewrite Eil. rewrite E255.
        eexists. f_equal. f_equal; [f_equal; lia | lia].
  Qed.

  Lemma rvl_sim bs v r p ilimit ic kf :
    read_ext bs 15 = Some (v, r) -> src_at srcm p bs ->
    0 <= p -> p + Z.of_nat (length bs) <= iend ->
    p + (Z.of_nat (length bs) - Z.of_nat (length r)) <= ilimit ->
    (length r < length bs)%nat /\
    src_at srcm (p + (Z.of_nat (length bs) - Z.of_nat (length r))) r /\
    exists kf', rvl srcm iend p ilimit ic kf =
                (Some (v - 15), p + (Z.of_nat (length bs) - Z.of_nat (length r)), kf').
  Proof.
    intros H Hs Hp Hie Hil.
    destruct (rvl_loop_sim bs 15 v r H (Z.to_nat iend + 1) p 0 kf ilimit Hs Hil) as (Hl & Hsr & kf' & Hr); [lia|].
    split; [exact Hl|]. split; [exact Hsr|].
    exists kf'. unfold rvl.
    assert (E : ic && (p >=? ilimit) = false) by lia. rewrite E. rewrite Hr. f_equal.
  Qed.

  (* ---------- safe_match_copy, match inside prefix + current output ---------- *)
  (* the match does not come near the end of the output buffer: both decoding modes take the same path *)
  Definition match_post (s : dstate) (offset length : Z) (s' : dstate) : Prop :=
    ip s' = ip s /\ op s' = op s + length /\
    same_below (dm s) (dm s') (op s) /\ lzrec (dm s') offset (op s) (op s + length).

  Lemma safe_match_sim s offset length :
    1 <= offset -> lowPrefix <= op s - offset -> 4 <= length ->
    (if partial then op s + length <= oend - 12 else op s + length <= oend - 5) ->
    is_cont (safe_match partial dict oend lowPrefix rlow dictm dictSize s offset length)
            (match_post s offset length).
  Proof.
    intros Ho Hmat Hlen Hroom.
    unfold safe_match. cbv zeta.
    hd. hd.
    assert (Epart : partial && (op s + length >? oend - MATCH_SAFEGUARD_DISTANCE) = false).
    { destruct partial; [fin | reflexivity]. }
    rewrite Epart. cbv beta iota.
    pose proof (first8_lz (dm s) (op s) offset Ho) as F.
    destruct (first8 (dm s) (op s) (op s - offset) offset) as [m1 mat2].
    destruct F as (S1 & R1 & k & Hk & HD & HDr).
    set (D := op s + 8 - mat2) in *.
    assert (Emat2 : mat2 = op s + 8 - D) by (unfold D; lia).
    destruct (op s + length >? oend - MATCH_SAFEGUARD_DISTANCE) eqn:Enear; cbv beta iota.
    - (* near the end of the buffer (only reachable with partial = false) *)
      assert (Ep : partial = false) by (destruct partial; [fin | reflexivity]).
      hd.
      destruct (op s + 8 <? oend - (WILDCOPYLENGTH - 1)) eqn:Ew; cbv beta iota.
      + (* wildCopy8 up to oCopyLimit, then byte loop *)
        set (lim := oend - (WILDCOPYLENGTH - 1)) in *.
        destruct (wild8_lz m1 (op s + 8) D lim) as [S2 R2]; [lia|].
        rewrite <- Emat2 in S2, R2.
        set (m2 := wild8 m1 (op s + 8) mat2 lim) in *.
        destruct (copy_fwd_lz (Z.to_nat (op s + length - lim)) m2 lim D) as [S3 R3]; [lia|].
        replace (lim - D) with (mat2 + (lim - (op s + 8))) in S3, R3 by lia.
        set (m3 := copy_fwd m2 lim (mat2 + (lim - (op s + 8))) (Z.to_nat (op s + length - lim))) in *.
        cbn [is_cont]. unfold match_post. cbn [ip op dm].
        split; [reflexivity|]. split; [reflexivity|]. split.
        * eapply same_below_trans with (d2 := op s + 8); [exact S1|  | lia].
          eapply same_below_trans; [exact S2 | exact S3 | lia].
        * assert (R23 : lzrec m3 D (op s + 8) (lim + Z.of_nat (Z.to_nat (op s + length - lim)))).
          { eapply lz_compose; [exact R2 | exact S3 | exact R3 | lia]. }
          assert (S13 : same_below m1 m3 (op s + 8)).
          { eapply same_below_trans; [exact S2 | exact S3 | lia]. }
          pose proof (after_first8 m1 m3 (op s) offset D k _ Ho Hk HD HDr R1 S13 R23) as R.
          eapply lzrec_weaken; [exact R | lia | lia].
      + (* byte loop only *)
        destruct (copy_fwd_lz (Z.to_nat (op s + length - (op s + 8))) m1 (op s + 8) D) as [S3 R3]; [lia|].
        rewrite <- Emat2 in S3, R3.
        set (m3 := copy_fwd m1 (op s + 8) mat2 (Z.to_nat (op s + length - (op s + 8)))) in *.
        cbn [is_cont]. unfold match_post. cbn [ip op dm].
        split; [reflexivity|]. split; [reflexivity|]. split.
        * eapply same_below_trans; [exact S1 | exact S3 | lia].
        * pose proof (after_first8 m1 m3 (op s) offset D k _ Ho Hk HD HDr R1 S3 R3) as R.
          eapply lzrec_weaken; [exact R | lia | lia].
    - (* far from the end: 8 more bytes, then wildCopy8 if the match is longer than 16 *)
      destruct (memcpy_lz m1 (op s + 8) D 8) as [S2 R2]; [lia|].
      rewrite <- Emat2 in S2, R2.
      set (m2 := memcpy_k m1 (op s + 8) mat2 8) in *.
      destruct (length >? 16) eqn:E16; cbv beta iota.
      + destruct (wild8_lz m2 (op s + 8 + 8) D (op s + length)) as [S3 R3]; [lia|].
        replace (op s + 8 + 8 - D) with (mat2 + 8) in S3, R3 by lia.
        set (m3 := wild8 m2 (op s + 8 + 8) (mat2 + 8) (op s + length)) in *.
        cbn [is_cont]. unfold match_post. cbn [ip op dm].
        split; [reflexivity|]. split; [reflexivity|]. split.
        * eapply same_below_trans with (d2 := op s + 8); [exact S1|  | lia].
          eapply same_below_trans; [exact S2 | exact S3 | lia].
        * assert (R23 : lzrec m3 D (op s + 8) (op s + length)).
          { eapply lz_compose; [exact R2 | exact S3 | exact R3 | lia]. }
          assert (S13 : same_below m1 m3 (op s + 8)).
          { eapply same_below_trans; [exact S2 | exact S3 | lia]. }
          pose proof (after_first8 m1 m3 (op s) offset D k _ Ho Hk HD HDr R1 S13 R23) as R.
          eapply lzrec_weaken; [exact R | lia | lia].
      + cbn [is_cont]. unfold match_post. cbn [ip op dm].
        split; [reflexivity|]. split; [reflexivity|]. split.
        * eapply same_below_trans; [exact S1 | exact S2 | lia].
        * pose proof (after_first8 m1 m2 (op s) offset D k _ Ho Hk HD HDr R1 S2 R2) as R.
          eapply lzrec_weaken; [exact R | lia | lia].
  Qed.

  Lemma is_cont_mono out (P Q : dstate -> Prop) :
    is_cont out P -> (forall s', P s' -> Q s') -> is_cont out Q.
  Proof. destruct out as [[|] s'|s'|s']; cbn [is_cont]; auto. Qed.

  (* the same in terms of the memory view: what the specification's copy_match needs *)
  Definition vmatch_post (s : dstate) (offset length : Z) (s' : dstate) : Prop :=
    ip s' = ip s /\ op s' = op s + length /\
    same_below (dm s) (dm s') (op s) /\ frec (vget (dm s')) offset (op s) (op s + length).

  (* how far below lowPrefix the history extends: the external dictionary, if there is one *)
  Definition hroom : Z := if is_extdict dict then dictSize else 0.
  Lemma hroom_range : 0 <= hroom <= dictSize.
  Proof. unfold hroom. destruct (is_extdict dict); lia. Qed.
  Lemma hroom_ext : 0 < hroom -> is_extdict dict = true /\ hroom = dictSize.
  Proof. unfold hroom. destruct (is_extdict dict); [split; reflexivity | lia]. Qed.
  Lemma hroom_p64 : is_prefix64k dict = true -> hroom = 0.
  Proof. unfold hroom. destruct dict; cbn; intros; try discriminate; reflexivity. Qed.

  Definition is_cont_f (f : bool) (out : dout) (P : dstate -> Prop) : Prop :=
    match out with Cont f' s' => f' = f /\ P s' | _ => False end.
  Lemma is_cont_f_false out P : is_cont_f false out P -> is_cont out P.
  Proof. destruct out as [[|] s'|s'|s']; cbn [is_cont_f is_cont]; intros H; try contradiction; destruct H; [discriminate | assumption]. Qed.

  (* match starting in the external dictionary, not cut by the end of the buffer *)
  Lemma ext_match_sim infast s offset length :
    1 <= offset -> op s - offset < lowPrefix -> lowPrefix - dictSize <= op s - offset ->
    4 <= length -> 0 <= op s -> op s + length <= oend - 5 ->
    is_cont_f infast (ext_match partial oend lowPrefix rlow dictm dictSize infast s (op s - offset) length)
              (vmatch_post s offset length).
  Proof.
    intros Ho Hlt Hge Hlen Hop Hroom.
    unfold ext_match. cbv zeta.
    assert (Eover : (op s + length >? oend - LASTLITERALS) = false) by fin. rewrite Eover. cbn [andb]. cbv beta iota.
    set (mat := op s - offset) in *.
    assert (Hdict : forall m' x, x < lowPrefix -> vget m' x = get dictm (dictSize - (lowPrefix - x))).
    { intros m' x Hx. unfold vget. destruct (x <? lowPrefix) eqn:E; [reflexivity | lia]. }
    destruct (length <=? lowPrefix - mat) eqn:Ein; cbv beta iota.
    - (* entirely inside the dictionary *)
      cbn [is_cont_f]. split; [reflexivity|]. unfold vmatch_post. cbn [ip op dm].
      split; [reflexivity|]. split; [reflexivity|]. split; [apply blit_same_below|].
      intros x Hx. rewrite vget_hi by lia. rewrite Hdict by (unfold mat in *; lia).
      rewrite get_blit. assert (E : (op s <=? x) && (x <? op s + Z.of_nat (Z.to_nat length)) = true) by lia. rewrite E.
      f_equal. unfold mat. lia.
    - (* dictionary tail, then the start of the prefix/output *)
      set (cs := lowPrefix - mat) in *.
      set (m1 := blit dictm (dictSize - cs) (dm s) (op s) (Z.to_nat cs)).
      assert (S1 : same_below (dm s) m1 (op s)) by apply blit_same_below.
      assert (Hoff : op s + cs - lowPrefix = offset) by (unfold cs, mat; lia).
      assert (Hm2 : exists m2, (if length - cs >? op s + cs - lowPrefix
                                then copy_fwd m1 (op s + cs) lowPrefix (Z.to_nat (length - cs))
                                else blit m1 lowPrefix m1 (op s + cs) (Z.to_nat (length - cs))) = m2 /\
                               same_below m1 m2 (op s + cs) /\ lzrec m2 offset (op s + cs) (op s + length)).
      { destruct (length - cs >? op s + cs - lowPrefix) eqn:Eov.
        - destruct (copy_fwd_lz (Z.to_nat (length - cs)) m1 (op s + cs) offset Ho) as [S R].
          replace (op s + cs - offset) with lowPrefix in S, R by lia.
          eexists. split; [reflexivity|]. split; [exact S|].
          eapply lzrec_weaken; [exact R | lia | lia].
        - destruct (memcpy_lz m1 (op s + cs) offset (Z.to_nat (length - cs))) as [S R]; [lia|].
          replace (op s + cs - offset) with lowPrefix in S, R by lia. unfold memcpy_k in S, R.
          eexists. split; [reflexivity|]. split; [exact S|].
          eapply lzrec_weaken; [exact R | lia | lia]. }
      destruct Hm2 as (m2 & Em2 & S2 & R2). rewrite Em2.
      cbn [is_cont_f]. split; [reflexivity|]. unfold vmatch_post. cbn [ip op dm].
      split; [reflexivity|]. split; [lia|]. split.
      + eapply same_below_trans; [exact S1 | exact S2 | unfold cs, mat; lia].
      + intros x Hx. destruct (Z_lt_ge_dec x (op s + cs)) as [Hlo|Hhi].
        * rewrite vget_hi by lia. rewrite Hdict by (unfold cs, mat in *; lia).
          rewrite S2 by lia. unfold m1. rewrite get_blit.
          assert (E : (op s <=? x) && (x <? op s + Z.of_nat (Z.to_nat cs)) = true) by (unfold cs, mat in *; lia). rewrite E.
          f_equal. unfold cs, mat. lia.
        * rewrite !vget_hi by lia. apply R2. lia.
  Qed.

  Lemma safe_match_v s offset length :
    1 <= offset -> lowPrefix - hroom <= op s - offset -> 4 <= length -> 0 <= op s ->
    (if partial then op s + length <= oend - 12 else op s + length <= oend - 5) ->
    is_cont (safe_match partial dict oend lowPrefix rlow dictm dictSize s offset length)
            (vmatch_post s offset length).
  Proof.
    intros Ho Hmat Hlen Hop Hroom.
    destruct (Z_lt_ge_dec (op s - offset) lowPrefix) as [Hext|Hin].
    - (* the match starts in the external dictionary *)
      destruct hroom_ext as [Hed Hhr]; [lia|].
      unfold safe_match. cbv zeta.
      assert (E1 : checkOffset dictSize && (op s - offset + dictSize <? lowPrefix) = false) by lia. rewrite E1. cbv beta iota.
      assert (E2 : is_extdict dict && (op s - offset <? lowPrefix) = true) by lia. rewrite E2. cbv beta iota.
      apply is_cont_f_false. apply ext_match_sim; try assumption; try lia. destruct partial; lia.
    - eapply is_cont_mono; [apply safe_match_sim; try assumption; lia|].
      intros s' (H1 & H2 & H3 & H4). unfold vmatch_post. repeat split; try assumption.
      apply lzrec_v; [exact H4 | lia | lia].
  Qed.

  (* ---------- _copy_match: optional extra match-length bytes, then the copy ---------- *)
  Lemma read_ext_ge : forall bs acc v r, bytes bs -> read_ext bs acc = Some (v, r) -> acc <= v.
  Proof.
    induction bs as [|b r0 IH]; intros acc v r Hb H; cbn [read_ext] in H; [discriminate|].
    destruct (bytes_cons _ _ Hb) as [Hb0 Hbr].
    destruct (b =? 255).
    - apply IH in H; [lia | exact Hbr].
    - inversion H; subst. lia.
  Qed.

  Lemma copy_match_lbl_sim s offset nib r3 ml r4 :
    0 <= nib <= 15 ->
    read_len nib r3 = Some (ml, r4) -> src_at srcm (ip s) r3 -> bytes r3 ->
    0 <= ip s -> ip s + Z.of_nat (length r3) <= iend -> (4 <= length r4)%nat ->
    1 <= offset -> lowPrefix - hroom <= op s - offset -> 0 <= op s ->
    (if partial then op s + (ml + 4) <= oend - 12 else op s + (ml + 4) <= oend - 5) ->
    is_cont (copy_match_lbl partial dict srcm iend oend lowPrefix rlow dictm dictSize s offset nib)
            (fun s' => ip s' = ip s + (Z.of_nat (length r3) - Z.of_nat (length r4)) /\ src_at srcm (ip s') r4 /\
                       (length r4 <= length r3)%nat /\ 0 <= ml /\
                       op s' = op s + (ml + 4) /\ same_below (dm s) (dm s') (op s) /\
                       frec (vget (dm s')) offset (op s) (op s + (ml + 4))).
  Proof.
    intros Hnib Hrl Hs Hb Hip Hie Hr4 Ho Hmat Hop Hroom.
    unfold copy_match_lbl, read_len in *.
    destruct (nib =? 15) eqn:E15.
    - assert (E : (nib =? ML_MASK) = true) by fin. rewrite E. clear E.
      pose proof (read_ext_ge _ _ _ _ Hb Hrl) as Hge.
      destruct (rvl_sim r3 ml r4 (ip s) (iend - LASTLITERALS + 1) false (ok s) Hrl Hs Hip Hie) as (Hl & Hsr & kf' & Hr); [fin|].
      rewrite Hr. cbv beta iota.
      eapply is_cont_mono.
      + apply safe_match_v with (s := mkD (ip s + (Z.of_nat (length r3) - Z.of_nat (length r4))) (op s) (dm s) kf'); cbn [ip op dm]; try assumption; try fin; try (destruct partial; fin).
      + intros s' (H1 & H2 & H3 & H4). cbn [ip op dm] in *.
        replace (nib + (ml - 15) + MINMATCH) with (ml + 4) in * by fin.
        repeat split; try assumption; try lia. rewrite H1. exact Hsr.
    - inversion Hrl; subst ml r4.
      assert (E : (nib =? ML_MASK) = false) by fin. rewrite E. clear E.
      eapply is_cont_mono.
      + apply safe_match_v; try assumption; try fin; try (destruct partial; fin).
      + intros s' (H1 & H2 & H3 & H4).
        replace (nib + MINMATCH) with (nib + 4) in * by fin.
        repeat split; try assumption; try lia. rewrite H1. exact Hs.
  Qed.

  (* ---------- literals ---------- *)
  Lemma readLE16_src p o1 o2 r : src_at srcm p (o1 :: o2 :: r) -> readLE16 srcm p = o1 + 256 * o2.
  Proof.
    intros H. unfold readLE16.
    destruct (src_at_cons _ _ _ _ H) as [H1 H']. destruct (src_at_cons _ _ _ _ H') as [H2 _].
    rewrite H1, H2. reflexivity.
  Qed.

  (* literal bytes copied to [o, o+|lits|), possibly followed by junk *)
  Lemma blit_lits m p o lits n :
    src_at srcm p lits -> (length lits <= n)%nat ->
    forall j, (j < length lits)%nat -> get (blit srcm p m o n) (o + Z.of_nat j) = nth j lits 0.
  Proof.
    intros Hs Hn j Hj. rewrite get_blit.
    assert (E : (o <=? o + Z.of_nat j) && (o + Z.of_nat j <? o + Z.of_nat n) = true) by lia. rewrite E.
    replace (p + (o + Z.of_nat j - o)) with (p + Z.of_nat j) by lia. apply Hs. exact Hj.
  Qed.

  Lemma lits_out_v m m' o rout lits :
    out_at (vget m) o rout -> same_below m m' o -> 0 <= o ->
    (forall j, (j < length lits)%nat -> get m' (o + Z.of_nat j) = nth j lits 0) ->
    out_at (vget m') (o + Z.of_nat (length lits)) (rev lits ++ rout).
  Proof.
    intros O S Ho L. apply lits_out.
    - eapply out_at_v_same_below; eauto.
    - intros j Hj. rewrite vget_hi by lia. apply L. exact Hj.
  Qed.

  (* what one complete (non-final) sequence does *)
  Definition seq_post (s : dstate) (consumed produced : Z) (r4 : list Z) (rout1 : list Z) (s' : dstate) : Prop :=
    ip s' = ip s + consumed /\ src_at srcm (ip s') r4 /\ op s' = op s + produced /\
    out_at (vget (dm s')) (op s') rout1.

  (* from the state after the literals (image m1, literals already in place) to the end of the match *)
  Lemma after_lits_sim (i o : Z) (m1 : mem) kf nib o1 o2 r3 ml r4 rout0 rout1 :
    0 <= nib <= 15 -> bytes (o1 :: o2 :: r3) ->
    src_at srcm i (o1 :: o2 :: r3) -> 0 <= i -> i + Z.of_nat (length (o1 :: o2 :: r3)) <= iend ->
    read_len nib r3 = Some (ml, r4) -> (4 <= length r4)%nat ->
    out_at (vget m1) o rout0 -> Z.of_nat (length rout0) <= o - lowPrefix + hroom -> 0 <= o ->
    copy_match rout0 (Z.to_nat (o1 + 256 * o2)) (Z.to_nat (ml + 4)) = Some rout1 ->
    1 <= o1 + 256 * o2 ->
    (if partial then o + (ml + 4) <= oend - 12 else o + (ml + 4) <= oend - 5) ->
    is_cont (copy_match_lbl partial dict srcm iend oend lowPrefix rlow dictm dictSize
               (mkD (i + 2) o m1 kf) (o1 + 256 * o2) nib)
            (fun s' => ip s' = i + 2 + (Z.of_nat (length r3) - Z.of_nat (length r4)) /\ src_at srcm (ip s') r4 /\
                       (length r4 <= length r3)%nat /\
                       op s' = o + (ml + 4) /\ out_at (vget (dm s')) (op s') rout1).
  Proof.
    intros Hnib Hb Hs Hi Hie Hrl Hr4 O Hlen Ho Hcm Hoff Hroom.
    unfold byte in *.
    destruct (src_at_cons _ _ _ _ Hs) as [_ Hs1]. destruct (src_at_cons _ _ _ _ Hs1) as [_ Hs2].
    destruct (bytes_cons _ _ Hb) as [_ Hb1]. destruct (bytes_cons _ _ Hb1) as [_ Hb2].
    replace (i + 1 + 1) with (i + 2) in Hs2 by lia.
    cbn [length] in Hie.
    assert (Hml : 0 <= ml).
    { unfold read_len in Hrl. destruct (nib =? 15); [apply read_ext_ge in Hrl; [lia | exact Hb2] | inversion Hrl; lia]. }
    assert (Hoffle : o1 + 256 * o2 <= Z.of_nat (length rout0)).
    { replace (Z.to_nat (ml + 4)) with (S (Z.to_nat (ml + 3))) in Hcm by lia.
      apply copy_match_off in Hcm. unfold byte in *. lia. }
    eapply is_cont_mono.
    - apply (copy_match_lbl_sim (mkD (i + 2) o m1 kf) (o1 + 256 * o2) nib r3 ml r4); cbn [ip op dm]; unfold byte in *; try assumption; try lia.
    - cbn [ip op dm]. unfold byte in *. intros s' (H1 & H2 & H3 & H4 & H5 & H6 & H7).
      repeat split; try assumption.
      rewrite H5.
      replace (ml + 4) with (Z.of_nat (Z.to_nat (ml + 4))) at 1 by lia.
      apply copy_match_out with (rout := rout0) (off := Z.to_nat (o1 + 256 * o2)).
      + lia.
      + exact Hcm.
      + eapply out_at_v_same_below; eauto.
      + replace (Z.of_nat (Z.to_nat (o1 + 256 * o2))) with (o1 + 256 * o2) by lia.
        replace (Z.of_nat (Z.to_nat (ml + 4))) with (ml + 4) by lia. exact H7.
  Qed.

  Lemma wild8_in_lits m p o lits :
    src_at srcm p lits ->
    forall j, (j < length lits)%nat ->
      get (wild8_in srcm p m o (o + Z.of_nat (length lits))) (o + Z.of_nat j) = nth j lits 0.
  Proof.
    intros Hs j Hj. unfold wild8_in. apply blit_lits; [exact Hs| |exact Hj].
    pose proof (wild_iters_cover 8 o (o + Z.of_nat (length lits))). lia.
  Qed.

  Lemma wild8_in_same_below m p o e : same_below m (wild8_in srcm p m o e) o.
  Proof. unfold wild8_in. apply blit_same_below. Qed.

  (* [safe_lit] on a literal run that is followed by a match (not the end of the block) *)
  Lemma safe_lit_mid_sim s tok lits o1 o2 r3 ml r4 rout rout1 :
    0 <= tok < 256 -> bytes (lits ++ o1 :: o2 :: r3) ->
    src_at srcm (ip s) (lits ++ o1 :: o2 :: r3) -> 0 <= ip s ->
    ip s + Z.of_nat (length (lits ++ o1 :: o2 :: r3)) <= iend ->
    read_len (tok mod 16) r3 = Some (ml, r4) -> (6 <= length r4)%nat ->
    out_at (vget (dm s)) (op s) rout -> Z.of_nat (length rout) <= op s - lowPrefix + hroom -> 0 <= op s ->
    copy_match (rev lits ++ rout) (Z.to_nat (o1 + 256 * o2)) (Z.to_nat (ml + 4)) = Some rout1 ->
    1 <= o1 + 256 * o2 ->
    op s + Z.of_nat (length lits) <= oend - 12 ->
    (if partial then op s + Z.of_nat (length lits) + (ml + 4) <= oend - 12
     else op s + Z.of_nat (length lits) + (ml + 4) <= oend - 5) ->
    is_cont (safe_lit partial dict srcm iend oend lowPrefix rlow dictm dictSize s tok (Z.of_nat (length lits)))
            (fun s' => ip s' = ip s + Z.of_nat (length lits) + 2 + (Z.of_nat (length r3) - Z.of_nat (length r4)) /\
                       src_at srcm (ip s') r4 /\ (length r4 <= length r3)%nat /\
                       op s' = op s + Z.of_nat (length lits) + (ml + 4) /\ out_at (vget (dm s')) (op s') rout1).
  Proof.
    intros Htok Hb Hs Hip Hie Hrl Hr4 O Hlen Hop Hcm Hoff Hroom1 Hroom2.
    unfold byte in *.
    destruct (src_at_app _ _ _ _ Hs) as [Hsl Hs2].
    destruct (bytes_app _ _ Hb) as [_ Hb2].
    rewrite app_length in Hie. cbn [length] in Hie.
    assert (Hr43 : (length r4 <= length r3)%nat).
    { unfold read_len in Hrl. destruct (tok mod 16 =? 15).
      - apply read_ext_shorter in Hrl. unfold byte in *. lia.
      - inversion Hrl; subst. lia. }
    unfold safe_lit. cbv zeta.
    hd.
    cbn [ip op dm].
    rewrite (readLE16_src _ _ _ _ Hs2).
    eapply is_cont_mono.
    - apply (after_lits_sim (ip s + Z.of_nat (length lits)) (op s + Z.of_nat (length lits))) with (r3 := r3) (r4 := r4) (ml := ml) (rout0 := rev lits ++ rout) (rout1 := rout1); unfold byte in *; try assumption; try lia; try (destruct partial; lia).
      + pose proof (Z.mod_pos_bound tok 16). lia.
      + cbn [length]. lia.
      + apply lits_out_v with (m := dm s); try assumption.
        * apply wild8_in_same_below.
        * apply wild8_in_lits. exact Hsl.
      + rewrite app_length, rev_length. lia.
    - cbn beta. intros s' (H1 & H2 & H3 & H4 & H5). repeat split; try assumption; lia.
  Qed.

  Lemma nibbles tok : 0 <= tok < 256 -> 0 <= tok / 16 <= 15 /\ 0 <= tok mod 16 <= 15.
  Proof. intros. split; Z.div_mod_to_equations; lia. Qed.

  Lemma read_len_suffix nib bs v r p :
    0 <= nib <= 15 -> read_len nib bs = Some (v, r) -> bytes bs -> src_at srcm p bs ->
    (length r <= length bs)%nat /\ nib <= v /\ (nib < 15 -> v = nib /\ r = bs) /\
    src_at srcm (p + (Z.of_nat (length bs) - Z.of_nat (length r))) r /\ bytes r.
  Proof.
    intros Hn H Hb Hs. unfold read_len in H. destruct (nib =? 15) eqn:E.
    - pose proof (read_ext_ge _ _ _ _ Hb H).
      destruct (rvl_loop_sim bs 15 v r H (length bs) p 0 true (p + Z.of_nat (length bs)) Hs) as (Hl & Hsr & _); try lia.
      repeat split; try lia; try assumption.
      (* bytes of a suffix *)
      clear - H Hb. revert H. generalize 15. induction bs as [|b r0 IH]; intros acc H; cbn [read_ext] in H; [discriminate|].
      destruct (bytes_cons _ _ Hb) as [_ Hbr]. destruct (b =? 255); [eapply IH; eauto | inversion H; subst; exact Hbr].
    - inversion H; subst. replace (p + (Z.of_nat (length r) - Z.of_nat (length r))) with p by lia.
      repeat split; try lia; try assumption; reflexivity.
  Qed.

  (* ---------- one iteration of the safe loop on a complete sequence ---------- *)
  Lemma safe_top_seq_sim s tok r ll r1 lits o1 o2 r3 ml r4 rout rout1 :
    bytes (tok :: r) -> src_at srcm (ip s) (tok :: r) -> 0 <= ip s ->
    ip s + Z.of_nat (length (tok :: r)) <= iend ->
    read_len (tok / 16) r = Some (ll, r1) -> take (Z.to_nat ll) r1 = Some (lits, o1 :: o2 :: r3) ->
    read_len (tok mod 16) r3 = Some (ml, r4) -> (6 <= length r4)%nat ->
    out_at (vget (dm s)) (op s) rout -> Z.of_nat (length rout) <= op s - lowPrefix + hroom -> 0 <= op s ->
    apply_seq rout (mkSeq lits (o1 + 256 * o2) (ml + 4)) = Some rout1 ->
    op s + ll <= oend - 12 ->
    (if partial then op s + ll + (ml + 4) <= oend - 12 else op s + ll + (ml + 4) <= oend - 5) ->
    is_cont (safe_top partial dict srcm iend oend lowPrefix rlow dictm dictSize s)
            (fun s' => ip s' + Z.of_nat (length r4) = ip s + Z.of_nat (length (tok :: r)) /\
                       src_at srcm (ip s') r4 /\ bytes r4 /\
                       op s' = op s + ll + (ml + 4) /\ out_at (vget (dm s')) (op s') rout1).
  Proof.
    intros Hb Hs Hip Hie Hrl1 Htk Hrl2 Hr4 O Hlen Hop Happ Hroom1 Hroom2.
    unfold byte in *.
    destruct (bytes_cons _ _ Hb) as [Htok Hbr].
    destruct (src_at_cons _ _ _ _ Hs) as [Htokm Hsr].
    destruct (nibbles tok Htok) as [Hn1 Hn2].
    cbn [length] in Hie.
    destruct (read_len_suffix _ _ _ _ _ Hn1 Hrl1 Hbr Hsr) as (Hl1 & Hll & Hnoext & Hs1 & Hb1).
    unfold byte in *.
    set (p1 := ip s + 1 + (Z.of_nat (length r) - Z.of_nat (length r1))) in *.
    destruct (take_spec _ _ _ _ Htk) as [Er1 Hlits]. unfold byte in *.
    assert (Ell : ll = Z.of_nat (length lits)) by lia.
    rewrite Er1 in Hs1, Hb1.
    assert (Hlr1 : length r1 = (length lits + S (S (length r3)))%nat).
    { rewrite Er1, app_length. reflexivity. }
    destruct (bytes_app _ _ Hb1) as [_ Hb2].
    destruct (bytes_cons _ _ Hb2) as [Ho1 Hb3]. destruct (bytes_cons _ _ Hb3) as [Ho2 Hb4].
    (* the specification executed the sequence: offset in range, match copied *)
    unfold apply_seq in Happ. cbn [s_lits s_off s_mlen] in Happ.
    destruct (off_ok (o1 + 256 * o2) && (4 <=? ml + 4)) eqn:Eok; [|discriminate].
    assert (Hoff : 1 <= o1 + 256 * o2) by (unfold off_ok in Eok; lia).
    destruct (src_at_app _ _ _ _ Hs1) as [Hsl Hs2].
    destruct (src_at_cons _ _ _ _ Hs2) as [_ Hs3]. destruct (src_at_cons _ _ _ _ Hs3) as [_ Hs4].
    destruct (read_len_suffix _ _ _ _ _ Hn2 Hrl2 Hb4 Hs4) as (Hl2 & Hml & Hnoext2 & Hs5 & Hb5).
    assert (Hcm : copy_match (rev lits ++ rout) (Z.to_nat (o1 + 256 * o2)) (Z.to_nat (ml + 4)) = Some rout1) by exact Happ.
    assert (Hoffle : o1 + 256 * o2 <= Z.of_nat (length lits) + Z.of_nat (length rout)).
    { replace (Z.to_nat (ml + 4)) with (S (Z.to_nat (ml + 3))) in Hcm by lia.
      apply copy_match_off in Hcm. rewrite app_length, rev_length in Hcm. unfold byte in *. lia. }
    unfold safe_top. cbv zeta. rewrite Htokm.
    destruct (negb (tok / 16 =? RUN_MASK) && ((ip s + 1 <? shortiend iend) && (op s <=? shortoend oend))) eqn:Esc; cbv beta iota.
    - (* two-stage shortcut: 16 literal bytes copied blindly *)
      assert (Hlt15 : tok / 16 < 15) by fin.
      destruct (Hnoext Hlt15) as [Ell' Er].
      assert (Ep1 : p1 = ip s + 1) by (unfold p1; rewrite Er; lia).
      rewrite Er in Hlr1.
      clearbody p1. subst p1.
      replace (tok / 16) with (Z.of_nat (length lits)) by lia.
      rewrite (readLE16_src _ _ _ _ Hs2).
      set (m1 := blit srcm (ip s + 1) (dm s) (op s) 16).
      assert (O1 : out_at (vget m1) (op s + Z.of_nat (length lits)) (rev lits ++ rout)).
      { apply lits_out_v with (m := dm s); try assumption.
        - apply blit_same_below.
        - apply blit_lits; [exact Hsl | lia]. }
      destruct (negb (tok mod 16 =? ML_MASK) && (o1 + 256 * o2 >=? 8) &&
                (is_prefix64k dict || (op s + Z.of_nat (length lits) - (o1 + 256 * o2) >=? lowPrefix))) eqn:E18; cbv beta iota.
      + (* 18-byte match copy *)
        assert (Hlt15' : tok mod 16 < 15) by fin.
        destruct (Hnoext2 Hlt15') as [-> ->].
        assert (Hmatge : lowPrefix <= op s + Z.of_nat (length lits) - (o1 + 256 * o2)).
        { destruct (is_prefix64k dict) eqn:E64; [pose proof (hroom_p64 E64); lia | fin]. }
        cbn [is_cont ip op dm].
        destruct (copy18_lz m1 (op s + Z.of_nat (length lits)) (o1 + 256 * o2)) as [S R]; [lia|].
        set (m2 := copy18 m1 (op s + Z.of_nat (length lits)) (op s + Z.of_nat (length lits) - (o1 + 256 * o2))) in *.
        split; [cbn [length]; lia|]. split.
        { replace (ip s + 1 + Z.of_nat (length lits) + 2) with (ip s + 1 + Z.of_nat (length lits) + 1 + 1 + (Z.of_nat (length r3) - Z.of_nat (length r3))) by lia. exact Hs5. }
        split; [exact Hb5|]. split; [fin|].
        replace (op s + Z.of_nat (length lits) + tok mod 16 + MINMATCH) with (op s + Z.of_nat (length lits) + Z.of_nat (Z.to_nat (tok mod 16 + 4))) by fin.
        apply copy_match_out with (rout := rev lits ++ rout) (off := Z.to_nat (o1 + 256 * o2)).
        * lia.
        * exact Hcm.
        * eapply out_at_v_same_below; eauto.
        * replace (Z.of_nat (Z.to_nat (o1 + 256 * o2))) with (o1 + 256 * o2) by lia.
          apply lzrec_v; [|lia|lia].
          eapply lzrec_weaken; [exact R | lia | lia].
      + (* general match path *)
        eapply is_cont_mono.
        * apply (after_lits_sim (ip s + 1 + Z.of_nat (length lits)) (op s + Z.of_nat (length lits)) m1) with (r3 := r3) (r4 := r4) (ml := ml) (rout0 := rev lits ++ rout) (rout1 := rout1); unfold byte in *; try assumption; try lia; try (destruct partial; lia).
          -- cbn [length]. lia.
          -- rewrite app_length, rev_length. lia.
        * cbn beta. intros s' (H1 & H2 & H3 & H4 & H5). cbn [length]. unfold byte in *. repeat split; try assumption; lia.
    - destruct (tok / 16 =? RUN_MASK) eqn:E15; cbv beta iota.
      + (* long literal run: extra length bytes *)
        unfold read_len in Hrl1. assert (E15' : (tok / 16 =? 15) = true) by fin. rewrite E15' in Hrl1.
        destruct (rvl_sim r ll r1 (ip s + 1) (iend - RUN_MASK) true (ok s && rd_src iend (ip s) 1) Hrl1 Hsr) as (_ & _ & kf' & Hr); [fin | fin | fin |].
        rewrite Hr. cbv beta iota. unfold byte. fold p1.
        replace (tok / 16 + (ll - 15)) with (Z.of_nat (length lits)) by fin.
        eapply is_cont_mono.
        * apply (safe_lit_mid_sim (mkD p1 (op s) (dm s) kf') tok lits o1 o2 r3 ml r4 rout rout1); cbn [ip op dm]; unfold byte in *; try assumption; try lia; try (destruct partial; lia).
          -- rewrite app_length. cbn [length]. lia.
        * cbn [ip op dm]. intros s' (H1 & H2 & H3 & H4 & H5). cbn [length]. unfold byte in *. repeat split; try assumption; lia.
      + assert (Hlt15 : tok / 16 < 15) by fin.
        destruct (Hnoext Hlt15) as [Ell' Er].
        assert (Ep1 : p1 = ip s + 1) by (unfold p1; rewrite Er; lia).
        rewrite Er in Hlr1.
        clearbody p1. subst p1.
        replace (tok / 16) with (Z.of_nat (length lits)) by lia.
        eapply is_cont_mono.
        * apply (safe_lit_mid_sim (mkD (ip s + 1) (op s) (dm s) (ok s && rd_src iend (ip s) 1)) tok lits o1 o2 r3 ml r4 rout rout1); cbn [ip op dm]; unfold byte in *; try assumption; try lia; try (destruct partial; lia).
          -- rewrite app_length. cbn [length]. lia.
        * cbn [ip op dm]. intros s' (H1 & H2 & H3 & H4 & H5). cbn [length]. unfold byte in *. repeat split; try assumption; lia.
  Qed.

  (* ---------- the final literal run (full-block decoding) ---------- *)
  Lemma safe_top_last_sim s tok r ll r1 lits rout :
    partial = false ->
    bytes (tok :: r) -> src_at srcm (ip s) (tok :: r) -> 0 <= ip s ->
    ip s + Z.of_nat (length (tok :: r)) = iend ->
    read_len (tok / 16) r = Some (ll, r1) -> take (Z.to_nat ll) r1 = Some (lits, []) ->
    out_at (vget (dm s)) (op s) rout -> 0 <= op s -> op s + ll <= oend ->
    is_done (safe_top partial dict srcm iend oend lowPrefix rlow dictm dictSize s)
            (fun s' => op s' = op s + ll /\ out_at (vget (dm s')) (op s') (rev lits ++ rout)).
  Proof.
    intros Hp Hb Hs Hip Hie Hrl1 Htk O Hop Hroom.
    unfold byte in *.
    destruct (bytes_cons _ _ Hb) as [Htok Hbr].
    destruct (src_at_cons _ _ _ _ Hs) as [Htokm Hsr].
    destruct (nibbles tok Htok) as [Hn1 Hn2].
    cbn [length] in Hie.
    destruct (read_len_suffix _ _ _ _ _ Hn1 Hrl1 Hbr Hsr) as (Hl1 & Hll & Hnoext & Hs1 & Hb1).
    unfold byte in *.
    set (p1 := ip s + 1 + (Z.of_nat (length r) - Z.of_nat (length r1))) in *.
    destruct (take_spec _ _ _ _ Htk) as [Er1 Hlits]. unfold byte in *.
    rewrite app_nil_r in Er1.
    assert (Ell : ll = Z.of_nat (length lits)) by lia.
    assert (Hlr1 : length r1 = length lits) by (rewrite Er1; reflexivity).
    rewrite Er1 in Hs1.
    unfold safe_top. cbv zeta. rewrite Htokm.
    assert (Esc : negb (tok / 16 =? RUN_MASK) && ((ip s + 1 <? shortiend iend) && (op s <=? shortoend oend)) = false).
    { destruct (tok / 16 =? RUN_MASK) eqn:E15; [reflexivity|].
      assert (Hlt15 : tok / 16 < 15) by fin.
      destruct (Hnoext Hlt15) as [Ell' Er]. rewrite Er in Hlr1. fin. }
    rewrite Esc. cbv beta iota.
    assert (Hlit : forall kf,
      is_done (safe_lit partial dict srcm iend oend lowPrefix rlow dictm dictSize (mkD p1 (op s) (dm s) kf) tok (Z.of_nat (length lits)))
              (fun s' => op s' = op s + ll /\ out_at (vget (dm s')) (op s') (rev lits ++ rout))).
    { intros kf. unfold safe_lit. cbv zeta. cbn [ip op dm]. rewrite Hp. cbn [negb andb orb].
      assert (Ep1 : p1 + Z.of_nat (length lits) = iend) by (unfold p1; lia).
      hd. hd.
      cbn [is_done op dm]. split; [lia|].
      rewrite Nat2Z.id.
      apply lits_out_v with (m := dm s); try assumption.
      - apply blit_same_below.
      - apply blit_lits; [exact Hs1 | lia]. }
    destruct (tok / 16 =? RUN_MASK) eqn:E15; cbv beta iota.
    - unfold read_len in Hrl1. assert (E15' : (tok / 16 =? 15) = true) by fin. rewrite E15' in Hrl1.
      destruct (rvl_sim r ll r1 (ip s + 1) (iend - RUN_MASK) true (ok s && rd_src iend (ip s) 1) Hrl1 Hsr) as (_ & _ & kf' & Hr); [fin | fin | fin |].
      rewrite Hr. cbv beta iota. unfold byte. fold p1.
      replace (tok / 16 + (ll - 15)) with (Z.of_nat (length lits)) by fin.
      apply Hlit.
    - assert (Hlt15 : tok / 16 < 15) by fin.
      destruct (Hnoext Hlt15) as [Ell' Er].
      assert (Ep1 : p1 = ip s + 1) by (unfold p1; rewrite Er; lia).
      rewrite <- Ep1. replace (tok / 16) with (Z.of_nat (length lits)) by lia.
      apply Hlit.
  Qed.

  (* ---------- facts about the specification's parser and the end-of-block conditions ---------- *)
  Lemma read_len_shorter nib (bs : list Z) v (r : list Z) : read_len nib bs = Some (v, r) -> (length r <= length bs)%nat.
  Proof.
    unfold read_len. destruct (nib =? 15); intros H.
    - apply read_ext_shorter in H. lia.
    - inversion H; subst. lia.
  Qed.

  Lemma parse_seqs_S f (bs : list Z) :
    parse_seqs (S f) bs =
    match bs with
    | [] => None
    | tok :: r =>
      match read_len (tok / 16) r with
      | None => None
      | Some (ll, r1) =>
        match take (Z.to_nat ll) r1 with
        | None => None
        | Some (lits, r2) =>
          match r2 with
          | [] => Some ([], lits)
          | [_] => None
          | o1 :: o2 :: r3 =>
            match read_len (tok mod 16) r3 with
            | None => None
            | Some (ml, r4) =>
              match parse_seqs f r4 with
              | None => None
              | Some (ss, last) => Some (mkSeq lits (o1 + 256 * o2) (ml + 4) :: ss, last)
              end
            end
          end
        end
      end
    end.
  Proof. reflexivity. Qed.

  Lemma parse_seqs_len : forall f (bs : list Z) ss (last : list Z),
    parse_seqs f bs = Some (ss, last) -> (1 + length last <= length bs)%nat.
  Proof.
    induction f as [|f IH]; intros bs ss last H; [discriminate|]. rewrite parse_seqs_S in H.
    destruct bs as [|tok r]; [discriminate|].
    destruct (read_len (tok / 16) r) as [[ll r1]|] eqn:E1; [|discriminate].
    destruct (take (Z.to_nat ll) r1) as [[lits r2]|] eqn:E2; [|discriminate].
    apply read_len_shorter in E1. destruct (take_spec _ _ _ _ E2) as [Er1 _]. unfold byte in *.
    assert (length r1 = (length lits + length r2)%nat) by (rewrite Er1, app_length; reflexivity).
    destruct r2 as [|o1 [|o2 r3]]; [inversion H; subst; cbn [length] in *; lia | discriminate |].
    destruct (read_len (tok mod 16) r3) as [[ml r4]|] eqn:E3; [|discriminate].
    destruct (parse_seqs f r4) as [[ss' last']|] eqn:E4; [|discriminate].
    inversion H; subst. apply IH in E4. apply read_len_shorter in E3. cbn [length] in *. unfold byte in *. lia.
  Qed.

  Lemma total_len_last ss (last : list Z) : total_len ss last = total_len ss [] + Z.of_nat (length last).
  Proof.
    induction ss as [|x ss IH].
    - cbn [total_len fold_right length]. unfold byte. lia.
    - unfold total_len in *. cbn [fold_right]. rewrite IH. unfold byte. lia.
  Qed.

  Lemma total_len_ge ss last : Forall (fun x => 0 <= s_mlen x) ss -> Z.of_nat (length last) <= total_len ss last.
  Proof.
    induction 1 as [|x l Hx Hl IH]; cbn [total_len fold_right].
    - lia.
    - unfold total_len in IH. lia.
  Qed.

  Lemma end_ok_tail s s2 ss last : end_ok (s :: s2 :: ss) last = end_ok (s2 :: ss) last.
  Proof.
    unfold end_ok. cbn [rev].
    destruct (rev ss ++ [s2]) as [|x l] eqn:E.
    - destruct (rev ss); discriminate.
    - reflexivity.
  Qed.

  Lemma end_room : forall ss s last,
    end_ok (s :: ss) last = true -> Forall (fun x => 0 <= s_mlen x) (s :: ss) ->
    5 <= Z.of_nat (length last) /\ 12 <= s_mlen s + total_len ss last /\ end_ok ss last = true.
  Proof.
    induction ss as [|s2 ss IH]; intros s last H F.
    - unfold end_ok in H. cbn [rev app] in H. cbn [total_len fold_right]. split; [lia|]. split; [lia | reflexivity].
    - rewrite end_ok_tail in H. inversion F as [|? ? F1 F2]; subst.
      destruct (IH s2 last H F2) as (H5 & H12 & _).
      split; [exact H5|]. split; [|exact H].
      cbn [total_len fold_right]. unfold total_len in H12. lia.
  Qed.

  Lemma apply_seqs_mlen : forall ss rout rout', apply_seqs rout ss = Some rout' -> Forall (fun x => 0 <= s_mlen x) ss.
  Proof.
    induction ss as [|x ss IH]; intros rout rout' H; [constructor|].
    cbn [apply_seqs] in H. destruct (apply_seq rout x) as [r1|] eqn:E; [|discriminate].
    constructor; [|eapply IH; eauto].
    unfold apply_seq in E. destruct (off_ok (s_off x) && (4 <=? s_mlen x)) eqn:E2; [lia | discriminate].
  Qed.

  (* ---------- the safe loop on a strictly valid block (full decoding) ---------- *)
  Lemma run_sim : forall f (bs : list Z) ss (last : list Z), parse_seqs f bs = Some (ss, last) ->
    forall rout rout' s fuel,
    partial = false ->
    apply_seqs rout ss = Some rout' -> end_ok ss last = true ->
    bytes bs -> src_at srcm (ip s) bs -> 0 <= ip s -> ip s + Z.of_nat (length bs) = iend ->
    out_at (vget (dm s)) (op s) rout -> Z.of_nat (length rout) <= op s - lowPrefix + hroom -> 0 <= op s ->
    op s + total_len ss last <= oend -> (length bs < fuel)%nat ->
    exists s', run partial dict srcm iend oend lowPrefix rlow dictm dictSize fuel false s
               = (op s + total_len ss last, s')
               /\ out_at (vget (dm s')) (op s + total_len ss last) (rev last ++ rout').
  Proof.
    induction f as [|f IH]; intros bs ss last H rout rout' s fuel Hp Happ Hend Hb Hs Hip Hie O Hlen Hop Hroom Hfuel;
      [discriminate|]. rewrite parse_seqs_S in H.
    destruct bs as [|tok r]; [discriminate|].
    destruct (read_len (tok / 16) r) as [[ll r1]|] eqn:E1; [|discriminate].
    destruct (take (Z.to_nat ll) r1) as [[lits r2]|] eqn:E2; [|discriminate].
    destruct fuel as [|fuel]; [lia|].
    cbn [run].
    destruct r2 as [|o1 [|o2 r3]]; [| discriminate |].
    - (* last sequence: literals only *)
      injection H as Hss Hlast. subst ss last. cbn [apply_seqs] in Happ. injection Happ as Hr'. subst rout'.
      cbn [total_len fold_right] in *.
      assert (Ell : ll = Z.of_nat (length lits)).
      { destruct (take_spec _ _ _ _ E2) as [_ Hl]. destruct (bytes_cons _ _ Hb) as [Htok Hbr].
        destruct (nibbles tok Htok) as [Hn1 _].
        destruct (src_at_cons _ _ _ _ Hs) as [_ Hsr].
        destruct (read_len_suffix _ _ _ _ _ Hn1 E1 Hbr Hsr) as (_ & Hll & _). unfold byte in *. lia. }
      pose proof (safe_top_last_sim s tok r ll r1 lits rout Hp Hb Hs Hip Hie E1 E2 O Hop) as HL.
      destruct (safe_top partial dict srcm iend oend lowPrefix rlow dictm dictSize s) as [[|] s'|s'|s'];
        cbn [is_done] in HL; try (exfalso; apply HL; lia).
      destruct HL as [H1 H2]; [lia|].
      exists s'. rewrite H1, Ell. split; [reflexivity|]. rewrite <- Ell, <- H1. exact H2.
    - (* a complete sequence, then the rest of the block *)
      destruct (read_len (tok mod 16) r3) as [[ml r4]|] eqn:E3; [|discriminate].
      destruct (parse_seqs f r4) as [[ss' last']|] eqn:E4; [|discriminate].
      assert (Hss : mkSeq lits (o1 + 256 * o2) (ml + 4) :: ss' = ss) by congruence.
      assert (Hlast : last' = last) by congruence. clear H. subst ss last.
      cbn [apply_seqs] in Happ.
      destruct (apply_seq rout (mkSeq lits (o1 + 256 * o2) (ml + 4))) as [rout1|] eqn:Eapp; [|discriminate].
      pose proof (apply_seqs_mlen _ _ _ Happ) as Fml.
      assert (Hml0 : 0 <= ml + 4).
      { unfold apply_seq in Eapp. cbn [s_off s_mlen] in Eapp. destruct (off_ok (o1 + 256 * o2) && (4 <=? ml + 4)) eqn:E; [lia|discriminate]. }
      destruct (end_room ss' (mkSeq lits (o1 + 256 * o2) (ml + 4)) last' Hend) as (H5 & H12 & Hend').
      { constructor; [cbn [s_mlen]; lia | exact Fml]. }
      cbn [s_mlen] in H12.
      pose proof (total_len_ge ss' last' Fml) as Htl.
      pose proof (parse_seqs_len _ _ _ _ E4) as Hr4.
      cbn [total_len fold_right s_lits s_mlen] in Hroom. fold (total_len ss' last') in Hroom.
      assert (Ell : ll = Z.of_nat (length lits)).
      { destruct (take_spec _ _ _ _ E2) as [_ Hl]. destruct (bytes_cons _ _ Hb) as [Htok Hbr].
        destruct (nibbles tok Htok) as [Hn1 _].
        destruct (src_at_cons _ _ _ _ Hs) as [_ Hsr].
        destruct (read_len_suffix _ _ _ _ _ Hn1 E1 Hbr Hsr) as (_ & Hll & _). unfold byte in *. lia. }
      assert (Hlen1 : length rout1 = (length rout + length lits + Z.to_nat (ml + 4))%nat).
      { unfold apply_seq in Eapp. cbn [s_lits s_off s_mlen] in Eapp.
        destruct (off_ok (o1 + 256 * o2) && (4 <=? ml + 4)); [|discriminate].
        apply copy_match_length in Eapp. rewrite app_length, rev_length in Eapp. unfold byte in *. lia. }
      assert (HS : is_cont (safe_top partial dict srcm iend oend lowPrefix rlow dictm dictSize s)
            (fun s' => ip s' + Z.of_nat (length r4) = ip s + Z.of_nat (length (tok :: r)) /\
                       src_at srcm (ip s') r4 /\ bytes r4 /\
                       op s' = op s + ll + (ml + 4) /\ out_at (vget (dm s')) (op s') rout1)).
      { apply (safe_top_seq_sim s tok r ll r1 lits o1 o2 r3 ml r4 rout rout1); try assumption; unfold byte in *; try lia; try (rewrite Hp; lia). }
      destruct (safe_top partial dict srcm iend oend lowPrefix rlow dictm dictSize s) as [[|] s'|s'|s'];
        cbn [is_cont] in HS; try (exfalso; exact HS).
      destruct HS as (Hi' & Hs' & Hb' & Ho' & O').
      assert (Hshr : (length r4 + 2 <= length r)%nat).
      { pose proof (read_len_shorter _ _ _ _ E1). pose proof (read_len_shorter _ _ _ _ E3).
        destruct (take_spec _ _ _ _ E2) as [Er1 _]. unfold byte in *.
        assert (length r1 = (length lits + S (S (length r3)))%nat) by (rewrite Er1, app_length; reflexivity). lia. }
      cbn [length] in Hi', Hie, Hfuel.
      destruct (IH r4 ss' last' E4 rout1 rout' s' fuel Hp Happ Hend' Hb' Hs') as (s'' & Hrun & Hout).
      + unfold byte in *; lia.
      + unfold byte in *; lia.
      + exact O'.
      + unfold byte in *; lia.
      + unfold byte in *; lia.
      + unfold byte in *; lia.
      + unfold byte in *; lia.
      + exists s''. rewrite Hrun. split.
        * f_equal. cbn [total_len fold_right s_lits s_mlen]. fold (total_len ss' last'). lia.
        * cbn [total_len fold_right s_lits s_mlen]. fold (total_len ss' last').
          replace (op s + (Z.of_nat (length lits) + (ml + 4) + total_len ss' last')) with (op s' + total_len ss' last') by lia.
          exact Hout.
  Qed.

  (* ====================================================================== *)
  (* partial decoding (partial = true): a sequence may be cut at [oend]       *)
  (* ====================================================================== *)

  Lemma is_cod_mono out (P Q : bool -> dstate -> Prop) :
    is_cont_or_done out P -> (forall d s', P d s' -> Q d s') -> is_cont_or_done out Q.
  Proof. destruct out as [[|] s'|s'|s']; cbn [is_cont_or_done]; intros H HQ; try contradiction; auto. Qed.

  Lemma is_cont_cod out (P : dstate -> Prop) (Q : bool -> dstate -> Prop) :
    is_cont out P -> (forall s', P s' -> Q false s') -> is_cont_or_done out Q.
  Proof. destruct out as [[|] s'|s'|s']; cbn [is_cont is_cont_or_done]; intros H HQ; try contradiction; auto. Qed.

  Lemma is_done_cod out (P : dstate -> Prop) (Q : bool -> dstate -> Prop) :
    is_done out P -> (forall s', P s' -> Q true s') -> is_cont_or_done out Q.
  Proof. destruct out as [[|] s'|s'|s']; cbn [is_done is_cont_or_done]; intros H HQ; try contradiction; auto. Qed.

  (* list facts for cut sequences *)
  Lemma skipn_S_tl : forall k (l : list Z), skipn (S k) l = tl (skipn k l).
  Proof.
    induction k as [|k IH]; intros l.
    - destruct l; reflexivity.
    - destruct l as [|x l]; [reflexivity|]. cbn [skipn] in *. apply IH.
  Qed.

  Lemma copy_match_skipn : forall k (r : list Z) off r', copy_match r off k = Some r' -> skipn k r' = r.
  Proof.
    induction k as [|k IH]; intros r off r' H; cbn [copy_match] in H; unfold byte in *.
    - inversion H. reflexivity.
    - destruct (nth_error r (off - 1)) as [b|]; [|discriminate].
      pose proof (copy_match_length _ _ _ _ H) as Hl.
      apply IH in H.
      (* skipn (S k) r' = tl (skipn k r') *)
      rewrite skipn_S_tl, H. reflexivity.
  Qed.

  Lemma rev_firstn_skipn (lits rout : list Z) n :
    (n <= length lits)%nat -> rev (firstn n lits) ++ rout = skipn (length lits - n) (rev lits ++ rout).
  Proof.
    intros Hn. rewrite <- (firstn_skipn n lits) at 3.
    rewrite rev_app_distr, <- app_assoc.
    rewrite skipn_app. rewrite rev_length, skipn_length.
    replace (length lits - n - (length lits - n))%nat with 0%nat by lia.
    rewrite skipn_all2 by (rewrite rev_length, skipn_length; lia). reflexivity.
  Qed.

  Lemma apply_seqs_suffix : forall ss (r r' : list Z), apply_seqs r ss = Some r' ->
    exists X, r' = X ++ r /\ Z.of_nat (length X) = total_len ss [].
  Proof.
    induction ss as [|x ss IH]; intros r r' H; cbn [apply_seqs] in H.
    - inversion H; subst. exists []. split; reflexivity.
    - destruct (apply_seq r x) as [r1|] eqn:E; [|discriminate].
      destruct (IH _ _ H) as (X & -> & HX).
      unfold apply_seq in E. destruct (off_ok (s_off x) && (4 <=? s_mlen x)) eqn:E2; [|discriminate].
      pose proof (copy_match_length _ _ _ _ E) as Hl.
      apply copy_match_skipn in E.
      exists (X ++ firstn (Z.to_nat (s_mlen x)) r1 ++ rev (s_lits x)). split.
      + rewrite <- !app_assoc. f_equal.
        rewrite <- (firstn_skipn (Z.to_nat (s_mlen x)) r1) at 1. rewrite E. reflexivity.
      + rewrite !app_length, rev_length, firstn_length. rewrite app_length, rev_length in Hl.
        cbn [total_len fold_right]. unfold total_len in HX. unfold byte in *. lia.
  Qed.

  Lemma skipn_app_exact (Y r : list Z) a c : length Y = a -> skipn (a + c) (Y ++ r) = skipn c r.
  Proof.
    intros <-. rewrite skipn_app. rewrite skipn_all2 by lia.
    replace (length Y + c - length Y)%nat with c by lia. reflexivity.
  Qed.

  (* match starting in the external dictionary, possibly cut at oend (partial mode) *)
  Lemma ext_match_part infast s offset length :
    1 <= offset -> op s - offset < lowPrefix -> lowPrefix - dictSize <= op s - offset ->
    4 <= length -> 0 <= op s -> op s <= oend -> (partial = false -> op s + length <= oend - 5) ->
    is_cont_f infast (ext_match partial oend lowPrefix rlow dictm dictSize infast s (op s - offset) length)
      (fun s' => ip s' = ip s /\ op s' = op s + Z.min length (oend - op s) /\
                 same_below (dm s) (dm s') (op s) /\
                 frec (vget (dm s')) offset (op s) (op s + Z.min length (oend - op s))).
  Proof.
    intros Ho Hlt Hge Hlen Hop Hoe Hroom.
    unfold ext_match. cbv zeta.
    assert (Eerr : (op s + length >? oend - LASTLITERALS) && negb partial = false).
    { destruct partial; [cbn [negb]; apply andb_false_r|]. specialize (Hroom eq_refl). fin. }
    rewrite Eerr. cbv beta iota.
    set (n := if op s + length >? oend - LASTLITERALS then Z.min length (oend - op s) else length).
    assert (En : n = Z.min length (oend - op s)).
    { unfold n. destruct (op s + length >? oend - LASTLITERALS) eqn:E; [reflexivity | fin]. }
    clearbody n. subst n.
    set (n := Z.min length (oend - op s)) in *.
    assert (Hn : 0 <= n) by (unfold n; lia).
    set (mat := op s - offset) in *.
    assert (Hdict : forall m' x, x < lowPrefix -> vget m' x = get dictm (dictSize - (lowPrefix - x))).
    { intros m' x Hx. unfold vget. destruct (x <? lowPrefix) eqn:E; [reflexivity | lia]. }
    destruct (n <=? lowPrefix - mat) eqn:Ein; cbv beta iota.
    - cbn [is_cont_f]. split; [reflexivity|]. cbn [ip op dm].
      split; [reflexivity|]. split; [reflexivity|]. split; [apply blit_same_below|].
      intros x Hx. rewrite vget_hi by lia. rewrite Hdict by (unfold mat in *; lia).
      rewrite get_blit. assert (E : (op s <=? x) && (x <? op s + Z.of_nat (Z.to_nat n)) = true) by lia. rewrite E.
      f_equal. unfold mat. lia.
    - set (cs := lowPrefix - mat) in *.
      set (m1 := blit dictm (dictSize - cs) (dm s) (op s) (Z.to_nat cs)).
      assert (S1 : same_below (dm s) m1 (op s)) by apply blit_same_below.
      assert (Hoff : op s + cs - lowPrefix = offset) by (unfold cs, mat; lia).
      assert (Hm2 : exists m2, (if n - cs >? op s + cs - lowPrefix
                                then copy_fwd m1 (op s + cs) lowPrefix (Z.to_nat (n - cs))
                                else blit m1 lowPrefix m1 (op s + cs) (Z.to_nat (n - cs))) = m2 /\
                               same_below m1 m2 (op s + cs) /\ lzrec m2 offset (op s + cs) (op s + n)).
      { destruct (n - cs >? op s + cs - lowPrefix) eqn:Eov.
        - destruct (copy_fwd_lz (Z.to_nat (n - cs)) m1 (op s + cs) offset Ho) as [S R].
          replace (op s + cs - offset) with lowPrefix in S, R by lia.
          eexists. split; [reflexivity|]. split; [exact S|].
          eapply lzrec_weaken; [exact R | lia | lia].
        - destruct (memcpy_lz m1 (op s + cs) offset (Z.to_nat (n - cs))) as [S R]; [lia|].
          replace (op s + cs - offset) with lowPrefix in S, R by lia. unfold memcpy_k in S, R.
          eexists. split; [reflexivity|]. split; [exact S|].
          eapply lzrec_weaken; [exact R | lia | lia]. }
      destruct Hm2 as (m2 & Em2 & S2 & R2). rewrite Em2.
      cbn [is_cont_f]. split; [reflexivity|]. cbn [ip op dm].
      split; [reflexivity|]. split; [lia|]. split.
      + eapply same_below_trans; [exact S1 | exact S2 | unfold cs, mat; lia].
      + intros x Hx. destruct (Z_lt_ge_dec x (op s + cs)) as [Hlo|Hhi].
        * rewrite vget_hi by lia. rewrite Hdict by (unfold cs, mat in *; lia).
          rewrite S2 by lia. unfold m1. rewrite get_blit.
          assert (E : (op s <=? x) && (x <? op s + Z.of_nat (Z.to_nat cs)) = true) by (unfold cs, mat in *; lia). rewrite E.
          f_equal. unfold cs, mat. lia.
        * rewrite !vget_hi by lia. apply R2. lia.
  Qed.

  (* ---------- the match copy when it comes within 12 bytes of [oend] ---------- *)
  Lemma safe_match_cut s offset length :
    partial = true ->
    1 <= offset -> lowPrefix <= op s - offset -> 4 <= length -> op s <= oend ->
    op s + length > oend - 12 ->
    is_cont_or_done (safe_match partial dict oend lowPrefix rlow dictm dictSize s offset length)
      (fun done s' => ip s' = ip s /\ op s' = op s + Z.min length (oend - op s) /\
                      same_below (dm s) (dm s') (op s) /\
                      lzrec (dm s') offset (op s) (op s + Z.min length (oend - op s)) /\
                      (if done then op s' = oend else op s' < oend)).
  Proof.
    intros Hp Ho Hmat Hlen Hop Hnear.
    unfold safe_match. cbv zeta. rewrite Hp. cbn [andb].
    hd. hd. hd.
    set (n := Z.min length (oend - op s)) in *.
    assert (Hn : 0 <= n) by (unfold n; lia).
    destruct (op s - offset + n >? op s) eqn:Eov; cbv beta iota.
    - destruct (copy_fwd_lz (Z.to_nat n) (dm s) (op s) offset Ho) as [S R].
      rewrite Z2Nat.id in R by lia.
      destruct (op s + n =? oend) eqn:Eend; cbn [is_cont_or_done ip op dm].
      + repeat split; try assumption; lia.
      + repeat split; try assumption; lia.
    - destruct (memcpy_lz (dm s) (op s) offset (Z.to_nat n)) as [S R]; [lia|].
      rewrite Z2Nat.id in R by lia. unfold memcpy_k in S, R.
      destruct (op s + n =? oend) eqn:Eend; cbn [is_cont_or_done ip op dm].
      + repeat split; try assumption; lia.
      + repeat split; try assumption; lia.
  Qed.

  (* [safe_match] in partial mode anywhere in the buffer; the match may start in the external dictionary *)
  Lemma safe_match_part s offset length :
    partial = true ->
    1 <= offset -> lowPrefix - hroom <= op s - offset -> 4 <= length -> 0 <= op s -> op s <= oend ->
    is_cont_or_done (safe_match partial dict oend lowPrefix rlow dictm dictSize s offset length)
      (fun done s' => ip s' = ip s /\ op s' = op s + Z.min length (oend - op s) /\
                      same_below (dm s) (dm s') (op s) /\
                      frec (vget (dm s')) offset (op s) (op s + Z.min length (oend - op s)) /\
                      (if done then op s' = oend else Z.min length (oend - op s) = length \/ op s' = oend)).
  Proof.
    intros Hp Ho Hmat Hlen Hop Hoe.
    destruct (Z_lt_ge_dec (op s - offset) lowPrefix) as [Hext|Hin].
    - (* external dictionary: Cont, even when cut at oend *)
      destruct hroom_ext as [Hed Hhr]; [lia|].
      unfold safe_match. cbv zeta.
      assert (E1 : checkOffset dictSize && (op s - offset + dictSize <? lowPrefix) = false) by lia. rewrite E1. cbv beta iota.
      assert (E2 : is_extdict dict && (op s - offset <? lowPrefix) = true) by lia. rewrite E2. cbv beta iota.
      eapply is_cont_cod.
      + apply is_cont_f_false. apply ext_match_part; try assumption; try lia; try (rewrite Hp; discriminate).
      + cbn beta. intros s' (H1 & H2 & H3 & H4). repeat split; try assumption. lia.
    - destruct (Z_le_gt_dec (op s + length) (oend - 12)) as [Hfar|Hnear].
      + eapply is_cont_cod.
        * pose proof hroom_range. apply (safe_match_v s offset length); try assumption; try lia; try (rewrite Hp; exact Hfar).
        * intros s' (H1 & H2 & H3 & H4).
          replace (Z.min length (oend - op s)) with length by lia. repeat split; try assumption. left; reflexivity.
      + eapply is_cod_mono.
        * apply (safe_match_cut s offset length); try assumption; lia.
        * cbn beta. intros done s' (H1 & H2 & H3 & H4 & H5).
          split; [exact H1|]. split; [exact H2|]. split; [exact H3|]. split; [apply lzrec_v; [exact H4 | lia | lia]|].
          destruct done; [exact H5 | lia].
  Qed.

  (* [_copy_match] in partial mode, anywhere in the buffer *)
  Lemma copy_match_lbl_part s offset nib r3 ml r4 :
    partial = true ->
    0 <= nib <= 15 ->
    read_len nib r3 = Some (ml, r4) -> src_at srcm (ip s) r3 -> bytes r3 ->
    0 <= ip s -> ip s + Z.of_nat (length r3) <= iend -> (4 <= length r4)%nat ->
    1 <= offset -> lowPrefix - hroom <= op s - offset -> 0 <= op s -> op s <= oend ->
    is_cont_or_done (copy_match_lbl partial dict srcm iend oend lowPrefix rlow dictm dictSize s offset nib)
      (fun done s' => op s' = op s + Z.min (ml + 4) (oend - op s) /\
                      same_below (dm s) (dm s') (op s) /\
                      frec (vget (dm s')) offset (op s) (op s + Z.min (ml + 4) (oend - op s)) /\
                      0 <= ml /\
                      (if done then op s' = oend
                       else (Z.min (ml + 4) (oend - op s) = ml + 4 \/ op s' = oend) /\
                            ip s' = ip s + (Z.of_nat (length r3) - Z.of_nat (length r4)) /\ src_at srcm (ip s') r4)).
  Proof.
    intros Hp Hnib Hrl Hs Hb Hip Hie Hr4 Ho Hmat Hop0 Hop.
    assert (Hml : 0 <= ml).
    { unfold read_len in Hrl. destruct (nib =? 15); [apply read_ext_ge in Hrl; [lia | exact Hb] | inversion Hrl; lia]. }
    unfold copy_match_lbl, read_len in *.
    destruct (nib =? 15) eqn:E15.
    - assert (E : (nib =? ML_MASK) = true) by fin. rewrite E. clear E.
      destruct (rvl_sim r3 ml r4 (ip s) (iend - LASTLITERALS + 1) false (ok s) Hrl Hs Hip Hie) as (Hl & Hsr & kf' & Hr); [fin|].
      rewrite Hr. cbv beta iota.
      replace (nib + (ml - 15) + MINMATCH) with (ml + 4) by fin.
      eapply is_cod_mono.
      + apply (safe_match_part (mkD (ip s + (Z.of_nat (length r3) - Z.of_nat (length r4))) (op s) (dm s) kf') offset (ml + 4)); cbn [ip op dm]; try assumption; lia.
      + cbn [ip op dm]. intros done s' (H1 & H2 & H3 & H4 & H5).
        split; [exact H2|]. split; [exact H3|]. split; [exact H4|]. split; [exact Hml|].
        destruct done; [exact H5|]. split; [exact H5|]. split; [exact H1|]. rewrite H1. exact Hsr.
    - inversion Hrl; subst ml r4.
      assert (E : (nib =? ML_MASK) = false) by fin. rewrite E. clear E.
      replace (nib + MINMATCH) with (nib + 4) by fin.
      eapply is_cod_mono.
      + apply (safe_match_part s offset (nib + 4)); try assumption; lia.
      + cbn beta. intros done s' (H1 & H2 & H3 & H4 & H5).
        split; [exact H2|]. split; [exact H3|]. split; [exact H4|]. split; [exact Hml|].
        destruct done; [exact H5|]. split; [exact H5|]. split; [lia|]. rewrite H1. exact Hs.
  Qed.

  Lemma nth_firstn_lt : forall k (l : list Z) j, (j < k)%nat -> nth j (firstn k l) 0 = nth j l 0.
  Proof.
    induction k as [|k IH]; intros l j Hj; [lia|].
    destruct l as [|x l]; [reflexivity|]. destruct j as [|j]; [reflexivity|]. cbn [firstn nth]. apply IH. lia.
  Qed.

  Lemma skipn_add : forall b a (l : list Z), skipn (a + b) l = skipn a (skipn b l).
  Proof.
    induction b as [|b IH]; intros a l.
    - replace (a + 0)%nat with a by lia. reflexivity.
    - destruct l as [|x l].
      + rewrite !skipn_nil. reflexivity.
      + replace (a + S b)%nat with (S (a + b)) by lia. cbn [skipn]. apply IH.
  Qed.

  (* outcome of a (possibly cut) sequence that produces [want] bytes when complete *)
  Definition part_post (o want : Z) (rout1 : list Z) (next : dstate -> Prop) (done : bool) (s' : dstate) : Prop :=
    op s' = o + Z.min want (oend - o) /\
    out_at (vget (dm s')) (op s') (skipn (Z.to_nat (want - Z.min want (oend - o))) rout1) /\
    (if done then op s' = oend else (Z.min want (oend - o) = want \/ op s' = oend) /\ next s').

  (* from the state after the (complete) literals to the end of the (possibly cut) match *)
  Lemma after_lits_part (i o : Z) (m1 : mem) kf nib o1 o2 r3 ml r4 rout0 rout1 :
    partial = true ->
    0 <= nib <= 15 -> bytes (o1 :: o2 :: r3) ->
    src_at srcm i (o1 :: o2 :: r3) -> 0 <= i -> i + Z.of_nat (length (o1 :: o2 :: r3)) <= iend ->
    read_len nib r3 = Some (ml, r4) -> (4 <= length r4)%nat ->
    out_at (vget m1) o rout0 -> Z.of_nat (length rout0) <= o - lowPrefix + hroom -> 0 <= o -> o <= oend ->
    copy_match rout0 (Z.to_nat (o1 + 256 * o2)) (Z.to_nat (ml + 4)) = Some rout1 ->
    1 <= o1 + 256 * o2 ->
    is_cont_or_done (copy_match_lbl partial dict srcm iend oend lowPrefix rlow dictm dictSize
                       (mkD (i + 2) o m1 kf) (o1 + 256 * o2) nib)
      (part_post o (ml + 4) rout1
         (fun s' => ip s' = i + 2 + (Z.of_nat (length r3) - Z.of_nat (length r4)) /\ src_at srcm (ip s') r4)).
  Proof.
    intros Hp Hnib Hb Hs Hi Hie Hrl Hr4 O Hlen Ho Hoe Hcm Hoff.
    unfold byte in *.
    destruct (src_at_cons _ _ _ _ Hs) as [_ Hs1]. destruct (src_at_cons _ _ _ _ Hs1) as [_ Hs2].
    destruct (bytes_cons _ _ Hb) as [_ Hb1]. destruct (bytes_cons _ _ Hb1) as [_ Hb2].
    replace (i + 1 + 1) with (i + 2) in Hs2 by lia.
    cbn [length] in Hie.
    assert (Hml : 0 <= ml).
    { unfold read_len in Hrl. destruct (nib =? 15); [apply read_ext_ge in Hrl; [lia | exact Hb2] | inversion Hrl; lia]. }
    assert (Hoffle : o1 + 256 * o2 <= Z.of_nat (length rout0)).
    { replace (Z.to_nat (ml + 4)) with (S (Z.to_nat (ml + 3))) in Hcm by lia.
      apply copy_match_off in Hcm. unfold byte in *. lia. }
    eapply is_cod_mono.
    - apply (copy_match_lbl_part (mkD (i + 2) o m1 kf) (o1 + 256 * o2) nib r3 ml r4); cbn [ip op dm]; unfold byte in *; try assumption; try lia.
    - cbn [ip op dm]. unfold byte in *. intros done s' (H1 & H2 & H3 & _ & H5).
      set (n := Z.min (ml + 4) (oend - o)) in *.
      assert (Hn : 0 <= n <= ml + 4) by (unfold n; lia).
      unfold part_post. fold n. split; [exact H1|]. split.
      + replace (Z.to_nat (ml + 4)) with (Z.to_nat n + Z.to_nat (ml + 4 - n))%nat in Hcm by lia.
        destruct (copy_match_prefix _ _ _ _ _ Hcm) as (rc & Hc1 & Hc2).
        apply copy_match_skipn in Hc2. unfold byte in *. rewrite Hc2. rewrite H1.
        replace n with (Z.of_nat (Z.to_nat n)) at 1 by lia.
        apply copy_match_out with (rout := rout0) (off := Z.to_nat (o1 + 256 * o2)).
        * lia.
        * exact Hc1.
        * eapply out_at_v_same_below; eauto.
        * replace (Z.of_nat (Z.to_nat (o1 + 256 * o2))) with (o1 + 256 * o2) by lia.
          replace (Z.of_nat (Z.to_nat n)) with n by lia. exact H3.
      + destruct done; [exact H5|]. destruct H5 as (H5 & H6 & H7). split; [lia|]. split; assumption.
  Qed.

  (* [safe_lit] in partial mode on a literal run that is followed by a match *)
  Lemma safe_lit_part s tok lits o1 o2 r3 ml r4 rout rout1 :
    partial = true ->
    0 <= tok < 256 -> bytes (lits ++ o1 :: o2 :: r3) ->
    src_at srcm (ip s) (lits ++ o1 :: o2 :: r3) -> 0 <= ip s ->
    ip s + Z.of_nat (length (lits ++ o1 :: o2 :: r3)) <= iend ->
    read_len (tok mod 16) r3 = Some (ml, r4) -> (6 <= length r4)%nat ->
    out_at (vget (dm s)) (op s) rout -> Z.of_nat (length rout) <= op s - lowPrefix + hroom -> 0 <= op s -> op s <= oend ->
    copy_match (rev lits ++ rout) (Z.to_nat (o1 + 256 * o2)) (Z.to_nat (ml + 4)) = Some rout1 ->
    1 <= o1 + 256 * o2 -> 0 <= ml ->
    is_cont_or_done (safe_lit partial dict srcm iend oend lowPrefix rlow dictm dictSize s tok (Z.of_nat (length lits)))
      (part_post (op s) (Z.of_nat (length lits) + (ml + 4)) rout1
         (fun s' => ip s' = ip s + Z.of_nat (length lits) + 2 + (Z.of_nat (length r3) - Z.of_nat (length r4)) /\
                    src_at srcm (ip s') r4)).
  Proof.
    intros Hp Htok Hb Hs Hip Hie Hrl Hr4 O Hlen Hop Hoe Hcm Hoff Hml.
    unfold byte in *.
    destruct (src_at_app _ _ _ _ Hs) as [Hsl Hs2].
    destruct (bytes_app _ _ Hb) as [_ Hb2].
    rewrite app_length in Hie. cbn [length] in Hie.
    assert (Hr43 : (length r4 <= length r3)%nat).
    { unfold read_len in Hrl. destruct (tok mod 16 =? 15).
      - apply read_ext_shorter in Hrl. unfold byte in *. lia.
      - inversion Hrl; subst. lia. }
    pose proof (copy_match_skipn _ _ _ _ Hcm) as Hsk.
    set (ll := Z.of_nat (length lits)) in *.
    unfold safe_lit. cbv zeta.
    set (CML := copy_match_lbl partial dict srcm iend oend lowPrefix rlow dictm dictSize).
    rewrite Hp. cbn [negb andb].
    destruct ((op s + ll >? oend - MFLIMIT) || (ip s + ll >? iend - (2 + 1 + LASTLITERALS))) eqn:Enear; cbv beta iota.
    - (* the literal run ends within 12 bytes of oend (or beyond) *)
      assert (Hnear : op s + ll > oend - 12) by fin.
      assert (Ec1 : (ip s + ll >? iend) = false) by lia. rewrite Ec1. cbv beta iota.
      destruct (op s + ll >? oend) eqn:Eclip; cbv beta iota.
      + (* clipped: stop inside the literals *)
        assert (Ed : (oend =? oend) || (ip s + (oend - op s) >=? iend - 2) = true) by lia.
        rewrite orb_false_l, Ed. cbn [is_cont_or_done]. unfold part_post. cbn [op dm].
        replace (Z.min (ll + (ml + 4)) (oend - op s)) with (oend - op s) by lia.
        split; [lia|]. split; [|lia].
        replace (Z.to_nat (ll + (ml + 4) - (oend - op s))) with (Z.to_nat (ll - (oend - op s)) + Z.to_nat (ml + 4))%nat by lia.
        unfold byte in *. rewrite skipn_add, Hsk.
        replace (Z.to_nat (ll - (oend - op s))) with (length lits - Z.to_nat (oend - op s))%nat by lia.
        rewrite <- rev_firstn_skipn by lia.
        replace (op s + (oend - op s)) with (op s + Z.of_nat (length (firstn (Z.to_nat (oend - op s)) lits))) by (rewrite firstn_length; lia).
        apply lits_out_v with (m := dm s); try assumption.
        * apply blit_same_below.
        * apply blit_lits; [|rewrite firstn_length; lia].
          intros j Hj. rewrite firstn_length in Hj. rewrite Hsl by lia.
          symmetry. apply nth_firstn_lt. lia.
      + destruct (op s + ll =? oend) eqn:Eeq.
        * (* the literals end exactly at oend *)
          cbn [orb]. cbn [is_cont_or_done]. unfold part_post. cbn [op dm].
          replace (Z.min (ll + (ml + 4)) (oend - op s)) with ll by lia.
          split; [lia|]. split; [|lia].
          replace (Z.to_nat (ll + (ml + 4) - ll)) with (Z.to_nat (ml + 4)) by lia. unfold byte in *. rewrite Hsk.
          unfold ll. rewrite Nat2Z.id.
          apply lits_out_v with (m := dm s); try assumption.
          -- apply blit_same_below.
          -- apply blit_lits; [exact Hsl | lia].
        * (* complete literals, then a match that is necessarily cut or ends near oend *)
          cbn [orb].
          assert (Ed : (ip s + ll >=? iend - 2) = false) by lia.
          rewrite Ed. cbv beta iota. cbn [ip op dm]. subst CML.
          rewrite (readLE16_src _ _ _ _ Hs2).
          eapply is_cod_mono.
          -- apply (after_lits_part (ip s + ll) (op s + ll)) with (r3 := r3) (r4 := r4) (ml := ml) (rout0 := rev lits ++ rout) (rout1 := rout1); unfold byte in *; try assumption; try lia.
             ++ pose proof (Z.mod_pos_bound tok 16). lia.
             ++ cbn [length]. lia.
             ++ unfold ll. rewrite Nat2Z.id.
                apply lits_out_v with (m := dm s); try assumption.
                ** apply blit_same_below.
                ** apply blit_lits; [exact Hsl | lia].
             ++ rewrite app_length, rev_length. lia.
          -- unfold part_post. unfold byte in *. intros done s' (H1 & H2 & H3).
             replace (Z.min (ll + (ml + 4)) (oend - op s)) with (ll + Z.min (ml + 4) (oend - (op s + ll))) by lia.
             split; [lia|]. split.
             ++ replace (ll + (ml + 4) - (ll + Z.min (ml + 4) (oend - (op s + ll)))) with (ml + 4 - Z.min (ml + 4) (oend - (op s + ll))) by lia.
                exact H2.
             ++ destruct done; [exact H3|]. destruct H3 as [H3 H4]. split; [lia|]. destruct H4 as [H4 H5]. split; [lia | exact H5].
    - (* far from oend: wild copy of the literals, then the match *)
      cbn [ip op dm]. subst CML.
      rewrite (readLE16_src _ _ _ _ Hs2).
      eapply is_cod_mono.
      + apply (after_lits_part (ip s + ll) (op s + ll)) with (r3 := r3) (r4 := r4) (ml := ml) (rout0 := rev lits ++ rout) (rout1 := rout1); unfold byte in *; try assumption; try fin.
        * pose proof (Z.mod_pos_bound tok 16). lia.
        * cbn [length]. fin.
        * apply lits_out_v with (m := dm s); try assumption.
          -- apply wild8_in_same_below.
          -- apply wild8_in_lits. exact Hsl.
        * rewrite app_length, rev_length. lia.
      + unfold part_post. unfold byte in *. intros done s' (H1 & H2 & H3).
        assert (Hfar : op s + ll <= oend - 12) by fin.
        replace (Z.min (ll + (ml + 4)) (oend - op s)) with (ll + Z.min (ml + 4) (oend - (op s + ll))) by lia.
        split; [lia|]. split.
        * replace (ll + (ml + 4) - (ll + Z.min (ml + 4) (oend - (op s + ll)))) with (ml + 4 - Z.min (ml + 4) (oend - (op s + ll))) by lia.
          exact H2.
        * destruct done; [exact H3|]. destruct H3 as [H3 H4]. split; [lia|]. destruct H4 as [H4 H5]. split; [lia | exact H5].
  Qed.

  (* ---------- one iteration of the safe loop in partial mode, complete sequence in the input ---------- *)
  Lemma safe_top_seq_part s tok r ll r1 lits o1 o2 r3 ml r4 rout rout1 :
    partial = true ->
    bytes (tok :: r) -> src_at srcm (ip s) (tok :: r) -> 0 <= ip s ->
    ip s + Z.of_nat (length (tok :: r)) <= iend ->
    read_len (tok / 16) r = Some (ll, r1) -> take (Z.to_nat ll) r1 = Some (lits, o1 :: o2 :: r3) ->
    read_len (tok mod 16) r3 = Some (ml, r4) -> (6 <= length r4)%nat ->
    out_at (vget (dm s)) (op s) rout -> Z.of_nat (length rout) <= op s - lowPrefix + hroom -> 0 <= op s -> op s <= oend ->
    apply_seq rout (mkSeq lits (o1 + 256 * o2) (ml + 4)) = Some rout1 ->
    is_cont_or_done (safe_top partial dict srcm iend oend lowPrefix rlow dictm dictSize s)
      (part_post (op s) (ll + (ml + 4)) rout1
         (fun s' => ip s' + Z.of_nat (length r4) = ip s + Z.of_nat (length (tok :: r)) /\
                    src_at srcm (ip s') r4 /\ bytes r4)).
  Proof.
    intros Hp Hb Hs Hip Hie Hrl1 Htk Hrl2 Hr4 O Hlen Hop Hoe Happ.
    unfold byte in *.
    destruct (bytes_cons _ _ Hb) as [Htok Hbr].
    destruct (src_at_cons _ _ _ _ Hs) as [Htokm Hsr].
    destruct (nibbles tok Htok) as [Hn1 Hn2].
    cbn [length] in Hie.
    destruct (read_len_suffix _ _ _ _ _ Hn1 Hrl1 Hbr Hsr) as (Hl1 & Hll & Hnoext & Hs1 & Hb1).
    unfold byte in *.
    set (p1 := ip s + 1 + (Z.of_nat (length r) - Z.of_nat (length r1))) in *.
    destruct (take_spec _ _ _ _ Htk) as [Er1 Hlits]. unfold byte in *.
    assert (Ell : ll = Z.of_nat (length lits)) by lia.
    rewrite Er1 in Hs1, Hb1.
    assert (Hlr1 : length r1 = (length lits + S (S (length r3)))%nat).
    { rewrite Er1, app_length. reflexivity. }
    destruct (bytes_app _ _ Hb1) as [_ Hb2].
    destruct (bytes_cons _ _ Hb2) as [Ho1 Hb3]. destruct (bytes_cons _ _ Hb3) as [Ho2 Hb4].
    unfold apply_seq in Happ. cbn [s_lits s_off s_mlen] in Happ.
    destruct (off_ok (o1 + 256 * o2) && (4 <=? ml + 4)) eqn:Eok; [|discriminate].
    assert (Hoff : 1 <= o1 + 256 * o2) by (unfold off_ok in Eok; lia).
    destruct (src_at_app _ _ _ _ Hs1) as [Hsl Hs2].
    destruct (src_at_cons _ _ _ _ Hs2) as [_ Hs3]. destruct (src_at_cons _ _ _ _ Hs3) as [_ Hs4].
    destruct (read_len_suffix _ _ _ _ _ Hn2 Hrl2 Hb4 Hs4) as (Hl2 & Hml & Hnoext2 & Hs5 & Hb5).
    assert (Hcm : copy_match (rev lits ++ rout) (Z.to_nat (o1 + 256 * o2)) (Z.to_nat (ml + 4)) = Some rout1) by exact Happ.
    assert (Hoffle : o1 + 256 * o2 <= Z.of_nat (length lits) + Z.of_nat (length rout)).
    { replace (Z.to_nat (ml + 4)) with (S (Z.to_nat (ml + 3))) in Hcm by lia.
      apply copy_match_off in Hcm. rewrite app_length, rev_length in Hcm. unfold byte in *. lia. }
    unfold safe_top. cbv zeta. rewrite Htokm.
    destruct (negb (tok / 16 =? RUN_MASK) && ((ip s + 1 <? shortiend iend) && (op s <=? shortoend oend))) eqn:Esc; cbv beta iota.
    - (* two-stage shortcut *)
      assert (Hlt15 : tok / 16 < 15) by fin.
      destruct (Hnoext Hlt15) as [Ell' Er].
      assert (Ep1 : p1 = ip s + 1) by (unfold p1; rewrite Er; lia).
      rewrite Er in Hlr1.
      clearbody p1. subst p1.
      replace (tok / 16) with (Z.of_nat (length lits)) by lia.
      rewrite (readLE16_src _ _ _ _ Hs2).
      set (m1 := blit srcm (ip s + 1) (dm s) (op s) 16).
      assert (O1 : out_at (vget m1) (op s + Z.of_nat (length lits)) (rev lits ++ rout)).
      { apply lits_out_v with (m := dm s); try assumption.
        - apply blit_same_below.
        - apply blit_lits; [exact Hsl | lia]. }
      destruct (negb (tok mod 16 =? ML_MASK) && (o1 + 256 * o2 >=? 8) &&
                (is_prefix64k dict || (op s + Z.of_nat (length lits) - (o1 + 256 * o2) >=? lowPrefix))) eqn:E18; cbv beta iota.
      + (* 18-byte match copy: always complete (op <= oend - 32) *)
        assert (Hlt15' : tok mod 16 < 15) by fin.
        destruct (Hnoext2 Hlt15') as [Eml Er4].
        cbn [is_cont_or_done]. unfold part_post. cbn [ip op dm].
        destruct (copy18_lz m1 (op s + Z.of_nat (length lits)) (o1 + 256 * o2)) as [S R]; [lia|].
        set (m2 := copy18 m1 (op s + Z.of_nat (length lits)) (op s + Z.of_nat (length lits) - (o1 + 256 * o2))) in *.
        assert (Hfit : ll + (ml + 4) <= oend - op s) by fin.
        assert (Hmatge : lowPrefix <= op s + Z.of_nat (length lits) - (o1 + 256 * o2)).
        { destruct (is_prefix64k dict) eqn:E64; [pose proof (hroom_p64 E64); lia | fin]. }
        replace (Z.min (ll + (ml + 4)) (oend - op s)) with (ll + (ml + 4)) by lia.
        replace (Z.to_nat (ll + (ml + 4) - (ll + (ml + 4)))) with 0%nat by lia. cbn [skipn].
        split; [fin|]. split.
        * replace (op s + Z.of_nat (length lits) + tok mod 16 + MINMATCH) with (op s + Z.of_nat (length lits) + Z.of_nat (Z.to_nat (ml + 4))) by fin.
          apply copy_match_out with (rout := rev lits ++ rout) (off := Z.to_nat (o1 + 256 * o2)).
          -- lia.
          -- exact Hcm.
          -- eapply out_at_v_same_below; eauto.
          -- replace (Z.of_nat (Z.to_nat (o1 + 256 * o2))) with (o1 + 256 * o2) by lia.
             apply lzrec_v; [|lia|lia].
             eapply lzrec_weaken; [exact R | lia | fin].
        * split; [left; reflexivity|]. rewrite Er4 in *. split; [cbn [length]; lia|]. split; [|exact Hb5].
          replace (ip s + 1 + Z.of_nat (length lits) + 2) with (ip s + 1 + Z.of_nat (length lits) + 1 + 1 + (Z.of_nat (length r3) - Z.of_nat (length r3))) by lia. exact Hs5.
      + (* general match path, possibly cut *)
        eapply is_cod_mono.
        * apply (after_lits_part (ip s + 1 + Z.of_nat (length lits)) (op s + Z.of_nat (length lits)) m1) with (r3 := r3) (r4 := r4) (ml := ml) (rout0 := rev lits ++ rout) (rout1 := rout1); unfold byte in *; try assumption; try fin.
          -- cbn [length]. lia.
          -- rewrite app_length, rev_length. lia.
        * unfold part_post. unfold byte in *. intros done s' (H1 & H2 & H3).
          assert (Hfar : op s + ll <= oend - 18) by fin.
          replace (Z.min (ll + (ml + 4)) (oend - op s)) with (ll + Z.min (ml + 4) (oend - (op s + ll))) by lia.
          rewrite <- Ell in *.
          split; [lia|]. split.
          -- replace (ll + (ml + 4) - (ll + Z.min (ml + 4) (oend - (op s + ll)))) with (ml + 4 - Z.min (ml + 4) (oend - (op s + ll))) by lia.
             exact H2.
          -- destruct done; [exact H3|]. destruct H3 as [H3 [H4 H5]]. split; [lia|]. cbn [length]. split; [lia|]. split; assumption.
    - destruct (tok / 16 =? RUN_MASK) eqn:E15; cbv beta iota.
      + unfold read_len in Hrl1. assert (E15' : (tok / 16 =? 15) = true) by fin. rewrite E15' in Hrl1.
        destruct (rvl_sim r ll r1 (ip s + 1) (iend - RUN_MASK) true (ok s && rd_src iend (ip s) 1) Hrl1 Hsr) as (_ & _ & kf' & Hr); [fin | fin | fin |].
        rewrite Hr. cbv beta iota. unfold byte. fold p1.
        replace (tok / 16 + (ll - 15)) with (Z.of_nat (length lits)) by fin.
        eapply is_cod_mono.
        * apply (safe_lit_part (mkD p1 (op s) (dm s) kf') tok lits o1 o2 r3 ml r4 rout rout1); cbn [ip op dm]; unfold byte in *; try assumption; try lia.
          rewrite app_length. cbn [length]. lia.
        * unfold part_post. cbn [ip op dm]. unfold byte in *. intros done s' (H1 & H2 & H3). rewrite <- Ell in *.
          split; [exact H1|]. split; [exact H2|].
          destruct done; [exact H3|]. destruct H3 as [H3 [H4 H5]]. split; [exact H3|]. cbn [length]. split; [lia|]. split; assumption.
      + assert (Hlt15 : tok / 16 < 15) by fin.
        destruct (Hnoext Hlt15) as [Ell' Er].
        assert (Ep1 : p1 = ip s + 1) by (unfold p1; rewrite Er; lia).
        rewrite Er in Hlr1.
        clearbody p1. subst p1.
        replace (tok / 16) with (Z.of_nat (length lits)) by lia.
        eapply is_cod_mono.
        * apply (safe_lit_part (mkD (ip s + 1) (op s) (dm s) (ok s && rd_src iend (ip s) 1)) tok lits o1 o2 r3 ml r4 rout rout1); cbn [ip op dm]; unfold byte in *; try assumption; try lia.
          rewrite app_length. cbn [length]. lia.
        * unfold part_post. cbn [ip op dm]. unfold byte in *. intros done s' (H1 & H2 & H3). rewrite <- Ell in *.
          split; [exact H1|]. split; [exact H2|].
          destruct done; [exact H3|]. destruct H3 as [H3 [H4 H5]]. split; [exact H3|]. cbn [length]. split; [lia|]. split; assumption.
  Qed.

  (* ---------- the final literal run in partial mode ---------- *)
  Lemma safe_top_last_part s tok r ll r1 lits rout :
    partial = true ->
    bytes (tok :: r) -> src_at srcm (ip s) (tok :: r) -> 0 <= ip s ->
    ip s + Z.of_nat (length (tok :: r)) <= iend ->
    (ip s + Z.of_nat (length (tok :: r)) = iend \/ oend <= op s + ll) ->
    read_len (tok / 16) r = Some (ll, r1) -> take (Z.to_nat ll) r1 = Some (lits, []) ->
    out_at (vget (dm s)) (op s) rout -> 0 <= op s -> op s <= oend ->
    is_done (safe_top partial dict srcm iend oend lowPrefix rlow dictm dictSize s)
            (fun s' => op s' = op s + Z.min ll (oend - op s) /\
                       out_at (vget (dm s')) (op s') (skipn (Z.to_nat (ll - Z.min ll (oend - op s))) (rev lits ++ rout))).
  Proof.
    intros Hp Hb Hs Hip Hie Hex Hrl1 Htk O Hop Hoe.
    unfold byte in *.
    destruct (bytes_cons _ _ Hb) as [Htok Hbr].
    destruct (src_at_cons _ _ _ _ Hs) as [Htokm Hsr].
    destruct (nibbles tok Htok) as [Hn1 Hn2].
    cbn [length] in Hie, Hex.
    destruct (read_len_suffix _ _ _ _ _ Hn1 Hrl1 Hbr Hsr) as (Hl1 & Hll & Hnoext & Hs1 & Hb1).
    unfold byte in *.
    set (p1 := ip s + 1 + (Z.of_nat (length r) - Z.of_nat (length r1))) in *.
    destruct (take_spec _ _ _ _ Htk) as [Er1 Hlits]. unfold byte in *.
    rewrite app_nil_r in Er1.
    assert (Ell : ll = Z.of_nat (length lits)) by lia.
    assert (Hlr1 : length r1 = length lits) by (rewrite Er1; reflexivity).
    rewrite Er1 in Hs1.
    unfold safe_top. cbv zeta. rewrite Htokm.
    assert (Esc : negb (tok / 16 =? RUN_MASK) && ((ip s + 1 <? shortiend iend) && (op s <=? shortoend oend)) = false).
    { destruct (tok / 16 =? RUN_MASK) eqn:E15; [reflexivity|].
      assert (Hlt15 : tok / 16 < 15) by fin.
      destruct (Hnoext Hlt15) as [Ell' Er]. rewrite Er in Hlr1. fin. }
    rewrite Esc. cbv beta iota.
    assert (Hlit : forall kf,
      is_done (safe_lit partial dict srcm iend oend lowPrefix rlow dictm dictSize (mkD p1 (op s) (dm s) kf) tok (Z.of_nat (length lits)))
              (fun s' => op s' = op s + Z.min ll (oend - op s) /\
                         out_at (vget (dm s')) (op s') (skipn (Z.to_nat (ll - Z.min ll (oend - op s))) (rev lits ++ rout)))).
    { intros kf. unfold safe_lit. cbv zeta. cbn [ip op dm]. rewrite Hp. cbn [negb andb].
      assert (Ep1 : p1 + Z.of_nat (length lits) <= iend) by (unfold p1; lia).
      assert (Ep1' : p1 + Z.of_nat (length lits) = iend \/ oend <= op s + ll) by (unfold p1; lia).
      hd.
      assert (Ec1 : (p1 + Z.of_nat (length lits) >? iend) = false) by lia. rewrite Ec1. cbv beta iota.
      destruct (op s + Z.of_nat (length lits) >? oend) eqn:Eclip; cbv beta iota.
      - assert (Ed : (oend =? oend) || (p1 + (oend - op s) >=? iend - 2) = true) by lia.
        rewrite orb_false_l, Ed. cbn [is_done op dm].
        replace (Z.min ll (oend - op s)) with (oend - op s) by lia.
        split; [lia|].
        replace (Z.to_nat (ll - (oend - op s))) with (length lits - Z.to_nat (oend - op s))%nat by lia.
        rewrite <- rev_firstn_skipn by lia.
        replace (op s + (oend - op s)) with (op s + Z.of_nat (length (firstn (Z.to_nat (oend - op s)) lits))) by (rewrite firstn_length; lia).
        apply lits_out_v with (m := dm s); try assumption.
        + apply blit_same_below.
        + apply blit_lits; [|rewrite firstn_length; lia].
          intros j Hj. rewrite firstn_length in Hj. rewrite Hs1 by lia.
          symmetry. apply nth_firstn_lt. lia.
      - assert (Ed : (op s + Z.of_nat (length lits) =? oend) || (p1 + Z.of_nat (length lits) >=? iend - 2) = true) by lia.
        rewrite orb_false_l, Ed. cbn [is_done op dm].
        replace (Z.min ll (oend - op s)) with ll by lia.
        split; [lia|].
        replace (Z.to_nat (ll - ll)) with 0%nat by lia. cbn [skipn].
        rewrite Nat2Z.id.
        apply lits_out_v with (m := dm s); try assumption.
        + apply blit_same_below.
        + apply blit_lits; [exact Hs1 | lia]. }
    destruct (tok / 16 =? RUN_MASK) eqn:E15; cbv beta iota.
    - unfold read_len in Hrl1. assert (E15' : (tok / 16 =? 15) = true) by fin. rewrite E15' in Hrl1.
      destruct (rvl_sim r ll r1 (ip s + 1) (iend - RUN_MASK) true (ok s && rd_src iend (ip s) 1) Hrl1 Hsr) as (_ & _ & kf' & Hr); [fin | fin | fin |].
      rewrite Hr. cbv beta iota. unfold byte. fold p1.
      replace (tok / 16 + (ll - 15)) with (Z.of_nat (length lits)) by fin.
      apply Hlit.
    - assert (Hlt15 : tok / 16 < 15) by fin.
      destruct (Hnoext Hlt15) as [Ell' Er].
      assert (Ep1 : p1 = ip s + 1) by (unfold p1; rewrite Er; lia).
      rewrite <- Ep1. replace (tok / 16) with (Z.of_nat (length lits)) by lia.
      apply Hlit.
  Qed.

  (* ---------- a step that starts with op = oend (after a match that was cut exactly at oend
     by a copy that does not test for it: the external-dictionary copy) ---------- *)
  Lemma safe_top_at_end s tok r ll r1 lits r2 :
    partial = true ->
    bytes (tok :: r) -> src_at srcm (ip s) (tok :: r) -> 0 <= ip s ->
    ip s + Z.of_nat (length (tok :: r)) <= iend ->
    read_len (tok / 16) r = Some (ll, r1) -> take (Z.to_nat ll) r1 = Some (lits, r2) ->
    op s = oend -> 0 <= op s ->
    is_done (safe_top partial dict srcm iend oend lowPrefix rlow dictm dictSize s)
            (fun s' => op s' = oend /\ same_below (dm s) (dm s') oend).
  Proof.
    intros Hp Hb Hs Hip Hie Hrl1 Htk Hoe Hop.
    unfold byte in *.
    destruct (bytes_cons _ _ Hb) as [Htok Hbr].
    destruct (src_at_cons _ _ _ _ Hs) as [Htokm Hsr].
    destruct (nibbles tok Htok) as [Hn1 Hn2].
    cbn [length] in Hie.
    destruct (read_len_suffix _ _ _ _ _ Hn1 Hrl1 Hbr Hsr) as (Hl1 & Hll & Hnoext & Hs1 & Hb1).
    unfold byte in *.
    set (p1 := ip s + 1 + (Z.of_nat (length r) - Z.of_nat (length r1))) in *.
    destruct (take_spec _ _ _ _ Htk) as [Er1 Hlits]. unfold byte in *.
    assert (Ell : ll = Z.of_nat (length lits)) by lia.
    assert (Hlr1 : length r1 = (length lits + length r2)%nat) by (rewrite Er1, app_length; reflexivity).
    unfold safe_top. cbv zeta. rewrite Htokm.
    assert (Esc : negb (tok / 16 =? RUN_MASK) && ((ip s + 1 <? shortiend iend) && (op s <=? shortoend oend)) = false) by fin.
    rewrite Esc. cbv beta iota.
    assert (Hlit : forall kf,
      is_done (safe_lit partial dict srcm iend oend lowPrefix rlow dictm dictSize (mkD p1 (op s) (dm s) kf) tok ll)
              (fun s' => op s' = oend /\ same_below (dm s) (dm s') oend)).
    { intros kf. unfold safe_lit. cbv zeta. cbn [ip op dm]. rewrite Hp. cbn [negb andb].
      assert (Ep1 : p1 + ll <= iend) by (unfold p1; lia).
      hd.
      assert (Ec1 : (p1 + ll >? iend) = false) by lia. rewrite Ec1. cbv beta iota.
      destruct (op s + ll >? oend) eqn:Eclip; cbv beta iota.
      - assert (Ed : (oend =? oend) || (p1 + (oend - op s) >=? iend - 2) = true) by lia.
        rewrite orb_false_l, Ed. cbn [is_done op dm]. split; [lia|].
        rewrite <- Hoe. apply blit_same_below.
      - assert (Ed : (op s + ll =? oend) || (p1 + ll >=? iend - 2) = true) by lia.
        rewrite orb_false_l, Ed. cbn [is_done op dm]. split; [lia|].
        rewrite <- Hoe. apply blit_same_below. }
    destruct (tok / 16 =? RUN_MASK) eqn:E15; cbv beta iota.
    - unfold read_len in Hrl1. assert (E15' : (tok / 16 =? 15) = true) by fin. rewrite E15' in Hrl1.
      destruct (rvl_sim r ll r1 (ip s + 1) (iend - RUN_MASK) true (ok s && rd_src iend (ip s) 1) Hrl1 Hsr) as (_ & _ & kf' & Hr); [fin | fin | fin |].
      rewrite Hr. cbv beta iota. unfold byte. fold p1.
      replace (tok / 16 + (ll - 15)) with ll by fin.
      apply Hlit.
    - assert (Hlt15 : tok / 16 < 15) by fin.
      destruct (Hnoext Hlt15) as [Ell' Er].
      assert (Ep1 : p1 = ip s + 1) by (unfold p1; rewrite Er; lia).
      rewrite <- Ep1. rewrite <- Ell'.
      apply Hlit.
  Qed.

  Lemma run_at_end f (r4 : list Z) ss' (last' : list Z) s' fuel :
    partial = true -> parse_seqs f r4 = Some (ss', last') ->
    bytes r4 -> src_at srcm (ip s') r4 -> 0 <= ip s' -> ip s' + Z.of_nat (length r4) <= iend ->
    op s' = oend -> 0 <= op s' -> (1 <= fuel)%nat ->
    exists s'', run partial dict srcm iend oend lowPrefix rlow dictm dictSize fuel false s' = (oend, s'')
                /\ same_below (dm s') (dm s'') oend.
  Proof.
    intros Hp H Hb Hs Hip Hie Hoe Hop Hfuel.
    destruct f as [|f]; [discriminate|]. rewrite parse_seqs_S in H.
    destruct r4 as [|tok r]; [discriminate|].
    destruct (read_len (tok / 16) r) as [[ll r1]|] eqn:E1; [|discriminate].
    destruct (take (Z.to_nat ll) r1) as [[lits r2]|] eqn:E2; [|discriminate].
    destruct fuel as [|fuel]; [lia|]. cbn [run].
    pose proof (safe_top_at_end s' tok r ll r1 lits r2 Hp Hb Hs Hip Hie E1 E2 Hoe Hop) as HL.
    destruct (safe_top partial dict srcm iend oend lowPrefix rlow dictm dictSize s') as [[|] s''|s''|s''];
      cbn [is_done] in HL; try (exfalso; exact HL).
    destruct HL as [H1 H2]. exists s''. rewrite H1. split; [reflexivity | exact H2].
  Qed.

  (* ---------- the safe loop on a strictly valid block, partial decoding ---------- *)
  Lemma run_sim_part : forall f (bs : list Z) ss (last : list Z), parse_seqs f bs = Some (ss, last) ->
    forall rout rout' s fuel,
    partial = true ->
    apply_seqs rout ss = Some rout' -> end_ok ss last = true ->
    bytes bs -> src_at srcm (ip s) bs -> 0 <= ip s -> ip s + Z.of_nat (length bs) <= iend ->
    (ip s + Z.of_nat (length bs) = iend \/ oend <= op s + total_len ss last) ->
    out_at (vget (dm s)) (op s) rout -> Z.of_nat (length rout) <= op s - lowPrefix + hroom -> 0 <= op s -> op s <= oend ->
    (length bs < fuel)%nat ->
    exists s', run partial dict srcm iend oend lowPrefix rlow dictm dictSize fuel false s
               = (Z.min oend (op s + total_len ss last), s')
               /\ out_at (vget (dm s')) (Z.min oend (op s + total_len ss last))
                    (skipn (Z.to_nat (op s + total_len ss last - Z.min oend (op s + total_len ss last))) (rev last ++ rout')).
  Proof.
    induction f as [|f IH]; intros bs ss last H rout rout' s fuel Hp Happ Hend Hb Hs Hip Hie Hex O Hlen Hop Hoe Hfuel;
      [discriminate|]. rewrite parse_seqs_S in H.
    destruct bs as [|tok r]; [discriminate|].
    destruct (read_len (tok / 16) r) as [[ll r1]|] eqn:E1; [|discriminate].
    destruct (take (Z.to_nat ll) r1) as [[lits r2]|] eqn:E2; [|discriminate].
    destruct fuel as [|fuel]; [lia|].
    cbn [run].
    assert (Ell : ll = Z.of_nat (length lits) \/ r2 <> r2).
    { left. destruct (take_spec _ _ _ _ E2) as [_ Hl]. destruct (bytes_cons _ _ Hb) as [Htok Hbr].
      destruct (nibbles tok Htok) as [Hn1 _].
      destruct (src_at_cons _ _ _ _ Hs) as [_ Hsr].
      destruct (read_len_suffix _ _ _ _ _ Hn1 E1 Hbr Hsr) as (_ & Hll & _). unfold byte in *. lia. }
    destruct Ell as [Ell|Ell]; [|exfalso; apply Ell; reflexivity].
    destruct r2 as [|o1 [|o2 r3]]; [| discriminate |].
    - (* last sequence: literals only *)
      assert (Hss : ss = []) by congruence. assert (Hla : lits = last) by congruence. clear H. subst ss last.
      cbn [apply_seqs] in Happ. assert (Hr' : rout = rout') by congruence. subst rout'.
      cbn [total_len fold_right] in *. rewrite <- Ell in *.
      pose proof (safe_top_last_part s tok r ll r1 lits rout Hp Hb Hs Hip Hie Hex E1 E2 O Hop Hoe) as HL.
      destruct (safe_top partial dict srcm iend oend lowPrefix rlow dictm dictSize s) as [[|] s'|s'|s'];
        cbn [is_done] in HL; try (exfalso; exact HL).
      destruct HL as [H1 H2].
      exists s'. replace (Z.min oend (op s + ll)) with (op s + Z.min ll (oend - op s)) by lia.
      rewrite <- H1. split; [reflexivity|].
      replace (op s + ll - op s') with (ll - Z.min ll (oend - op s)) by lia. exact H2.
    - (* a complete sequence in the input *)
      destruct (read_len (tok mod 16) r3) as [[ml r4]|] eqn:E3; [|discriminate].
      destruct (parse_seqs f r4) as [[ss' last']|] eqn:E4; [|discriminate].
      assert (Hss : mkSeq lits (o1 + 256 * o2) (ml + 4) :: ss' = ss) by congruence.
      assert (Hlast : last' = last) by congruence. clear H. subst ss last.
      cbn [apply_seqs] in Happ.
      destruct (apply_seq rout (mkSeq lits (o1 + 256 * o2) (ml + 4))) as [rout1|] eqn:Eapp; [|discriminate].
      pose proof (apply_seqs_mlen _ _ _ Happ) as Fml.
      assert (Hml0 : 0 <= ml + 4).
      { unfold apply_seq in Eapp. cbn [s_off s_mlen] in Eapp. destruct (off_ok (o1 + 256 * o2) && (4 <=? ml + 4)) eqn:E; [lia|discriminate]. }
      destruct (end_room ss' (mkSeq lits (o1 + 256 * o2) (ml + 4)) last' Hend) as (H5 & H12 & Hend').
      { constructor; [cbn [s_mlen]; lia | exact Fml]. }
      pose proof (total_len_ge ss' last' Fml) as Htl.
      pose proof (parse_seqs_len _ _ _ _ E4) as Hr4.
      cbn [total_len fold_right s_lits s_mlen] in *. fold (total_len ss' last') in *.
      rewrite <- Ell in *.
      assert (Hlen1 : length rout1 = (length rout + length lits + Z.to_nat (ml + 4))%nat).
      { unfold apply_seq in Eapp. cbn [s_lits s_off s_mlen] in Eapp.
        destruct (off_ok (o1 + 256 * o2) && (4 <=? ml + 4)); [|discriminate].
        apply copy_match_length in Eapp. rewrite app_length, rev_length in Eapp. unfold byte in *. lia. }
      assert (HS : is_cont_or_done (safe_top partial dict srcm iend oend lowPrefix rlow dictm dictSize s)
                 (part_post (op s) (ll + (ml + 4)) rout1
                    (fun s' => ip s' + Z.of_nat (length r4) = ip s + Z.of_nat (length (tok :: r)) /\
                               src_at srcm (ip s') r4 /\ bytes r4))).
      { apply (safe_top_seq_part s tok r ll r1 lits o1 o2 r3 ml r4 rout rout1); try assumption; unfold byte in *; try lia. }
      assert (Hshr : (length r4 + 2 <= length r)%nat).
      { pose proof (read_len_shorter _ _ _ _ E1). pose proof (read_len_shorter _ _ _ _ E3).
        destruct (take_spec _ _ _ _ E2) as [Er1 _]. unfold byte in *.
        assert (length r1 = (length lits + S (S (length r3)))%nat) by (rewrite Er1, app_length; reflexivity). lia. }
      destruct (apply_seqs_suffix _ _ _ Happ) as (X & HX & HXl).
      destruct (safe_top partial dict srcm iend oend lowPrefix rlow dictm dictSize s) as [[|] s'|s'|s'];
        cbn [is_cont_or_done] in HS; try (exfalso; exact HS); unfold part_post in HS.
      + (* Cont: the sequence was completed, or it was cut exactly at oend *)
        destruct HS as (Ho' & O' & Hor & Hi' & Hs' & Hb').
        cbn [length] in Hi', Hie, Hfuel, Hex.
        destruct (Z.eq_dec (Z.min (ll + (ml + 4)) (oend - op s)) (ll + (ml + 4))) as [Hmin|Hcut].
        * rewrite Hmin in *. replace (Z.to_nat (ll + (ml + 4) - (ll + (ml + 4)))) with 0%nat in O' by lia. cbn [skipn] in O'.
          destruct (IH r4 ss' last' E4 rout1 rout' s' fuel Hp Happ Hend' Hb' Hs') as (s'' & Hrun & Hout).
          -- unfold byte in *; lia.
          -- unfold byte in *; lia.
          -- unfold byte in *; lia.
          -- exact O'.
          -- unfold byte in *; lia.
          -- unfold byte in *; lia.
          -- unfold byte in *; lia.
          -- unfold byte in *; lia.
          -- exists s''. rewrite Hrun.
             replace (op s' + total_len ss' last') with (op s + (ll + (ml + 4) + total_len ss' last')) in * by lia.
             split; [reflexivity | exact Hout].
        * assert (Hoe' : op s' = oend) by lia.
          destruct (run_at_end f r4 ss' last' s' fuel Hp E4 Hb' Hs') as (s'' & Hrun & Hsb); try (unfold byte in *; lia).
          exists s''. rewrite Hrun.
          replace (Z.min oend (op s + (ll + (ml + 4) + total_len ss' last'))) with oend by lia.
          split; [reflexivity|].
          eapply out_at_v_same_below; [|exact Hsb].
          rewrite HX. rewrite app_assoc.
          replace (Z.to_nat (op s + (ll + (ml + 4) + total_len ss' last') - oend))
            with (Z.to_nat (total_len ss' last') + Z.to_nat (ll + (ml + 4) - Z.min (ll + (ml + 4)) (oend - op s)))%nat by lia.
          rewrite skipn_app_exact; [rewrite Hoe' in O'; exact O'|].
          rewrite app_length, rev_length. rewrite total_len_last. unfold byte in *. lia.
      + (* the sequence was cut at oend: done *)
        destruct HS as (Ho' & O' & Hend2).
        exists s'.
        replace (Z.min oend (op s + (ll + (ml + 4) + total_len ss' last'))) with (op s') by lia.
        split; [reflexivity|].
        rewrite HX. rewrite app_assoc.
        replace (Z.to_nat (op s + (ll + (ml + 4) + total_len ss' last') - op s'))
          with (Z.to_nat (total_len ss' last') + Z.to_nat (ll + (ml + 4) - Z.min (ll + (ml + 4)) (oend - op s)))%nat by lia.
        rewrite skipn_app_exact; [exact O'|].
        rewrite app_length, rev_length. rewrite total_len_last. unfold byte in *. lia.
  Qed.

  (* ====================================================================== *)
  (* the fast loop (LZ4_FAST_DEC_LOOP), full-block decoding                   *)
  (* ====================================================================== *)
  Definition is_cont_any (out : dout) (P : dstate -> Prop) : Prop :=
    match out with Cont _ s' => P s' | _ => False end.
  Lemma is_cont_any_mono out (P Q : dstate -> Prop) :
    is_cont_any out P -> (forall s', P s' -> Q s') -> is_cont_any out Q.
  Proof. destruct out as [f s'|s'|s']; cbn [is_cont_any]; intros H HQ; try contradiction; auto. Qed.
  Lemma is_cont_is_any out P : is_cont out P -> is_cont_any out P.
  Proof. destruct out as [[|] s'|s'|s']; cbn [is_cont is_cont_any]; intros H; try contradiction; exact H. Qed.
  Lemma is_cont_f_any f out P : is_cont_f f out P -> is_cont_any out P.
  Proof. destruct out as [f' s'|s'|s']; cbn [is_cont_f is_cont_any]; intros H; try contradiction; apply H. Qed.

  Ltac hda :=
    lazymatch goal with
    | |- is_cont_any (if ?c then _ else _) _ => first [dec_true c | dec_false c]
    end.

  (* match copy of the fast loop: the match ends more than 64 bytes before oend *)
  Lemma fast_match_sim s offset length :
    1 <= offset -> lowPrefix - hroom <= op s - offset -> 4 <= length -> 0 <= op s ->
    op s + length < oend - 64 ->
    is_cont_any (fast_match partial dict oend lowPrefix rlow dictm dictSize s offset length)
                (vmatch_post s offset length).
  Proof.
    intros Ho Hmat Hlen Hop Hroom.
    unfold fast_match. cbv zeta.
    destruct (Z_lt_ge_dec (op s - offset) lowPrefix) as [Hext|Hin].
    - destruct hroom_ext as [Hed Hhr]; [lia|].
      assert (E1 : checkOffset dictSize && (op s - offset + dictSize <? lowPrefix) = false) by lia. rewrite E1. cbv beta iota.
      assert (E2 : is_extdict dict && (op s - offset <? lowPrefix) = true) by lia. rewrite E2. cbv beta iota.
      eapply is_cont_f_any. apply ext_match_sim; try assumption; lia.
    - hda. hda.
      destruct (offset <? 16) eqn:E16; cbv beta iota.
      + destruct (using_offset_lz (dm s) (op s) offset (op s + length) Ho) as [S R].
        cbn [is_cont_any]. unfold vmatch_post. cbn [ip op dm].
        split; [reflexivity|]. split; [reflexivity|]. split; [exact S|].
        apply lzrec_v; [exact R | lia | lia].
      + destruct (wild32_lz (dm s) (op s) offset (op s + length)) as [S R]; [lia|].
        cbn [is_cont_any]. unfold vmatch_post. cbn [ip op dm].
        split; [reflexivity|]. split; [reflexivity|]. split; [exact S|].
        apply lzrec_v; [exact R | lia | lia].
  Qed.

  (* from the offset field to the end of the match, fast loop *)
  Lemma fast_offset_sim (i o : Z) (m1 : mem) kf tok o1 o2 r3 ml r4 rout0 rout1 :
    0 <= tok < 256 -> bytes (o1 :: o2 :: r3) ->
    src_at srcm i (o1 :: o2 :: r3) -> 0 <= i -> i + Z.of_nat (length (o1 :: o2 :: r3)) <= iend ->
    read_len (tok mod 16) r3 = Some (ml, r4) -> (4 <= length r4)%nat ->
    out_at (vget m1) o rout0 -> Z.of_nat (length rout0) <= o - lowPrefix + hroom -> 0 <= o ->
    copy_match rout0 (Z.to_nat (o1 + 256 * o2)) (Z.to_nat (ml + 4)) = Some rout1 ->
    1 <= o1 + 256 * o2 ->
    (if partial then o + (ml + 4) <= oend - 12 else o + (ml + 4) <= oend - 5) ->
    is_cont_any (fast_offset partial dict srcm iend oend lowPrefix rlow dictm dictSize (mkD i o m1 kf) tok)
            (fun s' => ip s' = i + 2 + (Z.of_nat (length r3) - Z.of_nat (length r4)) /\ src_at srcm (ip s') r4 /\
                       (length r4 <= length r3)%nat /\
                       op s' = o + (ml + 4) /\ out_at (vget (dm s')) (op s') rout1).
  Proof.
    intros Htok Hb Hs Hi Hie Hrl Hr4 O Hlen Ho Hcm Hoff Hroom.
    unfold byte in *.
    destruct (nibbles tok Htok) as [_ Hnib].
    pose proof (readLE16_src _ _ _ _ Hs) as Hle.
    destruct (src_at_cons _ _ _ _ Hs) as [_ Hs1]. destruct (src_at_cons _ _ _ _ Hs1) as [_ Hs2].
    destruct (bytes_cons _ _ Hb) as [_ Hb1]. destruct (bytes_cons _ _ Hb1) as [_ Hb2].
    replace (i + 1 + 1) with (i + 2) in Hs2 by lia.
    cbn [length] in Hie.
    destruct (read_len_suffix _ _ _ _ _ Hnib Hrl Hb2 Hs2) as (Hl2 & Hml & Hnoext2 & Hs5 & Hb5). unfold byte in *.
    assert (Hml0 : 0 <= ml) by lia.
    assert (Hoffle : o1 + 256 * o2 <= Z.of_nat (length rout0)).
    { replace (Z.to_nat (ml + 4)) with (S (Z.to_nat (ml + 3))) in Hcm by lia.
      apply copy_match_off in Hcm. unfold byte in *. lia. }
    (* common end: a state that satisfies vmatch_post yields the post-condition *)
    assert (Hfin : forall p kf' s', ip s' = p ->
               vmatch_post (mkD p o m1 kf') (o1 + 256 * o2) (ml + 4) s' ->
               op s' = o + (ml + 4) /\ out_at (vget (dm s')) (op s') rout1).
    { intros p kf'' s' Hp (H1 & H2 & H3 & H4). cbn [ip op dm] in *. split; [exact H2|].
      rewrite H2. replace (ml + 4) with (Z.of_nat (Z.to_nat (ml + 4))) at 1 by lia.
      apply copy_match_out with (rout := rout0) (off := Z.to_nat (o1 + 256 * o2)).
      - lia.
      - exact Hcm.
      - eapply out_at_v_same_below; eauto.
      - replace (Z.of_nat (Z.to_nat (o1 + 256 * o2))) with (o1 + 256 * o2) by lia.
        replace (Z.of_nat (Z.to_nat (ml + 4))) with (ml + 4) by lia. exact H4. }
    unfold fast_offset. cbv zeta. cbn [ip op dm ok]. rewrite Hle.
    destruct (tok mod 16 =? ML_MASK) eqn:E15; cbv beta iota.
    - unfold read_len in Hrl. assert (E15' : (tok mod 16 =? 15) = true) by fin. rewrite E15' in Hrl.
      destruct (rvl_sim r3 ml r4 (i + 2) (iend - LASTLITERALS + 1) false (kf && rd_src iend i 2) Hrl Hs2) as (_ & _ & kf' & Hr); [fin | fin | fin |].
      rewrite Hr. cbv beta iota.
      replace (tok mod 16 + (ml - 15) + MINMATCH) with (ml + 4) by fin.
      destruct (o + (ml + 4) >=? oend - FASTLOOP_SAFE_DISTANCE) eqn:Efar; cbv beta iota.
      + eapply is_cont_any_mono.
        * apply is_cont_is_any. apply (safe_match_v (mkD (i + 2 + (Z.of_nat (length r3) - Z.of_nat (length r4))) o m1 kf') (o1 + 256 * o2) (ml + 4)); cbn [ip op dm]; try assumption; try lia.
        * intros s' Hv. pose proof Hv as (H1 & _). cbn [ip] in H1.
          destruct (Hfin _ _ _ H1 Hv) as [H2 H3]. repeat split; try assumption. rewrite H1. exact Hs5.
      + eapply is_cont_any_mono.
        * apply (fast_match_sim (mkD (i + 2 + (Z.of_nat (length r3) - Z.of_nat (length r4))) o m1 kf') (o1 + 256 * o2) (ml + 4)); cbn [ip op dm]; try assumption; try fin.
        * intros s' Hv. pose proof Hv as (H1 & _). cbn [ip] in H1.
          destruct (Hfin _ _ _ H1 Hv) as [H2 H3]. repeat split; try assumption. rewrite H1. exact Hs5.
    - assert (Hlt15 : tok mod 16 < 15) by fin.
      destruct (Hnoext2 Hlt15) as [Eml Er4].
      replace (tok mod 16 + MINMATCH) with (ml + 4) by fin.
      assert (Hs5' : src_at srcm (i + 2) r4).
      { rewrite Er4. exact Hs2. }
      assert (Hip' : i + 2 = i + 2 + (Z.of_nat (length r3) - Z.of_nat (length r4))) by (rewrite Er4; lia).
      destruct (o + (ml + 4) >=? oend - FASTLOOP_SAFE_DISTANCE) eqn:Efar; cbv beta iota.
      + eapply is_cont_any_mono.
        * apply is_cont_is_any. apply (safe_match_v (mkD (i + 2) o m1 (kf && rd_src iend i 2)) (o1 + 256 * o2) (ml + 4)); cbn [ip op dm]; try assumption; try lia.
        * intros s' Hv. pose proof Hv as (H1 & _). cbn [ip] in H1.
          destruct (Hfin _ _ _ H1 Hv) as [H2 H3]. repeat split; try assumption; try lia. rewrite H1. exact Hs5'.
      + destruct ((is_prefix64k dict || (o - (o1 + 256 * o2) >=? lowPrefix)) && (o1 + 256 * o2 >=? 8)) eqn:E18; cbv beta iota.
        * (* 18-byte copy *)
          assert (Hmatge : lowPrefix <= o - (o1 + 256 * o2)).
          { destruct (is_prefix64k dict) eqn:E64; [pose proof (hroom_p64 E64); lia | fin]. }
          destruct (copy18_lz m1 o (o1 + 256 * o2)) as [S R]; [lia|].
          cbn [is_cont_any ip op dm].
          assert (Hv : vmatch_post (mkD (i + 2) o m1 kf) (o1 + 256 * o2) (ml + 4)
                         (mkD (i + 2) (o + (ml + 4)) (copy18 m1 o (o - (o1 + 256 * o2))) kf)).
          { unfold vmatch_post. cbn [ip op dm]. split; [reflexivity|]. split; [reflexivity|]. split; [exact S|].
            apply lzrec_v; [|lia|lia]. eapply lzrec_weaken; [exact R | lia | fin]. }
          destruct (Hfin (i + 2) kf (mkD (i + 2) (o + (ml + 4)) (copy18 m1 o (o - (o1 + 256 * o2))) kf) eq_refl Hv) as [H2 H3]. cbn [op dm] in H2, H3.
          repeat split; try assumption; try lia.
        * eapply is_cont_any_mono.
          -- apply (fast_match_sim (mkD (i + 2) o m1 (kf && rd_src iend i 2)) (o1 + 256 * o2) (ml + 4)); cbn [ip op dm]; try assumption; try fin.
          -- intros s' Hv. pose proof Hv as (H1 & _). cbn [ip] in H1.
             destruct (Hfin _ _ _ H1 Hv) as [H2 H3]. repeat split; try assumption; try lia. rewrite H1. exact Hs5'.
  Qed.

  Lemma wild32_in_lits m p o lits :
    src_at srcm p lits ->
    forall j, (j < length lits)%nat ->
      get (wild32_in srcm p m o (o + Z.of_nat (length lits))) (o + Z.of_nat j) = nth j lits 0.
  Proof.
    intros Hs j Hj. unfold wild32_in. apply blit_lits; [exact Hs| |exact Hj].
    pose proof (wild_iters_cover 32 o (o + Z.of_nat (length lits))). lia.
  Qed.
  Lemma wild32_in_same_below m p o e : same_below m (wild32_in srcm p m o e) o.
  Proof. unfold wild32_in. apply blit_same_below. Qed.

  (* ---------- one iteration of the fast loop on a complete sequence ---------- *)
  Lemma fast_top_seq_sim s tok r ll r1 lits o1 o2 r3 ml r4 rout rout1 :
    bytes (tok :: r) -> src_at srcm (ip s) (tok :: r) -> 0 <= ip s ->
    ip s + Z.of_nat (length (tok :: r)) <= iend ->
    read_len (tok / 16) r = Some (ll, r1) -> take (Z.to_nat ll) r1 = Some (lits, o1 :: o2 :: r3) ->
    read_len (tok mod 16) r3 = Some (ml, r4) -> (6 <= length r4)%nat ->
    out_at (vget (dm s)) (op s) rout -> Z.of_nat (length rout) <= op s - lowPrefix + hroom -> 0 <= op s ->
    apply_seq rout (mkSeq lits (o1 + 256 * o2) (ml + 4)) = Some rout1 ->
    op s + ll <= oend - 12 ->
    (if partial then op s + ll + (ml + 4) <= oend - 12 else op s + ll + (ml + 4) <= oend - 5) ->
    is_cont_any (fast_top partial dict srcm iend oend lowPrefix rlow dictm dictSize s)
            (fun s' => ip s' + Z.of_nat (length r4) = ip s + Z.of_nat (length (tok :: r)) /\
                       src_at srcm (ip s') r4 /\ bytes r4 /\
                       op s' = op s + ll + (ml + 4) /\ out_at (vget (dm s')) (op s') rout1).
  Proof.
    intros Hb Hs Hip Hie Hrl1 Htk Hrl2 Hr4 O Hlen Hop Happ Hroom1 Hroom2.
    unfold byte in *.
    destruct (bytes_cons _ _ Hb) as [Htok Hbr].
    destruct (src_at_cons _ _ _ _ Hs) as [Htokm Hsr].
    destruct (nibbles tok Htok) as [Hn1 Hn2].
    cbn [length] in Hie.
    destruct (read_len_suffix _ _ _ _ _ Hn1 Hrl1 Hbr Hsr) as (Hl1 & Hll & Hnoext & Hs1 & Hb1).
    unfold byte in *.
    set (p1 := ip s + 1 + (Z.of_nat (length r) - Z.of_nat (length r1))) in *.
    destruct (take_spec _ _ _ _ Htk) as [Er1 Hlits]. unfold byte in *.
    assert (Ell : ll = Z.of_nat (length lits)) by lia.
    rewrite Er1 in Hs1, Hb1.
    assert (Hlr1 : length r1 = (length lits + S (S (length r3)))%nat).
    { rewrite Er1, app_length. reflexivity. }
    destruct (bytes_app _ _ Hb1) as [_ Hb2].
    destruct (bytes_cons _ _ Hb2) as [Ho1 Hb3]. destruct (bytes_cons _ _ Hb3) as [Ho2 Hb4].
    unfold apply_seq in Happ. cbn [s_lits s_off s_mlen] in Happ.
    destruct (off_ok (o1 + 256 * o2) && (4 <=? ml + 4)) eqn:Eok; [|discriminate].
    assert (Hoff : 1 <= o1 + 256 * o2) by (unfold off_ok in Eok; lia).
    destruct (src_at_app _ _ _ _ Hs1) as [Hsl Hs2].
    destruct (src_at_cons _ _ _ _ Hs2) as [_ Hs3]. destruct (src_at_cons _ _ _ _ Hs3) as [_ Hs4].
    destruct (read_len_suffix _ _ _ _ _ Hn2 Hrl2 Hb4 Hs4) as (Hl2 & Hml & Hnoext2 & Hs5 & Hb5).
    assert (Hcm : copy_match (rev lits ++ rout) (Z.to_nat (o1 + 256 * o2)) (Z.to_nat (ml + 4)) = Some rout1) by exact Happ.
    (* the tail shared by the two literal-copy variants of the fast loop *)
    assert (Hfo : forall m1 kf, same_below (dm s) m1 (op s) ->
               (forall j, (j < length lits)%nat -> get m1 (op s + Z.of_nat j) = nth j lits 0) ->
               is_cont_any (fast_offset partial dict srcm iend oend lowPrefix rlow dictm dictSize
                              (mkD (p1 + Z.of_nat (length lits)) (op s + Z.of_nat (length lits)) m1 kf) tok)
                 (fun s' => ip s' + Z.of_nat (length r4) = ip s + Z.of_nat (S (length r)) /\
                            src_at srcm (ip s') r4 /\ bytes r4 /\
                            op s' = op s + ll + (ml + 4) /\ out_at (vget (dm s')) (op s') rout1)).
    { intros m1 kf S1 L1.
      eapply is_cont_any_mono.
      - apply (fast_offset_sim (p1 + Z.of_nat (length lits)) (op s + Z.of_nat (length lits)) m1 kf tok o1 o2 r3 ml r4 (rev lits ++ rout) rout1);
          unfold byte in *; try assumption; try lia.
        + cbn [length]. unfold p1. lia.
        + apply lits_out_v with (m := dm s); assumption.
        + rewrite app_length, rev_length. lia.
        + destruct partial; lia.
      - cbn beta. unfold byte in *. intros s' (H1 & H2 & H3 & H4 & H5).
        split; [unfold p1 in H1; lia|]. split; [exact H2|]. split; [exact Hb5|]. split; [lia | exact H5]. }
    (* the safe_lit exits of the fast loop *)
    assert (Hsl' : forall kf,
               is_cont_any (safe_lit partial dict srcm iend oend lowPrefix rlow dictm dictSize (mkD p1 (op s) (dm s) kf) tok (Z.of_nat (length lits)))
                 (fun s' => ip s' + Z.of_nat (length r4) = ip s + Z.of_nat (S (length r)) /\
                            src_at srcm (ip s') r4 /\ bytes r4 /\
                            op s' = op s + ll + (ml + 4) /\ out_at (vget (dm s')) (op s') rout1)).
    { intros kf. eapply is_cont_any_mono.
      - apply is_cont_is_any.
        apply (safe_lit_mid_sim (mkD p1 (op s) (dm s) kf) tok lits o1 o2 r3 ml r4 rout rout1); cbn [ip op dm]; unfold byte in *; try assumption; try lia.
        + rewrite app_length. cbn [length]. unfold p1. lia.
        + destruct partial; lia.
      - cbn [ip op dm]. unfold byte in *. intros s' (H1 & H2 & H3 & H4 & H5).
        split; [unfold p1 in H1; lia|]. split; [exact H2|]. split; [exact Hb5|]. split; [lia | exact H5]. }
    unfold fast_top. cbv zeta. rewrite Htokm. cbn [length].
    destruct (tok / 16 =? RUN_MASK) eqn:E15; cbv beta iota.
    - unfold read_len in Hrl1. assert (E15' : (tok / 16 =? 15) = true) by fin. rewrite E15' in Hrl1.
      destruct (rvl_sim r ll r1 (ip s + 1) (iend - RUN_MASK) true (ok s && rd_src iend (ip s) 1) Hrl1 Hsr) as (_ & _ & kf' & Hr); [fin | fin | fin |].
      rewrite Hr. cbv beta iota. unfold byte. fold p1.
      replace (tok / 16 + (ll - 15)) with (Z.of_nat (length lits)) by fin.
      destruct ((op s + Z.of_nat (length lits) >? oend - 32) || (p1 + Z.of_nat (length lits) >? iend - 32)) eqn:Enear; cbv beta iota.
      + apply Hsl'.
      + apply Hfo; [apply wild32_in_same_below | apply wild32_in_lits; exact Hsl].
    - assert (Hlt15 : tok / 16 < 15) by fin.
      destruct (Hnoext Hlt15) as [Ell' Er].
      assert (Ep1 : p1 = ip s + 1) by (unfold p1; rewrite Er; lia).
      replace (tok / 16) with (Z.of_nat (length lits)) by lia.
      rewrite <- Ep1.
      destruct (p1 <=? iend - (16 + 1)) eqn:E17; cbv beta iota.
      + apply Hfo; [apply blit_same_below | apply blit_lits; [exact Hsl | lia]].
      + apply Hsl'.
  Qed.

  (* the final literal run: [safe_lit] on a state whose literals end the input *)
  Lemma safe_lit_last_sim p1 o m kf tok lits rout :
    partial = false -> src_at srcm p1 lits -> p1 + Z.of_nat (length lits) = iend ->
    out_at (vget m) o rout -> 0 <= o -> o + Z.of_nat (length lits) <= oend ->
    is_done (safe_lit partial dict srcm iend oend lowPrefix rlow dictm dictSize (mkD p1 o m kf) tok (Z.of_nat (length lits)))
            (fun s' => op s' = o + Z.of_nat (length lits) /\ out_at (vget (dm s')) (op s') (rev lits ++ rout)).
  Proof.
    intros Hp Hs1 Ep1 O Hop Hroom.
    unfold safe_lit. cbv zeta. cbn [ip op dm]. rewrite Hp. cbn [negb andb orb].
    hd. hd.
    cbn [is_done op dm]. split; [lia|].
    rewrite Nat2Z.id.
    apply lits_out_v with (m := m); try assumption.
    - apply blit_same_below.
    - apply blit_lits; [exact Hs1 | lia].
  Qed.

  Lemma fast_top_last_sim s tok r ll r1 lits rout :
    partial = false ->
    bytes (tok :: r) -> src_at srcm (ip s) (tok :: r) -> 0 <= ip s ->
    ip s + Z.of_nat (length (tok :: r)) = iend ->
    read_len (tok / 16) r = Some (ll, r1) -> take (Z.to_nat ll) r1 = Some (lits, []) ->
    out_at (vget (dm s)) (op s) rout -> 0 <= op s -> op s + ll <= oend ->
    is_done (fast_top partial dict srcm iend oend lowPrefix rlow dictm dictSize s)
            (fun s' => op s' = op s + ll /\ out_at (vget (dm s')) (op s') (rev lits ++ rout)).
  Proof.
    intros Hp Hb Hs Hip Hie Hrl1 Htk O Hop Hroom.
    unfold byte in *.
    destruct (bytes_cons _ _ Hb) as [Htok Hbr].
    destruct (src_at_cons _ _ _ _ Hs) as [Htokm Hsr].
    destruct (nibbles tok Htok) as [Hn1 Hn2].
    cbn [length] in Hie.
    destruct (read_len_suffix _ _ _ _ _ Hn1 Hrl1 Hbr Hsr) as (Hl1 & Hll & Hnoext & Hs1 & Hb1).
    unfold byte in *.
    set (p1 := ip s + 1 + (Z.of_nat (length r) - Z.of_nat (length r1))) in *.
    destruct (take_spec _ _ _ _ Htk) as [Er1 Hlits]. unfold byte in *.
    rewrite app_nil_r in Er1.
    assert (Ell : ll = Z.of_nat (length lits)) by lia.
    assert (Hlr1 : length r1 = length lits) by (rewrite Er1; reflexivity).
    rewrite Er1 in Hs1.
    assert (Ep1 : p1 + Z.of_nat (length lits) = iend) by (unfold p1; lia).
    assert (Hlit : forall kf,
      is_done (safe_lit partial dict srcm iend oend lowPrefix rlow dictm dictSize (mkD p1 (op s) (dm s) kf) tok (Z.of_nat (length lits)))
              (fun s' => op s' = op s + ll /\ out_at (vget (dm s')) (op s') (rev lits ++ rout))).
    { intros kf. rewrite Ell. apply safe_lit_last_sim; try assumption; lia. }
    unfold fast_top. cbv zeta. rewrite Htokm.
    destruct (tok / 16 =? RUN_MASK) eqn:E15; cbv beta iota.
    - unfold read_len in Hrl1. assert (E15' : (tok / 16 =? 15) = true) by fin. rewrite E15' in Hrl1.
      destruct (rvl_sim r ll r1 (ip s + 1) (iend - RUN_MASK) true (ok s && rd_src iend (ip s) 1) Hrl1 Hsr) as (_ & _ & kf' & Hr); [fin | fin | fin |].
      rewrite Hr. cbv beta iota. unfold byte. fold p1.
      replace (tok / 16 + (ll - 15)) with (Z.of_nat (length lits)) by fin.
      assert (En : (op s + Z.of_nat (length lits) >? oend - 32) || (p1 + Z.of_nat (length lits) >? iend - 32) = true) by lia.
      rewrite En. apply Hlit.
    - assert (Hlt15 : tok / 16 < 15) by fin.
      destruct (Hnoext Hlt15) as [Ell' Er].
      assert (Ep1' : p1 = ip s + 1) by (unfold p1; rewrite Er; lia).
      rewrite <- Ep1'. replace (tok / 16) with (Z.of_nat (length lits)) by lia.
      assert (E17 : (p1 <=? iend - (16 + 1)) = false) by lia. rewrite E17.
      apply Hlit.
  Qed.

  (* ---------- the decoding loop started in the fast loop ---------- *)
  Lemma run_sim_fast : forall f (bs : list Z) ss (last : list Z), parse_seqs f bs = Some (ss, last) ->
    forall rout rout' s fuel (fast : bool),
    partial = false ->
    apply_seqs rout ss = Some rout' -> end_ok ss last = true ->
    bytes bs -> src_at srcm (ip s) bs -> 0 <= ip s -> ip s + Z.of_nat (length bs) = iend ->
    out_at (vget (dm s)) (op s) rout -> Z.of_nat (length rout) <= op s - lowPrefix + hroom -> 0 <= op s ->
    op s + total_len ss last <= oend -> (length bs < fuel)%nat ->
    exists s', run partial dict srcm iend oend lowPrefix rlow dictm dictSize fuel fast s
               = (op s + total_len ss last, s')
               /\ out_at (vget (dm s')) (op s + total_len ss last) (rev last ++ rout').
  Proof.
    induction f as [|f IH]; intros bs ss last H rout rout' s fuel fast Hp Happ Hend Hb Hs Hip Hie O Hlen Hop Hroom Hfuel.
    { discriminate. }
    destruct fast.
    2:{ eapply run_sim; eauto. }
    rewrite parse_seqs_S in H.
    destruct bs as [|tok r]; [discriminate|].
    destruct (read_len (tok / 16) r) as [[ll r1]|] eqn:E1; [|discriminate].
    destruct (take (Z.to_nat ll) r1) as [[lits r2]|] eqn:E2; [|discriminate].
    destruct fuel as [|fuel]; [lia|].
    cbn [run].
    destruct r2 as [|o1 [|o2 r3]]; [| discriminate |].
    - assert (Hss : ss = []) by congruence. assert (Hla : lits = last) by congruence. clear H. subst ss last.
      cbn [apply_seqs] in Happ. assert (Hr' : rout = rout') by congruence. subst rout'.
      cbn [total_len fold_right] in *.
      assert (Ell : ll = Z.of_nat (length lits)).
      { destruct (take_spec _ _ _ _ E2) as [_ Hl]. destruct (bytes_cons _ _ Hb) as [Htok Hbr].
        destruct (nibbles tok Htok) as [Hn1 _].
        destruct (src_at_cons _ _ _ _ Hs) as [_ Hsr].
        destruct (read_len_suffix _ _ _ _ _ Hn1 E1 Hbr Hsr) as (_ & Hll & _). unfold byte in *. lia. }
      pose proof (fast_top_last_sim s tok r ll r1 lits rout Hp Hb Hs Hip Hie E1 E2 O Hop) as HL.
      destruct (fast_top partial dict srcm iend oend lowPrefix rlow dictm dictSize s) as [f' s'|s'|s'];
        cbn [is_done] in HL; try (exfalso; apply HL; lia).
      destruct HL as [H1 H2]; [lia|].
      exists s'. rewrite H1, Ell. split; [reflexivity|]. rewrite <- Ell, <- H1. exact H2.
    - destruct (read_len (tok mod 16) r3) as [[ml r4]|] eqn:E3; [|discriminate].
      destruct (parse_seqs f r4) as [[ss' last']|] eqn:E4; [|discriminate].
      assert (Hss : mkSeq lits (o1 + 256 * o2) (ml + 4) :: ss' = ss) by congruence.
      assert (Hlast : last' = last) by congruence. clear H. subst ss last.
      cbn [apply_seqs] in Happ.
      destruct (apply_seq rout (mkSeq lits (o1 + 256 * o2) (ml + 4))) as [rout1|] eqn:Eapp; [|discriminate].
      pose proof (apply_seqs_mlen _ _ _ Happ) as Fml.
      assert (Hml0 : 0 <= ml + 4).
      { unfold apply_seq in Eapp. cbn [s_off s_mlen] in Eapp. destruct (off_ok (o1 + 256 * o2) && (4 <=? ml + 4)) eqn:E; [lia|discriminate]. }
      destruct (end_room ss' (mkSeq lits (o1 + 256 * o2) (ml + 4)) last' Hend) as (H5 & H12 & Hend').
      { constructor; [cbn [s_mlen]; lia | exact Fml]. }
      cbn [s_mlen] in H12.
      pose proof (total_len_ge ss' last' Fml) as Htl.
      pose proof (parse_seqs_len _ _ _ _ E4) as Hr4.
      cbn [total_len fold_right s_lits s_mlen] in Hroom. fold (total_len ss' last') in Hroom.
      assert (Ell : ll = Z.of_nat (length lits)).
      { destruct (take_spec _ _ _ _ E2) as [_ Hl]. destruct (bytes_cons _ _ Hb) as [Htok Hbr].
        destruct (nibbles tok Htok) as [Hn1 _].
        destruct (src_at_cons _ _ _ _ Hs) as [_ Hsr].
        destruct (read_len_suffix _ _ _ _ _ Hn1 E1 Hbr Hsr) as (_ & Hll & _). unfold byte in *. lia. }
      assert (Hlen1 : length rout1 = (length rout + length lits + Z.to_nat (ml + 4))%nat).
      { unfold apply_seq in Eapp. cbn [s_lits s_off s_mlen] in Eapp.
        destruct (off_ok (o1 + 256 * o2) && (4 <=? ml + 4)); [|discriminate].
        apply copy_match_length in Eapp. rewrite app_length, rev_length in Eapp. unfold byte in *. lia. }
      assert (HS : is_cont_any (fast_top partial dict srcm iend oend lowPrefix rlow dictm dictSize s)
            (fun s' => ip s' + Z.of_nat (length r4) = ip s + Z.of_nat (length (tok :: r)) /\
                       src_at srcm (ip s') r4 /\ bytes r4 /\
                       op s' = op s + ll + (ml + 4) /\ out_at (vget (dm s')) (op s') rout1)).
      { apply (fast_top_seq_sim s tok r ll r1 lits o1 o2 r3 ml r4 rout rout1); try assumption; unfold byte in *; try lia; try (rewrite Hp; lia). }
      destruct (fast_top partial dict srcm iend oend lowPrefix rlow dictm dictSize s) as [f' s'|s'|s'];
        cbn [is_cont_any] in HS; try (exfalso; exact HS).
      destruct HS as (Hi' & Hs' & Hb' & Ho' & O').
      assert (Hshr : (length r4 + 2 <= length r)%nat).
      { pose proof (read_len_shorter _ _ _ _ E1). pose proof (read_len_shorter _ _ _ _ E3).
        destruct (take_spec _ _ _ _ E2) as [Er1 _]. unfold byte in *.
        assert (length r1 = (length lits + S (S (length r3)))%nat) by (rewrite Er1, app_length; reflexivity). lia. }
      cbn [length] in Hi', Hie, Hfuel.
      destruct (IH r4 ss' last' E4 rout1 rout' s' fuel f' Hp Happ Hend' Hb' Hs') as (s'' & Hrun & Hout).
      + unfold byte in *; lia.
      + unfold byte in *; lia.
      + exact O'.
      + unfold byte in *; lia.
      + unfold byte in *; lia.
      + unfold byte in *; lia.
      + unfold byte in *; lia.
      + exists s''. rewrite Hrun. split.
        * f_equal. cbn [total_len fold_right s_lits s_mlen]. fold (total_len ss' last'). lia.
        * cbn [total_len fold_right s_lits s_mlen]. fold (total_len ss' last').
          replace (op s + (Z.of_nat (length lits) + (ml + 4) + total_len ss' last')) with (op s' + total_len ss' last') by lia.
          exact Hout.
  Qed.

  (* ====================================================================== *)
  (* the fast loop in partial mode                                            *)
  (* ====================================================================== *)

  (* the image after a possibly cut match, in terms of the specification's complete copy *)
  Lemma cut_match_out (m1 m' : mem) o off mlen n (rout0 rout1 : list Z) :
    out_at (vget m1) o rout0 -> same_below m1 m' o ->
    copy_match rout0 (Z.to_nat off) (Z.to_nat mlen) = Some rout1 -> 1 <= off ->
    0 <= n <= mlen -> frec (vget m') off o (o + n) ->
    out_at (vget m') (o + n) (skipn (Z.to_nat (mlen - n)) rout1).
  Proof.
    intros O S Hcm Hoff Hn R.
    replace (Z.to_nat mlen) with (Z.to_nat n + Z.to_nat (mlen - n))%nat in Hcm by lia.
    destruct (copy_match_prefix _ _ _ _ _ Hcm) as (rc & Hc1 & Hc2).
    apply copy_match_skipn in Hc2. unfold byte in *. rewrite Hc2.
    replace n with (Z.of_nat (Z.to_nat n)) at 1 by lia.
    apply copy_match_out with (rout := rout0) (off := Z.to_nat off).
    - lia.
    - exact Hc1.
    - eapply out_at_v_same_below; eauto.
    - replace (Z.of_nat (Z.to_nat off)) with off by lia.
      replace (Z.of_nat (Z.to_nat n)) with n by lia. exact R.
  Qed.

  (* outcome of a fast-loop step in partial mode: Cont in either loop (and then the fast loop's
     distance invariant), or Done *)
  Definition is_cod_any (out : dout) (P : bool -> dstate -> Prop) : Prop :=
    match out with
    | Cont f s' => P false s' /\ (f = true -> op s' <= oend - 64)
    | Done s' => P true s'
    | Err _ => False
    end.
  Lemma is_cod_any_mono out (P Q : bool -> dstate -> Prop) :
    is_cod_any out P -> (forall d s', P d s' -> Q d s') -> is_cod_any out Q.
  Proof. destruct out as [f s'|s'|s']; cbn [is_cod_any]; intros H HQ; try contradiction; [destruct H; split; auto | auto]. Qed.
  Lemma is_cod_is_any out P : is_cont_or_done out P -> is_cod_any out P.
  Proof.
    destruct out as [[|] s'|s'|s']; cbn [is_cont_or_done is_cod_any]; intros H; try contradiction; try exact H.
    split; [exact H | discriminate].
  Qed.

  (* from the offset field to the end of the (possibly cut) match, fast loop, partial mode *)
  Lemma fast_offset_part (i o : Z) (m1 : mem) kf tok o1 o2 r3 ml r4 rout0 rout1 :
    partial = true ->
    0 <= tok < 256 -> bytes (o1 :: o2 :: r3) ->
    src_at srcm i (o1 :: o2 :: r3) -> 0 <= i -> i + Z.of_nat (length (o1 :: o2 :: r3)) <= iend ->
    read_len (tok mod 16) r3 = Some (ml, r4) -> (4 <= length r4)%nat ->
    out_at (vget m1) o rout0 -> Z.of_nat (length rout0) <= o - lowPrefix + hroom -> 0 <= o -> o <= oend ->
    copy_match rout0 (Z.to_nat (o1 + 256 * o2)) (Z.to_nat (ml + 4)) = Some rout1 ->
    1 <= o1 + 256 * o2 ->
    is_cod_any (fast_offset partial dict srcm iend oend lowPrefix rlow dictm dictSize (mkD i o m1 kf) tok)
      (part_post o (ml + 4) rout1
         (fun s' => ip s' = i + 2 + (Z.of_nat (length r3) - Z.of_nat (length r4)) /\ src_at srcm (ip s') r4)).
  Proof.
    intros Hp Htok Hb Hs Hi Hie Hrl Hr4 O Hlen Ho Hoe Hcm Hoff.
    unfold byte in *.
    destruct (nibbles tok Htok) as [_ Hnib].
    pose proof (readLE16_src _ _ _ _ Hs) as Hle.
    destruct (src_at_cons _ _ _ _ Hs) as [_ Hs1]. destruct (src_at_cons _ _ _ _ Hs1) as [_ Hs2].
    destruct (bytes_cons _ _ Hb) as [_ Hb1]. destruct (bytes_cons _ _ Hb1) as [_ Hb2].
    replace (i + 1 + 1) with (i + 2) in Hs2 by lia.
    cbn [length] in Hie.
    destruct (read_len_suffix _ _ _ _ _ Hnib Hrl Hb2 Hs2) as (Hl2 & Hml & Hnoext2 & Hs5 & Hb5). unfold byte in *.
    assert (Hml0 : 0 <= ml) by lia.
    assert (Hoffle : o1 + 256 * o2 <= Z.of_nat (length rout0)).
    { replace (Z.to_nat (ml + 4)) with (S (Z.to_nat (ml + 3))) in Hcm by lia.
      apply copy_match_off in Hcm. unfold byte in *. lia. }
    pose proof hroom_range as Hhr.
    (* a complete copy *)
    assert (Hfull : forall p kf' s', ip s' = p -> src_at srcm p r4 -> p = i + 2 + (Z.of_nat (length r3) - Z.of_nat (length r4)) ->
               vmatch_post (mkD p o m1 kf') (o1 + 256 * o2) (ml + 4) s' -> o + (ml + 4) <= oend ->
               part_post o (ml + 4) rout1
                 (fun s' => ip s' = i + 2 + (Z.of_nat (length r3) - Z.of_nat (length r4)) /\ src_at srcm (ip s') r4) false s').
    { intros p kf'' s' Hpp Hsp Hpe (H1 & H2 & H3 & H4) Hfit. cbn [ip op dm] in *. unfold part_post.
      replace (Z.min (ml + 4) (oend - o)) with (ml + 4) by lia.
      split; [exact H2|]. split.
      - rewrite H2. apply (cut_match_out m1 (dm s') o (o1 + 256 * o2) (ml + 4) (ml + 4) rout0 rout1); try assumption; lia.
      - split; [left; reflexivity|]. split; [lia|]. rewrite Hpp. exact Hsp. }
    (* the safe_match exits (partial) *)
    assert (Hsm : forall p kf', src_at srcm p r4 -> p = i + 2 + (Z.of_nat (length r3) - Z.of_nat (length r4)) ->
               is_cod_any (safe_match partial dict oend lowPrefix rlow dictm dictSize (mkD p o m1 kf') (o1 + 256 * o2) (ml + 4))
                 (part_post o (ml + 4) rout1
                   (fun s' => ip s' = i + 2 + (Z.of_nat (length r3) - Z.of_nat (length r4)) /\ src_at srcm (ip s') r4))).
    { intros p kf' Hsp Hpe. apply is_cod_is_any. eapply is_cod_mono.
      - apply (safe_match_part (mkD p o m1 kf') (o1 + 256 * o2) (ml + 4)); cbn [ip op dm]; try assumption; lia.
      - cbn [ip op dm]. intros done s' (H1 & H2 & H3 & H4 & H5). unfold part_post.
        split; [exact H2|]. split.
        + rewrite H2. apply (cut_match_out m1 (dm s') o (o1 + 256 * o2) (ml + 4) _ rout0 rout1); try assumption; lia.
        + destruct done; [exact H5|]. split; [lia|]. split; [lia|]. rewrite H1. exact Hsp. }
    unfold fast_offset. cbv zeta. cbn [ip op dm ok]. rewrite Hle.
    destruct (tok mod 16 =? ML_MASK) eqn:E15; cbv beta iota.
    - unfold read_len in Hrl. assert (E15' : (tok mod 16 =? 15) = true) by fin. rewrite E15' in Hrl.
      destruct (rvl_sim r3 ml r4 (i + 2) (iend - LASTLITERALS + 1) false (kf && rd_src iend i 2) Hrl Hs2) as (_ & _ & kf' & Hr); [fin | fin | fin |].
      rewrite Hr. cbv beta iota. unfold byte.
      replace (tok mod 16 + (ml - 15) + MINMATCH) with (ml + 4) by fin.
      destruct (o + (ml + 4) >=? oend - FASTLOOP_SAFE_DISTANCE) eqn:Efar; cbv beta iota.
      + apply Hsm; [exact Hs5 | reflexivity].
      + pose proof (fast_match_sim (mkD (i + 2 + (Z.of_nat (length r3) - Z.of_nat (length r4))) o m1 kf') (o1 + 256 * o2) (ml + 4)) as HF.
        cbn [ip op dm] in HF.
        destruct (fast_match partial dict oend lowPrefix rlow dictm dictSize
                    (mkD (i + 2 + (Z.of_nat (length r3) - Z.of_nat (length r4))) o m1 kf') (o1 + 256 * o2) (ml + 4)) as [f' s'|s'|s'];
          cbn [is_cont_any is_cod_any] in *; try (exfalso; apply HF; fin).
        assert (Hv := HF ltac:(lia) ltac:(lia) ltac:(lia) ltac:(lia) ltac:(fin)).
        pose proof Hv as (H1 & H2 & _). cbn [ip op] in H1, H2.
        split; [|intros _; fin].
        apply (Hfull _ kf' s' H1 Hs5 eq_refl Hv). fin.
    - assert (Hlt15 : tok mod 16 < 15) by fin.
      destruct (Hnoext2 Hlt15) as [Eml Er4].
      replace (tok mod 16 + MINMATCH) with (ml + 4) by fin.
      assert (Hs5' : src_at srcm (i + 2) r4) by (rewrite Er4; exact Hs2).
      assert (Hip' : i + 2 = i + 2 + (Z.of_nat (length r3) - Z.of_nat (length r4))) by (rewrite Er4; lia).
      destruct (o + (ml + 4) >=? oend - FASTLOOP_SAFE_DISTANCE) eqn:Efar; cbv beta iota.
      + apply Hsm; assumption.
      + destruct ((is_prefix64k dict || (o - (o1 + 256 * o2) >=? lowPrefix)) && (o1 + 256 * o2 >=? 8)) eqn:E18; cbv beta iota.
        * assert (Hmatge : lowPrefix <= o - (o1 + 256 * o2)).
          { destruct (is_prefix64k dict) eqn:E64; [pose proof (hroom_p64 E64); lia | fin]. }
          destruct (copy18_lz m1 o (o1 + 256 * o2)) as [S R]; [lia|].
          cbn [is_cod_any ip op dm].
          assert (Hv : vmatch_post (mkD (i + 2) o m1 kf) (o1 + 256 * o2) (ml + 4)
                         (mkD (i + 2) (o + (ml + 4)) (copy18 m1 o (o - (o1 + 256 * o2))) (kf && rd_src iend i 2 && wr oend o 18 && rd_dst oend rlow (o - (o1 + 256 * o2)) 18))).
          { unfold vmatch_post. cbn [ip op dm]. split; [reflexivity|]. split; [reflexivity|]. split; [exact S|].
            apply lzrec_v; [|lia|lia]. eapply lzrec_weaken; [exact R | lia | fin]. }
          split; [|intros _; fin].
          refine (Hfull (i + 2) kf _ _ Hs5' Hip' Hv _); [reflexivity | fin].
        * pose proof (fast_match_sim (mkD (i + 2) o m1 (kf && rd_src iend i 2)) (o1 + 256 * o2) (ml + 4)) as HF.
          cbn [ip op dm] in HF.
          destruct (fast_match partial dict oend lowPrefix rlow dictm dictSize
                      (mkD (i + 2) o m1 (kf && rd_src iend i 2)) (o1 + 256 * o2) (ml + 4)) as [f' s'|s'|s'];
            cbn [is_cont_any is_cod_any] in *; try (exfalso; apply HF; fin).
          assert (Hv := HF ltac:(lia) ltac:(lia) ltac:(lia) ltac:(lia) ltac:(fin)).
          pose proof Hv as (H1 & H2 & _). cbn [ip op] in H1, H2.
          split; [|intros _; fin].
          apply (Hfull _ _ s' H1 Hs5' Hip' Hv). fin.
  Qed.

  (* one iteration of the fast loop in partial mode on a sequence that is complete in the input *)
  Lemma fast_top_seq_part s tok r ll r1 lits o1 o2 r3 ml r4 rout rout1 :
    partial = true ->
    bytes (tok :: r) -> src_at srcm (ip s) (tok :: r) -> 0 <= ip s ->
    ip s + Z.of_nat (length (tok :: r)) <= iend ->
    read_len (tok / 16) r = Some (ll, r1) -> take (Z.to_nat ll) r1 = Some (lits, o1 :: o2 :: r3) ->
    read_len (tok mod 16) r3 = Some (ml, r4) -> (6 <= length r4)%nat ->
    out_at (vget (dm s)) (op s) rout -> Z.of_nat (length rout) <= op s - lowPrefix + hroom -> 0 <= op s -> op s <= oend - 64 ->
    apply_seq rout (mkSeq lits (o1 + 256 * o2) (ml + 4)) = Some rout1 ->
    is_cod_any (fast_top partial dict srcm iend oend lowPrefix rlow dictm dictSize s)
      (part_post (op s) (ll + (ml + 4)) rout1
         (fun s' => ip s' + Z.of_nat (length r4) = ip s + Z.of_nat (length (tok :: r)) /\
                    src_at srcm (ip s') r4 /\ bytes r4)).
  Proof.
    intros Hp Hb Hs Hip Hie Hrl1 Htk Hrl2 Hr4 O Hlen Hop Hoe Happ.
    unfold byte in *.
    destruct (bytes_cons _ _ Hb) as [Htok Hbr].
    destruct (src_at_cons _ _ _ _ Hs) as [Htokm Hsr].
    destruct (nibbles tok Htok) as [Hn1 Hn2].
    cbn [length] in Hie.
    destruct (read_len_suffix _ _ _ _ _ Hn1 Hrl1 Hbr Hsr) as (Hl1 & Hll & Hnoext & Hs1 & Hb1).
    unfold byte in *.
    set (p1 := ip s + 1 + (Z.of_nat (length r) - Z.of_nat (length r1))) in *.
    destruct (take_spec _ _ _ _ Htk) as [Er1 Hlits]. unfold byte in *.
    assert (Ell : ll = Z.of_nat (length lits)) by lia.
    rewrite Er1 in Hs1, Hb1.
    assert (Hlr1 : length r1 = (length lits + S (S (length r3)))%nat).
    { rewrite Er1, app_length. reflexivity. }
    destruct (bytes_app _ _ Hb1) as [_ Hb2].
    destruct (bytes_cons _ _ Hb2) as [Ho1 Hb3]. destruct (bytes_cons _ _ Hb3) as [Ho2 Hb4].
    unfold apply_seq in Happ. cbn [s_lits s_off s_mlen] in Happ.
    destruct (off_ok (o1 + 256 * o2) && (4 <=? ml + 4)) eqn:Eok; [|discriminate].
    assert (Hoff : 1 <= o1 + 256 * o2) by (unfold off_ok in Eok; lia).
    destruct (src_at_app _ _ _ _ Hs1) as [Hsl Hs2].
    destruct (src_at_cons _ _ _ _ Hs2) as [_ Hs3]. destruct (src_at_cons _ _ _ _ Hs3) as [_ Hs4].
    destruct (read_len_suffix _ _ _ _ _ Hn2 Hrl2 Hb4 Hs4) as (Hl2 & Hml & Hnoext2 & Hs5 & Hb5).
    assert (Hml0 : 0 <= ml) by lia.
    assert (Hcm : copy_match (rev lits ++ rout) (Z.to_nat (o1 + 256 * o2)) (Z.to_nat (ml + 4)) = Some rout1) by exact Happ.
    (* after a complete literal copy of either fast-loop kind *)
    assert (Hfo : forall m1 kf, same_below (dm s) m1 (op s) -> op s + ll <= oend ->
               (forall j, (j < length lits)%nat -> get m1 (op s + Z.of_nat j) = nth j lits 0) ->
               is_cod_any (fast_offset partial dict srcm iend oend lowPrefix rlow dictm dictSize
                              (mkD (p1 + Z.of_nat (length lits)) (op s + Z.of_nat (length lits)) m1 kf) tok)
                 (part_post (op s) (ll + (ml + 4)) rout1
                    (fun s' => ip s' + Z.of_nat (length r4) = ip s + Z.of_nat (S (length r)) /\
                               src_at srcm (ip s') r4 /\ bytes r4))).
    { intros m1 kf S1 Hfit L1.
      eapply is_cod_any_mono.
      - apply (fast_offset_part (p1 + Z.of_nat (length lits)) (op s + Z.of_nat (length lits)) m1 kf tok o1 o2 r3 ml r4 (rev lits ++ rout) rout1);
          unfold byte in *; try assumption; try lia.
        + cbn [length]. unfold p1. lia.
        + apply lits_out_v with (m := dm s); assumption.
        + rewrite app_length, rev_length. lia.
      - unfold part_post. unfold byte in *. intros done s' (H1 & H2 & H3).
        replace (Z.min (ll + (ml + 4)) (oend - op s)) with (ll + Z.min (ml + 4) (oend - (op s + ll))) by lia.
        rewrite <- Ell in *.
        split; [lia|]. split.
        + replace (ll + (ml + 4) - (ll + Z.min (ml + 4) (oend - (op s + ll)))) with (ml + 4 - Z.min (ml + 4) (oend - (op s + ll))) by lia.
          exact H2.
        + destruct done; [exact H3|]. destruct H3 as [H3 [H4 H5]]. split; [lia|]. split; [unfold p1 in H4; lia|]. split; assumption. }
    (* the safe_lit exits *)
    assert (Hsl' : forall kf,
               is_cod_any (safe_lit partial dict srcm iend oend lowPrefix rlow dictm dictSize (mkD p1 (op s) (dm s) kf) tok (Z.of_nat (length lits)))
                 (part_post (op s) (ll + (ml + 4)) rout1
                    (fun s' => ip s' + Z.of_nat (length r4) = ip s + Z.of_nat (S (length r)) /\
                               src_at srcm (ip s') r4 /\ bytes r4))).
    { intros kf. apply is_cod_is_any. eapply is_cod_mono.
      - apply (safe_lit_part (mkD p1 (op s) (dm s) kf) tok lits o1 o2 r3 ml r4 rout rout1); cbn [ip op dm]; unfold byte in *; try assumption; try lia.
        rewrite app_length. cbn [length]. unfold p1. lia.
      - unfold part_post. cbn [ip op dm]. unfold byte in *. intros done s' (H1 & H2 & H3). rewrite <- Ell in *.
        split; [exact H1|]. split; [exact H2|].
        destruct done; [exact H3|]. destruct H3 as [H3 [H4 H5]]. split; [exact H3|]. split; [unfold p1 in H4; lia|]. split; assumption. }
    unfold fast_top. cbv zeta. rewrite Htokm. cbn [length].
    destruct (tok / 16 =? RUN_MASK) eqn:E15; cbv beta iota.
    - unfold read_len in Hrl1. assert (E15' : (tok / 16 =? 15) = true) by fin. rewrite E15' in Hrl1.
      destruct (rvl_sim r ll r1 (ip s + 1) (iend - RUN_MASK) true (ok s && rd_src iend (ip s) 1) Hrl1 Hsr) as (_ & _ & kf' & Hr); [fin | fin | fin |].
      rewrite Hr. cbv beta iota. unfold byte. fold p1.
      replace (tok / 16 + (ll - 15)) with (Z.of_nat (length lits)) by fin.
      destruct ((op s + Z.of_nat (length lits) >? oend - 32) || (p1 + Z.of_nat (length lits) >? iend - 32)) eqn:Enear; cbv beta iota.
      + apply Hsl'.
      + apply Hfo; [apply wild32_in_same_below | lia | apply wild32_in_lits; exact Hsl].
    - assert (Hlt15 : tok / 16 < 15) by fin.
      destruct (Hnoext Hlt15) as [Ell' Er].
      assert (Ep1 : p1 = ip s + 1) by (unfold p1; rewrite Er; lia).
      replace (tok / 16) with (Z.of_nat (length lits)) by lia.
      rewrite <- Ep1.
      destruct (p1 <=? iend - (16 + 1)) eqn:E17; cbv beta iota.
      + apply Hfo; [apply blit_same_below | lia | apply blit_lits; [exact Hsl | lia]].
      + apply Hsl'.
  Qed.

  (* the final literal run in partial mode, from [safe_lit] *)
  Lemma safe_lit_last_part p1 o m kf tok lits rout :
    partial = true -> src_at srcm p1 lits -> p1 + Z.of_nat (length lits) <= iend ->
    (p1 + Z.of_nat (length lits) = iend \/ oend <= o + Z.of_nat (length lits)) ->
    out_at (vget m) o rout -> 0 <= o -> o <= oend ->
    is_done (safe_lit partial dict srcm iend oend lowPrefix rlow dictm dictSize (mkD p1 o m kf) tok (Z.of_nat (length lits)))
            (fun s' => op s' = o + Z.min (Z.of_nat (length lits)) (oend - o) /\
                       out_at (vget (dm s')) (op s')
                         (skipn (Z.to_nat (Z.of_nat (length lits) - Z.min (Z.of_nat (length lits)) (oend - o))) (rev lits ++ rout))).
  Proof.
    intros Hp Hs1 Ep1 Ep1' O Hop Hoe.
    set (ll := Z.of_nat (length lits)) in *.
    unfold safe_lit. cbv zeta. cbn [ip op dm]. rewrite Hp. cbn [negb andb].
    hd.
    assert (Ec1 : (p1 + ll >? iend) = false) by lia. rewrite Ec1. cbv beta iota.
    destruct (o + ll >? oend) eqn:Eclip; cbv beta iota.
    - assert (Ed : (oend =? oend) || (p1 + (oend - o) >=? iend - 2) = true) by lia.
      rewrite orb_false_l, Ed. cbn [is_done op dm].
      replace (Z.min ll (oend - o)) with (oend - o) by lia.
      split; [lia|].
      replace (Z.to_nat (ll - (oend - o))) with (length lits - Z.to_nat (oend - o))%nat by lia.
      rewrite <- rev_firstn_skipn by lia.
      replace (o + (oend - o)) with (o + Z.of_nat (length (firstn (Z.to_nat (oend - o)) lits))) by (rewrite firstn_length; lia).
      apply lits_out_v with (m := m); try assumption.
      + apply blit_same_below.
      + apply blit_lits; [|rewrite firstn_length; lia].
        intros j Hj. rewrite firstn_length in Hj. rewrite Hs1 by lia.
        symmetry. apply nth_firstn_lt. lia.
    - assert (Ed : (o + ll =? oend) || (p1 + ll >=? iend - 2) = true) by lia.
      rewrite orb_false_l, Ed. cbn [is_done op dm].
      replace (Z.min ll (oend - o)) with ll by lia.
      split; [lia|].
      replace (Z.to_nat (ll - ll)) with 0%nat by lia. cbn [skipn].
      unfold ll. rewrite Nat2Z.id.
      apply lits_out_v with (m := m); try assumption.
      + apply blit_same_below.
      + apply blit_lits; [exact Hs1 | lia].
  Qed.

  Lemma fast_top_last_part s tok r ll r1 lits rout :
    partial = true ->
    bytes (tok :: r) -> src_at srcm (ip s) (tok :: r) -> 0 <= ip s ->
    ip s + Z.of_nat (length (tok :: r)) <= iend ->
    (ip s + Z.of_nat (length (tok :: r)) = iend \/ oend <= op s + ll) ->
    read_len (tok / 16) r = Some (ll, r1) -> take (Z.to_nat ll) r1 = Some (lits, []) ->
    out_at (vget (dm s)) (op s) rout -> 0 <= op s -> op s <= oend - 64 ->
    is_done (fast_top partial dict srcm iend oend lowPrefix rlow dictm dictSize s)
            (fun s' => op s' = op s + Z.min ll (oend - op s) /\
                       out_at (vget (dm s')) (op s') (skipn (Z.to_nat (ll - Z.min ll (oend - op s))) (rev lits ++ rout))).
  Proof.
    intros Hp Hb Hs Hip Hie Hex Hrl1 Htk O Hop Hoe.
    unfold byte in *.
    destruct (bytes_cons _ _ Hb) as [Htok Hbr].
    destruct (src_at_cons _ _ _ _ Hs) as [Htokm Hsr].
    destruct (nibbles tok Htok) as [Hn1 Hn2].
    cbn [length] in Hie, Hex.
    destruct (read_len_suffix _ _ _ _ _ Hn1 Hrl1 Hbr Hsr) as (Hl1 & Hll & Hnoext & Hs1 & Hb1).
    unfold byte in *.
    set (p1 := ip s + 1 + (Z.of_nat (length r) - Z.of_nat (length r1))) in *.
    destruct (take_spec _ _ _ _ Htk) as [Er1 Hlits]. unfold byte in *.
    rewrite app_nil_r in Er1.
    assert (Ell : ll = Z.of_nat (length lits)) by lia.
    assert (Hlr1 : length r1 = length lits) by (rewrite Er1; reflexivity).
    rewrite Er1 in Hs1.
    assert (Hlit : forall kf,
      is_done (safe_lit partial dict srcm iend oend lowPrefix rlow dictm dictSize (mkD p1 (op s) (dm s) kf) tok (Z.of_nat (length lits)))
              (fun s' => op s' = op s + Z.min ll (oend - op s) /\
                         out_at (vget (dm s')) (op s') (skipn (Z.to_nat (ll - Z.min ll (oend - op s))) (rev lits ++ rout)))).
    { intros kf. rewrite Ell. apply safe_lit_last_part; try assumption; unfold p1; lia. }
    unfold fast_top. cbv zeta. rewrite Htokm.
    destruct (tok / 16 =? RUN_MASK) eqn:E15; cbv beta iota.
    - unfold read_len in Hrl1. assert (E15' : (tok / 16 =? 15) = true) by fin. rewrite E15' in Hrl1.
      destruct (rvl_sim r ll r1 (ip s + 1) (iend - RUN_MASK) true (ok s && rd_src iend (ip s) 1) Hrl1 Hsr) as (_ & _ & kf' & Hr); [fin | fin | fin |].
      rewrite Hr. cbv beta iota. unfold byte. fold p1.
      replace (tok / 16 + (ll - 15)) with (Z.of_nat (length lits)) by fin.
      (* either the input ends here (less than 32 bytes left) or the output window does *)
      assert (En : (op s + Z.of_nat (length lits) >? oend - 32) || (p1 + Z.of_nat (length lits) >? iend - 32) = true) by (unfold p1; lia).
      rewrite En. apply Hlit.
    - assert (Hlt15 : tok / 16 < 15) by fin.
      destruct (Hnoext Hlt15) as [Ell' Er].
      assert (Ep1' : p1 = ip s + 1) by (unfold p1; rewrite Er; lia).
      rewrite <- Ep1'. replace (tok / 16) with (Z.of_nat (length lits)) by lia.
      (* ll <= 14 and op <= oend - 64: the output window cannot end here, so the input does *)
      assert (E17 : (p1 <=? iend - (16 + 1)) = false) by (rewrite Er in Hlr1; unfold p1; lia). rewrite E17.
      apply Hlit.
  Qed.

  (* ---------- the decoding loop started in the fast loop, partial mode ---------- *)
  Lemma run_sim_part_fast : forall f (bs : list Z) ss (last : list Z), parse_seqs f bs = Some (ss, last) ->
    forall rout rout' s fuel (fast : bool),
    partial = true ->
    apply_seqs rout ss = Some rout' -> end_ok ss last = true ->
    bytes bs -> src_at srcm (ip s) bs -> 0 <= ip s -> ip s + Z.of_nat (length bs) <= iend ->
    (ip s + Z.of_nat (length bs) = iend \/ oend <= op s + total_len ss last) ->
    out_at (vget (dm s)) (op s) rout -> Z.of_nat (length rout) <= op s - lowPrefix + hroom -> 0 <= op s -> op s <= oend ->
    (fast = true -> op s <= oend - 64) ->
    (length bs < fuel)%nat ->
    exists s', run partial dict srcm iend oend lowPrefix rlow dictm dictSize fuel fast s
               = (Z.min oend (op s + total_len ss last), s')
               /\ out_at (vget (dm s')) (Z.min oend (op s + total_len ss last))
                    (skipn (Z.to_nat (op s + total_len ss last - Z.min oend (op s + total_len ss last))) (rev last ++ rout')).
  Proof.
    induction f as [|f IH]; intros bs ss last H rout rout' s fuel fast Hp Happ Hend Hb Hs Hip Hie Hex O Hlen Hop Hoe Hfast Hfuel.
    { discriminate. }
    destruct fast.
    2:{ eapply run_sim_part; eauto. }
    specialize (Hfast eq_refl).
    rewrite parse_seqs_S in H.
    destruct bs as [|tok r]; [discriminate|].
    destruct (read_len (tok / 16) r) as [[ll r1]|] eqn:E1; [|discriminate].
    destruct (take (Z.to_nat ll) r1) as [[lits r2]|] eqn:E2; [|discriminate].
    destruct fuel as [|fuel]; [lia|].
    cbn [run].
    assert (Ell : ll = Z.of_nat (length lits)).
    { destruct (take_spec _ _ _ _ E2) as [_ Hl]. destruct (bytes_cons _ _ Hb) as [Htok Hbr].
      destruct (nibbles tok Htok) as [Hn1 _].
      destruct (src_at_cons _ _ _ _ Hs) as [_ Hsr].
      destruct (read_len_suffix _ _ _ _ _ Hn1 E1 Hbr Hsr) as (_ & Hll & _). unfold byte in *. lia. }
    destruct r2 as [|o1 [|o2 r3]]; [| discriminate |].
    - assert (Hss : ss = []) by congruence. assert (Hla : lits = last) by congruence. clear H. subst ss last.
      cbn [apply_seqs] in Happ. assert (Hr' : rout = rout') by congruence. subst rout'.
      cbn [total_len fold_right] in *. rewrite <- Ell in *.
      pose proof (fast_top_last_part s tok r ll r1 lits rout Hp Hb Hs Hip Hie Hex E1 E2 O Hop Hfast) as HL.
      destruct (fast_top partial dict srcm iend oend lowPrefix rlow dictm dictSize s) as [f' s'|s'|s'];
        cbn [is_done] in HL; try (exfalso; exact HL).
      destruct HL as [H1 H2].
      exists s'. replace (Z.min oend (op s + ll)) with (op s + Z.min ll (oend - op s)) by lia.
      rewrite <- H1. split; [reflexivity|].
      replace (op s + ll - op s') with (ll - Z.min ll (oend - op s)) by lia. exact H2.
    - destruct (read_len (tok mod 16) r3) as [[ml r4]|] eqn:E3; [|discriminate].
      destruct (parse_seqs f r4) as [[ss' last']|] eqn:E4; [|discriminate].
      assert (Hss : mkSeq lits (o1 + 256 * o2) (ml + 4) :: ss' = ss) by congruence.
      assert (Hlast : last' = last) by congruence. clear H. subst ss last.
      cbn [apply_seqs] in Happ.
      destruct (apply_seq rout (mkSeq lits (o1 + 256 * o2) (ml + 4))) as [rout1|] eqn:Eapp; [|discriminate].
      pose proof (apply_seqs_mlen _ _ _ Happ) as Fml.
      assert (Hml0 : 0 <= ml + 4).
      { unfold apply_seq in Eapp. cbn [s_off s_mlen] in Eapp. destruct (off_ok (o1 + 256 * o2) && (4 <=? ml + 4)) eqn:E; [lia|discriminate]. }
      destruct (end_room ss' (mkSeq lits (o1 + 256 * o2) (ml + 4)) last' Hend) as (H5 & H12 & Hend').
      { constructor; [cbn [s_mlen]; lia | exact Fml]. }
      pose proof (total_len_ge ss' last' Fml) as Htl.
      pose proof (parse_seqs_len _ _ _ _ E4) as Hr4.
      cbn [total_len fold_right s_lits s_mlen] in *. fold (total_len ss' last') in *.
      rewrite <- Ell in *.
      assert (Hlen1 : length rout1 = (length rout + length lits + Z.to_nat (ml + 4))%nat).
      { unfold apply_seq in Eapp. cbn [s_lits s_off s_mlen] in Eapp.
        destruct (off_ok (o1 + 256 * o2) && (4 <=? ml + 4)); [|discriminate].
        apply copy_match_length in Eapp. rewrite app_length, rev_length in Eapp. unfold byte in *. lia. }
      assert (HS : is_cod_any (fast_top partial dict srcm iend oend lowPrefix rlow dictm dictSize s)
                 (part_post (op s) (ll + (ml + 4)) rout1
                    (fun s' => ip s' + Z.of_nat (length r4) = ip s + Z.of_nat (length (tok :: r)) /\
                               src_at srcm (ip s') r4 /\ bytes r4))).
      { apply (fast_top_seq_part s tok r ll r1 lits o1 o2 r3 ml r4 rout rout1); try assumption; unfold byte in *; try lia. }
      assert (Hshr : (length r4 + 2 <= length r)%nat).
      { pose proof (read_len_shorter _ _ _ _ E1). pose proof (read_len_shorter _ _ _ _ E3).
        destruct (take_spec _ _ _ _ E2) as [Er1 _]. unfold byte in *.
        assert (length r1 = (length lits + S (S (length r3)))%nat) by (rewrite Er1, app_length; reflexivity). lia. }
      destruct (apply_seqs_suffix _ _ _ Happ) as (X & HX & HXl).
      destruct (fast_top partial dict srcm iend oend lowPrefix rlow dictm dictSize s) as [f' s'|s'|s'];
        cbn [is_cod_any] in HS; try (exfalso; exact HS); unfold part_post in HS.
      + destruct HS as ((Ho' & O' & Hor & Hi' & Hs' & Hb') & Hf').
        cbn [length] in Hi', Hie, Hfuel, Hex.
        destruct (Z.eq_dec (Z.min (ll + (ml + 4)) (oend - op s)) (ll + (ml + 4))) as [Hmin|Hcut].
        * rewrite Hmin in *. replace (Z.to_nat (ll + (ml + 4) - (ll + (ml + 4)))) with 0%nat in O' by lia. cbn [skipn] in O'.
          destruct (IH r4 ss' last' E4 rout1 rout' s' fuel f' Hp Happ Hend' Hb' Hs') as (s'' & Hrun & Hout).
          -- unfold byte in *; lia.
          -- unfold byte in *; lia.
          -- unfold byte in *; lia.
          -- exact O'.
          -- unfold byte in *; lia.
          -- unfold byte in *; lia.
          -- unfold byte in *; lia.
          -- exact Hf'.
          -- unfold byte in *; lia.
          -- exists s''. rewrite Hrun.
             replace (op s' + total_len ss' last') with (op s + (ll + (ml + 4) + total_len ss' last')) in * by lia.
             split; [reflexivity | exact Hout].
        * assert (Hoe' : op s' = oend) by lia.
          assert (Hf'' : f' = false) by (destruct f'; [specialize (Hf' eq_refl); lia | reflexivity]). subst f'.
          destruct (run_at_end f r4 ss' last' s' fuel Hp E4 Hb' Hs') as (s'' & Hrun & Hsb); try (unfold byte in *; lia).
          exists s''. rewrite Hrun.
          replace (Z.min oend (op s + (ll + (ml + 4) + total_len ss' last'))) with oend by lia.
          split; [reflexivity|].
          eapply out_at_v_same_below; [|exact Hsb].
          rewrite HX. rewrite app_assoc.
          replace (Z.to_nat (op s + (ll + (ml + 4) + total_len ss' last') - oend))
            with (Z.to_nat (total_len ss' last') + Z.to_nat (ll + (ml + 4) - Z.min (ll + (ml + 4)) (oend - op s)))%nat by lia.
          rewrite skipn_app_exact; [rewrite Hoe' in O'; exact O'|].
          rewrite app_length, rev_length. rewrite total_len_last. unfold byte in *. lia.
      + destruct HS as (Ho' & O' & Hend2).
        exists s'.
        replace (Z.min oend (op s + (ll + (ml + 4) + total_len ss' last'))) with (op s') by lia.
        split; [reflexivity|].
        rewrite HX. rewrite app_assoc.
        replace (Z.to_nat (op s + (ll + (ml + 4) + total_len ss' last') - op s'))
          with (Z.to_nat (total_len ss' last') + Z.to_nat (ll + (ml + 4) - Z.min (ll + (ml + 4)) (oend - op s)))%nat by lia.
        rewrite skipn_app_exact; [exact O'|].
        rewrite app_length, rev_length. rewrite total_len_last. unfold byte in *. lia.
  Qed.

End Sim.
