(* Decoder-side statements for the hash-chain streaming model (HC levels 3..9): every successful block of any history
   that stays inside Model.HcChainStream decodes with any decoder window of >= 65535 bytes.  The notions are those of
   Proofs.HcMidStreamHist ([hvis]: external segment ++ prefix, [hhist_inv]: it is a tail of what the decoder has);
   the context records are the same, so the statements about trimming, writing and LZ4_saveDictHC are reused. *)
From Coq Require Import ZArith List Lia Bool ZifyBool.
From LZ4V Require Import Gen.Consts Spec.BlockSpec Model.Mem Model.Fast Model.FastApi Model.HcEmit Model.HcMid Model.HcMidStream.
From LZ4V Require Import Model.HcChain Model.HcChainApi Model.HcChainStream.
From LZ4V Require Import Proofs.BlockSpecProofs Proofs.FactorSpec Proofs.FastStreamMem Proofs.HcMidSound Proofs.HcMidCap.
From LZ4V Require Import Proofs.HcMidStreamProofs Proofs.HcMidStreamHist Proofs.HcChainStreamProofs.
Import ListNotations.
Local Open Scope Z_scope.

(* ---------------------------------------------------------------- one successful call, decoder side *)
Theorem cs_call_decodes m ke src n cap lim ret consumed out hw c' H :
  k_ready ke src -> ccall_post m ke src n cap lim ret consumed out hw c' -> hhist_inv m ke H -> 0 < ret ->
  (forall K, 65535 <= Z.of_nat K -> spec_decode (lastn K H) out = Some (load_list m src (Z.to_nat consumed))) /\
  (lim <> FillOutput ->
   forall K, 65535 <= Z.of_nat K -> strict_valid (lastn K H) out = Some (load_list m src (Z.to_nat consumed))) /\
  hhist_inv m (cs_core c') (H ++ load_list m src (Z.to_nat consumed)).
Proof.
  intros ((L & P & _) & _ & _ & _ & Hend) (_ & _ & _ & _ & _ & _ & Q) HI Hr.
  destruct (Q Hr) as (_ & _ & _ & Hc & Hfull & Dsp & Dst & After).
  rewrite seg_hvis in Dsp, Dst by lia.
  pose proof (is_suffix_lastn _ _ HI) as EL.
  split; [|split].
  - intros K HK. apply (window_spec H (length (hvis m ke)) K); [rewrite EL; exact Dsp | exact HK].
  - intros Hl K HK. apply (window_strict H (length (hvis m ke)) K); [rewrite EL; exact (Dst Hl) | exact HK].
  - unfold hhist_inv. destruct After as [(_ & _ & A3 & A4 & A5) | (A1 & A2 & A3 & A4 & A5 & A6)].
    + unfold hvis, k_xlen, k_plen. rewrite A3, A4, A5.
      replace (Z.to_nat (k_dictLimit (cs_core c') - k_dictLimit (cs_core c'))) with 0%nat by lia.
      replace (Z.to_nat (src + consumed - (src + consumed))) with 0%nat by lia. cbn [load_list app]. apply is_suffix_nil.
    + subst consumed. unfold hvis, k_xlen, k_plen in *. rewrite A2, A3, A4, A5, A6.
      replace (Z.to_nat (src + n - k_prefixStart ke)) with (Z.to_nat (k_end ke - k_prefixStart ke) + Z.to_nat n)%nat by lia.
      rewrite load_list_app, app_assoc.
      replace (k_prefixStart ke + Z.of_nat (Z.to_nat (k_end ke - k_prefixStart ke))) with src by lia.
      apply is_suffix_snoc. exact HI.
Qed.

(* ================================================================ the prelude only shrinks the designated bytes to a suffix *)
Lemma cs_pre1_hist m c src : cs_ok c -> 0 <= src -> is_suffix (hvis m (cs_core (cs_pre1 c src))) (hvis m (cs_core c)).
Proof.
  intros ((K & _) & _) Hs. unfold cs_pre1, cs_core in *. destruct (k_prefixStart (hs_core (cs_hs c)) =? 0); [|exists []; reflexivity].
  unfold kc_init_internal. cbn [cs_hs hs_core].
  pose proof (k_init_internal_ok (hs_core (cs_hs c)) src K Hs) as I0. cbv zeta in I0.
  destruct I0 as (_ & _ & _ & _ & I5 & I6 & I7 & _).
  rewrite hvis_nil; [apply is_suffix_nil | unfold k_xlen; lia | unfold k_plen; lia].
Qed.

Lemma cs_pre2_hist m m2 c c2 : cs_ok c -> cs_pre2 m c = Some c2 -> is_suffix (hvis m2 (cs_core c2)) (hvis m2 (cs_core c)).
Proof.
  intros ((K & _) & _). unfold cs_pre2, cs_core in *. cbv zeta. pose proof K as (L & P & _).
  destruct (_ >? GB2).
  - remember (k_end (hs_core (cs_hs c)) - k_prefixStart (hs_core (cs_hs c))) as pl eqn:Epl.
    remember (if pl >? K64 then K64 else pl) as ds eqn:Eds.
    assert (Hds : 0 <= ds <= pl /\ ds <= K64) by (rewrite Eds; unfold K64; destruct (pl >? 65536) eqn:E1; lia).
    destruct (cs_loadDict m c (k_end (hs_core (cs_hs c)) - ds) ds) as [[c' r]|] eqn:El; [|discriminate].
    intros Heq. injection Heq as <-.
    pose proof (cs_loadDict_ok m c (k_end (hs_core (cs_hs c)) - ds) ds c' r ltac:(lia) ltac:(lia) El) as LD. unfold cs_core in LD.
    destruct LD as (_ & _ & _ & _ & L4 & L5 & L6 & L7 & L8 & _).
    unfold hvis at 1. unfold k_xlen, k_plen. rewrite L5, L6, L7, L8, L4.
    replace (Z.to_nat (K64 - K64)) with 0%nat by lia. cbn [load_list app].
    replace (k_end (hs_core (cs_hs c)) - ds + ds - (k_end (hs_core (cs_hs c)) - ds + ds - Z.min ds K64)) with ds by lia.
    replace (k_end (hs_core (cs_hs c)) - ds + ds - Z.min ds K64) with (k_end (hs_core (cs_hs c)) - ds) by lia.
    unfold hvis, k_plen. rewrite <- Epl.
    rewrite (load_list_split m2 (k_prefixStart (hs_core (cs_hs c))) (Z.to_nat pl) (Z.to_nat ds)) by lia.
    replace (k_prefixStart (hs_core (cs_hs c)) + Z.of_nat (Z.to_nat pl - Z.to_nat ds)) with (k_end (hs_core (cs_hs c)) - ds) by lia.
    rewrite app_assoc. apply is_suffix_app_r.
  - intros Heq. injection Heq as <-. exists []. reflexivity.
Qed.

(* what LZ4HC_setExternalDict (with its LZ4HC_Insert) designates: the old prefix as external segment *)
Lemma kc_setExternalDict_hist m m2 k ct nb :
  k_ok k -> k_dirty k = false -> ct_ok ct -> 0 <= k_ntu k -> K64 <= k_dictLimit k -> 0 <= nb ->
  is_suffix (hvis m2 (fst (kc_setExternalDict m k ct nb))) (hvis m2 k).
Proof.
  intros K Hd Hc Hn Ha Hnb. pose proof (kc_setExternalDict_ok m k ct nb K Hd Hc Hn Ha Hnb) as S0. cbv zeta in S0.
  destruct S0 as (_ & _ & _ & _ & S5 & S6 & S7 & S8 & S9 & S10 & _).
  unfold hvis at 1. unfold k_xlen, k_plen. rewrite S6, S7, S8, S9, S10.
  replace (Z.to_nat (nb - nb)) with 0%nat by lia. cbn [load_list]. rewrite app_nil_r.
  unfold hvis, k_plen, k_endIdx.
  replace (k_dictLimit k + (k_end k - k_prefixStart k) - k_dictLimit k) with (k_end k - k_prefixStart k) by lia.
  apply is_suffix_app_r.
Qed.

Lemma cs_pre3_hist m m2 c src : cpre_inv c -> K64 <= k_lowLimit (cs_core c) -> 0 <= src ->
  is_suffix (hvis m2 (cs_core (cs_pre3 m c src))) (hvis m2 (cs_core c)).
Proof.
  unfold cpre_inv, cs_ok, cs_core. intros (((K & D) & C & Dc) & Hd & Hl) Ha Hs. unfold cs_pre3, cs_core.
  destruct (negb (src =? k_end (hs_core (cs_hs c)))); [|exists []; reflexivity].
  destruct (C Hd) as (C1 & C2).
  pose proof (kc_setExternalDict_hist m m2 (hs_core (cs_hs c)) (cs_chain c) src K Hd C1 C2 ltac:(destruct K as (L & _); lia) Hs) as Q.
  destruct (kc_setExternalDict m (hs_core (cs_hs c)) (cs_chain c) src) as [k ct]. cbn [fst cs_hs hs_core] in *. exact Q.
Qed.

Lemma cs_prelude_hist m m2 c src n c1 :
  cpre_inv c -> 0 < src -> 0 <= n -> cs_prelude m c src n = Some c1 ->
  is_suffix (hvis m2 (cs_core c1)) (hvis m2 (cs_core (cs_pre1 c src))) /\
  is_suffix (hvis m2 (cs_core c1)) (hvis m2 (cs_core c)) /\ clear_of (cs_core c1) src n.
Proof.
  intros P Hs Hn. unfold cs_prelude.
  destruct (cs_pre1_ok c src P ltac:(lia)) as (P1 & A1 & D1).
  destruct (cs_pre2 m (cs_pre1 c src)) as [c2|] eqn:E2; [|discriminate].
  destruct (cs_pre2_ok m (cs_pre1 c src) c2 P1 A1 E2) as (P2 & A2 & G2 & D2).
  destruct (cs_pre3_ok m c2 src P2 A2 G2 ltac:(lia)) as (P3 & R3 & D3).
  pose proof (pre4_hist m2 (cs_hs (cs_pre3 m c2 src)) src n R3 ltac:(lia) Hn) as (H4 & C4).
  intros Heq. injection Heq as <-. unfold cs_core at 1 3 5. cbn [cs_hs]. rewrite cs_trim_pre4.
  assert (S1 : is_suffix (hvis m2 (hs_core (pre4 (cs_hs (cs_pre3 m c2 src)) src n))) (hvis m2 (cs_core (cs_pre1 c src)))).
  { eapply is_suffix_trans; [exact H4|].
    eapply is_suffix_trans; [apply (cs_pre3_hist m m2 c2 src P2 A2 ltac:(lia))|].
    apply (cs_pre2_hist m m2 (cs_pre1 c src) c2 (proj1 P1) E2). }
  split; [exact S1|]. split; [|exact C4].
  eapply is_suffix_trans; [exact S1|]. apply (cs_pre1_hist m2 c src (proj1 P) ltac:(lia)).
Qed.

(* ---------------------------------------------------------------- the context the parser runs on *)
Lemma cs_effective_hist m m2 c src n ke cte H :
  cpre_inv c -> 0 < src -> 0 <= n -> cs_effective m c src n = Some (ke, cte) ->
  (k_prefixStart (cs_core c) = 0 \/ hhist_inv m2 (cs_core c) H) ->
  (match hs_dctx (cs_hs c) with Some d => hhist_inv m2 d H | None => True end) ->
  hhist_inv m2 ke H /\ (hs_dctx (cs_hs c) = None -> clear_of ke src n).
Proof.
  intros P Hs Hn. unfold cs_effective.
  destruct (cs_prelude m c src n) as [c1|] eqn:E; [|discriminate].
  destruct (cs_prelude_hist m m2 c src n c1 P Hs Hn E) as (Sp & S1 & C1).
  destruct (cs_prelude_ok m c src n c1 P Hs Hn E) as (P1 & R1 & D1).
  unfold cs_pick. cbv zeta. intros Hp HI HD.
  assert (Own : hhist_inv m2 (cs_core c1) H).
  { destruct HI as [Hz|HI]; [|eapply is_suffix_trans; [exact S1 | exact HI]].
    assert (Ev : hvis m2 (cs_core (cs_pre1 c src)) = []).
    { unfold cs_pre1, cs_core in *. rewrite Hz. cbn [Z.eqb]. unfold kc_init_internal. cbn [cs_hs hs_core].
      pose proof (k_init_internal_ok (hs_core (cs_hs c)) src (proj1 (proj1 (proj1 P))) ltac:(lia)) as I0. cbv zeta in I0.
      destruct I0 as (_ & _ & _ & _ & I5 & I6 & I7 & _). apply hvis_nil; [unfold k_xlen; lia | unfold k_plen; lia]. }
    rewrite Ev in Sp. destruct Sp as (q & Eq). symmetry in Eq. apply app_eq_nil in Eq. destruct Eq as (_ & Eq).
    unfold hhist_inv. rewrite Eq. apply is_suffix_nil. }
  destruct (hs_dctx (cs_hs c1)) as [d|] eqn:Ed.
  - assert (Edc : hs_dctx (cs_hs c) = Some d) by (destruct D1 as [D1|D1]; congruence).
    rewrite Edc in HD.
    destruct (_ >=? K64); [injection Hp as <- <-; split; [exact Own | intros; congruence]|].
    destruct (_ && _ && _); [|discriminate].
    destruct P1 as (((_ & Dd) & _ & Dc) & _). rewrite Ed in Dd, Dc. destruct Dd as (Dk & Ddy & Da & _). destruct Dc as (Dc1 & Dc2).
    pose proof (kc_setExternalDict_hist m m2 d (cs_dchain c1) src Dk Ddy Dc1 Dc2 Da ltac:(lia)) as Q.
    destruct (kc_setExternalDict m d (cs_dchain c1) src) as [k' ct']. cbn [fst] in Q.
    injection Hp as <- <-. split; [|intros; congruence].
    unfold hhist_inv. eapply is_suffix_trans; [|exact HD].
    unfold hvis, k_xlen, k_plen in *. cbn [k_dictLimit k_lowLimit k_dictStart k_prefixStart k_end]. exact Q.
  - injection Hp as <- <-. split; [exact Own | intros _; exact C1].
Qed.

(* the caller writes the next block [src, src + |bs|): whatever its placement, the bytes the call will use as
   history are untouched (the overlap trimming of the HC API covers every overlap) *)
Theorem cs_write_block_hist m c src bs ke cte H :
  cpre_inv c -> hs_dctx (cs_hs c) = None -> 0 < src ->
  cs_effective (store_list m src bs) c src (Z.of_nat (length bs)) = Some (ke, cte) ->
  hhist_inv m (cs_core c) H ->
  hhist_inv (store_list m src bs) ke H.
Proof.
  intros P Hd Hs He HI.
  assert (HD : match hs_dctx (cs_hs c) with Some d => hhist_inv m d H | None => True end) by (rewrite Hd; exact I).
  destruct (cs_effective_hist (store_list m src bs) m c src (Z.of_nat (length bs)) ke cte H P Hs ltac:(lia) He (or_intror HI) HD) as (A & B).
  pose proof (cs_effective_ready (store_list m src bs) c src (Z.of_nat (length bs)) ke cte (proj1 P) (proj1 (proj2 P)) (proj2 (proj2 P)) Hs ltac:(lia) He) as (((L & Pp & _) & _) & _).
  unfold hhist_inv. rewrite hvis_write; [exact A | exact (B Hd) | unfold k_xlen; lia | unfold k_plen; lia].
Qed.

(* LZ4_saveDictHC: nothing table-specific *)
Lemma cs_saveDict_eq m c a n :
  fst (fst (cs_saveDict m c a n)) = fst (fst (hs_saveDict m (cs_hs c) a n)) /\
  cs_hs (snd (fst (cs_saveDict m c a n))) = snd (fst (hs_saveDict m (cs_hs c) a n)) /\
  snd (cs_saveDict m c a n) = snd (hs_saveDict m (cs_hs c) a n).
Proof. unfold cs_saveDict. destruct (hs_saveDict m (cs_hs c) a n) as [[m' h'] r]. cbn [fst snd cs_hs]. repeat split; reflexivity. Qed.

Lemma cs_saveDict_hist m c a n H :
  hmem_ok m -> cs_ok c -> 0 < a -> hhist_inv m (cs_core c) H ->
  hhist_inv (fst (fst (cs_saveDict m c a n))) (cs_core (snd (fst (cs_saveDict m c a n)))) H.
Proof.
  intros Hm (K & _) Ha HI. destruct (cs_saveDict_eq m c a n) as (E1 & E2 & _). unfold cs_core. rewrite E1, E2.
  apply hs_saveDict_hist; assumption.
Qed.

(* LZ4_loadDictHC of any size: the context designates the last min(n, 64 KB) bytes of the dictionary *)
Lemma cs_loadDict_hist m c a n c' r :
  0 <= n -> 0 <= a -> cs_loadDict m c a n = Some (c', r) -> hhist_inv m (cs_core c') (load_list m a (Z.to_nat n)).
Proof.
  intros Hn Ha E. pose proof (cs_loadDict_ok m c a n c' r Hn Ha E) as LD.
  destruct LD as (_ & _ & _ & _ & L4 & L5 & L6 & L7 & L8 & _).
  unfold hhist_inv, hvis, k_xlen, k_plen. rewrite L5, L6, L7, L8.
  replace (Z.to_nat (K64 - K64)) with 0%nat by lia. cbn [load_list app].
  replace (a + n - (a + n - r)) with r by lia.
  rewrite (load_list_split m a (Z.to_nat n) (Z.to_nat r)) by (unfold K64 in *; lia).
  replace (a + Z.of_nat (Z.to_nat n - Z.to_nat r)) with (a + n - r) by (unfold K64 in *; lia).
  apply is_suffix_app_r.
Qed.

(* ================================================================ whole operation lists *)
Definition chist_next (st : mem * cctx) (H : list Z) (o : cop) (ret consumed : Z) : list Z :=
  match o with
  | CWrite _ _ | CSaveDict _ _ | CSetLevel _ | CAttach None => H
  | CInit | CResetStream _ | CResetFast _ => []
  | CLoadDict a n => load_list (fst st) a (Z.to_nat n)
  | CAttach (Some d) => hvis (fst st) (cs_core d)
  | CContinue src _ _ | CContinueDestSize src _ _ =>
    if 0 <? ret then H ++ load_list (fst st) src (Z.to_nat consumed) else H
  | CFastReset src _ _ _ | CExtState src _ _ _ =>
    if 0 <? ret then load_list (fst st) src (Z.to_nat consumed) else []
  end.

(* documented preconditions along a run: [cop_pre], and before each streaming call the bytes the call will use as
   history (after its own prelude) are the tail of what the decoder has *)
Fixpoint cstream_pre (st : mem * cctx) (H : list Z) (ops : list cop) : Prop :=
  match ops with
  | [] => True
  | o :: r =>
    cop_pre st o /\
    match o with
    | CContinue src n _ | CContinueDestSize src n _ =>
      forall ke cte, cs_effective (fst st) (snd st) src n = Some (ke, cte) -> hhist_inv (fst st) ke H
    | _ => True
    end /\
    match cstep st o with
    | Some (st', (ret, _, consumed)) => cstream_pre st' (chist_next st H o ret consumed) r
    | None => True
    end
  end.

Fixpoint cstream_claim (st : mem * cctx) (H : list Z) (ops : list cop) : Prop :=
  match ops with
  | [] => True
  | o :: r =>
    match cstep st o with
    | None => True
    | Some (st', (ret, out, consumed)) =>
      match o with
      | CContinue src n cap =>
        (compressBound n <= cap -> n <= LZ4_MAX_INPUT_SIZE -> 0 < ret) /\
        (0 < ret -> ret = Z.of_nat (length out) /\ ret <= Z.max cap (compressBound n) /\ consumed = n /\
                    win_strict H out (load_list (fst st) src (Z.to_nat n)))
      | CContinueDestSize src n target =>
        0 < ret -> ret = Z.of_nat (length out) /\ ret <= target /\ 0 <= consumed <= n /\
                   win_spec H out (load_list (fst st) src (Z.to_nat consumed))
      | CFastReset src n cap _ | CExtState src n cap _ =>
        (compressBound n <= cap -> n <= LZ4_MAX_INPUT_SIZE -> 0 < ret) /\
        (0 < ret -> ret = Z.of_nat (length out) /\ ret <= Z.max cap (compressBound n) /\ consumed = n /\
                    strict_valid [] out = Some (load_list (fst st) src (Z.to_nat n)))
      | _ => True
      end /\
      cstream_claim st' (chist_next st H o ret consumed) r
    end
  end.

Lemma kc_generic_pos m ke cte src n cap lim ret consumed out hw c' :
  0 <= n < 2147483648 -> kc_generic m ke cte src n cap lim = Some (CRes ret consumed out hw c') -> 0 < ret ->
  n <= LZ4_MAX_INPUT_SIZE.
Proof.
  intros Hn. unfold kc_generic.
  destruct (match lim with FillOutput => cap <? 1 | _ => false end); [intros H; injection H as <- _ _ _ _; lia|].
  destruct (u32 n >? LZ4_MAX_INPUT_SIZE) eqn:E; [intros H; injection H as <- _ _ _ _; lia|].
  intros _ _. rewrite u32s in E by lia. lia.
Qed.

Lemma cs_continue_generic_pos m c src n cap lim ret consumed out hw c' :
  0 <= n < 2147483648 -> cs_continue_generic m c src n cap lim = Some (CRes ret consumed out hw c') -> 0 < ret ->
  n <= LZ4_MAX_INPUT_SIZE.
Proof.
  intros Hn. rewrite cs_continue_generic_eq. destruct (chain_level _); [|discriminate].
  destruct (cs_effective m c src n) as [[ke cte]|]; [|discriminate]. apply kc_generic_pos. exact Hn.
Qed.

Lemma cs_fastReset_pos m c src n cap level ret consumed out hw c' :
  0 <= n < 2147483648 -> cs_fastReset m c src n cap level = Some (CRes ret consumed out hw c') -> 0 < ret ->
  n <= LZ4_MAX_INPUT_SIZE.
Proof.
  intros Hn. unfold cs_fastReset. cbv zeta. destruct (chain_level _); [|discriminate].
  destruct (kc_init_internal _ _ src) as [k ct].
  rewrite cs_generic_eq. destruct (cs_pick m _ src n) as [[ke cte]|]; [|discriminate]. apply kc_generic_pos. exact Hn.
Qed.

(* the claims for one successful streaming call, from [ccall_post] *)
Lemma ccontinue_claims m ke src n cap ret consumed out hw c' H :
  0 <= n < 2147483648 -> k_ready ke src ->
  ccall_post m ke src n cap (if cap <? compressBound n then LimitedOutput else NotLimited) ret consumed out hw c' ->
  hhist_inv m ke H -> (0 < ret -> n <= LZ4_MAX_INPUT_SIZE) ->
  (compressBound n <= cap -> n <= LZ4_MAX_INPUT_SIZE -> 0 < ret) /\
  (0 < ret -> ret = Z.of_nat (length out) /\ ret <= Z.max cap (compressBound n) /\ consumed = n /\
              win_strict H out (load_list m src (Z.to_nat n))).
Proof.
  intros Hn R Q HI Hpos. pose proof Q as (_ & _ & _ & Q4 & Q5 & _ & Q7).
  split.
  - intros Hb Hmax. replace (cap <? compressBound n) with false in Q5 by lia. apply Q5; [reflexivity | exact Hmax].
  - intros Hr. destruct (Q7 Hr) as (_ & E1 & E2 & _ & E4 & _).
    assert (Hl : (if cap <? compressBound n then LimitedOutput else NotLimited) <> FillOutput) by (destruct (cap <? compressBound n); discriminate).
    specialize (E4 Hl). subst consumed.
    destruct (cs_call_decodes m ke src n cap _ ret n out hw c' H R Q HI Hr) as (_ & D2 & _).
    split; [exact E1|]. split; [pose proof (hwlim_cap n cap ltac:(specialize (Hpos Hr); lia)); lia|].
    split; [reflexivity|]. intros K HK. apply (D2 Hl K HK).
Qed.

Theorem cstream_roundtrip : forall ops st H, cstate_inv st -> cstream_pre st H ops -> cstream_claim st H ops.
Proof.
  induction ops as [|o r IH]; intros st H Inv P; cbn [cstream_pre cstream_claim] in *; [exact I|].
  destruct P as (P1 & P2 & P3).
  destruct (cstep st o) as [[st' [[ret out] consumed]]|] eqn:E; [|exact I].
  split; [|apply IH; [apply (cstep_inv st o st' _ Inv P1 E) | exact P3]].
  destruct st as [m c]. destruct Inv as (Hm & K). cbn [fst snd] in *.
  destruct o; try exact I; cbn [cstep cop_pre snd] in *.
  - (* LZ4_compress_HC_continue *)
    apply of_cres_inv in E. destruct E as (ret' & consumed' & out' & hw & c' & E0 & _ & Ex). injection Ex as -> -> ->.
    destruct P1 as (Pd & Ps & Pn & Pc). unfold cs_continue in E0.
    destruct (cs_continue_generic_sound m c src n cap _ ret' consumed' out' hw c' Hm K Pd Ps Pn Pc E0) as (ke & cte & Ee & R & _ & _ & Q).
    apply (ccontinue_claims m ke src n cap ret' consumed' out' hw c' H Pn R Q (P2 ke cte Ee)).
    apply (cs_continue_generic_pos m c src n cap _ ret' consumed' out' hw c' Pn E0).
  - (* LZ4_compress_HC_continue_destSize *)
    apply of_cres_inv in E. destruct E as (ret' & consumed' & out' & hw & c' & E0 & _ & Ex). injection Ex as -> -> ->.
    destruct P1 as (Pd & Ps & Pn & Pc). unfold cs_continue_destSize in E0.
    destruct (cs_continue_generic_sound m c src n target FillOutput ret' consumed' out' hw c' Hm K Pd Ps Pn Pc E0) as (ke & cte & Ee & R & _ & _ & Q).
    intros Hr. pose proof Q as (_ & _ & _ & Q4 & _ & _ & Q7). destruct (Q7 Hr) as (_ & E1 & E2 & E3 & _).
    destruct (cs_call_decodes m ke src n target FillOutput ret' consumed' out' hw c' H R Q (P2 ke cte Ee) Hr) as (D1 & _ & _).
    split; [exact E1|]. split; [unfold hwlim in Q4; lia|]. split; [exact E3|]. intros Kk HK. apply (D1 Kk HK).
  - (* LZ4_compress_HC_extStateHC_fastReset *)
    apply of_cres_inv in E. destruct E as (ret' & consumed' & out' & hw & c' & E0 & _ & Ex). injection Ex as -> -> ->.
    destruct P1 as (Ps & Pn & Pc).
    pose proof (cs_fastReset_sound m c src n cap level ret' consumed' out' hw c' Hm K Ps Pn Pc E0) as Q. cbv zeta in Q.
    destruct Q as (R & Q1 & Q2 & Q).
    assert (HI : hhist_inv m (k_init_internal (cs_core (cs_resetFast c level)) src) []).
    { unfold hhist_inv. rewrite hvis_nil; [apply is_suffix_nil | unfold k_xlen; lia|].
      unfold k_plen. destruct R as ((_ & Pp & _) & _ & _ & _ & Re). unfold k_endIdx in Q2. lia. }
    pose proof (ccontinue_claims m _ src n cap ret' consumed' out' hw c' [] Pn R Q HI
                  (cs_fastReset_pos m c src n cap level ret' consumed' out' hw c' Pn E0)) as (C1 & C2).
    split; [exact C1|]. intros Hr. destruct (C2 Hr) as (A1 & A2 & A3 & A4).
    split; [exact A1|]. split; [exact A2|]. split; [exact A3|].
    specialize (A4 (Z.to_nat 65535) ltac:(lia)). unfold lastn in A4. cbn [length skipn Nat.sub] in A4. exact A4.
  - (* LZ4_compress_HC_extStateHC *)
    apply of_cres_inv in E. destruct E as (ret' & consumed' & out' & hw & c' & E0 & _ & Ex). injection Ex as -> -> ->.
    destruct P1 as (Ps & Pn & Pc). unfold cs_extState in E0.
    pose proof (cs_fastReset_sound m cs_init src n cap level ret' consumed' out' hw c' Hm cs_init_ok Ps Pn Pc E0) as Q. cbv zeta in Q.
    destruct Q as (R & Q1 & Q2 & Q).
    assert (HI : hhist_inv m (k_init_internal (cs_core (cs_resetFast cs_init level)) src) []).
    { unfold hhist_inv. rewrite hvis_nil; [apply is_suffix_nil | unfold k_xlen; lia|].
      unfold k_plen. destruct R as ((_ & Pp & _) & _ & _ & _ & Re). unfold k_endIdx in Q2. lia. }
    pose proof (ccontinue_claims m _ src n cap ret' consumed' out' hw c' [] Pn R Q HI
                  (cs_fastReset_pos m cs_init src n cap level ret' consumed' out' hw c' Pn E0)) as (C1 & C2).
    split; [exact C1|]. intros Hr. destruct (C2 Hr) as (A1 & A2 & A3 & A4).
    split; [exact A1|]. split; [exact A2|]. split; [exact A3|].
    specialize (A4 (Z.to_nat 65535) ltac:(lia)). unfold lastn in A4. cbn [length skipn Nat.sub] in A4. exact A4.
Qed.

(* ================================================================ C12: the dictionary routes, end to end *)
(* LZ4_loadDictHC of any size at a hash-chain level, then a block anywhere in memory *)
Theorem chain_loadDict_roundtrip m c a n c' r src k cap ret consumed out hw c'' :
  hmem_ok m -> 0 <= n -> 0 <= a -> 0 < src -> 0 <= k < 2147483648 -> 0 <= cap ->
  cs_loadDict m c a n = Some (c', r) ->
  cs_continue m c' src k cap = Some (CRes ret consumed out hw c'') ->
  (compressBound k <= cap -> k <= LZ4_MAX_INPUT_SIZE -> 0 < ret) /\
  (0 < ret -> ret = Z.of_nat (length out) /\ ret <= Z.max cap (compressBound k) /\ consumed = k /\
              win_strict (load_list m a (Z.to_nat n)) out (load_list m src (Z.to_nat k))).
Proof.
  intros Hm Hn Ha Hs Hk Hcap El Ec.
  pose proof (cs_loadDict_ok m c a n c' r Hn Ha El) as LD. destruct LD as (L1 & _ & _ & L3 & _ & _ & _ & _ & _ & L9 & L10).
  pose proof (cs_loadDict_hist m c a n c' r Hn Ha El) as HI.
  unfold cs_continue in Ec.
  destruct (cs_continue_generic_sound m c' src k cap _ ret consumed out hw c'' Hm L1 L9 Hs Hk Hcap Ec) as (ke & cte & Ee & R & _ & _ & Q).
  assert (HD : match hs_dctx (cs_hs c') with Some d => hhist_inv m d (load_list m a (Z.to_nat n)) | None => True end) by (rewrite L3; exact I).
  destruct (cs_effective_hist m m c' src k ke cte _ (conj L1 (conj L9 L10)) Hs ltac:(lia) Ee (or_intror HI) HD) as (Hke & _).
  apply (ccontinue_claims m ke src k cap ret consumed out hw c'' _ Hk R Q Hke).
  apply (cs_continue_generic_pos m c' src k cap _ ret consumed out hw c'' Hk Ec).
Qed.

(* LZ4_attach_HC_dictionary of a stream loaded at a hash-chain level onto a working stream that has not started: when the
   call stays in the model (first block > 4 KB: the dictionary context is copied, LZ4HC_setExternalDict indexes its last
   bytes) the block decodes with the dictionary bytes *)
Theorem chain_attach_roundtrip m c0 d a n dc r src k cap ret consumed out hw c'' :
  hmem_ok m -> cs_ok c0 -> k_dirty (cs_core c0) = false -> k_prefixStart (cs_core c0) = 0 ->
  0 <= n -> 0 <= a -> 0 < src -> 0 <= k < 2147483648 -> 0 <= cap ->
  cs_loadDict m d a n = Some (dc, r) ->
  cs_continue m (cs_attach c0 (Some dc)) src k cap = Some (CRes ret consumed out hw c'') ->
  (compressBound k <= cap -> k <= LZ4_MAX_INPUT_SIZE -> 0 < ret) /\
  (0 < ret -> ret = Z.of_nat (length out) /\ ret <= Z.max cap (compressBound k) /\ consumed = k /\
              win_strict (load_list m a (Z.to_nat n)) out (load_list m src (Z.to_nat k))).
Proof.
  intros Hm K0 Hd0 Hz Hn Ha Hs Hk Hcap El Ec.
  pose proof (cs_loadDict_ok m d a n dc r Hn Ha El) as LD. destruct LD as (_ & L2 & L2c & _).
  pose proof (cs_loadDict_hist m d a n dc r Hn Ha El) as HI.
  assert (K : cs_ok (cs_attach c0 (Some dc))) by (apply cs_attach_ok; [exact K0 | exact (conj L2 L2c)]).
  unfold cs_continue in Ec.
  destruct (cs_continue_generic_sound m _ src k cap _ ret consumed out hw c'' Hm K Hd0 Hs Hk Hcap Ec) as (ke & cte & Ee & R & _ & Hl & Q).
  assert (HD : match hs_dctx (cs_hs (cs_attach c0 (Some dc))) with Some x => hhist_inv m x (load_list m a (Z.to_nat n)) | None => True end) by exact HI.
  destruct (cs_effective_hist m m _ src k ke cte _ (conj K (conj Hd0 Hl)) Hs ltac:(lia) Ee (or_introl Hz) HD) as (Hke & _).
  apply (ccontinue_claims m ke src k cap ret consumed out hw c'' _ Hk R Q Hke).
  apply (cs_continue_generic_pos m _ src k cap _ ret consumed out hw c'' Hk Ec).
Qed.
