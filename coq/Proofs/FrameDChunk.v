(* C08, soundness under chunking: for ANY split of the input into pieces and ANY capacities, a
   sequence of LZ4F_decompress calls (model) that starts at the beginning of a frame reports
   completion only if the bytes it consumed so far are a frame accepted by Spec.frame_decode,
   the concatenated outputs are that frame's specified content, and nothing else was consumed.
   Method: a simulation between the resumable decoder state (stage, staged prefixes in header[]
   / tmpIn, pending tmpOut, running hashes, history) and a position in frame_decode's parse:
   "for every continuation g of the stream, if the specification, resumed at this position on
   g, yields res, then frame_decode (consumed so far ++ g) = res". *)
From Coq Require Import ZArith List Lia Bool.
From LZ4V Require Import Spec.BlockSpec Spec.XXH32 Spec.FrameSpec Gen.Consts Model.FrameD.
From LZ4V Require Import Proofs.FrameDHeader Proofs.FrameDProofs Proofs.FrameDReuse Proofs.FrameDSound Proofs.FrameDBisim.
Import ListNotations.
Local Open Scope Z_scope.
Local Opaque xxh32.

Section Chunk.
Variable bdec : list byte -> list byte -> option (list byte).
Variable skip : bool.
Variable dict : list byte.

(* the goal: the frame specification applied to what was consumed so far, followed by g *)
Definition Goal (p g : list byte) (res : list byte * list byte) : Prop :=
  frame_decode bdec skip dict (p ++ g) = Some res.
Definition Kc (p : list byte) (E : list byte -> list byte * list byte -> Prop) : Prop :=
  forall g res, E g res -> Goal p g res.
Definition Done (p O : list byte) : Prop := forall g, Goal p g (O, g).

(* like FrameDSound.binv, with the history relative to [ah] and the hashes / remaining size
   relative to [ax] (they differ while a decoded block waits in tmpOut) *)
Definition gbinv (d : fdesc) (maxb : Z) (ah ax : list byte) (s : dstate) : Prop :=
  d_fi s = fi_of_desc d /\ d_maxBlock s = maxb /\ d_skip s = skip /\
  (if f_indep d then d_hist s = dict else lastn N64 (d_hist s) = lastn N64 (dict ++ ah)) /\
  (f_ccrc d = true -> skip = false -> d_xxh s = ax) /\
  d_remaining s = match f_csize d with Some n => if n =? 0 then 0 else u64 (n - zlen ax) | None => 0 end /\
  match f_csize d with Some n => 0 <= n < 18446744073709551616 | None => True end.
Lemma gbinv_binv d maxb a s : gbinv d maxb a a s <-> binv skip d maxb dict a s.
Proof. unfold gbinv, binv. tauto. Qed.

(* the specification resumed inside an uncompressed block: [data1] already received, [m] bytes to come *)
Definition E_C d maxb (acc0 data1 : list byte) (m : Z) (g : list byte) (res : list byte * list byte) : Prop :=
  exists data2 r1, take (Z.to_nat m) g = Some (data2, r1) /\
                   E_bcrc bdec skip d maxb dict acc0 (data1 ++ data2) (data1 ++ data2) r1 res.
(* ... at the block checksum of an uncompressed block, [t] = the checksum bytes already staged *)
Definition E_B d maxb (acc0 data t g : list byte) (res : list byte * list byte) : Prop :=
  exists cb r2, take 4 (t ++ g) = Some (cb, r2) /\ (skip || (le_val cb =? xxh32 0 data)) = true /\
                E_after bdec skip d maxb dict acc0 data r2 res.

Definition in_skip (st : dstage) : bool :=
  match st with GetSFrameSize | StoreSFrameSize | SkipSkippable => true | _ => false end.

(* p : bytes consumed since the start of the frame; O : bytes produced since the start of the frame *)
Inductive CInv (p O : list byte) (s : dstate) : Prop :=
  | C_start :
      d_stage s = GetFrameHeader -> p = [] -> O = [] -> d_remaining s = 0 -> d_hist s = dict ->
      (d_skip s = false \/ d_skip s = skip) -> CInv p O s
  | C_hdr :
      d_stage s = StoreFrameHeader -> O = [] -> d_remaining s = 0 -> d_hist s = dict -> d_skip s = skip ->
      pre (d_header s) (d_tmpInSize s) = p -> bytes_ok p = true -> CInv p O s
  | C_init d maxb :
      d_stage s = Init -> O = [] -> binv skip d maxb dict [] (do_init s) ->
      Kc p (E_header bdec skip d maxb dict []) -> CInv p O s
  | C_h d maxb :
      d_stage s = GetBlockHeader -> binv skip d maxb dict O s ->
      Kc p (E_header bdec skip d maxb dict O) -> CInv p O s
  | C_sh d maxb t :
      d_stage s = StoreBlockHeader -> binv skip d maxb dict O s ->
      pre (d_tmpIn s) (d_tmpInSize s) = t -> bytes_ok t = true ->
      Kc p (fun g => E_header bdec skip d maxb dict O (t ++ g)) -> CInv p O s
  | C_c d maxb acc0 data1 :
      d_stage s = CopyDirect -> O = acc0 ++ data1 -> binv skip d maxb dict O s ->
      0 <= d_tmpInTarget s -> zlen data1 + d_tmpInTarget s <= maxb ->
      (f_bcrc d = true -> skip = false -> d_bxxh s = data1) ->
      Kc p (E_C d maxb acc0 data1 (d_tmpInTarget s)) -> CInv p O s
  | C_b d maxb acc0 data t :
      d_stage s = GetBlockChecksum -> O = acc0 ++ data -> binv skip d maxb dict O s -> f_bcrc d = true ->
      zlen data <= maxb -> (skip = false -> d_bxxh s = data) ->
      pre (d_header s) (d_tmpInSize s) = t -> bytes_ok t = true ->
      Kc p (E_B d maxb acc0 data t) -> CInv p O s
  | C_g d maxb n :
      d_stage s = GetCBlock -> binv skip d maxb dict O s -> d_tmpInTarget s = n + crc4 (f_bcrc d) -> 0 <= n <= maxb ->
      Kc p (X_comp bdec skip d maxb dict O n) -> CInv p O s
  | C_s d maxb n t :
      d_stage s = StoreCBlock -> binv skip d maxb dict O s -> d_tmpInTarget s = n + crc4 (f_bcrc d) -> 0 <= n <= maxb ->
      pre (d_tmpIn s) (d_tmpInSize s) = t -> bytes_ok t = true ->
      Kc p (fun g => X_comp bdec skip d maxb dict O n (t ++ g)) -> CInv p O s
  | C_f d maxb acc0 :
      d_stage s = FlushOut -> O = acc0 ++ ztake (d_tmpOutStart s) (d_tmpOut s) ->
      gbinv d maxb O (acc0 ++ d_tmpOut s) s -> zlen (d_tmpOut s) <= maxb ->
      Kc p (E_header bdec skip d maxb dict (acc0 ++ d_tmpOut s)) -> CInv p O s
  | C_x d maxb :
      d_stage s = GetSuffix -> binv skip d maxb dict O s -> Kc p (E_suffix skip d O) -> CInv p O s
  | C_xs d maxb t :
      d_stage s = StoreSuffix -> binv skip d maxb dict O s -> f_ccrc d = true ->
      pre (d_tmpIn s) (d_tmpInSize s) = t -> bytes_ok t = true ->
      Kc p (fun g => E_suffix skip d O (t ++ g)) -> CInv p O s
  | C_skip :
      in_skip (d_stage s) = true -> 4 <= zlen p -> Z.land (rd32 p) SKIP_MASK = FD_MAGIC_SKIPPABLE_START -> CInv p O s.

(* what a piece of the stage machine that does not itself consume input leaves behind
   ([pn] : consumed so far, including what its caller consumed for it) *)
Definition after (pn O : list byte) (l : lst) (r : lst * outcome) : Prop :=
  match snd r with
  | Ret _ => True
  | Continue => exists y, l_src (fst r) = l_src l /\ l_out (fst r) = l_out l ++ y /\ CInv pn (O ++ y) (l_s (fst r))
  | Stop h => exists y, l_src (fst r) = l_src l /\ l_out (fst r) = l_out l ++ y /\
                        if h =? 0 then Done pn (O ++ y) else CInv pn (O ++ y) (l_s (fst r))
  end.
(* ... and a whole stage, which consumes a prefix x of the input it was offered *)
Definition stepr (p O : list byte) (l : lst) (r : lst * outcome) : Prop :=
  match snd r with
  | Ret _ => True
  | Continue => exists x y, l_src l = x ++ l_src (fst r) /\ l_out (fst r) = l_out l ++ y /\ bytes_ok x = true /\
                            CInv (p ++ x) (O ++ y) (l_s (fst r))
  | Stop h => exists x y, l_src l = x ++ l_src (fst r) /\ l_out (fst r) = l_out l ++ y /\ bytes_ok x = true /\
                          if h =? 0 then Done (p ++ x) (O ++ y) else CInv (p ++ x) (O ++ y) (l_s (fst r))
  end.

Lemma after_stepr p O l l' n r :
  0 <= n <= zlen (l_src l) -> bytes_ok (l_src l) = true ->
  l_src l' = zdrop n (l_src l) -> l_out l' = l_out l ->
  after (p ++ ztake n (l_src l)) O l' r -> stepr p O l r.
Proof.
  intros Hn Hb Hs Ho. unfold after, stepr. destruct (bytes_ok_split n _ Hb) as [Hb1 _].
  destruct (snd r); auto.
  - intros (y & A & B & C). exists (ztake n (l_src l)), y. rewrite A, B, Hs, Ho. rewrite ztake_zdrop_app. auto.
  - intros (y & A & B & C). exists (ztake n (l_src l)), y. rewrite A, B, Hs, Ho. rewrite ztake_zdrop_app. auto.
Qed.

(* the same when the stage first replaced the state (fall-through into a store stage) *)
Lemma stepr_with_s p O l s r : stepr p O (with_s l s) r -> stepr p O l r.
Proof. exact (fun H => H). Qed.

Lemma Kc_shift p x (E E' : list byte -> list byte * list byte -> Prop) :
  Kc p E -> (forall g res, E' g res -> E (x ++ g) res) -> Kc (p ++ x) E'.
Proof. intros K H g res He. unfold Goal. rewrite <- app_assoc. apply K. apply H. exact He. Qed.

Ltac binv_same B := (eapply binv_eq; [| | | | | |exact B]; reflexivity).

(* ---- "decode block header": [sel] = the 4 header bytes, already consumed ---- *)
Lemma u_blockHeader d maxb pn O l sel :
  binv skip d maxb dict O (l_s l) -> bytes_ok sel = true -> zlen sel = 4 ->
  Kc pn (fun g => E_header bdec skip d maxb dict O (sel ++ g)) ->
  after pn O l (do_blockHeader l sel).
Proof.
  intros B Hb1 Hsel HK. unfold after.
  assert (T : forall g, take 4 (sel ++ g) = Some (sel, g)).
  { intro g. replace 4%nat with (length sel) by (unfold zlen in Hsel; lia). apply take_app. }
  assert (Hbh : rd32 sel = le_val sel) by (rewrite rd32_le_val by exact Hb1; rewrite ztake4_self by exact Hsel; reflexivity).
  assert (Hrange : 0 <= le_val sel < 4294967296).
  { pose proof (le_val_bound _ Hb1) as X. rewrite Hsel in X. change (256 ^ 4) with 4294967296 in X. exact X. }
  destruct (top_bit _ Hrange) as [TB1 TB2].
  pose proof (binv_flags _ _ _ _ _ _ B) as (F1 & F2 & F3).
  assert (Bk := B). destruct B as (B1 & B2 & B3 & B4 & B5 & B6 & B7).
  unfold do_blockHeader. ss. rewrite Hbh.
  destruct (le_val sel =? 0) eqn:E0.
  { apply Z.eqb_eq in E0. ss. exists []. rewrite !app_nil_r. repeat split; auto.
    eapply C_x with (d := d) (maxb := maxb); [reflexivity|binv_same Bk|].
    intros g res E. apply HK. eapply L_end; eauto. }
  apply Z.eqb_neq in E0. rewrite B2, TB2.
  destruct (maxb <? le_val sel mod 2147483648) eqn:EM; [ss; exact I|].
  apply Z.ltb_ge in EM.
  assert (Hn0 : 0 <= le_val sel mod 2147483648) by (apply Z.mod_pos_bound; lia).
  unfold FD_BLOCKUNCOMPRESSED_FLAG. rewrite TB1. rewrite negb_involutive.
  set (n := le_val sel mod 2147483648) in *.
  destruct (2147483648 <=? le_val sel) eqn:ER.
  - (* uncompressed block *)
    ss. rewrite F1.
    assert (G : forall s1, d_fi s1 = d_fi (l_s l) -> d_maxBlock s1 = d_maxBlock (l_s l) -> d_skip s1 = d_skip (l_s l) ->
                d_hist s1 = d_hist (l_s l) -> d_xxh s1 = d_xxh (l_s l) -> d_remaining s1 = d_remaining (l_s l) ->
                d_stage s1 = CopyDirect -> d_tmpInTarget s1 = n ->
                (f_bcrc d = true -> skip = false -> d_bxxh s1 = []) -> CInv pn O s1).
    { intros s1 G1 G2 G3 G4 G5 G6 G7 G8 G9.
      eapply C_c with (d := d) (maxb := maxb) (acc0 := O) (data1 := []); auto.
      - rewrite app_nil_r. reflexivity.
      - unfold binv. rewrite G1, G2, G3, G4, G5, G6. repeat split; auto.
      - lia.
      - rewrite G8, zlen_nil. lia.
      - rewrite G8. intros g res (data & r1 & T1 & E). apply HK.
        eapply (L_block bdec skip d maxb dict O (sel ++ g) sel g res true data r1 data); eauto. }
    exists []. rewrite !app_nil_r.
    destruct (negb (f_bcrc d)) eqn:EB; ss; (split; [reflexivity|]; split; [reflexivity|]); apply G; ss; auto.
    intros C. rewrite C in EB. discriminate EB.
  - (* compressed block *)
    assert (Hcrc : fi_bcFlag (d_fi (l_s l)) * FD_BFSize = crc4 (f_bcrc d)).
    { rewrite B1. unfold fi_of_desc; ss. unfold crc4, FD_BFSize. destruct (f_bcrc d); reflexivity. }
    rewrite Hcrc.
    assert (G : CInv pn O (set_stage (set_tmpInTarget (l_s l) (n + crc4 (f_bcrc d))) GetCBlock)).
    { eapply C_g with (d := d) (maxb := maxb) (n := n); [reflexivity|binv_same Bk|reflexivity|lia|].
      intros g res (data & r1 & c & T1 & C & E). apply HK.
        eapply (L_block bdec skip d maxb dict O (sel ++ g) sel g res false data r1 c); eauto. }
    destruct ((l_cap l =? 0) || (zlen (l_src l) =? 0)); ss; exists []; rewrite !app_nil_r.
    + replace (FD_BHSize + n + crc4 (f_bcrc d) =? 0) with false
        by (symmetry; apply Z.eqb_neq; unfold crc4, FD_BHSize; destruct (f_bcrc d); lia). auto.
    + auto.
Qed.

Lemma stage_facts (buf : list byte) size piece n t :
  pre buf size = t -> 0 <= size -> zlen piece = n ->
  wr buf size piece = t ++ piece /\ zlen (t ++ piece) = size + n /\ pre (wr buf size piece) (size + n) = t ++ piece.
Proof.
  intros Ht Hs Hp. rewrite wr_pre, Ht. assert (L : zlen (t ++ piece) = size + n).
  { rewrite zlen_app, <- Ht, pre_length by exact Hs. lia. }
  split; [reflexivity|]. split; [exact L|]. apply pre_full. exact L.
Qed.

Lemma stepr_stop_stage p O l l1 h x :
  h <> 0 -> l_src l = x ++ l_src l1 -> l_out l1 = l_out l -> bytes_ok x = true -> CInv (p ++ x) O (l_s l1) ->
  stepr p O l (l1, Stop h).
Proof.
  intros Hh A B C D. unfold stepr. cbn [fst snd]. exists x, []. rewrite !app_nil_r.
  replace (h =? 0) with false by (symmetry; apply Z.eqb_neq; exact Hh). auto.
Qed.

(* ---- dstage_storeBlockHeader / dstage_getBlockHeader / dstage_init ---- *)
Lemma c_storeBlockHeader d maxb p O l t :
  d_stage (l_s l) = StoreBlockHeader -> binv skip d maxb dict O (l_s l) ->
  pre (d_tmpIn (l_s l)) (d_tmpInSize (l_s l)) = t -> bytes_ok t = true -> 0 <= d_tmpInSize (l_s l) < FD_BHSize ->
  Kc p (fun g => E_header bdec skip d maxb dict O (t ++ g)) -> bytes_ok (l_src l) = true ->
  stepr p O l (do_storeBlockHeader l).
Proof.
  intros Hst B Ht Hbt Hs HK Hb. unfold do_storeBlockHeader, tmpin_write. ss. unfold FD_BHSize in *.
  pose proof (zlen_nonneg (l_src l)) as Hl.
  set (n := Z.min (4 - d_tmpInSize (l_s l)) (zlen (l_src l))) in *.
  assert (Hn : 0 <= n <= zlen (l_src l) /\ n <= 4 - d_tmpInSize (l_s l)) by (unfold n; lia).
  set (piece := ztake n (l_src l)).
  assert (Hpl : zlen piece = n) by (unfold piece; rewrite zlen_ztake; lia).
  destruct (bytes_ok_split n _ Hb) as [Hbp Hbr]. fold piece in Hbp.
  destruct (stage_facts _ _ piece n t Ht ltac:(lia) Hpl) as (W1 & W2 & W3). rewrite W1.
  assert (Hbtp : bytes_ok (t ++ piece) = true) by (rewrite bytes_ok_app, Hbt, Hbp; reflexivity).
  assert (HK' : Kc (p ++ piece) (fun g => E_header bdec skip d maxb dict O ((t ++ piece) ++ g))).
  { eapply Kc_shift; [exact HK|]. intros g res E. cbv beta. rewrite app_assoc. exact E. }
  destruct (d_tmpInSize (l_s l) + n <? 4) eqn:E.
  - apply Z.ltb_lt in E. apply stepr_stop_stage with (x := piece);
      [lia | ss; unfold piece; rewrite ztake_zdrop_app; reflexivity | reflexivity | exact Hbp |].
    eapply C_sh with (d := d) (maxb := maxb) (t := t ++ piece);
      [ss; exact Hst | binv_same B | ss; apply pre_full; exact W2 | exact Hbtp | exact HK'].
  - apply Z.ltb_ge in E.
    assert (H4 : zlen (t ++ piece) = 4) by lia.
    rewrite (ztake4_self _ H4).
    match goal with |- stepr _ _ _ (do_blockHeader ?l1 _) =>
      eapply (after_stepr p O l l1 n); [lia|exact Hb|reflexivity|reflexivity|] end.
    fold piece. apply (u_blockHeader d maxb); [binv_same B|exact Hbtp|exact H4|exact HK'].
Qed.

Lemma c_getBlockHeader d maxb p O l :
  binv skip d maxb dict O (l_s l) -> Kc p (E_header bdec skip d maxb dict O) -> bytes_ok (l_src l) = true ->
  stepr p O l (do_getBlockHeader l).
Proof.
  intros B HK Hb. unfold do_getBlockHeader. unfold FD_BHSize at 1 2 3.
  pose proof (zlen_nonneg (l_src l)) as Hl.
  destruct (4 <=? zlen (l_src l)) eqn:E.
  - apply Z.leb_le in E.
    set (sel := ztake 4 (l_src l)).
    assert (Hsel : zlen sel = 4) by (unfold sel; rewrite zlen_ztake; lia).
    destruct (bytes_ok_split 4 _ Hb) as [Hb1 _]. fold sel in Hb1.
    eapply (after_stepr p O l (adv l 4) 4); [lia|exact Hb|reflexivity|reflexivity|]. fold sel.
    apply (u_blockHeader d maxb); [exact B|exact Hb1|exact Hsel|].
    eapply Kc_shift; [exact HK|]. auto.
  - apply Z.leb_gt in E.
    apply stepr_with_s with (s := set_stage (set_tmpInSize (l_s l) 0) StoreBlockHeader).
    apply (c_storeBlockHeader d maxb p O _ []); [reflexivity|binv_same B|reflexivity|reflexivity|ss; unfold FD_BHSize; lia|exact HK|exact Hb].
Qed.

Lemma Kc_weaken p (E E' : list byte -> list byte * list byte -> Prop) :
  Kc p E -> (forall g res, E' g res -> E g res) -> Kc p E'.
Proof. intros K H g res e. apply K, H, e. Qed.

(* ---- dstage_copyDirect ---- *)
Lemma take_app_more : forall (a g : list byte) k b r,
  take k g = Some (b, r) -> take (length a + k) (a ++ g) = Some (a ++ b, r).
Proof. induction a as [|x a IH]; intros g k b r H; [exact H|]. simpl. rewrite (IH _ _ _ _ H). reflexivity. Qed.

Lemma EC_step d maxb acc0 data1 m piece k g res :
  zlen piece = k -> 0 <= k <= m ->
  E_C d maxb acc0 (data1 ++ piece) (m - k) g res -> E_C d maxb acc0 data1 m (piece ++ g) res.
Proof.
  intros Hp Hk (data2 & r1 & T & E). exists (piece ++ data2), r1. split.
  - replace (Z.to_nat m) with (length piece + Z.to_nat (m - k))%nat by (unfold zlen in Hp; lia).
    apply take_app_more. exact T.
  - rewrite app_assoc. exact E.
Qed.
Lemma EC_done_nocrc d maxb acc0 data1 g res :
  f_bcrc d = false -> zlen data1 <= maxb ->
  E_header bdec skip d maxb dict (acc0 ++ data1) g res -> E_C d maxb acc0 data1 0 g res.
Proof.
  intros Hb Hl E. exists [], g. split; [reflexivity|]. rewrite app_nil_r. unfold E_bcrc. rewrite Hb. split; assumption.
Qed.
Lemma EC_done_crc d maxb acc0 data1 g res :
  f_bcrc d = true -> E_B d maxb acc0 data1 [] g res -> E_C d maxb acc0 data1 0 g res.
Proof.
  intros Hb (cb & r2 & T & C & E). exists [], g. split; [reflexivity|]. rewrite app_nil_r. unfold E_bcrc. rewrite Hb.
  exists cb, r2. auto.
Qed.

Lemma c_copyDirect o d maxb p acc0 data1 l :
  d_stage (l_s l) = CopyDirect -> binv skip d maxb dict (acc0 ++ data1) (l_s l) ->
  0 <= d_tmpInTarget (l_s l) -> zlen data1 + d_tmpInTarget (l_s l) <= maxb -> 0 <= l_cap l ->
  (f_bcrc d = true -> skip = false -> d_bxxh (l_s l) = data1) ->
  Kc p (E_C d maxb acc0 data1 (d_tmpInTarget (l_s l))) -> bytes_ok (l_src l) = true ->
  stepr p (acc0 ++ data1) l (do_copyDirect o l).
Proof.
  intros Hst B Ht Hm Hc Hx HK Hb. unfold do_copyDirect.
  pose proof (zlen_nonneg (l_src l)) as Hl. pose proof (zlen_nonneg data1) as Hd1.
  pose proof (binv_flags _ _ _ _ _ _ B) as (F1 & F2 & F3).
  assert (Bk := B). destruct B as (B1 & B2 & B3 & B4 & B5 & B6 & B7).
  set (m := d_tmpInTarget (l_s l)) in *.
  (* what follows a piece [piece] of k bytes taken from the input, in a state s1 reached by the bookkeeping *)
  assert (Main : forall k (l2 : lst),
      0 <= k <= m -> k <= zlen (l_src l) ->
      l_src l2 = zdrop k (l_src l) -> l_out l2 = l_out l ++ ztake k (l_src l) ->
      binv skip d maxb dict ((acc0 ++ data1) ++ ztake k (l_src l)) (l_s l2) -> d_stage (l_s l2) = CopyDirect ->
      d_tmpInTarget (l_s l2) = m ->
      fi_bcFlag (d_fi (l_s l2)) = fi_bcFlag (d_fi (l_s l)) ->
      (f_bcrc d = true -> skip = false -> d_bxxh (l_s l2) = data1 ++ ztake k (l_src l)) ->
      stepr p (acc0 ++ data1) l
        (if k =? d_tmpInTarget (l_s l2)
         then if fi_bcFlag (d_fi (l_s l2)) =? 0
              then (with_s l2 (set_stage (l_s l2) GetBlockHeader), Continue)
              else (with_s l2 (set_stage (set_tmpInSize (l_s l2) 0) GetBlockChecksum), Continue)
         else (with_s l2 (set_tmpInTarget (l_s l2) (d_tmpInTarget (l_s l2) - k)),
               Stop (d_tmpInTarget (set_tmpInTarget (l_s l2) (d_tmpInTarget (l_s l2) - k)) +
                     bcsize (set_tmpInTarget (l_s l2) (d_tmpInTarget (l_s l2) - k)) + FD_BHSize)))).
  { intros k l2 Hk Hkl S2 S3 Bn St Tg FB X2. set (s1 := l_s l2) in *.
    set (piece := ztake k (l_src l)) in *.
    assert (Hpl : zlen piece = k) by (unfold piece; rewrite zlen_ztake; lia).
    destruct (bytes_ok_split k _ Hb) as [Hbp _]. fold piece in Hbp.
    assert (Hsrc : l_src l = piece ++ l_src l2) by (rewrite S2; unfold piece; rewrite ztake_zdrop_app; reflexivity).
    assert (HKs : Kc (p ++ piece) (E_C d maxb acc0 (data1 ++ piece) (m - k))).
    { eapply Kc_shift; [exact HK|]. intros g res E. eapply EC_step; eauto. }
    rewrite Tg, FB, F1. unfold stepr.
    destruct (k =? m) eqn:E.
    - apply Z.eqb_eq in E. replace (m - k) with 0 in HKs by lia.
      destruct (f_bcrc d) eqn:EB; cbn [negb fst snd].
      + exists piece, piece. ss. split; [exact Hsrc|]. split; [exact S3|]. split; [exact Hbp|].
        eapply C_b with (d := d) (maxb := maxb) (acc0 := acc0) (data := data1 ++ piece) (t := []);
          [reflexivity | rewrite app_assoc; reflexivity | binv_same Bn | exact EB | rewrite zlen_app; lia | | reflexivity | reflexivity |].
        * intro K. ss. apply X2; auto.
        * eapply Kc_weaken; [exact HKs|]. intros g res E2. apply EC_done_crc; auto.
      + exists piece, piece. ss. split; [exact Hsrc|]. split; [exact S3|]. split; [exact Hbp|].
        eapply C_h with (d := d) (maxb := maxb); [reflexivity | binv_same Bn |].
        eapply Kc_weaken; [exact HKs|]. intros g res E2.
        apply EC_done_nocrc; auto; [rewrite zlen_app; lia|]. rewrite app_assoc. exact E2.
    - apply Z.eqb_neq in E. cbn [fst snd].
      exists piece, piece. ss. split; [exact Hsrc|]. split; [exact S3|]. split; [exact Hbp|].
      replace (m - k + bcsize (set_tmpInTarget s1 (m - k)) + FD_BHSize =? 0) with false.
      2:{ symmetry. apply Z.eqb_neq. unfold bcsize, FD_BFSize, FD_BHSize.
          destruct (fi_bcFlag (d_fi (set_tmpInTarget s1 (m - k))) =? 0); lia. }
      eapply C_c with (d := d) (maxb := maxb) (acc0 := acc0) (data1 := data1 ++ piece);
        [ss; exact St | rewrite app_assoc; reflexivity | binv_same Bn | ss; lia | ss; rewrite zlen_app; lia | ss; exact X2 | ss; exact HKs]. }
  destruct (o_dstnull o) eqn:Hnull; cbv iota beta.
  - (* NULL destination: an empty piece *)
    pose proof (Main 0 l) as M. cbv beta in M.
    assert (Z0 : ztake 0 (l_src l) = []) by reflexivity. rewrite Z0, !app_nil_r in M.
    apply M; auto; try lia.
  - set (k := Z.min m (Z.min (zlen (l_src l)) (l_cap l))).
    assert (Hk : 0 <= k <= m /\ k <= zlen (l_src l) /\ k <= l_cap l) by (unfold k; lia).
    set (piece := ztake k (l_src l)).
    assert (Hpl : zlen piece = k) by (unfold piece; rewrite zlen_ztake; lia).
    pose proof (upd_copy_core (l_s l) piece k) as C.
    pose proof (upd_copy_fields (l_s l) piece k) as (U1 & U2 & U3 & U4).
    set (s1 := upd_copy (l_s l) piece k) in *.
    destruct C as (C1 & C2 & C3 & C4 & C5 & C6 & C7 & C8 & C9 & C10 & C11).
    pose proof (Main k (adv (emit (with_s l s1) piece k) k)) as M. cbv beta in M. ss.
    apply M; auto; try lia; try congruence.
    + eapply (binv_append skip d maxb dict (acc0 ++ data1) (l_s l) s1 piece Bk); auto.
      * apply hist_eq_case. exact U1.
      * rewrite U2, B3, F2. destruct skip, (f_ccrc d); reflexivity.
      * rewrite U3, Hpl. reflexivity.
    + intros X1 X2. rewrite U4, B3, X2, F1, X1. cbn [negb]. rewrite (Hx X1 X2). reflexivity.
Qed.
End Chunk.
