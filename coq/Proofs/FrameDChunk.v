(* C08, chunking independence of the frame decoder (model Model/FrameD.v), for RESUMED calls.
   For ANY split of the input into pieces and ANY capacities, a sequence of LZ4F_decompress /
   LZ4F_decompress_usingDict calls that starts at the beginning of a frame
   - reports completion only if the input is a frame accepted by Spec.frame_decode, the
     concatenated outputs are that frame's specified content and exactly the frame was consumed
     (chunked_sound), and conversely
   - on an input accepted by Spec.frame_decode with every checksum verified never fails, ends with
     the specification's verdict (chunked_complete), and does end after at most
     |input| + |content| + 1 calls that offer >= 1 byte and >= 1 byte of room (chunked_reaches).
   Method: a two-way simulation between the resumable decoder state (stage, staged prefixes in
   header[] / tmpIn, pending tmpOut, running hashes, history, remaining size) and a position in
   frame_decode's parse.  CInv p O s : p / O = bytes consumed / produced since the start of the
   frame, with a continuation clause Kc p E: "for every g, if E skip g res then
   frame_decode skip (p ++ g) = res" and "if frame_decode false (p ++ g) = res then E false g res"
   (E sk = the specification resumed at this position with skip flag sk).  Unit lemmas (u_*:
   pieces that consume nothing, result [after]) and stage lemmas (c_*: result [stepr]); every
   error return is justified by Bad: no continuation is accepted with all checksums verified. *)
From Coq Require Import ZArith List Lia Bool.
From LZ4V Require Import Spec.BlockSpec Spec.XXH32 Spec.FrameSpec Gen.Consts Model.FrameD.
From LZ4V Require Import Proofs.FrameDHeader Proofs.FrameDProofs Proofs.FrameDReuse Proofs.FrameDSound Proofs.FrameDBisim.
Import ListNotations.
Local Open Scope Z_scope.
Local Opaque xxh32.

Section Chunk.
Variable bdec : list byte -> list byte -> option (list byte).
Variable skip : bool.
Variable dict : list byte.

(* the goal: the frame specification applied to what was consumed so far, followed by g *)
Definition SpecGoal (p g : list byte) (res : list byte * list byte) : Prop :=
  frame_decode bdec skip dict (p ++ g) = Some res.
(* ... and the same with every checksum verified (skip flag off) *)
Definition SpecGoalF (p g : list byte) (res : list byte * list byte) : Prop :=
  frame_decode bdec false dict (p ++ g) = Some res.
(* [E sk] describes what the specification (with skip flag [sk]) still has to see after the consumed
   bytes [p]: enough to be accepted under the decoder's own skip flag, necessary for acceptance
   with all checksums verified *)
Definition Kc (p : list byte) (E : bool -> list byte -> list byte * list byte -> Prop) : Prop :=
  (forall g res, E skip g res -> SpecGoal p g res) /\ (forall g res, SpecGoalF p g res -> E false g res).
(* no continuation of [p ++ rem] is a valid frame (all checksums verified) *)
Definition Bad (p rem : list byte) : Prop := forall R res, ~ SpecGoalF p (rem ++ R) res.
Definition Done (p O : list byte) : Prop := forall g, SpecGoal p g (O, g).
(* the end of a frame: an LZ4 frame accepted by the specification, or a skippable frame *)
Definition Fin (p O : list byte) : Prop :=
  Done p O \/ (O = [] /\ 8 <= zlen p /\ Z.land (rd32 p) SKIP_MASK = FD_MAGIC_SKIPPABLE_START /\
               zlen p = 8 + rd32 (zdrop 4 p)).

(* like FrameDSound.binv, with the history relative to [ah] and the hashes / remaining size
   relative to [ax] (they differ while a decoded block waits in tmpOut) *)
Definition gbinv (d : fdesc) (maxb : Z) (ah ax : list byte) (s : dstate) : Prop :=
  d_fi s = fi_of_desc d /\ d_maxBlock s = maxb /\ d_skip s = skip /\
  (if f_indep d then d_hist s = dict else lastn N64 (d_hist s) = lastn N64 (dict ++ ah)) /\
  (f_ccrc d = true -> skip = false -> d_xxh s = ax) /\
  d_remaining s = match f_csize d with Some n => if n =? 0 then 0 else u64 (n - zlen ax) | None => 0 end /\
  match f_csize d with Some n => 0 <= n < 18446744073709551616 | None => True end.
Lemma gbinv_binv d maxb a s : gbinv d maxb a a s <-> binv skip d maxb dict a s.
Proof. unfold gbinv, binv. tauto. Qed.

(* the specification resumed inside an uncompressed block: [data1] already received, [m] bytes to come *)
Definition E_C (sk : bool) d maxb (acc0 data1 : list byte) (m : Z) (g : list byte) (res : list byte * list byte) : Prop :=
  exists data2 r1, take (Z.to_nat m) g = Some (data2, r1) /\
                   E_bcrc bdec sk d maxb dict acc0 (data1 ++ data2) (data1 ++ data2) r1 res.
(* ... at the block checksum of an uncompressed block, [t] = the checksum bytes already staged *)
Definition E_B (sk : bool) d maxb (acc0 data t g : list byte) (res : list byte * list byte) : Prop :=
  exists cb r2, take 4 (t ++ g) = Some (cb, r2) /\ (sk || (le_val cb =? xxh32 0 data)) = true /\
                E_after bdec sk d maxb dict acc0 data r2 res.

(* inside a skippable frame: magic number, then the 4-byte size (possibly staged in header[4..8)), then
   that many bytes to skip *)
Definition skinv (p : list byte) (s : dstate) : Prop :=
  4 <= zlen p /\ Z.land (rd32 p) SKIP_MASK = FD_MAGIC_SKIPPABLE_START /\
  match d_stage s with
  | GetSFrameSize => zlen p = 4
  | StoreSFrameSize => zlen p = d_tmpInSize s /\ d_tmpInTarget s = 8 /\
                       zdrop 4 (pre (d_header s) (d_tmpInSize s)) = zdrop 4 p
  | SkipSkippable => 8 <= zlen p /\ zlen p + d_tmpInTarget s = 8 + rd32 (zdrop 4 p)
  | _ => False
  end.
Definition in_skip (st : dstage) : bool :=
  match st with GetSFrameSize | StoreSFrameSize | SkipSkippable => true | _ => false end.

(* p : bytes consumed since the start of the frame; O : bytes produced since the start of the frame *)
Inductive CInv (p O : list byte) (s : dstate) : Prop :=
  | C_start :
      d_stage s = GetFrameHeader -> p = [] -> O = [] -> d_remaining s = 0 -> d_hist s = dict ->
      d_skip s = skip -> CInv p O s
  | C_hdr :
      d_stage s = StoreFrameHeader -> O = [] -> d_remaining s = 0 -> d_hist s = dict -> d_skip s = skip ->
      pre (d_header s) (d_tmpInSize s) = p -> bytes_ok p = true -> CInv p O s
  | C_init d maxb :
      d_stage s = Init -> O = [] -> binv skip d maxb dict [] (do_init s) ->
      Kc p (fun sk => E_header bdec sk d maxb dict []) -> CInv p O s
  | C_h d maxb :
      d_stage s = GetBlockHeader -> binv skip d maxb dict O s ->
      Kc p (fun sk => E_header bdec sk d maxb dict O) -> CInv p O s
  | C_sh d maxb t :
      d_stage s = StoreBlockHeader -> binv skip d maxb dict O s ->
      pre (d_tmpIn s) (d_tmpInSize s) = t -> bytes_ok t = true ->
      Kc p (fun sk g => E_header bdec sk d maxb dict O (t ++ g)) -> CInv p O s
  | C_c d maxb acc0 data1 :
      d_stage s = CopyDirect -> O = acc0 ++ data1 -> binv skip d maxb dict O s ->
      0 <= d_tmpInTarget s -> zlen data1 + d_tmpInTarget s <= maxb ->
      (f_bcrc d = true -> skip = false -> d_bxxh s = data1) ->
      Kc p (fun sk => E_C sk d maxb acc0 data1 (d_tmpInTarget s)) -> CInv p O s
  | C_b d maxb acc0 data t :
      d_stage s = GetBlockChecksum -> O = acc0 ++ data -> binv skip d maxb dict O s -> f_bcrc d = true ->
      zlen data <= maxb -> (skip = false -> d_bxxh s = data) ->
      pre (d_header s) (d_tmpInSize s) = t -> bytes_ok t = true ->
      Kc p (fun sk => E_B sk d maxb acc0 data t) -> CInv p O s
  | C_g d maxb n :
      d_stage s = GetCBlock -> binv skip d maxb dict O s -> d_tmpInTarget s = n + crc4 (f_bcrc d) -> 0 <= n <= maxb ->
      Kc p (fun sk => X_comp bdec sk d maxb dict O n) -> CInv p O s
  | C_s d maxb n t :
      d_stage s = StoreCBlock -> binv skip d maxb dict O s -> d_tmpInTarget s = n + crc4 (f_bcrc d) -> 0 <= n <= maxb ->
      pre (d_tmpIn s) (d_tmpInSize s) = t -> bytes_ok t = true ->
      Kc p (fun sk g => X_comp bdec sk d maxb dict O n (t ++ g)) -> CInv p O s
  | C_f d maxb acc0 :
      d_stage s = FlushOut -> O = acc0 ++ ztake (d_tmpOutStart s) (d_tmpOut s) ->
      gbinv d maxb O (acc0 ++ d_tmpOut s) s -> zlen (d_tmpOut s) <= maxb ->
      Kc p (fun sk => E_header bdec sk d maxb dict (acc0 ++ d_tmpOut s)) -> CInv p O s
  | C_x d maxb :
      d_stage s = GetSuffix -> binv skip d maxb dict O s -> Kc p (fun sk => E_suffix sk d O) -> CInv p O s
  | C_xs d maxb t :
      d_stage s = StoreSuffix -> binv skip d maxb dict O s -> f_ccrc d = true -> d_remaining s = 0 ->
      pre (d_tmpIn s) (d_tmpInSize s) = t -> bytes_ok t = true ->
      Kc p (fun sk g => E_suffix sk d O (t ++ g)) -> CInv p O s
  | C_skip : O = [] -> skinv p s -> CInv p O s.

(* what a piece of the stage machine that does not itself consume input leaves behind
   ([pn] : consumed so far, including what its caller consumed for it) *)
Definition after (pn O : list byte) (l : lst) (r : lst * outcome) : Prop :=
  match snd r with
  | Ret v => v < 0 -> Bad pn (l_src l)
  | Continue => exists y, l_src (fst r) = l_src l /\ l_out (fst r) = l_out l ++ y /\ CInv pn (O ++ y) (l_s (fst r))
  | Stop h => 0 <= h /\ exists y, l_src (fst r) = l_src l /\ l_out (fst r) = l_out l ++ y /\
                        if h =? 0 then Fin pn (O ++ y) else CInv pn (O ++ y) (l_s (fst r))
  end.
(* ... and a whole stage, which consumes a prefix x of the input it was offered *)
Definition stepr (p O : list byte) (l : lst) (r : lst * outcome) : Prop :=
  match snd r with
  | Ret v => v < 0 -> Bad p (l_src l)
  | Continue => exists x y, l_src l = x ++ l_src (fst r) /\ l_out (fst r) = l_out l ++ y /\ bytes_ok x = true /\
                            CInv (p ++ x) (O ++ y) (l_s (fst r))
  | Stop h => 0 <= h /\ exists x y, l_src l = x ++ l_src (fst r) /\ l_out (fst r) = l_out l ++ y /\ bytes_ok x = true /\
                          if h =? 0 then Fin (p ++ x) (O ++ y) else CInv (p ++ x) (O ++ y) (l_s (fst r))
  end.

Lemma after_stepr p O l l' n r :
  0 <= n <= zlen (l_src l) -> bytes_ok (l_src l) = true ->
  l_src l' = zdrop n (l_src l) -> l_out l' = l_out l ->
  after (p ++ ztake n (l_src l)) O l' r -> stepr p O l r.
Proof.
  intros Hn Hb Hs Ho. unfold after, stepr. destruct (bytes_ok_split n _ Hb) as [Hb1 _].
  destruct (snd r).
  3:{ intros A Hv R res G. apply (A Hv R res). unfold SpecGoalF in *. rewrite Hs.
      rewrite <- app_assoc, (app_assoc (ztake n (l_src l))), ztake_zdrop_app. exact G. }
  - intros (y & A & B & C). exists (ztake n (l_src l)), y. rewrite A, B, Hs, Ho. rewrite ztake_zdrop_app. auto.
  - intros (Hh & y & A & B & C). split; [exact Hh|]. exists (ztake n (l_src l)), y. rewrite A, B, Hs, Ho. rewrite ztake_zdrop_app. auto.
Qed.

(* the same when the stage first replaced the state (fall-through into a store stage) *)
Lemma stepr_with_s p O l s r : stepr p O (with_s l s) r -> stepr p O l r.
Proof. exact (fun H => H). Qed.

Lemma Kc_shift p x (E E' : bool -> list byte -> list byte * list byte -> Prop) :
  Kc p E -> (forall sk g res, E' sk g res <-> E sk (x ++ g) res) -> Kc (p ++ x) E'.
Proof.
  intros [K1 K2] H. split; intros g res He.
  - unfold SpecGoal. rewrite <- app_assoc. apply K1. apply H. exact He.
  - apply H. apply K2. unfold SpecGoalF in *. rewrite <- app_assoc in He. exact He.
Qed.
Lemma Kc_weaken p (E E' : bool -> list byte -> list byte * list byte -> Prop) :
  Kc p E -> (forall sk g res, E' sk g res <-> E sk g res) -> Kc p E'.
Proof. intros [K1 K2] H. split; intros g res e; [apply K1, H, e|apply H, K2, e]. Qed.
(* the same when the two directions are not uniform in the skip flag *)
Lemma Kc_weaken2 p (E E' : bool -> list byte -> list byte * list byte -> Prop) :
  Kc p E -> (forall g res, E' skip g res -> E skip g res) -> (forall g res, E false g res -> E' false g res) -> Kc p E'.
Proof. intros [K1 K2] H1 H2. split; intros g res e; [apply K1, H1, e|apply H2, K2, e]. Qed.
(* an error is justified: the specification rejects every continuation *)
Lemma Kc_bad p (E : bool -> list byte -> list byte * list byte -> Prop) rem :
  Kc p E -> (forall R res, ~ E false (rem ++ R) res) -> Bad p rem.
Proof. intros [_ K2] H R res G. exact (H R res (K2 _ _ G)). Qed.

(* ---- the specification's block loop, inverted ---- *)
Lemma take_full (a g x r : list byte) n : zlen a = Z.of_nat n -> take n (a ++ g) = Some (x, r) -> x = a /\ r = g.
Proof.
  intros H T. replace n with (length a) in T by (unfold zlen in H; lia). rewrite take_app in T.
  inversion T; auto.
Qed.
Lemma take_app_inv : forall (a g : list byte) k b r,
  take (length a + k) (a ++ g) = Some (b, r) -> exists b', b = a ++ b' /\ take k g = Some (b', r).
Proof.
  induction a as [|x a IH]; intros g k b r H; [exists b; auto|].
  simpl in H. destruct (take (length a + k) (a ++ g)) as [[b0 r0]|] eqn:E; [|discriminate].
  inversion H; subst. destruct (IH _ _ _ _ E) as (b' & -> & T). exists b'. auto.
Qed.

Lemma L_inv (sk : bool) d maxb acc bs szb r res :
  take 4 bs = Some (szb, r) -> E_header bdec sk d maxb dict acc bs res ->
  (le_val szb = 0 /\ E_suffix sk d acc r res) \/
  (le_val szb <> 0 /\ le_val szb mod 2147483648 <= maxb /\
   exists data r1 c, take (Z.to_nat (le_val szb mod 2147483648)) r = Some (data, r1) /\
                     (if 2147483648 <=? le_val szb then Some data else bdec (spec_hist d dict acc) data) = Some c /\
                     E_bcrc bdec sk d maxb dict acc data c r1 res).
Proof.
  intros T (F & HF). destruct F as [|F]; [discriminate HF|]. cbn [blocks] in HF. rewrite T in HF.
  destruct (le_val szb =? 0) eqn:W.
  - left. split; [apply Z.eqb_eq; exact W|]. unfold E_suffix, fin_ok.
    assert (G : forall rest, match f_csize d with
                             | Some n => if (n =? 0) || (n =? Z.of_nat (length acc)) then Some (acc, rest) else None
                             | None => Some (acc, rest) end = Some res ->
                match f_csize d with Some n => (n =? 0) || (n =? Z.of_nat (length acc)) = true | None => True end /\ res = (acc, rest)).
    { intros rest H. destruct (f_csize d) as [n|].
      - destruct ((n =? 0) || (n =? Z.of_nat (length acc))); [|discriminate H]. inversion H; auto.
      - inversion H; auto. }
    destruct (f_ccrc d).
    + destruct (take 4 r) as [[cb r1]|]; [|discriminate HF].
      destruct (sk || (le_val cb =? xxh32 0 acc)) eqn:C; [|discriminate HF].
      exists cb, r1. split; [reflexivity|]. split; [exact C|]. apply G. exact HF.
    + apply G. exact HF.
  - right. split; [apply Z.eqb_neq; exact W|].
    destruct (maxb <? le_val szb mod 2147483648) eqn:EM; [discriminate HF|]. split; [apply Z.ltb_ge; exact EM|].
    destruct (take (Z.to_nat (le_val szb mod 2147483648)) r) as [[data r1]|]; [|discriminate HF].
    exists data, r1.
    assert (G : forall rest,
       (let hist := if f_indep d then dict else lastn 65536 (dict ++ acc) in
        let content := if 2147483648 <=? le_val szb then Some data else bdec hist data in
        match content with
        | Some c => if maxb <? Z.of_nat (length c) then None else blocks bdec sk F d maxb dict (acc ++ c) rest
        | None => None end) = Some res ->
       exists c, (if 2147483648 <=? le_val szb then Some data else bdec (spec_hist d dict acc) data) = Some c /\
                 E_after bdec sk d maxb dict acc c rest res).
    { intros rest H. cbv zeta in H. fold (spec_hist d dict acc) in H.
      destruct (if 2147483648 <=? le_val szb then Some data else bdec (spec_hist d dict acc) data) as [c|]; [|discriminate H].
      destruct (maxb <? Z.of_nat (length c)) eqn:EL; [discriminate H|]. apply Z.ltb_ge in EL.
      exists c. split; [reflexivity|]. split; [exact EL|]. exists F. exact H. }
    unfold E_bcrc. destruct (f_bcrc d).
    + destruct (take 4 r1) as [[cb r2]|]; [|discriminate HF].
      destruct (sk || (le_val cb =? xxh32 0 data)) eqn:C; [|discriminate HF].
      destruct (G r2 HF) as (c & C1 & C2). exists c. split; [reflexivity|]. split; [exact C1|].
      exists cb, r2. auto.
    + destruct (G r1 HF) as (c & C1 & C2). exists c. auto.
Qed.

Ltac binv_same B := (eapply binv_eq; [| | | | | |exact B]; reflexivity).

(* ---- "decode block header": [sel] = the 4 header bytes, already consumed ---- *)
Lemma u_blockHeader d maxb pn O l sel :
  binv skip d maxb dict O (l_s l) -> bytes_ok sel = true -> zlen sel = 4 ->
  Kc pn (fun sk g => E_header bdec sk d maxb dict O (sel ++ g)) ->
  after pn O l (do_blockHeader l sel).
Proof.
  intros B Hb1 Hsel HK. unfold after.
  assert (T : forall g, take 4 (sel ++ g) = Some (sel, g)).
  { intro g. replace 4%nat with (length sel) by (unfold zlen in Hsel; lia). apply take_app. }
  assert (Hbh : rd32 sel = le_val sel) by (rewrite rd32_le_val by exact Hb1; rewrite ztake4_self by exact Hsel; reflexivity).
  assert (Hrange : 0 <= le_val sel < 4294967296).
  { pose proof (le_val_bound _ Hb1) as X. rewrite Hsel in X. change (256 ^ 4) with 4294967296 in X. exact X. }
  destruct (top_bit _ Hrange) as [TB1 TB2].
  pose proof (binv_flags _ _ _ _ _ _ B) as (F1 & F2 & F3).
  assert (Bk := B). destruct B as (B1 & B2 & B3 & B4 & B5 & B6 & B7).
  unfold do_blockHeader. ss. rewrite Hbh.
  destruct (le_val sel =? 0) eqn:E0.
  { apply Z.eqb_eq in E0. ss. exists []. rewrite !app_nil_r. repeat split; auto.
    eapply C_x with (d := d) (maxb := maxb); [reflexivity|binv_same Bk|].
    eapply Kc_weaken; [exact HK|]. intros sk g res. cbv beta. split; intro E.
    - eapply L_end; eauto.
    - destruct (L_inv _ _ _ _ _ _ _ _ (T g) E) as [[_ X]|[X _]]; [exact X|contradiction]. }
  apply Z.eqb_neq in E0. rewrite B2, TB2.
  destruct (maxb <? le_val sel mod 2147483648) eqn:EM.
  { cbn [fst snd]. intros _. apply (Kc_bad _ _ _ HK). intros R res E. cbv beta in E. apply Z.ltb_lt in EM.
    destruct (L_inv _ _ _ _ _ _ _ _ (T _) E) as [[X _]|(_ & X & _)]; [contradiction|lia]. }
  apply Z.ltb_ge in EM.
  assert (Hn0 : 0 <= le_val sel mod 2147483648) by (apply Z.mod_pos_bound; lia).
  unfold FD_BLOCKUNCOMPRESSED_FLAG. rewrite TB1. rewrite negb_involutive.
  set (n := le_val sel mod 2147483648) in *.
  destruct (2147483648 <=? le_val sel) eqn:ER.
  - (* uncompressed block *)
    ss. rewrite F1.
    assert (G : forall s1, d_fi s1 = d_fi (l_s l) -> d_maxBlock s1 = d_maxBlock (l_s l) -> d_skip s1 = d_skip (l_s l) ->
                d_hist s1 = d_hist (l_s l) -> d_xxh s1 = d_xxh (l_s l) -> d_remaining s1 = d_remaining (l_s l) ->
                d_stage s1 = CopyDirect -> d_tmpInTarget s1 = n ->
                (f_bcrc d = true -> skip = false -> d_bxxh s1 = []) -> CInv pn O s1).
    { intros s1 G1 G2 G3 G4 G5 G6 G7 G8 G9.
      eapply C_c with (d := d) (maxb := maxb) (acc0 := O) (data1 := []); auto.
      - rewrite app_nil_r. reflexivity.
      - unfold binv. rewrite G1, G2, G3, G4, G5, G6. repeat split; auto.
      - lia.
      - rewrite G8, zlen_nil. lia.
      - rewrite G8. eapply Kc_weaken; [exact HK|]. intros sk g res. cbv beta. split.
        + intros (data & r1 & T1 & E).
          eapply (L_block bdec sk d maxb dict O (sel ++ g) sel g res true data r1 data); eauto.
        + intro E. destruct (L_inv _ _ _ _ _ _ _ _ (T g) E) as [[X _]|(_ & _ & data & r1 & c & T1 & C & E1)]; [contradiction|].
          rewrite ER in C. inversion C; subst c. exists data, r1. split; [exact T1|exact E1]. }
    exists []. rewrite !app_nil_r.
    destruct (negb (f_bcrc d)) eqn:EB; ss; (split; [reflexivity|]; split; [reflexivity|]); apply G; ss; auto.
    intros C. rewrite C in EB. discriminate EB.
  - (* compressed block *)
    assert (Hcrc : fi_bcFlag (d_fi (l_s l)) * FD_BFSize = crc4 (f_bcrc d)).
    { rewrite B1. unfold fi_of_desc; ss. unfold crc4, FD_BFSize. destruct (f_bcrc d); reflexivity. }
    rewrite Hcrc.
    assert (G : CInv pn O (set_stage (set_tmpInTarget (l_s l) (n + crc4 (f_bcrc d))) GetCBlock)).
    { eapply C_g with (d := d) (maxb := maxb) (n := n); [reflexivity|binv_same Bk|reflexivity|lia|].
      eapply Kc_weaken; [exact HK|]. intros sk g res. cbv beta. split.
      - intros (data & r1 & c & T1 & C & E).
        eapply (L_block bdec sk d maxb dict O (sel ++ g) sel g res false data r1 c); eauto.
      - intro E. destruct (L_inv _ _ _ _ _ _ _ _ (T g) E) as [[X _]|(_ & _ & data & r1 & c & T1 & C & E1)]; [contradiction|].
        rewrite ER in C. exists data, r1, c. auto. }
    assert (Hpos : 0 < FD_BHSize + n + crc4 (f_bcrc d)) by (unfold crc4, FD_BHSize; destruct (f_bcrc d); lia).
    destruct ((l_cap l =? 0) || (zlen (l_src l) =? 0)); ss.
    + split; [lia|]. exists []. rewrite !app_nil_r.
      replace (FD_BHSize + n + crc4 (f_bcrc d) =? 0) with false by (symmetry; apply Z.eqb_neq; lia). auto.
    + exists []. rewrite !app_nil_r. auto.
Qed.

Lemma stage_facts (buf : list byte) size piece n t :
  pre buf size = t -> 0 <= size -> zlen piece = n ->
  wr buf size piece = t ++ piece /\ zlen (t ++ piece) = size + n /\ pre (wr buf size piece) (size + n) = t ++ piece.
Proof.
  intros Ht Hs Hp. rewrite wr_pre, Ht. assert (L : zlen (t ++ piece) = size + n).
  { rewrite zlen_app, <- Ht, pre_length by exact Hs. lia. }
  split; [reflexivity|]. split; [exact L|]. apply pre_full. exact L.
Qed.

Lemma stepr_stop_stage p O l l1 h x :
  0 < h -> l_src l = x ++ l_src l1 -> l_out l1 = l_out l -> bytes_ok x = true -> CInv (p ++ x) O (l_s l1) ->
  stepr p O l (l1, Stop h).
Proof.
  intros Hh A B C D. unfold stepr. cbn [fst snd]. split; [lia|]. exists x, []. rewrite !app_nil_r.
  replace (h =? 0) with false by (symmetry; apply Z.eqb_neq; lia). auto.
Qed.

(* ---- dstage_storeBlockHeader / dstage_getBlockHeader / dstage_init ---- *)
Lemma c_storeBlockHeader d maxb p O l t :
  d_stage (l_s l) = StoreBlockHeader -> binv skip d maxb dict O (l_s l) ->
  pre (d_tmpIn (l_s l)) (d_tmpInSize (l_s l)) = t -> bytes_ok t = true -> 0 <= d_tmpInSize (l_s l) < FD_BHSize ->
  Kc p (fun sk g => E_header bdec sk d maxb dict O (t ++ g)) -> bytes_ok (l_src l) = true ->
  stepr p O l (do_storeBlockHeader l).
Proof.
  intros Hst B Ht Hbt Hs HK Hb. unfold do_storeBlockHeader, tmpin_write. ss. unfold FD_BHSize in *.
  pose proof (zlen_nonneg (l_src l)) as Hl.
  set (n := Z.min (4 - d_tmpInSize (l_s l)) (zlen (l_src l))) in *.
  assert (Hn : 0 <= n <= zlen (l_src l) /\ n <= 4 - d_tmpInSize (l_s l)) by (unfold n; lia).
  set (piece := ztake n (l_src l)).
  assert (Hpl : zlen piece = n) by (unfold piece; rewrite zlen_ztake; lia).
  destruct (bytes_ok_split n _ Hb) as [Hbp Hbr]. fold piece in Hbp.
  destruct (stage_facts _ _ piece n t Ht ltac:(lia) Hpl) as (W1 & W2 & W3). rewrite W1.
  assert (Hbtp : bytes_ok (t ++ piece) = true) by (rewrite bytes_ok_app, Hbt, Hbp; reflexivity).
  assert (HK' : Kc (p ++ piece) (fun sk g => E_header bdec sk d maxb dict O ((t ++ piece) ++ g))).
  { eapply Kc_shift; [exact HK|]. intros sk g res. cbv beta. rewrite <- app_assoc. tauto. }
  destruct (d_tmpInSize (l_s l) + n <? 4) eqn:E.
  - apply Z.ltb_lt in E. apply stepr_stop_stage with (x := piece);
      [lia | ss; unfold piece; rewrite ztake_zdrop_app; reflexivity | reflexivity | exact Hbp |].
    eapply C_sh with (d := d) (maxb := maxb) (t := t ++ piece);
      [ss; exact Hst | binv_same B | ss; apply pre_full; exact W2 | exact Hbtp | exact HK'].
  - apply Z.ltb_ge in E.
    assert (H4 : zlen (t ++ piece) = 4) by lia.
    rewrite (ztake4_self _ H4).
    match goal with |- stepr _ _ _ (do_blockHeader ?l1 _) =>
      eapply (after_stepr p O l l1 n); [lia|exact Hb|reflexivity|reflexivity|] end.
    fold piece. apply (u_blockHeader d maxb); [binv_same B|exact Hbtp|exact H4|exact HK'].
Qed.

Lemma c_getBlockHeader d maxb p O l :
  binv skip d maxb dict O (l_s l) -> Kc p (fun sk => E_header bdec sk d maxb dict O) -> bytes_ok (l_src l) = true ->
  stepr p O l (do_getBlockHeader l).
Proof.
  intros B HK Hb. unfold do_getBlockHeader. unfold FD_BHSize at 1 2 3.
  pose proof (zlen_nonneg (l_src l)) as Hl.
  destruct (4 <=? zlen (l_src l)) eqn:E.
  - apply Z.leb_le in E.
    set (sel := ztake 4 (l_src l)).
    assert (Hsel : zlen sel = 4) by (unfold sel; rewrite zlen_ztake; lia).
    destruct (bytes_ok_split 4 _ Hb) as [Hb1 _]. fold sel in Hb1.
    eapply (after_stepr p O l (adv l 4) 4); [lia|exact Hb|reflexivity|reflexivity|]. fold sel.
    apply (u_blockHeader d maxb); [exact B|exact Hb1|exact Hsel|].
    eapply Kc_shift; [exact HK|]. intros sk g res. cbv beta. tauto.
  - apply Z.leb_gt in E.
    apply stepr_with_s with (s := set_stage (set_tmpInSize (l_s l) 0) StoreBlockHeader).
    apply (c_storeBlockHeader d maxb p O _ []); [reflexivity|binv_same B|reflexivity|reflexivity|ss; unfold FD_BHSize; lia|exact HK|exact Hb].
Qed.

(* ---- dstage_copyDirect ---- *)
Lemma take_app_more : forall (a g : list byte) k b r,
  take k g = Some (b, r) -> take (length a + k) (a ++ g) = Some (a ++ b, r).
Proof. induction a as [|x a IH]; intros g k b r H; [exact H|]. simpl. rewrite (IH _ _ _ _ H). reflexivity. Qed.

Lemma EC_step sk d maxb acc0 data1 m piece k g res :
  zlen piece = k -> 0 <= k <= m ->
  E_C sk d maxb acc0 (data1 ++ piece) (m - k) g res <-> E_C sk d maxb acc0 data1 m (piece ++ g) res.
Proof.
  intros Hp Hk.
  assert (Hm : Z.to_nat m = (length piece + Z.to_nat (m - k))%nat) by (unfold zlen in Hp; lia).
  split.
  - intros (data2 & r1 & T & E). exists (piece ++ data2), r1. split.
    + rewrite Hm. apply take_app_more. exact T.
    + rewrite app_assoc. exact E.
  - intros (data2 & r1 & T & E). rewrite Hm in T. destruct (take_app_inv _ _ _ _ _ T) as (b' & -> & T').
    exists b', r1. split; [exact T'|]. rewrite <- app_assoc. exact E.
Qed.
Lemma EC_done_nocrc sk d maxb acc0 data1 g res :
  f_bcrc d = false -> zlen data1 <= maxb ->
  E_header bdec sk d maxb dict (acc0 ++ data1) g res <-> E_C sk d maxb acc0 data1 0 g res.
Proof.
  intros Hb Hl. split.
  - intro E. exists [], g. split; [reflexivity|]. rewrite app_nil_r. unfold E_bcrc. rewrite Hb. split; assumption.
  - intros (data2 & r1 & T & E). change (Z.to_nat 0) with 0%nat in T. simpl in T. inversion T; subst.
    rewrite app_nil_r in E. unfold E_bcrc in E. rewrite Hb in E. apply E.
Qed.
Lemma EC_done_crc sk d maxb acc0 data1 g res :
  f_bcrc d = true -> E_B sk d maxb acc0 data1 [] g res <-> E_C sk d maxb acc0 data1 0 g res.
Proof.
  intros Hb. split.
  - intros (cb & r2 & T & C & E). exists [], g. split; [reflexivity|]. rewrite app_nil_r. unfold E_bcrc. rewrite Hb.
    exists cb, r2. auto.
  - intros (data2 & r1 & T & E). change (Z.to_nat 0) with 0%nat in T. simpl in T. inversion T; subst.
    rewrite app_nil_r in E. unfold E_bcrc in E. rewrite Hb in E. exact E.
Qed.

Lemma c_copyDirect o d maxb p acc0 data1 l :
  d_stage (l_s l) = CopyDirect -> binv skip d maxb dict (acc0 ++ data1) (l_s l) ->
  0 <= d_tmpInTarget (l_s l) -> zlen data1 + d_tmpInTarget (l_s l) <= maxb -> 0 <= l_cap l ->
  (f_bcrc d = true -> skip = false -> d_bxxh (l_s l) = data1) ->
  Kc p (fun sk => E_C sk d maxb acc0 data1 (d_tmpInTarget (l_s l))) -> bytes_ok (l_src l) = true ->
  stepr p (acc0 ++ data1) l (do_copyDirect o l).
Proof.
  intros Hst B Ht Hm Hc Hx HK Hb. unfold do_copyDirect.
  pose proof (zlen_nonneg (l_src l)) as Hl. pose proof (zlen_nonneg data1) as Hd1.
  pose proof (binv_flags _ _ _ _ _ _ B) as (F1 & F2 & F3).
  assert (Bk := B). destruct B as (B1 & B2 & B3 & B4 & B5 & B6 & B7).
  set (m := d_tmpInTarget (l_s l)) in *.
  (* what follows a piece [piece] of k bytes taken from the input, in a state s1 reached by the bookkeeping *)
  assert (Main : forall k (l2 : lst),
      0 <= k <= m -> k <= zlen (l_src l) ->
      l_src l2 = zdrop k (l_src l) -> l_out l2 = l_out l ++ ztake k (l_src l) ->
      binv skip d maxb dict ((acc0 ++ data1) ++ ztake k (l_src l)) (l_s l2) -> d_stage (l_s l2) = CopyDirect ->
      d_tmpInTarget (l_s l2) = m ->
      fi_bcFlag (d_fi (l_s l2)) = fi_bcFlag (d_fi (l_s l)) ->
      (f_bcrc d = true -> skip = false -> d_bxxh (l_s l2) = data1 ++ ztake k (l_src l)) ->
      stepr p (acc0 ++ data1) l
        (if k =? d_tmpInTarget (l_s l2)
         then if fi_bcFlag (d_fi (l_s l2)) =? 0
              then (with_s l2 (set_stage (l_s l2) GetBlockHeader), Continue)
              else (with_s l2 (set_stage (set_tmpInSize (l_s l2) 0) GetBlockChecksum), Continue)
         else (with_s l2 (set_tmpInTarget (l_s l2) (d_tmpInTarget (l_s l2) - k)),
               Stop (d_tmpInTarget (set_tmpInTarget (l_s l2) (d_tmpInTarget (l_s l2) - k)) +
                     bcsize (set_tmpInTarget (l_s l2) (d_tmpInTarget (l_s l2) - k)) + FD_BHSize)))).
  { intros k l2 Hk Hkl S2 S3 Bn St Tg FB X2. set (s1 := l_s l2) in *.
    set (piece := ztake k (l_src l)) in *.
    assert (Hpl : zlen piece = k) by (unfold piece; rewrite zlen_ztake; lia).
    destruct (bytes_ok_split k _ Hb) as [Hbp _]. fold piece in Hbp.
    assert (Hsrc : l_src l = piece ++ l_src l2) by (rewrite S2; unfold piece; rewrite ztake_zdrop_app; reflexivity).
    assert (HKs : Kc (p ++ piece) (fun sk => E_C sk d maxb acc0 (data1 ++ piece) (m - k))).
    { eapply Kc_shift; [exact HK|]. intros sk g res. apply EC_step; auto. }
    rewrite Tg, FB, F1. unfold stepr.
    destruct (k =? m) eqn:E.
    - apply Z.eqb_eq in E. replace (m - k) with 0 in HKs by lia.
      destruct (f_bcrc d) eqn:EB; cbn [negb fst snd].
      + exists piece, piece. ss. split; [exact Hsrc|]. split; [exact S3|]. split; [exact Hbp|].
        eapply C_b with (d := d) (maxb := maxb) (acc0 := acc0) (data := data1 ++ piece) (t := []);
          [reflexivity | rewrite app_assoc; reflexivity | binv_same Bn | exact EB | rewrite zlen_app; lia | | reflexivity | reflexivity |].
        * intro K. ss. apply X2; auto.
        * eapply Kc_weaken; [exact HKs|]. intros sk g res. apply EC_done_crc; auto.
      + exists piece, piece. ss. split; [exact Hsrc|]. split; [exact S3|]. split; [exact Hbp|].
        eapply C_h with (d := d) (maxb := maxb); [reflexivity | binv_same Bn |].
        eapply Kc_weaken; [exact HKs|]. intros sk g res. rewrite <- app_assoc.
        apply EC_done_nocrc; auto. rewrite zlen_app; lia.
    - apply Z.eqb_neq in E. cbn [fst snd].
      assert (Hpos : 0 < m - k + bcsize (set_tmpInTarget s1 (m - k)) + FD_BHSize).
      { unfold bcsize, FD_BFSize, FD_BHSize. destruct (fi_bcFlag (d_fi (set_tmpInTarget s1 (m - k))) =? 0); lia. }
      split; [ss; lia|].
      exists piece, piece. ss. split; [exact Hsrc|]. split; [exact S3|]. split; [exact Hbp|].
      replace (m - k + bcsize (set_tmpInTarget s1 (m - k)) + FD_BHSize =? 0) with false
        by (symmetry; apply Z.eqb_neq; lia).
      eapply C_c with (d := d) (maxb := maxb) (acc0 := acc0) (data1 := data1 ++ piece);
        [ss; exact St | rewrite app_assoc; reflexivity | binv_same Bn | ss; lia | ss; rewrite zlen_app; lia | ss; exact X2 | ss; exact HKs]. }
  destruct (o_dstnull o) eqn:Hnull; cbv iota beta.
  - (* NULL destination: an empty piece *)
    pose proof (Main 0 l) as M. cbv beta in M.
    assert (Z0 : ztake 0 (l_src l) = []) by reflexivity. rewrite Z0, !app_nil_r in M.
    apply M; auto; try lia.
  - set (k := Z.min m (Z.min (zlen (l_src l)) (l_cap l))).
    assert (Hk : 0 <= k <= m /\ k <= zlen (l_src l) /\ k <= l_cap l) by (unfold k; lia).
    set (piece := ztake k (l_src l)).
    assert (Hpl : zlen piece = k) by (unfold piece; rewrite zlen_ztake; lia).
    pose proof (upd_copy_core (l_s l) piece k) as C.
    pose proof (upd_copy_fields (l_s l) piece k) as (U1 & U2 & U3 & U4).
    set (s1 := upd_copy (l_s l) piece k) in *.
    destruct C as (C1 & C2 & C3 & C4 & C5 & C6 & C7 & C8 & C9 & C10 & C11).
    pose proof (Main k (adv (emit (with_s l s1) piece k) k)) as M. cbv beta in M. ss.
    apply M; auto; try lia; try congruence.
    + eapply (binv_append skip d maxb dict (acc0 ++ data1) (l_s l) s1 piece Bk); auto.
      * apply hist_eq_case. exact U1.
      * rewrite U2, B3, F2. destruct skip, (f_ccrc d); reflexivity.
      * rewrite U3, Hpl. reflexivity.
    + intros X1 X2. rewrite U4, B3, X2, F1, X1. cbn [negb]. rewrite (Hx X1 X2). reflexivity.
Qed.

(* ---- dstage_getBlockChecksum ---- *)
Lemma u_bcc d maxb pn acc0 data l crc :
  binv skip d maxb dict (acc0 ++ data) (l_s l) -> zlen data <= maxb ->
  (skip = false -> d_bxxh (l_s l) = data) -> zlen crc = 4 -> bytes_ok crc = true ->
  Kc pn (fun sk g => E_B sk d maxb acc0 data crc g) ->
  after pn (acc0 ++ data) l (do_blockChecksum_check l crc).
Proof.
  intros B Hd Hx Hcl Hbc HK. unfold do_blockChecksum_check, after.
  assert (Hrd : rd32 crc = le_val crc) by (rewrite rd32_le_val by exact Hbc; rewrite ztake4_self by exact Hcl; reflexivity).
  rewrite Hrd. assert (Bk := B). destruct B as (B1 & B2 & B3 & B4 & B5 & B6 & B7). rewrite B3.
  assert (Hc4 : zlen crc = Z.of_nat 4) by (rewrite Hcl; reflexivity).
  destruct (negb skip && negb (le_val crc =? xxh32 0 (d_bxxh (l_s l)))) eqn:EC; cbn [fst snd].
  { intros _. apply (Kc_bad _ _ _ HK). intros R res (cb & r2 & T & C & _).
    destruct (take_full _ _ _ _ _ Hc4 T) as [-> _]. destruct skip; [discriminate EC|]. cbn [negb andb orb] in *.
    rewrite (Hx eq_refl) in EC. rewrite C in EC. discriminate EC. }
  exists []. ss. rewrite !app_nil_r. split; [reflexivity|]. split; [reflexivity|].
  eapply C_h with (d := d) (maxb := maxb); [reflexivity | binv_same Bk |].
  eapply Kc_weaken2; [exact HK| |]; intros g res; cbv beta.
  - intro E. exists crc, g. split.
    + replace 4%nat with (length crc) by (unfold zlen in Hcl; lia). apply take_app.
    + split.
      * destruct skip; [reflexivity|]. cbn [negb andb orb] in *. rewrite (Hx eq_refl) in EC.
        apply negb_false_iff in EC. exact EC.
      * split; [exact Hd|exact E].
  - intros (cb & r2 & T & C & E). destruct (take_full _ _ _ _ _ Hc4 T) as [_ ->]. apply E.
Qed.

Lemma c_getBlockChecksum d maxb p acc0 data t l :
  d_stage (l_s l) = GetBlockChecksum -> binv skip d maxb dict (acc0 ++ data) (l_s l) -> zlen data <= maxb ->
  (skip = false -> d_bxxh (l_s l) = data) -> f_bcrc d = true ->
  pre (d_header (l_s l)) (d_tmpInSize (l_s l)) = t -> bytes_ok t = true -> 0 <= d_tmpInSize (l_s l) < 4 ->
  Kc p (fun sk => E_B sk d maxb acc0 data t) -> bytes_ok (l_src l) = true ->
  stepr p (acc0 ++ data) l (do_getBlockChecksum l).
Proof.
  intros Hst B Hd Hx EB Ht Hbt Hs HK Hb. unfold do_getBlockChecksum.
  pose proof (zlen_nonneg (l_src l)) as Hl.
  destruct ((4 <=? zlen (l_src l)) && (d_tmpInSize (l_s l) =? 0)) eqn:E.
  - apply andb_prop in E. destruct E as [E4 E0]. apply Z.leb_le in E4. apply Z.eqb_eq in E0.
    assert (Htn : t = []) by (rewrite <- Ht, E0; reflexivity). rewrite Htn in HK.
    set (crc := ztake 4 (l_src l)).
    assert (Hcl : zlen crc = 4) by (unfold crc; rewrite zlen_ztake; lia).
    destruct (bytes_ok_split 4 _ Hb) as [Hb1 _]. fold crc in Hb1.
    eapply (after_stepr p (acc0 ++ data) l (adv l 4) 4); [lia|exact Hb|reflexivity|reflexivity|]. fold crc.
    apply (u_bcc d maxb); [exact B|exact Hd|exact Hx|exact Hcl|exact Hb1|].
    eapply Kc_shift; [exact HK|]. intros sk g res. cbv beta. tauto.
  - clear E. unfold hdr_write. ss.
    set (n := Z.min (4 - d_tmpInSize (l_s l)) (zlen (l_src l))) in *.
    assert (Hn : 0 <= n <= zlen (l_src l) /\ n <= 4 - d_tmpInSize (l_s l)) by (unfold n; lia).
    set (piece := ztake n (l_src l)).
    assert (Hpl : zlen piece = n) by (unfold piece; rewrite zlen_ztake; lia).
    destruct (bytes_ok_split n _ Hb) as [Hbp Hbr]. fold piece in Hbp.
    destruct (stage_facts _ _ piece n t Ht ltac:(lia) Hpl) as (W1 & W2 & W3). rewrite W1.
    assert (Hbtp : bytes_ok (t ++ piece) = true) by (rewrite bytes_ok_app, Hbt, Hbp; reflexivity).
    assert (HK' : Kc (p ++ piece) (fun sk => E_B sk d maxb acc0 data (t ++ piece))).
    { eapply Kc_shift; [exact HK|]. intros sk g res. unfold E_B. rewrite <- app_assoc. tauto. }
    destruct (d_tmpInSize (l_s l) + n <? 4) eqn:E.
    + apply Z.ltb_lt in E. apply stepr_stop_stage with (x := piece);
        [lia | ss; unfold piece; rewrite ztake_zdrop_app; reflexivity | reflexivity | exact Hbp |].
      eapply C_b with (d := d) (maxb := maxb) (acc0 := acc0) (data := data) (t := t ++ piece);
        [ss; exact Hst | reflexivity | binv_same B | exact EB | exact Hd | ss; exact Hx | ss; apply pre_full; exact W2 | exact Hbtp | exact HK'].
    + apply Z.ltb_ge in E.
      assert (H4 : zlen (t ++ piece) = 4) by lia.
      rewrite (ztake4_self _ H4).
      match goal with |- stepr _ _ _ (do_blockChecksum_check ?l1 _) =>
        eapply (after_stepr p (acc0 ++ data) l l1 n); [lia|exact Hb|reflexivity|reflexivity|] end.
      fold piece. apply (u_bcc d maxb); [binv_same B|exact Hd|ss; exact Hx|exact H4|exact Hbtp|exact HK'].
Qed.

(* ---- dstage_flushOut and the decoding of a complete compressed block ---- *)
Lemma gbinv_linked d maxb ah ax s : gbinv d maxb ah ax s -> linked s = negb (f_indep d).
Proof. intros (H & _). unfold linked. rewrite H. unfold fi_of_desc; ss. destruct (f_indep d); reflexivity. Qed.

Lemma gbinv_link d maxb ah ax s s' piece :
  gbinv d maxb ah ax s ->
  d_fi s' = d_fi s -> d_maxBlock s' = d_maxBlock s -> d_skip s' = d_skip s ->
  (if linked s then lastn N64 (d_hist s') = lastn N64 (upd_hist (d_hist s) piece) else d_hist s' = d_hist s) ->
  d_xxh s' = d_xxh s -> d_remaining s' = d_remaining s ->
  gbinv d maxb (ah ++ piece) ax s'.
Proof.
  intros B E1 E2 E3 E4 E5 E6. pose proof (gbinv_linked _ _ _ _ _ B) as HL.
  destruct B as (B1 & B2 & B3 & B4 & B5 & B6 & B7).
  unfold gbinv. rewrite E1, E2, E3, E5, E6. rewrite HL in E4.
  split; [exact B1|]. split; [exact B2|]. split; [exact B3|]. split; [|split; [exact B5|split; [exact B6|exact B7]]].
  destruct (f_indep d); cbn [negb] in *; [rewrite E4; exact B4|].
  rewrite E4. unfold upd_hist. fold N64. rewrite lastn_idem. rewrite <- lastn_app_lastn. rewrite B4.
  rewrite lastn_app_lastn. rewrite app_assoc. reflexivity.
Qed.

Lemma gbinv_decoded d maxb acc s s' c :
  binv skip d maxb dict acc s ->
  d_fi s' = d_fi s -> d_maxBlock s' = d_maxBlock s -> d_skip s' = d_skip s -> d_hist s' = d_hist s ->
  d_xxh s' = (if negb (fi_ccFlag (d_fi s) =? 0) && negb (d_skip s) then d_xxh s ++ c else d_xxh s) ->
  d_remaining s' = (if fi_contentSize (d_fi s) =? 0 then d_remaining s else u64 (d_remaining s - zlen c)) ->
  gbinv d maxb acc (acc ++ c) s'.
Proof.
  intros B E1 E2 E3 E4 E5 E6. pose proof (binv_flags _ _ _ _ _ _ B) as (F1 & F2 & F3).
  destruct B as (B1 & B2 & B3 & B4 & B5 & B6 & B7).
  unfold gbinv. rewrite E1, E2, E3, E4, E5, E6, F2, F3, B3.
  split; [exact B1|]. split; [exact B2|]. split; [reflexivity|]. split; [exact B4|]. split; [|split; [|exact B7]].
  - intros C K. rewrite C, K. cbn [negb andb]. rewrite (B5 C K). reflexivity.
  - rewrite B6. destruct (f_csize d) as [n|]; [|reflexivity].
    destruct (n =? 0) eqn:E0; [reflexivity|]. rewrite u64_sub, zlen_app. reflexivity.
Qed.

Lemma firstn_plus : forall (a n : nat) (l : list byte), firstn (a + n) l = firstn a l ++ firstn n (skipn a l).
Proof. induction a as [|a IH]; intros n l; [reflexivity|]. destruct l as [|x l]; simpl; [rewrite firstn_nil; reflexivity|]. rewrite IH. reflexivity. Qed.
Lemma ztake_plus a n (l : list byte) : 0 <= a -> 0 <= n -> ztake (a + n) l = ztake a l ++ ztake n (zdrop a l).
Proof. intros Ha Hn. unfold ztake, zdrop. rewrite Z2Nat.inj_add by lia. apply firstn_plus. Qed.

Lemma u_flushOut o d maxb pn O acc0 l :
  d_stage (l_s l) = FlushOut -> O = acc0 ++ ztake (d_tmpOutStart (l_s l)) (d_tmpOut (l_s l)) ->
  gbinv d maxb O (acc0 ++ d_tmpOut (l_s l)) (l_s l) ->
  0 <= d_tmpOutStart (l_s l) <= zlen (d_tmpOut (l_s l)) -> zlen (d_tmpOut (l_s l)) <= maxb -> 0 <= l_cap l ->
  Kc pn (fun sk => E_header bdec sk d maxb dict (acc0 ++ d_tmpOut (l_s l))) ->
  after pn O l (do_flushOut o l).
Proof.
  intros Hst HO B Hs Hm Hc HK. unfold do_flushOut.
  set (st := d_tmpOutStart (l_s l)) in *. set (c := d_tmpOut (l_s l)) in *.
  (* after a piece of k bytes has been flushed *)
  assert (Main : forall k (l2 : lst),
     0 <= k -> st + k <= zlen c -> l_src l2 = l_src l -> l_out l2 = l_out l ++ ztake k (zdrop st c) ->
     d_stage (l_s l2) = FlushOut -> d_tmpOut (l_s l2) = c -> d_tmpOutStart (l_s l2) = st + k ->
     gbinv d maxb (O ++ ztake k (zdrop st c)) (acc0 ++ c) (l_s l2) ->
     after pn O l (if d_tmpOutStart (l_s l2) =? zlen (d_tmpOut (l_s l2))
                   then (with_s l2 (set_stage (l_s l2) GetBlockHeader), Continue)
                   else (l2, Stop FD_BHSize))).
  { intros k l2 Hk Hk2 S1 S2 S3 S4 S5 Bn. unfold after. rewrite S4, S5.
    set (piece := ztake k (zdrop st c)) in *.
    assert (HO' : O ++ piece = acc0 ++ ztake (st + k) c).
    { rewrite HO, <- app_assoc. unfold piece. rewrite ztake_plus by lia. reflexivity. }
    destruct (st + k =? zlen c) eqn:E; cbn [fst snd].
    - apply Z.eqb_eq in E. exists piece. ss. split; [exact S1|]. split; [exact S2|].
      assert (HO2 : O ++ piece = acc0 ++ c) by (rewrite HO', ztake_all by lia; reflexivity).
      eapply C_h with (d := d) (maxb := maxb).
      + reflexivity.
      + rewrite HO2 in Bn. apply gbinv_binv in Bn. rewrite HO2. binv_same Bn.
      + rewrite HO2. exact HK.
    - split; [unfold FD_BHSize; lia|]. exists piece. split; [exact S1|]. split; [exact S2|]. unfold FD_BHSize. cbn [Z.eqb].
      eapply C_f with (d := d) (maxb := maxb) (acc0 := acc0).
      + exact S3.
      + rewrite S5, S4. exact HO'.
      + rewrite S4. exact Bn.
      + rewrite S4. exact Hm.
      + rewrite S4. exact HK. }
  destruct (o_dstnull o) eqn:Hnull.
  - pose proof (Main 0 l) as M. cbv beta in M.
    assert (Z0 : ztake 0 (zdrop st c) = []) by reflexivity. rewrite Z0, !app_nil_r in M.
    apply M; auto; try lia.
  - set (k := Z.min (zlen c - st) (l_cap l)).
    assert (Hk : 0 <= k /\ st + k <= zlen c /\ k <= l_cap l) by (unfold k; lia).
    set (piece := ztake k (zdrop st c)).
    pose proof (upd_link_core (l_s l) piece) as L. pose proof (upd_link_fields (l_s l) piece) as (V1 & V2 & V3 & V4).
    set (s2 := upd_link (l_s l) piece) in *.
    destruct L as (L1 & L2 & L3 & L4 & L5 & L6 & L7 & L8 & L9 & L10 & L11).
    pose proof (Main k (emit (with_s l (set_tmpOutStart s2 (d_tmpOutStart s2 + k))) piece k)) as M. cbv beta in M. ss.
    apply M; auto; try lia; try congruence.
    eapply (gbinv_link d maxb O (acc0 ++ c) (l_s l) _ piece B); ss; auto.
    apply hist_eq_case. exact V1.
Qed.

Lemma stepr_after_with_s pn O l s r : after pn O (with_s l s) r -> after pn O l r.
Proof. unfold after. destruct (snd r); auto. Qed.

Lemma after_stepr0 p O l r : bytes_ok (l_src l) = true -> after p O l r -> stepr p O l r.
Proof.
  intros Hb A. apply (after_stepr p O l l 0); [pose proof (zlen_nonneg (l_src l)); lia|exact Hb|reflexivity|reflexivity|].
  assert (Z0 : ztake 0 (l_src l) = []) by reflexivity. rewrite Z0, app_nil_r. exact A.
Qed.

Lemma c_flushOut o d maxb p O acc0 l :
  d_stage (l_s l) = FlushOut -> O = acc0 ++ ztake (d_tmpOutStart (l_s l)) (d_tmpOut (l_s l)) ->
  gbinv d maxb O (acc0 ++ d_tmpOut (l_s l)) (l_s l) ->
  0 <= d_tmpOutStart (l_s l) <= zlen (d_tmpOut (l_s l)) -> zlen (d_tmpOut (l_s l)) <= maxb -> 0 <= l_cap l ->
  Kc p (fun sk => E_header bdec sk d maxb dict (acc0 ++ d_tmpOut (l_s l))) -> bytes_ok (l_src l) = true ->
  stepr p O l (do_flushOut o l).
Proof. intros. apply after_stepr0; [assumption|]. eapply u_flushOut; eauto. Qed.

Lemma u_cblock o d maxb pn O l sel n :
  binv skip d maxb dict O (l_s l) -> bytes_ok sel = true ->
  d_tmpInTarget (l_s l) = n + crc4 (f_bcrc d) -> 0 <= n <= maxb -> zlen sel = n + crc4 (f_bcrc d) -> 0 <= l_cap l ->
  Kc pn (fun sk g => X_comp bdec sk d maxb dict O n (sel ++ g)) ->
  after pn O l (do_cblock bdec o l sel).
Proof.
  intros B Hbs Ht Hn Hsl Hc HK. unfold do_cblock.
  pose proof (binv_flags _ _ _ _ _ _ B) as (F1 & F2 & F3). pose proof (binv_linked _ _ _ _ _ _ B) as HL.
  assert (Bk := B). destruct B as (B1 & B2 & B3 & B4 & B5 & B6 & B7).
  set (data := ztake n sel).
  assert (Hsl' : n <= zlen sel) by (unfold crc4 in Hsl; destruct (f_bcrc d); lia).
  assert (Hsl'' : (Z.to_nat n - length sel)%nat = 0%nat) by (unfold zlen in Hsl'; lia).
  assert (Hdl : zlen data = n) by (unfold data; rewrite zlen_ztake; lia).
  assert (Tk : forall rest, take (Z.to_nat n) (sel ++ rest) = Some (data, zdrop n sel ++ rest)).
  { intro rest. rewrite (take_ztake n) by (rewrite zlen_app; pose proof (zlen_nonneg rest); lia).
    unfold data, ztake, zdrop. f_equal. f_equal.
    - rewrite firstn_app, Hsl''. simpl. apply app_nil_r.
    - rewrite skipn_app, Hsl''. reflexivity. }
  rewrite F1.
  assert (CRC : forall s0 crcok,
     (if negb (f_bcrc d) then (l_s l, true)
      else (set_tmpInTarget (l_s l) (d_tmpInTarget (l_s l) - 4),
            rd32 (zdrop (d_tmpInTarget (set_tmpInTarget (l_s l) (d_tmpInTarget (l_s l) - 4))) sel) =?
            xxh32 0 (ztake (d_tmpInTarget (set_tmpInTarget (l_s l) (d_tmpInTarget (l_s l) - 4))) sel))) = (s0, crcok) ->
     d_tmpInTarget s0 = n /\ binv skip d maxb dict O s0 /\
     (crcok = true -> forall sk c rest res, E_after bdec sk d maxb dict O c rest res <->
                      E_bcrc bdec sk d maxb dict O data c (zdrop n sel ++ rest) res) /\
     (crcok = false -> forall c rest res, ~ E_bcrc bdec false d maxb dict O data c (zdrop n sel ++ rest) res)).
  { intros s0 crcok H. destruct (f_bcrc d) eqn:EB; cbn [negb] in H; injection H as <- <-.
    - ss. unfold crc4 in *. rewrite Ht. split; [lia|]. split; [binv_same Bk|].
      replace (n + 4 - 4) with n by lia.
      set (cb := zdrop n sel) in *.
      assert (Hcb : zlen cb = 4) by (unfold cb; rewrite zlen_zdrop; lia).
      assert (Hcb' : zlen cb = Z.of_nat 4) by (rewrite Hcb; reflexivity).
      destruct (bytes_ok_split n _ Hbs) as [_ Hbc]. fold cb in Hbc.
      assert (Hrd : rd32 cb = le_val cb) by (rewrite rd32_le_val by exact Hbc; rewrite ztake4_self by exact Hcb; reflexivity).
      rewrite Hrd. fold data. split.
      + intros C sk c rest res. unfold E_bcrc. rewrite EB. split.
        * intro E. exists cb, rest. split.
          -- replace 4%nat with (length cb) by (unfold zlen in Hcb; lia). apply take_app.
          -- split; [|exact E]. rewrite C. apply orb_true_r.
        * intros (cb1 & r2 & T & _ & E). destruct (take_full _ _ _ _ _ Hcb' T) as [_ ->]. exact E.
      + intros C c rest res. unfold E_bcrc. rewrite EB. intros (cb1 & r2 & T & K & _).
        destruct (take_full _ _ _ _ _ Hcb' T) as [-> _]. cbn [orb] in K. rewrite C in K. discriminate K.
    - unfold crc4 in *. split; [lia|]. split; [exact Bk|].
      assert (Z0 : zdrop n sel = []) by (unfold zdrop; apply skipn_all2; unfold zlen in Hsl; lia).
      rewrite Z0. split; [|discriminate].
      intros _ sk c rest res. unfold E_bcrc. rewrite EB. cbn [app]. tauto. }
  match goal with |- context [let '(_, _) := ?x in _] => destruct x as [s0 crcok] eqn:EX end.
  destruct (CRC s0 crcok eq_refl) as (T0 & B0 & C0 & C0f). clear CRC EX.
  (* what the specification says about this block: the same bytes, the same decoder *)
  assert (XI : forall sk g res, X_comp bdec sk d maxb dict O n (sel ++ g) res ->
               exists c, bdec (spec_hist d dict O) data = Some c /\ E_bcrc bdec sk d maxb dict O data c (zdrop n sel ++ g) res).
  { intros sk g res (data' & r1 & c & T1 & D1 & E1). rewrite Tk in T1. inversion T1; subst data' r1. exists c. auto. }
  destruct (negb crcok) eqn:EN.
  { cbn [fst snd]. intros _. apply (Kc_bad _ _ _ HK). intros R res E. cbv beta in E.
    destruct (XI _ _ _ E) as (c & _ & E1). apply negb_true_iff in EN. exact (C0f EN _ _ _ E1). }
  apply negb_false_iff in EN. specialize (C0 EN). clear C0f.
  assert (HL0 : linked s0 = negb (f_indep d)) by (eapply binv_linked; exact B0).
  rewrite T0, HL0. fold data.
  assert (Hh : (if negb (f_indep d) then lastn (Z.to_nat FD_64KB) (d_hist s0) else d_hist s0) = spec_hist d dict O).
  { destruct B0 as (_ & _ & _ & X & _). unfold spec_hist. fold N64. destruct (f_indep d); cbn [negb]; [exact X|].
    rewrite X, N64_eq. reflexivity. }
  rewrite Hh.
  destruct (bdec (spec_hist d dict O) data) as [c|] eqn:ED.
  2:{ cbn [fst snd]. intros _. apply (Kc_bad _ _ _ HK). intros R res E. cbv beta in E.
      destruct (XI _ _ _ E) as (c & D1 & _). discriminate D1. }
  assert (Bd := B0). destruct B0 as (D1 & D2 & D3 & D4 & D5 & D6 & D7). rewrite D2.
  destruct (zlen c <=? maxb) eqn:EL.
  2:{ cbn [fst snd]. intros _. apply (Kc_bad _ _ _ HK). intros R res E. cbv beta in E.
      destruct (XI _ _ _ E) as (c' & D1' & E1). inversion D1'; subst c'. apply C0 in E1. destruct E1 as [E1 _].
      apply Z.leb_gt in EL. lia. }
  apply Z.leb_le in EL.
  pose proof (upd_decoded_core s0 c) as C. pose proof (upd_decoded_fields s0 c) as (U1 & U2 & U3).
  set (s1 := upd_decoded s0 c) in *.
  destruct C as (C1 & C2 & C3 & C4 & C5 & C6 & C7 & C8 & C9 & C10 & C11).
  assert (HKc : Kc pn (fun sk => E_header bdec sk d maxb dict (O ++ c))).
  { eapply Kc_weaken; [exact HK|]. intros sk g res. cbv beta. split.
    - intro E. exists data, (zdrop n sel ++ g), c.
      split; [apply Tk|]. split; [exact ED|]. apply C0. split; [exact EL|exact E].
    - intro E. destruct (XI _ _ _ E) as (c' & D1' & E1). inversion D1'; subst c'. apply C0 in E1. apply E1. }
  pose proof (zlen_nonneg c) as Hc0.
  rewrite C3, D2.
  destruct (maxb <=? l_cap l) eqn:EC.
  - (* straight into dst *)
    pose proof (upd_link_core s1 c) as L. pose proof (upd_link_fields s1 c) as (V1 & V2 & V3 & V4).
    set (s2 := upd_link s1 c) in *.
    destruct L as (L1 & L2 & L3 & L4 & L5 & L6 & L7 & L8 & L9 & L10 & L11).
    unfold after. cbn [fst snd]. exists c. ss. split; [reflexivity|]. split; [reflexivity|].
    eapply C_h with (d := d) (maxb := maxb); [reflexivity| |exact HKc].
    eapply (binv_append skip d maxb dict O s0 _ c Bd); ss; try congruence.
    apply hist_eq_case. rewrite V1. unfold linked. rewrite C1, U1. reflexivity.
  - (* through tmpOut *)
    match goal with |- after _ _ _ (do_flushOut _ (with_s _ ?S)) => apply (stepr_after_with_s pn O l S) end.
    eapply (u_flushOut o d maxb pn O O); ss.
    + reflexivity.
    + assert (Z0 : ztake 0 c = []) by reflexivity. rewrite Z0, app_nil_r. reflexivity.
    + eapply (gbinv_decoded d maxb O s0 _ c Bd); ss; congruence.
    + lia.
    + exact EL.
    + exact Hc.
    + exact HKc.
Qed.

Lemma stepr_continue_same p O l l1 :
  l_src l1 = l_src l -> l_out l1 = l_out l -> CInv p O (l_s l1) -> stepr p O l (l1, Continue).
Proof.
  intros A B C. unfold stepr. cbn [fst snd]. exists [], []. rewrite !app_nil_r. rewrite A, B. auto.
Qed.

Lemma c_storeCBlock o d maxb p O l n t :
  d_stage (l_s l) = StoreCBlock -> binv skip d maxb dict O (l_s l) ->
  d_tmpInTarget (l_s l) = n + crc4 (f_bcrc d) -> 0 <= n <= maxb ->
  pre (d_tmpIn (l_s l)) (d_tmpInSize (l_s l)) = t -> bytes_ok t = true ->
  0 <= d_tmpInSize (l_s l) < d_tmpInTarget (l_s l) -> 0 <= l_cap l ->
  Kc p (fun sk g => X_comp bdec sk d maxb dict O n (t ++ g)) -> bytes_ok (l_src l) = true ->
  stepr p O l (do_storeCBlock bdec o l).
Proof.
  intros Hst B Htg Hn Ht Hbt Hs Hc HK Hb. unfold do_storeCBlock, tmpin_write. ss.
  pose proof (zlen_nonneg (l_src l)) as Hl.
  set (tg := d_tmpInTarget (l_s l)) in *.
  set (k := Z.min (tg - d_tmpInSize (l_s l)) (zlen (l_src l))) in *.
  assert (Hk : 0 <= k <= zlen (l_src l) /\ k <= tg - d_tmpInSize (l_s l)) by (unfold k; lia).
  set (piece := ztake k (l_src l)).
  assert (Hpl : zlen piece = k) by (unfold piece; rewrite zlen_ztake; lia).
  destruct (bytes_ok_split k _ Hb) as [Hbp Hbr]. fold piece in Hbp.
  destruct (stage_facts _ _ piece k t Ht ltac:(lia) Hpl) as (W1 & W2 & W3). rewrite W1.
  assert (Hbtp : bytes_ok (t ++ piece) = true) by (rewrite bytes_ok_app, Hbt, Hbp; reflexivity).
  assert (HK' : Kc (p ++ piece) (fun sk g => X_comp bdec sk d maxb dict O n ((t ++ piece) ++ g))).
  { eapply Kc_shift; [exact HK|]. intros sk g res. cbv beta. rewrite <- app_assoc. tauto. }
  destruct (d_tmpInSize (l_s l) + k <? tg) eqn:E.
  - apply Z.ltb_lt in E. apply stepr_stop_stage with (x := piece).
    + unfold FD_BHSize. lia.
    + ss. unfold piece. rewrite ztake_zdrop_app. reflexivity.
    + reflexivity.
    + exact Hbp.
    + eapply C_s with (d := d) (maxb := maxb) (n := n) (t := t ++ piece);
        [ss; exact Hst | binv_same B | ss; exact Htg | exact Hn | ss; apply pre_full; exact W2 | exact Hbtp | exact HK'].
  - apply Z.ltb_ge in E.
    assert (Hfull : zlen (t ++ piece) = tg) by lia.
    rewrite (ztake_all tg (t ++ piece)) by lia.
    match goal with |- stepr _ _ _ (do_cblock _ _ ?l1 _) =>
      eapply (after_stepr p O l l1 k); [lia|exact Hb|reflexivity|reflexivity|] end.
    fold piece. apply (u_cblock o d maxb _ O _ _ n); [binv_same B|exact Hbtp|ss; exact Htg|exact Hn|lia|ss; exact Hc|exact HK'].
Qed.

Lemma c_getCBlock o d maxb p O l n :
  d_stage (l_s l) = GetCBlock -> binv skip d maxb dict O (l_s l) ->
  d_tmpInTarget (l_s l) = n + crc4 (f_bcrc d) -> 0 <= n <= maxb -> 0 <= l_cap l ->
  Kc p (fun sk => X_comp bdec sk d maxb dict O n) -> bytes_ok (l_src l) = true ->
  stepr p O l (do_getCBlock bdec o l).
Proof.
  intros Hst B Htg Hn Hc HK Hb. unfold do_getCBlock.
  pose proof (zlen_nonneg (l_src l)) as Hl.
  assert (Hcr : 0 <= crc4 (f_bcrc d)) by (unfold crc4; destruct (f_bcrc d); lia).
  destruct (zlen (l_src l) <? d_tmpInTarget (l_s l)) eqn:E.
  - apply stepr_continue_same; [reflexivity|reflexivity|].
    eapply C_s with (d := d) (maxb := maxb) (n := n) (t := []);
      [reflexivity | binv_same B | ss; exact Htg | exact Hn | reflexivity | reflexivity | exact HK].
  - apply Z.ltb_ge in E.
    set (tg := d_tmpInTarget (l_s l)) in *.
    destruct (bytes_ok_split tg _ Hb) as [Hb1 _].
    eapply (after_stepr p O l (adv l tg) tg); [lia|exact Hb|reflexivity|reflexivity|].
    apply (u_cblock o d maxb _ O _ _ n); [exact B|exact Hb1|exact Htg|exact Hn|rewrite zlen_ztake; lia|exact Hc|].
    eapply Kc_shift; [exact HK|]. intros sk g res. cbv beta. tauto.
Qed.

(* ---- the end of the frame ---- *)
Lemma fin_ok_here d maxb O s :
  binv skip d maxb dict O s -> d_remaining s = 0 -> zlen O < 18446744073709551616 ->
  forall rest, fin_ok d O rest (O, rest).
Proof.
  intros (B1 & B2 & B3 & B4 & B5 & B6 & B7) ER Hacc rest. pose proof (zlen_nonneg O) as Ha.
  unfold fin_ok. split; [|reflexivity].
  destruct (f_csize d) as [n|]; [|exact I].
  rewrite B6 in ER. destruct (n =? 0) eqn:E0; [reflexivity|]. cbn [orb].
  apply Z.eqb_eq. unfold u64 in ER. fold (zlen O).
  assert (X : (n - zlen O) mod 18446744073709551616 = 0) by exact ER.
  apply Z.mod_divide in X; [|lia]. destruct X as [q Hq].
  assert (q = 0) by nia. subst q. lia.
Qed.

(* when the rest of the input does lead to acceptance, the size test follows from the specification *)
Definition Valid (p rem : list byte) : Prop := exists R res, SpecGoalF p (rem ++ R) res.
Lemma Valid_shift p (src : list byte) n : Valid p src -> Valid (p ++ ztake n src) (zdrop n src).
Proof.
  intros (R & res & G). exists R, res. unfold SpecGoalF in *.
  rewrite <- app_assoc, (app_assoc (ztake n src)), ztake_zdrop_app. exact G.
Qed.
Definition csize_ok (d : fdesc) (O : list byte) : Prop :=
  match f_csize d with Some n => (n =? 0) || (n =? Z.of_nat (length O)) = true | None => True end.
Lemma E_suffix_csize sk d O bs res : E_suffix sk d O bs res -> csize_ok d O.
Proof.
  unfold E_suffix, fin_ok, csize_ok. destruct (f_ccrc d).
  - intros (cb & r1 & _ & _ & H & _). exact H.
  - intros (H & _). exact H.
Qed.
Lemma csize_remaining d maxb O s : binv skip d maxb dict O s -> csize_ok d O -> d_remaining s = 0.
Proof.
  intros (B1 & B2 & B3 & B4 & B5 & B6 & B7) H. unfold csize_ok in H. rewrite B6.
  destruct (f_csize d) as [n|]; [|reflexivity]. destruct (n =? 0) eqn:E0; [reflexivity|]. cbn [orb] in H.
  apply Z.eqb_eq in H. fold (zlen O) in H. rewrite H, Z.sub_diag. reflexivity.
Qed.
Lemma fin_ok_either d maxb pn O s rem (E : bool -> list byte -> list byte * list byte -> Prop) :
  binv skip d maxb dict O s -> d_remaining s = 0 ->
  zlen O < 18446744073709551616 \/ Valid pn rem ->
  Kc pn E -> (forall g res, E false g res -> csize_ok d O) ->
  forall rest, fin_ok d O rest (O, rest).
Proof.
  intros B ER [Hacc|(R & res & G)] [_ K2] HE rest; [eapply fin_ok_here; eauto|].
  split; [|reflexivity]. exact (HE _ _ (K2 _ _ G)).
Qed.

Lemma u_checkSuffix d maxb pn O l crc :
  binv skip d maxb dict O (l_s l) -> f_ccrc d = true -> d_remaining (l_s l) = 0 ->
  zlen O < 18446744073709551616 \/ Valid pn (l_src l) -> zlen crc = 4 -> bytes_ok crc = true ->
  Kc pn (fun sk g => E_suffix sk d O (crc ++ g)) ->
  after pn O l (do_checkSuffix l crc).
Proof.
  intros B EC ER Hacc Hcl Hbc HK. unfold do_checkSuffix, after.
  pose proof (fin_ok_either d maxb pn O _ _ _ B ER Hacc HK ltac:(intros g res; apply E_suffix_csize)) as FIN.
  assert (Hrd : rd32 crc = le_val crc) by (rewrite rd32_le_val by exact Hbc; rewrite ztake4_self by exact Hcl; reflexivity).
  assert (Hc4 : zlen crc = Z.of_nat 4) by (rewrite Hcl; reflexivity).
  destruct B as (B1 & B2 & B3 & B4 & B5 & B6 & B7). rewrite Hrd, B3.
  destruct (negb skip && negb (le_val crc =? xxh32 0 (d_xxh (l_s l)))) eqn:EK; cbn [fst snd].
  { intros _. apply (Kc_bad _ _ _ HK). intros R res E. cbv beta in E. unfold E_suffix in E. rewrite EC in E.
    destruct E as (cb & r1 & T & C & _). destruct (take_full _ _ _ _ _ Hc4 T) as [-> _].
    destruct skip; [discriminate EK|]. cbn [negb andb orb] in *. rewrite (B5 EC eq_refl) in EK. rewrite C in EK. discriminate EK. }
  split; [lia|]. exists []. ss. rewrite !app_nil_r. split; [reflexivity|]. split; [reflexivity|]. left.
  intro g. apply (proj1 HK). unfold E_suffix. rewrite EC. exists crc, g. split.
  - replace 4%nat with (length crc) by (unfold zlen in Hcl; lia). apply take_app.
  - split; [|apply FIN].
    destruct skip; [reflexivity|]. cbn [negb andb orb] in *. rewrite (B5 EC eq_refl) in EK.
    apply negb_false_iff in EK. exact EK.
Qed.

Lemma c_storeSuffix d maxb p O l t :
  d_stage (l_s l) = StoreSuffix -> binv skip d maxb dict O (l_s l) -> f_ccrc d = true -> d_remaining (l_s l) = 0 ->
  zlen O < 18446744073709551616 \/ Valid p (l_src l) ->
  pre (d_tmpIn (l_s l)) (d_tmpInSize (l_s l)) = t -> bytes_ok t = true -> 0 <= d_tmpInSize (l_s l) < 4 ->
  Kc p (fun sk g => E_suffix sk d O (t ++ g)) -> bytes_ok (l_src l) = true ->
  stepr p O l (do_storeSuffix l).
Proof.
  intros Hst B EC ER Hacc Ht Hbt Hs HK Hb. unfold do_storeSuffix, tmpin_write. ss.
  pose proof (zlen_nonneg (l_src l)) as Hl.
  set (n := Z.min (4 - d_tmpInSize (l_s l)) (zlen (l_src l))) in *.
  assert (Hn : 0 <= n <= zlen (l_src l) /\ n <= 4 - d_tmpInSize (l_s l)) by (unfold n; lia).
  set (piece := ztake n (l_src l)).
  assert (Hpl : zlen piece = n) by (unfold piece; rewrite zlen_ztake; lia).
  destruct (bytes_ok_split n _ Hb) as [Hbp Hbr]. fold piece in Hbp.
  destruct (stage_facts _ _ piece n t Ht ltac:(lia) Hpl) as (W1 & W2 & W3). rewrite W1.
  assert (Hbtp : bytes_ok (t ++ piece) = true) by (rewrite bytes_ok_app, Hbt, Hbp; reflexivity).
  assert (HK' : Kc (p ++ piece) (fun sk g => E_suffix sk d O ((t ++ piece) ++ g))).
  { eapply Kc_shift; [exact HK|]. intros sk g res. cbv beta. rewrite <- app_assoc. tauto. }
  destruct (d_tmpInSize (l_s l) + n <? 4) eqn:E.
  - apply Z.ltb_lt in E. apply stepr_stop_stage with (x := piece);
      [lia | ss; unfold piece; rewrite ztake_zdrop_app; reflexivity | reflexivity | exact Hbp |].
    eapply C_xs with (d := d) (maxb := maxb) (t := t ++ piece);
      [ss; exact Hst | binv_same B | exact EC | ss; exact ER | ss; apply pre_full; exact W2 | exact Hbtp | exact HK'].
  - apply Z.ltb_ge in E.
    assert (H4 : zlen (t ++ piece) = 4) by lia.
    rewrite (ztake4_self _ H4).
    match goal with |- stepr _ _ _ (do_checkSuffix ?l1 _) =>
      eapply (after_stepr p O l l1 n); [lia|exact Hb|reflexivity|reflexivity|] end.
    fold piece. apply (u_checkSuffix d maxb); [binv_same B|exact EC|ss; exact ER| |exact H4|exact Hbtp|exact HK'].
    destruct Hacc as [Hacc|Hv]; [left; exact Hacc|right; ss; apply Valid_shift; exact Hv].
Qed.

Lemma c_getSuffix d maxb p O l :
  d_stage (l_s l) = GetSuffix -> binv skip d maxb dict O (l_s l) ->
  zlen O < 18446744073709551616 \/ Valid p (l_src l) ->
  Kc p (fun sk => E_suffix sk d O) -> bytes_ok (l_src l) = true ->
  stepr p O l (do_getSuffix l).
Proof.
  intros Hst B Hacc HK Hb. unfold do_getSuffix.
  pose proof (zlen_nonneg (l_src l)) as Hl.
  pose proof (binv_flags _ _ _ _ _ _ B) as (F1 & F2 & F3).
  destruct (negb (d_remaining (l_s l) =? 0)) eqn:ER.
  { cbn [fst snd]. intros _. apply (Kc_bad _ _ _ HK). intros R res E.
    pose proof (csize_remaining _ _ _ _ B (E_suffix_csize _ _ _ _ _ E)) as Z0. rewrite Z0 in ER. discriminate ER. }
  apply negb_false_iff in ER. apply Z.eqb_eq in ER.
  pose proof (fin_ok_either d maxb p O _ _ _ B ER Hacc HK ltac:(intros g res; apply E_suffix_csize)) as FIN.
  rewrite F2.
  destruct (f_ccrc d) eqn:EC; cbn [negb].
  2:{ unfold stepr. cbn [fst snd Z.eqb]. split; [lia|]. exists [], []. ss. rewrite !app_nil_r.
      split; [reflexivity|]. split; [reflexivity|]. split; [reflexivity|]. left.
      intro g. apply (proj1 HK). unfold E_suffix. rewrite EC. apply FIN. }
  destruct (zlen (l_src l) <? 4) eqn:E4.
  - apply stepr_with_s with (s := set_stage (set_tmpInSize (l_s l) 0) StoreSuffix).
    apply (c_storeSuffix d maxb p O _ []);
      [reflexivity|binv_same B|exact EC|ss; exact ER|exact Hacc|reflexivity|reflexivity|ss; lia|exact HK|exact Hb].
  - apply Z.ltb_ge in E4.
    set (crc := ztake 4 (l_src l)).
    assert (Hcl : zlen crc = 4) by (unfold crc; rewrite zlen_ztake; lia).
    destruct (bytes_ok_split 4 _ Hb) as [Hb1 _]. fold crc in Hb1.
    eapply (after_stepr p O l (adv l 4) 4); [lia|exact Hb|reflexivity|reflexivity|]. fold crc.
    apply (u_checkSuffix d maxb); [exact B|exact EC|exact ER| |exact Hcl|exact Hb1|].
    + destruct Hacc as [Hacc|Hv]; [left; exact Hacc|right; apply Valid_shift; exact Hv].
    + eapply Kc_shift; [exact HK|]. intros sk g res. cbv beta. tauto.
Qed.

(* ---- the frame header ---- *)
Lemma parse_desc_repl rest d tl :
  parse_desc rest = Some (d, tl) -> exists pre0, rest = pre0 ++ tl /\ forall g, parse_desc (pre0 ++ g) = Some (d, g).
Proof.
  intro H. destruct rest as [|flg [|bd r]]; try discriminate H.
  rewrite parse_desc_factor in H.
  destruct (spec_flags flg bd) as [[[[[[indep bcrc] csz] ccrc] did] bsid]|] eqn:SF; [|discriminate].
  destruct (take _ r) as [[cs r1]|] eqn:T1; [|discriminate].
  destruct (take _ r1) as [[di r2]|] eqn:T2; [|discriminate].
  destruct r2 as [|hc r3]; [discriminate|].
  destruct (hc =? header_checksum _) eqn:EH; [|discriminate]. inversion H; subst.
  destruct (take_length _ _ _ _ T1) as [L1 _]. destruct (take_length _ _ _ _ T2) as [L2 _].
  apply take_app_split in T1. apply take_app_split in T2. subst.
  exists (flg :: bd :: cs ++ di ++ [hc]). split; [simpl; rewrite <- !app_assoc; reflexivity|].
  intro g. simpl app. rewrite parse_desc_factor, SF. rewrite <- !app_assoc.
  rewrite <- L1, take_app. rewrite <- L2, take_app. simpl app. cbv iota. rewrite EH. reflexivity.
Qed.

Lemma decodeHeader_init_magic s b src s' r :
  decodeHeader s b src = (s', r) -> d_stage s' = Init -> d_stage s <> Init -> rd32 src = FD_MAGICNUMBER.
Proof.
  unfold decodeHeader. intros H Hst Hn.
  destruct (zlen src <? FD_minFHSize); [inversion H; subst; contradiction|].
  destruct (Z.land (rd32 src) SKIP_MASK =? FD_MAGIC_SKIPPABLE_START); [destruct b; inversion H; subst; ss; discriminate|].
  destruct (rd32 src =? FD_MAGICNUMBER) eqn:E; [apply Z.eqb_eq; exact E|].
  cbn [negb] in H. inversion H; subst. ss. contradiction.
Qed.

(* the specification accepts some continuation of the bytes decodeHeader is given: no error *)
Lemma take_prefix : forall n (a m x y : list byte),
  take n (a ++ m) = Some (x, y) -> (n <= length a)%nat -> exists y', take n a = Some (x, y') /\ y = y' ++ m.
Proof.
  induction n as [|n IH]; intros a m x y H Hn; simpl in H.
  - inversion H; subst. exists a. auto.
  - destruct a as [|z a]; [simpl in Hn; lia|]. simpl in H.
    destruct (take n (a ++ m)) as [[x0 y0]|] eqn:E; [|discriminate]. inversion H; subst.
    destruct (IH _ _ _ _ E ltac:(simpl in Hn; lia)) as (y' & T & ->). exists y'. simpl. rewrite T. auto.
Qed.

Lemma header_no_error sk s b hd more res s' r :
  bytes_ok hd = true -> FD_minFHSize <= zlen hd -> frame_decode bdec sk dict (hd ++ more) = Some res ->
  decodeHeader s b hd = (s', r) -> 0 <= r.
Proof.
  intros Hb H7 HF ED. unfold FD_minFHSize in H7.
  destruct hd as [|m0 [|m1 [|m2 [|m3 [|flg [|bd r0]]]]]]; try (unfold zlen in H7; simpl in H7; lia).
  unfold frame_decode in HF.
  change (take 4 ((m0 :: m1 :: m2 :: m3 :: flg :: bd :: r0) ++ more)) with (Some ([m0; m1; m2; m3], flg :: bd :: r0 ++ more)) in HF.
  cbv iota beta in HF.
  destruct (le_val [m0; m1; m2; m3] =? MAGIC) eqn:EM; [|discriminate HF]. apply Z.eqb_eq in EM.
  assert (Hm : le_val [m0; m1; m2; m3] = FD_MAGICNUMBER) by (rewrite EM; reflexivity).
  destruct (parse_desc (flg :: bd :: r0 ++ more)) as [[d r1]|] eqn:PD; [|discriminate HF]. clear HF.
  assert (Hbr : bytes_ok (flg :: bd :: r0) = true).
  { unfold bytes_ok in *. simpl in Hb. do 4 (apply andb_prop in Hb; destruct Hb as [_ Hb]). exact Hb. }
  assert (Hb2 := Hbr). simpl in Hb2. apply andb_prop in Hb2. destruct Hb2 as [Hf Hb2]. apply andb_prop in Hb2. destruct Hb2 as [Hbd Hr].
  apply byte_range in Hf. apply byte_range in Hbd.
  rewrite parse_desc_factor in PD.
  pose proof (flags_equiv flg bd Hf Hbd) as FE.
  destruct (spec_flags flg bd) as [[[[[[indep bcrc] csz] ccrc] did] bsid]|] eqn:SF; [|discriminate PD].
  pose proof (spec_flags_range _ _ _ _ _ _ _ _ SF) as (_ & _ & Hcs & _ & Hdi & _).
  unfold model_flags in FE.
  destruct (flg_decode flg) as [e|[[[[bm bc] cs] cc] di]] eqn:EF; [discriminate FE|].
  destruct (bd_decode bd) as [e|id] eqn:EB; [discriminate FE|]. inversion FE; subst bm bc cs cc di id. clear FE.
  set (n1 := if csz =? 1 then 8%nat else 0%nat) in *. set (n2 := if did =? 1 then 4%nat else 0%nat) in *.
  assert (Hfh : fh_size csz did = 7 + Z.of_nat n1 + Z.of_nat n2).
  { unfold fh_size, FD_minFHSize, n1, n2. destruct Hcs as [-> | ->]; destruct Hdi as [-> | ->]; reflexivity. }
  destruct (take n1 (r0 ++ more)) as [[csb x1]|] eqn:T1; [|discriminate PD].
  destruct (take n2 x1) as [[dib x2]|] eqn:T2; [|discriminate PD].
  destruct x2 as [|hc x3]; [discriminate PD|].
  destruct (hc =? header_checksum (flg :: bd :: csb ++ dib)) eqn:EH; [|discriminate PD].
  destruct (zlen (m0 :: m1 :: m2 :: m3 :: flg :: bd :: r0) <? fh_size csz did) eqn:ES.
  - (* not the whole header yet: decodeHeader asks for more *)
    revert ED. unfold decodeHeader.
    replace (zlen (m0 :: m1 :: m2 :: m3 :: flg :: bd :: r0) <? FD_minFHSize) with false
      by (symmetry; apply Z.ltb_ge; unfold FD_minFHSize; exact H7).
    replace (rd32 (m0 :: m1 :: m2 :: m3 :: flg :: bd :: r0)) with FD_MAGICNUMBER
      by (change (rd32 (m0 :: m1 :: m2 :: m3 :: flg :: bd :: r0)) with (u32 (le_val [m0; m1; m2; m3])); rewrite Hm; reflexivity).
    replace (Z.land FD_MAGICNUMBER SKIP_MASK =? FD_MAGIC_SKIPPABLE_START) with false by (vm_compute; reflexivity).
    replace (negb (FD_MAGICNUMBER =? FD_MAGICNUMBER)) with false by (vm_compute; reflexivity).
    change (nth_error (m0 :: m1 :: m2 :: m3 :: flg :: bd :: r0) 4) with (Some flg).
    change (nth_error (m0 :: m1 :: m2 :: m3 :: flg :: bd :: r0) 5) with (Some bd).
    cbv iota beta. rewrite EF. cbv iota beta. rewrite ES.
    intro H. inversion H; subst. apply zlen_nonneg.
  - (* the whole header is there: the specification parses it from these bytes alone *)
    apply Z.ltb_ge in ES. rewrite Hfh in ES.
    assert (Hl0 : (n1 + n2 + 1 <= length r0)%nat) by (unfold zlen in ES; simpl length in ES; lia).
    destruct (take_prefix _ _ _ _ _ T1 ltac:(lia)) as (y1 & T1' & ->).
    destruct (take_length _ _ _ _ T1') as [_ L1].
    destruct (take_prefix _ _ _ _ _ T2 ltac:(lia)) as (y2 & T2' & Hx2).
    destruct (take_length _ _ _ _ T2') as [_ L2].
    destruct y2 as [|hc' y3]; [exfalso; simpl in L2; lia|]. simpl in Hx2. inversion Hx2; subst hc' x3.
    assert (Hbr0 : bytes_ok r0 = true) by exact Hr.
    pose proof (decodeHeader_iff s b m0 m1 m2 m3 (flg :: bd :: r0) Hbr Hm ltac:(unfold FD_minFHSize; exact H7)) as I.
    rewrite parse_desc_factor, SF in I. fold n1 n2 in I. rewrite T1', T2', EH in I. destruct I as [I _].
    rewrite ED in I. apply (f_equal snd) in I. cbn [snd] in I. rewrite I.
    unfold zlen. simpl length in *. lia.
Qed.

Lemma decodeHeader_header s src s' r : decodeHeader s true src = (s', r) -> d_header s' = d_header s.
Proof.
  unfold decodeHeader. intro H.
  destruct (zlen src <? FD_minFHSize); [inversion H; subst; auto|].
  destruct (Z.land (rd32 src) SKIP_MASK =? FD_MAGIC_SKIPPABLE_START); [inversion H; subst; ss; auto|].
  destruct (negb (rd32 src =? FD_MAGICNUMBER)); [inversion H; subst; ss; auto|].
  destruct (nth_error src 4); [|inversion H; subst; ss; auto].
  destruct (nth_error src 5); [|inversion H; subst; ss; auto].
  destruct (flg_decode _) as [e|[[[[bm bc] cs] cc] di]]; [inversion H; subst; ss; auto|].
  destruct (zlen src <? fh_size cs di); [inversion H; subst; ss; auto|].
  destruct (bd_decode _); [inversion H; subst; ss; auto|].
  destruct (nth_error src _); [|inversion H; subst; ss; auto].
  destruct (negb _); [inversion H; subst; ss; auto|].
  inversion H; subst. destruct (cs =? 0); ss; auto.
Qed.
Lemma zdrop_app_l n (p x : list byte) : 0 <= n <= zlen p -> zdrop n (p ++ x) = zdrop n p ++ x.
Proof.
  intro H. unfold zdrop. rewrite skipn_app. replace (Z.to_nat n - length p)%nat with 0%nat by (unfold zlen in H; lia).
  reflexivity.
Qed.
Lemma zdrop_app_exact (x r : list byte) : zdrop (zlen x) (x ++ r) = r.
Proof.
  unfold zdrop, zlen. rewrite Nat2Z.id. rewrite skipn_app, Nat.sub_diag, skipn_all. reflexivity.
Qed.
Lemma zdrop_all n (p : list byte) : zlen p <= n -> zdrop n p = [].
Proof. intro H. unfold zdrop. apply skipn_all2. unfold zlen in H. lia. Qed.

Lemma accept_CInv b s hd s' r :
  bytes_ok hd = true -> FD_minFHSize <= zlen hd -> decodeHeader s b hd = (s', r) -> 0 <= r ->
  d_stage s' = Init -> d_stage s <> Init -> d_remaining s = 0 -> d_hist s = dict -> d_skip s = skip ->
  CInv (ztake r hd) [] s'.
Proof.
  intros Hb H7 ED Hr Hst Hns Hrem Hh Hsk.
  pose proof (decodeHeader_init_magic _ _ _ _ _ ED Hst Hns) as Hmg.
  unfold FD_minFHSize in H7.
  destruct hd as [|m0 [|m1 [|m2 [|m3 rest]]]]; try (unfold zlen in H7; simpl in H7; lia).
  assert (Hm : le_val [m0; m1; m2; m3] = FD_MAGICNUMBER).
  { rewrite <- Hmg. rewrite rd32_le_val by exact Hb. reflexivity. }
  assert (Hbr : bytes_ok rest = true).
  { unfold bytes_ok in *. simpl in Hb. repeat (apply andb_prop in Hb; destruct Hb as [_ Hb]). exact Hb. }
  destruct (decode_accept s b m0 m1 m2 m3 rest s' r Hbr Hm ltac:(unfold FD_minFHSize; exact H7) ED Hr Hst)
    as (d & tl & PD & -> & Hrr & HB).
  set (maxb := blockSize_of_id (f_bsid d)) in *.
  destruct (parse_desc_repl _ _ _ PD) as (pre0 & Hpre & Hrepl).
  assert (Hz : ztake r (m0 :: m1 :: m2 :: m3 :: rest) = m0 :: m1 :: m2 :: m3 :: pre0).
  { rewrite Hrr, Hpre. unfold ztake, zlen. simpl length. rewrite app_length.
    replace (Z.to_nat (Z.of_nat (S (S (S (S (length pre0 + length tl))))) - Z.of_nat (length tl))) with (4 + length pre0)%nat by lia.
    cbn [Nat.add firstn]. rewrite firstn_app, Nat.sub_diag, firstn_all. simpl. rewrite app_nil_r. reflexivity. }
  rewrite Hz.
  eapply C_init with (d := d) (maxb := maxb).
  - apply accept_state_fields.
  - reflexivity.
  - apply binv_after_init; auto.
    destruct (f_csize d) as [n|] eqn:EN; [|exact I]. eapply parse_desc_csize_bound; eauto.
  - split; intros g res.
    + intros (F & HF). unfold SpecGoal, frame_decode.
      change (take 4 ((m0 :: m1 :: m2 :: m3 :: pre0) ++ g)) with (Some ([m0; m1; m2; m3], pre0 ++ g)). cbv iota beta. rewrite Hm.
      replace (FD_MAGICNUMBER =? MAGIC) with true by (vm_compute; reflexivity). rewrite Hrepl, HB.
      eapply blocks_mono; [exact HF|lia].
    + unfold SpecGoalF, frame_decode.
      change (take 4 ((m0 :: m1 :: m2 :: m3 :: pre0) ++ g)) with (Some ([m0; m1; m2; m3], pre0 ++ g)). cbv iota beta. rewrite Hm.
      replace (FD_MAGICNUMBER =? MAGIC) with true by (vm_compute; reflexivity). rewrite Hrepl, HB.
      intro HF. exists (S (length g)). exact HF.
Qed.

Lemma rd32_app (p x : list byte) : 4 <= zlen p -> rd32 (p ++ x) = rd32 p.
Proof.
  intro H. unfold rd32, ztake. rewrite firstn_app.
  replace (Z.to_nat 4 - length p)%nat with 0%nat by (unfold zlen in H; lia). simpl. rewrite app_nil_r. reflexivity.
Qed.
Lemma nth_error_app_l (p x : list byte) k : (k < length p)%nat -> nth_error (p ++ x) k = nth_error p k.
Proof. intro H. apply nth_error_app1. exact H. Qed.

Lemma c_storeFrameHeader p l :
  d_stage (l_s l) = StoreFrameHeader -> d_remaining (l_s l) = 0 -> d_hist (l_s l) = dict -> d_skip (l_s l) = skip ->
  pre (d_header (l_s l)) (d_tmpInSize (l_s l)) = p -> bytes_ok p = true -> d_oob (l_s l) = false ->
  0 <= d_tmpInSize (l_s l) < d_tmpInTarget (l_s l) -> d_tmpInTarget (l_s l) <= FD_header_array_size ->
  hdr_ext (l_s l) -> bytes_ok (l_src l) = true ->
  stepr p [] l (do_storeFrameHeader l).
Proof.
  intros Hst Hrem Hh Hsk Hp Hbp Hoob Hs Ht Hx Hb. unfold do_storeFrameHeader.
  pose proof (zlen_nonneg (l_src l)) as Hl.
  set (tg := d_tmpInTarget (l_s l)) in *.
  set (n := Z.min (tg - d_tmpInSize (l_s l)) (zlen (l_src l))) in *.
  assert (Hn : 0 <= n <= zlen (l_src l) /\ n <= tg - d_tmpInSize (l_s l)) by (unfold n; lia).
  set (piece := ztake n (l_src l)).
  assert (Hpl : zlen piece = n) by (unfold piece; rewrite zlen_ztake; lia).
  destruct (bytes_ok_split n _ Hb) as [Hbpc _]. fold piece in Hbpc.
  rewrite (hdr_write_eq (l_s l) piece n) by (auto; lia). ss. fold tg.
  destruct (stage_facts _ _ piece n p Hp ltac:(lia) Hpl) as (W1 & W2 & W3). rewrite W1.
  assert (Hbh : bytes_ok (p ++ piece) = true) by (rewrite bytes_ok_app, Hbp, Hbpc; reflexivity).
  assert (Hsrc : l_src l = piece ++ zdrop n (l_src l)) by (unfold piece; rewrite ztake_zdrop_app; reflexivity).
  destruct (d_tmpInSize (l_s l) + n <? tg) eqn:E.
  - apply Z.ltb_lt in E. apply stepr_stop_stage with (x := piece);
      [unfold FD_BHSize; lia | exact Hsrc | reflexivity | exact Hbpc |].
    apply C_hdr; ss; auto. apply pre_full. exact W2.
  - apply Z.ltb_ge in E.
    assert (Hfull : zlen (p ++ piece) = tg) by lia.
    rewrite (ztake_all tg (p ++ piece)) by lia.
    (* the staged header is at least 7 bytes long *)
    assert (H7 : FD_minFHSize <= tg).
    { destruct Hx as [Hx|(_ & X1 & _)]; [fold tg in Hx; lia|lia]. }
    match goal with |- context [decodeHeader ?sb true ?hh] => destruct (decodeHeader sb true hh) as [s' r] eqn:ED end.
    destruct (r <? 0) eqn:Er.
    { cbn [fst snd]. intros _ R res G. unfold SpecGoalF in G. rewrite Hsrc in G.
      rewrite <- app_assoc, app_assoc in G.
      pose proof (header_no_error _ _ _ _ _ _ _ _ Hbh ltac:(lia) G ED). apply Z.ltb_lt in Er. lia. }
    apply Z.ltb_ge in Er.
    pose proof (decodeHeader_cases _ _ _ _ _ ED) as (_ & _ & _ & D).
    pose proof (decodeHeader_keeps _ _ _ _ _ ED) as (K1 & K2 & K3). ss.
    unfold stepr. cbn [fst snd]. exists piece, []. ss. rewrite app_nil_r.
    split; [exact Hsrc|]. split; [reflexivity|]. split; [exact Hbpc|].
    destruct D as [D|[D|[D|[D|D]]]].
    + exfalso. lia.
    + destruct D as (_ & D1 & D3 & D4 & D2).
      pose proof (decodeHeader_header _ _ _ _ ED) as DH. ss.
      apply C_skip; [reflexivity|]. unfold skinv. rewrite D1, D3, D4, DH.
      split; [unfold FD_minFHSize in H7; lia|]. split; [exact D2|].
      split; [reflexivity|]. split; [reflexivity|]. rewrite pre_full by reflexivity. reflexivity.
    + destruct D as (D & _). discriminate D.
    + destruct D as (Dst & Dsz & Dt & _ & _ & Dh & _). specialize (Dh eq_refl). ss.
      apply C_hdr; [exact Dst | reflexivity | rewrite K3 by exact Dst; exact Hrem | congruence | congruence
                   | rewrite Dh, Dsz; apply pre_full; reflexivity | exact Hbh].
    + destruct D as (Dr & Dst & _).
      (* the whole staged header was the frame header *)
      assert (Hrz : r = zlen (p ++ piece)).
      { destruct (decodeHeader_ret_size _ _ _ _ _ ED Dst) as [R|R]; [|ss; rewrite Hst in R; discriminate R].
        destruct Hx as [Hx|(X0 & X1 & X2 & FLG & bm & bc & cs & cc & di & N4 & EF & FS)]; [fold tg in Hx; lia|].
        assert (Hph : p = d_header (l_s l)) by (rewrite <- Hp; apply pre_full; exact X0).
        assert (Hp7 : 7 <= zlen p) by (rewrite Hph; unfold FD_minFHSize in X1; lia).
        rewrite (headerSize_fh (p ++ piece) FLG bm bc cs cc di) in R.
        - fold tg in FS. lia.
        - rewrite <- R. lia.
        - rewrite rd32_app by lia. rewrite Hph. exact X2.
        - rewrite nth_error_app_l by (unfold zlen in Hp7; lia). rewrite Hph. exact N4.
        - exact EF. }
      replace (p ++ piece) with (ztake r (p ++ piece)) at 1 by (apply ztake_all; lia).
      eapply accept_CInv; eauto; ss; try congruence; try lia.
Qed.

Lemma c_getFrameHeader l :
  d_stage (l_s l) = GetFrameHeader -> d_remaining (l_s l) = 0 -> d_hist (l_s l) = dict -> d_skip (l_s l) = skip ->
  d_oob (l_s l) = false -> bytes_ok (l_src l) = true ->
  stepr [] [] l (do_getFrameHeader l).
Proof.
  intros Hst Hrem Hh Hsk Hoob Hb. unfold do_getFrameHeader.
  pose proof (zlen_nonneg (l_src l)) as Hl.
  destruct (FD_maxFHSize <=? zlen (l_src l)) eqn:E19.
  - apply Z.leb_le in E19. unfold FD_maxFHSize in E19.
    destruct (decodeHeader (l_s l) false (l_src l)) as [s' r] eqn:ED.
    destruct (r <? 0) eqn:Er.
    { cbn [fst snd]. intros _ R res G. unfold SpecGoalF in G. cbn [app] in G.
      pose proof (header_no_error _ _ _ _ _ _ _ _ Hb ltac:(unfold FD_minFHSize; lia) G ED). apply Z.ltb_lt in Er. lia. }
    apply Z.ltb_ge in Er.
    pose proof (decodeHeader_cases _ _ _ _ _ ED) as (_ & _ & _ & D).
    assert (Hr : 0 <= r <= zlen (l_src l)).
    { destruct D as [D|[D|[D|[D|D]]]]; [lia|destruct D as (D & _); discriminate D| | |]; unfold FD_minFHSize in *; lia. }
    destruct (bytes_ok_split r _ Hb) as [Hbx _].
    unfold stepr. cbn [fst snd]. exists (ztake r (l_src l)), []. ss.
    split; [rewrite ztake_zdrop_app; reflexivity|]. split; [rewrite app_nil_r; reflexivity|]. split; [exact Hbx|]. cbn [app].
    destruct D as [D|[D|[D|[D|D]]]].
    + exfalso. lia.
    + destruct D as (D & _). discriminate D.
    + destruct D as (_ & D1 & _ & D2 & D3). subst r.
      assert (H4 : zlen (ztake 4 (l_src l)) = 4) by (rewrite zlen_ztake; lia).
      apply C_skip; [reflexivity|]. unfold skinv. rewrite D2.
      split; [lia|]. split; [|exact H4].
      rewrite <- D3. unfold rd32. rewrite (ztake_all 4 (ztake 4 (l_src l))) by lia. reflexivity.
    + exfalso. unfold FD_header_array_size in D. lia.
    + destruct D as (_ & Dst & _).
      eapply accept_CInv; eauto; try congruence. unfold FD_minFHSize; lia.
  - apply Z.leb_gt in E19.
    destruct (zlen (l_src l) =? 0) eqn:E0; [cbn [fst snd]; unfold FD_minFHSize; intro Hv; exfalso; lia|].
    match goal with |- stepr _ _ _ (do_storeFrameHeader (with_s _ ?S)) => apply stepr_with_s with (s := S) end.
    apply c_storeFrameHeader; ss; auto; try (unfold FD_minFHSize, FD_header_array_size; lia).
    left. reflexivity.
Qed.

Lemma c_init d maxb p l :
  binv skip d maxb dict [] (do_init (l_s l)) -> Kc p (fun sk => E_header bdec sk d maxb dict []) -> bytes_ok (l_src l) = true ->
  stepr p [] l (do_getBlockHeader (with_s l (do_init (l_s l)))).
Proof.
  intros B HK Hb. apply stepr_with_s with (s := do_init (l_s l)).
  apply (c_getBlockHeader d maxb); [exact B|exact HK|exact Hb].
Qed.

(* ---- skippable frames: nothing is produced; exactly magic + size + that many bytes are consumed ---- *)
Lemma rd32_ztake4 (x : list byte) : rd32 (ztake 4 x) = rd32 x.
Proof. unfold rd32. f_equal. f_equal. unfold ztake. rewrite firstn_firstn. reflexivity. Qed.
Lemma rd32_size_app (p x : list byte) : 8 <= zlen p -> rd32 (zdrop 4 (p ++ x)) = rd32 (zdrop 4 p).
Proof. intro H. rewrite zdrop_app_l by lia. apply rd32_app. rewrite zlen_zdrop; lia. Qed.

(* the size field is complete: [sel] holds it *)
Lemma u_sframeSize pn l sel :
  4 <= zlen pn -> Z.land (rd32 pn) SKIP_MASK = FD_MAGIC_SKIPPABLE_START -> zlen pn = 8 ->
  rd32 sel = rd32 (zdrop 4 pn) -> after pn [] l (do_sframeSize l sel).
Proof.
  intros A B L8 Hs. unfold do_sframeSize, after. cbn [fst snd]. exists []. ss.
  split; [reflexivity|]. split; [rewrite app_nil_r; reflexivity|]. apply C_skip; [reflexivity|].
  unfold skinv; ss. split; [exact A|]. split; [exact B|]. split; [lia|]. rewrite Hs. lia.
Qed.

Lemma c_storeSFrameSize p l :
  d_stage (l_s l) = StoreSFrameSize -> skinv p (l_s l) -> bytes_ok (l_src l) = true ->
  4 <= d_tmpInSize (l_s l) < d_tmpInTarget (l_s l) ->
  stepr p [] l (do_storeSFrameSize l).
Proof.
  intros Hst (A & B & K) Hb Hs. rewrite Hst in K. destruct K as (K1 & K2 & K3).
  unfold do_storeSFrameSize, hdr_write. ss. rewrite K2 in *.
  pose proof (zlen_nonneg (l_src l)) as Hl.
  set (n := Z.min (8 - d_tmpInSize (l_s l)) (zlen (l_src l))) in *.
  assert (Hn : 0 <= n <= zlen (l_src l) /\ n <= 8 - d_tmpInSize (l_s l)) by (unfold n; lia).
  set (piece := ztake n (l_src l)).
  assert (Hpl : zlen piece = n) by (unfold piece; rewrite zlen_ztake; lia).
  destruct (bytes_ok_split n _ Hb) as [Hbp _]. fold piece in Hbp.
  destruct (stage_facts (d_header (l_s l)) (d_tmpInSize (l_s l)) piece n _ eq_refl ltac:(lia) Hpl) as (W1 & W2 & W3).
  assert (Hpre : zlen (pre (d_header (l_s l)) (d_tmpInSize (l_s l))) = d_tmpInSize (l_s l)) by (apply pre_length; lia).
  assert (HZ : zdrop 4 (wr (d_header (l_s l)) (d_tmpInSize (l_s l)) piece) = zdrop 4 (p ++ piece)).
  { rewrite W1. rewrite !zdrop_app_l by lia. rewrite K3. reflexivity. }
  assert (A' : 4 <= zlen (p ++ piece)) by (rewrite zlen_app; lia).
  assert (B' : Z.land (rd32 (p ++ piece)) SKIP_MASK = FD_MAGIC_SKIPPABLE_START) by (rewrite rd32_app by exact A; exact B).
  destruct (d_tmpInSize (l_s l) + n <? 8) eqn:E.
  - apply Z.ltb_lt in E. apply stepr_stop_stage with (x := piece);
      [lia | ss; unfold piece; rewrite ztake_zdrop_app; reflexivity | reflexivity | exact Hbp |].
    apply C_skip; [reflexivity|]. unfold skinv; ss. rewrite Hst.
    split; [exact A'|]. split; [exact B'|]. split; [rewrite zlen_app; lia|]. split; [exact K2|].
    rewrite W3. rewrite <- W1. exact HZ.
  - apply Z.ltb_ge in E.
    match goal with |- stepr _ _ _ (do_sframeSize ?l1 _) =>
      eapply (after_stepr p [] l l1 n); [lia|exact Hb|reflexivity|reflexivity|] end.
    fold piece. apply u_sframeSize; [exact A'|exact B'|rewrite zlen_app; lia|].
    rewrite HZ. apply rd32_ztake4.
Qed.

Lemma c_getSFrameSize p l :
  d_stage (l_s l) = GetSFrameSize -> skinv p (l_s l) -> bytes_ok (l_src l) = true -> stepr p [] l (do_getSFrameSize l).
Proof.
  intros Hst (A & B & K) Hb. rewrite Hst in K. unfold do_getSFrameSize. pose proof (zlen_nonneg (l_src l)) as Hl.
  destruct (4 <=? zlen (l_src l)) eqn:E.
  - apply Z.leb_le in E.
    eapply (after_stepr p [] l (adv l 4) 4); [lia|exact Hb|reflexivity|reflexivity|].
    assert (H4 : zlen (ztake 4 (l_src l)) = 4) by (rewrite zlen_ztake; lia).
    apply u_sframeSize.
    + rewrite zlen_app; lia.
    + rewrite rd32_app by exact A. exact B.
    + rewrite zlen_app; lia.
    + replace 4 with (zlen p) at 2 by exact K. rewrite zdrop_app_exact. reflexivity.
  - match goal with |- stepr _ _ _ (do_storeSFrameSize (with_s _ ?S)) => apply stepr_with_s with (s := S) end.
    apply c_storeSFrameSize; ss; auto; [|lia].
    unfold skinv; ss. split; [exact A|]. split; [exact B|]. split; [exact K|]. split; [reflexivity|].
    rewrite !zdrop_all; [reflexivity|lia|rewrite pre_length; lia].
Qed.

Lemma c_skipSkippable p l :
  d_stage (l_s l) = SkipSkippable -> skinv p (l_s l) -> bytes_ok (l_src l) = true -> 0 <= d_tmpInTarget (l_s l) ->
  stepr p [] l (do_skipSkippable l).
Proof.
  intros Hst (A & B & K) Hb Ht. rewrite Hst in K. destruct K as (K1 & K2). unfold do_skipSkippable. ss.
  pose proof (zlen_nonneg (l_src l)) as Hl.
  set (n := Z.min (d_tmpInTarget (l_s l)) (zlen (l_src l))) in *.
  assert (Hn : 0 <= n <= zlen (l_src l) /\ n <= d_tmpInTarget (l_s l)) by (unfold n; lia).
  destruct (bytes_ok_split n _ Hb) as [Hbp _].
  set (x := ztake n (l_src l)) in *.
  assert (Hx : zlen x = n) by (unfold x; rewrite zlen_ztake; lia).
  assert (A' : 8 <= zlen (p ++ x)) by (rewrite zlen_app; lia).
  assert (B' : Z.land (rd32 (p ++ x)) SKIP_MASK = FD_MAGIC_SKIPPABLE_START) by (rewrite rd32_app by exact A; exact B).
  assert (S' : zlen (p ++ x) + (d_tmpInTarget (l_s l) - n) = 8 + rd32 (zdrop 4 (p ++ x))).
  { rewrite rd32_size_app by exact K1. rewrite zlen_app. lia. }
  destruct (d_tmpInTarget (l_s l) - n =? 0) eqn:E; cbn [negb].
  - apply Z.eqb_eq in E. unfold stepr. cbn [fst snd Z.eqb]. split; [lia|]. exists x, []. ss.
    split; [unfold x; rewrite ztake_zdrop_app; reflexivity|]. split; [rewrite app_nil_r; reflexivity|]. split; [exact Hbp|].
    right. split; [reflexivity|]. split; [exact A'|]. split; [exact B'|]. lia.
  - apply Z.eqb_neq in E. apply stepr_stop_stage with (x := x);
      [lia | ss; unfold x; rewrite ztake_zdrop_app; reflexivity | reflexivity | exact Hbp |].
    apply C_skip; [reflexivity|]. unfold skinv; ss. rewrite Hst. split; [lia|]. split; [exact B'|]. split; [exact A'|exact S'].
Qed.

(* ---- one iteration of the stage machine ---- *)
Lemma iter_chunk o p O l :
  CInv p O (l_s l) -> wf (l_s l) -> bytes_ok (l_src l) = true -> 0 <= l_cap l ->
  zlen O < 18446744073709551616 \/ Valid p (l_src l) ->
  stepr p O l (iter bdec o l).
Proof.
  intros C (Hoob & Ha & Hi) Hb Hc HO. unfold iter. unfold stage_inv in Hi.
  destruct C as [Hst -> -> Hrem Hh Hsk | Hst -> Hrem Hh Hsk Hp Hbp | d maxb Hst -> B HK | d maxb Hst B HK
                | d maxb t Hst B Ht Hbt HK | d maxb acc0 data1 Hst -> B Htg Hm Hx HK
                | d maxb acc0 data t Hst -> B EB Hd Hx Ht Hbt HK | d maxb n Hst B Htg Hn HK
                | d maxb n t Hst B Htg Hn Ht Hbt HK | d maxb acc0 Hst HOe B Hm HK | d maxb Hst B HK
                | d maxb t Hst B EC ER Ht Hbt HK | -> HS]; try rewrite Hst in *.
  - apply c_getFrameHeader; auto.
  - destruct Hi as (I1 & I2 & I3). apply c_storeFrameHeader; auto.
  - apply (c_init d maxb); auto.
  - apply (c_getBlockHeader d maxb); auto.
  - destruct Hi as (_ & I1). apply (c_storeBlockHeader d maxb _ _ _ t); auto.
  - apply (c_copyDirect o d maxb); auto.
  - destruct Hi as (_ & I1). apply (c_getBlockChecksum d maxb _ _ _ t); auto.
  - apply (c_getCBlock o d maxb _ _ _ n); auto.
  - destruct Hi as (_ & I1 & I2). apply (c_storeCBlock o d maxb _ _ _ n t); auto.
  - destruct Hi as (_ & I1). apply (c_flushOut o d maxb _ _ acc0); auto.
  - apply (c_getSuffix d maxb); auto.
  - destruct Hi as (_ & I1). apply (c_storeSuffix d maxb _ _ _ t); auto.
  - assert (HS' := HS). destruct HS' as (A & B & K).
    destruct (d_stage (l_s l)) eqn:E; try contradiction.
    + apply c_getSFrameSize; auto.
    + destruct Hi as (I1 & I2). destruct K as (K1 & K2 & K3). apply c_storeSFrameSize; auto. lia.
    + apply c_skipSkippable; auto.
Qed.

(* ---- one call: the loop ---- *)
Definition runr (p O : list byte) (l l' : lst) (f : fin) : Prop :=
  match f with
  | FStop h => 0 <= h /\ exists x y, l_src l = x ++ l_src l' /\ l_out l' = l_out l ++ y /\ bytes_ok x = true /\
                           if h =? 0 then Fin (p ++ x) (O ++ y) else CInv (p ++ x) (O ++ y) (l_s l')
  | FRet v => v < 0 -> Bad p (l_src l)
  | FFuel => True
  end.

Lemma Valid_app p (x rest : list byte) : Valid p (x ++ rest) -> Valid (p ++ x) rest.
Proof. intros (R & res & G). exists R, res. unfold SpecGoalF in *. rewrite <- !app_assoc in *. exact G. Qed.
Lemma Bad_app p (x rest : list byte) : Bad (p ++ x) rest -> Bad p (x ++ rest).
Proof. intros H R res G. apply (H R res). unfold SpecGoalF in *. rewrite <- !app_assoc in *. exact G. Qed.

Lemma run_chunk o : forall fuel l l' f p O,
  CInv p O (l_s l) -> wf (l_s l) -> bytes_ok (l_src l) = true -> 0 <= l_cap l ->
  run bdec fuel o l = (l', f) ->
  zlen O + (zlen (l_out l') - zlen (l_out l)) < 18446744073709551616 \/ Valid p (l_src l) ->
  runr p O l l' f.
Proof.
  induction fuel as [|fuel IH]; intros l l' f p O C Hwf Hb Hc Hr Hlen.
  - simpl in Hr. inversion Hr; subst. exact I.
  - cbn [run] in Hr.
    pose proof (iter_post bdec o l Hwf Hc) as P.
    assert (HO : forall l1, acct l l1 -> acct l1 l' -> zlen O < 18446744073709551616 \/ Valid p (l_src l)).
    { intros l1 A1 A2. destruct Hlen as [Hlen|Hv]; [left|right; exact Hv]. unfold acct in *. lia. }
    pose proof (iter_chunk o p O l C Hwf Hb Hc) as S.
    destruct (iter bdec o l) as [l1 oc] eqn:EI. cbn [fst snd] in P. destruct P as [A P].
    destruct oc as [|h|v].
    + destruct P as [W _].
      assert (Hc1 : 0 <= l_cap l1) by (unfold acct in A; lia).
      pose proof (run_post bdec o fuel l1 l' f W Hc1 Hr) as (A2 & _).
      specialize (S (HO l1 A A2)). unfold stepr in S. cbn [fst snd] in S.
      destruct S as (x1 & y1 & S1 & S2 & S3 & S4).
      assert (Hb1 : bytes_ok (l_src l1) = true).
      { rewrite S1, bytes_ok_app in Hb. apply andb_prop in Hb. apply Hb. }
      assert (Hlen1 : zlen (O ++ y1) + (zlen (l_out l') - zlen (l_out l1)) < 18446744073709551616 \/ Valid (p ++ x1) (l_src l1)).
      { destruct Hlen as [Hlen|Hv]; [left|right].
        - rewrite S2, !zlen_app. lia.
        - apply Valid_app. rewrite <- S1. exact Hv. }
      pose proof (IH l1 l' f (p ++ x1) (O ++ y1) S4 W Hb1 Hc1 Hr Hlen1) as R.
      unfold runr in *. destruct f as [h|v|]; auto.
      * destruct R as (Hh & x2 & y2 & R1 & R2 & R3 & R4). split; [exact Hh|].
        exists (x1 ++ x2), (y1 ++ y2).
        split; [rewrite S1, R1; apply app_assoc|]. split; [rewrite R2, S2; symmetry; apply app_assoc|].
        split; [rewrite bytes_ok_app, S3, R3; reflexivity|].
        rewrite !app_assoc. exact R4.
      * intro Hv. rewrite S1. apply Bad_app. exact (R Hv).
    + inversion Hr; subst l1 f. clear Hr.
      assert (A2 : acct l' l') by (apply acct_refl; unfold acct in A; lia).
      specialize (S (HO l' A A2)). exact S.
    + inversion Hr; subst l1 f. clear Hr.
      assert (A2 : acct l' l') by (apply acct_refl; unfold acct in A; lia).
      specialize (S (HO l' A A2)). exact S.
Qed.

(* ---- what was produced so far is a prefix of the content of an accepted frame ---- *)
Lemma blocks_prefix sk d maxb : forall F acc bs c r,
  blocks bdec sk F d maxb dict acc bs = Some (c, r) -> exists y, c = acc ++ y.
Proof.
  induction F as [|F IH]; intros acc bs c r H; [discriminate H|]. cbn [blocks] in H.
  destruct (take 4 bs) as [[szb r0]|]; [|discriminate H].
  destruct (le_val szb =? 0).
  - assert (G : forall rest, match f_csize d with
                             | Some n => if (n =? 0) || (n =? Z.of_nat (length acc)) then Some (acc, rest) else None
                             | None => Some (acc, rest) end = Some (c, r) -> c = acc).
    { intros rest X. destruct (f_csize d) as [n|].
      - destruct ((n =? 0) || (n =? Z.of_nat (length acc))); [|discriminate X]. inversion X; reflexivity.
      - inversion X; reflexivity. }
    exists []. rewrite app_nil_r.
    destruct (f_ccrc d).
    + destruct (take 4 r0) as [[cb r1]|]; [|discriminate H].
      destruct (sk || (le_val cb =? xxh32 0 acc)); [|discriminate H]. eapply G; eauto.
    + eapply G; eauto.
  - destruct (maxb <? le_val szb mod 2147483648); [discriminate H|].
    destruct (take (Z.to_nat (le_val szb mod 2147483648)) r0) as [[data r1]|]; [|discriminate H].
    assert (G : forall rest,
       (let hist := if f_indep d then dict else lastn 65536 (dict ++ acc) in
        let content := if 2147483648 <=? le_val szb then Some data else bdec hist data in
        match content with
        | Some c0 => if maxb <? Z.of_nat (length c0) then None else blocks bdec sk F d maxb dict (acc ++ c0) rest
        | None => None end) = Some (c, r) -> exists y, c = acc ++ y).
    { intros rest. cbv zeta.
      destruct (if 2147483648 <=? le_val szb then Some data else bdec (if f_indep d then dict else lastn 65536 (dict ++ acc)) data) as [c0|];
        [|discriminate].
      destruct (maxb <? Z.of_nat (length c0)); [discriminate|]. intro X.
      destruct (IH _ _ _ _ X) as [y Hy]. exists (c0 ++ y). rewrite Hy, app_assoc. reflexivity. }
    destruct (f_bcrc d).
    + destruct (take 4 r1) as [[cb r2]|]; [|discriminate H].
      destruct (sk || (le_val cb =? xxh32 0 data)); [|discriminate H]. eapply G; eauto.
    + eapply G; eauto.
Qed.
Lemma E_header_prefix sk d maxb acc bs c r : E_header bdec sk d maxb dict acc bs (c, r) -> exists y, c = acc ++ y.
Proof. intros (F & H). eapply blocks_prefix; eauto. Qed.
Lemma E_after_prefix sk d maxb acc c0 bs c r : E_after bdec sk d maxb dict acc c0 bs (c, r) -> exists y, c = (acc ++ c0) ++ y.
Proof. intros (_ & H). eapply E_header_prefix; eauto. Qed.
Lemma E_bcrc_prefix sk d maxb acc data c0 bs c r :
  E_bcrc bdec sk d maxb dict acc data c0 bs (c, r) -> exists y, c = (acc ++ c0) ++ y.
Proof.
  unfold E_bcrc. destruct (f_bcrc d).
  - intros (cb & r2 & _ & _ & H). eapply E_after_prefix; eauto.
  - apply E_after_prefix.
Qed.
Lemma E_suffix_eq sk d O bs c r : E_suffix sk d O bs (c, r) -> c = O.
Proof.
  unfold E_suffix, fin_ok. destruct (f_ccrc d).
  - intros (cb & r1 & _ & _ & _ & H). inversion H; reflexivity.
  - intros (_ & H). inversion H; reflexivity.
Qed.

Lemma CInv_prefix p O s g c r : CInv p O s -> SpecGoalF p g (c, r) -> exists y, c = O ++ y.
Proof.
  intros C G.
  destruct C as [Hst -> -> Hrem Hh Hsk | Hst -> Hrem Hh Hsk Hp Hbp | d maxb Hst -> B HK | d maxb Hst B HK
                | d maxb t Hst B Ht Hbt HK | d maxb acc0 data1 Hst -> B Htg Hm Hx HK
                | d maxb acc0 data t Hst -> B EB Hd Hx Ht Hbt HK | d maxb n Hst B Htg Hn HK
                | d maxb n t Hst B Htg Hn Ht Hbt HK | d maxb acc0 Hst HOe B Hm HK | d maxb Hst B HK
                | d maxb t Hst B EC ER Ht Hbt HK | -> HS];
    try (exists c; reflexivity); apply (proj2 HK) in G.
  - eapply E_header_prefix; eauto.
  - eapply E_header_prefix; eauto.
  - destruct G as (data2 & r1 & _ & E). destruct (E_bcrc_prefix _ _ _ _ _ _ _ _ _ E) as [y Hy].
    exists (data2 ++ y). rewrite Hy, <- !app_assoc. reflexivity.
  - destruct G as (cb & r2 & _ & _ & E). eapply E_after_prefix; eauto.
  - destruct G as (data & r1 & c0 & _ & _ & E). destruct (E_bcrc_prefix _ _ _ _ _ _ _ _ _ E) as [y Hy].
    exists (c0 ++ y). rewrite Hy, <- !app_assoc. reflexivity.
  - destruct G as (data & r1 & c0 & _ & _ & E). destruct (E_bcrc_prefix _ _ _ _ _ _ _ _ _ E) as [y Hy].
    exists (c0 ++ y). rewrite Hy, <- !app_assoc. reflexivity.
  - destruct (E_header_prefix _ _ _ _ _ _ _ G) as [y Hy].
    exists (zdrop (d_tmpOutStart s) (d_tmpOut s) ++ y). rewrite Hy, HOe, <- !app_assoc.
    rewrite (app_assoc (ztake _ _)), ztake_zdrop_app. reflexivity.
  - exists []. rewrite app_nil_r. eapply E_suffix_eq; eauto.
  - exists []. rewrite app_nil_r. eapply E_suffix_eq; eauto.
Qed.

(* ---- how much input the specification still needs at each position ---- *)
Lemma take_short : forall n (l : list byte), (length l < n)%nat -> take n l = None.
Proof.
  induction n as [|n IH]; intros l H; [lia|]. destruct l as [|x l]; [reflexivity|]. simpl in *.
  rewrite IH by lia. reflexivity.
Qed.
Lemma take_zlen n (l a b : list byte) : take n l = Some (a, b) -> zlen l = Z.of_nat n + zlen b.
Proof. intro T. destruct (take_length _ _ _ _ T) as [_ L]. unfold zlen. lia. Qed.

Lemma need_header sk d maxb acc bs res : E_header bdec sk d maxb dict acc bs res -> 4 <= zlen bs.
Proof.
  intros (F & H). destruct F as [|F]; [discriminate H|]. cbn [blocks] in H.
  destruct (take 4 bs) as [[szb r]|] eqn:T; [|discriminate H]. rewrite (take_zlen _ _ _ _ T). pose proof (zlen_nonneg r). lia.
Qed.
Lemma need_bcrc sk d maxb acc data c bs res :
  E_bcrc bdec sk d maxb dict acc data c bs res -> crc4 (f_bcrc d) + 4 <= zlen bs.
Proof.
  unfold E_bcrc, crc4. destruct (f_bcrc d).
  - intros (cb & r2 & T & _ & _ & H). rewrite (take_zlen _ _ _ _ T). apply need_header in H. lia.
  - intros (_ & H). apply need_header in H. lia.
Qed.
Lemma need_comp sk d maxb acc n bs res :
  0 <= n -> X_comp bdec sk d maxb dict acc n bs res -> n + crc4 (f_bcrc d) + 4 <= zlen bs.
Proof. intros Hn (data & r1 & c & T & _ & E). rewrite (take_zlen _ _ _ _ T). apply need_bcrc in E. lia. Qed.
Lemma need_EC sk d maxb acc0 data1 m g res : 0 <= m -> E_C sk d maxb acc0 data1 m g res -> m + crc4 (f_bcrc d) + 4 <= zlen g.
Proof. intros Hm (data2 & r1 & T & E). rewrite (take_zlen _ _ _ _ T). apply need_bcrc in E. lia. Qed.
Lemma need_EB sk d maxb acc0 data t g res : E_B sk d maxb acc0 data t g res -> 8 <= zlen (t ++ g).
Proof. intros (cb & r2 & T & _ & _ & H). rewrite (take_zlen _ _ _ _ T). apply need_header in H. lia. Qed.
Lemma need_suffix sk d O bs res : f_ccrc d = true -> E_suffix sk d O bs res -> 4 <= zlen bs.
Proof.
  intros EC. unfold E_suffix. rewrite EC. intros (cb & r1 & T & _). rewrite (take_zlen _ _ _ _ T).
  pose proof (zlen_nonneg r1). lia.
Qed.

Lemma nth_byte_range (l : list byte) k x : bytes_ok l = true -> nth_error l k = Some x -> 0 <= x < 256.
Proof.
  intros Hb H. apply nth_error_In in H. unfold bytes_ok in Hb. rewrite forallb_forall in Hb.
  apply byte_range. apply Hb. exact H.
Qed.

(* an accepted frame begins with the LZ4 magic number and contains its whole header *)
Lemma accepted_magic sk p res : frame_decode bdec sk dict p = Some res -> rd32 p = FD_MAGICNUMBER.
Proof.
  unfold frame_decode. intro HV.
  destruct (take 4 p) as [[mg r0]|] eqn:T; [|discriminate HV].
  destruct (le_val mg =? MAGIC) eqn:EM; [|discriminate HV]. apply Z.eqb_eq in EM.
  destruct (take_length _ _ _ _ T) as [L4 _]. pose proof (take_app_split _ _ _ _ T) as Hd.
  unfold rd32. rewrite Hd. unfold ztake. rewrite firstn_app. replace (Z.to_nat 4 - length mg)%nat with 0%nat by lia.
  rewrite firstn_O, app_nil_r, firstn_all2 by lia. rewrite EM. reflexivity.
Qed.
Lemma frame_needs_header sk p res :
  frame_decode bdec sk dict p = Some res ->
  exists flg bd i bc csz cc did id,
    nth_error p 4 = Some flg /\ nth_error p 5 = Some bd /\
    spec_flags flg bd = Some (i, bc, csz, cc, did, id) /\
    7 + (if csz =? 1 then 8 else 0) + (if did =? 1 then 4 else 0) <= zlen p.
Proof.
  unfold frame_decode. intro H.
  destruct (take 4 p) as [[mg r]|] eqn:T; [|discriminate H].
  destruct (le_val mg =? MAGIC); [|discriminate H].
  destruct (parse_desc r) as [[d r1]|] eqn:PD; [|discriminate H]. clear H.
  destruct (take_length _ _ _ _ T) as [L4 _]. pose proof (take_app_split _ _ _ _ T) as Hp.
  destruct mg as [|m0 [|m1 [|m2 [|m3 [|]]]]]; try (simpl in L4; lia).
  destruct r as [|flg [|bd r0]]; try discriminate PD. subst p.
  rewrite parse_desc_factor in PD.
  destruct (spec_flags flg bd) as [[[[[[indep bcrc] csz] ccrc] did] bsid]|] eqn:SF; [|discriminate PD].
  destruct (take _ r0) as [[csb x1]|] eqn:T1; [|discriminate PD].
  destruct (take _ x1) as [[dib x2]|] eqn:T2; [|discriminate PD].
  destruct x2 as [|hc x3]; [discriminate PD|].
  exists flg, bd, indep, bcrc, csz, ccrc, did, bsid. split; [reflexivity|]. split; [reflexivity|]. split; [exact SF|].
  destruct (take_length _ _ _ _ T1) as [_ L1]. destruct (take_length _ _ _ _ T2) as [_ L2].
  unfold zlen. simpl length in *. destruct (csz =? 1); destruct (did =? 1); lia.
Qed.

Lemma hdr_incomplete sk s p res :
  d_stage s = StoreFrameHeader -> wf s -> pre (d_header s) (d_tmpInSize s) = p -> bytes_ok p = true ->
  frame_decode bdec sk dict p = Some res -> False.
Proof.
  intros Hst (_ & _ & Hi) Hp Hb HF. unfold stage_inv in Hi. rewrite Hst in Hi. destruct Hi as (I1 & I2 & Hx).
  assert (Hlen : zlen p = d_tmpInSize s) by (rewrite <- Hp; apply pre_length; lia).
  destruct (frame_needs_header _ _ _ HF) as (flg & bd & i & bc & csz & cc & did & id & N4 & N5 & SF & L).
  destruct Hx as [Hx|(X0 & X1 & X2 & FLG & bm & bc' & cs & cc' & di & N4' & EF & FS)].
  - unfold FD_minFHSize in Hx. destruct (csz =? 1); destruct (did =? 1); lia.
  - assert (Hph : p = d_header s) by (rewrite <- Hp; apply pre_full; exact X0).
    rewrite <- Hph in N4'. rewrite N4 in N4'. inversion N4'; subst FLG.
    pose proof (flags_equiv flg bd (nth_byte_range _ _ _ Hb N4) (nth_byte_range _ _ _ Hb N5)) as FE.
    rewrite SF in FE. unfold model_flags in FE. rewrite EF in FE.
    destruct (bd_decode bd) as [e|id']; [discriminate FE|]. inversion FE; subst.
    pose proof (spec_flags_range _ _ _ _ _ _ _ _ SF) as (_ & _ & Hcs & _ & Hdi & _).
    unfold fh_size, FD_minFHSize in FS.
    destruct Hcs as [-> | ->]; destruct Hdi as [-> | ->]; cbn in FS, L; lia.
Qed.

(* the input is exhausted and what was consumed is a whole accepted frame: only the end of the
   frame (no content checksum) can be left to do *)
Lemma empty_input p O s res :
  CInv p O s -> wf s -> SpecGoalF p [] res ->
  exists d maxb, d_stage s = GetSuffix /\ binv skip d maxb dict O s /\ f_ccrc d = false /\ csize_ok d O.
Proof.
  intros C Hwf G'. assert (Hwf' := Hwf). destruct Hwf' as (_ & _ & Hi). unfold stage_inv in Hi.
  assert (G : frame_decode bdec false dict p = Some res) by (unfold SpecGoalF in G'; rewrite app_nil_r in G'; exact G').
  assert (Z0 : zlen (@nil byte) = 0) by reflexivity.
  assert (Hcr : forall b, 0 <= crc4 b) by (intro b; unfold crc4; destruct b; lia).
  destruct C as [Hst -> -> Hrem Hh Hsk | Hst -> Hrem Hh Hsk Hp Hbp | d maxb Hst -> B HK | d maxb Hst B HK
                | d maxb t Hst B Ht Hbt HK | d maxb acc0 data1 Hst -> B Htg Hm Hx HK
                | d maxb acc0 data t Hst -> B EB Hd Hx Ht Hbt HK | d maxb n Hst B Htg Hn HK
                | d maxb n t Hst B Htg Hn Ht Hbt HK | d maxb acc0 Hst HOe B Hm HK | d maxb Hst B HK
                | d maxb t Hst B EC ER Ht Hbt HK | -> HS]; try rewrite Hst in Hi;
    try (apply (proj2 HK) in G').
  - exfalso. unfold frame_decode in G. simpl in G. discriminate G.
  - exfalso. eapply hdr_incomplete; eauto.
  - exfalso. apply need_header in G'. lia.
  - exfalso. apply need_header in G'. lia.
  - exfalso. apply need_header in G'. rewrite app_nil_r, <- Ht, pre_length in G' by lia. unfold FD_BHSize in Hi. lia.
  - exfalso. apply need_EC in G'; [|exact Htg]. specialize (Hcr (f_bcrc d)). lia.
  - exfalso. apply need_EB in G'. rewrite app_nil_r, <- Ht, pre_length in G' by lia. lia.
  - exfalso. apply need_comp in G'; [|lia]. specialize (Hcr (f_bcrc d)). lia.
  - exfalso. apply need_comp in G'; [|lia]. rewrite app_nil_r, <- Ht, pre_length in G' by lia. lia.
  - exfalso. apply need_header in G'. lia.
  - exists d, maxb. split; [exact Hst|]. split; [exact B|]. split.
    + destruct (f_ccrc d) eqn:EC; [|reflexivity]. exfalso. apply (need_suffix _ _ _ _ _ EC) in G'. lia.
    + eapply E_suffix_csize; eauto.
  - exfalso. apply (need_suffix _ _ _ _ _ EC) in G'. rewrite app_nil_r, <- Ht, pre_length in G' by lia. lia.
  - exfalso. destruct HS as (_ & Hmg & _). rewrite (accepted_magic _ _ _ G) in Hmg. exact (magic_not_skippable Hmg).
Qed.

(* ---- one call of LZ4F_decompress ---- *)
(* between two calls: inside a frame, or at the start of a frame (skipChecksum not yet raised) *)
Definition at_start (s : dstate) : Prop :=
  d_stage s = GetFrameHeader /\ d_remaining s = 0 /\ d_hist s = dict /\ d_skip s = false.
Definition BInv (p O : list byte) (s : dstate) : Prop := CInv p O s \/ (p = [] /\ O = [] /\ at_start s).

Lemma skinv_in_skip p s : skinv p s -> in_skip (d_stage s) = true.
Proof. intros (_ & _ & K). destruct (d_stage s); try contradiction; reflexivity. Qed.
Lemma CInv_skip p O s : CInv p O s -> in_skip (d_stage s) = false -> d_skip s = skip.
Proof.
  intros C Hn.
  destruct C as [Hst -> -> Hrem Hh Hsk | Hst -> Hrem Hh Hsk Hp Hbp | d maxb Hst -> B HK | d maxb Hst B HK
                | d maxb t Hst B Ht Hbt HK | d maxb acc0 data1 Hst -> B Htg Hm Hx HK
                | d maxb acc0 data t Hst -> B EB Hd Hx Ht Hbt HK | d maxb n Hst B Htg Hn' HK
                | d maxb n t Hst B Htg Hn' Ht Hbt HK | d maxb acc0 Hst HOe B Hm HK | d maxb Hst B HK
                | d maxb t Hst B EC ER Ht Hbt HK | -> HS]; auto;
    try solve [destruct B as (_ & _ & B & _); exact B].
  - destruct B as (_ & _ & B & _). destruct (do_init_fields s) as (_ & _ & I3 & _). rewrite <- I3. assumption.
  - rewrite (skinv_in_skip _ _ HS) in Hn. discriminate Hn.
Qed.
Lemma CInv_in_skip p O s : CInv p O s -> in_skip (d_stage s) = true -> O = [] /\ skinv p s.
Proof.
  intros C E.
  destruct C as [Hst -> -> Hrem Hh Hsk | Hst -> Hrem Hh Hsk Hp Hbp | d maxb Hst -> B HK | d maxb Hst B HK
                | d maxb t Hst B Ht Hbt HK | d maxb acc0 data1 Hst -> B Htg Hm Hx HK
                | d maxb acc0 data t Hst -> B EB Hd Hx Ht Hbt HK | d maxb n Hst B Htg Hn' HK
                | d maxb n t Hst B Htg Hn' Ht Hbt HK | d maxb acc0 Hst HOe B Hm HK | d maxb Hst B HK
                | d maxb t Hst B EC ER Ht Hbt HK | -> HS]; try (rewrite Hst in E; discriminate E).
  auto.
Qed.
Lemma CInv_at_gfh p O s : CInv p O s -> d_stage s = GetFrameHeader ->
  p = [] /\ O = [] /\ d_remaining s = 0 /\ d_hist s = dict /\ d_skip s = skip.
Proof.
  intros C E.
  destruct C as [Hst -> -> Hrem Hh Hsk | Hst -> Hrem Hh Hsk Hp Hbp | d maxb Hst -> B HK | d maxb Hst B HK
                | d maxb t Hst B Ht Hbt HK | d maxb acc0 data1 Hst -> B Htg Hm Hx HK
                | d maxb acc0 data t Hst -> B EB Hd Hx Ht Hbt HK | d maxb n Hst B Htg Hn' HK
                | d maxb n t Hst B Htg Hn' Ht Hbt HK | d maxb acc0 Hst HOe B Hm HK | d maxb Hst B HK
                | d maxb t Hst B EC ER Ht Hbt HK | -> HS]; try (rewrite Hst in E; discriminate E).
  - auto.
  - destruct HS as (_ & _ & K). rewrite E in K. contradiction.
Qed.
Lemma set_skip_id s : set_skip s (d_skip s || d_skip s) = s.
Proof. destruct s. unfold set_skip. simpl. rewrite orb_diag. reflexivity. Qed.

Lemma CInv_enter p O s : BInv p O s -> CInv p O (set_skip s (d_skip s || skip)).
Proof.
  intros [C|(-> & -> & H1 & H2 & H3 & H4)].
  - destruct (in_skip (d_stage s)) eqn:E.
    + destruct (CInv_in_skip _ _ _ C E) as [-> HS]. apply C_skip; [reflexivity|]. unfold skinv in *; ss; exact HS.
    + pose proof (CInv_skip _ _ _ C E) as K.
      assert (Q : set_skip s (d_skip s || skip) = s) by (rewrite <- K; apply set_skip_id). rewrite Q. exact C.
  - apply C_start; ss; auto. rewrite H4. reflexivity.
Qed.


Lemma call_chunk s src cap o p O :
  o_skip o = skip -> wf s -> BInv p O s -> bytes_ok src = true -> 0 <= cap ->
  let s' := fst (decompress bdec s src cap o) in
  let r := snd (decompress bdec s src cap o) in
  zlen O + zlen (r_out r) < 18446744073709551616 \/ Valid p src ->
  (r_ret r < 0 -> Bad p src) /\
  (0 <= r_ret r ->
   exists x rest, src = x ++ rest /\ r_consumed r = zlen x /\ wf s' /\
                  if r_ret r =? 0 then Fin (p ++ x) (O ++ r_out r) else BInv (p ++ x) (O ++ r_out r) s').
Proof.
  intros Hsk Hwf HB Hb Hc. unfold decompress. rewrite Hsk.
  pose proof (CInv_enter _ _ _ HB) as C.
  set (s1 := set_skip s (d_skip s || skip)) in *.
  assert (W1 : wf s1) by (apply wf_set_skip; exact Hwf).
  set (l0 := mkL s1 src 0 [] cap).
  destruct (run bdec (call_fuel src) o l0) as [l' f] eqn:ER.
  pose proof (run_post bdec o _ l0 l' f W1 Hc ER) as (A0 & _ & NF & R0).
  pose proof (zlen_nonneg src) as Hl.
  destruct f as [h|v|]; cbn [fst snd r_ret r_out r_consumed].
  - intros Hlen.
    pose proof (run_chunk o _ l0 l' (FStop h) p O C W1 Hb Hc ER) as R. unfold l0 in R at 1 2. cbn [l_out l_src] in R.
    specialize (R ltac:(destruct Hlen as [Hlen|Hv]; [left; unfold zlen at 3; simpl length; lia|right; exact Hv])).
    unfold runr in R. cbn [app] in R.
    destruct R as (Hh & x & y & R1 & R2 & R3 & R4). unfold l0 in R1, R2. cbn [l_src l_out app] in R1, R2.
    split; [intro; lia|]. intros _.
    exists x, (l_src l'). split; [exact R1|]. split.
    + unfold acct, l0 in A0. cbn [l_used l_src] in A0. rewrite R1, zlen_app in A0. lia.
    + split; [apply R0|]. rewrite R2. destruct (h =? 0); [exact R4|left; exact R4].
  - intros Hlen.
    pose proof (run_chunk o _ l0 l' (FRet v) p O C W1 Hb Hc ER) as R. unfold l0 in R at 1 2. cbn [l_out l_src] in R.
    specialize (R ltac:(destruct Hlen as [Hlen|Hv]; [left; unfold zlen at 3; simpl length; lia|right; exact Hv])).
    unfold runr in R. split; [exact R|].
    intros Hv. destruct R0 as [R0|(Z0 & St & W & Pv)]; [lia|].
    (* the only return value >= 0 from inside the loop: no input at the start of a frame *)
    unfold l0 in Z0, St. cbn [l_src l_s] in Z0, St.
    assert (src = []) by (apply zlen0_nil; exact Z0). subst src.
    replace (call_fuel []) with 16%nat in ER by reflexivity. cbn [run] in ER.
    unfold iter in ER. replace (d_stage (l_s l0)) with GetFrameHeader in ER by (symmetry; exact St).
    unfold do_getFrameHeader in ER. unfold l0 in ER at 1 2. cbn [l_src] in ER.
    change (FD_maxFHSize <=? zlen []) with false in ER. change (zlen [] =? 0) with true in ER. cbv iota in ER.
    inversion ER; subst l' v. clear ER.
    exists [], []. split; [reflexivity|]. split; [reflexivity|]. split; [exact W|].
    change (FD_minFHSize =? 0) with false. cbv iota. ss. rewrite !app_nil_r. left.
    destruct (CInv_at_gfh _ _ _ C St) as (-> & -> & G1 & G2 & G3).
    apply C_start; ss; auto.
  - intros _. exfalso. apply NF; [|reflexivity]. unfold mu, call_fuel, l0; ss. pose proof (rank_range (d_stage s1)). lia.
Qed.

(* no input left and what was consumed is a whole accepted frame: the call ends the frame *)
Lemma call_empty s cap o p O res :
  o_skip o = skip -> wf s -> BInv p O s -> 0 <= cap -> SpecGoalF p [] res ->
  r_ret (snd (decompress bdec s [] cap o)) = 0.
Proof.
  intros Hsk Hwf HB Hc G. unfold decompress. rewrite Hsk.
  pose proof (CInv_enter _ _ _ HB) as C.
  set (s1 := set_skip s (d_skip s || skip)) in *.
  assert (W1 : wf s1) by (apply wf_set_skip; exact Hwf).
  destruct (empty_input _ _ _ _ C W1 G) as (d & maxb & Hst & B & EC & CS).
  pose proof (binv_flags _ _ _ _ _ _ B) as (F1 & F2 & F3).
  replace (call_fuel []) with 16%nat by reflexivity. cbn [run]. unfold iter. cbn [l_s]. rewrite Hst.
  unfold do_getSuffix. cbn [l_s l_src]. rewrite (csize_remaining _ _ _ _ B CS).
  change (negb (0 =? 0)) with false. cbv iota. rewrite F2, EC. reflexivity.
Qed.

Lemma produced_out s src cap o :
  r_produced (snd (decompress bdec s src cap o)) <= zlen (r_out (snd (decompress bdec s src cap o))).
Proof.
  unfold decompress. destruct (run bdec (call_fuel src) o _) as [l f]. destruct f; cbn; try apply zlen_nonneg. lia.
Qed.

(* ---- LZ4F_decompress_usingDict: the dictionary is (re)installed while the frame has not started ---- *)
Definition pre_ud (ud : option (list byte)) (s : dstate) : dstate :=
  match ud with
  | Some d0 => if stage_num (d_stage s) <=? FD_dstage_init then set_hist s d0 else s
  | None => s
  end.
Definition BInvU (ud : option (list byte)) (p O : list byte) (s : dstate) : Prop :=
  CInv p O s \/ (p = [] /\ O = [] /\ d_stage s = GetFrameHeader /\ d_remaining s = 0 /\ d_skip s = false /\
                 (ud = None -> d_hist s = dict)).
Lemma BInv_BInvU ud p O s : BInv p O s -> BInvU ud p O s.
Proof. intros [C|(A & B & C1 & C2 & C3 & C4)]; [left; exact C|right; auto 10]. Qed.
Lemma wf_pre ud s : wf s -> wf (pre_ud ud s).
Proof. intro H. unfold pre_ud. destruct ud; [|exact H]. destruct (_ <=? _); [apply wf_set_hist|]; exact H. Qed.
Lemma set_hist_id s : set_hist s (d_hist s) = s.
Proof. destruct s. reflexivity. Qed.

Lemma CInv_set_hist p O s :
  CInv p O s -> CInv p O (if stage_num (d_stage s) <=? FD_dstage_init then set_hist s dict else s).
Proof.
  intro C. assert (C0 := C).
  destruct C as [Hst -> -> Hrem Hh Hsk | Hst -> Hrem Hh Hsk Hp Hbp | d maxb Hst -> B HK | d maxb Hst B HK
                | d maxb t Hst B Ht Hbt HK | d maxb acc0 data1 Hst -> B Htg Hm Hx HK
                | d maxb acc0 data t Hst -> B EB Hd Hx Ht Hbt HK | d maxb n Hst B Htg Hn HK
                | d maxb n t Hst B Htg Hn Ht Hbt HK | d maxb acc0 Hst HOe B Hm HK | d maxb Hst B HK
                | d maxb t Hst B EC ER Ht Hbt HK | -> HS];
    try (rewrite Hst; cbn; exact C0).
  - rewrite Hst. cbn. rewrite <- Hh, set_hist_id. exact C0.
  - rewrite Hst. cbn. rewrite <- Hh, set_hist_id. exact C0.
  - rewrite Hst. cbn.
    eapply C_init with (d := d) (maxb := maxb); [ss; exact Hst|reflexivity| |exact HK].
    destruct (do_init_fields s) as (I1 & I2 & I3 & I4 & I5 & I6).
    destruct (do_init_fields (set_hist s dict)) as (J1 & J2 & J3 & J4 & J5 & J6).
    destruct B as (B1 & B2 & B3 & B4 & B5 & B6 & B7). ss.
    rewrite I1 in B1. rewrite I2 in B2. rewrite I3 in B3. rewrite I6 in B5. rewrite I5 in B6.
    unfold binv. rewrite J1, J2, J3, J4, J5, J6.
    split; [exact B1|]. split; [exact B2|]. split; [exact B3|]. split; [|auto].
    destruct (f_indep d); [reflexivity|]. rewrite app_nil_r. reflexivity.
  - destruct HS as (_ & _ & K). destruct (d_stage s); try contradiction; cbn; exact C0.
Qed.

Lemma BInvU_pre ud p O s : (forall d0, ud = Some d0 -> d0 = dict) -> BInvU ud p O s -> BInv p O (pre_ud ud s).
Proof.
  intros Hud [C|(-> & -> & H1 & H2 & H3 & H4)]; unfold pre_ud.
  - left. destruct ud as [d0|]; [|exact C]. rewrite (Hud d0 eq_refl). apply CInv_set_hist. exact C.
  - right. split; [reflexivity|]. split; [reflexivity|]. unfold at_start.
    destruct ud as [d0|]; [|auto]. rewrite (Hud d0 eq_refl), H1. cbn. ss. auto.
Qed.
End Chunk.

(* ---- a byte string driven through the decoder in pieces ---- *)
(* chunk sizes [ns], capacities [caps]; what a call does not consume is offered again *)
Inductive verdict := VComplete (content : list byte) (consumed : Z) | VError | VMore.
Fixpoint drive (bdec : list byte -> list byte -> option (list byte)) (o : dopts) (fuel : nat)
         (s : dstate) (data : list byte) (ns caps : list Z) (acc : list byte) (pos : Z) : verdict :=
  match fuel, ns, caps with
  | S f, n :: ns', cap :: caps' =>
      let '(s', r) := decompress bdec s (ztake n data) cap o in
      if r_ret r <? 0 then VError
      else if r_ret r =? 0 then VComplete (acc ++ r_out r) (pos + r_consumed r)
      else drive bdec o f s' (zdrop (r_consumed r) data) ns' caps' (acc ++ r_out r) (pos + r_consumed r)
  | _, _, _ => VMore
  end.

(* the same with LZ4F_decompress_usingDict ([ud] = Some dictionary) *)
Definition call (bdec : list byte -> list byte -> option (list byte)) (ud : option (list byte))
           (s : dstate) (src : list byte) (cap : Z) (o : dopts) : dstate * dres :=
  match ud with
  | Some d0 => decompress_usingDict bdec s src cap d0 o
  | None => decompress bdec s src cap o
  end.
Fixpoint drive_gen (bdec : list byte -> list byte -> option (list byte)) (ud : option (list byte)) (o : dopts) (fuel : nat)
         (s : dstate) (data : list byte) (ns caps : list Z) (acc : list byte) (pos : Z) : verdict :=
  match fuel, ns, caps with
  | S f, n :: ns', cap :: caps' =>
      let '(s', r) := call bdec ud s (ztake n data) cap o in
      if r_ret r <? 0 then VError
      else if r_ret r =? 0 then VComplete (acc ++ r_out r) (pos + r_consumed r)
      else drive_gen bdec ud o f s' (zdrop (r_consumed r) data) ns' caps' (acc ++ r_out r) (pos + r_consumed r)
  | _, _, _ => VMore
  end.
Definition drive_usingDict bdec (dict : list byte) := drive_gen bdec (Some dict).
Lemma drive_gen_none bdec o : forall k s data ns caps acc pos,
  drive_gen bdec None o k s data ns caps acc pos = drive bdec o k s data ns caps acc pos.
Proof.
  induction k as [|k IH]; intros; [reflexivity|]. destruct ns as [|n ns]; [reflexivity|]. destruct caps as [|c caps]; [reflexivity|].
  cbn [drive_gen drive call]. destruct (decompress bdec s (ztake n data) c o) as [s' r].
  destruct (r_ret r <? 0); [reflexivity|]. destruct (r_ret r =? 0); [reflexivity|]. apply IH.
Qed.
Lemma call_pre bdec ud s src cap o : call bdec ud s src cap o = decompress bdec (pre_ud ud s) src cap o.
Proof. destruct ud; reflexivity. Qed.

(* a frame accepted with every checksum verified is accepted, with the same result, when checksums are skipped *)
Lemma blocks_skip_mono bdec sk d maxb dict : forall F acc bs res,
  blocks bdec false F d maxb dict acc bs = Some res -> blocks bdec sk F d maxb dict acc bs = Some res.
Proof.
  induction F as [|F IH]; intros acc bs res H; [discriminate H|]. cbn [blocks] in *.
  destruct (take 4 bs) as [[szb r0]|]; [|discriminate H].
  destruct (le_val szb =? 0).
  - destruct (f_ccrc d); [|exact H].
    destruct (take 4 r0) as [[cb r1]|]; [|discriminate H]. cbn [orb] in H.
    destruct (le_val cb =? xxh32 0 acc); [|discriminate H]. rewrite orb_true_r. exact H.
  - destruct (maxb <? le_val szb mod 2147483648); [discriminate H|].
    destruct (take (Z.to_nat (le_val szb mod 2147483648)) r0) as [[data r1]|]; [|discriminate H].
    assert (G : forall rest,
       (let hist := if f_indep d then dict else lastn 65536 (dict ++ acc) in
        let content := if 2147483648 <=? le_val szb then Some data else bdec hist data in
        match content with
        | Some c0 => if maxb <? Z.of_nat (length c0) then None else blocks bdec false F d maxb dict (acc ++ c0) rest
        | None => None end) = Some res ->
       (let hist := if f_indep d then dict else lastn 65536 (dict ++ acc) in
        let content := if 2147483648 <=? le_val szb then Some data else bdec hist data in
        match content with
        | Some c0 => if maxb <? Z.of_nat (length c0) then None else blocks bdec sk F d maxb dict (acc ++ c0) rest
        | None => None end) = Some res).
    { intros rest. cbv zeta.
      destruct (if 2147483648 <=? le_val szb then Some data else bdec (if f_indep d then dict else lastn 65536 (dict ++ acc)) data) as [c0|];
        [|discriminate].
      destruct (maxb <? Z.of_nat (length c0)); [discriminate|]. apply IH. }
    destruct (f_bcrc d); [|apply G; exact H].
    destruct (take 4 r1) as [[cb r2]|]; [|discriminate H]. cbn [orb] in H.
    destruct (le_val cb =? xxh32 0 data); [|discriminate H]. rewrite orb_true_r. apply G. exact H.
Qed.
Lemma frame_decode_skip_mono bdec sk dict bs res :
  frame_decode bdec false dict bs = Some res -> frame_decode bdec sk dict bs = Some res.
Proof.
  unfold frame_decode. destruct (take 4 bs) as [[mg r]|]; [|discriminate].
  destruct (le_val mg =? MAGIC); [|discriminate]. destruct (parse_desc r) as [[d r1]|]; [|discriminate].
  destruct (bsid_size (f_bsid d)); [|discriminate]. apply blocks_skip_mono.
Qed.

Section Drive.
Variable bdec : list byte -> list byte -> option (list byte).
Variable o : dopts.
Variable dict : list byte.
Variable ud : option (list byte).                       (* Some dict: the _usingDict entry point *)
Hypothesis Hud : forall d0, ud = Some d0 -> d0 = dict.

Lemma drive_extends : forall k s data ns caps acc pos content consumed,
  drive_gen bdec ud o k s data ns caps acc pos = VComplete content consumed -> exists y, content = acc ++ y.
Proof.
  induction k as [|k IH]; intros s data ns caps acc pos content consumed H; [discriminate H|].
  destruct ns as [|n ns]; [discriminate H|]. destruct caps as [|cap caps]; [discriminate H|].
  cbn [drive_gen] in H. rewrite call_pre in H. destruct (decompress bdec (pre_ud ud s) (ztake n data) cap o) as [s' r].
  destruct (r_ret r <? 0); [discriminate H|].
  destruct (r_ret r =? 0).
  - inversion H; subst. eexists; reflexivity.
  - destruct (IH _ _ _ _ _ _ _ _ H) as [y Hy]. exists (r_out r ++ y). rewrite Hy, app_assoc. reflexivity.
Qed.

Lemma drive_chunk : forall k s data ns caps acc pos p O content consumed,
  wf s -> BInvU bdec (o_skip o) dict ud p O s -> bytes_ok data = true -> Forall (fun c => 0 <= c) caps ->
  drive_gen bdec ud o k s data ns caps acc pos = VComplete content consumed ->
  zlen O + (zlen content - zlen acc) < 18446744073709551616 ->
  exists x y rest, data = x ++ rest /\ content = acc ++ y /\ consumed = pos + zlen x /\
                   Fin bdec (o_skip o) dict (p ++ x) (O ++ y).
Proof.
  induction k as [|k IH]; intros s data ns caps acc pos p O content consumed Hwf HB Hb Hcaps H Hlen; [discriminate H|].
  destruct ns as [|n ns]; [discriminate H|]. destruct caps as [|cap caps]; [discriminate H|].
  cbn [drive_gen] in H. rewrite call_pre in H. inversion Hcaps as [|c0 cs0 Hc Hcaps']; subst.
  destruct (bytes_ok_split n _ Hb) as [Hb1 Hb2].
  pose proof (call_chunk bdec (o_skip o) dict (pre_ud ud s) (ztake n data) cap o p O eq_refl (wf_pre ud s Hwf) (BInvU_pre bdec (o_skip o) dict ud p O s Hud HB) Hb1 Hc) as CC.
  destruct (decompress bdec (pre_ud ud s) (ztake n data) cap o) as [s' r]. cbn [fst snd] in CC.
  destruct (r_ret r <? 0) eqn:Eneg; [discriminate H|]. apply Z.ltb_ge in Eneg.
  assert (Hdata : forall x rest0, ztake n data = x ++ rest0 -> data = x ++ rest0 ++ zdrop n data).
  { intros x rest0 E. rewrite app_assoc, <- E. symmetry. apply ztake_zdrop_app. }
  destruct (r_ret r =? 0) eqn:E0.
  - inversion H; subst content consumed. clear H.
    destruct (CC ltac:(left; rewrite zlen_app in Hlen; lia)) as [_ CC'].
    destruct (CC' Eneg) as (x & rest0 & C1 & C2 & C3 & C4).
    exists x, (r_out r), (rest0 ++ zdrop n data). split; [apply Hdata; exact C1|]. split; [reflexivity|].
    split; [rewrite C2; reflexivity|exact C4].
  - destruct (drive_extends _ _ _ _ _ _ _ _ _ H) as [y' Hy'].
    assert (Hl1 : zlen O + zlen (r_out r) < 18446744073709551616).
    { rewrite Hy', !zlen_app in Hlen. pose proof (zlen_nonneg y'). lia. }
    destruct (CC (or_introl Hl1)) as [_ CC'].
    destruct (CC' Eneg) as (x & rest0 & C1 & C2 & C3 & C4).
    pose proof (Hdata _ _ C1) as Hd.
    assert (Hdrop : zdrop (r_consumed r) data = rest0 ++ zdrop n data).
    { rewrite C2. rewrite Hd at 1. apply zdrop_app_exact. }
    rewrite Hdrop in H.
    assert (Hb' : bytes_ok (rest0 ++ zdrop n data) = true).
    { rewrite Hd, bytes_ok_app in Hb. apply andb_prop in Hb. apply Hb. }
    assert (Hlen' : zlen (O ++ r_out r) + (zlen content - zlen (acc ++ r_out r)) < 18446744073709551616).
    { rewrite !zlen_app. lia. }
    destruct (IH s' _ ns caps _ _ (p ++ x) (O ++ r_out r) content consumed C3 (BInv_BInvU _ _ _ ud _ _ _ C4) Hb' Hcaps' H Hlen')
      as (x2 & y2 & rest2 & D1 & D2 & D3 & D4).
    exists (x ++ x2), (r_out r ++ y2), rest2.
    split; [rewrite Hd, D1, app_assoc; reflexivity|]. split; [rewrite D2, app_assoc; reflexivity|].
    split; [rewrite D3, C2, zlen_app; lia|]. rewrite !app_assoc. exact D4.
Qed.

(* on a valid frame (all checksums right) no call fails, whatever the chunking *)
Lemma drive_valid : forall k s data ns caps acc pos p O res,
  wf s -> BInvU bdec (o_skip o) dict ud p O s -> bytes_ok data = true -> Forall (fun c => 0 <= c) caps ->
  frame_decode bdec false dict (p ++ data) = Some res ->
  match drive_gen bdec ud o k s data ns caps acc pos with
  | VError => False
  | VComplete content consumed =>
      exists x y rest, data = x ++ rest /\ content = acc ++ y /\ consumed = pos + zlen x /\
                       Fin bdec (o_skip o) dict (p ++ x) (O ++ y)
  | VMore => True
  end.
Proof.
  induction k as [|k IH]; intros s data ns caps acc pos p O res Hwf HB Hb Hcaps HV; [exact I|].
  destruct ns as [|n ns]; [exact I|]. destruct caps as [|cap caps]; [exact I|].
  cbn [drive_gen]. rewrite call_pre. inversion Hcaps as [|c0 cs0 Hc Hcaps']; subst.
  destruct (bytes_ok_split n _ Hb) as [Hb1 Hb2].
  pose proof (call_chunk bdec (o_skip o) dict (pre_ud ud s) (ztake n data) cap o p O eq_refl (wf_pre ud s Hwf) (BInvU_pre bdec (o_skip o) dict ud p O s Hud HB) Hb1 Hc) as CC.
  destruct (decompress bdec (pre_ud ud s) (ztake n data) cap o) as [s' r]. cbn [fst snd] in CC.
  assert (Hval : Valid bdec dict p (ztake n data)).
  { exists (zdrop n data), res. unfold SpecGoalF. rewrite ztake_zdrop_app. exact HV. }
  destruct (CC (or_intror Hval)) as [CCn CCp]. clear CC.
  assert (Hdata : forall x rest0, ztake n data = x ++ rest0 -> data = x ++ rest0 ++ zdrop n data).
  { intros x rest0 E. rewrite app_assoc, <- E. symmetry. apply ztake_zdrop_app. }
  destruct (r_ret r <? 0) eqn:Eneg.
  { apply Z.ltb_lt in Eneg. destruct Hval as (R & res' & G). exact (CCn Eneg R res' G). }
  apply Z.ltb_ge in Eneg.
  destruct (CCp Eneg) as (x & rest0 & C1 & C2 & C3 & C4).
  pose proof (Hdata _ _ C1) as Hd.
  destruct (r_ret r =? 0) eqn:E0.
  - exists x, (r_out r), (rest0 ++ zdrop n data). split; [exact Hd|]. split; [reflexivity|].
    split; [rewrite C2; reflexivity|exact C4].
  - assert (Hdrop : zdrop (r_consumed r) data = rest0 ++ zdrop n data).
    { rewrite C2. rewrite Hd at 1. apply zdrop_app_exact. }
    rewrite Hdrop.
    assert (Hb' : bytes_ok (rest0 ++ zdrop n data) = true).
    { rewrite Hd, bytes_ok_app in Hb. apply andb_prop in Hb. apply Hb. }
    assert (HV' : frame_decode bdec false dict ((p ++ x) ++ rest0 ++ zdrop n data) = Some res).
    { rewrite <- app_assoc, <- Hd. exact HV. }
    pose proof (IH s' _ ns caps (acc ++ r_out r) (pos + r_consumed r) (p ++ x) (O ++ r_out r) res C3 (BInv_BInvU _ _ _ ud _ _ _ C4) Hb' Hcaps' HV') as R.
    destruct (drive_gen bdec ud o k s' (rest0 ++ zdrop n data) ns caps (acc ++ r_out r) (pos + r_consumed r)) as [content consumed| |]; auto.
    destruct R as (x2 & y2 & rest2 & D1 & D2 & D3 & D4).
    exists (x ++ x2), (r_out r ++ y2), rest2.
    split; [rewrite Hd, D1, app_assoc; reflexivity|]. split; [rewrite D2, app_assoc; reflexivity|].
    split; [rewrite D3, C2, zlen_app; lia|]. rewrite !app_assoc. exact D4.
Qed.

(* Completeness under chunking.  From a context at the start of a frame, on an input that the
   specification accepts with every checksum verified, no call fails whatever the pieces, the
   capacities and skipChecksums; and when the calls come to an end (enough pieces were offered),
   the verdict is the specification's: the specified content, the length of the frame. *)
Theorem chunked_complete_gen : forall k s data ns caps content rest,
  wf s -> d_stage s = GetFrameHeader -> d_remaining s = 0 -> (ud = None -> d_hist s = dict) -> d_skip s = false ->
  bytes_ok data = true -> Forall (fun c => 0 <= c) caps ->
  frame_decode bdec false dict data = Some (content, rest) ->
  drive_gen bdec ud o k s data ns caps [] 0 <> VError /\
  (drive_gen bdec ud o k s data ns caps [] 0 <> VMore ->
   drive_gen bdec ud o k s data ns caps [] 0 = VComplete content (zlen data - zlen rest)).
Proof.
  intros k s data ns caps content rest Hwf H1 H2 H3 H4 Hb Hcaps HV.
  assert (HB : BInvU bdec (o_skip o) dict ud [] [] s) by (right; auto 10).
  pose proof (drive_valid k s data ns caps [] 0 [] [] _ Hwf HB Hb Hcaps HV) as D.
  destruct (drive_gen bdec ud o k s data ns caps [] 0) as [c n| |]; [|contradiction|].
  2:{ split; [discriminate|]. intro X. contradiction. }
  split; [discriminate|]. intros _.
  destruct D as (x & y & rest' & D1 & D2 & D3 & D4). cbn [app] in *. subst c.
  destruct D4 as [D|(D5 & D6 & D7 & D8)].
  - specialize (D rest'). unfold SpecGoal in D. rewrite <- D1 in D.
    rewrite (frame_decode_skip_mono _ (o_skip o) _ _ _ HV) in D. inversion D; subst.
    f_equal. rewrite zlen_app. lia.
  - exfalso. (* an accepted frame does not begin with a skippable magic number *)
    pose proof (accepted_magic _ _ _ _ _ HV) as Hrd.
    rewrite D1 in Hrd. rewrite rd32_app in Hrd by lia. rewrite Hrd in D7. exact (magic_not_skippable D7).
Qed.

(* ... and the calls do come to an end: every call that does not end the frame consumes or
   produces at least one byte (no livelock), so |input| + |content| + 1 pieces always suffice *)
Lemma drive_terminates : forall k s data ns caps acc pos p O content rest,
  o_dstnull o = false ->
  wf s -> BInvU bdec (o_skip o) dict ud p O s -> bytes_ok data = true ->
  Forall (fun n => 1 <= n) ns -> Forall (fun c => 1 <= c) caps ->
  frame_decode bdec false dict (p ++ data) = Some (content, rest) ->
  (k <= length ns)%nat -> (k <= length caps)%nat ->
  zlen data + (zlen content - zlen O) < Z.of_nat k ->
  drive_gen bdec ud o k s data ns caps acc pos <> VMore.
Proof.
  induction k as [|k IH]; intros s data ns caps acc pos p O content rest Hnull Hwf HB Hb Hns Hcaps HV Lns Lcaps HM.
  - exfalso. pose proof (zlen_nonneg data).
    assert (zlen O <= zlen content); [|lia].
    destruct HB as [C|(_ & -> & _)]; [|apply zlen_nonneg].
    destruct (CInv_prefix _ _ _ _ _ _ _ _ _ C HV) as [y ->]. rewrite zlen_app. pose proof (zlen_nonneg y). lia.
  - destruct ns as [|n ns]; [simpl in Lns; lia|]. destruct caps as [|cap caps]; [simpl in Lcaps; lia|].
    cbn [drive_gen]. rewrite call_pre. inversion Hcaps as [|c0 cs0 Hc1 Hcaps']; subst. inversion Hns as [|n0 ns0 Hn1 Hns']; subst.
    assert (Hc : 0 <= cap) by lia.
    destruct (bytes_ok_split n _ Hb) as [Hb1 Hb2].
    assert (Hval : Valid bdec dict p (ztake n data)).
    { exists (zdrop n data), (content, rest). unfold SpecGoalF. rewrite ztake_zdrop_app. exact HV. }
    pose proof (zlen_nonneg data) as Hd0.
    destruct (Z.eq_dec (zlen data) 0) as [Z0|Z0].
    { (* no input left *)
      assert (data = []) by (apply zlen0_nil; exact Z0). subst data.
      assert (Hz : ztake n [] = []) by (unfold ztake; apply firstn_nil). rewrite Hz.
      assert (G : SpecGoalF bdec dict p [] (content, rest)) by exact HV.
      pose proof (call_empty bdec (o_skip o) dict (pre_ud ud s) cap o p O _ eq_refl (wf_pre ud s Hwf)
                    (BInvU_pre bdec (o_skip o) dict ud p O s Hud HB) Hc G) as R0.
      destruct (decompress bdec (pre_ud ud s) [] cap o) as [s' r]. cbn [snd] in R0. rewrite R0. cbn. discriminate. }
    assert (Hsrc1 : 1 <= zlen (ztake n data)).
    { destruct (Z.le_gt_cases n (zlen data)); [rewrite zlen_ztake; lia|rewrite ztake_all; lia]. }
    pose proof (call_chunk bdec (o_skip o) dict (pre_ud ud s) (ztake n data) cap o p O eq_refl (wf_pre ud s Hwf) (BInvU_pre bdec (o_skip o) dict ud p O s Hud HB) Hb1 Hc) as CC.
    pose proof (decompress_ok bdec (pre_ud ud s) (ztake n data) cap o (wf_pre ud s Hwf) Hc) as (_ & _ & _ & _ & _ & _ & PROG).
    pose proof (produced_out bdec (pre_ud ud s) (ztake n data) cap o) as PO.
    specialize (PROG Hsrc1 Hc1 Hnull).
    destruct (decompress bdec (pre_ud ud s) (ztake n data) cap o) as [s' r]. cbn [fst snd] in CC, PROG, PO.
    destruct (CC (or_intror Hval)) as [CCn CCp]. clear CC.
    destruct (r_ret r <? 0) eqn:Eneg.
    { exfalso. apply Z.ltb_lt in Eneg. destruct Hval as (R & res' & G). exact (CCn Eneg R res' G). }
    apply Z.ltb_ge in Eneg.
    destruct (r_ret r =? 0) eqn:E0; [discriminate|]. apply Z.eqb_neq in E0.
    destruct (CCp Eneg) as (x & rest0 & C1 & C2 & C3 & C4).
    replace (r_ret r =? 0) with false in C4 by (symmetry; apply Z.eqb_neq; exact E0).
    assert (Hd : data = x ++ rest0 ++ zdrop n data).
    { rewrite app_assoc, <- C1. symmetry. apply ztake_zdrop_app. }
    assert (Hdrop : zdrop (r_consumed r) data = rest0 ++ zdrop n data).
    { rewrite C2. rewrite Hd at 1. apply zdrop_app_exact. }
    rewrite Hdrop.
    assert (Hb' : bytes_ok (rest0 ++ zdrop n data) = true).
    { rewrite Hd, bytes_ok_app in Hb. apply andb_prop in Hb. apply Hb. }
    assert (HV' : frame_decode bdec false dict ((p ++ x) ++ rest0 ++ zdrop n data) = Some (content, rest)).
    { rewrite <- app_assoc, <- Hd. exact HV. }
    apply (IH s' _ ns caps _ _ (p ++ x) (O ++ r_out r) content rest Hnull C3 (BInv_BInvU _ _ _ ud _ _ _ C4) Hb' Hns' Hcaps' HV');
      [simpl in Lns; lia | simpl in Lcaps; lia |].
    assert (Hlx : zlen data = zlen x + zlen (rest0 ++ zdrop n data)) by (rewrite Hd at 1; apply zlen_app).
    rewrite (zlen_app O). pose proof (zlen_nonneg x). pose proof (zlen_nonneg (r_out r)).
    destruct PROG as [P|[P|[P|P]]]; lia.
Qed.

(* Soundness under chunking.  From a context at the start of a frame (fresh, after a reset, or
   after a completed frame), whatever the pieces in which the input is offered and whatever the
   capacities: if the sequence of calls reports completion (a call returns 0), then
   - either the bytes consumed since the start are an LZ4 frame accepted by the specification,
     the concatenation of the outputs of all the calls is the specified content, and the total
     consumed is the length of that frame (the rest of the input is what the specification leaves),
   - or they are a skippable frame (nothing produced). *)
Theorem chunked_sound_gen : forall k s data ns caps content consumed,
  wf s -> d_stage s = GetFrameHeader -> d_remaining s = 0 -> (ud = None -> d_hist s = dict) -> d_skip s = false ->
  bytes_ok data = true -> Forall (fun c => 0 <= c) caps ->
  drive_gen bdec ud o k s data ns caps [] 0 = VComplete content consumed ->
  zlen content < 18446744073709551616 ->
  (exists rest, frame_decode bdec (o_skip o) dict data = Some (content, rest) /\ consumed = zlen data - zlen rest)
  \/ (content = [] /\ Z.land (rd32 data) SKIP_MASK = FD_MAGIC_SKIPPABLE_START /\
      consumed = 8 + rd32 (zdrop 4 data) /\ consumed <= zlen data).
Proof.
  intros k s data ns caps content consumed Hwf H1 H2 H3 H4 Hb Hcaps H Hlen.
  assert (HB : BInvU bdec (o_skip o) dict ud [] [] s) by (right; auto 10).
  destruct (drive_chunk k s data ns caps [] 0 [] [] content consumed Hwf HB Hb Hcaps H ltac:(unfold zlen at 1 3; simpl length; lia))
    as (x & y & rest & D1 & D2 & D3 & D4).
  cbn [app] in *. subst content. destruct D4 as [D|(D5 & D6 & D7 & D8)].
  - left. exists rest. split; [rewrite D1; apply D|]. rewrite D3, D1, zlen_app. lia.
  - right. split; [exact D5|]. split; [rewrite D1, rd32_app by lia; exact D7|]. split.
    + rewrite D3, D1, rd32_size_app by exact D6. lia.
    + rewrite D3, D1, zlen_app. pose proof (zlen_nonneg rest). lia.
Qed.
(* Chunking independence (non-NULL destination): a valid frame offered in ANY
   pieces of >= 1 byte, with ANY capacities >= 1, is decoded to the specified content, and
   |input| + |content| + 1 calls suffice. *)
Theorem chunked_reaches_gen : forall s data ns caps content rest,
  o_dstnull o = false ->
  wf s -> d_stage s = GetFrameHeader -> d_remaining s = 0 -> (ud = None -> d_hist s = dict) -> d_skip s = false ->
  bytes_ok data = true -> Forall (fun n => 1 <= n) ns -> Forall (fun c => 1 <= c) caps ->
  frame_decode bdec false dict data = Some (content, rest) ->
  let K := Z.to_nat (zlen data + zlen content + 1) in
  (K <= length ns)%nat -> (K <= length caps)%nat ->
  drive_gen bdec ud o K s data ns caps [] 0 = VComplete content (zlen data - zlen rest).
Proof.
  intros s data ns caps content rest Hnull Hwf H1 H2 H3 H4 Hb Hns Hcaps HV K Lns Lcaps.
  assert (Hcaps0 : Forall (fun c => 0 <= c) caps) by (eapply Forall_impl; [|exact Hcaps]; cbv beta; intros; lia).
  destruct (chunked_complete_gen K s data ns caps content rest Hwf H1 H2 H3 H4 Hb Hcaps0 HV) as [_ HC].
  apply HC.
  assert (HB : BInvU bdec (o_skip o) dict ud [] [] s) by (right; auto 10).
  apply (drive_terminates K s data ns caps [] 0 [] [] content rest Hnull Hwf HB Hb Hns Hcaps); auto.
  - pose proof (zlen_nonneg data). pose proof (zlen_nonneg content). unfold K. change (zlen []) with 0. lia.
Qed.
End Drive.

(* ---- the two entry points ---- *)
Lemma ud_none dict : forall d0 : list byte, @None (list byte) = Some d0 -> d0 = dict.
Proof. intros d0 E. discriminate E. Qed.
Lemma ud_some (dict : list byte) : forall d0, Some dict = Some d0 -> d0 = dict.
Proof. intros d0 E. inversion E. reflexivity. Qed.

(* LZ4F_decompress: the history a frame starts with is the one left in the context *)
Theorem chunked_sound : forall bdec o dict k s data ns caps content consumed,
  wf s -> d_stage s = GetFrameHeader -> d_remaining s = 0 -> d_hist s = dict -> d_skip s = false ->
  bytes_ok data = true -> Forall (fun c => 0 <= c) caps ->
  drive bdec o k s data ns caps [] 0 = VComplete content consumed ->
  zlen content < 18446744073709551616 ->
  (exists rest, frame_decode bdec (o_skip o) dict data = Some (content, rest) /\ consumed = zlen data - zlen rest)
  \/ (content = [] /\ Z.land (rd32 data) SKIP_MASK = FD_MAGIC_SKIPPABLE_START /\
      consumed = 8 + rd32 (zdrop 4 data) /\ consumed <= zlen data).
Proof.
  intros bdec o dict k s data ns caps content consumed Hwf H1 H2 H3 H4 Hb Hcaps H Hlen.
  rewrite <- drive_gen_none in H.
  exact (chunked_sound_gen bdec o dict None (ud_none dict) k s data ns caps content consumed Hwf H1 H2 (fun _ => H3) H4 Hb Hcaps H Hlen).
Qed.
Theorem chunked_complete : forall bdec o dict k s data ns caps content rest,
  wf s -> d_stage s = GetFrameHeader -> d_remaining s = 0 -> d_hist s = dict -> d_skip s = false ->
  bytes_ok data = true -> Forall (fun c => 0 <= c) caps ->
  frame_decode bdec false dict data = Some (content, rest) ->
  drive bdec o k s data ns caps [] 0 <> VError /\
  (drive bdec o k s data ns caps [] 0 <> VMore ->
   drive bdec o k s data ns caps [] 0 = VComplete content (zlen data - zlen rest)).
Proof.
  intros bdec o dict k s data ns caps content rest Hwf H1 H2 H3 H4 Hb Hcaps HV.
  rewrite <- drive_gen_none.
  exact (chunked_complete_gen bdec o dict None (ud_none dict) k s data ns caps content rest Hwf H1 H2 (fun _ => H3) H4 Hb Hcaps HV).
Qed.
Theorem chunked_reaches : forall bdec o dict s data ns caps content rest,
  o_dstnull o = false ->
  wf s -> d_stage s = GetFrameHeader -> d_remaining s = 0 -> d_hist s = dict -> d_skip s = false ->
  bytes_ok data = true -> Forall (fun n => 1 <= n) ns -> Forall (fun c => 1 <= c) caps ->
  frame_decode bdec false dict data = Some (content, rest) ->
  let K := Z.to_nat (zlen data + zlen content + 1) in
  (K <= length ns)%nat -> (K <= length caps)%nat ->
  drive bdec o K s data ns caps [] 0 = VComplete content (zlen data - zlen rest).
Proof.
  intros bdec o dict s data ns caps content rest Hnull Hwf H1 H2 H3 H4 Hb Hns Hcaps HV K L1 L2.
  rewrite <- drive_gen_none.
  exact (chunked_reaches_gen bdec o dict None (ud_none dict) s data ns caps content rest Hnull Hwf H1 H2 (fun _ => H3) H4 Hb Hns Hcaps HV L1 L2).
Qed.

(* LZ4F_decompress_usingDict with the same dictionary at every call: whatever history was left *)
Theorem chunked_sound_usingDict : forall bdec o dict k s data ns caps content consumed,
  wf s -> d_stage s = GetFrameHeader -> d_remaining s = 0 -> d_skip s = false ->
  bytes_ok data = true -> Forall (fun c => 0 <= c) caps ->
  drive_usingDict bdec dict o k s data ns caps [] 0 = VComplete content consumed ->
  zlen content < 18446744073709551616 ->
  (exists rest, frame_decode bdec (o_skip o) dict data = Some (content, rest) /\ consumed = zlen data - zlen rest)
  \/ (content = [] /\ Z.land (rd32 data) SKIP_MASK = FD_MAGIC_SKIPPABLE_START /\
      consumed = 8 + rd32 (zdrop 4 data) /\ consumed <= zlen data).
Proof.
  intros bdec o dict k s data ns caps content consumed Hwf H1 H2 H4 Hb Hcaps H Hlen.
  refine (chunked_sound_gen bdec o dict (Some dict) (ud_some dict) k s data ns caps content consumed Hwf H1 H2 _ H4 Hb Hcaps H Hlen).
  discriminate.
Qed.
Theorem chunked_complete_usingDict : forall bdec o dict k s data ns caps content rest,
  wf s -> d_stage s = GetFrameHeader -> d_remaining s = 0 -> d_skip s = false ->
  bytes_ok data = true -> Forall (fun c => 0 <= c) caps ->
  frame_decode bdec false dict data = Some (content, rest) ->
  drive_usingDict bdec dict o k s data ns caps [] 0 <> VError /\
  (drive_usingDict bdec dict o k s data ns caps [] 0 <> VMore ->
   drive_usingDict bdec dict o k s data ns caps [] 0 = VComplete content (zlen data - zlen rest)).
Proof.
  intros bdec o dict k s data ns caps content rest Hwf H1 H2 H4 Hb Hcaps HV.
  refine (chunked_complete_gen bdec o dict (Some dict) (ud_some dict) k s data ns caps content rest Hwf H1 H2 _ H4 Hb Hcaps HV).
  discriminate.
Qed.
Theorem chunked_reaches_usingDict : forall bdec o dict s data ns caps content rest,
  o_dstnull o = false ->
  wf s -> d_stage s = GetFrameHeader -> d_remaining s = 0 -> d_skip s = false ->
  bytes_ok data = true -> Forall (fun n => 1 <= n) ns -> Forall (fun c => 1 <= c) caps ->
  frame_decode bdec false dict data = Some (content, rest) ->
  let K := Z.to_nat (zlen data + zlen content + 1) in
  (K <= length ns)%nat -> (K <= length caps)%nat ->
  drive_usingDict bdec dict o K s data ns caps [] 0 = VComplete content (zlen data - zlen rest).
Proof.
  intros bdec o dict s data ns caps content rest Hnull Hwf H1 H2 H4 Hb Hns Hcaps HV K L1 L2.
  refine (chunked_reaches_gen bdec o dict (Some dict) (ud_some dict) s data ns caps content rest Hnull Hwf H1 H2 _ H4 Hb Hns Hcaps HV L1 L2).
  discriminate.
Qed.

(* the statement Properties_C08.C08_chunking_independent_full_statement *)
Theorem chunked_independent : forall bdec skip data ns caps content rest,
  bytes_ok data = true ->
  Forall (fun n => 1 <= n) ns -> Forall (fun c => 1 <= c) caps ->
  frame_decode bdec false [] data = Some (content, rest) ->
  (exists k, drive bdec (mkO false skip false) k dctx_init data ns caps [] 0 <> VMore) ->
  exists k, drive bdec (mkO false skip false) k dctx_init data ns caps [] 0
            = VComplete content (zlen data - zlen rest).
Proof.
  intros bdec skip data ns caps content rest Hb Hns Hcaps HV [k Hk]. exists k.
  assert (Hcaps0 : Forall (fun c => 0 <= c) caps) by (eapply Forall_impl; [|exact Hcaps]; cbv beta; intros; lia).
  destruct (chunked_complete bdec (mkO false skip false) [] k dctx_init data ns caps content rest
              wf_init eq_refl eq_refl eq_refl eq_refl Hb Hcaps0 HV) as [_ HC].
  exact (HC Hk).
Qed.
