(* C02 at the level of the public entry points (Model.DecApi). *)
From Coq Require Import ZArith List Lia Bool.
From LZ4V Require Import Gen.Consts Model.Mem Model.Dec Model.DecApi Proofs.DecSafe.
Local Open Scope Z_scope.

(* ---------- the public entry points (Model.DecApi) ---------- *)

Lemma decompress_safe_ok fastloop srcm srcSize cap m0 :
  src_bytes srcm -> 0 <= srcSize ->
  let '(r, m, ok) := decompress_safe fastloop srcm srcSize cap m0 in
  ok = true /\ (r < 0 \/ 0 <= r <= cap).
Proof.
  intros Hs Hn. unfold decompress_safe.
  apply dec_generic_safe; auto; try lia; try discriminate.
Qed.

Lemma decompress_safe_partial_ok fastloop srcm srcSize target cap m0 :
  src_bytes srcm -> 0 <= srcSize ->
  let '(r, m, ok) := decompress_safe_partial fastloop srcm srcSize target cap m0 in
  ok = true /\ (r < 0 \/ (0 <= r <= cap /\ r <= target)).
Proof.
  intros Hs Hn. unfold decompress_safe_partial.
  pose proof (dec_generic_safe fastloop true NoDict srcm srcSize (Z.min target cap) 0 0 empty 0 m0) as H.
  destruct (dec_generic fastloop true NoDict srcm srcSize (Z.min target cap) 0 0 empty 0 m0) as [[r m] k].
  destruct H as [H1 H2]; auto; try lia; try discriminate.
Qed.

Lemma decompress_usingDict_ok fastloop part srcm srcSize target cap pl dictm dictSize m0 :
  src_bytes srcm -> 0 <= srcSize -> 0 <= dictSize ->
  let '(r, m, ok) := decompress_usingDict fastloop part srcm srcSize target cap pl dictm dictSize m0 in
  ok = true /\ (r < 0 \/ (0 <= r <= cap /\ (part = true -> r <= target))).
Proof.
  intros Hs Hn Hd. unfold decompress_usingDict.
  set (cap' := if part then Z.min target cap else cap).
  assert (Hc : forall r, (r < 0 \/ 0 <= r <= cap') -> r < 0 \/ (0 <= r <= cap /\ (part = true -> r <= target))).
  { intros r. unfold cap'. destruct part; intros [?|?]; [left; lia | right; split; [lia | intros _; lia] | left; lia | right; split; [lia | discriminate]]. }
  assert (G : forall dict lowPrefix rlow dm ds,
             lowPrefix <= 0 -> (rlow <= lowPrefix \/ (dict = WithPrefix64k /\ rlow <= -65535)) -> 0 <= ds ->
             (dict = WithPrefix64k -> lowPrefix = -65536) -> (dict <> UsingExtDict -> ds = 0) ->
             let '(r, m, ok) := dec_generic fastloop part dict srcm srcSize cap' lowPrefix rlow dm ds m0 in
             ok = true /\ (r < 0 \/ (0 <= r <= cap /\ (part = true -> r <= target)))).
  { intros dict lowPrefix rlow dm ds H1 H2 H3 H4 H5.
    pose proof (dec_generic_safe fastloop part dict srcm srcSize cap' lowPrefix rlow dm ds m0 Hs Hn H1 H2 H3 H4 H5) as H.
    destruct (dec_generic fastloop part dict srcm srcSize cap' lowPrefix rlow dm ds m0) as [[r m] k].
    destruct H as [Ha Hb]. split; [exact Ha | apply Hc; exact Hb]. }
  destruct (dictSize =? 0) eqn:E0.
  { apply G; try lia; try discriminate; auto. }
  destruct pl.
  - destruct (dictSize >=? 65536 - 1) eqn:E1.
    + apply G; try lia; auto. right. split; [reflexivity | lia].
    + apply G; try lia; try discriminate; auto.
  - apply G; try lia; try discriminate; auto. intros H; exfalso; apply H; reflexivity.
Qed.

Print Assumptions decompress_usingDict_ok.
