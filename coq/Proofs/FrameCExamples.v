(* Concrete objects for the Examples of Properties_C03.v / Properties_C07.v: a block compressor
   that satisfies the strict contract non-vacuously, and a two-block session. *)
From Coq Require Import ZArith List Lia Bool.
From LZ4V Require Import Spec.BlockSpec Spec.XXH32 Spec.FrameSpec Gen.Consts Model.FrameC Model.FrameAudit.
From LZ4V Require Import Proofs.BlockHistExt Proofs.FrameCBytes Proofs.FrameCBlocks Proofs.FrameCProofs Proofs.FrameCTheorems.
Import ListNotations.
Local Open Scope Z_scope.
Set Warnings "-abstract-large-number".

(* 40 x 'a' compresses to 11 bytes: literal 'a', match offset 1 length 34, 5 last literals *)
Definition ex_content : list byte := repeat 97 40.
Definition ex_block : list byte := encode_block [mkSeq [97] 1 34] (repeat 97 5).

Fixpoint list_eqb (a b : list byte) : bool :=
  match a, b with
  | [], [] => true
  | x :: a', y :: b' => (x =? y) && list_eqb a' b'
  | _, _ => false
  end.
Lemma list_eqb_eq : forall a b, list_eqb a b = true -> a = b.
Proof.
  induction a as [|x a IH]; intros [|y b] H; cbn in H; try discriminate; [reflexivity|].
  apply andb_prop in H. destruct H as [H1 H2]. apply Z.eqb_eq in H1. rewrite H1, (IH _ H2). reflexivity.
Qed.

(* compresses exactly [ex_content]; reports failure (0) on anything else *)
Definition ex_blk (n : nat) (h x : list byte) : option (list byte) :=
  if list_eqb x ex_content then Some ex_block else None.

Lemma ex_blk_strict : blk_contract strict_valid ex_blk.
Proof.
  intros n h x c H. unfold ex_blk in H.
  destruct (list_eqb x ex_content) eqn:E; [|discriminate].
  apply list_eqb_eq in E. inversion H; subst.
  rewrite <- (app_nil_r h). apply strict_valid_ext. vm_compute. reflexivity.
Qed.
Lemma ex_blk_spec : blk_contract spec_decode ex_blk.
Proof. apply strict_contract_spec. exact ex_blk_strict. Qed.

(* 64 KB blocks, linked, block and content checksums, declared content size 83, no autoFlush *)
Definition ex_prefs : prefs := mkPrefs 4 0 1 83 0 1 1 0 0.
(* 40 bytes buffered, flushed (block 1, compressed); 3 incompressible + 40 bytes buffered, End flushes (block 2, raw) *)
Definition ex_ops : list mop := [MUpdate ex_content; MFlush; MUpdate [1; 2; 3]; MUpdate ex_content].
(* independent blocks, a dictionary through a CDict, one uncompressed update between compressed ones *)
Definition ex_prefs_indep : prefs := mkPrefs 0 1 0 0 7 0 9 1 0.
Definition ex_ops_indep : list mop := [MUpdate ex_content; MUncompressed [9; 9]; MUpdate ex_content].

Lemma ex_unc : uncompressed_only_if_independent (Some ex_prefs) ex_ops.
Proof. intros m [<- | [<- | [<- | [<- | []]]]] E; discriminate. Qed.
Lemma ex_unc_indep : uncompressed_only_if_independent (Some ex_prefs_indep) ex_ops_indep.
Proof. intros m Hin E. reflexivity. Qed.
