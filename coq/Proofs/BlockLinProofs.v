(* The linear-time evaluators of Model/BlockLin.v equal the block specification. *)
From Coq Require Import ZArith List Lia Bool.
From LZ4V Require Import Spec.BlockSpec Spec.BlockFast Model.BlockLin.
Import ListNotations.

Lemma rev'_ok {A} (l : list A) : rev' l = rev l.
Proof. unfold rev'. symmetry. apply rev_alt. Qed.

Lemma cm_q'_ok : forall n front back acc, cm_q' front back acc n = cm_q front back acc n.
Proof.
  induction n as [|n IH]; intros front back acc; simpl; [reflexivity|].
  destruct front as [|b f]; [|apply IH].
  rewrite rev'_ok. destruct (rev back) as [|b f]; [reflexivity|apply IH].
Qed.

Lemma copy_match_lin_ok rout off n :
  copy_match_lin rout (length rout) off n = copy_match_fast rout off n.
Proof.
  unfold copy_match_lin, copy_match_fast. destruct n; [reflexivity|].
  destruct (Nat.ltb (length rout) off || Nat.eqb off 0); [reflexivity|].
  rewrite cm_q'_ok, rev'_ok. reflexivity.
Qed.

Lemma cm_q_length : forall n front back acc,
  (front <> [] \/ back <> []) -> length (cm_q front back acc n) = (length acc + n)%nat.
Proof.
  induction n as [|n IH]; intros front back acc H; simpl; [lia|].
  destruct front as [|b f].
  - destruct H as [H|H]; [congruence|].
    destruct (rev back) as [|b f] eqn:E.
    + exfalso. apply H. rewrite <- (rev_involutive back), E. reflexivity.
    + rewrite IH; [simpl; lia|]. right. discriminate.
  - rewrite IH; [simpl; lia|]. right. discriminate.
Qed.

Lemma copy_match_fast_length rout off n r :
  copy_match_fast rout off n = Some r -> length r = (length rout + n)%nat.
Proof.
  unfold copy_match_fast. destruct n; [intros H; inversion H; lia|].
  destruct (Nat.ltb (length rout) off) eqn:E1; [discriminate|].
  destruct (Nat.eqb off 0) eqn:E2; [discriminate|]. unfold orb.
  intros H. assert (R : r = cm_q (rev (firstn off rout)) [] rout (S n)) by congruence.
  rewrite R. apply cm_q_length.
  left. apply Nat.ltb_ge in E1. apply Nat.eqb_neq in E2.
  destruct off as [|k]; [congruence|]. destruct rout as [|x rout]; [simpl in E1; lia|].
  simpl firstn. simpl rev. intros C. apply app_eq_nil in C. destruct C as [_ C]. discriminate.
Qed.

Lemma apply_seq_lin_ok rout s :
  match apply_seq_lin rout (length rout) s with
  | Some (r, l) => apply_seq_fast rout s = Some r /\ l = length r
  | None => apply_seq_fast rout s = None
  end.
Proof.
  unfold apply_seq_lin, apply_seq_fast.
  destruct (off_ok (s_off s) && (4 <=? s_mlen s)%Z); [|reflexivity].
  assert (L : (length rout + length (s_lits s))%nat = length (rev_append (s_lits s) rout)).
  { rewrite rev_append_rev, app_length, rev_length. lia. }
  rewrite L, copy_match_lin_ok.
  destruct (copy_match_fast (rev_append (s_lits s) rout) (Z.to_nat (s_off s)) (Z.to_nat (s_mlen s))) as [r|] eqn:E;
    [|reflexivity].
  split; [reflexivity|]. symmetry. apply copy_match_fast_length in E. exact E.
Qed.

Lemma apply_seqs_lin_ok ss : forall rout, apply_seqs_lin rout (length rout) ss = apply_seqs_fast rout ss.
Proof.
  induction ss as [|s ss IH]; intros rout; simpl; [reflexivity|].
  pose proof (apply_seq_lin_ok rout s) as H.
  destruct (apply_seq_lin rout (length rout) s) as [[r l]|].
  - destruct H as [H1 H2]. rewrite H1, H2. apply IH.
  - rewrite H. reflexivity.
Qed.

Theorem run_seqs_lin_ok hist ss last : run_seqs_lin hist ss last = run_seqs hist ss last.
Proof.
  rewrite <- run_seqs_fast_ok. unfold run_seqs_lin, run_seqs_fast.
  rewrite rev'_ok. rewrite <- (rev_length hist) at 1. rewrite apply_seqs_lin_ok.
  destruct (apply_seqs_fast (rev hist) ss); [|reflexivity].
  rewrite rev'_ok. reflexivity.
Qed.

Lemma end_ok_lin_ok ss last : end_ok_lin ss last = end_ok ss last.
Proof. unfold end_ok_lin, end_ok. rewrite rev'_ok. reflexivity. Qed.

Theorem spec_decode_lin_ok hist blk : spec_decode_lin hist blk = spec_decode hist blk.
Proof.
  unfold spec_decode_lin, spec_decode. destruct (parse_block blk) as [[ss last]|]; [apply run_seqs_lin_ok|reflexivity].
Qed.
Theorem strict_valid_lin_ok hist blk : strict_valid_lin hist blk = strict_valid hist blk.
Proof.
  unfold strict_valid_lin, strict_valid. destruct (parse_block blk) as [[ss last]|]; [|reflexivity].
  rewrite end_ok_lin_ok. destruct (end_ok ss last); [apply run_seqs_lin_ok|reflexivity].
Qed.
