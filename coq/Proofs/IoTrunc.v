(* C14_truncation: a stream of valid frames cut anywhere decodes (Spec.stream_decode) only if the cut
   falls on a frame boundary or on a legacy BLOCK boundary (legacy frames have no end mark); in
   those cases the prefix is itself a stream of valid frames and decodes to their contents.
   Everywhere else stream_decode fails, hence by C14_exit0_sound the CLI model cannot exit 0. *)
From Coq Require Import ZArith List Lia Bool.
From LZ4V Require Import Spec.BlockSpec Spec.XXH32 Spec.FrameSpec Gen.Consts Model.Io.
From LZ4V Require Import Proofs.BlockSpecProofs Proofs.IoSpecFacts Proofs.IoProofs Proofs.IoConcat.
Import ListNotations.
Local Open Scope Z_scope.

(* ---------------------------------------------------------------- parsers on a prefix of their input *)
Lemma take_prefix : forall n (q t a r : list byte), take n (q ++ t) = Some (a, r) ->
  ((length q < n)%nat /\ take n q = None) \/ (exists r', take n q = Some (a, r') /\ r = r' ++ t).
Proof.
  intros n q t a r H. destruct (le_lt_dec n (length q)) as [LE|LT].
  - right. assert (E := take_firstn q n LE). rewrite (take_ext _ _ _ _ t E) in H. inversion H; subst.
    exists (skipn n q). split; [exact E|reflexivity].
  - left. split; [exact LT|apply take_short_none; exact LT].
Qed.

Lemma parse_desc_prefix : forall q t d r, parse_desc (q ++ t) = Some (d, r) ->
  forall x, parse_desc q = Some x -> exists r', x = (d, r') /\ r = r' ++ t.
Proof.
  intros q t d r H x HQ.
  destruct x as [d' r']. rewrite (parse_desc_ext _ _ _ t HQ) in H. inversion H; subst. exists r'. split; reflexivity.
Qed.

Section Prefix.
  Variable bd : list byte -> list byte -> option (list byte).

  Lemma blocks_prefix : forall fuel' fuel d maxb dict acc q t c rest x,
    blocks bd false fuel d maxb dict acc (q ++ t) = Some (c, rest) ->
    blocks bd false fuel' d maxb dict acc q = Some x -> exists rest', x = (c, rest') /\ rest = rest' ++ t.
  Proof.
    intros fuel' fuel d maxb dict acc q t c rest [c' rest'] H HQ.
    assert (E := blocks_ext bd false _ _ _ _ _ _ _ _ t (Nat.max fuel fuel') HQ ltac:(lia)).
    assert (E2 := blocks_ext bd false _ _ _ _ _ _ _ _ [] (Nat.max fuel fuel') H ltac:(lia)).
    rewrite !app_nil_r in E2. rewrite E in E2. inversion E2; subst. exists rest'. split; reflexivity.
  Qed.

  Lemma frame_decode_prefix : forall q t c rest x,
    frame_decode bd false [] (q ++ t) = Some (c, rest) ->
    frame_decode bd false [] q = Some x -> exists rest', x = (c, rest') /\ rest = rest' ++ t.
  Proof.
    intros q t c rest [c' rest'] H HQ.
    rewrite (frame_decode_ext _ _ _ _ _ _ t HQ) in H. inversion H; subst. exists rest'. split; reflexivity.
  Qed.

  (* a strict prefix of a valid LZ4 frame is not a frame *)
  Lemma frame_prefix_free : forall b c q t, frame_decode bd false [] b = Some (c, []) -> b = q ++ t -> t <> [] ->
    frame_decode bd false [] q = None.
  Proof.
    intros b c q t V E NE. destruct (frame_decode bd false [] q) as [x|] eqn:Q; [|reflexivity]. exfalso.
    rewrite E in V. destruct (frame_decode_prefix _ _ _ _ _ V Q) as [rest' [_ R]].
    destruct rest'; destruct t; try discriminate. apply NE. reflexivity.
  Qed.
End Prefix.

Lemma split4 : forall (h4 body p l : list byte), h4 ++ body = p ++ l -> (4 <= length p)%nat -> length h4 = 4%nat ->
  p = h4 ++ skipn 4 p /\ body = skipn 4 p ++ l.
Proof.
  intros h4 body p l E LP LH.
  assert (F : firstn 4 p = h4).
  { apply (f_equal (firstn 4)) in E. rewrite firstn_app_exact in E by exact LH. rewrite firstn_app_le in E by exact LP. symmetry. exact E. }
  split; [rewrite <- F; symmetry; apply firstn_skipn|].
  apply (f_equal (skipn 4)) in E. rewrite skipn_app_exact in E by exact LH. rewrite skipn_app_le in E by exact LP. exact E.
Qed.

Lemma In_firstn_in : forall (A : Type) k (l : list A) x, In x (firstn k l) -> In x l.
Proof. intros A k l x H. rewrite <- (firstn_skipn k l). apply in_or_app. left. exact H. Qed.

Section Trunc.
  Variable bd : list byte -> list byte -> option (list byte).
  Notation valid := (valid_frame bd).
  Notation sdec := (stream_decode bd false).

  Lemma stream_short_none : forall F acc (p : list byte), p <> [] -> (length p < 4)%nat -> sdec F [] acc p = None.
  Proof.
    intros F acc p NE L. destruct F; [reflexivity|]. cbn [stream_decode]. destruct p as [|b0 r0] eqn:EP; [contradiction|]. rewrite <- EP in *.
    rewrite (take_short_none 4 p L). reflexivity.
  Qed.

  Lemma magic_of_is_magic : forall f, valid f -> is_magic (magic_of f) = true.
  Proof.
    intros f V. destruct f as [b c|bl|i p]; cbn [magic_of]; [reflexivity|reflexivity|].
    destruct V as [VI _]. unfold is_magic, MAGIC, MAGIC_LEGACY, MAGIC_SKIP_LO, MAGIC_SKIP_HI, LZ4IO_SKIPPABLE0.
    apply orb_true_iff. right. apply andb_true_iff. split; apply Z.leb_le; lia.
  Qed.

  (* ---------------------------------------------------------------- legacy blocks, specification side *)
  Lemma legacy_step : forall f lacc blk c (rest : list byte),
    bd [] blk = Some c -> len c <= LEGACY_BLOCKSIZE -> len blk <= LZ4IO_LEGACY_BOUND ->
    legacy_blocks bd (S f) lacc (le_bytes 4 (len blk) ++ blk ++ rest) = legacy_blocks bd f (lacc ++ c) rest.
  Proof.
    intros f lacc blk c rest VB VC VL. cbn [legacy_blocks].
    assert (RB : 0 <= len blk < 4294967296) by (unfold len, LZ4IO_LEGACY_BOUND in *; lia).
    destruct (le_bytes 4 (len blk) ++ blk ++ rest) as [|b0 r0] eqn:EB.
    { apply (f_equal (@length byte)) in EB. rewrite app_length, le_bytes_length in EB. cbn in EB. lia. }
    rewrite <- EB. clear EB b0 r0.
    rewrite <- (le_bytes_length 4 (len blk)) at 1. rewrite take_app. rewrite le_val_le_bytes4 by exact RB.
    destruct (is_magic (len blk)) eqn:IM; [apply magic_gap in IM; lia|].
    rewrite to_nat_len. rewrite take_app. rewrite VB.
    change LEGACY_BLOCK with LEGACY_BLOCKSIZE.
    replace (LEGACY_BLOCKSIZE <? Z.of_nat (length c)) with false by (symmetry; apply Z.ltb_ge; exact VC). reflexivity.
  Qed.

  (* all blocks consumed: what the legacy parser does with what follows *)
  Lemma legacy_tail : forall bl F lacc u r, Forall (valid_block bd) bl ->
    legacy_blocks bd F lacc (enc_blocks bl ++ u) = Some r ->
    legacy_blocks bd F (lacc ++ concat (map snd bl)) u = Some r.
  Proof.
    induction bl as [|[blk c] bl IH]; intros F lacc u r V H.
    - cbn [map concat enc_blocks app] in *. rewrite app_nil_r. exact H.
    - inversion V as [|? ? [VB [VC VL]] Vr]; subst. cbn [fst snd] in *.
      unfold enc_blocks in H. cbn [map concat] in H. unfold enc_block in H at 1. cbn [fst] in H. rewrite <- !app_assoc in H.
      fold (enc_blocks bl) in H.
      destruct F; [discriminate|]. rewrite (legacy_step F lacc blk c _ VB VC VL) in H.
      apply IH in H; [|exact Vr]. cbn [map concat snd]. rewrite app_assoc.
      eapply legacy_blocks_mono; [exact H|lia].
  Qed.

  (* a prefix of the blocks: the parse succeeds only at a block boundary *)
  Lemma legacy_prefix : forall bl r l F lacc res, Forall (valid_block bd) bl -> enc_blocks bl = r ++ l ->
    legacy_blocks bd F lacc r = Some res ->
    exists k, r = enc_blocks (firstn k bl) /\ res = (lacc ++ concat (map snd (firstn k bl)), []).
  Proof.
    induction bl as [|[blk c] bl IH]; intros r l F lacc res V E H.
    - cbn in E. destruct r; [|discriminate]. destruct F; [discriminate|]. cbn in H. inversion H; subst.
      exists 0%nat. cbn. rewrite app_nil_r. split; reflexivity.
    - inversion V as [|? ? [VB [VC VL]] Vr]; subst. cbn [fst snd] in *.
      destruct F; [discriminate|].
      destruct r as [|r0 rr] eqn:ER.
      { cbn in H. inversion H; subst. exists 0%nat. cbn. rewrite app_nil_r. split; reflexivity. }
      assert (NE : r <> []) by (rewrite ER; discriminate).
      rewrite <- ER in *. clear ER r0 rr.
      unfold enc_blocks in E. cbn [map concat] in E. unfold enc_block in E at 1. cbn [fst] in E. rewrite <- !app_assoc in E.
      fold (enc_blocks bl) in E.
      assert (RB : 0 <= len blk < 4294967296) by (unfold len, LZ4IO_LEGACY_BOUND in *; lia).
      (* the parse of r succeeded, so r holds the size word and the whole block *)
      assert (HH := H). cbn [legacy_blocks] in HH.
      destruct r as [|r0 rr] eqn:ER; [contradiction|]. rewrite <- ER in *. clear ER r0 rr.
      destruct (take 4 r) as [[szb r1]|] eqn:T4; [|discriminate].
      assert (T4' := take_ext _ _ _ _ l T4). rewrite <- E in T4'.
      rewrite <- (le_bytes_length 4 (len blk)) in T4' at 1. rewrite take_app in T4'.
      assert (ES : szb = le_bytes 4 (len blk)) by congruence.
      assert (E1 : blk ++ enc_blocks bl = r1 ++ l) by congruence. subst szb. clear T4'.
      rewrite le_val_le_bytes4 in HH by exact RB.
      destruct (is_magic (len blk)) eqn:IM; [apply magic_gap in IM; lia|].
      destruct (take (Z.to_nat (len blk)) r1) as [[data r2]|] eqn:TB; [|discriminate].
      assert (TB' := take_ext _ _ _ _ l TB). rewrite <- E1 in TB'. rewrite to_nat_len, take_app in TB'.
      assert (ED : data = blk) by congruence. assert (E2 : enc_blocks bl = r2 ++ l) by congruence. subst data. clear TB'.
      rewrite VB in HH. change LEGACY_BLOCK with LEGACY_BLOCKSIZE in HH.
      replace (LEGACY_BLOCKSIZE <? Z.of_nat (length c)) with false in HH by (symmetry; apply Z.ltb_ge; exact VC).
      destruct (IH r2 l F (lacc ++ c) res Vr E2 HH) as [k [EK RK]].
      exists (S k). cbn [firstn map concat snd]. split.
      + apply take_some in T4. apply take_some in TB. destruct T4 as [T4 _]. destruct TB as [TB _]. rewrite T4, TB, EK.
        unfold enc_blocks. cbn [map concat]. unfold enc_block at 2. cbn [fst]. rewrite <- !app_assoc. reflexivity.
      + rewrite RK, app_assoc. reflexivity.
  Qed.

  (* ---------------------------------------------------------------- prefixes of a frame sequence *)
  Lemma prefix_head : forall fs (u t : list byte), Forall valid fs -> enc_all fs = u ++ t -> (4 <= length u)%nat ->
    exists f fs0, fs = f :: fs0 /\ valid f /\ firstn 4 u = le_bytes 4 (magic_of f).
  Proof.
    intros fs u t V E L. destruct fs as [|f fs0].
    - cbn in E. destruct u; [cbn in L; lia|discriminate].
    - inversion V as [|? ? Vf Vr]; subst. exists f, fs0. split; [reflexivity|]. split; [exact Vf|].
      destruct (enc_frame_head bd f Vf) as [body [EH RM]]. rewrite enc_all_cons, EH, <- app_assoc in E.
      destruct (split4 _ _ _ _ E L (le_bytes_length 4 _)) as [EU _]. rewrite EU at 1.
      apply firstn_app_exact. apply le_bytes_length.
  Qed.

  Lemma legacy_on_next : forall fs (u t : list byte) F lacc res, Forall valid fs -> enc_all fs = u ++ t ->
    legacy_blocks bd F lacc u = Some res -> res = (lacc, u).
  Proof.
    intros fs u t F lacc res V E H. destruct F; [discriminate|]. cbn [legacy_blocks] in H.
    destruct u as [|u0 ur] eqn:EU; [inversion H; reflexivity|]. rewrite <- EU in *. clear EU u0 ur.
    destruct (take 4 u) as [[szb r]|] eqn:T4; [|discriminate].
    assert (L4 : (4 <= length u)%nat).
    { apply take_some in T4. destruct T4 as [T4 L]. rewrite T4, app_length. lia. }
    destruct (prefix_head fs u t V E L4) as [f [fs0 [_ [Vf F4]]]].
    rewrite (take_firstn u 4 L4) in T4. assert (ES : szb = firstn 4 u) by congruence. rewrite ES, F4 in H.
    destruct (enc_frame_head bd f Vf) as [_ [_ RM]].
    rewrite le_val_le_bytes4 in H by (unfold LZ4IO_LEGACY_BOUND in RM; lia).
    rewrite (magic_of_is_magic f Vf) in H. inversion H. reflexivity.
  Qed.

  (* the parser crosses one whole frame *)
  Lemma stream_over_frame : forall f fs0 (l t : list byte) F acc c, valid f -> Forall valid fs0 -> enc_all fs0 = l ++ t ->
    sdec (S F) [] acc (enc_frame f ++ l) = Some c -> sdec F [] (acc ++ content f) l = Some c.
  Proof.
    intros f fs0 l t F acc c Vf V0 E0 H.
    destruct (enc_frame_head bd f Vf) as [body [EH RM]].
    assert (RM' : 0 <= magic_of f < 4294967296) by (unfold LZ4IO_LEGACY_BOUND in RM; lia).
    assert (L4 : (4 <= length (enc_frame f ++ l))%nat) by (rewrite EH, !app_length, le_bytes_length; lia).
    rewrite (stream_step_nonempty bd F acc _ L4) in H. cbv zeta in H.
    assert (F4 : firstn 4 (enc_frame f ++ l) = le_bytes 4 (magic_of f)).
    { rewrite EH, <- app_assoc. apply firstn_app_exact. apply le_bytes_length. }
    assert (S4 : skipn 4 (enc_frame f ++ l) = body ++ l).
    { rewrite EH, <- app_assoc. apply skipn_app_exact. apply le_bytes_length. }
    rewrite F4, S4, le_val_le_bytes4 in H by exact RM'.
    destruct f as [b c0|bl|i pl]; cbn [magic_of enc_frame content valid_frame] in *.
    - destruct Vf as [Vf BO]. change (LZ4IO_MAGICNUMBER =? MAGIC) with true in H. cbv iota in H.
      rewrite (frame_decode_ext _ _ _ _ _ _ l Vf) in H. cbn [app] in H. exact H.
    - change (LEGACY_MAGICNUMBER =? MAGIC) with false in H. change (LEGACY_MAGICNUMBER =? MAGIC_LEGACY) with true in H. cbv iota in H.
      assert (EB : body = enc_blocks bl).
      { apply app_eq_len in EH; [destruct EH as [_ EH]; symmetry; exact EH|rewrite !le_bytes_length; reflexivity]. }
      subst body.
      destruct (legacy_blocks bd (S (length (enc_blocks bl ++ l))) [] (enc_blocks bl ++ l)) as [[cc rest]|] eqn:LB; [|discriminate].
      apply legacy_tail in LB; [|exact Vf]. cbn [app] in LB.
      apply (legacy_on_next fs0 l t _ _ _ V0 E0) in LB. inversion LB; subst cc rest. exact H.
    - destruct Vf as [VI VP].
      assert (N1 : LZ4IO_SKIPPABLE0 + i =? MAGIC = false) by (apply Z.eqb_neq; unfold LZ4IO_SKIPPABLE0, MAGIC; lia).
      assert (N2 : LZ4IO_SKIPPABLE0 + i =? MAGIC_LEGACY = false) by (apply Z.eqb_neq; unfold LZ4IO_SKIPPABLE0, MAGIC_LEGACY; lia).
      assert (N3 : (MAGIC_SKIP_LO <=? LZ4IO_SKIPPABLE0 + i) && (LZ4IO_SKIPPABLE0 + i <=? MAGIC_SKIP_HI) = true).
      { apply andb_true_iff. unfold LZ4IO_SKIPPABLE0, MAGIC_SKIP_LO, MAGIC_SKIP_HI. split; apply Z.leb_le; lia. }
      rewrite N1, N2, N3 in H.
      assert (EB : body = le_bytes 4 (len pl) ++ pl).
      { apply app_eq_len in EH; [destruct EH as [_ EH]; symmetry; exact EH|rewrite !le_bytes_length; reflexivity]. }
      subst body. rewrite <- app_assoc in H.
      rewrite <- (le_bytes_length 4 (len pl)) in H at 1. rewrite take_app in H.
      rewrite le_val_le_bytes4 in H by (unfold len in *; lia). rewrite to_nat_len, take_app in H.
      rewrite app_nil_r. exact H.
  Qed.

  (* the parser stops inside a frame: only possible at a legacy block boundary *)
  Lemma stream_inside_frame : forall f (p l : list byte) F acc c, valid f -> enc_frame f = p ++ l -> l <> [] -> p <> [] ->
    sdec F [] acc p = Some c ->
    exists bl k, f = FLegacy bl /\ p = enc_frame (FLegacy (firstn k bl)) /\ c = acc ++ content (FLegacy (firstn k bl)).
  Proof.
    intros f p l F acc c Vf E NL NP H.
    destruct (le_lt_dec 4 (length p)) as [L4|LT]; [|rewrite (stream_short_none F acc p NP LT) in H; discriminate].
    destruct F; [discriminate|].
    destruct (enc_frame_head bd f Vf) as [body [EH RM]].
    assert (RM' : 0 <= magic_of f < 4294967296) by (unfold LZ4IO_LEGACY_BOUND in RM; lia).
    rewrite EH in E. destruct (split4 _ _ _ _ E L4 (le_bytes_length 4 _)) as [EP EB].
    rewrite (stream_step_nonempty bd F acc _ L4) in H. cbv zeta in H.
    assert (F4 : firstn 4 p = le_bytes 4 (magic_of f)) by (rewrite EP at 1; apply firstn_app_exact, le_bytes_length).
    rewrite F4, le_val_le_bytes4 in H by exact RM'.
    set (p' := skipn 4 p) in *.
    destruct f as [b c0|bl|i pl]; cbn [magic_of enc_frame content valid_frame] in *.
    - exfalso. destruct Vf as [Vf BO]. change (LZ4IO_MAGICNUMBER =? MAGIC) with true in H. cbv iota in H.
      rewrite (frame_prefix_free bd b c0 p l Vf) in H; [discriminate| |exact NL].
      rewrite EH, EP, <- app_assoc, EB. reflexivity.
    - change (LEGACY_MAGICNUMBER =? MAGIC) with false in H. change (LEGACY_MAGICNUMBER =? MAGIC_LEGACY) with true in H. cbv iota in H.
      assert (EBL : body = enc_blocks bl).
      { apply app_eq_len in EH; [destruct EH as [_ EH]; symmetry; exact EH|rewrite !le_bytes_length; reflexivity]. }
      rewrite EBL in EB.
      destruct (legacy_blocks bd (S (length p')) [] p') as [[cc rest]|] eqn:LB; [|discriminate].
      destruct (legacy_prefix bl p' l _ _ _ Vf EB LB) as [k [EK RK]]. inversion RK; subst cc rest. cbn [app] in H.
      exists bl, k. split; [reflexivity|]. split; [rewrite EP, EK; reflexivity|].
      destruct F; [discriminate|]. cbn in H. inversion H. reflexivity.
    - exfalso. destruct Vf as [VI VP].
      assert (N1 : LZ4IO_SKIPPABLE0 + i =? MAGIC = false) by (apply Z.eqb_neq; unfold LZ4IO_SKIPPABLE0, MAGIC; lia).
      assert (N2 : LZ4IO_SKIPPABLE0 + i =? MAGIC_LEGACY = false) by (apply Z.eqb_neq; unfold LZ4IO_SKIPPABLE0, MAGIC_LEGACY; lia).
      assert (N3 : (MAGIC_SKIP_LO <=? LZ4IO_SKIPPABLE0 + i) && (LZ4IO_SKIPPABLE0 + i <=? MAGIC_SKIP_HI) = true).
      { apply andb_true_iff. unfold LZ4IO_SKIPPABLE0, MAGIC_SKIP_LO, MAGIC_SKIP_HI. split; apply Z.leb_le; lia. }
      rewrite N1, N2, N3 in H.
      assert (EBS : body = le_bytes 4 (len pl) ++ pl).
      { apply app_eq_len in EH; [destruct EH as [_ EH]; symmetry; exact EH|rewrite !le_bytes_length; reflexivity]. }
      rewrite EBS in EB.
      destruct (take 4 p') as [[szb r1]|] eqn:T4; [|discriminate].
      assert (T4' := take_ext _ _ _ _ l T4). rewrite <- EB in T4'.
      rewrite <- (le_bytes_length 4 (len pl)) in T4' at 1. rewrite take_app in T4'.
      assert (ES : szb = le_bytes 4 (len pl)) by congruence. assert (E1 : pl = r1 ++ l) by congruence. subst szb.
      rewrite le_val_le_bytes4 in H by (unfold len in *; lia).
      rewrite take_short_none in H; [discriminate|].
      rewrite to_nat_len. rewrite E1, app_length. destruct l; [contradiction|cbn; lia].
  Qed.

  (* C14_truncation *)
  Inductive cut : list frame -> list frame -> Prop :=
  | cut_nil : forall fs, cut fs []
  | cut_cons : forall f fs fs', cut fs fs' -> cut (f :: fs) (f :: fs')
  | cut_legacy : forall bl k fs, cut (FLegacy bl :: fs) [FLegacy (firstn k bl)].

  Theorem truncation : forall fs, Forall valid fs -> forall (p t : list byte) F acc c,
    enc_all fs = p ++ t -> sdec F [] acc p = Some c ->
    exists fs', cut fs fs' /\ Forall valid fs' /\ p = enc_all fs' /\ c = acc ++ contents fs'.
  Proof.
    induction fs as [|f fs0 IH]; intros V p t F acc c E H.
    - cbn in E. destruct p; [|discriminate]. destruct F; [discriminate|]. cbn in H. inversion H; subst.
      exists []. split; [constructor|]. split; [constructor|]. split; [reflexivity|]. cbn. rewrite app_nil_r. reflexivity.
    - inversion V as [|? ? Vf Vr]; subst. rewrite enc_all_cons in E.
      assert (OVER : forall l, p = enc_frame f ++ l -> enc_all fs0 = l ++ t ->
                exists fs', cut (f :: fs0) fs' /\ Forall valid fs' /\ p = enc_all fs' /\ c = acc ++ contents fs').
      { intros l EP E0. subst p. destruct F; [discriminate|].
        apply (stream_over_frame f fs0 l t F acc c Vf Vr E0) in H.
        destruct (IH Vr l t F _ c E0 H) as [fs' [C [V' [EL EC]]]].
        exists (f :: fs'). split; [constructor; exact C|]. split; [constructor; assumption|].
        split; [rewrite enc_all_cons, EL; reflexivity|]. rewrite contents_cons, EC, app_assoc. reflexivity. }
      destruct (app_eq_app _ _ _ _ E) as [l [[E1 E2]|[E1 E2]]].
      + destruct l as [|l0 lr] eqn:EL.
        * apply (OVER []); [rewrite app_nil_r in *; symmetry; exact E1|rewrite E2; reflexivity].
        * rewrite <- EL in *. assert (NL : l <> []) by (rewrite EL; discriminate). clear EL l0 lr.
          destruct p as [|p0 pr] eqn:EP.
          { destruct F; [discriminate|]. cbn in H. inversion H; subst.
            exists []. split; [constructor|]. split; [constructor|]. split; [reflexivity|]. cbn. rewrite app_nil_r. reflexivity. }
          rewrite <- EP in *. assert (NP : p <> []) by (rewrite EP; discriminate). clear EP p0 pr.
          destruct (stream_inside_frame f p l F acc c Vf E1 NL NP H) as [bl [k [EF [EPK EC]]]]. subst f.
          exists [FLegacy (firstn k bl)]. split; [constructor|].
          split.
          { apply Forall_cons; [|apply Forall_nil]. cbn [valid_frame] in *. apply Forall_forall. intros x HI.
            rewrite Forall_forall in Vf. apply Vf. eapply In_firstn_in; exact HI. }
          split; [unfold enc_all; cbn [map concat]; rewrite app_nil_r; exact EPK|].
          unfold contents. cbn [map concat]. rewrite app_nil_r. exact EC.
      + apply (OVER l E1 E2).
  Qed.
End Trunc.

(* end to end: the CLI model run on ANY prefix of a stream of valid frames exits 0 only if the cut is at a frame
   boundary or a legacy block boundary, and then it wrote exactly the contents of the frames/blocks before the cut *)
Theorem truncation_exit : forall bd fs (p t : list byte) mt test seekable rm fl,
  Forall (valid_frame bd) fs -> enc_all fs = p ++ t -> bytes_ok p = true ->
  let o := decompress_file (frame_decode bd false []) (bd []) mt test false seekable rm fl p in
  o_exit o = 0 -> o_pasteof o = false ->
  exists fs', cut fs fs' /\ Forall (valid_frame bd) fs' /\ p = enc_all fs' /\ (test = false -> o_out o = contents fs').
Proof.
  intros bd fs p t mt test seekable rm fl V E BO o E0 PE.
  destruct (exit0_sound bd mt test seekable rm fl p BO E0 PE) as [_ [_ [c [SD OC]]]].
  destruct (truncation bd fs V p t _ [] c E SD) as [fs' [C [V' [EP EC]]]].
  exists fs'. split; [exact C|]. split; [exact V'|]. split; [exact EP|]. intros T. subst o. rewrite (OC T). exact EC.
Qed.
