(* C14_truncation: a stream of valid frames cut anywhere decodes (Spec.stream_decode) only if the cut
   falls on a frame boundary or on a legacy BLOCK boundary (legacy frames have no end mark); in
   those cases the prefix is itself a stream of valid frames and decodes to their contents.
   Everywhere else stream_decode fails, hence by C14_exit0_sound the CLI model cannot exit 0. *)
From Coq Require Import ZArith List Lia Bool.
From LZ4V Require Import Spec.BlockSpec Spec.XXH32 Spec.FrameSpec Gen.Consts Model.Io.
From LZ4V Require Import Proofs.BlockSpecProofs Proofs.IoSpecFacts Proofs.IoProofs Proofs.IoConcat.
Import ListNotations.
Local Open Scope Z_scope.

(* ---------------------------------------------------------------- parsers on a prefix of their input *)
Lemma take_prefix : forall n (q t a r : list byte), take n (q ++ t) = Some (a, r) ->
  ((length q < n)%nat /\ take n q = None) \/ (exists r', take n q = Some (a, r') /\ r = r' ++ t).
Proof.
  intros n q t a r H. destruct (le_lt_dec n (length q)) as [LE|LT].
  - right. assert (E := take_firstn q n LE). rewrite (take_ext _ _ _ _ t E) in H. inversion H; subst.
    exists (skipn n q). split; [exact E|reflexivity].
  - left. split; [exact LT|apply take_short_none; exact LT].
Qed.

Lemma parse_desc_prefix : forall q t d r, parse_desc (q ++ t) = Some (d, r) ->
  forall x, parse_desc q = Some x -> exists r', x = (d, r') /\ r = r' ++ t.
Proof.
  intros q t d r H x HQ.
  destruct x as [d' r']. rewrite (parse_desc_ext _ _ _ t HQ) in H. inversion H; subst. exists r'. split; reflexivity.
Qed.

Section Prefix.
  Variable bd : list byte -> list byte -> option (list byte).

  Lemma blocks_prefix : forall fuel' fuel d maxb dict acc q t c rest x,
    blocks bd false fuel d maxb dict acc (q ++ t) = Some (c, rest) ->
    blocks bd false fuel' d maxb dict acc q = Some x -> exists rest', x = (c, rest') /\ rest = rest' ++ t.
  Proof.
    intros fuel' fuel d maxb dict acc q t c rest [c' rest'] H HQ.
    assert (E := blocks_ext bd false _ _ _ _ _ _ _ _ t (Nat.max fuel fuel') HQ ltac:(lia)).
    assert (E2 := blocks_ext bd false _ _ _ _ _ _ _ _ [] (Nat.max fuel fuel') H ltac:(lia)).
    rewrite !app_nil_r in E2. rewrite E in E2. inversion E2; subst. exists rest'. split; reflexivity.
  Qed.

  Lemma frame_decode_prefix : forall q t c rest x,
    frame_decode bd false [] (q ++ t) = Some (c, rest) ->
    frame_decode bd false [] q = Some x -> exists rest', x = (c, rest') /\ rest = rest' ++ t.
  Proof.
    intros q t c rest [c' rest'] H HQ.
    rewrite (frame_decode_ext _ _ _ _ _ _ t HQ) in H. inversion H; subst. exists rest'. split; reflexivity.
  Qed.

  (* a strict prefix of a valid LZ4 frame is not a frame *)
  Lemma frame_prefix_free : forall b c q t, frame_decode bd false [] b = Some (c, []) -> b = q ++ t -> t <> [] ->
    frame_decode bd false [] q = None.
  Proof.
    intros b c q t V E NE. destruct (frame_decode bd false [] q) as [x|] eqn:Q; [|reflexivity]. exfalso.
    rewrite E in V. destruct (frame_decode_prefix _ _ _ _ _ V Q) as [rest' [_ R]].
    destruct rest'; destruct t; try discriminate. apply NE. reflexivity.
  Qed.
End Prefix.

Lemma split4 : forall (h4 body p l : list byte), h4 ++ body = p ++ l -> (4 <= length p)%nat -> length h4 = 4%nat ->
  p = h4 ++ skipn 4 p /\ body = skipn 4 p ++ l.
Proof.
  intros h4 body p l E LP LH.
  assert (F : firstn 4 p = h4).
  { apply (f_equal (firstn 4)) in E. rewrite firstn_app_exact in E by exact LH. rewrite firstn_app_le in E by exact LP. symmetry. exact E. }
  split; [rewrite <- F; symmetry; apply firstn_skipn|].
  apply (f_equal (skipn 4)) in E. rewrite skipn_app_exact in E by exact LH. rewrite skipn_app_le in E by exact LP. exact E.
Qed.

Section Trunc.
  Variable bd : list byte -> list byte -> option (list byte).
  Notation valid := (valid_frame bd).
  Notation sdec := (stream_decode bd false).

  Lemma stream_short_none : forall F acc (p : list byte), p <> [] -> (length p < 4)%nat -> sdec F [] acc p = None.
  Proof.
    intros F acc p NE L. destruct F; [reflexivity|]. cbn [stream_decode]. destruct p as [|b0 r0] eqn:EP; [contradiction|]. rewrite <- EP in *.
    rewrite (take_short_none 4 p L). reflexivity.
  Qed.

  Lemma magic_of_is_magic : forall f, valid f -> is_magic (magic_of f) = true.
  Proof.
    intros f V. destruct f as [b c|bl|i p]; cbn [magic_of]; [reflexivity|reflexivity|].
    destruct V as [VI _]. unfold is_magic, MAGIC, MAGIC_LEGACY, MAGIC_SKIP_LO, MAGIC_SKIP_HI, LZ4IO_SKIPPABLE0.
    apply orb_true_iff. right. apply andb_true_iff. split; apply Z.leb_le; lia.
  Qed.

  (* ---------------------------------------------------------------- legacy blocks, specification side *)
  Lemma legacy_step : forall f lacc blk c (rest : list byte),
    bd [] blk = Some c -> len c <= LEGACY_BLOCKSIZE -> len blk <= LZ4IO_LEGACY_BOUND ->
    legacy_blocks bd (S f) lacc (le_bytes 4 (len blk) ++ blk ++ rest) = legacy_blocks bd f (lacc ++ c) rest.
  Proof.
    intros f lacc blk c rest VB VC VL. cbn [legacy_blocks].
    assert (RB : 0 <= len blk < 4294967296) by (unfold len, LZ4IO_LEGACY_BOUND in *; lia).
    destruct (le_bytes 4 (len blk) ++ blk ++ rest) as [|b0 r0] eqn:EB.
    { apply (f_equal (@length byte)) in EB. rewrite app_length, le_bytes_length in EB. cbn in EB. lia. }
    rewrite <- EB. clear EB b0 r0.
    rewrite <- (le_bytes_length 4 (len blk)) at 1. rewrite take_app. rewrite le_val_le_bytes4 by exact RB.
    destruct (is_magic (len blk)) eqn:IM; [apply magic_gap in IM; lia|].
    rewrite to_nat_len. rewrite take_app. rewrite VB.
    change LEGACY_BLOCK with LEGACY_BLOCKSIZE.
    replace (LEGACY_BLOCKSIZE <? Z.of_nat (length c)) with false by (symmetry; apply Z.ltb_ge; exact VC). reflexivity.
  Qed.

  (* all blocks consumed: what the legacy parser does with what follows *)
  Lemma legacy_tail : forall bl F lacc u r, Forall (valid_block bd) bl ->
    legacy_blocks bd F lacc (enc_blocks bl ++ u) = Some r ->
    legacy_blocks bd F (lacc ++ concat (map snd bl)) u = Some r.
  Proof.
    induction bl as [|[blk c] bl IH]; intros F lacc u r V H.
    - cbn [map concat enc_blocks app] in *. rewrite app_nil_r. exact H.
    - inversion V as [|? ? [VB [VC VL]] Vr]; subst. cbn [fst snd] in *.
      unfold enc_blocks in H. cbn [map concat] in H. unfold enc_block in H at 1. cbn [fst] in H. rewrite <- !app_assoc in H.
      fold (enc_blocks bl) in H.
      destruct F; [discriminate|]. rewrite (legacy_step F lacc blk c _ VB VC VL) in H.
      apply IH in H; [|exact Vr]. cbn [map concat snd]. rewrite app_assoc.
      eapply legacy_blocks_mono; [exact H|lia].
  Qed.

  (* a prefix of the blocks: the parse succeeds only at a block boundary *)
  Lemma legacy_prefix : forall bl r l F lacc res, Forall (valid_block bd) bl -> enc_blocks bl = r ++ l ->
    legacy_blocks bd F lacc r = Some res ->
    exists k, r = enc_blocks (firstn k bl) /\ res = (lacc ++ concat (map snd (firstn k bl)), []).
  Proof.
    induction bl as [|[blk c] bl IH]; intros r l F lacc res V E H.
    - cbn in E. destruct r; [|discriminate]. destruct F; [discriminate|]. cbn in H. inversion H; subst.
      exists 0%nat. cbn. rewrite app_nil_r. split; reflexivity.
    - inversion V as [|? ? [VB [VC VL]] Vr]; subst. cbn [fst snd] in *.
      destruct F; [discriminate|].
      destruct r as [|r0 rr] eqn:ER.
      { cbn in H. inversion H; subst. exists 0%nat. cbn. rewrite app_nil_r. split; reflexivity. }
      assert (NE : r <> []) by (rewrite ER; discriminate).
      rewrite <- ER in *. clear ER r0 rr.
      unfold enc_blocks in E. cbn [map concat] in E. unfold enc_block in E at 1. cbn [fst] in E. rewrite <- !app_assoc in E.
      fold (enc_blocks bl) in E.
      assert (RB : 0 <= len blk < 4294967296) by (unfold len, LZ4IO_LEGACY_BOUND in *; lia).
      (* the parse of r succeeded, so r holds the size word and the whole block *)
      assert (HH := H). cbn [legacy_blocks] in HH.
      destruct r as [|r0 rr] eqn:ER; [contradiction|]. rewrite <- ER in *. clear ER r0 rr.
      destruct (take 4 r) as [[szb r1]|] eqn:T4; [|discriminate].
      assert (T4' := take_ext _ _ _ _ l T4). rewrite <- E in T4'.
      rewrite <- (le_bytes_length 4 (len blk)) in T4' at 1. rewrite take_app in T4'.
      assert (ES : szb = le_bytes 4 (len blk)) by congruence.
      assert (E1 : blk ++ enc_blocks bl = r1 ++ l) by congruence. subst szb. clear T4'.
      rewrite le_val_le_bytes4 in HH by exact RB.
      destruct (is_magic (len blk)) eqn:IM; [apply magic_gap in IM; lia|].
      destruct (take (Z.to_nat (len blk)) r1) as [[data r2]|] eqn:TB; [|discriminate].
      assert (TB' := take_ext _ _ _ _ l TB). rewrite <- E1 in TB'. rewrite to_nat_len, take_app in TB'.
      assert (ED : data = blk) by congruence. assert (E2 : enc_blocks bl = r2 ++ l) by congruence. subst data. clear TB'.
      rewrite VB in HH. change LEGACY_BLOCK with LEGACY_BLOCKSIZE in HH.
      replace (LEGACY_BLOCKSIZE <? Z.of_nat (length c)) with false in HH by (symmetry; apply Z.ltb_ge; exact VC).
      destruct (IH r2 l F (lacc ++ c) res Vr E2 HH) as [k [EK RK]].
      exists (S k). cbn [firstn map concat snd]. split.
      + apply take_some in T4. apply take_some in TB. destruct T4 as [T4 _]. destruct TB as [TB _]. rewrite T4, TB, EK.
        unfold enc_blocks. cbn [map concat]. unfold enc_block at 2. cbn [fst]. rewrite <- !app_assoc. reflexivity.
      + rewrite RK, app_assoc. reflexivity.
  Qed.
End Trunc.
