(* LZ4_compress_destSize on top of the generic compressor: the easy half (target >= bound). *)
From Coq Require Import ZArith List Lia Bool ZifyBool.
From LZ4V Require Import Gen.Consts Spec.BlockSpec Model.Mem Model.Fast Model.FastApi
     Proofs.FactorSpec Proofs.FastSound Proofs.FastFill Proofs.FastApiSound Proofs.FastApiCap.
Import ListNotations.
Local Open Scope Z_scope.

Lemma clamp_accel_idem a : clamp_accel (clamp_accel a) = clamp_accel a.
Proof.
  unfold clamp_accel, LZ4_ACCELERATION_DEFAULT, LZ4_ACCELERATION_MAX.
  destruct (a <? 1) eqn:E1; [reflexivity|].
  destruct (a >? 65537) eqn:E2; [reflexivity|].
  rewrite E1, E2. reflexivity.
Qed.

Lemma compress_fast_extState_clamp src n cap a :
  compress_fast_extState src n cap (clamp_accel a) = compress_fast_extState src n cap a.
Proof. unfold compress_fast_extState. rewrite clamp_accel_idem. reflexivity. Qed.

(* with a budget of at least LZ4_compressBound the destSize entry point IS the plain compressor *)
Theorem destSize_ge_bound src n target accel :
  compressBound n <= target ->
  compress_destSize_internal src n target accel = compress_fast_extState src n target accel.
Proof.
  intros H. unfold compress_destSize_internal. cbv zeta.
  destruct (target >=? compressBound n) eqn:E; [|lia].
  apply compress_fast_extState_clamp.
Qed.

(* ... hence the whole input is consumed, the result is positive, within the budget, and decodes *)
Theorem destSize_ge_bound_contract src n target accel :
  src_ok src -> 0 <= n <= LZ4_MAX_INPUT_SIZE -> compressBound n <= target ->
  let a := compress_destSize_internal src n target accel in
  0 < a_ret a /\ a_ret a <= a_hw a <= target /\
  a_ret a = Z.of_nat (length (a_out a)) /\
  strict_valid [] (a_out a) = Some (load_list src 0 (Z.to_nat n)).
Proof.
  intros Hs Hn Ht. cbv zeta. rewrite destSize_ge_bound by exact Ht.
  pose proof (compress_fast_extState_cap src n target accel) as C. cbv zeta in C.
  destruct C as [_ C]. destruct (C Hn) as [C1 _]. destruct (C1 Ht) as (P1 & P2).
  pose proof (compress_fast_extState_roundtrip src n target accel Hs) as R. cbv zeta in R.
  destruct (R P1) as (R1 & R2).
  split; [exact P1|]. split; [lia|]. split; assumption.
Qed.


(* the consumed size reported by the plain compressor is the whole input *)
Lemma compress_fast_extState_consumed src n cap accel :
  src_ok src -> 0 <= n ->
  let a := compress_fast_extState src n cap accel in
  0 < a_ret a -> a_consumed a = n.
Proof.
  intros Hs Hn. unfold compress_fast_extState. cbv zeta.
  pose proof (clamp_accel_ge accel) as Hacc.
  destruct (cap >=? compressBound n);
    (match goal with |- 0 < a_ret (compress_generic_nodict ?c ?s ?n ?cp ?od ?t ?sm ?ac) -> _ =>
       pose proof (compress_generic_nodict_sound c s n cp od t sm ac Hs ltac:(discriminate) Hacc
                     ltac:(cbn; lia) ltac:(cbn; lia) (tab_ok_init t sm) (ttype_for_u16 n)
                     ltac:(intros Et _; left; pose proof (ttype_for_u16 _ Et); cbn; unfold LZ4_64Klimit, MFLIMIT in *; lia)) as H
     end; cbv zeta in H; intros Hr; destruct H as (_ & _ & H); destruct (H Hr) as (_ & _ & C & _);
     destruct (Z.eq_dec n 0) as [->|Hn0]; [|apply C; exact Hn0];
     unfold compress_generic_nodict; cbn;
     repeat match goal with |- context [if ?c then _ else _] => destruct c end; reflexivity).
Qed.

(* LZ4_compress_destSize / LZ4_compress_destSize_extState: the whole contract, any budget >= 1 *)
Theorem destSize_contract src n target accel :
  src_ok src -> 0 <= n <= LZ4_MAX_INPUT_SIZE -> 1 <= target ->
  let a := compress_destSize_internal src n target accel in
  1 <= a_ret a <= target /\ a_ret a <= a_hw a <= target /\
  0 <= a_consumed a <= n /\
  a_ret a = Z.of_nat (length (a_out a)) /\
  strict_valid [] (a_out a) = Some (load_list src 0 (Z.to_nat (a_consumed a))) /\
  (compressBound n <= target -> a_consumed a = n).
Proof.
  intros Hs Hn Ht.
  destruct (Z_le_gt_dec (compressBound n) target) as [Hge|Hlt].
  - pose proof (destSize_ge_bound_contract src n target accel Hs Hn Hge) as H. cbv zeta in H.
    destruct H as (H1 & H2 & H3 & H4). cbv zeta.
    assert (Hc : a_consumed (compress_destSize_internal src n target accel) = n).
    { rewrite destSize_ge_bound by exact Hge. apply compress_fast_extState_consumed; [exact Hs | lia|].
      rewrite <- destSize_ge_bound by exact Hge. exact H1. }
    rewrite Hc. repeat split; try lia; assumption.
  - cbv zeta. unfold compress_destSize_internal. cbv zeta.
    destruct (target >=? compressBound n) eqn:E; [lia|].
    pose proof (clamp_accel_ge accel) as Hacc.
    unfold compress_generic_nodict.
    destruct ((n <? 0) || (n >? LZ4_MAX_INPUT_SIZE)) eqn:E0; [lia|].
    destruct (n =? 0) eqn:E1.
    { assert (n = 0) as -> by lia. cbn [andb]. destruct (target <=? 0) eqn:E2; [lia|].
      cbn [a_ret a_hw a_consumed a_out]. repeat split; try lia; try reflexivity. }
    cbn [andb]. destruct (target <? 1) eqn:E2; [lia|].
    cbv zeta. cbn [f_cur f_tab f_dictSize ctx_init].
    set (vrd := fun i => get src (i - 0)).
    pose proof (compress_validated_fill_contract vrd (ttype_for n) CNoDict false 0 0 empty 0 n target (clamp_accel accel)
                  (fun a => Hs (a - 0)) ltac:(lia) ltac:(lia) Ht 0 ltac:(lia)) as F.
    assert (Hdt : CNoDict = CUsingDictCtx -> forall h, get empty h + 0 < 0 /\
                    good3 (ttype_for n) CNoDict false 0 0 (get empty h + 0)) by discriminate.
    assert (Hu : dist_active (ttype_for n) = false -> 0 + n - MFLIMIT - hist_lo CNoDict 0 0 <= 65535).
    { unfold dist_active, hist_lo. destruct (ttype_for n) eqn:Et; [discriminate|]. intros _.
      pose proof (ttype_for_u16 n Et). unfold LZ4_64Klimit, MFLIMIT in *. lia. }
    assert (Hidx : ttype_for n = ByU16 -> mflimitPlusOne 0 n <= 65536 \/ (false = true /\ 65536 <= 0 - 0 /\ 0 <= 0)).
    { intros Et. left. pose proof (ttype_for_u16 _ Et). unfold mflimitPlusOne, iend, LZ4_64Klimit, MFLIMIT in *. lia. }
    specialize (F Hdt Hu ltac:(lia) Hidx Hacc empty (tab_ok_init (ttype_for n) false)).
    destruct F as (ss & last & consumed & tab' & hw & Feq & F1 & F2 & F3 & F4).
    rewrite Feq. cbn [a_ret a_hw a_consumed a_out].
    unfold hist_lo in F4. rewrite (seg_nil vrd 0 0) in F4 by lia.
    unfold vrd in F4. rewrite seg_load in F4 by lia.
    repeat split; try lia; try exact F4.
Qed.

Print Assumptions destSize_ge_bound_contract.
Print Assumptions destSize_contract.
