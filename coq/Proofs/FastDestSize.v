(* LZ4_compress_destSize on top of the generic compressor: the easy half (target >= bound). *)
From Coq Require Import ZArith List Lia Bool ZifyBool.
From LZ4V Require Import Gen.Consts Spec.BlockSpec Model.Mem Model.Fast Model.FastApi
     Proofs.FastApiSound Proofs.FastApiCap.
Import ListNotations.
Local Open Scope Z_scope.

Lemma clamp_accel_idem a : clamp_accel (clamp_accel a) = clamp_accel a.
Proof.
  unfold clamp_accel, LZ4_ACCELERATION_DEFAULT, LZ4_ACCELERATION_MAX.
  destruct (a <? 1) eqn:E1; [reflexivity|].
  destruct (a >? 65537) eqn:E2; [reflexivity|].
  rewrite E1, E2. reflexivity.
Qed.

Lemma compress_fast_extState_clamp src n cap a :
  compress_fast_extState src n cap (clamp_accel a) = compress_fast_extState src n cap a.
Proof. unfold compress_fast_extState. rewrite clamp_accel_idem. reflexivity. Qed.

(* with a budget of at least LZ4_compressBound the destSize entry point IS the plain compressor *)
Theorem destSize_ge_bound src n target accel :
  compressBound n <= target ->
  compress_destSize_internal src n target accel = compress_fast_extState src n target accel.
Proof.
  intros H. unfold compress_destSize_internal. cbv zeta.
  destruct (target >=? compressBound n) eqn:E; [|lia].
  apply compress_fast_extState_clamp.
Qed.

(* ... hence the whole input is consumed, the result is positive, within the budget, and decodes *)
Theorem destSize_ge_bound_contract src n target accel :
  src_ok src -> 0 <= n <= LZ4_MAX_INPUT_SIZE -> compressBound n <= target ->
  let a := compress_destSize_internal src n target accel in
  0 < a_ret a /\ a_ret a <= a_hw a <= target /\
  a_ret a = Z.of_nat (length (a_out a)) /\
  strict_valid [] (a_out a) = Some (load_list src 0 (Z.to_nat n)).
Proof.
  intros Hs Hn Ht. cbv zeta. rewrite destSize_ge_bound by exact Ht.
  pose proof (compress_fast_extState_cap src n target accel) as C. cbv zeta in C.
  destruct C as [_ C]. destruct (C Hn) as [C1 _]. destruct (C1 Ht) as (P1 & P2).
  pose proof (compress_fast_extState_roundtrip src n target accel Hs) as R. cbv zeta in R.
  destruct (R P1) as (R1 & R2).
  split; [exact P1|]. split; [lia|]. split; assumption.
Qed.

Print Assumptions destSize_ge_bound_contract.
