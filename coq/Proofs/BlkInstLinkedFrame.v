(* The frame-level theorems with the block-compressor hypothesis DISCHARGED for linked blocks / dictionaries by the stream
   models (Proofs/BlkInstLinked.v).  What remains assumed is the per-call premise on the oracle of stream calls
   ([lcall_ok], which [fcall_ok] / [hcall_ok] / [ocall_ok] - the premises of the C11 theorems - imply). *)
From Coq Require Import ZArith List Lia Bool.
From LZ4V Require Import Gen.Consts Spec.BlockSpec Spec.XXH32 Spec.FrameSpec Model.FrameC Model.FrameAudit
     Model.FrameD Proofs.FrameCBytes Proofs.FrameCBlocks Proofs.FrameCProofs Proofs.FrameCTheorems Proofs.FrameCExamples
     Proofs.FrameRoundTrip Proofs.FrameCTotal Proofs.BlkInstLinked.
From LZ4V Require Proofs.FrameDProofs Proofs.FrameDChunk.
Import ListNotations.
Local Open Scope Z_scope.

(* the conclusion of C03_lossless for one block compressor *)
Definition C03_body (blk : nat -> list byte -> list byte -> option (list byte)) : Prop :=
  forall c0 po dk ms F X,
  prefs_opt_ok po -> uncompressed_only_if_independent po ms -> len X < U64 ->
  bytes_ok X = true ->
  session blk c0 po dk ms = Some (F, X) ->
  forall o s ns caps,
  dctx_at_frame_start s ->
  (forall k, Forall (fun c => 0 <= c) caps ->
     FrameDChunk.drive_usingDict spec_decode (dict_of dk) o k s F ns caps [] 0 <> FrameDChunk.VError /\
     (FrameDChunk.drive_usingDict spec_decode (dict_of dk) o k s F ns caps [] 0 <> FrameDChunk.VMore ->
      FrameDChunk.drive_usingDict spec_decode (dict_of dk) o k s F ns caps [] 0 = FrameDChunk.VComplete X (zlen F))) /\
  (o_dstnull o = false -> Forall (fun n => 1 <= n) ns -> Forall (fun c => 1 <= c) caps ->
   let K := Z.to_nat (zlen F + zlen X + 1) in
   (K <= length ns)%nat -> (K <= length caps)%nat ->
   FrameDChunk.drive_usingDict spec_decode (dict_of dk) o K s F ns caps [] 0 = FrameDChunk.VComplete X (zlen F)).

(* the conclusion of C07_frame_conformant for one block compressor *)
Definition C07_body (blk : nat -> list byte -> list byte -> option (list byte)) : Prop :=
  forall c0 po dk ms F X,
  prefs_opt_ok po -> uncompressed_only_if_independent po ms -> len X < U64 ->
  session blk c0 po dk ms = Some (F, X) ->
  exists maxb bl,
    let p := eff_prefs po in
    4 <= p_bsid p <= 7 /\ bsid_size (p_bsid p) = Some maxb /\
    F = header_bytes (desc_of p) ++ enc_blocks (p_bcrc p =? 1) bl ++ le_bytes 4 0
        ++ (if p_ccrc p =? 1 then le_bytes 4 (xxh32 0 X) else []) /\
    X = contents bl /\
    chain strict_valid (p_blockMode p =? 1) (dict_of dk) maxb [] bl /\
    (p_contentSize p <> 0 -> p_contentSize p = len X) /\
    frame_audit strict_valid (dict_of dk) F = Some (desc_of p, X, [], Z.of_nat (length bl)) /\
    frame_decode strict_valid false (dict_of dk) F = Some (X, []).

Lemma c03_body_of blk : blk_contract spec_decode blk -> blk_bytes blk -> C03_body blk.
Proof. intros H1 H2. unfold C03_body. apply (c03_lossless blk H1 H2). Qed.
Lemma c07_body_of blk : blk_contract strict_valid blk -> C07_body blk.
Proof. intros H1. unfold C07_body. apply (c07_conformant blk H1). Qed.

(* any oracle of stream calls meeting the per-call contract *)
Theorem c03_linked orc : (forall n, lcall_ok (orc n)) -> C03_body (blk_of orc).
Proof. intros H. destruct (blk_of_contract orc H) as (_ & B & C). apply c03_body_of; assumption. Qed.
Theorem c07_linked orc : (forall n, lcall_ok (orc n)) -> C07_body (blk_of orc).
Proof. intros H. destruct (blk_of_contract orc H) as (A & _). apply c07_body_of; assumption. Qed.

(* per model family: the premise is the premise of the family's C11 per-call theorem *)
Theorem c03_linked_fast orc : (forall n, fcall_ok (orc n)) -> C03_body (blk_fast orc).
Proof. intros H. apply c03_linked. intros n. apply lcall_fast_ok. apply H. Qed.
Theorem c07_linked_fast orc : (forall n, fcall_ok (orc n)) -> C07_body (blk_fast orc).
Proof. intros H. apply c07_linked. intros n. apply lcall_fast_ok. apply H. Qed.
Theorem c03_linked_mid orc : (forall n, hcall_ok (orc n)) -> C03_body (blk_mid orc).
Proof. intros H. apply c03_linked. intros n. apply lcall_mid_ok. apply H. Qed.
Theorem c07_linked_mid orc : (forall n, hcall_ok (orc n)) -> C07_body (blk_mid orc).
Proof. intros H. apply c07_linked. intros n. apply lcall_mid_ok. apply H. Qed.
Theorem c03_linked_opt orc : (forall n, ocall_ok (orc n)) -> C03_body (blk_opt orc).
Proof. intros H. apply c03_linked. intros n. apply lcall_opt_ok. apply H. Qed.
Theorem c07_linked_opt orc : (forall n, ocall_ok (orc n)) -> C07_body (blk_opt orc).
Proof. intros H. apply c07_linked. intros n. apply lcall_opt_ok. apply H. Qed.
