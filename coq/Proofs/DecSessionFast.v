(* C05, across calls, for the deprecated LZ4_decompress_fast_continue (Model.DecFast): same two-segment
   invariant [sess_inv] and per-call contract [call_geom] as Proofs/DecSession.v (capacity = the decoded
   size the caller passes as originalSize); the bookkeeping differs from LZ4_decompress_safe_continue only
   in what an empty first block leaves in prefixEnd ([fast_next]).  Valid blocks only (the C code is
   undefended): every call returns the number of source bytes, with all accesses in bounds, and leaves
   D_k at its destination - empty blocks included (fix F19: an empty block at a jump address keeps the
   history where it is). *)
From Coq Require Import ZArith List Lia Bool ZifyBool.
From LZ4V Require Import Gen.Consts Spec.BlockSpec Model.Mem Model.Dec Model.DecApi Model.DecStream Model.DecFast.
From LZ4V Require Import Proofs.DecRefineBase Proofs.DecRefineSafe Proofs.DecRefineTop Proofs.DecRefineApi Proofs.DecStreamRefine.
From LZ4V Require Import Proofs.DecFastRefine Proofs.DecFastTop Proofs.DecSession.
Import ListNotations.
Local Open Scope Z_scope.

Definition fast_next (st : sdstate) (dest n : Z) : sdstate :=
  if sd_prefixSize st =? 0 then mkSD (sd_externalDict st) (dest + n) (sd_extDictSize st) n
  else sess_next st dest n.

Lemma fast_shape am st srcm srcSize dest n : 0 <= n ->
  let '(r, am', st', k) := decompress_fast_continue am st srcm srcSize dest n in
  (forall x, x < dest \/ dest + n <= x -> get am' x = get am x) /\ (0 < r -> st' = fast_next st dest n).
Proof.
  intros Hn. unfold decompress_fast_continue, fast_next, sess_next, fail_state, next_state.
  assert (W : forall m x, x < dest \/ dest + n <= x -> get (writeback am dest n m) x = get am x).
  { intros m x Hx. unfold writeback. rewrite get_blit.
    destruct ((dest <=? x) && (x <? dest + Z.of_nat (Z.to_nat n))) eqn:E; [lia | reflexivity]. }
  destruct (sd_prefixSize st =? 0) eqn:E0.
  - destruct (decompress_fast srcm srcSize n (work am dest n 0)) as [[r m] k].
    destruct (r <=? 0) eqn:Er; cbv iota beta; (split; [apply W | intros Hr; try lia; reflexivity]).
  - destruct (sd_prefixEnd st =? dest) eqn:Epe.
    + destruct (unsafe_generic _ _ _ _ _ _ _) as [[r m] k].
      destruct (r <=? 0) eqn:Er; cbv iota beta; (split; [apply W | intros Hr; try lia]).
      destruct (n <=? 0) eqn:En; [|reflexivity].
      assert (n = 0) by lia. subst n. rewrite !Z.add_0_r. destruct st; reflexivity.
    + destruct (unsafe_generic _ _ _ _ _ _ _) as [[r m] k].
      destruct ((r <=? 0) || (n =? 0)) eqn:Er; cbv iota beta; (split; [apply W | intros Hr]).
      * assert (En : (n <=? 0) = true) by lia. rewrite En. reflexivity.
      * assert (En : (n <=? 0) = false) by lia. rewrite En. reflexivity.
Qed.

Lemma avail_le st dest : 0 <= sd_extDictSize st -> stream_avail st dest <= fstream_avail st dest.
Proof.
  intros He. unfold stream_avail, fstream_avail.
  destruct (sd_prefixSize st =? 0); [lia|]. destruct (sd_prefixEnd st =? dest); [|lia].
  destruct (sd_prefixSize st >=? 65536 - 1); lia.
Qed.

(* the invariant does not look at prefixEnd while the prefix is empty *)
Lemma sess_inv_pe0 am st H pok pe :
  sd_prefixSize st = 0 -> sess_inv am st H pok ->
  sess_inv am (mkSD (sd_externalDict st) pe (sd_extDictSize st) 0) H pok.
Proof.
  intros Hp (Hps & Heds & HpsH & Hz & Pw & Ew). unfold sess_inv, ext_need in *.
  cbn [sd_prefixSize sd_extDictSize sd_prefixEnd sd_externalDict]. rewrite Hp in *.
  refine (conj _ (conj _ (conj _ (conj _ (conj _ _))))); [lia | lia | lia | | | ].
  - intros _. apply Hz. reflexivity.
  - intros j Hj. lia.
  - intros Hpk. destruct (Ew Hpk) as [E1 E2]. split; [exact E1|]. intros j Hj. apply E2. exact Hj.
Qed.

Lemma fsession_step_k (kk : Z) am st H pok dest (B D : list Z) :
  kk = 65535 \/ kk = 65536 ->
  (kk = 65535 -> sd_prefixSize st <> 0 /\ sd_prefixEnd st = dest /\ 65535 <= sd_prefixSize st) ->
  (kk = 65536 -> sd_prefixSize st <> 0 -> sd_prefixEnd st = dest -> 65535 <= sd_prefixSize st ->
   Z.min 65536 (Z.of_nat (length H)) <= sd_prefixSize st \/ sd_prefixSize st < 65535) ->
  sess_inv am st H pok ->
  call_geom st pok (Z.of_nat (length H)) dest (Z.of_nat (length D)) (Z.of_nat (length D)) ->
  strict_valid (lastn (Z.to_nat kk) H) B = Some D -> bytes B ->
  let '(r, am', st', k) := decompress_fast_continue am st (mem_of_list 0 B) (Z.of_nat (length B)) dest (Z.of_nat (length D)) in
  r = Z.of_nat (length B) /\ k = true /\ load_list am' dest (length D) = D /\
  st' = fast_next st dest (Z.of_nat (length D)) /\
  sess_inv am' st' (H ++ D) (pok_next st pok dest (Z.of_nat (length D))).
Proof.
  intros Hkk Hk1 Hk2 Hinv Hg Hv Hb.
  destruct (designated_view kk am st H pok dest _ _ Hkk Hk1 Hk2 Hinv Hg) as [Hv1 Hv2].
  assert (Hl : Z.of_nat (length (lastn (Z.to_nat kk) H)) <= 65536) by (rewrite lastn_length; lia).
  assert (Heds : 0 <= sd_extDictSize st) by apply Hinv.
  pose proof (avail_le st dest Heds) as Hav.
  pose proof (fast_continue_step am st (mem_of_list 0 B) (Z.of_nat (length B)) B (lastn (Z.to_nat kk) H) D dest
                ltac:(apply Hinv) Heds Hv1 ltac:(lia)) as CS.
  rewrite (lastn_all (Z.to_nat 65536) (lastn (Z.to_nat kk) H)) in CS by lia.
  specialize (CS Hv Hb (src_at_mem_of_list0 B) ltac:(lia)).
  pose proof (fast_shape am st (mem_of_list 0 B) (Z.of_nat (length B)) dest (Z.of_nat (length D)) ltac:(lia)) as SH.
  destruct (decompress_fast_continue am st (mem_of_list 0 B) (Z.of_nat (length B)) dest (Z.of_nat (length D))) as [[[r am'] st'] k].
  destruct CS as (Hr & Hk & Hsrc & _). destruct SH as [Hout Hst].
  assert (HB : 0 < Z.of_nat (length B)).
  { unfold strict_valid, parse_block in Hv. destruct B; [discriminate | cbn [length]; lia]. }
  split; [exact Hr|]. split; [exact Hk|]. split; [apply load_list_src_at; exact Hsrc|].
  specialize (Hst ltac:(lia)). split; [exact Hst|]. subst st'.
  pose proof (inv_after am am' st H pok dest _ D Hinv Hg Hout Hsrc) as HI.
  unfold fast_next. destruct (sd_prefixSize st =? 0) eqn:E0; [|exact HI].
  (* empty prefix: only prefixEnd may differ from the safe variant's bookkeeping *)
  unfold sess_next, fail_state, next_state in HI. rewrite E0 in HI.
  destruct (Z.of_nat (length D) <=? 0) eqn:En; [|exact HI].
  assert (Hd0 : Z.of_nat (length D) = 0) by lia. rewrite Hd0. rewrite Hd0 in HI.
  apply (sess_inv_pe0 am' st (H ++ D) _ (dest + 0) ltac:(lia) HI).
Qed.

Theorem fsession_step am st H pok dest (B D : list Z) :
  sess_inv am st H pok ->
  call_geom st pok (Z.of_nat (length H)) dest (Z.of_nat (length D)) (Z.of_nat (length D)) ->
  strict_valid (lastn (Z.to_nat 65536) H) B = Some D -> bytes B ->
  let '(r, am', st', k) := decompress_fast_continue am st (mem_of_list 0 B) (Z.of_nat (length B)) dest (Z.of_nat (length D)) in
  r = Z.of_nat (length B) /\ k = true /\ load_list am' dest (length D) = D /\
  st' = fast_next st dest (Z.of_nat (length D)) /\
  sess_inv am' st' (H ++ D) (pok_next st pok dest (Z.of_nat (length D))).
Proof.
  intros Hinv Hg Hv Hb.
  destruct (Z.eq_dec (sd_prefixSize st) 65535) as [E1|E1];
    [destruct (Z.eq_dec (sd_prefixEnd st) dest) as [E2|E2];
       [destruct (Z_le_gt_dec 65536 (Z.of_nat (length H))) as [E3|E3]|]|].
  - apply (fsession_step_k 65535); try assumption; try lia.
    apply strict_valid_65535; [lia | exact Hv].
  - apply (fsession_step_k 65536); try assumption; try lia.
  - apply (fsession_step_k 65536); try assumption; try lia.
  - apply (fsession_step_k 65536); try assumption; try lia.
Qed.

(* the contract of a whole session: capacity = decoded size (originalSize) *)
Fixpoint fsession_geom (st : sdstate) (pok : bool) (total : Z) (calls : list scall) : Prop :=
  match calls with
  | [] => True
  | (dest, cap, B, D) :: rest =>
    let n := Z.of_nat (length D) in
    call_geom st pok total dest n n /\
    fsession_geom (fast_next st dest n) (pok_next st pok dest n) (total + n) rest
  end.

(* per call: (return value, access flag, bytes found at the destination right after the call) *)
Fixpoint fsession_run (am : mem) (st : sdstate) (calls : list scall) : list (Z * bool * list Z) :=
  match calls with
  | [] => []
  | (dest, cap, B, D) :: rest =>
    let '(r, am', st', k) := decompress_fast_continue am st (mem_of_list 0 B) (Z.of_nat (length B)) dest (Z.of_nat (length D)) in
    (r, k, load_list am' dest (length D)) :: fsession_run am' st' rest
  end.
Definition fexpected (calls : list scall) : list (Z * bool * list Z) :=
  map (fun c : scall => let '(dest, cap, B, D) := c in (Z.of_nat (length B), true, D)) calls.

Theorem fast_continue_session :
  forall (calls : list scall) (am : mem) (st : sdstate) (H : list Z) (pok : bool),
    sess_inv am st H pok -> fsession_geom st pok (Z.of_nat (length H)) calls -> session_valid H calls ->
    fsession_run am st calls = fexpected calls.
Proof.
  induction calls as [|[[[dest cap] B] D] rest IH]; intros am st H pok Hinv Hg Hv; [reflexivity|].
  cbn [fsession_geom session_valid fsession_run fexpected map] in *.
  destruct Hg as [Hg1 Hg2]. destruct Hv as (Hv1 & Hv2 & Hv3).
  pose proof (fsession_step am st H pok dest B D Hinv Hg1 Hv1 Hv2) as HS.
  destruct (decompress_fast_continue am st (mem_of_list 0 B) (Z.of_nat (length B)) dest (Z.of_nat (length D))) as [[[r am'] st'] k].
  destruct HS as (Hr & Hk & Hl & Hst & Hinv').
  rewrite Hl, Hr, Hk. f_equal. subst st'.
  apply (IH am' _ (H ++ D) _ Hinv'); [|exact Hv3].
  rewrite app_length, Nat2Z.inj_add. exact Hg2.
Qed.

(* scheme (a): contiguous *)
Lemma fcontig_geom : forall calls st pok total dest,
  sd_extDictSize st = 0 -> sd_prefixSize st = total -> 0 <= total -> (0 < total -> sd_prefixEnd st = dest) ->
  contig_calls dest calls -> fsession_geom st pok total calls.
Proof.
  induction calls as [|[[[d cap] B] D] rest IH]; intros st pok total dest He Hp Ht Hpe Hc; [exact I|].
  cbn [contig_calls fsession_geom] in *. destruct Hc as (Hd & Hcap & Hrest). subst d.
  set (n := Z.of_nat (length D)) in *. assert (Hn : 0 <= n) by (subst n; lia).
  split.
  - unfold call_geom. split; [lia|]. cbv zeta.
    destruct (sd_prefixSize st =? 0) eqn:E0; [lia|].
    rewrite (Hpe ltac:(lia)), Z.eqb_refl. split; [left; lia|].
    unfold disjoint, ext_need. rewrite He. lia.
  - unfold fast_next, sess_next, fail_state, next_state, pok_next.
    destruct (sd_prefixSize st =? 0) eqn:E0.
    + apply (IH _ pok (total + n) (dest + n)); cbn [sd_extDictSize sd_prefixSize sd_prefixEnd]; try assumption; try lia.
    + rewrite (Hpe ltac:(lia)), Z.eqb_refl.
      destruct (n <=? 0) eqn:En.
      * assert (n = 0) by lia.
        apply (IH st pok (total + n) (dest + n)); try assumption; try lia.
      * apply (IH _ pok (total + n) (dest + n)); cbn [sd_extDictSize sd_prefixSize sd_prefixEnd]; try assumption; try lia.
Qed.

Theorem fast_continue_session_contiguous :
  forall (calls : list scall) (am : mem) (dest : Z),
    contig_calls dest calls -> session_valid [] calls ->
    fsession_run am (setStreamDecode 0 0) calls = fexpected calls.
Proof.
  intros calls am dest Hc Hv.
  apply (fast_continue_session calls am _ [] true (init_inv am 0)); [|exact Hv].
  apply (fcontig_geom calls _ true 0 dest); cbn; try lia; try reflexivity. exact Hc.
Qed.

(* scheme (b): ring buffer of at least 65536 + 2*maxBlock bytes *)
Lemma call_geom_cap st pok total dest cap n :
  call_geom st pok total dest cap n -> call_geom st pok total dest n n.
Proof.
  unfold call_geom, disjoint. cbv zeta. intros (Hn & G). split; [lia|].
  destruct (sd_prefixSize st =? 0); [exact G|].
  destruct (sd_prefixEnd st =? dest); destruct G as [G1 G2]; (split; [exact G1 | lia]).
Qed.

Section RingFast.
  Variables (rb R M : Z).
  Hypothesis HM : 0 <= M.
  Hypothesis HR : 65536 + 2 * M <= R.

  Lemma ring_step_fast st pok total q n :
    ring_inv rb R M st pok total q -> 0 <= n <= M ->
    call_geom st pok total (rb + ring_pos R M q) n n /\
    ring_inv rb R M (fast_next st (rb + ring_pos R M q) n) (pok_next st pok (rb + ring_pos R M q) n) (total + n) (ring_pos R M q + n).
  Proof.
    intros Hi Hn. destruct (ring_step rb R M HM HR st pok total q n Hi Hn) as [G1 G2].
    split; [exact (call_geom_cap _ _ _ _ _ _ G1)|].
    unfold fast_next. destruct (sd_prefixSize st =? 0) eqn:E0; [|exact G2].
    destruct Hi as [(Hp & He & Ht & Hq) | (Hp & _)]; [|lia].
    subst q. unfold ring_pos. assert (E : (R - 0 <? M) = false) by lia. rewrite E.
    unfold ring_inv. cbn [sd_prefixSize sd_extDictSize sd_prefixEnd sd_externalDict].
    destruct (Z.eq_dec n 0) as [Hn0|Hn0].
    - left. lia.
    - right. lia.
  Qed.

  Lemma fring_geom : forall calls st pok total q,
    ring_inv rb R M st pok total q -> ring_calls rb R M q calls -> fsession_geom st pok total calls.
  Proof.
    induction calls as [|[[[d cap] B] D] rest IH]; intros st pok total q Hi Hc; [exact I|].
    cbn [ring_calls fsession_geom] in *. destruct Hc as (Hd & Hcap & Hn & Hrest). subst d cap.
    destruct (ring_step_fast st pok total q (Z.of_nat (length D)) Hi ltac:(lia)) as [G1 G2].
    split; [exact G1|]. apply (IH _ _ _ _ G2 Hrest).
  Qed.

  Theorem fast_continue_session_ring :
    forall (calls : list scall) (am : mem),
      ring_calls rb R M 0 calls -> session_valid [] calls ->
      fsession_run am (setStreamDecode 0 0) calls = fexpected calls.
  Proof.
    intros calls am Hc Hv.
    apply (fast_continue_session calls am _ [] true (init_inv am 0)); [|exact Hv].
    apply (fring_geom calls _ true 0 0); [|exact Hc].
    left. cbn. repeat split; reflexivity.
  Qed.
End RingFast.
