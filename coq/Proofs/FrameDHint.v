(* The hint returned by LZ4F_decompress (Model/FrameD.v) against the number of frame bytes not yet consumed.

   The claim "on a specification-valid frame the hint never exceeds what is left of the frame" - which Model/Io.v's
   abstraction of the single-thread LZ4IO_decompressLZ4F loop ("reads exactly the bytes of the frame") rests on - WAS
   FALSE before the repair of finding F21, of the model and of the C code alike:  lib/lz4frame.c, case dstage_storeCBlock, "need more input":
       nextSrcSizeHint = (tmpInTarget - tmpInSize) + (blockChecksumFlag ? BFSize : 0) + BHSize
   but for a compressed block tmpInTarget already contains the block checksum (tmpInTarget = nextCBlockSize + crcSize
   in the block-header stage).  With block checksums, a compressed block that arrives in two pieces makes the hint
   4 bytes too large; when it is the last data block of a frame without content checksum the hint reaches 4 bytes
   beyond the end of the frame.  Witness below: a 30-byte frame (block checksum, no content checksum, one
   compressed block of 11 bytes); after 16 bytes the decoder asks for 18 although 14 are left.
   Consequence (reproduced on the real single-thread lz4 binary, finding F21, harness c14.py kind stloop): the ST
   loop freads 4 bytes of whatever follows the frame and drops them - concatenated frames are not decoded. *)
From Coq Require Import ZArith List Lia Bool.
From LZ4V Require Import Spec.BlockSpec Spec.XXH32 Spec.FrameSpec Gen.Consts Model.FrameD.
Import ListNotations.
Local Open Scope Z_scope.

(* "the hint never exceeds the rest of the frame" (for a first call that consumes all it is given) *)
Definition hint_within_frame_statement : Prop :=
  forall (bdec : list byte -> list byte -> option (list byte)) frame content k cap o,
    frame_decode bdec false [] frame = Some (content, []) -> bytes_ok frame = true ->
    0 < k < zlen frame -> 0 <= cap ->
    let r := snd (decompress bdec dctx_init (ztake k frame) cap o) in
    r_consumed r = k -> 0 < r_ret r -> r_ret r <= zlen frame - k.

Definition hw_blk : list byte := encode_last [1; 2; 3; 4; 5; 6; 7; 8; 9; 10].       (* a compressed block: 10 literals *)
Definition hw_desc : list byte := [112; 64].                                          (* version 01, independent, block checksum; 64 KB *)
Definition hw_frame : list byte :=
  le_bytes 4 MAGIC ++ hw_desc ++ [header_checksum hw_desc] ++ le_bytes 4 (Z.of_nat (length hw_blk)) ++ hw_blk
  ++ le_bytes 4 (xxh32 0 hw_blk) ++ le_bytes 4 0.

(* on the repaired code (dstage_storeCBlock no longer counts the block checksum twice) the frame that witnessed the
   violation gets the exact hint: 14 bytes are left, 14 are asked for *)
Lemma hint_witness :
  frame_decode spec_decode false [] hw_frame = Some ([1; 2; 3; 4; 5; 6; 7; 8; 9; 10], []) /\
  bytes_ok hw_frame = true /\ zlen hw_frame = 30 /\
  let r := snd (decompress spec_decode dctx_init (ztake 16 hw_frame) 100 (mkO false false false)) in
  r_consumed r = 16 /\ r_ret r = 14.
Proof. vm_compute. repeat split; reflexivity. Qed.

(* the formula of lz4frame.c before the repair (b4823ff), (tmpInTarget - tmpInSize) + (blockChecksumFlag ? BFSize : 0) + BHSize,
   evaluated in the state the witness reaches: 18, although 14 bytes of the frame are left *)
Lemma old_storeCBlock_hint_exceeds_frame :
  let s := fst (decompress spec_decode dctx_init (ztake 16 hw_frame) 100 (mkO false false false)) in
  d_stage s = StoreCBlock /\
  (d_tmpInTarget s - d_tmpInSize s) + bcsize s + FD_BHSize = 18 /\ zlen hw_frame - 16 = 14.
Proof. vm_compute. repeat split; reflexivity. Qed.
