(* "The streaming compressors emit bytes": the output of one LZ4_compress_fast_continue / LZ4_compress_HC_continue call
   (LZ4MID and levels 3..12) is a byte string, under the hypotheses of the streaming soundness theorems (C11).

   - fast: FastStreamProofs.fast_continue_sound already says that a positive result is [factored], i.e. the
     specification's encoding of a factorisation of the call's (byte-valued) virtual index space; encodings of
     well-formed sequences are byte strings (BlockSpecProofs.encode_block_bytes).
   - HC: Proofs.ParserBytes.mid_compress_bytes / hc_compress_bytes / opt_compress_bytes under the API's bookkeeping
     (the text of k_generic_mid_sound / kt_generic_sound up to the parser call). *)
From Coq Require Import ZArith List Lia Bool ZifyBool.
From LZ4V Require Import Gen.Consts Spec.BlockSpec Model.Mem Model.Fast Model.FastApi Model.FastStream Model.HcEmit Model.HcMid
     Model.HcMidDict Model.HcMidStream.
From LZ4V Require Import Model.HcChain Model.HcChainApi Model.HcOpt Model.HcOptApi Model.HcChainStream Model.HcTabStream Model.HcOptStream.
From LZ4V Require Import Proofs.BlockSpecProofs Proofs.FactorSpec Proofs.FastStreamMem Proofs.FastStreamProofs.
From LZ4V Require Import Proofs.HcMidSound Proofs.HcMidCap Proofs.HcMidDictSound Proofs.HcMidStreamProofs Proofs.HcMidStreamHist.
From LZ4V Require Import Proofs.HcChainStreamProofs Proofs.HcTabStreamProofs Proofs.HcOptStreamProofs Proofs.ParserBytes.
From LZ4V Require Proofs.HcChainSearch Proofs.HcChainSound Proofs.HcChainCap Proofs.HcChainParser Proofs.HcOptParser.
Import ListNotations.
Local Open Scope Z_scope.

(* ================================================================ LZ4_compress_fast_continue *)
Lemma factored_bytes vrd lo cur n out : (forall a, 0 <= vrd a < 256) -> factored vrd lo cur n out -> bytes_ok out = true.
Proof.
  intros Hb (ss & last & -> & _ & Sv & _ & ->).
  apply encode_block_bytes; [eapply seqs_valid_wf; [exact Hb | exact Sv] | apply seg_bytes_ok; exact Hb].
Qed.

Theorem fast_continue_bytes m c source n cap acc :
  mem_ok m -> table_inv c -> tt_inv c -> stream_ready c -> 0 <= n <= LZ4_MAX_INPUT_SIZE -> 0 < source ->
  0 < r_ret (fast_continue m c source n cap acc) -> bytes_ok (r_out (fast_continue m c source n cap acc)) = true.
Proof.
  intros Hm T V R Hn Hs Hr.
  pose proof (fast_continue_sound m c source n cap acc Hm T V R Hn Hs) as F. cbv zeta in F.
  destruct (continue_call (fst (prelude c source n)) (snd (prelude c source n)) source n) as [[cc dd] small].
  destruct F as (_ & _ & _ & _ & F4).
  destruct (F4 Hr) as (_ & [(_ & E)|(_ & _ & Hf)]); [rewrite E; reflexivity|].
  eapply factored_bytes; [|exact Hf]. intros a. unfold call_vrd. apply vrd_of_byte. exact Hm.
Qed.

(* ================================================================ LZ4_compress_HC_continue, LZ4MID *)
Theorem k_generic_mid_bytes m ke dc src n cap lim ret consumed out hw c' :
  hmem_ok m -> k_ready ke src -> dc_ready dc -> 0 <= src -> 0 <= n < 2147483648 -> 0 <= cap ->
  k_generic_mid m ke dc src n cap lim = Some (HRes ret consumed out hw c') ->
  bytes_ok out = true.
Proof.
  intros Hm (K & Hd & Ha & He & Hend) Hdc Hs Hn Hcap. unfold k_generic_mid.
  pose proof K as (L & P & E & A & T).
  destruct (match lim with FillOutput => cap <? 1 | _ => false end) eqn:E1.
  { intros H. inversion H; subst. reflexivity. }
  destruct (u32 n >? LZ4_MAX_INPUT_SIZE) eqn:E2.
  { intros H. inversion H; subst. reflexivity. }
  assert (Hmax : n <= LZ4_MAX_INPUT_SIZE).
  { unfold LZ4_MAX_INPUT_SIZE in *. rewrite u32s in E2 by lia. lia. }
  cbv zeta.
  remember (k_dictLimit ke + (k_end ke - k_prefixStart ke)) as s0 eqn:Es0.
  assert (Es : s0 = k_endIdx ke) by (rewrite Es0; reflexivity).
  remember (kd_vrd m ke dc) as vrd eqn:Evrd.
  remember (match dc with
            | Some d => dict_search vrd s0 n (k_lowLimit ke) (k_h4 d) (k_h8 d) (k_endIdx d)
            | None => fun _ : Z => @None found
            end) as dsrch eqn:Eds.
  assert (Hb : forall a, 0 <= vrd a < 256) by (rewrite Evrd; apply kd_vrd_byte; exact Hm).
  unfold GB2, K64, EMAX, LZ4_MAX_INPUT_SIZE in *.
  assert (Hidx : 0 <= k_lowLimit ke /\ k_lowLimit ke <= k_dictLimit ke /\ k_dictLimit ke <= s0 /\ s0 + n < M32).
  { rewrite M32_v. unfold k_endIdx in *. lia. }
  assert (Hlo : 0 <= k_lo ke dc <= k_lowLimit ke).
  { unfold k_lo, k_dlen. destruct dc as [d|]; [|lia]. destruct Hdc as ((Dk & _ & _ & _ & Dsr) & Dm).
    destruct (Dsr Dm) as (_ & _ & D3 & _). destruct Dk as (_ & Dp & _). unfold K64 in *. lia. }
  assert (Hds : forall ip f, s0 <= ip <= mi_mflimit s0 n -> dsrch ip = Some f -> found_ok vrd s0 n (k_lo ke dc) ip f).
  { rewrite Eds. destruct dc as [d|]; [|intros ip f _ Hx; discriminate Hx].
    destruct Hdc as ((Dk & _ & Dl & _ & Dsr) & Dm). destruct (Dsr Dm) as (D1 & D2 & D3 & D4). pose proof Dk as (_ & Dp & _).
    intros ip f Hip Hf.
    apply (dict_search_sound vrd s0 n (k_lowLimit ke) (k_lo ke (Some d)) (k_h4 d) (k_h8 d) (k_dictLimit d) (k_endIdx d) D1 D2); try assumption.
    - unfold GB1, K64, k_endIdx in *. lia.
    - rewrite M32_v. unfold k_lo, k_dlen, k_endIdx in *. lia. }
  assert (Tb : tab_lt (k_h4 ke) s0 /\ tab_lt (k_h8 ke) s0).
  { destruct (T Hd) as (T4 & T8). replace (Z.max 1 (k_endIdx ke)) with s0 in * by (unfold k_endIdx in *; lia). split; assumption. }
  destruct Tb as (T4 & T8).
  pose proof (mid_compress_bytes vrd lim (k_dictLimit ke) (k_lowLimit ke) s0 n cap (k_lo ke dc) dsrch (k_h4 ke) (k_h8 ke)
                Hb Hidx (proj1 Hn) Hlo Hds T4 T8) as RB.
  destruct (mid_compress vrd lim (k_dictLimit ke) (k_lowLimit ke) s0 n cap dsrch (k_h4 ke) (k_h8 ke))
    as [h4 h8 hw'|ret' consumed' out' h4 h8 hw'|]; [| |discriminate].
  - intros H. inversion H; subst. reflexivity.
  - cbn [mres_bytes] in RB.
    destruct lim; [| |destruct ((0 <? ret') && (consumed' <? n))]; intros H; inversion H; subst; exact RB.
Qed.

Theorem hs_continue_generic_bytes m c src n cap lim ret consumed out hw c' :
  hmem_ok m -> hs_ok c -> k_dirty (hs_core c) = false -> 0 < src -> 0 <= n < 2147483648 -> 0 <= cap ->
  hs_continue_generic m c src n cap lim = Some (HRes ret consumed out hw c') ->
  bytes_ok out = true.
Proof.
  intros Hm K Hd Hs Hn Hcap. rewrite hs_continue_generic_eq.
  destruct (is_mid (k_level (hs_core c))) eqn:Hl; [|discriminate].
  destruct (hs_effective m c src n) as [[ke dc]|] eqn:Ee; [|discriminate].
  intros Hg.
  pose proof (hs_effective_ready m c src n ke dc K Hd Hl Hs ltac:(lia) Ee) as (R & Rc).
  exact (k_generic_mid_bytes m ke dc src n cap lim ret consumed out hw c' Hm R Rc ltac:(lia) Hn Hcap Hg).
Qed.

Theorem hs_continue_bytes m c src n cap ret consumed out hw c' :
  hmem_ok m -> hs_ok c -> k_dirty (hs_core c) = false -> 0 < src -> 0 <= n < 2147483648 -> 0 <= cap ->
  hs_continue m c src n cap = Some (HRes ret consumed out hw c') ->
  bytes_ok out = true.
Proof. intros Hm K Hd Hs Hn Hcap. unfold hs_continue. apply hs_continue_generic_bytes; assumption. Qed.

(* ================================================================ LZ4_compress_HC_continue, levels 3..12 *)
Theorem kt_generic_bytes m ke cte fav src n cap lim ret consumed out hw c' :
  hmem_ok m -> k_ready ke src -> kc_ok ke cte -> 0 <= src -> 0 <= n < 2147483648 -> 0 <= cap ->
  kt_generic blk_all m ke cte fav src n cap lim = Some (TRes ret consumed out hw c') ->
  bytes_ok out = true.
Proof.
  intros Hm (K & Hd & Ha & He & Hend) (Hct & Hntu) Hs Hn Hcap. unfold HcTabStream.kt_generic.
  pose proof K as (L & P & E & A & T).
  destruct (match lim with FillOutput => cap <? 1 | _ => false end) eqn:E1.
  { intros H. inversion H; subst. reflexivity. }
  destruct (u32 n >? LZ4_MAX_INPUT_SIZE) eqn:E2.
  { intros H. inversion H; subst. reflexivity. }
  assert (Hmax : n <= LZ4_MAX_INPUT_SIZE).
  { unfold LZ4_MAX_INPUT_SIZE in *. rewrite u32s in E2 by lia. lia. }
  cbv zeta.
  remember (k_dictLimit ke + (k_end ke - k_prefixStart ke)) as s0 eqn:Es0.
  assert (Es : s0 = k_endIdx ke) by (rewrite Es0; reflexivity).
  unfold GB2, K64, EMAX, LZ4_MAX_INPUT_SIZE in *.
  assert (Hidx : 65536 <= k_lowLimit ke /\ k_lowLimit ke <= k_dictLimit ke /\ k_dictLimit ke <= s0 /\ s0 + n < M32 - 65536).
  { rewrite M32_v. unfold k_endIdx in *. lia. }
  assert (HT : HcChainSearch.TB (kc_tabs ke cte) s0).
  { destruct (T Hd) as (T4 & _). replace (Z.max 1 (k_endIdx ke)) with s0 in * by (unfold k_endIdx in *; lia).
    unfold HcChainSearch.TB, kc_tabs. cbn [t_hash t_chain t_ntu]. split; [exact T4|]. split; assumption. }
  assert (Hfill : lim = FillOutput -> 1 <= cap) by (intros ->; lia).
  pose proof (blk_all_ok (k_vrd m ke) lim (k_dictLimit ke) (k_lowLimit ke) s0 n cap (k_level ke) fav (k_vrd_byte m ke Hm) Hidx (proj1 Hn) Hcap Hfill
                (kc_tabs ke cte) HT) as (RS & RC).
  apply cres_bytes_of_RSpec in RS.
  destruct (blk_all (k_vrd m ke) (k_dictLimit ke) (k_lowLimit ke) lim s0 n cap (k_level ke) fav (kc_tabs ke cte))
    as [t hw'|ret' consumed' out' t hw'|]; [| |destruct RC].
  - intros H. inversion H; subst. reflexivity.
  - cbn [cres_bytes] in RS.
    destruct lim; [| |destruct ((0 <? ret') && (consumed' <? n)); [destruct (kc_init_internal _ _ _) as [k2 ct2]|]];
      intros H; inversion H; subst; exact RS.
Qed.

Theorem os_continue_generic_bytes m c src n cap lim ret consumed out hw c' :
  hmem_ok m -> ts_ok c -> k_dirty (ts_core c) = false -> 0 < src -> 0 <= n < 2147483648 -> 0 <= cap ->
  ts_continue_generic blk_all lvl_all m c src n cap lim = Some (TRes ret consumed out hw c') ->
  bytes_ok out = true.
Proof.
  intros Hm K Hd Hs Hn Hcap. rewrite (ts_continue_generic_eq blk_all lvl_all).
  destruct (lvl_all (k_level (ts_core c))) eqn:Hl; [|discriminate].
  destruct (ts_effective lvl_all m c src n) as [[ke cte]|] eqn:Ee; [|discriminate].
  intros Hg.
  pose proof (ts_effective_ready lvl_all lvl_all_range m c src n ke cte K Hd Hl Hs ltac:(lia) Ee) as (R & Rc).
  exact (kt_generic_bytes m ke cte _ src n cap lim ret consumed out hw c' Hm R Rc ltac:(lia) Hn Hcap Hg).
Qed.

Theorem os_continue_bytes m c src n cap ret consumed out hw c' :
  hmem_ok m -> ts_ok c -> k_dirty (ts_core c) = false -> 0 < src -> 0 <= n < 2147483648 -> 0 <= cap ->
  os_continue m c src n cap = Some (TRes ret consumed out hw c') ->
  bytes_ok out = true.
Proof. intros Hm K Hd Hs Hn Hcap. unfold os_continue, ts_continue. apply os_continue_generic_bytes; assumption. Qed.

Print Assumptions fast_continue_bytes.
Print Assumptions hs_continue_bytes.
Print Assumptions os_continue_bytes.
