(* C19 (decoder half): a context that went through LZ4F_resetDecompressionContext - from ANY
   state - is observationally a fresh context: on every further sequence of
   LZ4F_decompress / _usingDict / getFrameInfo / reset calls both produce the same
   (consumed, produced bytes, return value, reported frame info).
   Method: a bisimulation [live_eq] that relates two states when they agree on the fields that
   are LIVE in their stage (read before being overwritten); the stale rest is arbitrary. *)
From Coq Require Import ZArith List Lia Bool.
From LZ4V Require Import Spec.BlockSpec Spec.XXH32 Spec.FrameSpec Gen.Consts Model.FrameD.
From LZ4V Require Import Proofs.FrameDHeader Proofs.FrameDProofs Proofs.FrameDReuse.
Import ListNotations.
Local Open Scope Z_scope.
Local Opaque xxh32.

(* the written prefix of a staging array *)
Definition pre (buf : list byte) (off : Z) : list byte := firstn (Z.to_nat off) (buf ++ repeat 0 (Z.to_nat off)).
Lemma wr_pre buf off p : wr buf off p = pre buf off ++ p.
Proof. reflexivity. Qed.
Lemma pre_length buf off : 0 <= off -> zlen (pre buf off) = off.
Proof. intro H. unfold pre, zlen. rewrite firstn_length, app_length, repeat_length. lia. Qed.
Lemma pre_full (x : list byte) n : zlen x = n -> pre x n = x.
Proof.
  intro H. unfold pre, zlen in *. rewrite firstn_app. replace (Z.to_nat n - length x)%nat with 0%nat by lia.
  simpl. rewrite app_nil_r. apply firstn_all2. lia.
Qed.
Lemma pre_wr buf off p n : 0 <= off -> zlen p = n -> pre (wr buf off p) (off + n) = wr buf off p.
Proof. intros H1 H2. apply pre_full. rewrite zlen_wr by lia. lia. Qed.
Lemma pre0 buf : pre buf 0 = [].
Proof. reflexivity. Qed.

Definition in_blocks (st : dstage) : bool :=
  match st with
  | GetBlockHeader | StoreBlockHeader | CopyDirect | GetBlockChecksum | GetCBlock | StoreCBlock
  | FlushOut | GetSuffix | StoreSuffix => true
  | _ => false
  end.

(* agreement on the live fields.  The buffer capacities (maxBufferSize, the size of tmpIn) and the
   overflow flag are not part of it: no output depends on them (a fresh context has none
   allocated, a reused one keeps its buffers) *)
Definition live_eq (s1 s2 : dstate) : Prop :=
  d_stage s1 = d_stage s2 /\ d_remaining s1 = d_remaining s2 /\
  d_hist s1 = d_hist s2 /\ d_skip s1 = d_skip s2 /\
  match d_stage s1 with
  | GetFrameHeader => True
  | StoreFrameHeader =>
      d_tmpInSize s1 = d_tmpInSize s2 /\ d_tmpInTarget s1 = d_tmpInTarget s2 /\
      pre (d_header s1) (d_tmpInSize s1) = pre (d_header s2) (d_tmpInSize s2)
  | Init => d_fi s1 = d_fi s2 /\ d_maxBlock s1 = d_maxBlock s2
  | GetSFrameSize => d_fi s1 = d_fi s2
  | StoreSFrameSize =>
      d_fi s1 = d_fi s2 /\ d_tmpInSize s1 = d_tmpInSize s2 /\ d_tmpInTarget s1 = d_tmpInTarget s2 /\
      4 <= d_tmpInSize s1 /\
      zdrop 4 (pre (d_header s1) (d_tmpInSize s1)) = zdrop 4 (pre (d_header s2) (d_tmpInSize s2))
  | SkipSkippable => d_fi s1 = d_fi s2 /\ d_tmpInTarget s1 = d_tmpInTarget s2
  | st =>
      d_fi s1 = d_fi s2 /\ d_maxBlock s1 = d_maxBlock s2 /\
      ((fi_ccFlag (d_fi s1) =? 0) = false -> d_xxh s1 = d_xxh s2) /\
      match st with
      | StoreBlockHeader =>
          d_tmpInSize s1 = d_tmpInSize s2 /\ pre (d_tmpIn s1) (d_tmpInSize s1) = pre (d_tmpIn s2) (d_tmpInSize s2)
      | StoreSuffix =>
          d_tmpInSize s1 = d_tmpInSize s2 /\ pre (d_tmpIn s1) (d_tmpInSize s1) = pre (d_tmpIn s2) (d_tmpInSize s2) /\
          d_xxh s1 = d_xxh s2
      | StoreCBlock =>
          d_tmpInSize s1 = d_tmpInSize s2 /\ d_tmpInTarget s1 = d_tmpInTarget s2 /\
          pre (d_tmpIn s1) (d_tmpInSize s1) = pre (d_tmpIn s2) (d_tmpInSize s2)
      | CopyDirect =>
          d_tmpInTarget s1 = d_tmpInTarget s2 /\ ((fi_bcFlag (d_fi s1) =? 0) = false -> d_bxxh s1 = d_bxxh s2)
      | GetBlockChecksum =>
          d_tmpInSize s1 = d_tmpInSize s2 /\ pre (d_header s1) (d_tmpInSize s1) = pre (d_header s2) (d_tmpInSize s2) /\
          d_bxxh s1 = d_bxxh s2
      | GetCBlock => d_tmpInTarget s1 = d_tmpInTarget s2
      | FlushOut => d_tmpOut s1 = d_tmpOut s2 /\ d_tmpOutStart s1 = d_tmpOutStart s2
      | _ => True
      end
  end.

(* same outcome, same locals, live-equal states *)
Definition sim (r1 r2 : lst * outcome) : Prop :=
  snd r1 = snd r2 /\ l_src (fst r1) = l_src (fst r2) /\ l_used (fst r1) = l_used (fst r2) /\
  l_out (fst r1) = l_out (fst r2) /\ l_cap (fst r1) = l_cap (fst r2) /\
  match snd r1 with Ret v => 0 <= v -> live_eq (l_s (fst r1)) (l_s (fst r2)) | _ => live_eq (l_s (fst r1)) (l_s (fst r2)) end.

Definition leq (l1 l2 : lst) : Prop :=
  l_src l1 = l_src l2 /\ l_used l1 = l_used l2 /\ l_out l1 = l_out l2 /\ l_cap l1 = l_cap l2 /\
  live_eq (l_s l1) (l_s l2).

Ltac dd2 l1 l2 :=
  destruct l1 as [[fi1 st1 rem1 mb1 mbuf1 cap1 tin1 tsz1 ttg1 hist1 tout1 tstart1 xxh1 bxxh1 skip1 hdr1 oob1] src1 used1 out1 dcap1];
  destruct l2 as [[fi2 st2 rem2 mb2 mbuf2 cap2 tin2 tsz2 ttg2 hist2 tout2 tstart2 xxh2 bxxh2 skip2 hdr2 oob2] src2 used2 out2 dcap2].

Ltac decomp :=
  repeat match goal with
         | H : _ /\ _ |- _ => destruct H
         end.

(* open a bisimulation lemma about stage [X]: destruct both states, use the stage, split the relation *)
Ltac bis_open L Hst :=
  unfold leq, live_eq in L; ss; cbn [d_stage] in Hst; subst; decomp; subst; ss; decomp; subst.

Ltac neg_ret := let HH := fresh in intro HH; exfalso; vm_compute in HH; apply HH; reflexivity.
Ltac sim_done :=
  unfold sim; ss; repeat (split; [first [reflexivity|congruence]|]);
  first [neg_ret | (try intros _; unfold live_eq; ss; repeat split; auto; try congruence)].

Lemma bis_skipSkippable l1 l2 :
  leq l1 l2 -> d_stage (l_s l1) = SkipSkippable -> sim (do_skipSkippable l1) (do_skipSkippable l2).
Proof.
  intros L Hst. dd2 l1 l2. bis_open L Hst.
  unfold do_skipSkippable. ss.
  destruct (negb (ttg2 - Z.min ttg2 (zlen src2) =? 0)); sim_done.
Qed.

(* locals and the always-live fields agree (the stage may be any) *)
Definition geq (l1 l2 : lst) : Prop :=
  l_src l1 = l_src l2 /\ l_used l1 = l_used l2 /\ l_out l1 = l_out l2 /\ l_cap l1 = l_cap l2 /\
  d_remaining (l_s l1) = d_remaining (l_s l2) /\ d_hist (l_s l1) = d_hist (l_s l2) /\
  d_skip (l_s l1) = d_skip (l_s l2).
Lemma leq_geq l1 l2 : leq l1 l2 -> geq l1 l2.
Proof. unfold leq, geq, live_eq. intros (A & B & C & D & E). tauto. Qed.

Ltac g_open G := unfold geq in G; ss; decomp; subst.

Lemma bis_sframeSize l1 l2 sel :
  geq l1 l2 -> d_fi (l_s l1) = d_fi (l_s l2) -> sim (do_sframeSize l1 sel) (do_sframeSize l2 sel).
Proof. intros G F. dd2 l1 l2. g_open G. ss. subst. unfold do_sframeSize. ss. sim_done. Qed.

Lemma zdrop4_pre_app (h : list byte) sz p : 4 <= sz -> zdrop 4 (pre h sz ++ p) = zdrop 4 (pre h sz) ++ p.
Proof.
  intro H. unfold zdrop. rewrite skipn_app. f_equal.
  pose proof (pre_length h sz ltac:(lia)) as L. unfold zlen in L.
  replace (Z.to_nat 4 - length (pre h sz))%nat with 0%nat by lia. reflexivity.
Qed.

Lemma bis_storeSFrameSize l1 l2 :
  leq l1 l2 -> d_stage (l_s l1) = StoreSFrameSize -> 0 <= d_tmpInTarget (l_s l1) - d_tmpInSize (l_s l1) ->
  sim (do_storeSFrameSize l1) (do_storeSFrameSize l2).
Proof.
  intros L Hst Hn. dd2 l1 l2. bis_open L Hst.
  unfold do_storeSFrameSize, hdr_write. ss.
  set (n := Z.min (ttg2 - tsz2) (zlen src2)) in *.
  pose proof (zlen_nonneg src2). assert (Hn0 : 0 <= n <= zlen src2) by (unfold n; lia).
  assert (Hpl : zlen (ztake n src2) = n) by (rewrite zlen_ztake; lia).
  rewrite !wr_pre.
  assert (HX : zdrop 4 (pre hdr1 tsz2 ++ ztake n src2) = zdrop 4 (pre hdr2 tsz2 ++ ztake n src2)).
  { rewrite !zdrop4_pre_app by lia. congruence. }
  destruct (tsz2 + n <? ttg2).
  - sim_done; try lia.
    rewrite <- !wr_pre. rewrite !pre_wr by (auto; lia). rewrite !wr_pre. exact HX.
  - rewrite HX. apply bis_sframeSize; [unfold geq; ss; auto 12|reflexivity].
Qed.

Lemma bis_getSFrameSize l1 l2 :
  leq l1 l2 -> d_stage (l_s l1) = GetSFrameSize -> sim (do_getSFrameSize l1) (do_getSFrameSize l2).
Proof.
  intros L Hst. pose proof (leq_geq _ _ L) as G. dd2 l1 l2. bis_open L Hst.
  unfold do_getSFrameSize. ss. destruct (4 <=? zlen src2).
  - apply bis_sframeSize; [unfold geq; ss; auto 12|reflexivity].
  - (* the four magic bytes are not re-read: header[0..4) is dead *)
    unfold do_storeSFrameSize, hdr_write. ss.
    set (n := Z.min (8 - 4) (zlen src2)) in *.
    pose proof (zlen_nonneg src2). assert (Hn0 : 0 <= n <= zlen src2) by (unfold n; lia).
    assert (Hpl : zlen (ztake n src2) = n) by (rewrite zlen_ztake; lia).
    rewrite !wr_pre.
    assert (HX : zdrop 4 (pre hdr1 4 ++ ztake n src2) = zdrop 4 (pre hdr2 4 ++ ztake n src2)).
    { rewrite !zdrop4_pre_app by lia.
      assert (Z4 : forall h, zdrop 4 (pre h 4) = []).
      { intro h. unfold zdrop. apply skipn_all2. pose proof (pre_length h 4 ltac:(lia)) as X. unfold zlen in X. lia. }
      rewrite !Z4. reflexivity. }
    destruct (4 + n <? 8).
    + sim_done; try lia.
      rewrite <- !wr_pre. rewrite !pre_wr by (auto; lia). rewrite !wr_pre. exact HX.
    + rewrite HX. apply bis_sframeSize; [unfold geq; ss; auto 12|reflexivity].
Qed.

(* ---- suffix ---- *)
Lemma bis_checkSuffix l1 l2 sel :
  geq l1 l2 -> (d_skip (l_s l1) = false -> d_xxh (l_s l1) = d_xxh (l_s l2)) ->
  sim (do_checkSuffix l1 sel) (do_checkSuffix l2 sel).
Proof.
  intros G X. dd2 l1 l2. g_open G. ss. unfold do_checkSuffix. ss.
  destruct skip2; cbn [negb andb]; [sim_done|]. rewrite (X eq_refl).
  destruct (negb (rd32 sel =? xxh32 0 xxh2)); sim_done.
Qed.

Lemma bis_storeSuffix l1 l2 :
  leq l1 l2 -> d_stage (l_s l1) = StoreSuffix -> sim (do_storeSuffix l1) (do_storeSuffix l2).
Proof.
  intros L Hst. dd2 l1 l2. bis_open L Hst.
  unfold do_storeSuffix, tmpin_write. ss. rewrite !wr_pre.
  match goal with H : pre tin1 _ = pre tin2 _ |- _ => rewrite H end.
  destruct (tsz2 + Z.min (4 - tsz2) (zlen src2) <? 4) eqn:E.
  - sim_done.
  - apply bis_checkSuffix; [unfold geq; ss; auto 12|]. ss. auto.
Qed.

Lemma bis_getSuffix l1 l2 :
  leq l1 l2 -> d_stage (l_s l1) = GetSuffix -> sim (do_getSuffix l1) (do_getSuffix l2).
Proof.
  intros L Hst. dd2 l1 l2. bis_open L Hst.
  unfold do_getSuffix. ss.
  destruct (negb (rem2 =? 0)); [sim_done|].
  destruct (fi_ccFlag fi2 =? 0) eqn:Ecc; [sim_done|].
  destruct (zlen src2 <? 4).
  - apply bis_storeSuffix; ss; auto.
    unfold leq, live_eq; ss. repeat split; auto.
  - apply bis_checkSuffix; [unfold geq; ss; auto 12|]. ss. auto.
Qed.

(* ---- block checksum of an uncompressed block ---- *)
Lemma bis_bcc l1 l2 crc :
  geq l1 l2 -> d_fi (l_s l1) = d_fi (l_s l2) -> d_maxBlock (l_s l1) = d_maxBlock (l_s l2) ->
  ((fi_ccFlag (d_fi (l_s l1)) =? 0) = false -> d_xxh (l_s l1) = d_xxh (l_s l2)) ->
  (d_skip (l_s l1) = false -> d_bxxh (l_s l1) = d_bxxh (l_s l2)) ->
  sim (do_blockChecksum_check l1 crc) (do_blockChecksum_check l2 crc).
Proof.
  intros G F M X B. dd2 l1 l2. g_open G. ss. subst. unfold do_blockChecksum_check. ss.
  destruct skip2; cbn [negb andb]; [sim_done|]. rewrite (B eq_refl).
  destruct (negb (rd32 crc =? xxh32 0 bxxh2)); sim_done.
Qed.

Lemma bis_getBlockChecksum l1 l2 :
  leq l1 l2 -> d_stage (l_s l1) = GetBlockChecksum -> sim (do_getBlockChecksum l1) (do_getBlockChecksum l2).
Proof.
  intros L Hst. dd2 l1 l2. bis_open L Hst.
  unfold do_getBlockChecksum, hdr_write. ss.
  destruct ((4 <=? zlen src2) && (tsz2 =? 0)).
  - apply bis_bcc; ss; auto. unfold geq; ss; auto 12.
  - rewrite !wr_pre.
    match goal with H : pre hdr1 _ = pre hdr2 _ |- _ => rewrite H end.
    destruct (tsz2 + Z.min (4 - tsz2) (zlen src2) <? 4).
    + sim_done.
    + apply bis_bcc; ss; auto. unfold geq; ss; auto 12.
Qed.

(* ---- bookkeeping updates respect the relation ---- *)
Definition blk_eq (s1 s2 : dstate) : Prop :=   (* what the block stages need besides the always-live fields *)
  d_fi s1 = d_fi s2 /\ d_maxBlock s1 = d_maxBlock s2 /\
  ((fi_ccFlag (d_fi s1) =? 0) = false -> d_xxh s1 = d_xxh s2).

Section BisBlocks.
Variable bdec : list byte -> list byte -> option (list byte).

Lemma bis_flushOut o l1 l2 :
  leq l1 l2 -> d_stage (l_s l1) = FlushOut -> sim (do_flushOut o l1) (do_flushOut o l2).
Proof.
  intros L Hst. dd2 l1 l2. bis_open L Hst.
  unfold do_flushOut, upd_link, linked. ss.
  destruct (o_dstnull o); ss.
  - destruct (tstart2 =? zlen tout2); sim_done.
  - destruct (fi_blockMode fi2 =? FD_blockLinked); ss;
      destruct (tstart2 + Z.min (zlen tout2 - tstart2) dcap2 =? zlen tout2); sim_done.
Qed.

Lemma bis_cblock o l1 l2 sel :
  geq l1 l2 -> blk_eq (l_s l1) (l_s l2) -> d_tmpInTarget (l_s l1) = d_tmpInTarget (l_s l2) ->
  sim (do_cblock bdec o l1 sel) (do_cblock bdec o l2 sel).
Proof.
  intros G B T. dd2 l1 l2. g_open G. unfold blk_eq in B. ss. decomp. subst.
  unfold do_cblock. ss.
  destruct (fi_bcFlag fi2 =? 0); ss.
  - unfold linked; ss.
    destruct (bdec _ _) as [c|]; [|sim_done].
    destruct (zlen c <=? mb2); [|sim_done].
    unfold upd_decoded. ss.
    destruct (fi_ccFlag fi2 =? 0) eqn:Ecc; cbn [negb andb]; ss.
    + destruct (fi_contentSize fi2 =? 0); ss; (destruct (mb2 <=? dcap2); ss;
        [unfold upd_link, linked; ss; destruct (fi_blockMode fi2 =? FD_blockLinked); sim_done; rewrite Ecc; discriminate
        |apply bis_flushOut; ss; unfold leq, live_eq; ss; repeat split; auto; rewrite Ecc; discriminate]).
    + match goal with H : false = false -> xxh1 = xxh2 |- _ => rewrite (H eq_refl) in * end.
      destruct skip2; cbn [negb]; ss;
      destruct (fi_contentSize fi2 =? 0); ss; (destruct (mb2 <=? dcap2); ss;
        [unfold upd_link, linked; ss; destruct (fi_blockMode fi2 =? FD_blockLinked); sim_done
        |apply bis_flushOut; ss; unfold leq, live_eq; ss; repeat split; auto]).
  - destruct (negb (rd32 (zdrop (ttg2 - 4) sel) =? xxh32 0 (ztake (ttg2 - 4) sel))); [sim_done|].
    unfold linked; ss.
    destruct (bdec _ _) as [c|]; [|sim_done].
    destruct (zlen c <=? mb2); [|sim_done].
    unfold upd_decoded. ss.
    destruct (fi_ccFlag fi2 =? 0) eqn:Ecc; cbn [negb andb]; ss.
    + destruct (fi_contentSize fi2 =? 0); ss; (destruct (mb2 <=? dcap2); ss;
        [unfold upd_link, linked; ss; destruct (fi_blockMode fi2 =? FD_blockLinked); sim_done; rewrite Ecc; discriminate
        |apply bis_flushOut; ss; unfold leq, live_eq; ss; repeat split; auto; rewrite Ecc; discriminate]).
    + match goal with H : false = false -> xxh1 = xxh2 |- _ => rewrite (H eq_refl) in * end.
      destruct skip2; cbn [negb]; ss;
      destruct (fi_contentSize fi2 =? 0); ss; (destruct (mb2 <=? dcap2); ss;
        [unfold upd_link, linked; ss; destruct (fi_blockMode fi2 =? FD_blockLinked); sim_done
        |apply bis_flushOut; ss; unfold leq, live_eq; ss; repeat split; auto]).
Qed.

Lemma bis_getCBlock o l1 l2 :
  leq l1 l2 -> d_stage (l_s l1) = GetCBlock -> sim (do_getCBlock bdec o l1) (do_getCBlock bdec o l2).
Proof.
  intros L Hst. pose proof (leq_geq _ _ L) as G. dd2 l1 l2. bis_open L Hst.
  unfold do_getCBlock. ss. destruct (zlen src2 <? ttg2).
  - sim_done.
  - apply bis_cblock; ss; auto; try (unfold geq; ss; auto 12); try (unfold blk_eq; ss; auto).
Qed.

Lemma bis_storeCBlock o l1 l2 :
  leq l1 l2 -> d_stage (l_s l1) = StoreCBlock -> sim (do_storeCBlock bdec o l1) (do_storeCBlock bdec o l2).
Proof.
  intros L Hst. dd2 l1 l2. bis_open L Hst.
  unfold do_storeCBlock, tmpin_write, bcsize. ss. rewrite !wr_pre.
  match goal with H : pre tin1 _ = pre tin2 _ |- _ => rewrite H end.
  destruct (tsz2 + Z.min (ttg2 - tsz2) (zlen src2) <? ttg2).
  - sim_done.
  - apply bis_cblock; ss; auto; try (unfold geq; ss; auto 12); try (unfold blk_eq; ss; auto).
Qed.

Lemma bis_copyDirect o l1 l2 :
  leq l1 l2 -> d_stage (l_s l1) = CopyDirect -> sim (do_copyDirect o l1) (do_copyDirect o l2).
Proof.
  intros L Hst. dd2 l1 l2. bis_open L Hst.
  unfold do_copyDirect, bcsize. destruct (o_dstnull o); cbv iota beta; ss.
  - destruct (0 =? ttg2); [destruct (fi_bcFlag fi2 =? 0) eqn:Eb|]; sim_done;
      try (match goal with H : false = false -> bxxh1 = bxxh2 |- _ => exact (H eq_refl) end).
  - unfold upd_copy, upd_link, linked. ss.
    destruct skip2; ss.
    + destruct (fi_contentSize fi2 =? 0); ss; destruct (fi_blockMode fi2 =? FD_blockLinked); ss;
        (destruct (Z.min ttg2 (Z.min (zlen src2) dcap2) =? ttg2); [destruct (fi_bcFlag fi2 =? 0) eqn:Eb|]; sim_done;
         try (match goal with H : false = false -> bxxh1 = bxxh2 |- _ => exact (H eq_refl) end)).
    + destruct (fi_bcFlag fi2 =? 0) eqn:Eb; destruct (fi_ccFlag fi2 =? 0) eqn:Ec; ss;
        destruct (fi_contentSize fi2 =? 0); ss; destruct (fi_blockMode fi2 =? FD_blockLinked); ss;
        rewrite ?Eb, ?Ec;
        (destruct (Z.min ttg2 (Z.min (zlen src2) dcap2) =? ttg2); ss; sim_done;
         try (intros; discriminate);
         repeat match goal with H : false = false -> _ = _ |- _ => rewrite (H eq_refl) end; auto).
Qed.

Lemma bis_blockHeader l1 l2 sel :
  geq l1 l2 -> blk_eq (l_s l1) (l_s l2) -> sim (do_blockHeader l1 sel) (do_blockHeader l2 sel).
Proof.
  intros G B. dd2 l1 l2. g_open G. unfold blk_eq in B. ss. decomp. subst.
  unfold do_blockHeader. ss.
  destruct (rd32 sel =? 0); [sim_done|].
  destruct (mb2 <? Z.land (rd32 sel) 2147483647); [sim_done|].
  destruct (negb (Z.land (rd32 sel) FD_BLOCKUNCOMPRESSED_FLAG =? 0)).
  - destruct (fi_bcFlag fi2 =? 0) eqn:Eb; ss; sim_done; try (intros; discriminate).
  - destruct ((dcap2 =? 0) || (zlen src2 =? 0)); sim_done.
Qed.

Lemma bis_storeBlockHeader l1 l2 :
  leq l1 l2 -> d_stage (l_s l1) = StoreBlockHeader -> sim (do_storeBlockHeader l1) (do_storeBlockHeader l2).
Proof.
  intros L Hst. dd2 l1 l2. bis_open L Hst.
  unfold do_storeBlockHeader, tmpin_write. ss. rewrite !wr_pre.
  match goal with H : pre tin1 _ = pre tin2 _ |- _ => rewrite H end.
  destruct (tsz2 + Z.min (FD_BHSize - tsz2) (zlen src2) <? FD_BHSize).
  - sim_done.
  - apply bis_blockHeader; ss; auto; try (unfold geq; ss; auto 12); try (unfold blk_eq; ss; auto).
Qed.

Lemma bis_getBlockHeader l1 l2 :
  geq l1 l2 -> blk_eq (l_s l1) (l_s l2) -> sim (do_getBlockHeader l1) (do_getBlockHeader l2).
Proof.
  intros G B. dd2 l1 l2. g_open G. unfold blk_eq in B. ss. decomp. subst.
  unfold do_getBlockHeader. ss. destruct (FD_BHSize <=? zlen src2).
  - apply bis_blockHeader; ss; auto; try (unfold geq; ss; auto 12); try (unfold blk_eq; ss; auto).
  - unfold do_storeBlockHeader, tmpin_write. ss. rewrite !wr_pre, !pre0. ss.
    destruct (0 + Z.min (FD_BHSize - 0) (zlen src2) <? FD_BHSize).
    + sim_done.
    + apply bis_blockHeader; ss; auto; try (unfold geq; ss; auto 12); try (unfold blk_eq; ss; auto).
Qed.
End BisBlocks.

(* ---- dstage_init ---- *)
Lemma bis_init l1 l2 :
  geq l1 l2 -> d_fi (l_s l1) = d_fi (l_s l2) -> d_maxBlock (l_s l1) = d_maxBlock (l_s l2) ->
  geq (with_s l1 (do_init (l_s l1))) (with_s l2 (do_init (l_s l2))) /\
  blk_eq (do_init (l_s l1)) (do_init (l_s l2)).
Proof.
  intros G F M. dd2 l1 l2. g_open G. ss. subst. unfold do_init, linked. ss.
  destruct (fi_ccFlag fi2 =? 0) eqn:Ecc; ss;
    destruct (mbuf1 <? mb2 + (if fi_blockMode fi2 =? FD_blockLinked then FD_128KB else 0));
    destruct (mbuf2 <? mb2 + (if fi_blockMode fi2 =? FD_blockLinked then FD_128KB else 0));
    unfold geq, blk_eq; ss; rewrite ?Ecc; repeat split; auto; try (intros; discriminate).
Qed.

(* ---- LZ4F_decodeHeader ---- *)
Definition glob_eq (s1 s2 : dstate) : Prop :=
  d_remaining s1 = d_remaining s2 /\ d_hist s1 = d_hist s2 /\ d_skip s1 = d_skip s2.

Lemma bis_decodeHeader s1 s2 b src s1' r1 s2' r2 :
  glob_eq s1 s2 -> (b = true -> d_header s1 = d_header s2) ->
  decodeHeader s1 b src = (s1', r1) -> decodeHeader s2 b src = (s2', r2) ->
  r1 = r2 /\ (0 <= r1 -> live_eq s1' s2').
Proof.
  intros G Hh H1 H2.
  destruct s1 as [fi1 st1 rem1 mb1 mbuf1 cap1 tin1 tsz1 ttg1 hist1 tout1 tstart1 xxh1 bxxh1 skip1 hdr1 oob1].
  destruct s2 as [fi2 st2 rem2 mb2 mbuf2 cap2 tin2 tsz2 ttg2 hist2 tout2 tstart2 xxh2 bxxh2 skip2 hdr2 oob2].
  unfold glob_eq in G. ss. decomp. subst.
  pose proof err_neg_all as (E1 & E2 & E3 & E4 & _).
  unfold decodeHeader in H1, H2. ss.
  destruct (zlen src <? FD_minFHSize) eqn:E7; [inversion H1; inversion H2; subst; split; [reflexivity|intro; exfalso; lia]|].
  apply Z.ltb_ge in E7. unfold FD_minFHSize in E7.
  destruct (Z.land (rd32 src) SKIP_MASK =? FD_MAGIC_SKIPPABLE_START).
  { destruct b; inversion H1; inversion H2; subst; (split; [reflexivity|]); intros _; unfold live_eq; ss; repeat split; auto;
      try lia; try (rewrite (Hh eq_refl); reflexivity). }
  destruct (negb (rd32 src =? FD_MAGICNUMBER)); [inversion H1; inversion H2; subst; split; [reflexivity|intro; exfalso; lia]|].
  destruct (nth_error src 4) as [FLG|]; [|inversion H1; inversion H2; subst; split; [reflexivity|intro; exfalso; lia]].
  destruct (nth_error src 5) as [BD|]; [|inversion H1; inversion H2; subst; split; [reflexivity|intro; exfalso; lia]].
  destruct (flg_decode FLG) as [e|[[[[bm bc] cs] cc] di]] eqn:EF.
  { inversion H1; inversion H2; subst. split; [reflexivity|]. pose proof (flg_decode_err _ _ EF). intro; exfalso; lia. }
  destruct (zlen src <? fh_size cs di).
  { destruct b; inversion H1; inversion H2; subst; (split; [reflexivity|]); intros _; unfold live_eq; ss; repeat split; auto;
      try lia; try (rewrite (Hh eq_refl); reflexivity). }
  destruct (bd_decode BD) as [e|id] eqn:EB.
  { inversion H1; inversion H2; subst. split; [reflexivity|]. pose proof (bd_decode_err _ _ EB). intro; exfalso; lia. }
  destruct (nth_error src (Z.to_nat (fh_size cs di - 1))); [|inversion H1; inversion H2; subst; split; [reflexivity|intro; exfalso; lia]].
  destruct (negb _); [inversion H1; inversion H2; subst; split; [reflexivity|intro; exfalso; lia]|].
  inversion H1; inversion H2; subst. split; [reflexivity|]. intros _.
  destruct (cs =? 0); unfold live_eq; ss; repeat split; auto.
Qed.

(* ---- frame header stages ---- *)
Lemma bis_storeFrameHeader l1 l2 :
  leq l1 l2 -> d_stage (l_s l1) = StoreFrameHeader -> sim (do_storeFrameHeader l1) (do_storeFrameHeader l2).
Proof.
  intros L Hst. dd2 l1 l2. bis_open L Hst.
  unfold do_storeFrameHeader, hdr_write. ss. rewrite !wr_pre.
  match goal with H : pre hdr1 _ = pre hdr2 _ |- _ => rewrite H end.
  set (n := Z.min (ttg2 - tsz2) (zlen src2)) in *.
  destruct (tsz2 + n <? ttg2).
  - sim_done.
  - match goal with |- sim (let '(_, _) := decodeHeader ?a true ?h in _) (let '(_, _) := decodeHeader ?b true ?h in _) =>
      destruct (decodeHeader a true h) as [s1' r1] eqn:D1; destruct (decodeHeader b true h) as [s2' r2] eqn:D2;
      destruct (bis_decodeHeader a b true h s1' r1 s2' r2) as [Er Hl]; [unfold glob_eq; ss; auto|intros _; reflexivity|exact D1|exact D2|] end.
    subst r2. destruct (r1 <? 0) eqn:E; unfold sim; ss; repeat (split; [reflexivity|]).
    + exact Hl.
    + apply Z.ltb_ge in E. exact (Hl E).
Qed.

Lemma bis_getFrameHeader l1 l2 :
  leq l1 l2 -> d_stage (l_s l1) = GetFrameHeader -> sim (do_getFrameHeader l1) (do_getFrameHeader l2).
Proof.
  intros L Hst. dd2 l1 l2. bis_open L Hst.
  unfold do_getFrameHeader. ss.
  destruct (FD_maxFHSize <=? zlen src2).
  - match goal with |- sim (let '(_, _) := decodeHeader ?a false ?h in _) (let '(_, _) := decodeHeader ?b false ?h in _) =>
      destruct (decodeHeader a false h) as [s1' r1] eqn:D1; destruct (decodeHeader b false h) as [s2' r2] eqn:D2;
      destruct (bis_decodeHeader a b false h s1' r1 s2' r2) as [Er Hl]; [unfold glob_eq; ss; auto|intros; discriminate|exact D1|exact D2|] end.
    subst r2. destruct (r1 <? 0) eqn:E; unfold sim; ss; repeat (split; [reflexivity|]).
    + exact Hl.
    + apply Z.ltb_ge in E. exact (Hl E).
  - destruct (zlen src2 =? 0); [sim_done|].
    apply bis_storeFrameHeader; ss; try reflexivity. unfold leq, live_eq; ss. repeat split; auto.
Qed.

(* ---- one iteration, the loop, one call ---- *)
Section BisCalls.
Variable bdec : list byte -> list byte -> option (list byte).

Lemma bis_iter o l1 l2 :
  leq l1 l2 -> wf (l_s l1) -> sim (iter bdec o l1) (iter bdec o l2).
Proof.
  intros L W. unfold iter.
  assert (Hst : d_stage (l_s l2) = d_stage (l_s l1)) by (symmetry; apply L).
  rewrite Hst. destruct (d_stage (l_s l1)) eqn:E.
  - apply bis_getFrameHeader; auto.
  - apply bis_storeFrameHeader; auto.
  - pose proof (leq_geq _ _ L) as G. destruct L as (_ & _ & _ & _ & L). unfold live_eq in L. rewrite E in L.
    destruct L as (_ & _ & _ & _ & F & M).
    destruct (bis_init l1 l2 G F M) as [G' B']. apply bis_getBlockHeader; ss; auto.
  - pose proof (leq_geq _ _ L) as G. destruct L as (_ & _ & _ & _ & L). unfold live_eq in L. rewrite E in L.
    destruct L as (_ & _ & _ & _ & F & M & X & _). apply bis_getBlockHeader; auto. unfold blk_eq; auto.
  - apply bis_storeBlockHeader; auto.
  - apply bis_copyDirect; auto.
  - apply bis_getBlockChecksum; auto.
  - apply bis_getCBlock; auto.
  - apply bis_storeCBlock; auto.
  - apply bis_flushOut; auto.
  - apply bis_getSuffix; auto.
  - apply bis_storeSuffix; auto.
  - apply bis_getSFrameSize; auto.
  - apply bis_storeSFrameSize; auto.
    destruct W as (_ & _ & W). unfold stage_inv in W. rewrite E in W. lia.
  - apply bis_skipSkippable; auto.
Qed.

(* what both runs end with *)
Definition fin_eq (r1 r2 : lst * fin) : Prop :=
  snd r1 = snd r2 /\ l_used (fst r1) = l_used (fst r2) /\ l_out (fst r1) = l_out (fst r2) /\
  match snd r1 with
  | FStop _ => live_eq (l_s (fst r1)) (l_s (fst r2))
  | FRet v => 0 <= v -> live_eq (l_s (fst r1)) (l_s (fst r2))
  | FFuel => True
  end.

Lemma bis_run o : forall fuel l1 l2,
  leq l1 l2 -> wf (l_s l1) -> wf (l_s l2) -> 0 <= l_cap l1 ->
  fin_eq (run bdec fuel o l1) (run bdec fuel o l2).
Proof.
  induction fuel as [|fuel IH]; intros l1 l2 L W1 W2 Hc.
  - unfold fin_eq. simpl. destruct L as (A & B & C & D & E). auto.
  - cbn [run].
    pose proof (bis_iter o l1 l2 L W1) as S.
    assert (Hc2 : 0 <= l_cap l2) by (destruct L as (_ & _ & _ & <- & _); exact Hc).
    pose proof (iter_post bdec o l1 W1 Hc) as P1. pose proof (iter_post bdec o l2 W2 Hc2) as P2.
    destruct (iter bdec o l1) as [l1' oc1]. destruct (iter bdec o l2) as [l2' oc2].
    unfold sim in S. cbn [fst snd] in *. destruct S as (S1 & S2 & S3 & S4 & S5 & S6). subst oc2.
    destruct oc1 as [|h|v].
    + destruct P1 as [A1 [W1' _]]. destruct P2 as [A2 [W2' _]].
      apply IH; auto. { unfold leq; auto. } unfold acct in A1. lia.
    + unfold fin_eq. cbn [fst snd]. auto.
    + unfold fin_eq. cbn [fst snd]. auto.
Qed.

(* LZ4F_decompress on two live-equal states: same report; live-equal states unless it failed *)
Theorem bis_decompress s1 s2 src cap o :
  live_eq s1 s2 -> wf s1 -> wf s2 -> 0 <= cap ->
  snd (decompress bdec s1 src cap o) = snd (decompress bdec s2 src cap o) /\
  (0 <= r_ret (snd (decompress bdec s1 src cap o)) ->
   live_eq (fst (decompress bdec s1 src cap o)) (fst (decompress bdec s2 src cap o))).
Proof.
  intros L W1 W2 Hc. unfold decompress.
  set (a := set_skip s1 (d_skip s1 || o_skip o)). set (b := set_skip s2 (d_skip s2 || o_skip o)).
  assert (Lab : live_eq a b).
  { unfold a, b. destruct s1, s2. unfold live_eq in *. ss. decomp. subst.
    repeat (split; [reflexivity|]). destruct d_stage0; ss; decomp; repeat split; auto. }
  assert (Wa : wf a) by (apply wf_set_skip; exact W1). assert (Wb : wf b) by (apply wf_set_skip; exact W2).
  pose proof (bis_run o (call_fuel src) (mkL a src 0 [] cap) (mkL b src 0 [] cap)) as R.
  assert (Ll : leq (mkL a src 0 [] cap) (mkL b src 0 [] cap)) by (unfold leq; ss; auto).
  specialize (R Ll Wa Wb Hc).
  pose proof (run_post bdec o (call_fuel src) (mkL a src 0 [] cap)) as RP.
  destruct (run bdec (call_fuel src) o (mkL a src 0 [] cap)) as [l1 f1].
  destruct (run bdec (call_fuel src) o (mkL b src 0 [] cap)) as [l2 f2].
  unfold fin_eq in R. cbn [fst snd] in R. destruct R as (R1 & R2 & R3 & R4). subst f2.
  specialize (RP l1 f1 Wa Hc eq_refl). destruct RP as (_ & _ & NF & RP).
  destruct f1 as [h|v|]; ss.
  - rewrite R2, R3. auto.
  - rewrite R3. split; [reflexivity|]. exact R4.
  - exfalso. apply NF; [|reflexivity]. unfold mu, call_fuel; ss.
    pose proof (rank_range (d_stage a)). pose proof (zlen_nonneg src). lia.
Qed.
End BisCalls.

(* ---- the other entry points ---- *)
Lemma live_eq_reset s1 s2 : live_eq (reset s1) (reset s2).
Proof. unfold live_eq. ss. repeat split. Qed.
Lemma live_eq_reset_init s : live_eq (reset s) dctx_init.
Proof. unfold live_eq. ss. repeat split. Qed.
Lemma live_eq_set_hist s1 s2 d : live_eq s1 s2 -> live_eq (set_hist s1 d) (set_hist s2 d).
Proof.
  destruct s1, s2. unfold live_eq. ss. intro H. decomp. subst.
  repeat (split; [reflexivity|]). destruct d_stage0; ss; decomp; repeat split; auto.
Qed.

(* a failing decodeHeader on at least minFHSize bytes leaves frameInfo zeroed *)
Lemma decodeHeader_err_fi s b src s' r :
  decodeHeader s b src = (s', r) -> FD_minFHSize <= zlen src -> r < 0 ->
  d_fi s' = fi_zero /\ d_stage s' = d_stage s /\ d_remaining s' = d_remaining s /\ d_hist s' = d_hist s /\ d_skip s' = d_skip s.
Proof.
  unfold decodeHeader. intros H H7 Hr. pose proof (zlen_nonneg src).
  replace (zlen src <? FD_minFHSize) with false in H by (symmetry; apply Z.ltb_ge; exact H7).
  destruct (Z.land (rd32 src) SKIP_MASK =? FD_MAGIC_SKIPPABLE_START); [destruct b; inversion H; subst; lia|].
  destruct (negb (rd32 src =? FD_MAGICNUMBER)); [inversion H; subst; ss; auto|].
  destruct (nth_error src 4); [|inversion H; subst; ss; auto].
  destruct (nth_error src 5); [|inversion H; subst; ss; auto].
  destruct (flg_decode _) as [e|[[[[bm bc] cs] cc] di]]; [inversion H; subst; ss; auto|].
  pose proof (fh_size_range cs di) as FR. unfold FD_minFHSize in FR.
  destruct (zlen src <? fh_size cs di); [destruct b; inversion H; subst; lia|].
  destruct (bd_decode _); [inversion H; subst; ss; auto|].
  destruct (nth_error src _); [|inversion H; subst; ss; auto].
  destruct (negb _); [inversion H; subst; ss; auto|].
  inversion H; subst. lia.
Qed.

Section BisApi.
Variable bdec : list byte -> list byte -> option (list byte).

Theorem bis_usingDict s1 s2 src cap dict o :
  live_eq s1 s2 -> wf s1 -> wf s2 -> 0 <= cap ->
  snd (decompress_usingDict bdec s1 src cap dict o) = snd (decompress_usingDict bdec s2 src cap dict o) /\
  (0 <= r_ret (snd (decompress_usingDict bdec s1 src cap dict o)) ->
   live_eq (fst (decompress_usingDict bdec s1 src cap dict o)) (fst (decompress_usingDict bdec s2 src cap dict o))).
Proof.
  intros L W1 W2 Hc. unfold decompress_usingDict.
  replace (d_stage s2) with (d_stage s1) by apply L.
  destruct (stage_num (d_stage s1) <=? FD_dstage_init).
  - apply bis_decompress; auto using live_eq_set_hist, wf_set_hist.
  - apply bis_decompress; auto.
Qed.

Theorem bis_getFrameInfo s1 s2 src :
  live_eq s1 s2 -> wf s1 -> wf s2 ->
  snd (getFrameInfo bdec s1 src) = snd (getFrameInfo bdec s2 src) /\
  (0 <= i_ret (snd (getFrameInfo bdec s1 src)) ->
   live_eq (fst (getFrameInfo bdec s1 src)) (fst (getFrameInfo bdec s2 src))).
Proof.
  intros L W1 W2. unfold getFrameInfo.
  assert (Hst : d_stage s2 = d_stage s1) by (symmetry; apply L). rewrite Hst.
  destruct (FD_dstage_storeFrameHeader <? stage_num (d_stage s1)) eqn:E1.
  { pose proof (bis_decompress bdec s1 s2 [] 0 (mkO false false true) L W1 W2 (Z.le_refl 0)) as [B1 B2].
    assert (Hfi : d_fi s1 = d_fi s2).
    { unfold live_eq in L. destruct (d_stage s1); try (vm_compute in E1; discriminate E1); decomp; auto. }
    destruct (decompress bdec s1 [] 0 (mkO false false true)) as [s1' r1].
    destruct (decompress bdec s2 [] 0 (mkO false false true)) as [s2' r2]. ss. subst r2. rewrite Hfi. auto. }
  destruct (stage_num (d_stage s1) =? FD_dstage_storeFrameHeader); [ss; split; [reflexivity|intro X; exfalso; revert X; vm_compute; auto]|].
  destruct (headerSize false src <? 0) eqn:EH; [ss; apply Z.ltb_lt in EH; split; [reflexivity|intro; exfalso; lia]|].
  apply Z.ltb_ge in EH.
  destruct (zlen src <? headerSize false src) eqn:EL; [ss; split; [reflexivity|intro X; exfalso; revert X; vm_compute; auto]|].
  apply Z.ltb_ge in EL.
  destruct (decodeHeader s1 false (ztake (headerSize false src) src)) as [s1' r1] eqn:D1.
  destruct (decodeHeader s2 false (ztake (headerSize false src) src)) as [s2' r2] eqn:D2.
  destruct (bis_decodeHeader s1 s2 false (ztake (headerSize false src) src) s1' r1 s2' r2) as [Er Hl]; [unfold glob_eq; unfold live_eq in L; tauto|intros; discriminate|exact D1|exact D2|].
  subst r2.
  (* a header has at least minFHSize bytes: headerSize >= 7 whenever it is not an error *)
  assert (H7 : FD_minFHSize <= zlen (ztake (headerSize false src) src)).
  { rewrite zlen_ztake by lia. revert EH. unfold headerSize. cbv iota.
    destruct (zlen src <? _); [vm_compute; intro X; exfalso; apply X; reflexivity|].
    destruct (_ =? FD_MAGIC_SKIPPABLE_START); [intros _; unfold FD_minFHSize; lia|].
    destruct (negb _); [vm_compute; intro X; exfalso; apply X; reflexivity|].
    destruct (nth_error src 4); [|vm_compute; intro X; exfalso; apply X; reflexivity].
    intros _. apply fh_size_range. }
  destruct (r1 <? 0) eqn:ER; ss.
  - apply Z.ltb_lt in ER.
    destruct (decodeHeader_err_fi _ _ _ _ _ D1 H7 ER) as (F1 & _). destruct (decodeHeader_err_fi _ _ _ _ _ D2 H7 ER) as (F2 & _).
    rewrite F1, F2. split; [reflexivity|]. intro; exfalso; lia.
  - apply Z.ltb_ge in ER. specialize (Hl ER).
    assert (Hfi : d_fi s1' = d_fi s2').
    { unfold live_eq in Hl.
      pose proof (decodeHeader_cases _ _ _ _ _ D1) as (_ & _ & _ & D).
      destruct D as [D|[D|[D|[D|D]]]].
      - lia.
      - destruct D as (D & _). discriminate D.
      - destruct D as (_ & _ & _ & Dst & _). rewrite Dst in Hl. tauto.
      - (* the header is complete by construction: the store branch is impossible *)
        exfalso. destruct D as (_ & _ & Dt & _ & _ & _ & Dm & FLG & bm & bc & cs & cc & di & N4 & EF & FS).
        rewrite zlen_ztake in Dt by lia.
        unfold FD_minFHSize in H7. rewrite zlen_ztake in H7 by lia.
        rewrite rd32_ztake in Dm by lia. rewrite nth_error_ztake in N4 by lia.
        pose proof (headerSize_fh src FLG bm bc cs cc di EH Dm N4 EF). lia.
      - destruct D as (_ & Dst & _). rewrite Dst in Hl. tauto. }
    rewrite Hfi. auto.
Qed.

(* ---- sequences of API calls ---- *)
Definition is_reset (c : dcall) : bool := match c with CReset => true | _ => false end.
Definition caps_ok (c : dcall) : bool := match c with CDec _ cap _ _ => 0 <=? cap | _ => true end.

(* the observations of an API-conforming call sequence (None: the sequence is not conforming -
   a negative capacity, or a call other than reset after a call that returned an error) *)
Fixpoint run_api (s : dstate) (failed : bool) (cs : list dcall) : option (list obs) :=
  match cs with
  | [] => Some []
  | c :: r =>
      if failed && negb (is_reset c) then None
      else if negb (caps_ok c) then None
      else let '(s', ob) := do_call bdec s c in
           match run_api s' (ob_ret ob <? 0) r with
           | Some l => Some (ob :: l)
           | None => None
           end
  end.

Lemma bis_do_call s1 s2 c :
  live_eq s1 s2 -> wf s1 -> wf s2 -> caps_ok c = true ->
  snd (do_call bdec s1 c) = snd (do_call bdec s2 c) /\
  (0 <= ob_ret (snd (do_call bdec s1 c)) ->
   live_eq (fst (do_call bdec s1 c)) (fst (do_call bdec s2 c))).
Proof.
  intros L W1 W2 Hc. destruct c as [src cap [d|] o|src|]; cbn [do_call caps_ok] in *.
  - apply Z.leb_le in Hc. pose proof (bis_usingDict s1 s2 src cap d o L W1 W2 Hc) as [B1 B2].
    destruct (decompress_usingDict bdec s1 src cap d o) as [a r1]. destruct (decompress_usingDict bdec s2 src cap d o) as [b r2].
    ss. cbn [ob_ret] in *. subst r2. auto.
  - apply Z.leb_le in Hc. pose proof (bis_decompress bdec s1 s2 src cap o L W1 W2 Hc) as [B1 B2].
    destruct (decompress bdec s1 src cap o) as [a r1]. destruct (decompress bdec s2 src cap o) as [b r2].
    ss. cbn [ob_ret] in *. subst r2. auto.
  - pose proof (bis_getFrameInfo s1 s2 src L W1 W2) as [B1 B2].
    destruct (getFrameInfo bdec s1 src) as [a r1]. destruct (getFrameInfo bdec s2 src) as [b r2].
    ss. cbn [ob_ret] in *. subst r2. auto.
  - ss. cbn [ob_ret]. split; [reflexivity|]. intros _. apply live_eq_reset.
Qed.

Lemma do_call_safe s c : wf s -> caps_ok c = true ->
  safe (fst (do_call bdec s c)) /\ (0 <= ob_ret (snd (do_call bdec s c)) -> wf (fst (do_call bdec s c))).
Proof.
  intros W Hc. destruct c as [src cap [d|] o|src|]; cbn [do_call caps_ok] in *.
  - apply Z.leb_le in Hc. pose proof (decompress_usingDict_ok bdec s src cap d o W Hc) as H.
    destruct (decompress_usingDict bdec s src cap d o) as [a r]. unfold call_ok in H. ss. cbn [ob_ret] in *.
    destruct H as (_ & H2 & _ & _ & _ & H6 & _). split; [exact H2|]. intro. destruct H6; [lia|auto].
  - apply Z.leb_le in Hc. pose proof (decompress_ok bdec s src cap o W Hc) as H.
    destruct (decompress bdec s src cap o) as [a r]. unfold call_ok in H. ss. cbn [ob_ret] in *.
    destruct H as (_ & H2 & _ & _ & _ & H6 & _). split; [exact H2|]. intro. destruct H6; [lia|auto].
  - pose proof (getFrameInfo_ok bdec s src W) as H.
    destruct (getFrameInfo bdec s src) as [a r]. ss. cbn [ob_ret] in *.
    destruct H as (_ & H2 & _ & H4). split; [exact H2|]. intro. destruct H4; [lia|auto].
  - ss. cbn [ob_ret]. assert (X : wf (reset s)) by (apply wf_reset; apply W). split; [split; apply X|auto].
Qed.

Lemma bis_run_api : forall cs s1 s2 failed,
  safe s1 -> safe s2 -> (failed = false -> live_eq s1 s2 /\ wf s1 /\ wf s2) ->
  run_api s1 failed cs = run_api s2 failed cs.
Proof.
  induction cs as [|c cs IH]; intros s1 s2 failed S1 S2 H; [reflexivity|]. cbn [run_api].
  destruct failed.
  - (* after a failure only LZ4F_resetDecompressionContext is legal: both sides are reset *)
    destruct c; cbn [is_reset negb andb caps_ok]; try reflexivity. cbn [do_call]. ss. cbn [ob_ret].
    replace (0 <? 0) with false by reflexivity.
    rewrite (IH (reset s1) (reset s2) false); [reflexivity| | |].
    + assert (X : wf (reset s1)) by (apply wf_reset; apply S1). split; apply X.
    + assert (X : wf (reset s2)) by (apply wf_reset; apply S2). split; apply X.
    + intros _. split; [apply live_eq_reset|]. split; apply wf_reset; try apply S1; apply S2.
  - cbn [andb]. destruct (H eq_refl) as (L & W1 & W2).
    destruct (caps_ok c) eqn:Hc; cbn [negb]; [|reflexivity].
    pose proof (bis_do_call s1 s2 c L W1 W2 Hc) as [B1 B2].
    pose proof (do_call_safe s1 c W1 Hc) as [Sa1 Wa1]. pose proof (do_call_safe s2 c W2 Hc) as [Sa2 Wa2].
    destruct (do_call bdec s1 c) as [a ob1]. destruct (do_call bdec s2 c) as [b ob2]. ss. subst ob2.
    rewrite (IH a b (ob_ret ob1 <? 0)); [reflexivity|exact Sa1|exact Sa2|].
    intro E. apply Z.ltb_ge in E. auto.
Qed.

(* The theorem: a context in ANY state an API-conforming caller can have reached - in the middle
   of a frame, after completed frames, after a call that failed - behaves after
   LZ4F_resetDecompressionContext like a freshly created context, on every further
   API-conforming sequence of calls: identical consumed counts, output bytes, return values
   (hints and error codes) and reported frame information. *)
Theorem reset_is_fresh : forall s failed cs,
  Reach bdec s failed -> run_api (reset s) false cs = run_api dctx_init false cs.
Proof.
  intros s failed cs R. destruct (reach_wf bdec s failed R) as [[S1 S2] _].
  apply bis_run_api.
  - assert (X : wf (reset s)) by (apply wf_reset; auto). split; apply X.
  - split; apply wf_init.
  - intros _. split; [apply live_eq_reset_init|]. split; [apply wf_reset; auto|apply wf_init].
Qed.

(* the same for the implicit reset at the end of a frame *)
Theorem frame_end_is_fresh : forall s src cap o cs,
  wf s -> 0 <= cap -> r_ret (snd (decompress bdec s src cap o)) = 0 ->
  run_api (fst (decompress bdec s src cap o)) false cs = run_api dctx_init false cs.
Proof.
  intros s src cap o cs W Hc H0.
  pose proof (decompress_ok bdec s src cap o W Hc) as K. unfold call_ok in K.
  destruct K as (_ & K2 & _ & _ & _ & K6 & _).
  destruct (frame_end_is_reset bdec s src cap o W Hc H0) as [s0 E]. rewrite E in *.
  apply bis_run_api.
  - exact K2.
  - split; apply wf_init.
  - intros _. split; [apply live_eq_reset_init|]. split; [destruct K6; [lia|auto]|apply wf_init].
Qed.
End BisApi.
