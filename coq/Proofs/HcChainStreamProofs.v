(* Invariants of the hash-chain streaming model (Model/HcChainStream.v, HC levels 3..9) and soundness of one call.

   [cs_ok c]: the lz4mid stream invariant [hs_ok] read on the same record ([k_h4] is the whole hashTable: every
   entry is an index below the index reached so far, lowLimit <= dictLimit, an anchored context has
   lowLimit >= 64 KB, ...) plus, unless the context is dirty, the chainTable invariant of Proofs.HcChainSearch
   (entries <= 65535) and 0 <= nextToUpdate: together they are [TB t endIdx], the hypothesis of
   HcChainParser.hc_compress_ok, for every call the API makes.  64 KB <= dictIdx, the other hypothesis, is
   [k_ready] (LZ4HC_init_internal starts every stream at >= 64 KB). *)
From Coq Require Import ZArith List Lia Bool ZifyBool FMapPositive.
From LZ4V Require Import Gen.Consts Spec.BlockSpec Model.Mem Model.Fast Model.FastApi Model.HcEmit Model.HcMid Model.HcMidStream.
From LZ4V Require Import Model.HcChain Model.HcChainApi Model.HcChainStream.
From LZ4V Require Import Proofs.BlockSpecProofs Proofs.FactorSpec Proofs.FastStreamMem Proofs.HcMidSound Proofs.HcMidCap Proofs.HcMidStreamProofs.
From LZ4V Require Proofs.HcChainSearch Proofs.HcChainSound Proofs.HcChainCap Proofs.HcChainParser.
Import ListNotations.
Local Open Scope Z_scope.

Notation ct_ok := HcChainSearch.ct_ok.
Notation TB := HcChainSearch.TB.

Definition kc_ok (k : hcore) (ct : ctab) : Prop := ct_ok ct /\ 0 <= k_ntu k.

Definition cs_ok (c : cctx) : Prop :=
  hs_ok (cs_hs c) /\
  (k_dirty (cs_core c) = false -> kc_ok (cs_core c) (cs_chain c)) /\
  match hs_dctx (cs_hs c) with Some d => kc_ok d (cs_dchain c) | None => True end.

Lemma ctget_empty d k : ctget (mkCT empty d) k = d.
Proof. unfold ctget, empty. cbn [ct_m ct_def]. rewrite PositiveMap.gempty. reflexivity. Qed.
Lemma ct0_ok : ct_ok ct0.
Proof. intros k. unfold ct0. rewrite ctget_empty. lia. Qed.
Lemma ctFF_ok : ct_ok ctFF.
Proof. intros k. unfold ctFF. rewrite ctget_empty. lia. Qed.

(* the levels of the model *)
Lemma chain_level_range l : chain_level l = true -> 3 <= clamp_level l <= 9 /\ chain_level (clamp_level l) = true.
Proof.
  unfold chain_level, cl_params, clamp_level, LZ4HC_CLEVEL_DEFAULT, LZ4HC_CLEVEL_MAX.
  destruct (l <? 1) eqn:E1.
  - intros _. cbn. split; [lia | reflexivity].
  - destruct (l >? 12) eqn:E2.
    + replace (Z.min 12 l) with 12 by lia. vm_compute. discriminate.
    + replace (Z.min 12 l) with l by lia.
      assert (Hl : l = 1 \/ l = 2 \/ l = 3 \/ l = 4 \/ l = 5 \/ l = 6 \/ l = 7 \/ l = 8 \/ l = 9 \/ l = 10 \/ l = 11 \/ l = 12) by lia.
      destruct Hl as [->|[->|[->|[->|[->|[->|[->|[->|[->|[->|[->| ->]]]]]]]]]]]; vm_compute; intros H;
        first [discriminate H | (split; [split; discriminate | reflexivity])].
Qed.

Lemma chain_not_mid l : 3 <= l <= 9 -> is_mid l = false.
Proof. intros H. unfold is_mid. lia. Qed.

(* ---------------------------------------------------------------- bookkeeping operations *)
Lemma cs_init_ok : cs_ok cs_init.
Proof.
  split; [exact hs_init_ok|]. split; [|exact I]. intros _. split; [exact ct0_ok|]. cbn. lia.
Qed.

Lemma cs_setLevel_ok c l : cs_ok c -> cs_ok (cs_setLevel c l).
Proof. intros (H1 & H2 & H3). split; [apply hs_setLevel_ok; exact H1|]. split; [exact H2 | exact H3]. Qed.

Lemma cs_resetStream_ok l : cs_ok (cs_resetStream l).
Proof. apply cs_setLevel_ok. exact cs_init_ok. Qed.

Lemma cs_resetFast_ok c l :
  cs_ok c -> cs_ok (cs_resetFast c l) /\ k_dirty (cs_core (cs_resetFast c l)) = false /\ hs_dctx (cs_hs (cs_resetFast c l)) = None.
Proof.
  intros (H1 & H2 & H3). destruct (hs_resetFast_ok (cs_hs c) l H1) as (R1 & R2 & R3).
  unfold cs_ok, cs_resetFast, cs_core in *. cbn [cs_hs cs_chain cs_dchain].
  split; [|split; assumption]. split; [exact R1|]. rewrite R3. split; [|exact I]. intros _.
  unfold hs_resetFast. cbv zeta. destruct (k_dirty (hs_core (cs_hs c))) eqn:Ed.
  - split; [exact ct0_ok|]. cbn. lia.
  - destruct (H2 eq_refl) as (C1 & C2). split; [exact C1|]. cbn [hs_setLevel hs_core with_level k_ntu]. exact C2.
Qed.

(* LZ4HC_init_internal + LZ4HC_clearTables *)
Lemma kc_init_internal_ok k ct start :
  ct_ok ct -> ct_ok (snd (kc_init_internal k ct start)) /\ 0 <= k_ntu (fst (kc_init_internal k ct start)) /\
  fst (kc_init_internal k ct start) = k_init_internal k start.
Proof.
  intros Hc. unfold kc_init_internal. cbn [fst snd]. split; [destruct (_ >? GB1); [exact ctFF_ok | exact Hc]|].
  split; [|reflexivity]. unfold k_init_internal. destruct (_ >? GB1); cbn [k_ntu]; apply Z.mod_pos_bound; reflexivity.
Qed.

(* LZ4HC_Insert(ctx, p) for an address of the current prefix: only hashTable, chainTable and nextToUpdate change *)
Lemma kc_insert_ok m k ct p :
  k_ok k -> k_dirty k = false -> ct_ok ct -> 0 <= k_ntu k -> k_prefixStart k <= p <= k_end k ->
  let k' := fst (kc_insert m k ct p) in
  k_ok k' /\ ct_ok (snd (kc_insert m k ct p)) /\ 0 <= k_ntu k' /\
  k_end k' = k_end k /\ k_prefixStart k' = k_prefixStart k /\ k_dictStart k' = k_dictStart k /\ k_dictLimit k' = k_dictLimit k /\
  k_lowLimit k' = k_lowLimit k /\ k_level k' = k_level k /\ k_dirty k' = k_dirty k.
Proof.
  intros K Hd Hc Hn Hp. cbv zeta. pose proof K as (L & P & E & A & T).
  unfold kc_insert, insert, kc_tabs. cbn [t_hash t_chain t_ntu].
  remember (k_dictLimit k + (p - k_prefixStart k)) as ip eqn:Eip.
  unfold k_endIdx, EMAX in *.
  assert (Ei : idx_of (k_dictLimit k) ip = ip).
  { unfold idx_of. replace (ip - k_dictLimit k) with (p - k_prefixStart k) by lia.
    rewrite (u32s (p - k_prefixStart k)) by lia. rewrite u32s by lia. lia. }
  rewrite Ei.
  destruct (T Hd) as (T4 & T8).
  pose proof (HcChainSearch.insert_loop_inv (k_vrd m k) (Z.to_nat (ip - k_ntu k)) (k_ntu k) ip (k_h4 k) ct
                (Z.max 1 (k_dictLimit k + (k_end k - k_prefixStart k))) T4 Hc Hn ltac:(rewrite M32_v; lia) ltac:(lia)) as (I1 & I2).
  destruct (insert_loop (k_vrd m k) (Z.to_nat (ip - k_ntu k)) (k_ntu k) ip (k_h4 k) ct) as [ht ct'] eqn:El.
  cbn [fst snd] in *. unfold kc_with. cbn [t_hash t_chain t_ntu fst snd k_end k_prefixStart k_dictStart k_dictLimit k_lowLimit k_level k_dirty k_ntu].
  split.
  { unfold k_ok, k_endIdx, tabs_below, EMAX. cbn [k_lowLimit k_dictLimit k_prefixStart k_end k_dirty k_h4 k_h8].
    split; [exact L|]. split; [exact P|]. split; [exact E|]. split; [exact A|]. intros _. split; [exact I1 | exact T8]. }
  split; [exact I2|]. split; [lia|]. repeat split; reflexivity.
Qed.

(* ---------------------------------------------------------------- LZ4_loadDictHC *)
Lemma cs_loadDict_ok m c a n c' r :
  0 <= n -> 0 <= a -> cs_loadDict m c a n = Some (c', r) ->
  cs_ok c' /\ d_ok (cs_core c') /\ kc_ok (cs_core c') (cs_chain c') /\ hs_dctx (cs_hs c') = None /\ r = Z.min n K64 /\
  k_prefixStart (cs_core c') = a + n - r /\ k_end (cs_core c') = a + n /\
  k_dictLimit (cs_core c') = K64 /\ k_lowLimit (cs_core c') = K64 /\ k_dirty (cs_core c') = false /\
  chain_level (k_level (cs_core c')) = true.
Proof.
  intros Hn Ha. unfold cs_loadDict.
  remember (if n >? K64 then (a + (n - K64), K64) else (a, n)) as dd eqn:Edd.
  assert (Hdd : fst dd = a + n - Z.min n K64 /\ snd dd = Z.min n K64 /\ 0 <= snd dd <= K64).
  { rewrite Edd. unfold K64. destruct (n >? 65536) eqn:E; cbn [fst snd]; lia. }
  clear Edd. destruct dd as [da ds]. cbn [fst snd] in Hdd. destruct Hdd as (D1 & D2 & D3).
  destruct (chain_level (k_level (cs_core c))) eqn:Em; [|discriminate].
  destruct (chain_level_range _ Em) as (Rl & Rc).
  pose proof (k_init_internal_ok (with_level k_init (k_level (cs_core c))) da (with_level_ok _ _ k_init_ok) ltac:(lia)) as I0.
  cbv zeta in I0. destruct I0 as (I1 & I2 & I3 & I4 & I5 & I6 & I7 & I8 & I9).
  assert (Hk0 : k_dictLimit (k_init_internal (with_level k_init (k_level (cs_core c))) da) = K64 /\
                k_ntu (k_init_internal (with_level k_init (k_level (cs_core c))) da) = K64 /\
                k_h4 (k_init_internal (with_level k_init (k_level (cs_core c))) da) = empty /\
                k_h8 (k_init_internal (with_level k_init (k_level (cs_core c))) da) = empty).
  { unfold k_init_internal, with_level, k_init, k_zero, GB1, K64. cbn. repeat split; reflexivity. }
  remember (k_init_internal (with_level k_init (k_level (cs_core c))) da) as k0 eqn:Ek0.
  destruct Hk0 as (Hdl & Hntu & Hh4 & Hh8).
  assert (Hd0 : k_dirty k0 = false) by (rewrite I8; reflexivity).
  remember (mkK (k_h4 k0) (k_h8 k0) (da + ds) (k_prefixStart k0) (k_dictStart k0) (k_dictLimit k0) (k_lowLimit k0) (k_ntu k0) (k_level k0) (k_dirty k0)) as k1 eqn:Ek1.
  assert (K1 : k_ok k1 /\ k_dirty k1 = false /\ k_ntu k1 = K64 /\ k_prefixStart k1 = da /\ k_end k1 = da + ds /\
               k_dictLimit k1 = K64 /\ k_lowLimit k1 = K64 /\ k_level k1 = clamp_level (k_level (cs_core c))).
  { rewrite Ek1. cbn [k_dirty k_ntu k_prefixStart k_end k_dictLimit k_lowLimit k_level].
    split; [|repeat split; try congruence; try lia; rewrite I9; reflexivity].
    unfold k_ok, k_endIdx, tabs_below, EMAX. cbn [k_lowLimit k_dictLimit k_prefixStart k_end k_dirty k_h4 k_h8].
    rewrite Hh4, Hh8. unfold K64 in *. split; [lia|]. split; [lia|]. split; [lia|]. split; [intros; lia|].
    intros _. split; apply tab_lt_empty; lia. }
  destruct K1 as (K1 & K1d & K1n & K1p & K1e & K1l & K1w & K1v).
  assert (Fin : forall k2 ct2,
            k_ok k2 -> ct_ok ct2 -> 0 <= k_ntu k2 -> k_end k2 = k_end k1 -> k_prefixStart k2 = k_prefixStart k1 ->
            k_dictLimit k2 = k_dictLimit k1 -> k_lowLimit k2 = k_lowLimit k1 -> k_level k2 = k_level k1 -> k_dirty k2 = k_dirty k1 ->
            Some (mkCS (mkHS k2 None) ct2 ct0, ds) = Some (c', r) ->
            cs_ok c' /\ d_ok (cs_core c') /\ kc_ok (cs_core c') (cs_chain c') /\ hs_dctx (cs_hs c') = None /\ r = Z.min n K64 /\
            k_prefixStart (cs_core c') = a + n - r /\ k_end (cs_core c') = a + n /\
            k_dictLimit (cs_core c') = K64 /\ k_lowLimit (cs_core c') = K64 /\ k_dirty (cs_core c') = false /\
            chain_level (k_level (cs_core c')) = true).
  { intros k2 ct2 K2 C2 N2 F1 F2 F3 F4 F5 F6 Heq. injection Heq as <- <-. unfold cs_core. cbn [cs_hs cs_chain cs_dchain hs_core hs_dctx].
    assert (KC : kc_ok k2 ct2) by (split; assumption).
    split; [split; [split; [exact K2 | exact I]|]; cbn [cs_hs hs_dctx hs_core]; split; [intros _; exact KC | exact I]|].
    split.
    { unfold d_ok. split; [exact K2|]. split; [congruence|]. unfold GB2, K64, k_endIdx in *. split; [lia|]. split; [lia|].
      rewrite F5, K1v, (chain_not_mid _ Rl). discriminate. }
    split; [exact KC|]. split; [reflexivity|]. unfold K64 in *.
    split; [lia|]. split; [lia|]. split; [lia|]. split; [lia|]. split; [lia|]. split; [congruence|].
    rewrite F5, K1v. exact Rc. }
  destruct (ds >=? LZ4HC_HASHSIZE) eqn:E4.
  - unfold LZ4HC_HASHSIZE in E4.
    pose proof (kc_insert_ok m k1 ct0 (k_end k1 - 3) K1 K1d ct0_ok ltac:(unfold K64 in *; lia) ltac:(lia)) as Q. cbv zeta in Q.
    destruct (kc_insert m k1 ct0 (k_end k1 - 3)) as [k2 ct2]. cbn [fst snd] in Q.
    destruct Q as (Q1 & Q2 & Q3 & Q4 & Q5 & Q6 & Q7 & Q8 & Q9 & Q10).
    apply (Fin k2 ct2); assumption.
  - apply (Fin k1 ct0); try reflexivity; [exact K1 | exact ct0_ok | unfold K64 in *; lia].
Qed.

(* ---------------------------------------------------------------- LZ4HC_setExternalDict with its LZ4HC_Insert *)
Lemma kc_setExternalDict_ok m k ct nb :
  k_ok k -> k_dirty k = false -> ct_ok ct -> 0 <= k_ntu k -> K64 <= k_dictLimit k -> 0 <= nb ->
  let k' := fst (kc_setExternalDict m k ct nb) in
  k_ok k' /\ ct_ok (snd (kc_setExternalDict m k ct nb)) /\ 0 <= k_ntu k' /\
  K64 <= k_dictLimit k' /\ k_endIdx k' = k_endIdx k /\ k_dictLimit k' = k_endIdx k /\ k_lowLimit k' = k_dictLimit k /\
  k_dictStart k' = k_prefixStart k /\ k_prefixStart k' = nb /\ k_end k' = nb /\ k_dirty k' = k_dirty k /\ k_level k' = k_level k.
Proof.
  intros K Hd Hc Hn Ha Hnb. cbv zeta. unfold kc_setExternalDict.
  assert (Fin : forall k1 ct1, k_ok k1 -> ct_ok ct1 ->
            k_end k1 = k_end k -> k_prefixStart k1 = k_prefixStart k -> k_dictLimit k1 = k_dictLimit k -> k_lowLimit k1 = k_lowLimit k ->
            k_level k1 = k_level k -> k_dirty k1 = k_dirty k ->
            let k' := k_setExternalDict k1 nb in
            k_ok k' /\ ct_ok ct1 /\ 0 <= k_ntu k' /\
            K64 <= k_dictLimit k' /\ k_endIdx k' = k_endIdx k /\ k_dictLimit k' = k_endIdx k /\ k_lowLimit k' = k_dictLimit k /\
            k_dictStart k' = k_prefixStart k /\ k_prefixStart k' = nb /\ k_end k' = nb /\ k_dirty k' = k_dirty k /\ k_level k' = k_level k).
  { intros k1 ct1 K1 C1 F1 F2 F3 F4 F5 F6. cbv zeta.
    pose proof (k_setExternalDict_ok k1 nb K1 ltac:(lia) Hnb) as S0. cbv zeta in S0.
    destruct S0 as (S1 & S2 & S3 & S4 & S5 & S6 & S7 & S8 & S9 & S10 & _).
    assert (Ee : k_endIdx k1 = k_endIdx k) by (unfold k_endIdx; lia).
    split; [exact S1|]. split; [exact C1|].
    split; [unfold k_setExternalDict; cbn [k_ntu]; apply Z.mod_pos_bound; reflexivity|].
    split; [exact S2|]. split; [lia|]. split; [lia|]. split; [lia|]. split; [lia|]. split; [exact S7|]. split; [exact S8|].
    split; congruence. }
  destruct (k_end k >=? k_prefixStart k + 4) eqn:E4.
  - pose proof K as (_ & P & _).
    pose proof (kc_insert_ok m k ct (k_end k - 3) K Hd Hc Hn ltac:(lia)) as Q. cbv zeta in Q.
    destruct (kc_insert m k ct (k_end k - 3)) as [k1 ct1]. cbn [fst snd] in *.
    destruct Q as (Q1 & Q2 & Q3 & Q4 & Q5 & Q6 & Q7 & Q8 & Q9 & Q10).
    apply (Fin k1 ct1); assumption.
  - cbn [fst snd]. apply (Fin k ct); try reflexivity; assumption.
Qed.

(* ---------------------------------------------------------------- the prelude of LZ4_compressHC_continue_generic *)
Definition cpre_inv (c : cctx) : Prop :=
  cs_ok c /\ k_dirty (cs_core c) = false /\ chain_level (k_level (cs_core c)) = true.

Lemma cs_trim_pre4 c src n : cs_trim c src n = pre4 c src n.
Proof. reflexivity. Qed.

(* the overlap trimming touches dictStart and lowLimit only *)
Lemma cs_trim_ok c src n : hs_ok c -> k_ready (hs_core c) src -> 0 <= src -> 0 <= n ->
  hs_ok (cs_trim c src n) /\ k_ready (hs_core (cs_trim c src n)) src /\ hs_dctx (cs_trim c src n) = hs_dctx c /\
  k_h4 (hs_core (cs_trim c src n)) = k_h4 (hs_core c) /\ k_ntu (hs_core (cs_trim c src n)) = k_ntu (hs_core c) /\
  k_level (hs_core (cs_trim c src n)) = k_level (hs_core c) /\ k_dirty (hs_core (cs_trim c src n)) = k_dirty (hs_core c).
Proof.
  intros (K & D) (_ & R2 & R3 & R4 & R5) Hs Hn. unfold cs_trim. cbv zeta.
  pose proof K as (L & P & E & A & T). unfold k_endIdx, EMAX in E.
  remember (hs_core c) as k eqn:Ek.
  assert (U0 : u32 (k_dictLimit k - k_lowLimit k) = k_dictLimit k - k_lowLimit k) by (apply u32s; lia).
  rewrite U0.
  destruct ((src + n >? k_dictStart k) && (src <? k_dictStart k + (k_dictLimit k - k_lowLimit k))) eqn:Ec.
  - remember (if src + n >? k_dictStart k + (k_dictLimit k - k_lowLimit k) then k_dictStart k + (k_dictLimit k - k_lowLimit k) else src + n) as se eqn:Ese.
    assert (Hse : k_dictStart k <= se <= k_dictStart k + (k_dictLimit k - k_lowLimit k)).
    { rewrite Ese. destruct (src + n >? k_dictStart k + (k_dictLimit k - k_lowLimit k)) eqn:E1; lia. }
    assert (U1 : u32 (se - k_dictStart k) = se - k_dictStart k) by (apply u32s; lia). rewrite U1.
    assert (U2 : u32 (k_lowLimit k + (se - k_dictStart k)) = k_lowLimit k + (se - k_dictStart k)) by (apply u32s; lia). rewrite U2.
    assert (U3 : u32 (k_dictLimit k - (k_lowLimit k + (se - k_dictStart k))) = k_dictLimit k - (k_lowLimit k + (se - k_dictStart k))) by (apply u32s; lia).
    rewrite U3.
    destruct (k_dictLimit k - (k_lowLimit k + (se - k_dictStart k)) <? LZ4HC_HASHSIZE) eqn:E4; cbn [hs_core hs_dctx k_h4 k_ntu k_level k_dirty].
    + pose proof (k_ok_lowdict k (k_dictLimit k) (k_prefixStart k) K ltac:(lia)) as K'.
      split; [split; [exact K' | exact D]|].
      split; [|repeat split; reflexivity]. unfold k_ready, k_endIdx in *. cbn [k_dirty k_dictLimit k_lowLimit k_end k_prefixStart].
      split; [exact K'|]. split; [exact R2|]. split; [lia|]. split; [exact R4 | exact R5].
    + pose proof (k_ok_lowdict k (k_lowLimit k + (se - k_dictStart k)) (k_dictStart k + (se - k_dictStart k)) K ltac:(lia)) as K'.
      split; [split; [exact K' | exact D]|].
      split; [|repeat split; reflexivity]. unfold k_ready, k_endIdx in *. cbn [k_dirty k_dictLimit k_lowLimit k_end k_prefixStart].
      split; [exact K'|]. split; [exact R2|]. split; [lia|]. split; [exact R4 | exact R5].
  - subst k. split; [exact (conj K D)|]. split; [|repeat split; reflexivity].
    unfold k_ready. split; [exact K|]. split; [exact R2|]. split; [exact R3|]. split; [exact R4 | exact R5].
Qed.

Lemma cs_pre1_ok c src : cpre_inv c -> 0 <= src ->
  cpre_inv (cs_pre1 c src) /\ K64 <= k_lowLimit (cs_core (cs_pre1 c src)) /\ hs_dctx (cs_hs (cs_pre1 c src)) = hs_dctx (cs_hs c).
Proof.
  unfold cpre_inv, cs_ok, cs_core. intros (((K & D) & C & Dc) & Hd & Hl) Hs. unfold cs_pre1, cs_core.
  destruct (k_prefixStart (hs_core (cs_hs c)) =? 0) eqn:E.
  - destruct (C Hd) as (C1 & C2).
    pose proof (kc_init_internal_ok (hs_core (cs_hs c)) (cs_chain c) src C1) as (J1 & J2 & J3).
    destruct (kc_init_internal (hs_core (cs_hs c)) (cs_chain c) src) as [k ct]. cbn [fst snd] in *. subst k.
    pose proof (k_init_internal_ok (hs_core (cs_hs c)) src K Hs) as I0. cbv zeta in I0.
    destruct I0 as (I1 & I2 & _ & _ & I5 & _ & _ & I8 & I9). cbn [cs_hs cs_chain cs_dchain hs_core hs_dctx].
    split; [|split; [lia | reflexivity]].
    split; [|cbn [cs_hs hs_core]; split; [congruence | rewrite I9; exact Hl]].
    split; [split; [exact I1 | exact D]|]. cbn [cs_hs cs_chain cs_dchain hs_core hs_dctx].
    split; [intros _; split; [exact J1 | exact J2] | exact Dc].
  - split; [exact (conj (conj (conj K D) (conj C Dc)) (conj Hd Hl))|]. split; [|reflexivity].
    destruct K as (L & _ & _ & A & _). specialize (A ltac:(lia)). lia.
Qed.

Lemma cs_pre2_ok m c c2 : cpre_inv c -> K64 <= k_lowLimit (cs_core c) -> cs_pre2 m c = Some c2 ->
  cpre_inv c2 /\ K64 <= k_lowLimit (cs_core c2) /\ k_endIdx (cs_core c2) <= GB2 /\
  (hs_dctx (cs_hs c2) = hs_dctx (cs_hs c) \/ hs_dctx (cs_hs c2) = None).
Proof.
  unfold cpre_inv, cs_ok, cs_core. intros (((K & D) & C & Dc) & Hd & Hl) Ha. unfold cs_pre2, cs_core. cbv zeta.
  pose proof K as (L & P & E & A & T).
  destruct (k_end (hs_core (cs_hs c)) - k_prefixStart (hs_core (cs_hs c)) + k_dictLimit (hs_core (cs_hs c)) >? GB2) eqn:Eg.
  - remember (k_end (hs_core (cs_hs c)) - k_prefixStart (hs_core (cs_hs c))) as pl eqn:Epl.
    remember (if pl >? K64 then K64 else pl) as ds eqn:Eds.
    assert (Hds : 0 <= ds <= pl) by (rewrite Eds; unfold K64; destruct (pl >? 65536) eqn:E1; unfold cs_core in *; lia).
    destruct (cs_loadDict m c (k_end (hs_core (cs_hs c)) - ds) ds) as [[c' r]|] eqn:El; [|discriminate].
    intros Heq. injection Heq as <-.
    pose proof (cs_loadDict_ok m c (k_end (hs_core (cs_hs c)) - ds) ds c' r ltac:(lia) ltac:(lia) El) as LD. unfold cs_core in LD.
    destruct LD as (L1 & (L2a & L2b & L2c & L2d & _) & _ & L3 & _ & _ & _ & L7 & L8 & L9 & L10).
    split; [split; [exact L1|]; split; assumption|]. split; [lia|]. split; [exact L2d|]. right. exact L3.
  - intros Heq. injection Heq as <-.
    split; [exact (conj (conj (conj K D) (conj C Dc)) (conj Hd Hl))|]. split; [exact Ha|]. split; [unfold k_endIdx, cs_core in *; lia|]. left. reflexivity.
Qed.

Lemma cs_pre3_ok m c src : cpre_inv c -> K64 <= k_lowLimit (cs_core c) -> k_endIdx (cs_core c) <= GB2 -> 0 <= src ->
  cpre_inv (cs_pre3 m c src) /\ k_ready (cs_core (cs_pre3 m c src)) src /\
  (hs_dctx (cs_hs (cs_pre3 m c src)) = hs_dctx (cs_hs c) \/ hs_dctx (cs_hs (cs_pre3 m c src)) = None).
Proof.
  unfold cpre_inv, cs_ok, cs_core. intros (((K & D) & C & Dc) & Hd & Hl) Ha He Hs. unfold cs_pre3, cs_core. destruct (src =? k_end (hs_core (cs_hs c))) eqn:E; cbn [negb].
  - split; [exact (conj (conj (conj K D) (conj C Dc)) (conj Hd Hl))|]. split; [|left; reflexivity].
    unfold k_ready. split; [exact K|]. split; [exact Hd|]. split; [exact Ha|]. split; [exact He|]. lia.
  - destruct (C Hd) as (C1 & C2).
    pose proof (kc_setExternalDict_ok m (hs_core (cs_hs c)) (cs_chain c) src K Hd C1 C2 ltac:(destruct K as (L & _); lia) Hs) as S0. cbv zeta in S0.
    destruct (kc_setExternalDict m (hs_core (cs_hs c)) (cs_chain c) src) as [k ct]. cbn [fst snd] in S0.
    destruct S0 as (S1 & S2 & S3 & S4 & S5 & S6 & S7 & S8 & S9 & S10 & S11 & S12).
    unfold cs_core. cbn [cs_hs cs_chain cs_dchain hs_core hs_dctx].
    split; [|split; [|right; reflexivity]].
    + split; [|cbn [cs_hs hs_core]; split; [congruence | rewrite S12; exact Hl]].
      split; [split; [exact S1 | exact I]|]. cbn [cs_hs cs_chain cs_dchain hs_core hs_dctx]. split; [intros _; split; assumption | exact I].
    + unfold k_ready. split; [exact S1|]. split; [congruence|]. split; [destruct K as (L & _); unfold cs_core in *; lia|]. split; [lia | exact S10].
Qed.

Lemma cs_prelude_ok m c src n c1 :
  cpre_inv c -> 0 < src -> 0 <= n -> cs_prelude m c src n = Some c1 ->
  cpre_inv c1 /\ k_ready (cs_core c1) src /\ (hs_dctx (cs_hs c1) = hs_dctx (cs_hs c) \/ hs_dctx (cs_hs c1) = None).
Proof.
  intros P Hs Hn. unfold cs_prelude.
  destruct (cs_pre1_ok c src P ltac:(lia)) as (P1 & A1 & D1).
  destruct (cs_pre2 m (cs_pre1 c src)) as [c2|] eqn:E2; [|discriminate].
  destruct (cs_pre2_ok m (cs_pre1 c src) c2 P1 A1 E2) as (P2 & A2 & G2 & D2).
  destruct (cs_pre3_ok m c2 src P2 A2 G2 ltac:(lia)) as (P3 & R3 & D3).
  remember (cs_pre3 m c2 src) as c3 eqn:E3.
  destruct P3 as (((K3 & Dd3) & C3 & Dc3) & Hd3 & Hl3).
  destruct (cs_trim_ok (cs_hs c3) src n (conj K3 Dd3) R3 ltac:(lia) Hn) as (T1 & T2 & T3 & T4 & T5 & T6 & T7).
  intros Heq. injection Heq as <-. unfold cpre_inv, cs_ok, cs_core in *. cbn [cs_hs cs_chain cs_dchain].
  split; [|split; [exact T2|]].
  - split; [|split; [rewrite T7; exact Hd3 | rewrite T6; exact Hl3]].
    split; [exact T1|]. cbn [cs_hs cs_chain cs_dchain]. unfold kc_ok in *. rewrite T3, T5, T7. split; [exact C3 | exact Dc3].
  - rewrite T3. destruct D3 as [D3|D3]; [|right; exact D3]. rewrite D3.
    destruct D2 as [D2|D2]; [|right; exact D2]. rewrite D2, D1. left. reflexivity.
Qed.

(* ---------------------------------------------------------------- LZ4HC_compress_generic: dictCtx bookkeeping *)
(* the context (with its chainTable) the parser finally runs on; None: LZ4HC_searchExtDict would be used (not modelled) *)
Definition cs_pick (m : mem) (c1 : cctx) (src n : Z) : option (hcore * ctab) :=
  let k := cs_core c1 in
  match hs_dctx (cs_hs c1) with
  | None => Some (k, cs_chain c1)
  | Some d =>
    let position := (k_end k - k_prefixStart k) + u32 (k_dictLimit k - k_lowLimit k) in
    if position >=? K64 then Some (k, cs_chain c1)
    else if (position =? 0) && (n >? 4096) && (Bool.eqb (is_mid (k_level k)) (is_mid (k_level d))) then
      let '(k', ct') := kc_setExternalDict m d (cs_dchain c1) src in
      Some (mkK (k_h4 k') (k_h8 k') (k_end k') (k_prefixStart k') (k_dictStart k') (k_dictLimit k') (k_lowLimit k') (k_ntu k')
                (k_level k) (k_dirty k'), ct')
    else None
  end.

Lemma cs_generic_eq m c1 src n cap lim :
  cs_generic m c1 src n cap lim =
  match cs_pick m c1 src n with Some (ke, cte) => kc_generic m ke cte src n cap lim | None => None end.
Proof.
  unfold cs_generic, cs_pick. cbv zeta. destruct (hs_dctx (cs_hs c1)) as [d|]; [|reflexivity].
  destruct (_ >=? K64); [reflexivity|]. destruct (_ && _ && _); [|reflexivity].
  destruct (kc_setExternalDict m d (cs_dchain c1) src) as [k' ct']. reflexivity.
Qed.

Lemma cs_pick_ok m c1 src n ke cte :
  cpre_inv c1 -> k_ready (cs_core c1) src -> 0 <= src -> cs_pick m c1 src n = Some (ke, cte) ->
  k_ready ke src /\ kc_ok ke cte.
Proof.
  unfold cpre_inv, cs_ok, cs_core. intros (((K & D) & C & Dc) & Hd & Hl) R Hs. unfold cs_pick, cs_core. cbv zeta.
  destruct (hs_dctx (cs_hs c1)) as [d|].
  - destruct (_ >=? K64); [intros H; injection H as <- <-; exact (conj R (C Hd))|].
    destruct (_ && _ && _); [|discriminate].
    destruct D as (Dk & Dd & Da & De & _). destruct Dc as (Dc1 & Dc2).
    pose proof (kc_setExternalDict_ok m d (cs_dchain c1) src Dk Dd Dc1 Dc2 Da Hs) as S0. cbv zeta in S0.
    destruct (kc_setExternalDict m d (cs_dchain c1) src) as [k' ct']. cbn [fst snd] in S0.
    destruct S0 as (S1 & S2 & S3 & S4 & S5 & S6 & S7 & S8 & S9 & S10 & S11 & S12).
    intros H. injection H as <- <-. split; [|split; [exact S2 | exact S3]].
    apply (relevel_ready k' (k_level (hs_core (cs_hs c1))) src).
    split; [exact S1|]. split; [congruence|]. split; [lia|]. split; [lia | exact S10].
  - intros H. injection H as <- <-. exact (conj R (C Hd)).
Qed.

(* ---------------------------------------------------------------- one call of the parser *)
(* the statement about one call of LZ4HC_compress_generic_internal on the context [ke] *)
Definition ccall_post (m : mem) (ke : hcore) (src n cap : Z) (lim : outdir) (ret consumed : Z) (out : list Z) (hw : Z) (c' : cctx) : Prop :=
  cs_ok c' /\ hs_dctx (cs_hs c') = None /\ k_level (cs_core c') = k_level ke /\
  hw <= hwlim lim n cap /\
  (lim = NotLimited -> n <= LZ4_MAX_INPUT_SIZE -> 0 < ret) /\
  (ret <= 0 -> k_dirty (cs_core c') = true \/ cs_core c' = ke) /\
  (0 < ret ->
   k_dirty (cs_core c') = false /\
   ret = Z.of_nat (length out) /\ ret <= hw /\ 0 <= consumed <= n /\ (lim <> FillOutput -> consumed = n) /\
   spec_decode (seg (k_vrd m ke) (k_lowLimit ke) (k_endIdx ke)) out = Some (load_list m src (Z.to_nat consumed)) /\
   (lim <> FillOutput ->
    strict_valid (seg (k_vrd m ke) (k_lowLimit ke) (k_endIdx ke)) out = Some (load_list m src (Z.to_nat consumed))) /\
   after_call ke (cs_core c') src n consumed lim).

Theorem kc_generic_sound m ke cte src n cap lim ret consumed out hw c' :
  hmem_ok m -> k_ready ke src -> kc_ok ke cte -> 0 <= src -> 0 <= n < 2147483648 -> 0 <= cap ->
  kc_generic m ke cte src n cap lim = Some (CRes ret consumed out hw c') ->
  ccall_post m ke src n cap lim ret consumed out hw c'.
Proof.
  intros Hm (K & Hd & Ha & He & Hend) (Hct & Hntu) Hs Hn Hcap. unfold kc_generic, ccall_post.
  pose proof K as (L & P & E & A & T).
  assert (Hw0 : 0 <= hwlim lim n cap).
  { unfold hwlim. destruct lim; try lia. assert (0 <= n / 255) by (apply Z.div_pos; lia). lia. }
  assert (Kself : cs_ok (mkCS (mkHS ke None) cte ct0)).
  { unfold cs_ok, cs_core. cbn [cs_hs cs_chain cs_dchain hs_core hs_dctx]. split; [split; [exact K | exact I]|]. split; [intros _; split; assumption | exact I]. }
  destruct (match lim with FillOutput => cap <? 1 | _ => false end) eqn:E1.
  { intros H. injection H as <- <- <- <- <-. unfold cs_core. cbn [cs_hs hs_core hs_dctx].
    split; [exact Kself|]. split; [reflexivity|]. split; [reflexivity|]. split; [exact Hw0|].
    split; [intros ->; discriminate|]. split; [intros _; right; reflexivity | intros; lia]. }
  destruct (u32 n >? LZ4_MAX_INPUT_SIZE) eqn:E2.
  { intros H. injection H as <- <- <- <- <-. unfold cs_core. cbn [cs_hs hs_core hs_dctx].
    split; [exact Kself|]. split; [reflexivity|]. split; [reflexivity|]. split; [exact Hw0|].
    split; [intros _ Hmax; unfold LZ4_MAX_INPUT_SIZE in *; rewrite u32s in E2 by lia; lia|].
    split; [intros _; right; reflexivity | intros; lia]. }
  assert (Hmax : n <= LZ4_MAX_INPUT_SIZE).
  { unfold LZ4_MAX_INPUT_SIZE in *. rewrite u32s in E2 by lia. lia. }
  cbv zeta.
  remember (k_dictLimit ke + (k_end ke - k_prefixStart ke)) as s0 eqn:Es0.
  assert (Es : s0 = k_endIdx ke) by (rewrite Es0; reflexivity).
  remember (snd (cl_params (k_level ke))) as nb eqn:Enb.
  unfold GB2, K64, EMAX, LZ4_MAX_INPUT_SIZE in *.
  assert (Hidx : 65536 <= k_lowLimit ke /\ k_lowLimit ke <= k_dictLimit ke /\ k_dictLimit ke <= s0 /\ s0 + n < M32 - 65536).
  { rewrite M32_v. unfold k_endIdx in *. lia. }
  assert (HT : TB (kc_tabs ke cte) s0).
  { destruct (T Hd) as (T4 & _). replace (Z.max 1 (k_endIdx ke)) with s0 in * by (unfold k_endIdx in *; lia).
    unfold HcChainSearch.TB, kc_tabs. cbn [t_hash t_chain t_ntu]. split; [exact T4|]. split; assumption. }
  assert (Hfill : lim = FillOutput -> 1 <= cap) by (intros ->; lia).
  pose proof (HcChainParser.hc_compress_ok (k_vrd m ke) lim (k_dictLimit ke) (k_lowLimit ke) s0 n cap nb (k_vrd_byte m ke Hm) Hidx (proj1 Hn) Hcap Hfill
                (kc_tabs ke cte) HT) as (RS & RC).
  destruct (hc_compress (k_vrd m ke) (k_dictLimit ke) (k_lowLimit ke) lim s0 n cap nb (kc_tabs ke cte))
    as [t hw'|ret' consumed' out' t hw'|] eqn:Em; [| |destruct RC].
  - (* the parser failed: dirty *)
    intros H. injection H as <- <- <- <- <-. cbn [HcChainCap.RCap] in RC. destruct RC as (RC1 & RC2). unfold cs_core. cbn [cs_hs hs_core hs_dctx].
    split.
    { unfold cs_ok, cs_core. cbn [cs_hs cs_chain cs_dchain hs_core hs_dctx k_dirty]. split; [|split; [intros; discriminate | exact I]].
      split; [|exact I]. unfold k_ok, k_endIdx, tabs_below, EMAX. cbn [k_lowLimit k_dictLimit k_prefixStart k_end k_dirty k_h4 k_h8].
      unfold k_endIdx in *. cbn [hs_core k_lowLimit k_dictLimit k_prefixStart k_end k_dirty k_h4 k_h8]. split; [lia|]. split; [lia|]. split; [lia|]. split; [exact A | intros; discriminate]. }
    split; [reflexivity|]. split; [reflexivity|]. split; [exact RC1|].
    split; [intros ->; exfalso; apply RC2; reflexivity|]. split; [intros _; left; reflexivity | intros; lia].
  - cbn [HcChainSound.RSpec] in RS. cbn [HcChainCap.RCap] in RC. destruct RC as (RC1 & RC2).
    destruct RS as (R1 & R2 & R3 & R4 & R5 & RT & RB). unfold hc_iend in RT.
    destruct RT as (RT1 & RT2 & RT3).
    replace (ret' <=? 0) with false by lia.
    assert (Hseg : seg (k_vrd m ke) s0 (s0 + consumed') = load_list m src (Z.to_nat consumed')).
    { rewrite (seg_as_load _ m _ _ src) by first [lia | (intros i Hi; rewrite Es; apply k_vrd_src; [exact Hend | lia | lia])]. f_equal. lia. }
    rewrite Hseg in R3, R4. rewrite Es in R3, R4.
    remember (mkK (t_hash t) (k_h8 ke) (k_end ke + n) (k_prefixStart ke) (k_dictStart ke) (k_dictLimit ke) (k_lowLimit ke) (t_ntu t) (k_level ke) (k_dirty ke)) as k1 eqn:Ek1.
    assert (Kfull : k_ok k1).
    { rewrite Ek1. unfold k_ok, k_endIdx, tabs_below, EMAX. cbn [k_lowLimit k_dictLimit k_prefixStart k_end k_dirty k_h4 k_h8].
      unfold k_endIdx in *. split; [lia|]. split; [lia|]. split; [lia|]. split; [exact A|].
      intros _. replace (Z.max 1 (k_dictLimit ke + (k_end ke + n - k_prefixStart ke))) with (s0 + n) by lia.
      split; [exact RT1|]. destruct (T Hd) as (_ & T8). eapply tab_lt_mono; [exact T8 | lia]. }
    assert (Common : forall c'', cs_ok c'' -> hs_dctx (cs_hs c'') = None -> k_level (cs_core c'') = k_level ke -> k_dirty (cs_core c'') = false ->
               after_call ke (cs_core c'') src n consumed' lim ->
               cs_ok c'' /\ hs_dctx (cs_hs c'') = None /\ k_level (cs_core c'') = k_level ke /\ hw' <= hwlim lim n cap /\
               (lim = NotLimited -> n <= 2113929216 -> 0 < ret') /\
               (ret' <= 0 -> k_dirty (cs_core c'') = true \/ cs_core c'' = ke) /\
               (0 < ret' ->
                k_dirty (cs_core c'') = false /\ ret' = Z.of_nat (length out') /\ ret' <= hw' /\ 0 <= consumed' <= n /\
                (lim <> FillOutput -> consumed' = n) /\
                spec_decode (seg (k_vrd m ke) (k_lowLimit ke) (k_endIdx ke)) out' = Some (load_list m src (Z.to_nat consumed')) /\
                (lim <> FillOutput -> strict_valid (seg (k_vrd m ke) (k_lowLimit ke) (k_endIdx ke)) out' = Some (load_list m src (Z.to_nat consumed'))) /\
                after_call ke (cs_core c'') src n consumed' lim)).
    { intros c'' C1 C2 C3 C4 C5. split; [exact C1|]. split; [exact C2|]. split; [exact C3|]. split; [exact RC1|].
      split; [intros; lia|]. split; [intros; lia|]. intros _.
      split; [exact C4|]. split; [exact R5|]. split; [lia|]. split; [exact R1|]. split; [exact R2|]. split; [exact R3|]. split; [exact R4 | exact C5]. }
    assert (Full : after_call ke k1 src n n lim).
    { right. rewrite Ek1. cbn [k_prefixStart k_end k_dictStart k_dictLimit k_lowLimit]. repeat split; try reflexivity. lia. }
    assert (Ok1 : cs_ok (mkCS (mkHS k1 None) (t_chain t) ct0)).
    { unfold cs_ok, cs_core. cbn [cs_hs cs_chain cs_dchain hs_core hs_dctx]. split; [split; [exact Kfull | exact I]|].
      split; [|exact I]. intros _. split; [exact RT2|]. rewrite Ek1. cbn [k_ntu]. exact RT3. }
    assert (Hd1 : k_dirty k1 = false) by (rewrite Ek1; exact Hd).
    assert (Hl1 : k_level k1 = k_level ke) by (rewrite Ek1; reflexivity).
    destruct lim.
    + intros H. injection H as <- <- <- <- <-. rewrite (R2 ltac:(discriminate)) in *.
      apply Common; [exact Ok1 | reflexivity | exact Hl1 | exact Hd1 | exact Full].
    + intros H. injection H as <- <- <- <- <-. rewrite (R2 ltac:(discriminate)) in *.
      apply Common; [exact Ok1 | reflexivity | exact Hl1 | exact Hd1 | exact Full].
    + destruct ((0 <? ret') && (consumed' <? n)) eqn:Ep.
      * pose proof (kc_init_internal_ok k1 (t_chain t) (src + consumed') RT2) as (J1 & J2 & J3).
        destruct (kc_init_internal k1 (t_chain t) (src + consumed')) as [k2 ct2]. cbn [fst snd] in J1, J2, J3. subst k2.
        intros H. injection H as <- <- <- <- <-.
        pose proof (k_init_internal_ok k1 (src + consumed') Kfull ltac:(lia)) as I0.
        cbv zeta in I0. destruct I0 as (I1 & I2 & I3 & I4 & I5 & I6 & I7 & I8 & I9).
        apply Common; unfold cs_core; cbn [cs_hs cs_chain cs_dchain hs_core hs_dctx];
          [ | reflexivity | rewrite I9; exact Hl1 | rewrite I8; exact Hd1 | ].
        { unfold cs_ok, cs_core. cbn [cs_hs cs_chain cs_dchain hs_core hs_dctx]. split; [split; [exact I1 | exact I]|].
          split; [intros _; split; assumption | exact I]. }
        left. split; [reflexivity|]. split; [lia|]. split; [exact I6|]. split; [exact I7 | exact I5].
      * intros H. injection H as <- <- <- <- <-.
        assert (consumed' = n) by lia. subst consumed'.
        apply Common; [exact Ok1 | reflexivity | exact Hl1 | exact Hd1 | exact Full].
Qed.

(* ---------------------------------------------------------------- LZ4_compress_HC_continue(_destSize) *)
Definition cs_effective (m : mem) (c : cctx) (src n : Z) : option (hcore * ctab) :=
  match cs_prelude m c src n with Some c1 => cs_pick m c1 src n | None => None end.

Lemma cs_continue_generic_eq m c src n cap lim :
  cs_continue_generic m c src n cap lim =
  if chain_level (k_level (cs_core c)) then
    match cs_effective m c src n with Some (ke, cte) => kc_generic m ke cte src n cap lim | None => None end
  else None.
Proof.
  unfold cs_continue_generic, cs_effective. destruct (chain_level (k_level (cs_core c))); [|reflexivity].
  destruct (cs_prelude m c src n) as [c1|]; [apply cs_generic_eq | reflexivity].
Qed.

Lemma cs_effective_ready m c src n ke cte :
  cs_ok c -> k_dirty (cs_core c) = false -> chain_level (k_level (cs_core c)) = true -> 0 < src -> 0 <= n ->
  cs_effective m c src n = Some (ke, cte) -> k_ready ke src /\ kc_ok ke cte.
Proof.
  intros K Hd Hl Hs Hn. unfold cs_effective.
  destruct (cs_prelude m c src n) as [c1|] eqn:E; [|discriminate].
  destruct (cs_prelude_ok m c src n c1 (conj K (conj Hd Hl)) Hs Hn E) as (P1 & R1 & _).
  intros Hp. apply (cs_pick_ok m c1 src n ke cte P1 R1 ltac:(lia) Hp).
Qed.

Theorem cs_continue_generic_sound m c src n cap lim ret consumed out hw c' :
  hmem_ok m -> cs_ok c -> k_dirty (cs_core c) = false -> 0 < src -> 0 <= n < 2147483648 -> 0 <= cap ->
  cs_continue_generic m c src n cap lim = Some (CRes ret consumed out hw c') ->
  exists ke cte, cs_effective m c src n = Some (ke, cte) /\ k_ready ke src /\ kc_ok ke cte /\ chain_level (k_level (cs_core c)) = true /\
                 ccall_post m ke src n cap lim ret consumed out hw c'.
Proof.
  intros Hm K Hd Hs Hn Hcap. rewrite cs_continue_generic_eq.
  destruct (chain_level (k_level (cs_core c))) eqn:Hl; [|discriminate].
  destruct (cs_effective m c src n) as [[ke cte]|] eqn:Ee; [|discriminate].
  intros Hg. exists ke, cte. split; [reflexivity|].
  pose proof (cs_effective_ready m c src n ke cte K Hd Hl Hs ltac:(lia) Ee) as (R & Rc).
  split; [exact R|]. split; [exact Rc|]. split; [reflexivity|].
  apply (kc_generic_sound m ke cte src n cap lim ret consumed out hw c' Hm R Rc ltac:(lia) Hn Hcap Hg).
Qed.

(* LZ4_compress_HC_extStateHC_fastReset on a stream in any state: the parser runs on a freshly anchored context *)
Theorem cs_fastReset_sound m c src n cap level ret consumed out hw c' :
  hmem_ok m -> cs_ok c -> 0 < src -> 0 <= n < 2147483648 -> 0 <= cap ->
  cs_fastReset m c src n cap level = Some (CRes ret consumed out hw c') ->
  let lim := if cap <? compressBound n then LimitedOutput else NotLimited in
  let ke := k_init_internal (cs_core (cs_resetFast c level)) src in
  k_ready ke src /\ k_lowLimit ke = k_dictLimit ke /\ k_endIdx ke = k_dictLimit ke /\
  ccall_post m ke src n cap lim ret consumed out hw c'.
Proof.
  intros Hm K Hs Hn Hcap. unfold cs_fastReset. cbv zeta.
  destruct (cs_resetFast_ok c level K) as (K1 & D1 & X1).
  destruct (chain_level (k_level (cs_core (cs_resetFast c level)))) eqn:Hl; [|discriminate].
  destruct K1 as ((K1 & _) & C1 & _). destruct (C1 D1) as (C1a & C1b).
  pose proof (kc_init_internal_ok (cs_core (cs_resetFast c level)) (cs_chain (cs_resetFast c level)) src C1a) as (J1 & J2 & J3).
  destruct (kc_init_internal (cs_core (cs_resetFast c level)) (cs_chain (cs_resetFast c level)) src) as [k ct]. cbn [fst snd] in J1, J2, J3. subst k.
  rewrite cs_generic_eq. unfold cs_pick, cs_core. cbn [cs_hs cs_chain hs_dctx hs_core]. rewrite X1. cbv zeta.
  pose proof (k_init_internal_ok (hs_core (cs_hs (cs_resetFast c level))) src K1 ltac:(lia)) as I0. cbv zeta in I0.
  destruct I0 as (I1 & I2 & I3 & I4 & I5 & I6 & I7 & I8 & I9).
  assert (R : k_ready (k_init_internal (hs_core (cs_hs (cs_resetFast c level))) src) src).
  { unfold k_ready. split; [exact I1|]. split; [unfold cs_core in D1; congruence|]. split; [lia|]. split; [unfold GB1, GB2, K64 in *; lia | exact I7]. }
  intros Hg. split; [exact R|]. split; [exact I5|]. split; [exact I4|].
  apply (kc_generic_sound m _ ct src n cap _ ret consumed out hw c' Hm R (conj J1 J2) ltac:(lia) Hn Hcap Hg).
Qed.

(* ---------------------------------------------------------------- LZ4_attach_HC_dictionary, LZ4_saveDictHC *)
Lemma cs_attach_ok c d :
  cs_ok c -> (match d with Some ds => d_ok (cs_core ds) /\ kc_ok (cs_core ds) (cs_chain ds) | None => True end) -> cs_ok (cs_attach c d).
Proof.
  intros ((K & _) & C & _) P. unfold cs_attach. destruct d as [ds|]; unfold cs_ok, cs_core in *; cbn [cs_hs cs_chain cs_dchain hs_core hs_dctx].
  - destruct P as (P1 & P2). split; [split; [exact K | exact P1]|]. split; [exact C | exact P2].
  - split; [split; [exact K | exact I]|]. split; [exact C | exact I].
Qed.

Lemma hs_saveDict_ntu m c a n : 0 <= k_ntu (hs_core c) -> 0 <= k_ntu (hs_core (snd (fst (hs_saveDict m c a n)))).
Proof.
  intros H. unfold hs_saveDict. cbv zeta. destruct (k_prefixStart (hs_core c) =? 0); cbn [fst snd]; [exact H|].
  cbn [hs_core k_ntu].
  match goal with |- 0 <= (if k_ntu (hs_core c) <? ?d then ?d else _) => assert (0 <= d) by (apply Z.mod_pos_bound; reflexivity); destruct (k_ntu (hs_core c) <? d); lia end.
Qed.

Lemma cs_saveDict_ok m c a n :
  hmem_ok m -> cs_ok c -> 0 < a ->
  hmem_ok (fst (fst (cs_saveDict m c a n))) /\ cs_ok (snd (fst (cs_saveDict m c a n))).
Proof.
  intros Hm (K & C & Dc) Ha. unfold cs_saveDict.
  pose proof (hs_saveDict_ok m (cs_hs c) a n Hm K Ha) as S. cbv zeta in S.
  pose proof (hs_saveDict_ntu m (cs_hs c) a n) as N.
  destruct (hs_saveDict m (cs_hs c) a n) as [[m' h'] r]. cbn [fst snd] in *.
  destruct S as (S1 & S2 & S3 & S4 & S5 & _).
  split; [exact S1|]. unfold cs_ok, cs_core in *. cbn [cs_hs cs_chain cs_dchain].
  split; [exact S2|]. split.
  - rewrite S3. intros Hd. destruct (C Hd) as (C1 & C2). split; [exact C1 | exact (N C2)].
  - destruct S5 as [S5|S5]; rewrite S5; [destruct (hs_dctx (cs_hs c)); [exact Dc | exact I] | exact I].
Qed.

(* ================================================================ every operation, any history *)
Definition cop_pre (st : mem * cctx) (o : cop) : Prop :=
  match o with
  | CWrite a bs => list_ok bs
  | CLoadDict a n => 0 <= n /\ 0 <= a
  | CAttach (Some d) => d_ok (cs_core d) /\ kc_ok (cs_core d) (cs_chain d)
  | CContinue src n cap | CContinueDestSize src n cap =>
    k_dirty (cs_core (snd st)) = false /\ 0 < src /\ 0 <= n < 2147483648 /\ 0 <= cap
  | CSaveDict a n => 0 < a
  | CFastReset src n cap l | CExtState src n cap l => 0 < src /\ 0 <= n < 2147483648 /\ 0 <= cap
  | _ => True
  end.

Definition cstate_inv (st : mem * cctx) : Prop := hmem_ok (fst st) /\ cs_ok (snd st).

Lemma of_cres_inv m r st' x : of_cres m r = Some (st', x) -> exists ret consumed out hw c', r = Some (CRes ret consumed out hw c') /\ st' = (m, c') /\ x = (ret, out, consumed).
Proof.
  unfold of_cres. destruct r as [[ret consumed out hw c']|]; [|discriminate].
  intros H. injection H as <- <-. exists ret, consumed, out, hw, c'. repeat split; reflexivity.
Qed.

Lemma cstep_inv st o st' x : cstate_inv st -> cop_pre st o -> cstep st o = Some (st', x) -> cstate_inv st'.
Proof.
  destruct st as [m c]. intros (Hm & K) P. unfold cstate_inv in *. cbn [fst snd] in *.
  destruct o; cbn [cstep cop_pre snd] in *.
  - intros H. injection H as <- <-. cbn [fst snd]. split; [intros y; apply store_list_ok; assumption | exact K].
  - intros H. injection H as <- <-. split; [exact Hm | exact cs_init_ok].
  - intros H. injection H as <- <-. split; [exact Hm | apply cs_resetStream_ok].
  - intros H. injection H as <- <-. split; [exact Hm | apply cs_resetFast_ok; exact K].
  - intros H. injection H as <- <-. split; [exact Hm | apply cs_setLevel_ok; exact K].
  - destruct (cs_loadDict m c a n) as [[c' r]|] eqn:E; [|discriminate]. intros H. injection H as <- <-.
    destruct P as (P1 & P2). split; [exact Hm | apply (cs_loadDict_ok m c a n c' r P1 P2 E)].
  - intros H. injection H as <- <-. split; [exact Hm | apply cs_attach_ok; [exact K | destruct d; [exact P | exact I]]].
  - intros H. apply of_cres_inv in H. destruct H as (ret & consumed & out & hw & c' & E & -> & _).
    destruct P as (Pd & Ps & Pn & Pc). unfold cs_continue in E.
    destruct (cs_continue_generic_sound m c src n cap _ ret consumed out hw c' Hm K Pd Ps Pn Pc E) as (ke & cte & _ & _ & _ & _ & Q).
    split; [exact Hm | apply Q].
  - intros H. apply of_cres_inv in H. destruct H as (ret & consumed & out & hw & c' & E & -> & _).
    destruct P as (Pd & Ps & Pn & Pc). unfold cs_continue_destSize in E.
    destruct (cs_continue_generic_sound m c src n target _ ret consumed out hw c' Hm K Pd Ps Pn Pc E) as (ke & cte & _ & _ & _ & _ & Q).
    split; [exact Hm | apply Q].
  - pose proof (cs_saveDict_ok m c a n Hm K P) as S.
    destruct (cs_saveDict m c a n) as [[m' c'] r]. cbn [fst snd] in S. intros H. injection H as <- <-. exact S.
  - intros H. apply of_cres_inv in H. destruct H as (ret & consumed & out & hw & c' & E & -> & _).
    destruct P as (Ps & Pn & Pc).
    pose proof (cs_fastReset_sound m c src n cap level ret consumed out hw c' Hm K Ps Pn Pc E) as Q. cbv zeta in Q.
    split; [exact Hm | apply Q].
  - intros H. apply of_cres_inv in H. destruct H as (ret & consumed & out & hw & c' & E & -> & _).
    destruct P as (Ps & Pn & Pc). unfold cs_extState in E.
    pose proof (cs_fastReset_sound m cs_init src n cap level ret consumed out hw c' Hm cs_init_ok Ps Pn Pc E) as Q. cbv zeta in Q.
    split; [exact Hm | apply Q].
Qed.

(* a run inside the model: every step is defined *)
Fixpoint crun (st : mem * cctx) (ops : list cop) : option (mem * cctx) :=
  match ops with
  | [] => Some st
  | o :: r => match cstep st o with Some (st', _) => crun st' r | None => None end
  end.
Fixpoint cops_pre (st : mem * cctx) (ops : list cop) : Prop :=
  match ops with
  | [] => True
  | o :: r => cop_pre st o /\ match cstep st o with Some (st', _) => cops_pre st' r | None => True end
  end.

Theorem cs_inv_run : forall ops st st', cstate_inv st -> cops_pre st ops -> crun st ops = Some st' -> cstate_inv st'.
Proof.
  induction ops as [|o r IH]; intros st st' I P; cbn [crun cops_pre] in *.
  - intros H. injection H as <-. exact I.
  - destruct P as (P1 & P2). destruct (cstep st o) as [[st1 x]|] eqn:E; [|discriminate].
    apply IH; [apply (cstep_inv st o st1 x I P1 E) | exact P2].
Qed.
