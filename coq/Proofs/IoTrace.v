(* Proofs about Model/Io.v, part 2: shape of the system-call trace.  The decoding functions only
   add read/seek/write events; open/close/remove events are added by the two outer functions
   in a fixed order, so that remove(src) is always the last event, directly after the
   successful close of the destination (C14_rm_order) - for decompression and compression. *)
From Coq Require Import ZArith List Lia Bool.
From LZ4V Require Import Spec.BlockSpec Spec.FrameSpec Gen.Consts Model.Io.
Import ListNotations.
Local Open Scope Z_scope.

Definition data_ev (e : event) : bool :=
  match e with ERead _ _ _ | ESeek _ _ | EWrite _ _ => true | _ => false end.

(* s' extends the trace of s by data events only *)
Definition dtr (s s' : st) : Prop := exists evs, s_tr s' = evs ++ s_tr s /\ forallb data_ev evs = true.
Definition rdtr {A} (s : st) (r : res A) : Prop := match r with Ret _ s' => dtr s s' | Die _ s' => dtr s s' end.

Lemma dtr_refl : forall s, dtr s s.
Proof. intros s. exists []. split; reflexivity. Qed.
Lemma dtr_trans : forall a b c, dtr a b -> dtr b c -> dtr a c.
Proof.
  intros a b c [e1 [H1 F1]] [e2 [H2 F2]]. exists (e2 ++ e1). split.
  - rewrite H2, H1, app_assoc. reflexivity.
  - rewrite forallb_app, F1, F2. reflexivity.
Qed.
Lemma dtr_same : forall s s', s_tr s' = s_tr s -> dtr s s'.
Proof. intros s s' H. exists []. split; [exact H|reflexivity]. Qed.
Lemma dtr_one : forall s s' e, s_tr s' = e :: s_tr s -> data_ev e = true -> dtr s s'.
Proof. intros s s' e H D. exists [e]. split; [exact H|cbn; rewrite D; reflexivity]. Qed.

Lemma fread_dtr : forall fl n s g s1, fread fl n s = (g, s1) -> dtr s s1.
Proof.
  intros fl n s g s1 H. unfold fread, read_plain in H.
  destruct (f_rlimit fl) as [lim|]; [destruct (lim - s_rpos s <=? 0); [|destruct (lim - s_rpos s <? n)]|];
    inversion H; subst; (eapply dtr_one; [reflexivity|reflexivity]).
Qed.
Lemma fwrite_dtr : forall fl d s b s1, fwrite fl d s = (b, s1) -> dtr s s1.
Proof.
  intros fl d s b s1 H. unfold fwrite in H.
  destruct (f_wlimit fl) as [lim|]; [destruct (lim - s_wpos s <? len d)|];
    inversion H; subst; (eapply dtr_one; [reflexivity|reflexivity]).
Qed.
Lemma skip_stream_dtr : forall fl off s e s1, skip_stream fl off s = (e, s1) -> dtr s s1.
Proof.
  intros fl off s e s1 H. unfold skip_stream in H. destruct (off <=? 0); [inversion H; apply dtr_refl|].
  destruct (fread fl off s) as [g s2] eqn:R. apply fread_dtr in R. destruct (len g =? off); inversion H; subst; exact R.
Qed.
Lemma fseek_u32_dtr : forall fuel sk fl off s e s1, fseek_u32 fuel sk fl off s = (e, s1) -> dtr s s1.
Proof.
  induction fuel; intros sk fl off s e s1 H; cbn [fseek_u32] in H; [inversion H; apply dtr_refl|].
  destruct (off <=? 0); [inversion H; apply dtr_refl|].
  destruct (sk && negb (f_seek fl (s_nseek s))).
  - apply IHfuel in H. eapply dtr_trans; [|exact H]. eapply dtr_one; reflexivity.
  - apply skip_stream_dtr in H. eapply dtr_trans; [|exact H]. eapply dtr_one; reflexivity.
Qed.

Section Trace.
  Variable fdec : list byte -> option (list byte * list byte).
  Variable bdec : list byte -> option (list byte).

  Lemma legacy_loop_dtr : forall fuel mt fl s, rdtr s (legacy_loop bdec fuel mt fl s).
  Proof.
    induction fuel; intros mt fl s; cbn [legacy_loop]; [apply dtr_refl|].
    destruct (fread fl IO_LEGACY_BLOCK_HEADER_SIZE s) as [hdr s1] eqn:R1. apply fread_dtr in R1.
    destruct (len hdr =? 0); [exact R1|].
    destruct (negb (len hdr =? IO_LEGACY_BLOCK_HEADER_SIZE)); [exact R1|].
    destruct (LZ4IO_LEGACY_BOUND <? le_val hdr); [eapply dtr_trans; [exact R1|apply dtr_same; reflexivity]|].
    destruct (fread fl (le_val hdr) s1) as [blk s2] eqn:R2. apply fread_dtr in R2.
    assert (D2 := dtr_trans _ _ _ R1 R2).
    destruct (negb (len blk =? le_val hdr)); [exact D2|].
    destruct (bdec blk) as [c|]; [|exact D2].
    destruct (LEGACY_BLOCKSIZE <? len c); [exact D2|].
    destruct (fwrite fl c s2) as [ok s3] eqn:W. apply fwrite_dtr in W. assert (D3 := dtr_trans _ _ _ D2 W).
    destruct ok; [|exact D3].
    specialize (IHfuel mt fl s3). destruct (legacy_loop bdec fuel mt fl s3); cbn [rdtr] in *; eapply dtr_trans; eassumption.
  Qed.

  Lemma legacy_dtr : forall mt fl s, rdtr s (legacy bdec mt fl s).
  Proof.
    intros mt fl s. unfold legacy. assert (H := legacy_loop_dtr (S (length (s_in s))) mt fl s).
    destruct (legacy_loop bdec (S (length (s_in s))) mt fl s) as [[] s1|c s1]; cbn [rdtr] in *; [destruct (s_rerr s1)|]; exact H.
  Qed.

  Lemma lz4f_st_dtr : forall test fl s, rdtr s (lz4f_st fdec test fl s).
  Proof.
    intros test fl s. unfold lz4f_st.
    destruct (fdec _) as [[c rest]|]; [|eapply dtr_one; reflexivity].
    destruct (match f_rlimit fl with Some lim => _ | None => false end).
    - destruct (fread fl _ s) as [g s1] eqn:R. apply fread_dtr in R. exact R.
    - destruct test; [eapply dtr_one; reflexivity|].
      match goal with |- context [fwrite fl c ?x] => destruct (fwrite fl c x) as [ok s2] eqn:W end.
      apply fwrite_dtr in W. destruct ok; cbn [rdtr]; (eapply dtr_trans; [|exact W]); eapply dtr_one; reflexivity.
  Qed.

  Lemma mt_frames_dtr : forall fuel fl data s, rdtr s (mt_frames fdec fuel fl data s).
  Proof.
    induction fuel; intros fl data s; cbn [mt_frames]; [apply dtr_refl|].
    destruct data as [|d0 dr] eqn:ED; [apply dtr_refl|]. rewrite <- ED. clear ED.
    destruct (len data <? minFHSize); [apply dtr_refl|].
    destruct (Z.land _ _ =? _).
    - destruct (len data <? 8); [apply dtr_refl|]. destruct (len data - 8 <? _); [apply dtr_refl|]. apply IHfuel.
    - destruct (_ =? LZ4IO_MAGICNUMBER); [|apply dtr_refl].
      destruct (fdec data) as [[c rest]|]; [|apply dtr_refl].
      destruct (fwrite fl c s) as [ok s1] eqn:W. apply fwrite_dtr in W. destruct ok; [|exact W].
      specialize (IHfuel fl rest s1). destruct (mt_frames fdec fuel fl rest s1); cbn [rdtr] in *; eapply dtr_trans; eassumption.
  Qed.

  Lemma lz4f_mt_dtr : forall fl s, rdtr s (lz4f_mt fdec fl s).
  Proof.
    intros fl s. unfold lz4f_mt. destruct (fread fl (len (s_in s) + 1) s) as [g s1] eqn:R. apply fread_dtr in R.
    destruct (s_rerr s1); [exact R|].
    match goal with |- rdtr s ?x => assert (H : rdtr s1 x) by apply mt_frames_dtr; destruct x end; cbn [rdtr] in *; eapply dtr_trans; eassumption.
  Qed.

  Lemma pass_through_dtr : forall fl mn s, rdtr s (pass_through fl mn s).
  Proof.
    intros fl mn s. unfold pass_through.
    destruct (fwrite fl mn s) as [ok s1] eqn:W. apply fwrite_dtr in W. destruct (negb ok); [exact W|].
    destruct (fread fl (len (s_in s1) + 1) s1) as [g s2] eqn:R. apply fread_dtr in R.
    destruct (fwrite fl g s2) as [ok2 s3] eqn:W2. apply fwrite_dtr in W2.
    assert (D := dtr_trans _ _ _ (dtr_trans _ _ _ W R) W2).
    destruct (negb ok2); [exact D|]. destruct (s_rerr s3); exact D.
  Qed.

  Lemma lift_dtr : forall s (r : res unit), rdtr s r -> rdtr s (lift r).
  Proof. intros s r H. destruct r; exact H. Qed.

  Lemma dispatch_dtr : forall mt test pt sk fl magic mn s, rdtr s (dispatch fdec bdec mt test pt sk fl magic mn s).
  Proof.
    intros mt test pt sk fl magic mn s. unfold dispatch.
    set (m' := if is_skippable magic then LZ4IO_SKIPPABLE0 else magic). clearbody m'.
    destruct (m' =? LZ4IO_MAGICNUMBER); [apply lift_dtr; destruct mt; [apply lz4f_mt_dtr|apply lz4f_st_dtr]|].
    destruct (m' =? LEGACY_MAGICNUMBER); [apply lift_dtr, legacy_dtr|].
    destruct (m' =? LZ4IO_SKIPPABLE0).
    { destruct (fread fl 4 s) as [szb s1] eqn:R. apply fread_dtr in R.
      destruct (negb (len szb =? 4)); [exact R|].
      destruct (fseek_u32 6 sk fl (le_val szb) s1) as [e s2] eqn:FS. apply fseek_u32_dtr in FS.
      destruct (e =? 0); cbn [rdtr]; eapply dtr_trans; eassumption. }
    destruct (s_nbFrames s =? 1); [|apply dtr_refl].
    destruct (pt && negb test); [|apply dtr_refl].
    apply lift_dtr. assert (H := pass_through_dtr fl mn (set_nb 0 s)).
    destruct (pass_through fl mn (set_nb 0 s)); cbn [rdtr] in *; (eapply dtr_trans; [apply dtr_same; reflexivity|exact H]).
  Qed.

  Lemma select_dtr : forall mt test pt sk fl s, rdtr s (select_decoder fdec bdec mt test pt sk fl s).
  Proof.
    intros mt test pt sk fl s. unfold select_decoder.
    set (s0 := set_nb (s_nbFrames s + 1) s).
    assert (D0 : dtr s s0) by (apply dtr_same; reflexivity).
    destruct (negb (s_magic s0 =? 0)).
    - assert (H := dispatch_dtr mt test pt sk fl (s_magic s0) [] (set_magic 0 s0)).
      destruct (dispatch _ _ _ _ _ _ _ _ _ _); cbn [rdtr] in *; (eapply dtr_trans; [exact D0|]); (eapply dtr_trans; [apply dtr_same; reflexivity|exact H]).
    - destruct (fread fl MAGICNUMBER_SIZE s0) as [mn s1] eqn:R. apply fread_dtr in R.
      assert (D1 := dtr_trans _ _ _ D0 R).
      destruct (len mn =? 0); [destruct (s_rerr s1); cbn [rdtr]; [exact D1|eapply dtr_trans; [exact D1|apply dtr_same; reflexivity]]|].
      destruct (negb (len mn =? MAGICNUMBER_SIZE)); [exact D1|].
      assert (H := dispatch_dtr mt test pt sk fl (le_val mn) mn s1).
      destruct (dispatch _ _ _ _ _ _ _ _ _ _); cbn [rdtr] in *; eapply dtr_trans; eassumption.
  Qed.

  Lemma frames_loop_dtr : forall fuel mt test pt sk fl s, rdtr s (frames_loop fdec bdec fuel mt test pt sk fl s).
  Proof.
    induction fuel; intros mt test pt sk fl s; cbn [frames_loop]; [apply dtr_refl|].
    assert (H := select_dtr mt test pt sk fl s).
    destruct (select_decoder fdec bdec mt test pt sk fl s) as [d sd|c sd]; cbn [rdtr] in H; [|exact H].
    destruct d; [|exact H|exact H].
    specialize (IHfuel mt test pt sk fl sd).
    destruct (frames_loop fdec bdec fuel mt test pt sk fl sd); cbn [rdtr] in *; eapply dtr_trans; eassumption.
  Qed.

  (* ---------------------------------------------------------------- the whole trace *)
  Definition is_remove (e : event) : bool := match e with ERemoveSrc _ => true | _ => false end.
  Definition nr (l : list event) : bool := forallb (fun e => negb (is_remove e)) l.

  Lemma nr_app : forall a b, nr (a ++ b) = nr a && nr b.
  Proof. intros. apply forallb_app. Qed.
  Lemma nr_rev : forall l, nr (rev l) = nr l.
  Proof.
    induction l as [|x l IH]; [reflexivity|]. cbn [rev]. rewrite nr_app. rewrite IH. unfold nr. cbn [forallb]. rewrite andb_true_r. apply andb_comm.
  Qed.
  Lemma nr_data : forall evs, forallb data_ev evs = true -> nr evs = true.
  Proof.
    induction evs as [|x l IH]; intros H; [reflexivity|]. cbn [forallb] in H. apply andb_true_iff in H. destruct H as [H1 H2].
    unfold nr. cbn [forallb]. fold (nr l). rewrite (IH H2). destruct x; cbn in *; try reflexivity; discriminate.
  Qed.
  Lemma nr_no_split : forall l a ok b, nr l = true -> l = a ++ ERemoveSrc ok :: b -> False.
  Proof.
    intros l a ok b H E. subst l. rewrite nr_app in H. cbn in H. rewrite andb_false_r in H. discriminate.
  Qed.
  (* splitting a list whose only remove event is the last one *)
  Lemma last_remove : forall pre x a ok b, nr pre = true -> pre ++ [ERemoveSrc x] = a ++ ERemoveSrc ok :: b ->
    a = pre /\ x = ok /\ b = [].
  Proof.
    induction pre as [|p pre IH]; intros x a ok b HP E.
    - destruct a as [|a0 a]; cbn in E.
      + inversion E; subst. auto.
      + inversion E; subst. destruct a; discriminate.
    - destruct a as [|a0 a]; cbn in E.
      + inversion E; subst. cbn in HP. discriminate.
      + inversion E; subst. cbn in HP. apply andb_true_iff in HP. destruct HP as [_ HP].
        destruct (IH _ _ _ _ HP H1) as [-> [-> ->]]. auto.
  Qed.

  (* C14_rm_order (decompression): wherever a remove(src) event stands in the trace, it is the last event, it comes
     directly after the close of the source and the SUCCESSFUL close of the destination, everything before those
     is the two opens followed by read/seek/write events only, --rm was requested, and the exit status is 0
     (45 when the removal itself fails). *)
  Theorem rm_order : forall mt test pt sk rm fl input,
    let o := decompress_file fdec bdec mt test pt sk rm fl input in
    forall a ok b, o_trace o = a ++ ERemoveSrc ok :: b ->
      b = [] /\ rm = true /\ o_exit o = (if ok then 0 else 45) /\
      exists data, a = [EOpenDst true; EOpenSrc true] ++ data ++ [ECloseSrc; ECloseDst true] /\ forallb data_ev data = true.
  Proof.
    intros mt test pt sk rm fl input o a ok b HT. subst o.
    unfold decompress_file, decompress_dst, decompress_src in *.
    destruct (f_open_dst fl).
    { exfalso. cbn in HT. eapply nr_no_split; [|exact HT]. reflexivity. }
    cbn [ev s_in st_init] in *.
    destruct (f_open_src fl).
    { exfalso. unfold close_and_remove in HT. destruct (f_close_dst fl); cbn in HT; (eapply nr_no_split; [|exact HT]); reflexivity. }
    match type of HT with context [frames_loop ?a1 ?b1 ?f ?m ?t ?p ?k ?l ?s] =>
      assert (D := frames_loop_dtr f m t p k l s); destruct (frames_loop a1 b1 f m t p k l s) as [r s2|c s2] end;
      cbn [rdtr] in D; destruct D as [evs [ET EF]]; cbn [s_tr ev st_init] in ET.
    2:{ exfalso. cbn [outcome_of o_trace] in HT. rewrite ET in HT. eapply nr_no_split; [|exact HT].
        rewrite nr_rev, nr_app, (nr_data _ EF). reflexivity. }
    assert (DR : forallb data_ev (rev evs) = true).
    { rewrite forallb_forall in *. intros e HI. apply EF. apply in_rev. exact HI. }
    assert (SHAPE : forall tl, rev (tl ++ ECloseDst true :: ECloseSrc :: evs ++ [EOpenSrc true; EOpenDst true]) =
                       ([EOpenDst true; EOpenSrc true] ++ rev evs ++ [ECloseSrc; ECloseDst true]) ++ rev tl).
    { intros tl. rewrite rev_app_distr. cbn [rev]. rewrite rev_app_distr. cbn [rev app]. rewrite <- !app_assoc. cbn [app]. reflexivity. }
    assert (NRP : nr ([EOpenDst true; EOpenSrc true] ++ rev evs ++ [ECloseSrc; ECloseDst true]) = true).
    { rewrite !nr_app, (nr_data _ DR). reflexivity. }
    unfold close_and_remove in *.
    destruct (f_close_dst fl).
    { exfalso. cbn [outcome_of o_trace ev s_tr] in HT. rewrite ET in HT. eapply nr_no_split; [|exact HT].
      rewrite nr_rev. cbn. rewrite nr_app, (nr_data _ EF). reflexivity. }
    destruct ((r =? 0) && rm) eqn:RM.
    - apply andb_true_iff in RM. destruct RM as [R0 RMT]. apply Z.eqb_eq in R0. subst r rm.
      destruct (f_remove fl); cbn [outcome_of o_trace o_exit ev s_tr] in *; rewrite ET in HT;
        match type of HT with rev (?x :: ?rest) = _ => change (x :: rest) with ([x] ++ rest) in HT end;
        rewrite SHAPE in HT; match type of HT with context [rev [?x]] => change (rev [x]) with [x] in HT end;
        apply last_remove in HT; try exact NRP;
        destruct HT as [-> [<- ->]]; (split; [reflexivity|]); (split; [reflexivity|]); (split; [reflexivity|]);
        exists (rev evs); (split; [reflexivity|exact DR]).
    - exfalso. cbn [outcome_of o_trace ev s_tr] in HT. rewrite ET in HT.
      match type of HT with rev ?l = _ => change l with ([] ++ l) in HT end.
      rewrite SHAPE in HT. cbn [rev] in HT. rewrite app_nil_r in HT.
      eapply nr_no_split; [exact NRP|exact HT].
  Qed.
End Trace.

(* C14_rm_order for the compression tail (frame format, ST and MT, and legacy format which never removes) *)
Theorem rm_order_compress : forall comp legacy rm fl input,
  let o := compress_file comp legacy rm fl input in
  forall a ok b, o_trace o = a ++ ERemoveSrc ok :: b ->
    b = [] /\ rm = true /\ legacy = false /\ o_exit o = (if ok then 0 else 50) /\
    exists data, a = [EOpenSrc true; EOpenDst true] ++ data ++ [ECloseSrc; ECloseDst true] /\ forallb data_ev data = true.
Proof.
  intros comp legacy rm fl input o a ok b HT. subst o. unfold compress_file in *.
  destruct (f_open_src fl).
  { exfalso. cbn in HT. eapply nr_no_split; [|exact HT]. reflexivity. }
  destruct (f_open_dst fl).
  { exfalso. cbn in HT. eapply nr_no_split; [|exact HT]. reflexivity. }
  match type of HT with context [fread fl ?n ?s] => destruct (fread fl n s) as [got s3] eqn:R end.
  apply fread_dtr in R. destruct R as [e1 [ET1 EF1]]. cbn [ev s_tr st_init] in ET1.
  destruct (s_rerr s3).
  { exfalso. cbn [outcome_of o_trace] in HT. rewrite ET1 in HT. eapply nr_no_split; [|exact HT].
    rewrite nr_rev, nr_app, (nr_data _ EF1). reflexivity. }
  destruct (fwrite fl (comp got) s3) as [wok s4] eqn:W.
  apply fwrite_dtr in W. destruct W as [e2 [ET2 EF2]].
  assert (EF : forallb data_ev (e2 ++ e1) = true) by (rewrite forallb_app, EF1, EF2; reflexivity).
  assert (ET : s_tr s4 = (e2 ++ e1) ++ [EOpenDst true; EOpenSrc true]) by (rewrite ET2, ET1, app_assoc; reflexivity).
  set (evs := e2 ++ e1) in *. clearbody evs. clear ET1 ET2 EF1 EF2.
  destruct wok; cbn [negb] in HT.
  2:{ exfalso. cbn [outcome_of o_trace] in HT. rewrite ET in HT. eapply nr_no_split; [|exact HT].
      rewrite nr_rev, nr_app, (nr_data _ EF). reflexivity. }
  assert (DR : forallb data_ev (rev evs) = true).
  { rewrite forallb_forall in *. intros e HI. apply EF. apply in_rev. exact HI. }
  assert (SHAPE : forall tl, rev (tl ++ ECloseDst true :: ECloseSrc :: evs ++ [EOpenDst true; EOpenSrc true]) =
                     ([EOpenSrc true; EOpenDst true] ++ rev evs ++ [ECloseSrc; ECloseDst true]) ++ rev tl).
  { intros tl. rewrite rev_app_distr. cbn [rev]. rewrite rev_app_distr. cbn [rev app]. rewrite <- !app_assoc. cbn [app]. reflexivity. }
  assert (NRP : nr ([EOpenSrc true; EOpenDst true] ++ rev evs ++ [ECloseSrc; ECloseDst true]) = true).
  { rewrite !nr_app, (nr_data _ DR). reflexivity. }
  destruct (f_close_dst fl).
  { exfalso. cbn [outcome_of o_trace ev s_tr] in HT. rewrite ET in HT. eapply nr_no_split; [|exact HT].
    rewrite nr_rev. cbn. rewrite nr_app, (nr_data _ EF). reflexivity. }
  destruct (rm && negb legacy) eqn:RM.
  - apply andb_true_iff in RM. destruct RM as [RMT NL]. apply negb_true_iff in NL. subst rm legacy.
    destruct (f_remove fl); cbn [outcome_of o_trace o_exit ev s_tr] in *; rewrite ET in HT;
      match type of HT with rev (?x :: ?rest) = _ => change (x :: rest) with ([x] ++ rest) in HT end;
      rewrite SHAPE in HT; match type of HT with context [rev [?x]] => change (rev [x]) with [x] in HT end;
      apply last_remove in HT; try exact NRP;
      destruct HT as [-> [<- ->]]; (split; [reflexivity|]); (split; [reflexivity|]); (split; [reflexivity|]); (split; [reflexivity|]);
      exists (rev evs); (split; [reflexivity|exact DR]).
  - exfalso. cbn [outcome_of o_trace ev s_tr] in HT. rewrite ET in HT.
    match type of HT with rev ?l = _ => change l with ([] ++ l) in HT end.
    rewrite SHAPE in HT. cbn [rev] in HT. rewrite app_nil_r in HT.
    eapply nr_no_split; [exact NRP|exact HT].
Qed.
