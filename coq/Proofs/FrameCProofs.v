(* The LZ4F compressor model (Model/FrameC.v) emits, for every sequence of successful calls
   Begin, update/uncompressedUpdate/flush ..., End, the header of the format document followed
   by a chain of well-formed blocks, the EndMark and the content checksum: frame invariant,
   one lemma per modelled C function, then the session theorems used by Properties_C03/C07. *)
From Coq Require Import ZArith List Lia Bool.
From Coq Require Import ZifyBool.
From LZ4V Require Import Spec.BlockSpec Spec.XXH32 Spec.FrameSpec Gen.Consts Model.FrameC Model.FrameAudit.
From LZ4V Require Import Proofs.BlockSpecProofs Proofs.FrameCBytes Proofs.FrameCBlocks.
Import ListNotations.
Local Open Scope Z_scope.
Set Warnings "-abstract-large-number".
Local Ltac zlia := Z.div_mod_to_equations; lia.

(* ---- suffixes and the 64 KB window ------------------------------------------ *)
Definition is_suffix (s l : list byte) : Prop := exists h, l = h ++ s.

Lemma suffix_refl : forall l, is_suffix l l.
Proof. intros l. exists []. reflexivity. Qed.
Lemma suffix_nil : forall l, is_suffix [] l.
Proof. intros l. exists l. rewrite app_nil_r. reflexivity. Qed.
Lemma suffix_trans : forall a b c, is_suffix a b -> is_suffix b c -> is_suffix a c.
Proof. intros a b c [h1 H1] [h2 H2]. exists (h2 ++ h1). rewrite H2, H1, app_assoc. reflexivity. Qed.
Lemma suffix_app : forall e d a, is_suffix e d -> is_suffix (e ++ a) (d ++ a).
Proof. intros e d a [h H]. exists h. rewrite H, app_assoc. reflexivity. Qed.
Lemma suffix_length : forall s l, is_suffix s l -> (length s <= length l)%nat.
Proof. intros s l [h H]. rewrite H, app_length. lia. Qed.
Lemma suffix_le : forall s1 s2 l, is_suffix s1 l -> is_suffix s2 l -> (length s1 <= length s2)%nat -> is_suffix s1 s2.
Proof.
  intros s1 s2 l [h1 H1] [h2 H2] Hl. rewrite H1 in H2.
  destruct (app_eq_app _ _ _ _ H2) as [k [[Ha Hb] | [Ha Hb]]].
  - exists k. exact Hb.
  - assert (k = []).
    { assert (length s1 = (length k + length s2)%nat) by (rewrite Hb, app_length; reflexivity).
      destruct k; [reflexivity|cbn in *; lia]. }
    subst k. cbn in Hb. subst s1. apply suffix_refl.
Qed.
Lemma lastn_suffix : forall n l, is_suffix (lastn n l) l.
Proof. intros n l. unfold lastn. exists (firstn (length l - n) l). symmetry. apply firstn_skipn. Qed.
Lemma lastn_length : forall n l, length (lastn n l) = Nat.min n (length l).
Proof. intros n l. unfold lastn. rewrite skipn_length. lia. Qed.
Lemma lastZ_lastn : forall l, lastZ FC_64KB l = lastn 65536 l.
Proof. intros l. reflexivity. Qed.

Lemma window_suffix : forall n e d acc, is_suffix e d -> is_suffix (lastn n (e ++ acc)) (lastn n (d ++ acc)).
Proof.
  intros n e d acc H.
  apply suffix_le with (d ++ acc).
  - apply suffix_trans with (e ++ acc); [apply lastn_suffix|apply suffix_app; exact H].
  - apply lastn_suffix.
  - rewrite !lastn_length, !app_length. pose proof (suffix_length _ _ H). lia.
Qed.

(* ---- constants of lz4frame.c as the proofs use them --------------------------- *)
Lemma getBlockSize_spec : forall b m, bsid_size b = Some m -> getBlockSize b = m.
Proof.
  intros b m H. unfold bsid_size in H.
  destruct (Z.eqb_spec b 4) as [->|]; [inversion H; reflexivity|].
  destruct (Z.eqb_spec b 5) as [->|]; [inversion H; reflexivity|].
  destruct (Z.eqb_spec b 6) as [->|]; [inversion H; reflexivity|].
  destruct (Z.eqb_spec b 7) as [->|]; [inversion H; reflexivity|discriminate].
Qed.
Lemma bsid_size_range : forall b m, bsid_size b = Some m -> 0 < m < 2147483648.
Proof.
  intros b m H. unfold bsid_size in H.
  destruct (b =? 4); [inversion H; lia|]. destruct (b =? 5); [inversion H; lia|].
  destruct (b =? 6); [inversion H; lia|]. destruct (b =? 7); [inversion H; lia|discriminate].
Qed.
Lemma bsid_size_ex : forall b, 4 <= b <= 7 -> exists m, bsid_size b = Some m.
Proof.
  intros b H. assert (Hc : b = 4 \/ b = 5 \/ b = 6 \/ b = 7) by lia.
  destruct Hc as [-> | [-> | [-> | ->]]]; eexists; reflexivity.
Qed.

(* only the block-related fields change when a block is made *)
Definition with_blk (c : cctx) (h : list byte) (n : nat) : cctx :=
  mkCctx (c_prefs c) (c_stage c) (c_cdict c) (c_dict c) (c_maxBlock c) (c_tmp c) (c_totalIn c)
         (c_xxh c) (c_mode c) h n.

Definition is_continue (f : cfunc) : bool :=
  match f with CF_block_continue | CF_HC_continue => true | _ => false end.

Lemma select_linked : forall lvl m, (m =? 1) = false ->
  is_continue (selectCompression 0 lvl m) = true.
Proof.
  intros lvl m Hm. unfold selectCompression, FC_LZ4B_UNCOMPRESSED, FC_blockIndependent.
  rewrite Hm. destruct (lvl <? LZ4HC_CLEVEL_MIN); reflexivity.
Qed.
Lemma select_indep : forall lvl m, is_continue (selectCompression 1 lvl m) = false.
Proof.
  intros lvl m. unfold selectCompression, FC_LZ4B_UNCOMPRESSED, FC_blockIndependent.
  destruct (m =? 1); [reflexivity|]. destruct (lvl <? LZ4HC_CLEVEL_MIN); reflexivity.
Qed.

Section Model.
  Variable blk : nat -> list byte -> list byte -> option (list byte).
  Variable bdec : list byte -> list byte -> option (list byte).
  (* contract of the block compressors (what C01/C06/C11/C12 establish for the real ones) *)
  Hypothesis blk_ok : forall n h x c, blk n h x = Some c -> bdec h c = Some x.
  (* a longer history does not change what a block decodes to (BlockHistExt.v) *)
  Hypothesis bdec_ext : forall h' h c x, bdec h c = Some x -> bdec (h' ++ h) c = Some x.

  Lemma bdec_suffix : forall s l c x, is_suffix s l -> bdec s c = Some x -> bdec l c = Some x.
  Proof. intros s l c x [h ->] H. apply bdec_ext. exact H. Qed.

  (* what Begin fixes for the whole frame, and what every block-making step preserves *)
  Record Core (dk : dictkind) (p : prefs) (maxb : Z) (c : cctx) (bl : list blockrec) : Prop := mkCore {
    core_prefs : c_prefs c = p;
    core_stage : c_stage c = 1;
    core_maxb : c_maxBlock c = maxb;
    core_cdict : c_cdict c = match dk with UsingCDict d => Some (createCDict d) | _ => None end;
    core_dict : c_dict c = match dk with UsingDict d => lastZ FC_64KB d | _ => [] end;
    core_chain : chain bdec (p_blockMode p =? 1) (dict_of dk) maxb [] bl;
    core_hist : p_blockMode p = 0 -> c_hist c = contents bl }.

  (* the history offered to the block compressor is a suffix of the history the format gives the decoder *)
  Lemma history_suffix : forall dk p maxb c bl f,
    Core dk p maxb c bl -> (p_blockMode p = 0 \/ p_blockMode p = 1) ->
    is_continue f = (p_blockMode p =? 0) ->
    is_suffix (history c f) (hist_spec (p_blockMode p =? 1) (dict_of dk) (contents bl)).
  Proof.
    intros dk p maxb c bl f HC Hm Hf.
    destruct HC as [_ _ _ Hcd Hd _ Hh].
    destruct Hm as [Hm | Hm]; rewrite Hm in *; cbn [Z.eqb Pos.eqb] in *; unfold hist_spec.
    - (* linked *)
      specialize (Hh eq_refl).
      assert (Hw : history c f = lastn 65536 ((match c_cdict c with Some d => d | None => c_dict c end) ++ c_hist c)).
      { destruct f; cbn in Hf; try discriminate; reflexivity. }
      rewrite Hw, Hh, Hcd, Hd.
      apply window_suffix.
      destruct dk as [|d|d]; cbn [dict_of].
      + apply suffix_refl.
      + rewrite lastZ_lastn. apply lastn_suffix.
      + unfold createCDict. rewrite lastZ_lastn. apply lastn_suffix.
    - (* independent *)
      assert (Hw : history c f = [] \/ history c f = match c_cdict c with Some d => d | None => [] end).
      { destruct f; cbn in Hf; try discriminate; cbn [history]; auto. }
      destruct Hw as [-> | ->]; [apply suffix_nil|].
      rewrite Hcd. destruct dk as [|d|d]; cbn [dict_of]; try apply suffix_nil.
      unfold createCDict. rewrite lastZ_lastn. apply lastn_suffix.
  Qed.

  (* ---- LZ4F_makeBlock ---- *)
  Lemma makeBlock_core : forall dk p maxb c bl src m o c',
    prefs_norm p -> 0 < maxb < 2147483648 ->
    Core dk p maxb c bl -> 0 < len src <= maxb ->
    (p_blockMode p = 0 -> (m =? 1) = false) ->
    makeBlock blk c src (selectCompression (p_blockMode p) (p_level p) m) = (o, c') ->
    exists b h, o = enc_block (p_bcrc p =? 1) b /\ b_content b = src /\
                c' = with_blk c h (S (c_nblk c)) /\ Core dk p maxb c' (bl ++ [b]).
  Proof.
    intros dk p maxb c bl src m o c' Hp Hmax HC Hsrc Hmode H.
    pose proof Hp as [[_ [Hbm [_ [Hbc _]]]] _].
    set (f := selectCompression (p_blockMode p) (p_level p) m) in *.
    assert (Hcont : is_continue f = (p_blockMode p =? 0)).
    { unfold f. destruct Hbm as [E | E]; rewrite E.
      - rewrite select_linked by (apply Hmode; exact E). reflexivity.
      - rewrite select_indep. reflexivity. }
    pose proof (history_suffix dk p maxb c bl f HC Hbm Hcont) as Hsuf.
    unfold makeBlock in H. cbv zeta in H.
    set (cres := match f with CF_none => None | _ => blk (c_nblk c) (history c f) src end) in *.
    assert (Hcres : forall cb, cres = Some cb ->
              bdec (hist_spec (p_blockMode p =? 1) (dict_of dk) (contents bl)) cb = Some src).
    { intros cb E. apply bdec_suffix with (history c f); [exact Hsuf|].
      unfold cres in E. destruct f; try discriminate; eapply blk_ok; exact E. }
    set (cSize := match cres with Some cb => len cb | None => 0 end) in *.
    set (newh := match f with CF_block_continue | CF_HC_continue => c_hist c ++ src | _ => c_hist c end) in *.
    assert (Hnewh : p_blockMode p = 0 -> newh = contents bl ++ src).
    { intros E. rewrite E in Hcont. cbn in Hcont. unfold newh.
      rewrite (core_hist _ _ _ _ _ HC E). destruct f; cbn in Hcont; try discriminate; reflexivity. }
    rewrite (core_prefs _ _ _ _ _ HC) in H.
    assert (Hcrc : forall stored, (if negb (p_bcrc p =? 0) then writeLE32 (xxh32 0 stored) else [])
                                  = (if p_bcrc p =? 1 then le_bytes 4 (xxh32 0 stored) else [])).
    { intros stored. rewrite writeLE32_eq. destruct Hbc as [E | E]; rewrite E; reflexivity. }
    rewrite Hcrc in H.
    assert (Hcore' : forall b, b_content b = src ->
              block_ok bdec (hist_spec (p_blockMode p =? 1) (dict_of dk) (contents bl)) maxb b ->
              Core dk p maxb (set_blk c newh) (bl ++ [b])).
    { intros b Hb Hok. destruct HC as [H1 H2 H3 H4 H5 H6 H7].
      constructor; cbn; try assumption.
      - apply chain_app. split; [exact H6|]. cbn [chain app]. split; [exact Hok|exact I].
      - intros E. rewrite contents_app. unfold contents at 2. cbn [map concat]. rewrite app_nil_r, Hb.
        apply Hnewh. exact E. }
    destruct ((cSize =? 0) || (len src <=? cSize)) eqn:Eraw.
    - (* stored raw *)
      exists (mkB true src src), newh.
      pose proof (f_equal fst H) as Ho; pose proof (f_equal snd H) as Hc'; cbn [fst snd] in Ho, Hc'; subst o c'; clear H.
      split; [|split; [reflexivity|split; [reflexivity|]]].
      + unfold enc_block. cbn [b_raw b_stored]. rewrite writeLE32_eq.
        unfold LZ4F_BLOCKUNCOMPRESSED_FLAG. rewrite lor_flag by lia. reflexivity.
      + apply Hcore'; [reflexivity|]. unfold block_ok. cbn [b_raw b_stored b_content]. repeat split; lia.
    - (* stored compressed *)
      destruct cres as [cb|] eqn:Ec.
      2:{ unfold cSize in Eraw. cbn in Eraw. discriminate. }
      unfold cSize in Eraw.
      exists (mkB false cb src), newh.
      pose proof (f_equal fst H) as Ho; pose proof (f_equal snd H) as Hc'; cbn [fst snd] in Ho, Hc'; subst o c'; clear H.
      split; [|split; [reflexivity|split; [reflexivity|]]].
      + unfold enc_block. cbn [b_raw b_stored]. rewrite writeLE32_eq, Z.add_0_r. reflexivity.
      + apply Hcore'; [reflexivity|]. unfold block_ok. cbn [b_raw b_stored b_content].
        pose proof (len_nonneg cb).
        split; [lia|]. split; [lia|]. split; [apply Hcres; reflexivity|lia].
  Qed.

  Lemma with_blk_core_fields : forall c h n,
    c_prefs (with_blk c h n) = c_prefs c /\ c_tmp (with_blk c h n) = c_tmp c /\
    c_mode (with_blk c h n) = c_mode c /\ c_xxh (with_blk c h n) = c_xxh c /\
    c_totalIn (with_blk c h n) = c_totalIn c /\ c_stage (with_blk c h n) = c_stage c /\
    c_maxBlock (with_blk c h n) = c_maxBlock c.
  Proof. intros. repeat split. Qed.

  (* ---- the full-blocks loop ---- *)
  Lemma fullBlocks_core : forall fuel dk p maxb c bl src m o c' r,
    prefs_norm p -> 0 < maxb < 2147483648 ->
    Core dk p maxb c bl ->
    (p_blockMode p = 0 -> (m =? 1) = false) ->
    fullBlocks blk fuel c (selectCompression (p_blockMode p) (p_level p) m) maxb src = Some (o, c', r) ->
    exists bl' h n, o = enc_blocks (p_bcrc p =? 1) bl' /\ c' = with_blk c h n /\
                    Core dk p maxb c' (bl ++ bl') /\ src = contents bl' ++ r /\ len r < maxb.
  Proof.
    induction fuel as [|fuel IH]; intros dk p maxb c bl src m o c' r Hp Hmax HC Hmode H; [discriminate|].
    cbn [fullBlocks] in H.
    destruct (maxb <=? len src) eqn:E.
    - destruct (makeBlock blk c (firstn (Z.to_nat maxb) src) (selectCompression (p_blockMode p) (p_level p) m))
        as [o1 c1] eqn:Em.
      assert (Hl : len (firstn (Z.to_nat maxb) src) = maxb).
      { unfold len in *. rewrite firstn_length. lia. }
      destruct (makeBlock_core dk p maxb c bl (firstn (Z.to_nat maxb) src) m o1 c1 Hp Hmax HC ltac:(lia) Hmode Em)
        as [b [h1 [Ho1 [Hb [Hc1 HC1]]]]].
      destruct (fullBlocks blk fuel c1 (selectCompression (p_blockMode p) (p_level p) m) maxb
                           (skipn (Z.to_nat maxb) src)) as [[[o2 c2] r2]|] eqn:Er; [|discriminate].
      inversion H; subst o c' r. clear H.
      destruct (IH dk p maxb c1 (bl ++ [b]) _ m o2 c2 r2 Hp Hmax HC1 Hmode Er)
        as [bl2 [h2 [n2 [Ho2 [Hc2 [HC2 [Hs2 Hr2]]]]]]].
      exists (b :: bl2), h2, n2.
      split; [|split; [|split; [|split]]].
      + rewrite Ho1, Ho2. reflexivity.
      + rewrite Hc2, Hc1. reflexivity.
      + replace (bl ++ b :: bl2) with ((bl ++ [b]) ++ bl2) by (rewrite <- app_assoc; reflexivity). exact HC2.
      + unfold contents. cbn [map concat]. fold (contents bl2). rewrite Hb, <- app_assoc, <- Hs2.
        symmetry. apply firstn_skipn.
      + exact Hr2.
    - inversion H; subst o c' r. clear H.
      exists [], (c_hist c), (c_nblk c).
      split; [reflexivity|]. split; [destruct c; reflexivity|].
      rewrite app_nil_r. split; [exact HC|]. split; [reflexivity|lia].
  Qed.

  Lemma fullBlocks_fuel : forall fuel c f bs src,
    0 < bs -> (length src < fuel)%nat -> fullBlocks blk fuel c f bs src <> None.
  Proof.
    induction fuel as [|fuel IH]; intros c f bs src Hbs Hl; [lia|].
    cbn [fullBlocks]. destruct (bs <=? len src) eqn:E; [|discriminate].
    destruct (makeBlock blk c (firstn (Z.to_nat bs) src) f) as [o1 c1].
    specialize (IH c1 f bs (skipn (Z.to_nat bs) src) Hbs).
    destruct (fullBlocks blk fuel c1 f bs (skipn (Z.to_nat bs) src)) as [[[o2 c2] r2]|]; [discriminate|].
    exfalso. apply IH; [|reflexivity]. rewrite skipn_length. unfold len in E. lia.
  Qed.

  (* ---- frame invariant between calls: X = all input accepted so far ---- *)
  Record Inv (dk : dictkind) (p : prefs) (maxb : Z) (X : list byte) (c : cctx) (bl : list blockrec) : Prop := mkInv {
    inv_core : Core dk p maxb c bl;
    inv_X : X = contents bl ++ c_tmp c;
    inv_tmp : len (c_tmp c) < maxb;
    inv_xxh : p_ccrc p = 1 -> c_xxh c = X;
    inv_total : p_contentSize p <> 0 -> c_totalIn c = len X mod U64;
    inv_mode : c_tmp c <> [] -> p_blockMode p = 0 -> (c_mode c =? 1) = false }.

  (* ---- LZ4F_compressBegin ---- *)
  Definition prefs_opt_ok (po : option prefs) : Prop :=
    match po with Some p => prefs_ok p | None => True end.

  Lemma prefs_null_ok : prefs_ok prefs_null.
  Proof. unfold prefs_ok, prefs_null. cbn. lia. Qed.

  (* the preferences as compressBegin stores them *)
  Definition eff_prefs (po : option prefs) : prefs :=
    let p0 := match po with Some p => p | None => prefs_null end in
    if p_bsid p0 =? 0 then set_bsid p0 LZ4F_BLOCKSIZEID_DEFAULT else p0.

  Lemma begin_inv : forall c0 po dk hdr c1,
    prefs_opt_ok po -> compressBegin c0 po dk = (Out hdr, c1) ->
    exists p maxb, p = eff_prefs po /\ prefs_norm p /\ bsid_size (p_bsid p) = Some maxb /\
                   hdr = header_bytes (desc_of p) /\ Inv dk p maxb [] c1 [].
  Proof.
    intros c0 po dk hdr c1 Hpo H.
    set (p0 := match po with Some p => p | None => prefs_null end).
    assert (Hp0 : prefs_ok p0) by (unfold p0; destruct po; [exact Hpo|exact prefs_null_ok]).
    set (p := if p_bsid p0 =? 0 then set_bsid p0 LZ4F_BLOCKSIZEID_DEFAULT else p0).
    assert (Hp : prefs_norm p).
    { unfold p, prefs_norm, prefs_ok in *. destruct Hp0 as [Hb Hrest].
      destruct (Z.eqb_spec (p_bsid p0) 0) as [E|E]; cbn; unfold LZ4F_BLOCKSIZEID_DEFAULT; repeat split; try tauto; lia. }
    destruct (bsid_size_ex (p_bsid p) (proj2 Hp)) as [maxb Hmaxb].
    exists p, maxb.
    assert (Hgen : forall dictBuffer cdict,
              compressBegin_internal c0 dictBuffer cdict po = (Out hdr, c1) ->
              hdr = frame_header p /\
              c_prefs c1 = p /\ c_stage c1 = 1 /\ c_cdict c1 = cdict /\ c_maxBlock c1 = maxb /\ c_tmp c1 = [] /\
              c_xxh c1 = [] /\ c_hist c1 = [] /\
              (p_contentSize p <> 0 -> c_totalIn c1 = 0) /\
              c_dict c1 = match dictBuffer with Some d => lastZ FC_64KB d | None => [] end).
    { intros dictBuffer cdict E. unfold compressBegin_internal in E. cbv zeta in E.
      fold p0 in E. fold p in E. rewrite (getBlockSize_spec _ _ Hmaxb) in E.
      assert (HnoErr : isError maxb = false).
      { pose proof (bsid_size_range _ _ Hmaxb). unfold isError, errZ, U64, FC_ERR_maxCode. lia. }
      rewrite HnoErr in E.
      destruct dictBuffer as [d|].
      - destruct (FC_INT_MAX <? len d); [discriminate|]. inversion E; subst hdr c1. cbn.
        repeat split; try reflexivity. intros Hne. destruct (Z.eqb_spec (p_contentSize p) 0); [contradiction|reflexivity].
      - inversion E; subst hdr c1. cbn.
        repeat split; try reflexivity. intros Hne. destruct (Z.eqb_spec (p_contentSize p) 0); [contradiction|reflexivity]. }
    assert (Hfin : hdr = frame_header p /\
              c_prefs c1 = p /\ c_stage c1 = 1 /\ c_maxBlock c1 = maxb /\ c_tmp c1 = [] /\
              c_xxh c1 = [] /\ c_hist c1 = [] /\ (p_contentSize p <> 0 -> c_totalIn c1 = 0) /\
              c_cdict c1 = match dk with UsingCDict d => Some (createCDict d) | _ => None end /\
              c_dict c1 = match dk with UsingDict d => lastZ FC_64KB d | _ => [] end).
    { unfold compressBegin in H. destruct dk as [|d|d];
        destruct (Hgen _ _ H) as [A [B [C [D [E [F [G [I1 [J K]]]]]]]]]; repeat split; assumption. }
    destruct Hfin as [A [B [C [E [F [G [I1 [J [D K]]]]]]]]].
    split; [reflexivity|]. split; [exact Hp|]. split; [exact Hmaxb|]. split.
    - rewrite A. apply frame_header_spec. exact Hp.
    - pose proof (bsid_size_range _ _ Hmaxb).
      constructor.
      + constructor; try assumption.
        * cbn. exact I.
        * intros _. rewrite I1. reflexivity.
      + rewrite F. reflexivity.
      + rewrite F. cbn. lia.
      + intros _. exact G.
      + intros Hne. rewrite (J Hne). reflexivity.
      + intros Hne. rewrite F in Hne. contradiction.
  Qed.

  (* ---- LZ4F_flush ---- *)
  Lemma flush_inv : forall dk p maxb X c bl r c',
    prefs_norm p -> 0 < maxb < 2147483648 ->
    Inv dk p maxb X c bl -> flush blk c = (r, c') ->
    exists bl', r = Out (enc_blocks (p_bcrc p =? 1) bl') /\ Inv dk p maxb X c' (bl ++ bl') /\
                c_tmp c' = [] /\ c_mode c' = c_mode c.
  Proof.
    intros dk p maxb X c bl r c' Hp Hmax HI H.
    destruct HI as [HC HX Htmp Hxxh Htot Hmode].
    unfold flush in H.
    destruct (len (c_tmp c) =? 0) eqn:E0.
    - inversion H; subst r c'. exists []. rewrite app_nil_r.
      assert (Ht : c_tmp c = []) by (destruct (c_tmp c); [reflexivity|unfold len in E0; cbn in E0; lia]).
      split; [reflexivity|]. split; [constructor; assumption|]. split; [exact Ht|reflexivity].
    - rewrite (core_stage _ _ _ _ _ HC) in H. cbn [Z.eqb Pos.eqb negb] in H.
      rewrite (core_prefs _ _ _ _ _ HC) in H.
      destruct (makeBlock blk c (c_tmp c) (selectCompression (p_blockMode p) (p_level p) (c_mode c))) as [o c1] eqn:Em.
      inversion H; subst r c'. clear H.
      assert (Hne : c_tmp c <> []) by (intros Ht; rewrite Ht in E0; cbn in E0; discriminate).
      pose proof (len_nonneg (c_tmp c)).
      destruct (makeBlock_core dk p maxb c bl (c_tmp c) (c_mode c) o c1 Hp Hmax HC ltac:(lia)
                               (fun E => Hmode Hne E) Em) as [b [h [Ho [Hb [Hc1 HC1]]]]].
      exists [b]. subst c1.
      split; [unfold enc_blocks; cbn [map concat]; rewrite app_nil_r, Ho; reflexivity|].
      split; [|split; reflexivity].
      destruct HC1 as [H1 H2 H3 H4 H5 H6 H7].
      constructor; cbn.
      + constructor; assumption.
      + rewrite contents_app. unfold contents at 2. cbn [map concat]. rewrite Hb, !app_nil_r. exact HX.
      + lia.
      + exact Hxxh.
      + exact Htot.
      + intros F. contradiction.
  Qed.

  (* ---- LZ4F_compressUpdateImpl ---- *)
  Lemma update_inv : forall dk p maxb X c bl src bc o c',
    prefs_norm p -> 0 < maxb < 2147483648 ->
    Inv dk p maxb X c bl ->
    (p_blockMode p = 0 -> (bc =? 1) = false) ->
    compressUpdateImpl blk c src bc = (Out o, c') ->
    exists bl', o = enc_blocks (p_bcrc p =? 1) bl' /\ Inv dk p maxb (X ++ src) c' (bl ++ bl').
  Proof.
    intros dk p maxb X c bl src bc o c' Hp Hmax HI Hbc H.
    unfold compressUpdateImpl in H. cbv zeta in H.
    rewrite (core_stage _ _ _ _ _ (inv_core _ _ _ _ _ _ HI)) in H. cbn [Z.eqb Pos.eqb negb] in H.
    (* stage 0: flush on a mode switch *)
    assert (H0 : exists bl0 c0,
              (if negb (c_mode c =? bc)
               then match flush blk c with
                    | (Out o1, c1) => inl (o1, set_mode c1 bc)
                    | (r, c1) => inr (r, c1)
                    end
               else inl ([], c)) = inl (enc_blocks (p_bcrc p =? 1) bl0, c0) /\
              Inv dk p maxb X c0 (bl ++ bl0) /\ c_mode c0 = bc).
    { destruct (negb (c_mode c =? bc)) eqn:Esw.
      - destruct (flush blk c) as [r c1] eqn:Ef.
        destruct (flush_inv dk p maxb X c bl r c1 Hp Hmax HI Ef) as [bl0 [Hr [HI1 [Ht1 Hm1]]]].
        subst r. exists bl0, (set_mode c1 bc). split; [reflexivity|].
        destruct HI1 as [[H1 H2 H3 H4 H5 H6 H7] HX1 Htmp1 Hxxh1 Htot1 Hmode1].
        split; [|reflexivity].
        constructor; cbn; try assumption.
        + constructor; assumption.
        + intros Hne. rewrite Ht1 in Hne. contradiction.
      - exists [], c. rewrite app_nil_r. split; [reflexivity|]. split; [exact HI|]. lia. }
    destruct H0 as [bl0 [c0 [E0 [HI0 Hmode0]]]]. rewrite E0 in H. clear E0.
    destruct HI0 as [HC0 HX0 Htmp0 Hxxh0 Htot0 _].
    rewrite (core_prefs _ _ _ _ _ (inv_core _ _ _ _ _ _ HI)) in H.
    rewrite (core_maxb _ _ _ _ _ (inv_core _ _ _ _ _ _ HI)) in H.
    set (f := selectCompression (p_blockMode p) (p_level p) bc) in *.
    (* stage 1: complete the tmp buffer *)
    assert (H1 : exists bl1 c1 rest1,
              (if 0 <? len (c_tmp c0)
               then if len src <? maxb - len (c_tmp c0)
                    then ([], set_tmp c0 (c_tmp c0 ++ src), [])
                    else let '(o1, c'0) := makeBlock blk c0 (c_tmp c0 ++ firstn (Z.to_nat (maxb - len (c_tmp c0))) src) f in
                         (o1, set_tmp c'0 [], skipn (Z.to_nat (maxb - len (c_tmp c0))) src)
               else ([], c0, src)) = (enc_blocks (p_bcrc p =? 1) bl1, c1, rest1) /\
              Core dk p maxb c1 (bl ++ bl0 ++ bl1) /\
              X ++ src = contents (bl ++ bl0 ++ bl1) ++ c_tmp c1 ++ rest1 /\
              len (c_tmp c1) < maxb /\
              (rest1 <> [] -> c_tmp c1 = []) /\
              c_xxh c1 = c_xxh c0 /\ c_totalIn c1 = c_totalIn c0 /\ c_mode c1 = c_mode c0).
    { destruct (0 <? len (c_tmp c0)) eqn:Et.
      - destruct (len src <? maxb - len (c_tmp c0)) eqn:Es.
        + exists [], (set_tmp c0 (c_tmp c0 ++ src)), []. rewrite !app_nil_r.
          split; [reflexivity|]. cbn.
          split; [destruct HC0; constructor; assumption|].
          split; [rewrite HX0, <- app_assoc; reflexivity|].
          split; [rewrite len_app; lia|]. repeat split; congruence.
        + destruct (makeBlock blk c0 (c_tmp c0 ++ firstn (Z.to_nat (maxb - len (c_tmp c0))) src) f) as [o1 c1] eqn:Em.
          assert (Hl : len (c_tmp c0 ++ firstn (Z.to_nat (maxb - len (c_tmp c0))) src) = maxb).
          { rewrite len_app. unfold len in *. rewrite firstn_length. lia. }
          destruct (makeBlock_core dk p maxb c0 (bl ++ bl0) (c_tmp c0 ++ firstn (Z.to_nat (maxb - len (c_tmp c0))) src) bc o1 c1 Hp Hmax HC0 ltac:(lia) Hbc Em)
            as [b [h [Ho1 [Hb [Hc1 HC1]]]]].
          exists [b], (set_tmp c1 []), (skipn (Z.to_nat (maxb - len (c_tmp c0))) src).
          split; [unfold enc_blocks; cbn [map concat]; rewrite app_nil_r, Ho1; reflexivity|].
          subst c1. cbn.
          split; [rewrite app_assoc; destruct HC1; constructor; assumption|].
          split.
          { rewrite HX0, !contents_app.
            assert (Hcb : contents [b] = b_content b) by (unfold contents; cbn [map concat]; apply app_nil_r).
            rewrite Hcb, Hb. rewrite <- !app_assoc. rewrite (firstn_skipn _ src). reflexivity. }
          split; [lia|]. repeat split; reflexivity.
      - exists [], c0, src. rewrite !app_nil_r.
        assert (Ht : c_tmp c0 = []) by (destruct (c_tmp c0); [reflexivity|unfold len in Et; cbn in Et; lia]).
        split; [reflexivity|]. split; [exact HC0|].
        split; [rewrite HX0, Ht, app_nil_r; reflexivity|].
        split; [exact Htmp0|]. repeat split; try reflexivity. intros _. exact Ht. }
    destruct H1 as [bl1 [c1 [rest1 [E1 [HC1 [HX1 [Htmp1 [Hr1 [Hxxh1 [Htot1 Hmode1]]]]]]]]]].
    rewrite E1 in H. clear E1.
    (* stage 2: full blocks *)
    destruct (fullBlocks blk (S (length rest1)) c1 f maxb rest1) as [[[o2 c2] rest2]|] eqn:E2; [|discriminate].
    destruct (fullBlocks_core _ dk p maxb c1 (bl ++ bl0 ++ bl1) rest1 bc o2 c2 rest2 Hp Hmax HC1 Hbc E2)
      as [bl2 [h2 [n2 [Ho2 [Hc2 [HC2 [Hs2 Hr2]]]]]]].
    (* stage 3: autoFlush tail *)
    assert (H3 : exists bl3 c3 rest3,
              (if negb (p_autoFlush p =? 0) && (0 <? len rest2)
               then let '(o3, c'0) := makeBlock blk c2 rest2 f in (o3, c'0, [])
               else ([], c2, rest2)) = (enc_blocks (p_bcrc p =? 1) bl3, c3, rest3) /\
              (exists h3 n3, c3 = with_blk c2 h3 n3) /\
              Core dk p maxb c3 ((bl ++ bl0 ++ bl1 ++ bl2) ++ bl3) /\
              rest2 = contents bl3 ++ rest3 /\ len rest3 < maxb).
    { assert (HC2' : Core dk p maxb c2 (bl ++ bl0 ++ bl1 ++ bl2)).
      { replace (bl ++ bl0 ++ bl1 ++ bl2) with ((bl ++ bl0 ++ bl1) ++ bl2) by (rewrite <- !app_assoc; reflexivity).
        exact HC2. }
      destruct (negb (p_autoFlush p =? 0) && (0 <? len rest2)) eqn:Ea.
      - destruct (makeBlock blk c2 rest2 f) as [o3 c3] eqn:Em.
        destruct (makeBlock_core dk p maxb c2 (bl ++ bl0 ++ bl1 ++ bl2) rest2 bc o3 c3 Hp Hmax HC2' ltac:(lia) Hbc Em)
          as [b [h [Ho3 [Hb [Hc3 HC3]]]]].
        exists [b], c3, [].
        split; [unfold enc_blocks; cbn [map concat]; rewrite app_nil_r, Ho3; reflexivity|].
        split; [exists h, (S (c_nblk c2)); exact Hc3|].
        split; [exact HC3|].
        split; [unfold contents; cbn [map concat]; rewrite Hb, !app_nil_r; reflexivity|cbn; lia].
      - exists [], c2, rest2. rewrite !app_nil_r.
        split; [reflexivity|]. split; [exists (c_hist c2), (c_nblk c2); destruct c2; reflexivity|].
        split; [exact HC2'|]. split; [reflexivity|exact Hr2]. }
    destruct H3 as [bl3 [c3 [rest3 [E3 [[h3 [n3 Hc3]] [HC3 [Hs3 Hr3]]]]]]].
    rewrite E3 in H. clear E3.
    inversion H; subst o c'. clear H.
    exists (bl0 ++ bl1 ++ bl2 ++ bl3).
    split; [rewrite !enc_blocks_app, Ho2; reflexivity|].
    assert (Hfields : c_tmp c3 = c_tmp c1 /\ c_xxh c3 = c_xxh c0 /\ c_totalIn c3 = c_totalIn c0).
    { subst c3 c2. cbn. repeat split; assumption. }
    destruct Hfields as [Ftmp [Fxxh Ftot]].
    assert (Hbl : bl ++ bl0 ++ bl1 ++ bl2 ++ bl3 = (bl ++ bl0 ++ bl1 ++ bl2) ++ bl3)
      by (rewrite <- !app_assoc; reflexivity).
    rewrite Hbl.
    assert (HXall : X ++ src = contents ((bl ++ bl0 ++ bl1 ++ bl2) ++ bl3) ++ c_tmp c1 ++ rest3).
    { rewrite HX1, Hs2, Hs3. rewrite !contents_app.
      destruct rest1 as [|x rest1'] eqn:Er.
      - (* nothing reached the block loops *)
        destruct (app_eq_nil _ _ (eq_sym Hs2)) as [Z2 Zr2].
        rewrite Zr2 in Hs3. destruct (app_eq_nil _ _ (eq_sym Hs3)) as [Z3 Zr3].
        rewrite Z2, Z3, Zr3, !app_nil_r. reflexivity.
      - rewrite (Hr1 ltac:(discriminate)). cbn [app]. rewrite <- !app_assoc. reflexivity. }
    destruct HC3 as [G1 G2 G3 G4 G5 G6 G7].
    constructor.
    - (* Core *)
      destruct (0 <? len rest3); constructor; cbn; assumption.
    - (* X *)
      rewrite HXall.
      destruct (0 <? len rest3) eqn:Er3; cbn.
      + assert (Hne : rest1 <> []).
        { intros Z1. rewrite Hs2 in Z1. destruct (app_eq_nil _ _ Z1) as [Z2 Zr2].
          rewrite Zr2 in Hs3. destruct (app_eq_nil _ _ (eq_sym Hs3)) as [Z3 Zr3].
          rewrite Zr3 in Er3. cbn in Er3. discriminate. }
        rewrite (Hr1 Hne). reflexivity.
      + assert (rest3 = []) by (destruct rest3; [reflexivity|unfold len in Er3; cbn in Er3; lia]).
        subst rest3. rewrite app_nil_r, Ftmp. reflexivity.
    - (* tmp *)
      destruct (0 <? len rest3); cbn; [exact Hr3|rewrite Ftmp; exact Htmp1].
    - (* xxh *)
      intros Ecc. specialize (Hxxh0 Ecc).
      assert (Exx : (p_ccrc p =? FC_contentChecksumEnabled) = true) by (rewrite Ecc; reflexivity).
      rewrite Exx.
      destruct (0 <? len rest3); cbn; rewrite Fxxh, Hxxh0; reflexivity.
    - (* totalIn *)
      intros Ecs. specialize (Htot0 Ecs).
      destruct (0 <? len rest3); cbn; rewrite Ftot, Htot0, len_app; unfold U64; zlia.
    - (* mode *)
      intros _ Elinked.
      assert (Hm3 : c_mode c3 = bc) by (subst c3 c2; cbn; rewrite Hmode1; exact Hmode0).
      destruct (0 <? len rest3); cbn; rewrite Hm3; apply Hbc; exact Elinked.
  Qed.

  (* ---- LZ4F_compressEnd ---- *)
  Lemma end_inv : forall dk p maxb X c bl tail c',
    prefs_norm p -> 0 < maxb < 2147483648 ->
    Inv dk p maxb X c bl -> len X < U64 ->
    compressEnd blk c = (Out tail, c') ->
    exists bl', tail = enc_blocks (p_bcrc p =? 1) bl' ++ le_bytes 4 0
                       ++ (if p_ccrc p =? 1 then le_bytes 4 (xxh32 0 X) else []) /\
                X = contents (bl ++ bl') /\
                chain bdec (p_blockMode p =? 1) (dict_of dk) maxb [] (bl ++ bl') /\
                (p_contentSize p <> 0 -> p_contentSize p = len X).
  Proof.
    intros dk p maxb X c bl tail c' Hp Hmax HI HX H.
    unfold compressEnd in H.
    destruct (flush blk c) as [r c1] eqn:Ef.
    destruct (flush_inv dk p maxb X c bl r c1 Hp Hmax HI Ef) as [bl' [Hr [HI1 [Ht1 _]]]].
    subst r. cbv zeta in H.
    destruct HI1 as [[H1 H2 H3 H4 H5 H6 H7] HX1 Htmp1 Hxxh1 Htot1 Hmode1].
    assert (Hpr : c_prefs (set_stage c1 0) = p) by (cbn; exact H1).
    rewrite Hpr, H1 in H.
    assert (Htot2 : c_totalIn (set_stage c1 0) = c_totalIn c1) by reflexivity.
    rewrite Htot2 in H.
    exists bl'.
    destruct (negb (p_contentSize p =? 0) && negb (p_contentSize p =? c_totalIn c1)) eqn:Ecs; [discriminate|].
    pose proof (f_equal (fun r => match r with (Out t, _) => t | _ => [] end) H) as Ho. cbv beta iota in Ho.
    pose proof Hp as [[_ [_ [Hcc _]]] _].
    split; [|split; [|split]].
    - rewrite <- Ho. rewrite !writeLE32_eq.
      destruct Hcc as [E | E]; rewrite E in *; cbn [Z.eqb Pos.eqb]; unfold FC_contentChecksumEnabled; cbn [Z.eqb Pos.eqb].
      + reflexivity.
      + rewrite (Hxxh1 eq_refl). reflexivity.
    - rewrite HX1, Ht1, app_nil_r. reflexivity.
    - exact H6.
    - intros Hne. specialize (Htot1 Hne). pose proof (len_nonneg X).
      rewrite Z.mod_small in Htot1 by lia. lia.
  Qed.

  (* a declared content size that differs from the real one makes compressEnd fail *)
  Lemma end_wrong : forall dk p maxb X c bl,
    prefs_norm p -> 0 < maxb < 2147483648 ->
    Inv dk p maxb X c bl -> len X < U64 ->
    p_contentSize p <> 0 -> p_contentSize p <> len X ->
    exists c', compressEnd blk c = (Err FC_ERR_frameSize_wrong, c').
  Proof.
    intros dk p maxb X c bl Hp Hmax HI HX Hne Hneq.
    unfold compressEnd.
    destruct (flush blk c) as [r c1] eqn:Ef.
    destruct (flush_inv dk p maxb X c bl r c1 Hp Hmax HI Ef) as [bl' [Hr [HI1 [Ht1 _]]]].
    subst r. cbv zeta.
    destruct HI1 as [[H1 H2 H3 H4 H5 H6 H7] HX1 Htmp1 Hxxh1 Htot1 Hmode1].
    assert (Hpr : c_prefs (set_stage c1 0) = p) by (cbn; exact H1).
    assert (Htot2 : c_totalIn (set_stage c1 0) = c_totalIn c1) by reflexivity.
    rewrite Hpr, Htot2. specialize (Htot1 Hne). pose proof (len_nonneg X).
    rewrite Z.mod_small in Htot1 by lia. rewrite Htot1.
    destruct (Z.eqb_spec (p_contentSize p) 0); [contradiction|].
    destruct (Z.eqb_spec (p_contentSize p) (len X)); [contradiction|].
    cbn [negb andb]. eexists. reflexivity.
  Qed.

  (* ---- any list of update / uncompressedUpdate / flush calls ---- *)
  Lemma run_mops_inv : forall dk p maxb ms X c bl body c',
    prefs_norm p -> 0 < maxb < 2147483648 ->
    Inv dk p maxb X c bl ->
    (forall m, In m ms -> is_uncompressed m = true -> p_blockMode p = 1) ->
    run_mops blk c ms = Some (body, c') ->
    exists bl', body = enc_blocks (p_bcrc p =? 1) bl' /\ Inv dk p maxb (X ++ mop_inputs ms) c' (bl ++ bl').
  Proof.
    induction ms as [|m ms IH]; intros X c bl body c' Hp Hmax HI Hunc H.
    - cbn in H. inversion H; subst body c'. exists []. cbn. rewrite !app_nil_r. split; [reflexivity|exact HI].
    - cbn [run_mops] in H.
      destruct (step_mop blk c m) as [r c1] eqn:Es.
      destruct r as [code|o|]; try discriminate.
      destruct (run_mops blk c1 ms) as [[o2 c2]|] eqn:Er; [|discriminate].
      inversion H; subst body c'. clear H.
      assert (Hstep : exists bl1 X1, o = enc_blocks (p_bcrc p =? 1) bl1 /\ Inv dk p maxb X1 c1 (bl ++ bl1) /\
                                      X1 ++ mop_inputs ms = X ++ mop_inputs (m :: ms)).
      { destruct m as [s|s|]; cbn [step_mop] in Es.
        - destruct (update_inv dk p maxb X c bl s FC_LZ4B_COMPRESSED o c1 Hp Hmax HI (fun _ => eq_refl) Es)
            as [bl1 [Ho HI1]].
          exists bl1, (X ++ s). split; [exact Ho|]. split; [exact HI1|]. cbn [mop_inputs]. rewrite app_assoc. reflexivity.
        - assert (Hind : p_blockMode p = 1) by (apply (Hunc (MUncompressed s)); [left; reflexivity|reflexivity]).
          destruct (update_inv dk p maxb X c bl s FC_LZ4B_UNCOMPRESSED o c1 Hp Hmax HI
                               ltac:(intros E; rewrite E in Hind; discriminate) Es) as [bl1 [Ho HI1]].
          exists bl1, (X ++ s). split; [exact Ho|]. split; [exact HI1|]. cbn [mop_inputs]. rewrite app_assoc. reflexivity.
        - destruct (flush_inv dk p maxb X c bl (Out o) c1 Hp Hmax HI Es) as [bl1 [Ho [HI1 _]]].
          exists bl1, X. split; [congruence|]. split; [exact HI1|]. reflexivity. }
      destruct Hstep as [bl1 [X1 [Ho [HI1 HX1]]]].
      destruct (IH X1 c1 (bl ++ bl1) o2 c2 Hp Hmax HI1 ltac:(intros m0 Hin; apply Hunc; right; exact Hin) Er)
        as [bl2 [Ho2 HI2]].
      exists (bl1 ++ bl2). split; [rewrite enc_blocks_app, Ho, Ho2; reflexivity|].
      rewrite <- HX1, app_assoc. exact HI2.
  Qed.

  (* ---- a whole frame ---- *)
  Theorem session_structure : forall c0 po dk ms F X,
    prefs_opt_ok po ->
    (forall m, In m ms -> is_uncompressed m = true -> p_blockMode (eff_prefs po) = 1) ->
    len X < U64 ->
    session blk c0 po dk ms = Some (F, X) ->
    exists maxb bl,
      let p := eff_prefs po in
      prefs_norm p /\ bsid_size (p_bsid p) = Some maxb /\
      F = header_bytes (desc_of p) ++ enc_blocks (p_bcrc p =? 1) bl ++ le_bytes 4 0
          ++ (if p_ccrc p =? 1 then le_bytes 4 (xxh32 0 X) else []) /\
      X = contents bl /\
      chain bdec (p_blockMode p =? 1) (dict_of dk) maxb [] bl /\
      (p_contentSize p <> 0 -> p_contentSize p = len X).
  Proof.
    intros c0 po dk ms F X Hpo Hunc HX H. unfold session in H.
    destruct (compressBegin c0 po dk) as [r c1] eqn:Eb.
    destruct r as [code|hdr|]; try discriminate.
    destruct (begin_inv c0 po dk hdr c1 Hpo Eb) as [p [maxb [Ep [Hp [Hmaxb [Hhdr HI]]]]]].
    pose proof (bsid_size_range _ _ Hmaxb) as Hmax.
    destruct (run_mops blk c1 ms) as [[body c2]|] eqn:Er; [|discriminate].
    rewrite <- Ep in Hunc.
    destruct (run_mops_inv dk p maxb ms [] c1 [] body c2 Hp Hmax HI Hunc Er) as [bl1 [Hbody HI2]].
    cbn [app] in HI2.
    destruct (compressEnd blk c2) as [r c3] eqn:Ee.
    destruct r as [code|tail|]; try discriminate.
    inversion H; subst F X. clear H.
    destruct (end_inv dk p maxb _ c2 bl1 tail c3 Hp Hmax HI2 HX Ee) as [bl2 [Htail [HXc [Hch Hcs]]]].
    exists maxb, (bl1 ++ bl2). cbv zeta. rewrite <- Ep.
    split; [exact Hp|]. split; [exact Hmaxb|].
    split; [rewrite Hhdr, Hbody, Htail, enc_blocks_app, <- !app_assoc; reflexivity|].
    split; [exact HXc|]. split; [exact Hch|exact Hcs].
  Qed.

  Theorem session_audit : forall c0 po dk ms F X,
    prefs_opt_ok po ->
    (forall m, In m ms -> is_uncompressed m = true -> p_blockMode (eff_prefs po) = 1) ->
    len X < U64 ->
    session blk c0 po dk ms = Some (F, X) ->
    exists nb, frame_audit bdec (dict_of dk) F = Some (desc_of (eff_prefs po), X, [], nb).
  Proof.
    intros c0 po dk ms F X Hpo Hunc HX H.
    destruct (session_structure c0 po dk ms F X Hpo Hunc HX H) as [maxb [bl Hs]]. cbv zeta in Hs.
    destruct Hs as [Hp [Hmaxb [HF [HXc [Hch Hcs]]]]].
    exists (Z.of_nat (length bl)).
    set (p := eff_prefs po) in *.
    pose proof (frame_audit_structured bdec (desc_of p) (dict_of dk) bl maxb [] (desc_of_wf p Hp) Hmaxb) as HA.
    cbn [f_indep f_bcrc f_ccrc f_csize f_bsid desc_of] in HA.
    rewrite app_nil_r in HA. rewrite HF, HXc. apply HA; [exact Hch|].
    destruct (Z.eqb_spec (p_contentSize p) 0) as [E|E]; [exact I|]. rewrite <- HXc. apply Hcs. exact E.
  Qed.
End Model.

(* ---- the fuel of the block loop always suffices ---- *)
Lemma flush_not_fuel : forall blk c, fst (flush blk c) <> OutOfFuel.
Proof.
  intros blk c. unfold flush.
  destruct (len (c_tmp c) =? 0); [cbn; discriminate|].
  destruct (negb (c_stage c =? 1)); [cbn; discriminate|].
  destruct (makeBlock blk c (c_tmp c) _) as [o c1]. cbn. discriminate.
Qed.

Theorem update_never_out_of_fuel : forall blk c src bc,
  0 < c_maxBlock c -> fst (compressUpdateImpl blk c src bc) <> OutOfFuel.
Proof.
  intros blk c src bc Hm. unfold compressUpdateImpl. cbv zeta.
  destruct (negb (c_stage c =? 1)); [cbn; discriminate|].
  set (st0 := if negb (c_mode c =? bc)
              then match flush blk c with
                   | (Out o, c1) => inl (o, set_mode c1 bc)
                   | (r, c1) => inr (r, c1)
                   end
              else inl ([], c)).
  assert (H0 : match st0 with inl _ => True | inr (r, _) => r <> OutOfFuel end).
  { unfold st0. destruct (negb (c_mode c =? bc)); [|exact I].
    pose proof (flush_not_fuel blk c) as Hf. destruct (flush blk c) as [r c1]. cbn [fst] in Hf.
    destruct r; [exact Hf|exact I|exact Hf]. }
  destruct st0 as [[o0 c0]|[r c1]]; [|cbn; exact H0].
  destruct (if 0 <? len (c_tmp c0) then _ else _) as [[o1 c1] rest1] eqn:E1.
  match goal with |- context [fullBlocks blk ?fuel ?cc ?f ?bs ?rest] =>
    pose proof (fullBlocks_fuel blk fuel cc f bs rest Hm ltac:(lia)) as Hfb2 end.
  destruct (fullBlocks blk (S (length rest1)) c1 _ (c_maxBlock c) rest1) as [[[o2 c2] rest2]|]; [|contradiction].
  destruct (if negb (p_autoFlush (c_prefs c) =? 0) && (0 <? len rest2) then _ else _) as [[o3 c3] rest3].
  cbn. discriminate.
Qed.

(* ---- an invalid blockSizeID is refused (lz4frame.c: FORWARD_IF_ERROR on LZ4F_getBlockSize) ---- *)
Definition bad_bsid (b : Z) : Prop := b <> 0 /\ (b < 4 \/ 7 < b).

Lemma getBlockSize_bad : forall b, bad_bsid b -> getBlockSize b = errZ FC_ERR_maxBlockSize_invalid.
Proof.
  intros b [Hn Hb]. unfold getBlockSize, LZ4F_max64KB, LZ4F_max4MB.
  destruct (Z.eqb_spec b 0); [contradiction|].
  replace ((b <? 4) || (7 <? b)) with true by lia. reflexivity.
Qed.

Theorem begin_rejects_bad_bsid : forall c0 po dk,
  bad_bsid (p_bsid (match po with Some p => p | None => prefs_null end)) ->
  exists c1, compressBegin c0 po dk = (Err FC_ERR_maxBlockSize_invalid, c1).
Proof.
  intros c0 po dk Hb.
  assert (Hgen : forall dictBuffer cdict, exists c1,
            compressBegin_internal c0 dictBuffer cdict po = (Err FC_ERR_maxBlockSize_invalid, c1)).
  { intros dictBuffer cdict. unfold compressBegin_internal. cbv zeta.
    set (p0 := match po with Some p => p | None => prefs_null end) in *.
    destruct (Z.eqb_spec (p_bsid p0) 0) as [E|E]; [destruct Hb; contradiction|].
    rewrite (getBlockSize_bad _ Hb).
    replace (isError (errZ FC_ERR_maxBlockSize_invalid)) with true by reflexivity.
    eexists. reflexivity. }
  unfold compressBegin. destruct dk; apply Hgen.
Qed.

Lemma optimalBSID_small : forall b s, b < 4 -> optimalBSID b s = b.
Proof.
  intros b s Hb. unfold optimalBSID, LZ4F_max64KB.
  destruct (Z.to_nat b); cbn [optimalBSID_loop]; [reflexivity|].
  replace (4 <? b) with false by lia. reflexivity.
Qed.

Theorem compressFrame_rejects_bad_bsid : forall blk c src cdict po,
  (let b := p_bsid (match po with Some p => p | None => prefs_null end) in b <> 0 /\ b < 4) ->
  exists c1, compressFrame_usingCDict blk c src cdict po = (Err FC_ERR_maxBlockSize_invalid, c1).
Proof.
  intros blk c src cdict po Hb. cbv zeta in Hb.
  unfold compressFrame_usingCDict. cbv zeta.
  set (p3 := compressFrame_prefs po (len src)).
  assert (Hp3 : bad_bsid (p_bsid p3)).
  { unfold p3, compressFrame_prefs. cbv zeta.
    set (p0 := match po with Some p => p | None => prefs_null end) in *.
    set (p1 := if negb (p_contentSize p0 =? 0) then set_contentSize p0 (len src) else p0).
    assert (B1 : p_bsid p1 = p_bsid p0) by (unfold p1; destruct (negb (p_contentSize p0 =? 0)); reflexivity).
    rewrite B1, optimalBSID_small by lia.
    destruct (len src <=? _); cbn; unfold bad_bsid; lia. }
  destruct (begin_rejects_bad_bsid c (Some p3) NoDict Hp3) as [c1 H1].
  assert (Hgen : exists c1, compressBegin_internal c None cdict (Some p3) = (Err FC_ERR_maxBlockSize_invalid, c1)).
  { unfold compressBegin_internal. cbv zeta.
    destruct (Z.eqb_spec (p_bsid p3) 0) as [E|E]; [destruct Hp3; contradiction|].
    rewrite (getBlockSize_bad _ Hp3).
    replace (isError (errZ FC_ERR_maxBlockSize_invalid)) with true by reflexivity.
    eexists. reflexivity. }
  destruct Hgen as [c2 H2]. rewrite H2. eexists. reflexivity.
Qed.

