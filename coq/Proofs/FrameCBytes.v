(* Byte-level facts used by the LZ4F compressor proofs: little-endian fields, the range of
   XXH32, the frame header written by the model is the header of the format document, and the
   descriptor parser of the document inverts it. *)
From Coq Require Import ZArith List Lia Bool.
From Coq Require Import ZifyBool.
From LZ4V Require Import Spec.BlockSpec Spec.XXH32 Spec.FrameSpec Gen.Consts Model.FrameC.
From LZ4V Require Import Proofs.BlockSpecProofs.
Import ListNotations.
Local Open Scope Z_scope.
Local Ltac zlia := Z.div_mod_to_equations; lia.

(* ---- little-endian fields ------------------------------------------------ *)
Lemma le_bytes_length : forall n v, length (le_bytes n v) = n.
Proof. induction n as [|n IH]; intros v; cbn [le_bytes length]; [reflexivity|]. rewrite IH. reflexivity. Qed.

Lemma le_val_le_bytes : forall n v, 0 <= v < 256 ^ Z.of_nat n -> le_val (le_bytes n v) = v.
Proof.
  induction n as [|n IH]; intros v H.
  - cbn in *. lia.
  - cbn [le_bytes le_val].
    rewrite Nat2Z.inj_succ, Z.pow_succ_r in H by lia.
    rewrite IH by zlia. zlia.
Qed.

Lemma le_val_le_bytes_4 : forall v, 0 <= v < 4294967296 -> le_val (le_bytes 4 v) = v.
Proof. intros v H. apply le_val_le_bytes. exact H. Qed.
Lemma le_val_le_bytes_8 : forall v, 0 <= v < 18446744073709551616 -> le_val (le_bytes 8 v) = v.
Proof. intros v H. apply le_val_le_bytes. exact H. Qed.

Lemma writeLE32_eq : forall v, writeLE32 v = le_bytes 4 v.
Proof.
  intros v. unfold writeLE32. cbn [le_bytes].
  rewrite !Z.div_div by lia. reflexivity.
Qed.
Lemma writeLE64_eq : forall v, writeLE64 v = le_bytes 8 v.
Proof.
  intros v. unfold writeLE64. cbn [le_bytes].
  rewrite !Z.div_div by lia. reflexivity.
Qed.

Lemma take_le_bytes : forall n v r, take n (le_bytes n v ++ r) = Some (le_bytes n v, r).
Proof. intros n v r. rewrite <- (le_bytes_length n v) at 1. apply take_app. Qed.

(* ---- XXH32 is a 32-bit value --------------------------------------------- *)
Lemma lxor_lt_pow2 : forall a b n, 0 <= n -> 0 <= a < 2 ^ n -> 0 <= b < 2 ^ n -> 0 <= Z.lxor a b < 2 ^ n.
Proof.
  intros a b n Hn Ha Hb. split.
  - apply Z.lxor_nonneg. split; lia.
  - destruct (Z.eq_dec (Z.lxor a b) 0) as [E|E].
    + rewrite E. apply Z.pow_pos_nonneg; lia.
    + assert (0 <= Z.lxor a b) by (apply Z.lxor_nonneg; split; lia).
      assert (0 < n).
      { destruct (Z.eq_dec n 0) as [->|]; [|lia]. change (2 ^ 0) with 1 in *.
        assert (a = 0) by lia. assert (b = 0) by lia. subst a b. cbn in E. congruence. }
      apply Z.log2_lt_pow2; [lia|].
      pose proof (Z.log2_lxor a b (proj1 Ha) (proj1 Hb)) as Hl.
      assert (Z.log2 a < n).
      { destruct (Z.eq_dec a 0) as [->|]; [cbn; lia|]. apply Z.log2_lt_pow2; lia. }
      assert (Z.log2 b < n).
      { destruct (Z.eq_dec b 0) as [->|]; [cbn; lia|]. apply Z.log2_lt_pow2; lia. }
      lia.
Qed.

Lemma u32_range : forall x, 0 <= u32 x < 4294967296.
Proof. intros x. unfold u32, M32. apply Z.mod_pos_bound. lia. Qed.

Lemma shiftr_range : forall h k, 0 <= k -> 0 <= h < 4294967296 -> 0 <= Z.shiftr h k < 4294967296.
Proof.
  intros h k Hk Hh. rewrite Z.shiftr_div_pow2 by lia.
  assert (0 < 2 ^ k) by (apply Z.pow_pos_nonneg; lia).
  split; [apply Z.div_pos; lia|].
  apply Z.le_lt_trans with h; [|lia].
  apply Z.div_le_upper_bound; [lia|]. nia.
Qed.

Lemma avalanche_range : forall h, 0 <= h < 4294967296 -> 0 <= avalanche h < 4294967296.
Proof.
  intros h Hh. unfold avalanche. cbv zeta.
  change 4294967296 with (2 ^ 32).
  apply lxor_lt_pow2; [lia| |].
  - change (2 ^ 32) with 4294967296. apply u32_range.
  - change (2 ^ 32) with 4294967296. apply shiftr_range; [lia|]. apply u32_range.
Qed.

Lemma tail1_range : forall l h, 0 <= h < 4294967296 -> 0 <= tail1 h l < 4294967296.
Proof.
  induction l as [|b l IH]; intros h Hh; cbn [tail1]; [exact Hh|].
  apply IH. apply u32_range.
Qed.

Lemma tail4_range : forall f h l, 0 <= h < 4294967296 -> 0 <= fst (tail4 f h l) < 4294967296.
Proof.
  induction f as [|f IH]; intros h l Hh; cbn [tail4]; [exact Hh|].
  destruct l as [|a0 [|a1 [|a2 [|a3 r]]]]; try exact Hh.
  apply IH. apply u32_range.
Qed.

Theorem xxh32_range : forall seed l, 0 <= xxh32 seed l < 4294967296.
Proof.
  intros seed l. unfold xxh32. cbv zeta.
  destruct (16 <=? Z.of_nat (length l)).
  - destruct (stripes (length l) (u32 (seed + P1 + P2)) (u32 (seed + P2)) (u32 seed) (u32 (seed - P1)) l)
      as [[[[v1 v2] v3] v4] rest].
    pose proof (tail4_range (length rest)
                  (u32 (u32 (rotl32 v1 1 + rotl32 v2 7 + rotl32 v3 12 + rotl32 v4 18) + Z.of_nat (length l)))
                  rest (u32_range _)) as Ht.
    destruct (tail4 (length rest) _ rest) as [h r2]. cbn [fst] in Ht.
    apply avalanche_range. apply tail1_range. exact Ht.
  - pose proof (tail4_range (length l) (u32 (u32 (seed + P5) + Z.of_nat (length l))) l (u32_range _)) as Ht.
    destruct (tail4 (length l) _ l) as [h r2]. cbn [fst] in Ht.
    apply avalanche_range. apply tail1_range. exact Ht.
Qed.

Lemma le_val_crc : forall l, le_val (le_bytes 4 (xxh32 0 l)) = xxh32 0 l.
Proof. intros l. apply le_val_le_bytes_4. apply xxh32_range. Qed.

(* ---- the uncompressed-block flag ------------------------------------------ *)
Lemma lor_flag : forall a, 0 <= a < 2147483648 -> Z.lor a 2147483648 = a + 2147483648.
Proof.
  intros a Ha.
  assert (E : Z.land a 2147483648 = 0).
  { apply Z.bits_inj'. intros i Hi. rewrite Z.land_spec, Z.bits_0.
    change 2147483648 with (2 ^ 31). rewrite Z.pow2_bits_eqb by lia.
    destruct (Z.eqb_spec 31 i) as [<-|]; [|apply andb_false_r].
    rewrite andb_true_r. apply Z.testbit_false; [lia|].
    change (2 ^ 31) with 2147483648. rewrite Z.div_small by lia. reflexivity. }
  rewrite <- Z.lxor_lor by exact E. symmetry. apply Z.add_nocarry_lxor. exact E.
Qed.

(* ---- frame header ----------------------------------------------------------- *)
(* preferences in their documented ranges *)
Definition prefs_ok (p : prefs) : Prop :=
  (p_bsid p = 0 \/ 4 <= p_bsid p <= 7) /\ (p_blockMode p = 0 \/ p_blockMode p = 1) /\
  (p_ccrc p = 0 \/ p_ccrc p = 1) /\ (p_bcrc p = 0 \/ p_bcrc p = 1) /\
  0 <= p_contentSize p < 18446744073709551616 /\ 0 <= p_dictID p < 4294967296.
(* the preferences as stored by compressBegin: block size id resolved *)
Definition prefs_norm (p : prefs) : Prop := prefs_ok p /\ 4 <= p_bsid p <= 7.

(* the descriptor the format document associates with the stored preferences *)
Definition desc_of (p : prefs) : fdesc :=
  mkDesc (p_blockMode p =? 1) (p_bcrc p =? 1)
         (if p_contentSize p =? 0 then None else Some (p_contentSize p)) (p_ccrc p =? 1)
         (if p_dictID p =? 0 then None else Some (p_dictID p)) (p_bsid p).

Definition desc_wf (d : fdesc) : Prop :=
  4 <= f_bsid d <= 7 /\
  match f_csize d with Some n => 0 <= n < 18446744073709551616 | None => True end /\
  match f_dictid d with Some n => 0 <= n < 4294967296 | None => True end.

Lemma desc_of_wf : forall p, prefs_norm p -> desc_wf (desc_of p).
Proof.
  intros p [[_ [_ [_ [_ [Hc Hd]]]]] Hb]. unfold desc_wf, desc_of. cbn.
  split; [exact Hb|]. split.
  - destruct (p_contentSize p =? 0); [exact I|exact Hc].
  - destruct (p_dictID p =? 0); [exact I|exact Hd].
Qed.

Lemma frame_header_spec : forall p, prefs_norm p -> frame_header p = header_bytes (desc_of p).
Proof.
  intros p [[_ [Hm [Hcc [Hbc [Hc Hd]]]]] Hb].
  unfold frame_header, header_bytes. rewrite writeLE32_eq.
  assert (Ed : descriptor p = descriptor_bytes (desc_of p)).
  { unfold descriptor, descriptor_bytes, desc_of. cbn [f_csize f_dictid f_indep f_bcrc f_ccrc f_bsid].
    assert (Ef : flg_byte p = flg_of (desc_of p)).
    { unfold flg_byte, flg_of, desc_of, b2z, FC_1BIT, FC_2BITS.
      cbn [f_csize f_dictid f_indep f_bcrc f_ccrc f_bsid].
      replace (0 <? p_contentSize p) with (negb (p_contentSize p =? 0)) by lia.
      replace (0 <? p_dictID p) with (negb (p_dictID p =? 0)) by lia.
      destruct Hm as [-> | ->], Hcc as [-> | ->], Hbc as [-> | ->];
        destruct (p_contentSize p =? 0), (p_dictID p =? 0); reflexivity. }
    assert (Eb : bd_byte p = bd_of (desc_of p)).
    { unfold bd_byte, bd_of, desc_of, FC_3BITS. cbn [f_bsid].
      assert (Hcases : p_bsid p = 4 \/ p_bsid p = 5 \/ p_bsid p = 6 \/ p_bsid p = 7) by lia.
      destruct Hcases as [-> | [-> | [-> | ->]]]; reflexivity. }
    rewrite Ef, Eb. unfold desc_of. cbn [f_csize f_dictid].
    destruct (p_contentSize p =? 0); destruct (p_dictID p =? 0); cbn [negb];
      rewrite ?writeLE64_eq, ?writeLE32_eq; reflexivity. }
  rewrite Ed. unfold headerChecksum, header_checksum. reflexivity.
Qed.

Lemma model_magic : LZ4F_MAGICNUMBER = MAGIC.
Proof. reflexivity. Qed.

(* bit fields of FLG as the document's parser reads them *)
Lemma flg_fields : forall a b c d e : bool,
  let flg := 64 + 32 * b2z a + 16 * b2z b + 8 * b2z c + 4 * b2z d + b2z e in
  (flg / 64) mod 4 = 1 /\ (flg / 32) mod 2 = b2z a /\ (flg / 16) mod 2 = b2z b /\
  (flg / 8) mod 2 = b2z c /\ (flg / 4) mod 2 = b2z d /\ (flg / 2) mod 2 = 0 /\ flg mod 2 = b2z e.
Proof. intros [|] [|] [|] [|] [|]; cbv; repeat split; reflexivity. Qed.

Lemma b2z_eqb1 : forall b, (b2z b =? 1) = b.
Proof. intros [|]; reflexivity. Qed.

Theorem parse_desc_header : forall d rest, desc_wf d ->
  parse_desc (descriptor_bytes d ++ [header_checksum (descriptor_bytes d)] ++ rest) = Some (d, rest).
Proof.
  intros [indep bcrc csize ccrc dictid bsid] rest [Hb [Hc Hd]].
  cbn [f_bsid f_csize f_dictid] in Hb, Hc, Hd.
  unfold descriptor_bytes. cbn [f_csize f_dictid f_indep f_bcrc f_ccrc f_bsid].
  set (cs := match csize with Some n => le_bytes 8 n | None => [] end).
  set (di := match dictid with Some n => le_bytes 4 n | None => [] end).
  set (flg := flg_of (mkDesc indep bcrc csize ccrc dictid bsid)).
  set (bd := bd_of (mkDesc indep bcrc csize ccrc dictid bsid)).
  assert (Hf : (flg / 64) mod 4 = 1 /\ (flg / 32) mod 2 = b2z indep /\ (flg / 16) mod 2 = b2z bcrc /\
               (flg / 8) mod 2 = b2z (match csize with Some _ => true | None => false end) /\
               (flg / 4) mod 2 = b2z ccrc /\ (flg / 2) mod 2 = 0 /\
               flg mod 2 = b2z (match dictid with Some _ => true | None => false end)).
  { exact (flg_fields indep bcrc (match csize with Some _ => true | None => false end) ccrc
                      (match dictid with Some _ => true | None => false end)). }
  destruct Hf as [F1 [F2 [F3 [F4 [F5 [F6 F7]]]]]].
  assert (B1 : bd / 128 = 0) by (unfold bd, bd_of; cbn [f_bsid]; zlia).
  assert (B2 : bd mod 16 = 0) by (unfold bd, bd_of; cbn [f_bsid]; zlia).
  assert (B3 : (bd / 16) mod 8 = bsid) by (unfold bd, bd_of; cbn [f_bsid]; zlia).
  cbn [app]. unfold parse_desc.
  rewrite F1, F6, B1, B2, B3, F2, F3, F4, F5, F7. cbn [Z.eqb negb Pos.eqb].
  assert (Hs : exists m, bsid_size bsid = Some m).
  { assert (Hcases : bsid = 4 \/ bsid = 5 \/ bsid = 6 \/ bsid = 7) by lia.
    destruct Hcases as [-> | [-> | [-> | ->]]]; eexists; reflexivity. }
  destruct Hs as [m Hs]. rewrite Hs.
  rewrite !b2z_eqb1.
  assert (T1 : take (if match csize with Some _ => true | None => false end then 8%nat else 0%nat)
                    (cs ++ di ++ header_checksum (flg :: bd :: cs ++ di) :: rest)
               = Some (cs, di ++ header_checksum (flg :: bd :: cs ++ di) :: rest)).
  { unfold cs. destruct csize as [n|]; [apply take_le_bytes|reflexivity]. }
  replace ((cs ++ di) ++ header_checksum (flg :: bd :: cs ++ di) :: rest)
    with (cs ++ di ++ header_checksum (flg :: bd :: cs ++ di) :: rest) by (rewrite app_assoc; reflexivity).
  rewrite T1.
  assert (T2 : take (if match dictid with Some _ => true | None => false end then 4%nat else 0%nat)
                    (di ++ header_checksum (flg :: bd :: cs ++ di) :: rest)
               = Some (di, header_checksum (flg :: bd :: cs ++ di) :: rest)).
  { unfold di. destruct dictid as [n|]; [apply take_le_bytes|reflexivity]. }
  rewrite T2. rewrite Z.eqb_refl.
  f_equal. f_equal. f_equal.
  - unfold cs. destruct csize as [n|]; [|reflexivity]. rewrite le_val_le_bytes_8 by exact Hc. reflexivity.
  - unfold di. destruct dictid as [n|]; [|reflexivity]. rewrite le_val_le_bytes_4 by exact Hd. reflexivity.
Qed.
