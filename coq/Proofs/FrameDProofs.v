(* C08 (model level): the stage machine of LZ4F_decompress keeps a well-formedness
   invariant, never writes its staging arrays out of bounds, terminates within its fuel,
   reports no more than it was given, and cannot livelock. *)
From Coq Require Import ZArith List Lia Bool.
From LZ4V Require Import Spec.BlockSpec Spec.XXH32 Spec.FrameSpec Gen.Consts Model.FrameD Proofs.FrameDHeader.
Import ListNotations.
Local Open Scope Z_scope.
Local Opaque xxh32.

(* ---- list arithmetic ---- *)
Lemma zlen_nonneg l : 0 <= zlen l.
Proof. unfold zlen. lia. Qed.
Lemma zlen_app a b : zlen (a ++ b) = zlen a + zlen b.
Proof. unfold zlen. rewrite app_length. lia. Qed.
Lemma zlen_ztake n l : 0 <= n <= zlen l -> zlen (ztake n l) = n.
Proof. unfold zlen, ztake. intro H. rewrite firstn_length. lia. Qed.
Lemma zlen_ztake_le n l : zlen (ztake n l) <= zlen l.
Proof. unfold zlen, ztake. rewrite firstn_length. lia. Qed.
Lemma zlen_zdrop n l : 0 <= n <= zlen l -> zlen (zdrop n l) = zlen l - n.
Proof. unfold zlen, zdrop. intro H. rewrite skipn_length. lia. Qed.
Lemma zlen_wr buf off data : 0 <= off -> zlen (wr buf off data) = off + zlen data.
Proof.
  intro H. unfold wr. rewrite zlen_app. unfold zlen. rewrite firstn_length, app_length, repeat_length. lia.
Qed.
Lemma zlen_nil : zlen [] = 0. Proof. reflexivity. Qed.

Ltac ss :=
  cbn [d_fi d_stage d_remaining d_maxBlock d_maxBuf d_tmpInCap d_tmpIn d_tmpInSize d_tmpInTarget d_hist
       d_tmpOut d_tmpOutStart d_xxh d_bxxh d_skip d_header d_oob
       set_fi set_stage set_remaining set_maxBlock set_maxBuf set_tmpInCap set_tmpIn set_tmpInSize
       set_tmpInTarget set_hist set_tmpOut set_tmpOutStart set_xxh set_bxxh set_skip set_header set_oob
       l_s l_src l_used l_out l_cap with_s adv emit hdr_write tmpin_write reset fst snd
       fi_blockSizeID fi_blockMode fi_ccFlag fi_frameType fi_contentSize fi_dictID fi_bcFlag
       r_consumed r_produced r_out r_ret r_fuel i_consumed i_info i_ret i_fuel] in *.

(* ---- the invariant ---- *)
Definition sizes_ok (mb : Z) : Prop :=
  mb = FD_blockSize_4 \/ mb = FD_blockSize_5 \/ mb = FD_blockSize_6 \/ mb = FD_blockSize_7.

(* tmpIn, once allocated, was sized for the block size that also determined maxBufferSize *)
Definition alloc_ok (s : dstate) : Prop :=
  d_maxBuf s = 0 \/
  exists mb, sizes_ok mb /\ d_tmpInCap s = mb + FD_BFSize /\ (d_maxBuf s = mb \/ d_maxBuf s = mb + FD_128KB).

Definition bc01 (s : dstate) : Prop := fi_bcFlag (d_fi s) = 0 \/ fi_bcFlag (d_fi s) = 1.
Definition past_init (s : dstate) : Prop :=
  sizes_ok (d_maxBlock s) /\ d_maxBlock s + FD_BFSize <= d_tmpInCap s /\ bc01 s.

(* while the header is being completed beyond minFHSize, the bytes already staged are the
   ones that fixed its size *)
Definition hdr_ext (s : dstate) : Prop :=
  d_tmpInTarget s = FD_minFHSize \/
  (zlen (d_header s) = d_tmpInSize s /\ FD_minFHSize <= d_tmpInSize s /\
   rd32 (d_header s) = FD_MAGICNUMBER /\
   exists FLG bm bc cs cc di, nth_error (d_header s) 4 = Some FLG /\
      flg_decode FLG = inr (bm, bc, cs, cc, di) /\ fh_size cs di = d_tmpInTarget s).

Definition stage_inv (s : dstate) : Prop :=
  match d_stage s with
  | GetFrameHeader => True
  | StoreFrameHeader => 0 <= d_tmpInSize s < d_tmpInTarget s /\ d_tmpInTarget s <= FD_header_array_size /\ hdr_ext s
  | Init => sizes_ok (d_maxBlock s) /\ bc01 s
  | GetBlockHeader => past_init s
  | StoreBlockHeader => past_init s /\ 0 <= d_tmpInSize s < FD_BHSize
  | CopyDirect => past_init s /\ 0 <= d_tmpInTarget s
  | GetBlockChecksum => past_init s /\ 0 <= d_tmpInSize s < 4
  | GetCBlock => past_init s /\ 0 <= d_tmpInTarget s <= d_maxBlock s + FD_BFSize
  | StoreCBlock => past_init s /\ 0 <= d_tmpInSize s < d_tmpInTarget s /\ d_tmpInTarget s <= d_maxBlock s + FD_BFSize
  | FlushOut => past_init s /\ 0 <= d_tmpOutStart s <= zlen (d_tmpOut s)
  | GetSuffix => past_init s
  | StoreSuffix => past_init s /\ 0 <= d_tmpInSize s < 4
  | GetSFrameSize => True
  | StoreSFrameSize => 0 <= d_tmpInSize s < d_tmpInTarget s /\ d_tmpInTarget s <= FD_header_array_size
  | SkipSkippable => 0 <= d_tmpInTarget s
  end.

Definition wf (s : dstate) : Prop := d_oob s = false /\ alloc_ok s /\ stage_inv s.

Lemma wf_init : wf dctx_init.
Proof. unfold wf, alloc_ok, stage_inv. simpl. auto. Qed.
Lemma wf_reset s : d_oob s = false -> alloc_ok s -> wf (reset s).
Proof. intros H1 H2. unfold wf, alloc_ok, stage_inv in *. ss. auto. Qed.

(* ---- bookkeeping of one call ---- *)
Definition acct (l l' : lst) : Prop :=
  l_used l <= l_used l' /\ zlen (l_src l') = zlen (l_src l) - (l_used l' - l_used l) /\
  0 <= l_cap l' <= l_cap l /\ zlen (l_out l') = zlen (l_out l) + (l_cap l - l_cap l').

Definition rank (st : dstage) : Z :=
  match st with CopyDirect | GetCBlock | FlushOut => 1 | _ => 0 end.
Definition mu (l : lst) : Z := 4 * zlen (l_src l) + rank (d_stage (l_s l)).

Definition prog (o : dopts) (l l' : lst) : Prop :=
  1 <= zlen (l_src l) -> 1 <= l_cap l -> o_dstnull o = false ->
  l_used l < l_used l' \/ l_cap l' < l_cap l.

(* what holds of the context even when a call fails *)
Definition safe (s : dstate) : Prop := d_oob s = false /\ alloc_ok s.

Definition postz (z : bool) (k : Z) (o : dopts) (l l' : lst) (oc : outcome) : Prop :=
  acct l l' /\
  match oc with
  | Continue => wf (l_s l') /\
                (zlen (l_src l') < zlen (l_src l) \/
                 (k = 1 /\ zlen (l_src l') = zlen (l_src l) /\ rank (d_stage (l_s l')) = 0))
  | Stop h => wf (l_s l') /\ (h = 0 \/ prog o l l')
  | Ret v => safe (l_s l') /\ (v < 0 \/ (z = true /\ zlen (l_src l) = 0 /\ wf (l_s l') /\ 0 < v))
  end.
Notation post := (postz false).

Definition base (l : lst) : Prop := 0 <= l_cap l /\ d_oob (l_s l) = false /\ alloc_ok (l_s l).

Lemma acct_refl l : 0 <= l_cap l -> acct l l.
Proof. unfold acct. lia. Qed.
Lemma acct_trans a b c : acct a b -> acct b c -> acct a c.
Proof. unfold acct. lia. Qed.

(* a step that first consumed input and then behaves like [post k] from the intermediate point *)
Lemma post_after_consume k o l l1 l' oc :
  acct l l1 -> l_used l < l_used l1 -> post k o l1 l' oc -> post 0 o l l' oc.
Proof.
  intros A U [A1 P]. split; [eapply acct_trans; eauto|].
  unfold acct in *. destruct oc.
  - destruct P as [W P]. split; [exact W|]. left. lia.
  - destruct P as [W P]. split; [exact W|]. destruct P as [P|P]; [left; exact P|]. right.
    unfold prog in *. intros. left. lia.
  - destruct P as [O P]. split; [exact O|]. left. destruct P as [P|[P _]]; [exact P|discriminate].
Qed.

Lemma post_weaken o l l' oc : post 0 o l l' oc -> forall z k, postz z k o l l' oc.
Proof.
  intros [A P] z k. split; [exact A|]. destruct oc; auto.
  - destruct P as [W [P|[P _]]]; [|discriminate]. split; auto.
  - destruct P as [O [P|[P _]]]; [auto|discriminate].
Qed.

(* ---- constants ---- *)
Lemma err_neg_all :
  err FD_ERR_frameHeader_incomplete < 0 /\ err FD_ERR_frameType_unknown < 0 /\ err FD_ERR_GENERIC < 0 /\
  err FD_ERR_headerChecksum_invalid < 0 /\ err FD_ERR_maxBlockSize_invalid < 0 /\
  err FD_ERR_blockChecksum_invalid < 0 /\ err FD_ERR_decompressionFailed < 0 /\
  err FD_ERR_contentChecksum_invalid < 0 /\ err FD_ERR_frameSize_wrong < 0.
Proof. vm_compute. repeat split; reflexivity. Qed.

Lemma fh_size_range cs di : FD_minFHSize <= fh_size cs di <= FD_header_array_size.
Proof. unfold fh_size, FD_minFHSize, FD_header_array_size. destruct (cs =? 0), (di =? 0); lia. Qed.

Lemma land1 x : Z.land x 1 = 0 \/ Z.land x 1 = 1.
Proof.
  assert (H : Z.land x 1 = x mod 2) by (change 1 with (Z.ones 1); rewrite Z.land_ones by lia; reflexivity).
  rewrite H. pose proof (Z.mod_pos_bound x 2). lia.
Qed.

Lemma bd_decode_ok BD id : bd_decode BD = inr id -> sizes_ok (blockSize_of_id id).
Proof.
  unfold bd_decode. destruct (negb _); [discriminate|].
  destruct (_ <? 4) eqn:E; [discriminate|]. destruct (negb _); [discriminate|].
  intro H; inversion H; subst; clear H. apply Z.ltb_ge in E.
  assert (B : Z.land (Z.shiftr BD 4) 7 <= 7).
  { assert (H : Z.land (Z.shiftr BD 4) 7 = (Z.shiftr BD 4) mod 8) by (change 7 with (Z.ones 3); rewrite Z.land_ones by lia; reflexivity).
    rewrite H. pose proof (Z.mod_pos_bound (Z.shiftr BD 4) 8). lia. }
  set (id := Z.land (Z.shiftr BD 4) 7) in *.
  assert (C : id = 4 \/ id = 5 \/ id = 6 \/ id = 7) by lia.
  unfold sizes_ok. destruct C as [->|[->|[->| ->]]]; vm_compute; auto.
Qed.

Lemma flg_decode_bc FLG bm bc cs cc di : flg_decode FLG = inr (bm, bc, cs, cc, di) -> bc = 0 \/ bc = 1.
Proof.
  unfold flg_decode. destruct (negb _); [discriminate|]. destruct (negb _); [discriminate|].
  intro H; inversion H; subst. apply land1.
Qed.

Ltac keep := split; [reflexivity|split; [reflexivity|]].

(* ---- LZ4F_decodeHeader: every outcome ---- *)
Lemma nth_error_some_of_len (l : list byte) k : Z.of_nat k < zlen l -> exists x, nth_error l k = Some x.
Proof.
  unfold zlen. intro H. destruct (nth_error l k) eqn:E; [eauto|]. apply nth_error_None in E. lia.
Qed.

Lemma decodeHeader_cases s b src s' r :
  decodeHeader s b src = (s', r) ->
  d_maxBuf s' = d_maxBuf s /\ d_tmpInCap s' = d_tmpInCap s /\ d_oob s' = d_oob s /\
  ( (r < 0 /\ (s' = s \/ s' = set_fi s fi_zero))
  \/ (b = true /\ d_stage s' = StoreSFrameSize /\ d_tmpInSize s' = zlen src /\ d_tmpInTarget s' = 8 /\
      Z.land (rd32 src) SKIP_MASK = FD_MAGIC_SKIPPABLE_START)
  \/ (b = false /\ r = 4 /\ FD_minFHSize <= zlen src /\ d_stage s' = GetSFrameSize /\
      Z.land (rd32 src) SKIP_MASK = FD_MAGIC_SKIPPABLE_START)
  \/ (d_stage s' = StoreFrameHeader /\ d_tmpInSize s' = zlen src /\ zlen src < d_tmpInTarget s' <= FD_header_array_size /\
      FD_minFHSize <= zlen src /\ r = zlen src /\
      (b = true -> d_header s' = d_header s) /\ rd32 src = FD_MAGICNUMBER /\
      exists FLG bm bc cs cc di, nth_error src 4 = Some FLG /\ flg_decode FLG = inr (bm, bc, cs, cc, di) /\
                                 fh_size cs di = d_tmpInTarget s')
  \/ (FD_minFHSize <= r <= zlen src /\ d_stage s' = Init /\ sizes_ok (d_maxBlock s') /\ bc01 s')).
Proof.
  pose proof err_neg_all as (E1 & E2 & E3 & E4 & _).
  unfold decodeHeader. intro H.
  destruct (zlen src <? FD_minFHSize) eqn:E7.
  { inversion H; subst. repeat (split; [reflexivity|]). left. auto. }
  apply Z.ltb_ge in E7.
  destruct (Z.land (rd32 src) SKIP_MASK =? FD_MAGIC_SKIPPABLE_START) eqn:ES.
  { apply Z.eqb_eq in ES. destruct b; inversion H; subst; ss; (split; [reflexivity|split; [reflexivity|split; [reflexivity|]]]).
    - right. left. auto.
    - right. right. left. auto. }
  destruct (negb (rd32 src =? FD_MAGICNUMBER)) eqn:EM.
  { inversion H; subst. ss. repeat (split; [reflexivity|]). left. auto. }
  apply negb_false_iff in EM. apply Z.eqb_eq in EM.
  destruct (nth_error_some_of_len src 4) as [FLG N4]; [unfold FD_minFHSize in E7; lia|].
  destruct (nth_error_some_of_len src 5) as [BD N5]; [unfold FD_minFHSize in E7; lia|].
  rewrite N4, N5 in H.
  destruct (flg_decode FLG) as [e|[[[[bm bc] cs] cc] di]] eqn:EF.
  { inversion H; subst. ss. repeat (split; [reflexivity|]). left. split; [eapply flg_decode_err; eauto|auto]. }
  pose proof (fh_size_range cs di) as FR.
  destruct (zlen src <? fh_size cs di) eqn:EL.
  { apply Z.ltb_lt in EL.
    assert (X : (FD_header_array_size <? zlen src) = false) by (apply Z.ltb_ge; lia).
    destruct b; inversion H; subst; ss; rewrite ?X, ?orb_false_r; repeat (split; [reflexivity|]);
      right; right; right; left; repeat split; auto; try lia; try discriminate;
      exists FLG, bm, bc, cs, cc, di; auto. }
  apply Z.ltb_ge in EL.
  destruct (bd_decode BD) as [e|id] eqn:EB.
  { inversion H; subst. ss. repeat (split; [reflexivity|]). left. split; [eapply bd_decode_err; eauto|auto]. }
  destruct (nth_error_some_of_len src (Z.to_nat (fh_size cs di - 1))) as [hcb NH]; [unfold FD_minFHSize in FR; lia|].
  rewrite NH in H.
  destruct (negb _).
  { inversion H; subst. ss. repeat (split; [reflexivity|]). left. auto. }
  inversion H; subst; clear H.
  assert (S1 := bd_decode_ok _ _ EB). assert (S2 := flg_decode_bc _ _ _ _ _ _ EF).
  destruct (cs =? 0); ss; repeat (split; [reflexivity|]); right; right; right; right; unfold bc01; ss; repeat split; auto; lia.
Qed.

(* ---- tactics for the per-stage lemmas ---- *)
Lemma rd32_nonneg l : 0 <= rd32 l.
Proof. unfold rd32, u32, M32. pose proof (Z.mod_pos_bound (le_val (ztake 4 l)) 4294967296). lia. Qed.

Ltac acct_tac :=
  unfold acct; ss;
  repeat first [rewrite zlen_zdrop by lia | rewrite zlen_app | rewrite zlen_ztake by lia]; lia.

(* [past_init] and [alloc_ok] only look at fields that the stages do not touch *)
Lemma past_init_eq s s' :
  d_maxBlock s' = d_maxBlock s -> d_tmpInCap s' = d_tmpInCap s -> fi_bcFlag (d_fi s') = fi_bcFlag (d_fi s) ->
  past_init s -> past_init s'.
Proof. unfold past_init, bc01. intros -> -> ->. auto. Qed.
Lemma alloc_ok_eq s s' :
  d_maxBuf s' = d_maxBuf s -> d_tmpInCap s' = d_tmpInCap s -> alloc_ok s -> alloc_ok s'.
Proof. unfold alloc_ok. intros -> ->. auto. Qed.

Ltac pi_tac := (eapply past_init_eq; [| | |eassumption]; reflexivity).
Ltac al_tac := (eapply alloc_ok_eq; [| |eassumption]; reflexivity).
Ltac safe_tac :=
  unfold safe; ss; split; [first [congruence | auto]
                          | first [assumption | al_tac | (eapply alloc_ok_eq; [| |eassumption]; ss; congruence)]].

(* ---- skippable frames ---- *)
Lemma skipSkippable_post o l :
  base l -> d_stage (l_s l) = SkipSkippable -> 0 <= d_tmpInTarget (l_s l) ->
  post 0 o l (fst (do_skipSkippable l)) (snd (do_skipSkippable l)).
Proof.
  intros (Hc & Ho & Ha) Hst Ht. unfold do_skipSkippable.
  set (n := Z.min (d_tmpInTarget (l_s l)) (zlen (l_src l))).
  pose proof (zlen_nonneg (l_src l)) as Hl.
  assert (Hn : 0 <= n <= zlen (l_src l)) by (unfold n; lia).
  ss. destruct (negb (d_tmpInTarget (l_s l) - n =? 0)) eqn:E; ss.
  - split; [acct_tac|]. split.
    + unfold wf, stage_inv; ss. rewrite Hst. repeat split; auto; try al_tac; unfold n in *; lia.
    + right. unfold prog; ss. intros. left.
      apply negb_true_iff in E. apply Z.eqb_neq in E. unfold n in *. lia.
  - split; [acct_tac|]. split; [|left; reflexivity].
    apply wf_reset; ss; auto; try al_tac.
Qed.

Lemma hdr_write_eq s piece n :
  d_oob s = false -> d_tmpInSize s + n <= FD_header_array_size ->
  hdr_write s piece n
  = set_tmpInSize (set_oob (set_header s (wr (d_header s) (d_tmpInSize s) piece)) false) (d_tmpInSize s + n).
Proof.
  intros H1 H2. unfold hdr_write. rewrite H1.
  replace (FD_header_array_size <? d_tmpInSize s + n) with false by (symmetry; apply Z.ltb_ge; lia). reflexivity.
Qed.
Lemma tmpin_write_eq s piece n :
  d_oob s = false -> d_tmpInSize s + n <= d_tmpInCap s ->
  tmpin_write s piece n
  = set_tmpInSize (set_oob (set_tmpIn s (wr (d_tmpIn s) (d_tmpInSize s) piece)) false) (d_tmpInSize s + n).
Proof.
  intros H1 H2. unfold tmpin_write. rewrite H1.
  replace (d_tmpInCap s <? d_tmpInSize s + n) with false by (symmetry; apply Z.ltb_ge; lia). reflexivity.
Qed.

Ltac wf_tac Hst :=
  unfold wf, stage_inv; ss; try rewrite Hst; repeat split; auto; try al_tac; try pi_tac; try lia.

Lemma sframeSize_post o l sel :
  base l -> post 1 o l (fst (do_sframeSize l sel)) (snd (do_sframeSize l sel)).
Proof.
  intros (Hc & Ho & Ha). unfold do_sframeSize. ss.
  split; [acct_tac|]. split.
  - pose proof (rd32_nonneg sel). wf_tac Ho.
  - right. repeat split; auto.
Qed.

Lemma storeSFrameSize_post o l :
  base l -> d_stage (l_s l) = StoreSFrameSize ->
  0 <= d_tmpInSize (l_s l) < d_tmpInTarget (l_s l) -> d_tmpInTarget (l_s l) <= FD_header_array_size ->
  post 0 o l (fst (do_storeSFrameSize l)) (snd (do_storeSFrameSize l)).
Proof.
  intros (Hc & Ho & Ha) Hst Hs Ht. unfold do_storeSFrameSize.
  set (n := Z.min (d_tmpInTarget (l_s l) - d_tmpInSize (l_s l)) (zlen (l_src l))).
  pose proof (zlen_nonneg (l_src l)) as Hl.
  assert (Hn : 0 <= n <= zlen (l_src l) /\ n <= d_tmpInTarget (l_s l) - d_tmpInSize (l_s l)) by (unfold n; lia).
  rewrite (hdr_write_eq (l_s l) _ n) by (auto; lia). ss.
  destruct (d_tmpInSize (l_s l) + n <? d_tmpInTarget (l_s l)) eqn:E.
  - apply Z.ltb_lt in E. ss. split; [acct_tac|]. split.
    + wf_tac Hst.
    + right. unfold prog; ss. intros. left. unfold n in *. lia.
  - apply Z.ltb_ge in E.
    match goal with |- postz _ _ _ _ (fst (do_sframeSize ?l1 ?sel)) _ =>
      eapply (post_after_consume 1 o l l1); [acct_tac| ss; unfold n in *; lia | apply sframeSize_post] end.
    repeat split; ss; auto; try al_tac.
Qed.

Lemma getSFrameSize_post o l :
  base l -> post 0 o l (fst (do_getSFrameSize l)) (snd (do_getSFrameSize l)).
Proof.
  intros (Hc & Ho & Ha). unfold do_getSFrameSize.
  pose proof (zlen_nonneg (l_src l)) as Hl.
  destruct (4 <=? zlen (l_src l)) eqn:E.
  - apply Z.leb_le in E.
    eapply (post_after_consume 1 o l (adv l 4)); [acct_tac| ss; lia | apply sframeSize_post].
    repeat split; ss; auto.
  - apply Z.leb_gt in E.
    match goal with |- postz _ _ _ _ (fst (do_storeSFrameSize ?l1)) _ =>
      change (post 0 o l (fst (do_storeSFrameSize l1)) (snd (do_storeSFrameSize l1)))
        with (post 0 o l1 (fst (do_storeSFrameSize l1)) (snd (do_storeSFrameSize l1))) end.
    apply storeSFrameSize_post; ss; try lia; try reflexivity.
    + repeat split; ss; auto; try al_tac.
    + unfold FD_header_array_size. lia.
Qed.

(* ---- composition ---- *)
Lemma post_compose k o l l1 l' oc :
  acct l l1 -> l_cap l1 = l_cap l -> post k o l1 l' oc -> post k o l l' oc.
Proof.
  intros A C [A1 P]. split; [eapply acct_trans; eauto|].
  unfold acct in *. destruct oc.
  - destruct P as [W P]. split; [exact W|]. destruct P as [P|(P1 & P2 & P3)]; [left; lia|].
    destruct (Z.eq_dec (zlen (l_src l1)) (zlen (l_src l))); [right; repeat split; auto; lia|left; lia].
  - destruct P as [W P]. split; [exact W|]. destruct P as [P|P]; [left; exact P|]. right.
    unfold prog in *. intros H1 H2 H3.
    destruct (Z.eq_dec (l_used l1) (l_used l)) as [e|e]; [|left; lia].
    destruct P; auto; try lia.
  - destruct P as [O [P|[P _]]]; [auto|discriminate].
Qed.

(* bookkeeping updates leave the control fields alone *)
Definition core_eq (s s' : dstate) : Prop :=
  d_fi s' = d_fi s /\ d_stage s' = d_stage s /\ d_maxBlock s' = d_maxBlock s /\ d_maxBuf s' = d_maxBuf s /\
  d_tmpInCap s' = d_tmpInCap s /\ d_tmpInSize s' = d_tmpInSize s /\ d_tmpInTarget s' = d_tmpInTarget s /\
  d_tmpOut s' = d_tmpOut s /\ d_tmpOutStart s' = d_tmpOutStart s /\ d_oob s' = d_oob s /\ d_skip s' = d_skip s.
Lemma core_eq_refl s : core_eq s s.
Proof. unfold core_eq. repeat split. Qed.
Lemma upd_link_core s p : core_eq s (upd_link s p).
Proof. unfold upd_link. destruct (linked s); unfold core_eq; ss; repeat split. Qed.
Lemma upd_decoded_core s c : core_eq s (upd_decoded s c).
Proof.
  unfold upd_decoded. destruct (negb _ && negb _); destruct (_ =? 0); unfold core_eq; ss; repeat split.
Qed.
Lemma upd_copy_core s p n : core_eq s (upd_copy s p n).
Proof.
  unfold upd_copy.
  match goal with |- core_eq s (upd_link ?x p) => assert (C : core_eq s x) end.
  { destruct (d_skip s); [|destruct (fi_bcFlag (d_fi s) =? 0); destruct (fi_ccFlag (d_fi s) =? 0)];
      destruct (fi_contentSize (d_fi s) =? 0); unfold core_eq; ss; repeat split. }
  match goal with |- core_eq s (upd_link ?x p) => pose proof (upd_link_core x p) as D end.
  unfold core_eq in *. intuition congruence.
Qed.

Lemma past_init_cap s : past_init s -> 4 <= d_tmpInCap s /\ d_maxBlock s + 4 <= d_tmpInCap s /\ 65536 <= d_maxBlock s.
Proof.
  unfold past_init, sizes_ok, FD_BFSize, FD_blockSize_4, FD_blockSize_5, FD_blockSize_6, FD_blockSize_7. lia.
Qed.
Lemma past_init_core s s' : core_eq s s' -> past_init s -> past_init s'.
Proof. unfold core_eq, past_init, bc01. intros (-> & _ & -> & _ & -> & _). auto. Qed.
Lemma alloc_ok_core s s' : core_eq s s' -> alloc_ok s -> alloc_ok s'.
Proof. unfold core_eq, alloc_ok. intros (_ & _ & _ & -> & -> & _). auto. Qed.

(* ---- content checksum (suffix) ---- *)
Lemma checkSuffix_post k o l sel :
  base l -> post k o l (fst (do_checkSuffix l sel)) (snd (do_checkSuffix l sel)).
Proof.
  intros (Hc & Ho & Ha). unfold do_checkSuffix.
  pose proof err_neg_all as E.
  destruct (negb (d_skip (l_s l)) && negb _); ss.
  - split; [acct_tac|]. ss; split; [safe_tac|left; tauto].
  - split; [acct_tac|]. split; [|left; reflexivity]. apply wf_reset; ss; auto.
Qed.

Lemma storeSuffix_post o l :
  base l -> d_stage (l_s l) = StoreSuffix -> past_init (l_s l) -> 0 <= d_tmpInSize (l_s l) < 4 ->
  post 0 o l (fst (do_storeSuffix l)) (snd (do_storeSuffix l)).
Proof.
  intros (Hc & Ho & Ha) Hst Hp Hs. unfold do_storeSuffix.
  set (n := Z.min (4 - d_tmpInSize (l_s l)) (zlen (l_src l))).
  pose proof (zlen_nonneg (l_src l)) as Hl. pose proof (past_init_cap _ Hp) as Hcap.
  assert (Hn : 0 <= n <= zlen (l_src l) /\ n <= 4 - d_tmpInSize (l_s l)) by (unfold n; lia).
  rewrite (tmpin_write_eq (l_s l) _ n) by (auto; lia). ss.
  destruct (d_tmpInSize (l_s l) + n <? 4) eqn:E.
  - apply Z.ltb_lt in E. ss. split; [acct_tac|]. split.
    + wf_tac Hst.
    + right. unfold prog; ss. intros. left. unfold n in *. lia.
  - apply Z.ltb_ge in E.
    match goal with |- postz _ _ _ _ (fst (do_checkSuffix ?l1 ?sel)) _ =>
      eapply (post_after_consume 0 o l l1); [acct_tac| ss; unfold n in *; lia | apply checkSuffix_post] end.
    repeat split; ss; auto; try al_tac.
Qed.

Lemma getSuffix_post o l :
  base l -> d_stage (l_s l) = GetSuffix -> past_init (l_s l) ->
  post 0 o l (fst (do_getSuffix l)) (snd (do_getSuffix l)).
Proof.
  intros (Hc & Ho & Ha) Hst Hp. unfold do_getSuffix.
  pose proof (zlen_nonneg (l_src l)) as Hl. pose proof err_neg_all as E.
  destruct (negb (d_remaining (l_s l) =? 0)).
  { ss. split; [acct_tac|]. ss; split; [safe_tac|left; tauto]. }
  destruct (fi_ccFlag (d_fi (l_s l)) =? 0).
  { ss. split; [acct_tac|]. split; [|left; reflexivity]. apply wf_reset; ss; auto. }
  destruct (zlen (l_src l) <? 4) eqn:E4.
  - apply Z.ltb_lt in E4.
    match goal with |- postz _ _ _ _ (fst (do_storeSuffix ?l1)) _ =>
      change (post 0 o l (fst (do_storeSuffix l1)) (snd (do_storeSuffix l1)))
        with (post 0 o l1 (fst (do_storeSuffix l1)) (snd (do_storeSuffix l1))) end.
    apply storeSuffix_post; ss; try lia; try reflexivity.
    + repeat split; ss; auto; try al_tac.
    + pi_tac.
  - apply Z.ltb_ge in E4.
    eapply (post_after_consume 0 o l (adv l 4)); [acct_tac| ss; lia | apply checkSuffix_post].
    repeat split; ss; auto.
Qed.

(* ---- block checksum of an uncompressed block ---- *)
Lemma blockChecksum_check_post o l crc :
  base l -> past_init (l_s l) ->
  post 1 o l (fst (do_blockChecksum_check l crc)) (snd (do_blockChecksum_check l crc)).
Proof.
  intros (Hc & Ho & Ha) Hp. unfold do_blockChecksum_check.
  pose proof err_neg_all as E.
  destruct (negb (d_skip (l_s l)) && negb _); ss.
  - split; [acct_tac|]. ss; split; [safe_tac|left; tauto].
  - split; [acct_tac|]. split; [wf_tac Ho|]. right. repeat split; auto.
Qed.

Lemma getBlockChecksum_post o l :
  base l -> d_stage (l_s l) = GetBlockChecksum -> past_init (l_s l) -> 0 <= d_tmpInSize (l_s l) < 4 ->
  post 0 o l (fst (do_getBlockChecksum l)) (snd (do_getBlockChecksum l)).
Proof.
  intros (Hc & Ho & Ha) Hst Hp Hs. unfold do_getBlockChecksum.
  pose proof (zlen_nonneg (l_src l)) as Hl.
  destruct ((4 <=? zlen (l_src l)) && (d_tmpInSize (l_s l) =? 0)) eqn:E.
  - apply andb_prop in E. destruct E as [E1 E2]. apply Z.leb_le in E1.
    eapply (post_after_consume 1 o l (adv l 4)); [acct_tac| ss; lia | apply blockChecksum_check_post].
    + repeat split; ss; auto.
    + ss. auto.
  - set (n := Z.min (4 - d_tmpInSize (l_s l)) (zlen (l_src l))).
    assert (Hn : 0 <= n <= zlen (l_src l) /\ n <= 4 - d_tmpInSize (l_s l)) by (unfold n; lia).
    rewrite (hdr_write_eq (l_s l) _ n) by (auto; unfold FD_header_array_size; lia). ss.
    destruct (d_tmpInSize (l_s l) + n <? 4) eqn:E4.
    + apply Z.ltb_lt in E4. ss. split; [acct_tac|]. split.
      * wf_tac Hst.
      * right. unfold prog; ss. intros. left. unfold n in *. lia.
    + apply Z.ltb_ge in E4.
      match goal with |- postz _ _ _ _ (fst (do_blockChecksum_check ?l1 ?sel)) _ =>
        eapply (post_after_consume 1 o l l1); [acct_tac| ss; unfold n in *; lia | apply blockChecksum_check_post] end.
      * repeat split; ss; auto; try al_tac.
      * ss. pi_tac.
Qed.

(* ---- flushing tmpOut ---- *)
Section Stages.
Variable bdec : list byte -> list byte -> option (list byte).

Lemma flushOut_post o l :
  base l -> d_stage (l_s l) = FlushOut -> past_init (l_s l) ->
  0 <= d_tmpOutStart (l_s l) <= zlen (d_tmpOut (l_s l)) ->
  post 1 o l (fst (do_flushOut o l)) (snd (do_flushOut o l)).
Proof.
  intros (Hc & Ho & Ha) Hst Hp Hs. unfold do_flushOut.
  destruct (o_dstnull o) eqn:Hnull.
  - ss. destruct (d_tmpOutStart (l_s l) =? zlen (d_tmpOut (l_s l))) eqn:E; ss.
    + split; [acct_tac|]. split; [wf_tac Ho|]. right. repeat split; auto.
    + split; [acct_tac|]. split; [wf_tac Hst|]. right. unfold prog. intros; congruence.
  - set (n := Z.min (zlen (d_tmpOut (l_s l)) - d_tmpOutStart (l_s l)) (l_cap l)).
    assert (Hn : 0 <= n <= l_cap l /\ n <= zlen (d_tmpOut (l_s l)) - d_tmpOutStart (l_s l)) by (unfold n; lia).
    set (piece := ztake n (zdrop (d_tmpOutStart (l_s l)) (d_tmpOut (l_s l)))).
    assert (Hpl : zlen piece = n).
    { unfold piece. rewrite zlen_ztake; [reflexivity|]. rewrite zlen_zdrop by lia. lia. }
    pose proof (upd_link_core (l_s l) piece) as C.
    set (s1 := upd_link (l_s l) piece) in *.
    destruct C as (C1 & C2 & C3 & C4 & C5 & C6 & C7 & C8 & C9 & C10 & C11).
    assert (Hp1 : past_init s1) by (eapply past_init_core; [|exact Hp]; unfold core_eq; repeat split; auto).
    assert (Ha1 : alloc_ok s1) by (eapply alloc_ok_core; [|exact Ha]; unfold core_eq; repeat split; auto).
    ss. rewrite C8, C9.
    destruct (d_tmpOutStart (l_s l) + n =? zlen (d_tmpOut (l_s l))) eqn:E; ss.
    + split; [unfold acct; ss; rewrite zlen_app, Hpl; lia|]. split.
      * unfold wf, stage_inv; ss. repeat split; auto; try (rewrite C10; auto); try al_tac; try pi_tac.
      * right. repeat split; auto.
    + apply Z.eqb_neq in E.
      split; [unfold acct; ss; rewrite zlen_app, Hpl; lia|]. split.
      * unfold wf, stage_inv; ss. rewrite C2, Hst, C8. repeat split; auto; try (rewrite C10; auto); try al_tac; try pi_tac; try lia.
      * right. unfold prog; ss. intros. right. unfold n in *. lia.
Qed.

(* ---- a complete compressed block is available ---- *)
Lemma cblock_post o l sel :
  base l -> past_init (l_s l) ->
  post 1 o l (fst (do_cblock bdec o l sel)) (snd (do_cblock bdec o l sel)).
Proof.
  intros (Hc & Ho & Ha) Hp. unfold do_cblock.
  pose proof err_neg_all as E.
  set (sc := if fi_bcFlag (d_fi (l_s l)) =? 0 then (l_s l, true) else _).
  assert (Hsc : core_eq (l_s l) (set_tmpInTarget (fst sc) (d_tmpInTarget (l_s l)))).
  { unfold sc. destruct (fi_bcFlag (d_fi (l_s l)) =? 0); unfold core_eq; ss; repeat split. }
  destruct sc as [s0 crcok]. cbn [fst] in Hsc.
  destruct Hsc as (C1 & C2 & C3 & C4 & C5 & C6 & _ & C8 & C9 & C10 & C11). ss.
  assert (Hp0 : past_init s0) by (eapply past_init_eq; [| | |exact Hp]; congruence).
  assert (Ha0 : alloc_ok s0) by (eapply alloc_ok_eq; [| |exact Ha]; congruence).
  destruct (negb crcok).
  { ss. split; [acct_tac|]. ss; split; [safe_tac|left; tauto]. }
  match goal with |- context [match ?d with Some c => _ | None => _ end] => destruct d as [c|] eqn:ED end.
  2:{ ss. split; [acct_tac|]. ss; split; [safe_tac|left; tauto]. }
  assert (Hcl : zlen c <= d_maxBlock s0).
  { destruct (bdec _ _) as [c'|]; [|discriminate].
    destruct (zlen c' <=? d_maxBlock s0) eqn:EL; inversion ED; subst. apply Z.leb_le in EL. exact EL. }
  pose proof (upd_decoded_core s0 c) as D.
  set (s1 := upd_decoded s0 c) in *.
  destruct D as (D1 & D2 & D3 & D4 & D5 & D6 & D7 & D8 & D9 & D10 & D11).
  assert (Hp1 : past_init s1) by (eapply past_init_core; [|exact Hp0]; unfold core_eq; repeat split; auto).
  assert (Ha1 : alloc_ok s1) by (eapply alloc_ok_core; [|exact Ha0]; unfold core_eq; repeat split; auto).
  pose proof (zlen_nonneg c) as Hc0.
  destruct (d_maxBlock s1 <=? l_cap l) eqn:EC.
  - apply Z.leb_le in EC.
    pose proof (upd_link_core s1 c) as F.
    set (s2 := upd_link s1 c) in *.
    destruct F as (F1 & F2 & F3 & F4 & F5 & F6 & F7 & F8 & F9 & F10 & F11).
    ss. split; [unfold acct; ss; rewrite zlen_app; lia|]. split.
    + unfold wf, stage_inv; ss. split; [congruence|]. split.
      * eapply alloc_ok_eq; [| |exact Ha1]; ss; congruence.
      * eapply past_init_eq; [| | |exact Hp1]; ss; congruence.
    + right. repeat split; auto.
  - match goal with |- postz _ _ _ _ (fst (do_flushOut o ?l1)) _ =>
      change (post 1 o l (fst (do_flushOut o l1)) (snd (do_flushOut o l1)))
        with (post 1 o l1 (fst (do_flushOut o l1)) (snd (do_flushOut o l1))) end.
    apply flushOut_post; ss; try reflexivity; try lia.
    + repeat split; ss; try congruence. al_tac.
    + pi_tac.
Qed.

Lemma getCBlock_post o l :
  base l -> d_stage (l_s l) = GetCBlock -> past_init (l_s l) ->
  0 <= d_tmpInTarget (l_s l) <= d_maxBlock (l_s l) + FD_BFSize ->
  post 1 o l (fst (do_getCBlock bdec o l)) (snd (do_getCBlock bdec o l)).
Proof.
  intros (Hc & Ho & Ha) Hst Hp Ht. unfold do_getCBlock.
  pose proof (zlen_nonneg (l_src l)) as Hl.
  destruct (zlen (l_src l) <? d_tmpInTarget (l_s l)) eqn:E.
  - apply Z.ltb_lt in E. ss. split; [acct_tac|]. split; [wf_tac Ho|].
    right. repeat split; auto.
  - apply Z.ltb_ge in E.
    eapply (post_compose 1 o l (adv l (d_tmpInTarget (l_s l)))); [acct_tac|reflexivity|].
    apply cblock_post; ss; auto. repeat split; ss; auto.
Qed.

Lemma storeCBlock_post o l :
  base l -> d_stage (l_s l) = StoreCBlock -> past_init (l_s l) ->
  0 <= d_tmpInSize (l_s l) < d_tmpInTarget (l_s l) -> d_tmpInTarget (l_s l) <= d_maxBlock (l_s l) + FD_BFSize ->
  post 0 o l (fst (do_storeCBlock bdec o l)) (snd (do_storeCBlock bdec o l)).
Proof.
  intros (Hc & Ho & Ha) Hst Hp Hs Ht. unfold do_storeCBlock.
  set (n := Z.min (d_tmpInTarget (l_s l) - d_tmpInSize (l_s l)) (zlen (l_src l))).
  pose proof (zlen_nonneg (l_src l)) as Hl. pose proof (past_init_cap _ Hp) as Hcap.
  assert (Hn : 0 <= n <= zlen (l_src l) /\ n <= d_tmpInTarget (l_s l) - d_tmpInSize (l_s l)) by (unfold n; lia).
  rewrite (tmpin_write_eq (l_s l) _ n) by (auto; unfold FD_BFSize in *; lia). ss.
  destruct (d_tmpInSize (l_s l) + n <? d_tmpInTarget (l_s l)) eqn:E.
  - apply Z.ltb_lt in E. ss. split; [acct_tac|]. split.
    + wf_tac Hst.
    + right. unfold prog; ss. intros. left. unfold n in *. lia.
  - apply Z.ltb_ge in E.
    match goal with |- postz _ _ _ _ (fst (do_cblock bdec o ?l1 ?sel)) _ =>
      eapply (post_after_consume 1 o l l1); [acct_tac| ss; unfold n in *; lia | apply cblock_post] end.
    + repeat split; ss; auto; try al_tac.
    + ss. pi_tac.
Qed.

(* ---- uncompressed block ---- *)
Lemma copyDirect_post o l :
  base l -> d_stage (l_s l) = CopyDirect -> past_init (l_s l) -> 0 <= d_tmpInTarget (l_s l) ->
  post 1 o l (fst (do_copyDirect o l)) (snd (do_copyDirect o l)).
Proof.
  intros (Hc & Ho & Ha) Hst Hp Ht. unfold do_copyDirect.
  pose proof (zlen_nonneg (l_src l)) as Hl.
  destruct (o_dstnull o) eqn:Hnull.
  - cbv iota beta. destruct (0 =? d_tmpInTarget (l_s l)) eqn:E.
    + destruct (fi_bcFlag (d_fi (l_s l)) =? 0); ss.
      * split; [acct_tac|]. split; [wf_tac Ho|]. right. repeat split; auto.
      * split; [acct_tac|]. split; [wf_tac Ho|]. right. repeat split; auto.
    + ss. split; [acct_tac|]. split; [wf_tac Hst|]. right. unfold prog. intros; congruence.
  - set (n := Z.min (d_tmpInTarget (l_s l)) (Z.min (zlen (l_src l)) (l_cap l))).
    assert (Hn : 0 <= n <= zlen (l_src l) /\ n <= l_cap l /\ n <= d_tmpInTarget (l_s l)) by (unfold n; lia).
    set (piece := ztake n (l_src l)).
    assert (Hpl : zlen piece = n) by (unfold piece; rewrite zlen_ztake; lia).
    pose proof (upd_copy_core (l_s l) piece n) as C.
    set (s1 := upd_copy (l_s l) piece n) in *.
    destruct C as (C1 & C2 & C3 & C4 & C5 & C6 & C7 & C8 & C9 & C10 & C11).
    assert (Hp1 : past_init s1) by (eapply past_init_core; [|exact Hp]; unfold core_eq; repeat split; auto).
    assert (Ha1 : alloc_ok s1) by (eapply alloc_ok_core; [|exact Ha]; unfold core_eq; repeat split; auto).
    cbv iota beta. ss. rewrite C7, C1.
    assert (AC : forall s2, acct l (mkL s2 (zdrop n (l_src l)) (l_used l + n) (l_out l ++ piece) (l_cap l - n))).
    { intro s2. unfold acct; ss. rewrite zlen_zdrop, zlen_app, Hpl by lia. lia. }
    destruct (n =? d_tmpInTarget (l_s l)) eqn:E.
    + apply Z.eqb_eq in E.
      assert (M : zlen (zdrop n (l_src l)) < zlen (l_src l) \/
                  1 = 1 /\ zlen (zdrop n (l_src l)) = zlen (l_src l) /\ 0 = 0).
      { rewrite zlen_zdrop by lia. destruct (Z.eq_dec n 0); [right; repeat split; lia|left; lia]. }
      destruct (fi_bcFlag (d_fi (l_s l)) =? 0); ss.
      * split; [apply AC|]. split; [|exact M].
        unfold wf, stage_inv; ss. repeat split; try congruence; try al_tac; try pi_tac.
      * split; [apply AC|]. split; [|exact M].
        unfold wf, stage_inv; ss. repeat split; try congruence; try al_tac; try pi_tac; lia.
    + apply Z.eqb_neq in E. ss.
      split; [apply AC|]. split.
      * unfold wf, stage_inv; ss. rewrite C2, Hst. repeat split; try congruence; try al_tac; try pi_tac; lia.
      * right. unfold prog; ss. intros. unfold n in *. lia.
Qed.

(* ---- block header ---- *)
Lemma blockHeader_post o l0 l sel :
  acct l0 l -> l_used l0 < l_used l -> base l -> past_init (l_s l) ->
  post 0 o l0 (fst (do_blockHeader l sel)) (snd (do_blockHeader l sel)).
Proof.
  intros A U (Hc & Ho & Ha) Hp. unfold do_blockHeader.
  pose proof err_neg_all as E. pose proof (past_init_cap _ Hp) as Hcap.
  assert (Hlt : zlen (l_src l) < zlen (l_src l0)) by (unfold acct in A; lia).
  destruct (rd32 sel =? 0).
  { ss. split; [exact A|]. split; [wf_tac Ho|]. left. exact Hlt. }
  set (n := Z.land (rd32 sel) 2147483647).
  assert (Hn : 0 <= n) by (unfold n; apply Z.land_nonneg; right; lia).
  destruct (d_maxBlock (l_s l) <? n) eqn:EM.
  { ss. split; [exact A|]. ss; split; [safe_tac|left; tauto]. }
  apply Z.ltb_ge in EM.
  destruct (negb (Z.land (rd32 sel) FD_BLOCKUNCOMPRESSED_FLAG =? 0)).
  { ss. destruct (fi_bcFlag (d_fi (l_s l)) =? 0); ss;
      (split; [exact A|]; split; [wf_tac Ho|left; exact Hlt]). }
  assert (Hcrc : 0 <= fi_bcFlag (d_fi (l_s l)) * FD_BFSize <= FD_BFSize).
  { destruct Hp as (_ & _ & [-> | ->]); unfold FD_BFSize; lia. }
  destruct ((l_cap l =? 0) || (zlen (l_src l) =? 0)); ss.
  - split; [exact A|]. split; [wf_tac Ho|]. right. unfold prog. intros. left. exact U.
  - split; [exact A|]. split; [wf_tac Ho|]. left. exact Hlt.
Qed.

Lemma storeBlockHeader_post o l :
  base l -> d_stage (l_s l) = StoreBlockHeader -> past_init (l_s l) -> 0 <= d_tmpInSize (l_s l) < FD_BHSize ->
  post 0 o l (fst (do_storeBlockHeader l)) (snd (do_storeBlockHeader l)).
Proof.
  intros (Hc & Ho & Ha) Hst Hp Hs. unfold do_storeBlockHeader.
  set (n := Z.min (FD_BHSize - d_tmpInSize (l_s l)) (zlen (l_src l))).
  pose proof (zlen_nonneg (l_src l)) as Hl. pose proof (past_init_cap _ Hp) as Hcap.
  assert (Hn : 0 <= n <= zlen (l_src l) /\ n <= FD_BHSize - d_tmpInSize (l_s l)) by (unfold n; lia).
  rewrite (tmpin_write_eq (l_s l) _ n) by (auto; unfold FD_BHSize in *; lia). ss.
  destruct (d_tmpInSize (l_s l) + n <? FD_BHSize) eqn:E.
  - apply Z.ltb_lt in E. ss. split; [acct_tac|]. split.
    + wf_tac Hst.
    + right. unfold prog; ss. intros. left. unfold n in *. lia.
  - apply Z.ltb_ge in E.
    apply blockHeader_post; [acct_tac| ss; unfold n in *; lia | |ss; pi_tac].
    repeat split; ss; auto; try al_tac.
Qed.

Lemma getBlockHeader_post o l :
  base l -> past_init (l_s l) ->
  post 0 o l (fst (do_getBlockHeader l)) (snd (do_getBlockHeader l)).
Proof.
  intros (Hc & Ho & Ha) Hp. unfold do_getBlockHeader.
  pose proof (zlen_nonneg (l_src l)) as Hl. assert (H4 : FD_BHSize = 4) by reflexivity.
  destruct (FD_BHSize <=? zlen (l_src l)) eqn:E.
  - apply Z.leb_le in E.
    apply blockHeader_post; [acct_tac| ss; lia | |ss; auto].
    repeat split; ss; auto.
  - apply Z.leb_gt in E.
    match goal with |- postz _ _ _ _ (fst (do_storeBlockHeader ?l1)) _ =>
      change (post 0 o l (fst (do_storeBlockHeader l1)) (snd (do_storeBlockHeader l1)))
        with (post 0 o l1 (fst (do_storeBlockHeader l1)) (snd (do_storeBlockHeader l1))) end.
    apply storeBlockHeader_post; ss; try reflexivity; try (unfold FD_BHSize; lia).
    + repeat split; ss; auto; try al_tac.
    + pi_tac.
Qed.
End Stages.

(* ---- dstage_init: buffer sizing ---- *)
Lemma do_init_props s :
  d_oob s = false -> alloc_ok s -> sizes_ok (d_maxBlock s) -> bc01 s ->
  d_oob (do_init s) = false /\ alloc_ok (do_init s) /\ past_init (do_init s) /\ d_stage (do_init s) = GetBlockHeader.
Proof.
  intros Ho Ha Hs Hb. unfold do_init.
  set (s1 := if fi_ccFlag (d_fi s) =? 0 then s else set_xxh s []).
  assert (C : d_oob s1 = d_oob s /\ d_maxBuf s1 = d_maxBuf s /\ d_tmpInCap s1 = d_tmpInCap s /\
              d_maxBlock s1 = d_maxBlock s /\ d_fi s1 = d_fi s).
  { unfold s1. destruct (_ =? 0); ss; repeat split. }
  destruct C as (C1 & C2 & C3 & C4 & C5).
  unfold linked. rewrite C5.
  set (extra := if fi_blockMode (d_fi s) =? FD_blockLinked then FD_128KB else 0).
  assert (He : extra = 0 \/ extra = FD_128KB) by (unfold extra; destruct (fi_blockMode (d_fi s) =? FD_blockLinked); auto).
  destruct (d_maxBuf s1 <? d_maxBlock s1 + extra) eqn:E; ss.
  - split; [congruence|]. split; [|split; [|reflexivity]].
    + unfold alloc_ok; ss. right. exists (d_maxBlock s1). rewrite C4. repeat split; auto.
      destruct He as [-> | ->]; [left|right]; lia.
    + unfold past_init, bc01; ss. rewrite C4, C5. repeat split; auto. lia.
  - apply Z.ltb_ge in E. split; [congruence|]. split; [|split; [|reflexivity]].
    + eapply alloc_ok_eq; [| |exact Ha]; ss; congruence.
    + unfold past_init, bc01; ss. rewrite C4, C5, C3. repeat split; auto.
      rewrite C2, C4 in E.
      unfold alloc_ok, sizes_ok, FD_BFSize, FD_128KB, FD_blockSize_4, FD_blockSize_5, FD_blockSize_6, FD_blockSize_7 in *.
      destruct Ha as [H0 | (mb & Hm & Hcap & Hbuf)]; lia.
Qed.

(* ---- frame header ---- *)
Lemma wr_app buf off data : zlen buf = off -> wr buf off data = buf ++ data.
Proof.
  intro H. unfold wr. f_equal. unfold zlen in H.
  replace (Z.to_nat off) with (length buf) by lia.
  rewrite firstn_app, Nat.sub_diag, firstn_all. simpl. apply app_nil_r.
Qed.
Lemma rd32_app a b : 4 <= zlen a -> rd32 (a ++ b) = rd32 a.
Proof.
  intro H. unfold rd32, ztake. f_equal. f_equal. unfold zlen in H.
  rewrite firstn_app. replace (Z.to_nat 4 - length a)%nat with 0%nat by lia. simpl. apply app_nil_r.
Qed.
Lemma ztake_all n l : zlen l <= n -> ztake n l = l.
Proof. unfold zlen, ztake. intro H. apply firstn_all2. lia. Qed.

Lemma magic_not_skippable : Z.land FD_MAGICNUMBER SKIP_MASK <> FD_MAGIC_SKIPPABLE_START.
Proof. vm_compute. discriminate. Qed.

Lemma storeFrameHeader_post o l :
  base l -> d_stage (l_s l) = StoreFrameHeader ->
  0 <= d_tmpInSize (l_s l) < d_tmpInTarget (l_s l) -> d_tmpInTarget (l_s l) <= FD_header_array_size ->
  hdr_ext (l_s l) ->
  post 0 o l (fst (do_storeFrameHeader l)) (snd (do_storeFrameHeader l)).
Proof.
  intros (Hc & Ho & Ha) Hst Hs Ht Hx. unfold do_storeFrameHeader.
  set (n := Z.min (d_tmpInTarget (l_s l) - d_tmpInSize (l_s l)) (zlen (l_src l))).
  pose proof (zlen_nonneg (l_src l)) as Hl.
  assert (Hn : 0 <= n <= zlen (l_src l) /\ n <= d_tmpInTarget (l_s l) - d_tmpInSize (l_s l)) by (unfold n; lia).
  set (piece := ztake n (l_src l)).
  assert (Hpl : zlen piece = n) by (unfold piece; rewrite zlen_ztake; lia).
  rewrite (hdr_write_eq (l_s l) _ n) by (auto; lia). ss.
  set (hdr' := wr (d_header (l_s l)) (d_tmpInSize (l_s l)) piece).
  assert (Hlen' : zlen hdr' = d_tmpInSize (l_s l) + n) by (unfold hdr'; rewrite zlen_wr by lia; lia).
  (* the staged prefix is kept by the write when the header is being extended *)
  assert (Hkeep : d_tmpInTarget (l_s l) = FD_minFHSize \/
                  (FD_minFHSize <= d_tmpInSize (l_s l) /\ rd32 hdr' = FD_MAGICNUMBER /\
                   exists FLG bm bc cs cc di, nth_error hdr' 4 = Some FLG /\
                     flg_decode FLG = inr (bm, bc, cs, cc, di) /\ fh_size cs di = d_tmpInTarget (l_s l))).
  { destruct Hx as [Hx|(X1 & X2 & X3 & FLG & bm & bc & cs & cc & di & X4 & X5 & X6)]; [left; exact Hx|right].
    unfold hdr'. rewrite wr_app by exact X1. unfold FD_minFHSize in X2.
    split; [exact X2|]. split; [rewrite rd32_app by lia; exact X3|].
    exists FLG, bm, bc, cs, cc, di. split; [|auto].
    rewrite nth_error_app1; [exact X4|]. unfold zlen in X1. lia. }
  destruct (d_tmpInSize (l_s l) + n <? d_tmpInTarget (l_s l)) eqn:E.
  - apply Z.ltb_lt in E. ss. split; [acct_tac|]. split.
    + unfold wf, stage_inv; ss. rewrite Hst. split; [reflexivity|]. split; [al_tac|].
      split; [lia|]. split; [exact Ht|].
      unfold hdr_ext; ss. fold hdr'.
      destruct Hkeep as [K|(K1 & K2 & K3)]; [left; exact K|right].
      repeat split; auto; lia.
    + right. unfold prog; ss. intros. left. unfold n in *. lia.
  - apply Z.ltb_ge in E.
    assert (Hsz : d_tmpInSize (l_s l) + n = d_tmpInTarget (l_s l)) by lia.
    rewrite (ztake_all _ hdr') by lia.
    match goal with |- context [decodeHeader ?s1 true hdr'] =>
      destruct (decodeHeader s1 true hdr') as [s' r] eqn:ED;
      pose proof (decodeHeader_cases _ _ _ _ _ ED) as (D1 & D2 & D3 & D) end.
    ss.
    assert (Hal : alloc_ok s') by (eapply alloc_ok_eq; [| |exact Ha]; assumption).
    destruct (r <? 0) eqn:ER.
    { apply Z.ltb_lt in ER. ss. split; [acct_tac|]. ss. split; [safe_tac|left; exact ER]. }
    apply Z.ltb_ge in ER. ss.
    split; [acct_tac|]. ss.
    assert (M : zlen (zdrop n (l_src l)) < zlen (l_src l)) by (rewrite zlen_zdrop by lia; lia).
    split; [|left; exact M].
    unfold wf, stage_inv. split; [congruence|]. split; [exact Hal|].
    destruct D as [D|[D|[D|[D|D]]]].
    + lia.
    + destruct D as (_ & Dst & Dsz & Dt & Dm). rewrite Dst, Dsz, Dt.
      destruct Hkeep as [K|(K1 & K2 & K3)].
      * unfold FD_minFHSize, FD_header_array_size in *. lia.
      * exfalso. rewrite K2 in Dm. exact (magic_not_skippable Dm).
    + destruct D as (D & _). discriminate D.
    + destruct D as (Dst & Dsz & Dt & D7 & _ & Dh & Dm & FLG & bm & bc & cs & cc & di & N4 & EF & FS).
      rewrite Dst. rewrite Dsz.
      destruct Hkeep as [K|(K1 & K2 & FLG2 & bm2 & bc2 & cs2 & cc2 & di2 & N42 & EF2 & FS2)].
      * split; [lia|]. split; [lia|]. right. rewrite (Dh eq_refl). ss. fold hdr'.
        repeat split; auto; try lia.
        exists FLG, bm, bc, cs, cc, di. auto.
      * exfalso. rewrite N4 in N42. inversion N42; subst. rewrite EF in EF2. inversion EF2; subst. lia.
    + destruct D as (_ & Dst & Ds & Db). rewrite Dst. auto.
Qed.

Lemma getFrameHeader_post o l :
  base l -> d_stage (l_s l) = GetFrameHeader ->
  postz true 0 o l (fst (do_getFrameHeader l)) (snd (do_getFrameHeader l)).
Proof.
  intros (Hc & Ho & Ha) Hst. unfold do_getFrameHeader.
  pose proof (zlen_nonneg (l_src l)) as Hl.
  destruct (FD_maxFHSize <=? zlen (l_src l)) eqn:E.
  - apply Z.leb_le in E. unfold FD_maxFHSize in E.
    destruct (decodeHeader (l_s l) false (l_src l)) as [s' r] eqn:ED.
    pose proof (decodeHeader_cases _ _ _ _ _ ED) as (D1 & D2 & D3 & D).
    assert (Hal : alloc_ok s') by (eapply alloc_ok_eq; [| |exact Ha]; assumption).
    destruct (r <? 0) eqn:ER.
    { apply Z.ltb_lt in ER. ss. split; [acct_tac|]. ss. split; [safe_tac|left; exact ER]. }
    apply Z.ltb_ge in ER. ss.
    destruct D as [D|[D|[D|[D|D]]]]; try lia.
    + destruct D as (_ & -> & D7 & Dst & _).
      split; [acct_tac|]. ss. split; [|left; rewrite zlen_zdrop by lia; lia].
      unfold wf, stage_inv. rewrite Dst. repeat split; auto; congruence.
    + destruct D as (_ & _ & Dt & _). unfold FD_header_array_size in Dt. lia.
    + destruct D as (Dr & Dst & Ds & Db). unfold FD_minFHSize in Dr.
      split; [acct_tac|]. ss. split; [|left; rewrite zlen_zdrop by lia; lia].
      unfold wf, stage_inv. rewrite Dst. repeat split; auto; congruence.
  - apply Z.leb_gt in E.
    destruct (zlen (l_src l) =? 0) eqn:E0.
    { apply Z.eqb_eq in E0. ss. split; [acct_tac|]. ss. split; [safe_tac|]. right.
      split; [reflexivity|]. split; [exact E0|]. split; [|reflexivity]. unfold wf, stage_inv; ss.
      rewrite Hst. repeat split; auto; try al_tac. }
    apply Z.eqb_neq in E0.
    apply post_weaken.
    match goal with |- postz _ _ _ _ (fst (do_storeFrameHeader ?l1)) _ =>
      change (post 0 o l (fst (do_storeFrameHeader l1)) (snd (do_storeFrameHeader l1)))
        with (post 0 o l1 (fst (do_storeFrameHeader l1)) (snd (do_storeFrameHeader l1))) end.
    apply storeFrameHeader_post; ss; try reflexivity.
    + repeat split; ss; auto; try al_tac.
    + unfold FD_minFHSize. lia.
    + unfold FD_minFHSize, FD_header_array_size. lia.
    + left. reflexivity.
Qed.

(* ---- a stage that continues never hands over to dstage_getFrameHeader ---- *)
Ltac brute :=
  repeat (match goal with
          | |- context [if ?c then _ else _] => destruct c
          | |- context [match ?x with Some _ => _ | None => _ end] => destruct x
          end); ss; intros; try discriminate.

Lemma nogfh_sframeSize l sel : snd (do_sframeSize l sel) = Continue -> d_stage (l_s (fst (do_sframeSize l sel))) <> GetFrameHeader.
Proof. unfold do_sframeSize. brute. Qed.
Lemma nogfh_storeSFrameSize l : snd (do_storeSFrameSize l) = Continue -> d_stage (l_s (fst (do_storeSFrameSize l))) <> GetFrameHeader.
Proof. unfold do_storeSFrameSize. destruct (_ <? _); [ss; discriminate|]. apply nogfh_sframeSize. Qed.
Lemma nogfh_getSFrameSize l : snd (do_getSFrameSize l) = Continue -> d_stage (l_s (fst (do_getSFrameSize l))) <> GetFrameHeader.
Proof. unfold do_getSFrameSize. destruct (_ <=? _); [apply nogfh_sframeSize|apply nogfh_storeSFrameSize]. Qed.
Lemma nogfh_skip l : snd (do_skipSkippable l) = Continue -> d_stage (l_s (fst (do_skipSkippable l))) <> GetFrameHeader.
Proof. unfold do_skipSkippable. brute. Qed.
Lemma nogfh_checkSuffix l sel : snd (do_checkSuffix l sel) = Continue -> d_stage (l_s (fst (do_checkSuffix l sel))) <> GetFrameHeader.
Proof. unfold do_checkSuffix. brute. Qed.
Lemma nogfh_storeSuffix l : snd (do_storeSuffix l) = Continue -> d_stage (l_s (fst (do_storeSuffix l))) <> GetFrameHeader.
Proof. unfold do_storeSuffix. destruct (_ <? _); [ss; discriminate|]. apply nogfh_checkSuffix. Qed.
Lemma nogfh_getSuffix l : snd (do_getSuffix l) = Continue -> d_stage (l_s (fst (do_getSuffix l))) <> GetFrameHeader.
Proof.
  unfold do_getSuffix. destruct (negb _); [ss; discriminate|]. destruct (_ =? 0); [ss; discriminate|].
  destruct (_ <? _); [apply nogfh_storeSuffix|apply nogfh_checkSuffix].
Qed.
Lemma nogfh_bcc l crc : snd (do_blockChecksum_check l crc) = Continue -> d_stage (l_s (fst (do_blockChecksum_check l crc))) <> GetFrameHeader.
Proof. unfold do_blockChecksum_check. brute. Qed.
Lemma nogfh_getBlockChecksum l : snd (do_getBlockChecksum l) = Continue -> d_stage (l_s (fst (do_getBlockChecksum l))) <> GetFrameHeader.
Proof.
  unfold do_getBlockChecksum. destruct (_ && _); [apply nogfh_bcc|].
  destruct (_ <? _); [ss; discriminate|]. apply nogfh_bcc.
Qed.
Lemma nogfh_flushOut o l : snd (do_flushOut o l) = Continue -> d_stage (l_s (fst (do_flushOut o l))) <> GetFrameHeader.
Proof. unfold do_flushOut. brute. Qed.
Lemma nogfh_blockHeader l sel : snd (do_blockHeader l sel) = Continue -> d_stage (l_s (fst (do_blockHeader l sel))) <> GetFrameHeader.
Proof. unfold do_blockHeader. brute. Qed.
Lemma nogfh_storeBlockHeader l : snd (do_storeBlockHeader l) = Continue -> d_stage (l_s (fst (do_storeBlockHeader l))) <> GetFrameHeader.
Proof. unfold do_storeBlockHeader. destruct (_ <? _); [ss; discriminate|]. apply nogfh_blockHeader. Qed.
Lemma nogfh_getBlockHeader l : snd (do_getBlockHeader l) = Continue -> d_stage (l_s (fst (do_getBlockHeader l))) <> GetFrameHeader.
Proof. unfold do_getBlockHeader. destruct (_ <=? _); [apply nogfh_blockHeader|apply nogfh_storeBlockHeader]. Qed.
Lemma nogfh_copyDirect o l : snd (do_copyDirect o l) = Continue -> d_stage (l_s (fst (do_copyDirect o l))) <> GetFrameHeader.
Proof. unfold do_copyDirect. destruct (o_dstnull o); cbv iota beta; brute. Qed.
Lemma nogfh_decodeHeader s b src s' r :
  decodeHeader s b src = (s', r) -> 0 <= r -> d_stage s' <> GetFrameHeader.
Proof.
  intros H Hr. pose proof (decodeHeader_cases _ _ _ _ _ H) as (_ & _ & _ & D).
  destruct D as [D|[D|[D|[D|D]]]]; [lia| | | |].
  - destruct D as (_ & -> & _). discriminate.
  - destruct D as (_ & _ & _ & -> & _). discriminate.
  - destruct D as (-> & _). discriminate.
  - destruct D as (_ & -> & _). discriminate.
Qed.
Lemma nogfh_storeFrameHeader l : snd (do_storeFrameHeader l) = Continue -> d_stage (l_s (fst (do_storeFrameHeader l))) <> GetFrameHeader.
Proof.
  unfold do_storeFrameHeader. destruct (_ <? _); [ss; discriminate|].
  match goal with |- context [decodeHeader ?s1 true ?h] => destruct (decodeHeader s1 true h) as [s' r] eqn:ED end.
  destruct (r <? 0) eqn:ER; [ss; discriminate|]. apply Z.ltb_ge in ER. ss. intros _.
  eapply nogfh_decodeHeader; eauto.
Qed.
Lemma nogfh_getFrameHeader l : snd (do_getFrameHeader l) = Continue -> d_stage (l_s (fst (do_getFrameHeader l))) <> GetFrameHeader.
Proof.
  unfold do_getFrameHeader. destruct (_ <=? _).
  - destruct (decodeHeader (l_s l) false (l_src l)) as [s' r] eqn:ED.
    destruct (r <? 0) eqn:ER; [ss; discriminate|]. apply Z.ltb_ge in ER. ss. intros _.
    eapply nogfh_decodeHeader; eauto.
  - destruct (_ =? 0); [ss; discriminate|]. apply nogfh_storeFrameHeader.
Qed.

(* ---- one iteration of the stage loop ---- *)
Lemma postz_true k o l l' oc : post k o l l' oc -> postz true k o l l' oc.
Proof.
  intros [A P]. split; [exact A|]. destruct oc; auto.
  destruct P as [O [P|[P _]]]; [auto|discriminate].
Qed.

Section Iter.
Variable bdec : list byte -> list byte -> option (list byte).

Lemma nogfh_cblock o l sel : snd (do_cblock bdec o l sel) = Continue -> d_stage (l_s (fst (do_cblock bdec o l sel))) <> GetFrameHeader.
Proof.
  unfold do_cblock.
  match goal with |- context [let '(_, _) := ?x in _] => destruct x as [s0 ok] end.
  destruct (negb ok); [ss; discriminate|].
  match goal with |- context [match ?d with Some c => _ | None => _ end] => destruct d as [c|] end; [|ss; discriminate].
  destruct (_ <=? _); [ss; discriminate|]. apply nogfh_flushOut.
Qed.
Lemma iter_nogfh o l : snd (iter bdec o l) = Continue -> d_stage (l_s (fst (iter bdec o l))) <> GetFrameHeader.
Proof.
  unfold iter. destruct (d_stage (l_s l)).
  - apply nogfh_getFrameHeader. - apply nogfh_storeFrameHeader. - apply nogfh_getBlockHeader.
  - apply nogfh_getBlockHeader. - apply nogfh_storeBlockHeader. - apply nogfh_copyDirect.
  - apply nogfh_getBlockChecksum.
  - unfold do_getCBlock. destruct (_ <? _); [ss; discriminate|apply nogfh_cblock].
  - unfold do_storeCBlock. destruct (_ <? _); [ss; discriminate|apply nogfh_cblock].
  - apply nogfh_flushOut. - apply nogfh_getSuffix. - apply nogfh_storeSuffix.
  - apply nogfh_getSFrameSize. - apply nogfh_storeSFrameSize. - apply nogfh_skip.
Qed.

Definition is_gfh (st : dstage) : bool := match st with GetFrameHeader => true | _ => false end.

Lemma iter_post o l :
  wf (l_s l) -> 0 <= l_cap l ->
  postz (is_gfh (d_stage (l_s l))) (rank (d_stage (l_s l))) o l (fst (iter bdec o l)) (snd (iter bdec o l)).
Proof.
  intros (Ho & Ha & Hi) Hc. unfold iter. unfold stage_inv in Hi.
  assert (B : base l) by (repeat split; auto).
  destruct (d_stage (l_s l)) eqn:Hst; cbn [rank is_gfh].
  - apply getFrameHeader_post; auto.
  - destruct Hi as (H1 & H2 & H3). apply storeFrameHeader_post; auto.
  - destruct Hi as (H1 & H2).
    destruct (do_init_props (l_s l) Ho Ha H1 H2) as (I1 & I2 & I3 & I4).
   
    match goal with |- postz _ _ _ _ (fst (do_getBlockHeader ?l1)) _ =>
      change (post 0 o l (fst (do_getBlockHeader l1)) (snd (do_getBlockHeader l1)))
        with (post 0 o l1 (fst (do_getBlockHeader l1)) (snd (do_getBlockHeader l1))) end.
    apply getBlockHeader_post; ss; auto. repeat split; ss; auto.
  - apply getBlockHeader_post; auto.
  - destruct Hi as (H1 & H2). apply storeBlockHeader_post; auto.
  - destruct Hi as (H1 & H2). apply copyDirect_post; auto.
  - destruct Hi as (H1 & H2). apply getBlockChecksum_post; auto.
  - destruct Hi as (H1 & H2). apply getCBlock_post; auto.
  - destruct Hi as (H1 & H2 & H3). apply storeCBlock_post; auto.
  - destruct Hi as (H1 & H2). apply flushOut_post; auto.
  - apply getSuffix_post; auto.
  - destruct Hi as (H1 & H2). apply storeSuffix_post; auto.
  - apply getSFrameSize_post; auto.
  - destruct Hi as (H1 & H2). apply storeSFrameSize_post; auto.
  - apply skipSkippable_post; auto.
Qed.

(* ---- the whole loop ---- *)
Lemma rank_range st : 0 <= rank st <= 1.
Proof. destruct st; cbn; lia. Qed.

Lemma run_post o : forall fuel l l' f,
  wf (l_s l) -> 0 <= l_cap l -> run bdec fuel o l = (l', f) ->
  acct l l' /\
  safe (l_s l') /\
  (mu l < Z.of_nat fuel -> f <> FFuel) /\
  match f with
  | FStop h => wf (l_s l') /\ (h = 0 \/ prog o l l')
  | FRet v => v < 0 \/ (zlen (l_src l) = 0 /\ d_stage (l_s l) = GetFrameHeader /\ wf (l_s l') /\ 0 < v)
  | FFuel => True
  end.
Proof.
  induction fuel as [|fuel IH]; intros l l' f Hwf Hc Hr.
  - simpl in Hr. inversion Hr; subst. split; [apply acct_refl; auto|]. split; [split; apply Hwf|].
    split; [|exact I]. unfold mu. pose proof (zlen_nonneg (l_src l')). pose proof (rank_range (d_stage (l_s l'))). lia.
  - cbn [run] in Hr.
    pose proof (iter_post o l Hwf Hc) as P. pose proof (iter_nogfh o l) as NG.
    destruct (iter bdec o l) as [l1 oc]. cbn [fst snd] in P, NG. destruct P as [A P].
    destruct oc as [|h|v].
    + destruct P as [W M].
      assert (Hc1 : 0 <= l_cap l1) by (unfold acct in A; lia).
      destruct (IH l1 l' f W Hc1 Hr) as (A1 & O1 & F1 & R1).
      split; [eapply acct_trans; eauto|]. split; [exact O1|]. split.
      * intro Hm. apply F1.
        pose proof (rank_range (d_stage (l_s l))). pose proof (rank_range (d_stage (l_s l1))).
        unfold mu in *. destruct M as [M|(M1 & M2 & M3)]; [lia|]. rewrite M1 in *. lia.
      * destruct f as [h| v|]; auto.
        -- destruct R1 as [W1 R1]. split; [exact W1|]. destruct R1 as [R1|R1]; [left; exact R1|right].
           unfold prog in *. unfold acct in *. intros H1 H2 H3.
           destruct (Z.eq_dec (l_used l1) (l_used l)) as [e|e]; [|left; lia].
           destruct (Z.eq_dec (l_cap l1) (l_cap l)) as [e2|e2]; [|right; lia].
           destruct R1; auto; lia.
        -- destruct R1 as [R1|[_ [R1 _]]]; [left; exact R1|].
           (* a return with a non-negative value only happens in dstage_getFrameHeader, which no
              continuing stage hands over to *)
           exfalso. exact (NG eq_refl R1).
    + inversion Hr; subst. destruct P as [W P]. split; [exact A|]. split; [split; apply W|]. split; [discriminate|]. auto.
    + inversion Hr; subst. destruct P as [O P]. split; [exact A|]. split; [exact O|]. split; [discriminate|].
      destruct P as [P|[Z [P W]]]; auto. right. split; [exact P|]. split; [|exact W].
      destruct (d_stage (l_s l)); try discriminate Z. reflexivity.
Qed.
End Iter.

(* ---- one call of LZ4F_decompress / LZ4F_decompress_usingDict ---- *)
Lemma wf_set_skip s v : wf s -> wf (set_skip s v).
Proof.
  intros (H1 & H2 & H3). unfold wf, alloc_ok, stage_inv, hdr_ext, past_init, bc01 in *. ss. auto.
Qed.
Lemma wf_set_hist s v : wf s -> wf (set_hist s v).
Proof.
  intros (H1 & H2 & H3). unfold wf, alloc_ok, stage_inv, hdr_ext, past_init, bc01 in *. ss. auto.
Qed.

Section Call.
Variable bdec : list byte -> list byte -> option (list byte).

(* everything the model-level part of C08 says about one call *)
Definition call_ok (s : dstate) (src : list byte) (cap : Z) (o : dopts) (s' : dstate) (r : dres) : Prop :=
  r_fuel r = false /\                                   (* the fuel 4*|src|+16 suffices *)
  safe s' /\                                            (* header[] and tmpIn[] never written out of bounds; buffer sizing consistent *)
  0 <= r_consumed r <= zlen src /\                      (* never reports more than it was given *)
  0 <= r_produced r <= cap /\ zlen (r_out r) <= cap /\
  (r_ret r < 0 \/ wf s') /\                             (* the invariant survives every call that does not fail *)
  (1 <= zlen src -> 1 <= cap -> o_dstnull o = false ->  (* no livelock *)
   r_ret r < 0 \/ r_ret r = 0 \/ 0 < r_consumed r \/ 0 < r_produced r).

Theorem decompress_ok s src cap o :
  wf s -> 0 <= cap ->
  call_ok s src cap o (fst (decompress bdec s src cap o)) (snd (decompress bdec s src cap o)).
Proof.
  intros Hwf Hc. unfold decompress.
  set (s0 := set_skip s (d_skip s || o_skip o)).
  assert (W0 : wf s0) by (apply wf_set_skip; exact Hwf).
  set (l0 := mkL s0 src 0 [] cap).
  destruct (run bdec (call_fuel src) o l0) as [l' f] eqn:ER.
  pose proof (run_post bdec o (call_fuel src) l0 l' f W0 Hc ER) as (A & O & F & R).
  pose proof (zlen_nonneg src) as Hl. pose proof (zlen_nonneg (l_src l')) as Hl'.
  pose proof (zlen_nonneg (l_out l')) as Hlo.
  assert (Hmu : mu l0 < Z.of_nat (call_fuel src)).
  { unfold mu, call_fuel, l0; ss. pose proof (rank_range (d_stage s0)). lia. }
  specialize (F Hmu).
  unfold acct, l0 in A; ss. rewrite zlen_nil in A.
  unfold call_ok. destruct f as [h|v|]; [| |congruence]; ss.
  - destruct R as [W P]. split; [reflexivity|]. split; [exact O|]. split; [lia|]. split; [lia|]. split; [lia|].
    split; [right; exact W|].
    intros H1 H2 H3. destruct P as [P|P]; [auto|].
    unfold prog, l0 in P; ss. specialize (P H1 H2 H3). lia.
  - split; [reflexivity|]. split; [exact O|]. split; [lia|]. split; [lia|]. split; [lia|]. split.
    + destruct R as [R|(_ & _ & R & _)]; auto.
    + intros H1 _ _. destruct R as [R|(R & _)]; [auto|]. unfold l0 in R; ss. lia.
Qed.

Theorem decompress_usingDict_ok s src cap dict o :
  wf s -> 0 <= cap ->
  call_ok s src cap o (fst (decompress_usingDict bdec s src cap dict o))
                      (snd (decompress_usingDict bdec s src cap dict o)).
Proof.
  intros Hwf Hc. unfold decompress_usingDict.
  destruct (stage_num (d_stage s) <=? FD_dstage_init).
  - pose proof (decompress_ok (set_hist s dict) src cap o (wf_set_hist s dict Hwf) Hc) as H.
    unfold call_ok in *. ss. exact H.
  - apply decompress_ok; auto.
Qed.

Lemma rd32_ztake n l : 4 <= n -> rd32 (ztake n l) = rd32 l.
Proof.
  intro H. unfold rd32, ztake. rewrite firstn_firstn. replace (Nat.min (Z.to_nat 4) (Z.to_nat n)) with (Z.to_nat 4) by lia.
  reflexivity.
Qed.
Lemma nth_error_firstn_lt : forall m (l : list byte) k, (k < m)%nat -> nth_error (firstn m l) k = nth_error l k.
Proof.
  induction m as [|m IH]; intros l k H; [lia|].
  destruct l as [|x l]; [destruct k; reflexivity|].
  destruct k as [|k]; [reflexivity|]. simpl. apply IH. lia.
Qed.
Lemma nth_error_ztake n (l : list byte) k : Z.of_nat k < n -> nth_error (ztake n l) k = nth_error l k.
Proof. intro H. unfold ztake. apply nth_error_firstn_lt. lia. Qed.
Lemma headerSize_fh src FLG bm bc cs cc di :
  0 <= headerSize false src -> rd32 src = FD_MAGICNUMBER -> nth_error src 4 = Some FLG ->
  flg_decode FLG = inr (bm, bc, cs, cc, di) -> headerSize false src = fh_size cs di.
Proof.
  unfold headerSize. intros H0 Hm N4 EF. cbv iota in *.
  destruct (zlen src <? _); [exfalso; revert H0; vm_compute; auto|].
  rewrite Hm in *.
  replace (Z.land FD_MAGICNUMBER SKIP_MASK =? FD_MAGIC_SKIPPABLE_START) with false in * by (vm_compute; reflexivity).
  replace (negb (FD_MAGICNUMBER =? FD_MAGICNUMBER)) with false in * by (vm_compute; reflexivity).
  rewrite N4 in *. unfold flg_decode in EF.
  destruct (negb _); [discriminate|]. destruct (negb _); [discriminate|]. inversion EF; subst. reflexivity.
Qed.

(* LZ4F_getFrameInfo keeps the invariant too *)
Theorem getFrameInfo_ok s src :
  wf s ->
  let '(s', r) := getFrameInfo bdec s src in
  i_fuel r = false /\ safe s' /\ 0 <= i_consumed r <= zlen src /\ (i_ret r < 0 \/ wf s').
Proof.
  intros Hwf. unfold getFrameInfo. pose proof (zlen_nonneg src) as Hl.
  assert (Hsafe : safe s) by (split; apply Hwf).
  destruct (FD_dstage_storeFrameHeader <? stage_num (d_stage s)).
  { pose proof (decompress_ok s [] 0 (mkO false false true) Hwf (Z.le_refl 0)) as H.
    destruct (decompress bdec s [] 0 (mkO false false true)) as [s' r]. unfold call_ok in H; ss.
    destruct H as (H1 & H2 & H3 & H4 & H5 & H6 & _). split; [exact H1|]. split; [exact H2|]. split; [lia|exact H6]. }
  destruct (stage_num (d_stage s) =? FD_dstage_storeFrameHeader).
  { ss. split; [reflexivity|]. split; [exact Hsafe|]. split; [lia|]. left. vm_compute. reflexivity. }
  destruct (headerSize false src <? 0) eqn:EH.
  { apply Z.ltb_lt in EH. ss. split; [reflexivity|]. split; [exact Hsafe|]. split; [lia|]. left. exact EH. }
  apply Z.ltb_ge in EH.
  destruct (zlen src <? headerSize false src) eqn:EL.
  { ss. split; [reflexivity|]. split; [exact Hsafe|]. split; [lia|]. left. vm_compute. reflexivity. }
  apply Z.ltb_ge in EL.
  destruct (decodeHeader s false (ztake (headerSize false src) src)) as [s' r] eqn:ED.
  pose proof (decodeHeader_cases _ _ _ _ _ ED) as (D1 & D2 & D3 & D).
  destruct Hwf as (W1 & W2 & W3).
  assert (Hal : alloc_ok s') by (eapply alloc_ok_eq; [| |exact W2]; assumption).
  assert (Hs' : safe s') by (split; [congruence|exact Hal]).
  rewrite zlen_ztake in D by lia.
  destruct (r <? 0) eqn:ER; ss.
  { apply Z.ltb_lt in ER. split; [reflexivity|]. split; [exact Hs'|]. split; [lia|]. left. exact ER. }
  apply Z.ltb_ge in ER. split; [reflexivity|]. split; [exact Hs'|].
  destruct D as [D|[D|[D|[D|D]]]]; try lia.
  - destruct D as (_ & -> & D7 & Dst & _). split; [unfold FD_minFHSize in *; lia|]. right.
    unfold wf, stage_inv. rewrite Dst. repeat split; auto; congruence.
  - exfalso. destruct D as (_ & _ & Dt & D7 & _ & _ & Dm & FLG & bm & bc & cs & cc & di & N4 & EF & FS).
    unfold FD_minFHSize in D7.
    rewrite rd32_ztake in Dm by lia. rewrite nth_error_ztake in N4 by lia.
    pose proof (headerSize_fh src FLG bm bc cs cc di EH Dm N4 EF). lia.
  - destruct D as (Dr & Dst & Ds & Db). split; [unfold FD_minFHSize in *; lia|]. right.
    unfold wf, stage_inv. rewrite Dst. repeat split; auto; congruence.
Qed.
End Call.

(* ---- every state an API-conforming caller can reach ---- *)
Section Reach.
Variable bdec : list byte -> list byte -> option (list byte).

Definition call_caps_ok (c : dcall) : Prop :=
  match c with CDec _ cap _ _ => 0 <= cap | _ => True end.

(* [Reach s failed]: s is reachable from a fresh context by calls with non-negative capacities,
   where after a call that returned an error only LZ4F_resetDecompressionContext is used
   (lz4frame.h: "After a decompression error, the dctx context is not resumable") *)
Inductive Reach : dstate -> bool -> Prop :=
  | R_init : Reach dctx_init false
  | R_call s c : Reach s false -> call_caps_ok c ->
                 Reach (fst (do_call bdec s c)) (ob_ret (snd (do_call bdec s c)) <? 0)
  | R_reset s b : Reach s b -> Reach (reset s) false.

Theorem reach_wf s b : Reach s b -> safe s /\ (b = false -> wf s).
Proof.
  induction 1 as [|s c R IH Hc|s b R IH].
  - split; [split; apply wf_init|intros _; apply wf_init].
  - destruct IH as [_ IH]. specialize (IH eq_refl).
    destruct c as [src cap [d|] o|src|]; cbn [do_call call_caps_ok] in *.
    + pose proof (decompress_usingDict_ok bdec s src cap d o IH Hc) as H.
      destruct (decompress_usingDict bdec s src cap d o) as [s' r]. unfold call_ok in H; ss.
      destruct H as (_ & H2 & _ & _ & _ & H6 & _). unfold ob_ret. split; [exact H2|]. intro E. apply Z.ltb_ge in E.
      destruct H6; [lia|auto].
    + pose proof (decompress_ok bdec s src cap o IH Hc) as H.
      destruct (decompress bdec s src cap o) as [s' r]. unfold call_ok in H; ss.
      destruct H as (_ & H2 & _ & _ & _ & H6 & _). unfold ob_ret. split; [exact H2|]. intro E. apply Z.ltb_ge in E.
      destruct H6; [lia|auto].
    + pose proof (getFrameInfo_ok bdec s src IH) as H.
      destruct (getFrameInfo bdec s src) as [s' r]. ss.
      destruct H as (_ & H2 & _ & H4). unfold ob_ret. split; [exact H2|]. intro E. apply Z.ltb_ge in E.
      destruct H4; [lia|auto].
    + ss. destruct IH as (I1 & I2 & _).
      assert (W : wf (reset s)) by (apply wf_reset; auto).
      split; [split; apply W|intros _; exact W].
  - destruct IH as [[I1 I2] _].
    assert (W : wf (reset s)) by (apply wf_reset; auto).
    split; [split; apply W|intros _; exact W].
Qed.
End Reach.

(* ---- statements exported to Properties_C08.v ---- *)
Section Export.
Variable bdec : list byte -> list byte -> option (list byte).

Lemma do_call_dec_ok s src cap dict o :
  wf s -> 0 <= cap ->
  let '(s', ob) := do_call bdec s (CDec src cap dict o) in
  exists r, call_ok s src cap o s' r /\ ob_consumed ob = r_consumed r /\ ob_produced ob = r_produced r /\
            ob_out ob = r_out r /\ ob_ret ob = r_ret r.
Proof.
  intros Hwf Hc. cbn [do_call]. destruct dict as [d|].
  - pose proof (decompress_usingDict_ok bdec s src cap d o Hwf Hc) as H.
    destruct (decompress_usingDict bdec s src cap d o) as [s' r]. exists r. ss. auto.
  - pose proof (decompress_ok bdec s src cap o Hwf Hc) as H.
    destruct (decompress bdec s src cap o) as [s' r]. exists r. ss. auto.
Qed.

Theorem progress_thm s src cap dict o :
  wf s -> 1 <= zlen src -> 1 <= cap -> o_dstnull o = false ->
  let ob := snd (do_call bdec s (CDec src cap dict o)) in
  ob_ret ob < 0 \/ ob_ret ob = 0 \/ 0 < ob_consumed ob \/ 0 < ob_produced ob.
Proof.
  intros Hwf H1 H2 H3. pose proof (do_call_dec_ok s src cap dict o Hwf ltac:(lia)) as H.
  destruct (do_call bdec s (CDec src cap dict o)) as [s' ob]. destruct H as (r & C & E1 & E2 & E3 & E4).
  cbn [snd]. rewrite E1, E2, E4. apply C; auto.
Qed.

Theorem reports_within_given_thm s src cap dict o :
  wf s -> 0 <= cap ->
  let ob := snd (do_call bdec s (CDec src cap dict o)) in
  0 <= ob_consumed ob <= zlen src /\ 0 <= ob_produced ob <= cap /\ zlen (ob_out ob) <= cap.
Proof.
  intros Hwf Hc. pose proof (do_call_dec_ok s src cap dict o Hwf Hc) as H.
  destruct (do_call bdec s (CDec src cap dict o)) as [s' ob]. destruct H as (r & C & E1 & E2 & E3 & E4).
  cbn [snd]. rewrite E1, E2, E3. unfold call_ok in C. tauto.
Qed.

Theorem no_fuel_out_thm s src cap o :
  wf s -> 0 <= cap -> r_fuel (snd (decompress bdec s src cap o)) = false.
Proof. intros Hwf Hc. apply (decompress_ok bdec s src cap o Hwf Hc). Qed.

Theorem staging_in_bounds_thm s b : Reach bdec s b -> d_oob s = false.
Proof. intro R. destruct (reach_wf bdec s b R) as [[H _] _]. exact H. Qed.

Theorem wf_invariant_thm s : Reach bdec s false -> wf s.
Proof. intro R. destruct (reach_wf bdec s false R) as [_ H]. apply H. reflexivity. Qed.
End Export.
